// Binding E+R for C18 (PBKDF2/HKDF give RFC output; HKDF streams are prefix-consistent).
//
// VERIF_CASES holds TRACE lines of spec/Kdf_MC.tla (toy-hash vectors, HKDF PRK + full 255-block
// streams and PBKDF2 keys evaluated by TLC from spec/Kdf.tla with the toy hash of spec/PrimToy.tla),
// TRACE lines of spec/HkdfReader_Gen.tla (Read histories with the model's prediction per call, for
// H in {3, 4} (toy) and {20, 32, 64} (SHA-1, SHA-256, SHA-512)), and optional vectors computed by
// Python's hashlib/hmac (t = "pyhkdf" / "pypbkdf2").  The harness drives the REAL
// golang.org/x/crypto/hkdf (Extract, Expand, New, Reader.Read) and golang.org/x/crypto/pbkdf2 (Key),
// with the toy hash plugged in for the TLC values and with the standard hashes for the RFC 5869 /
// RFC 6070 vectors, crypto/hkdf called directly, the Python vectors and the Go transcription of
// the TLA+ definitions (toyprim, validated against the TLC values in the same run).
package c18

import (
	"bytes"
	stdhkdf "crypto/hkdf"
	"crypto/sha1"
	"crypto/sha256"
	"crypto/sha512"
	"encoding/hex"
	"encoding/json"
	"fmt"
	"hash"
	"io"
	"os"
	"testing"

	"golang.org/x/crypto/hkdf"
	"golang.org/x/crypto/pbkdf2"
	"verif/harness/toyprim"
	"verif/harness/vutil"
)

type vec struct {
	H int   `json:"h"`
	M []int `json:"m"`
	K []int `json:"k"`
	D []int `json:"d"`
}

type read struct {
	N    int  `json:"n"`
	Err  bool `json:"err"`
	From int  `json:"from"`
}

type rec struct {
	T      string `json:"t"`
	H      int    `json:"h"`
	Hash   []vec  `json:"hash"`
	Hmac   []vec  `json:"hmac"`
	Secret []int  `json:"secret"`
	Salt   []int  `json:"salt"`
	Info   []int  `json:"info"`
	PRK    []int  `json:"prk"`
	OKM    []int  `json:"okm"`
	PW     []int  `json:"pw"`
	Iter   int    `json:"iter"`
	DKLen  int    `json:"dklen"`
	DK     []int  `json:"dk"`
	Reads  []read `json:"reads"`
	// python vectors (hex)
	HashName string `json:"hashname"`
	XSecret  string `json:"xsecret"`
	XSalt    string `json:"xsalt"`
	XInfo    string `json:"xinfo"`
	XPRK     string `json:"xprk"`
	XOKM     string `json:"xokm"`
	XPW      string `json:"xpw"`
	XDK      string `json:"xdk"`
}

func tb(v []int) []byte {
	b := make([]byte, len(v))
	for i, x := range v {
		b[i] = byte(x)
	}
	return b
}

func hx(b []byte) string {
	if len(b) > 40 {
		return hex.EncodeToString(b[:40]) + "..."
	}
	return hex.EncodeToString(b)
}

func unhex(s string) []byte { b, _ := hex.DecodeString(s); return b }

func toyNew(h int) func() hash.Hash { return func() hash.Hash { return toyprim.NewHash(h) } }

type namedHash struct {
	name string
	f    func() hash.Hash
	size int
}

var realHashes = []namedHash{{"sha1", sha1.New, 20}, {"sha256", sha256.New, 32}, {"sha384", sha512.New384, 48}, {"sha512", sha512.New, 64}}

func hashByName(n string) (func() hash.Hash, bool) {
	for _, h := range realHashes {
		if h.name == n {
			return h.f, true
		}
	}
	return nil, false
}

type env struct {
	t    *testing.T
	out  *vutil.Out
	seen map[string]int
	// bnd counts, per hash, replays in which a Read ended exactly on a block boundary after generating at
	// least one whole block, the caller's buffer was then overwritten, and a later Read generated a new block
	bnd map[string]int
}

// fail records a violation (at most 5 per signature, so that one defect does not crowd out another).
func (e *env) fail(sig, what string, d map[string]any) {
	if e.seen == nil {
		e.seen = map[string]int{}
	}
	e.seen[sig]++
	if e.seen[sig] <= 5 {
		e.out.Violation(sig, what, d)
	}
	if e.seen[sig] <= 20 {
		e.t.Errorf("%s: %s %v", sig, what, d)
	} else {
		e.t.Fail()
	}
}

// guard runs f and reports a panic of the real code as a violation.
func (e *env) guard(sig string, d map[string]any, f func()) {
	defer func() {
		if r := recover(); r != nil {
			d["panic"] = fmt.Sprint(r)
			e.fail(sig, "panic on a valid input", d)
		}
	}()
	f()
}

// stream describes one HKDF instance: how to build the real reader, and the expected stream.
type stream struct {
	label                   string
	hname                   string
	newHash                 func() hash.Hash
	hsize                   int
	secret, salt, info, prk []byte
	okm                     []byte // full 255*hsize bytes
}

// reader builds a real reader from private copies of the inputs; the copies of secret, salt and PRK
// (consumed by the constructor) are overwritten before the reader is used.  info is passed as a
// private copy that nobody modifies: hkdfReader keeps the caller's info slice (see probeInfoAliasing).
func (s *stream) reader(viaNew bool) io.Reader {
	cp := func(b []byte) []byte { return append([]byte(nil), b...) }
	wipe := func(b []byte) {
		for i := range b {
			b[i] = 0xA5
		}
	}
	var r io.Reader
	if viaNew {
		var salt []byte
		if len(s.salt) > 0 {
			salt = cp(s.salt)
		}
		secret := cp(s.secret)
		r = hkdf.New(s.newHash, secret, salt, cp(s.info))
		wipe(secret)
		wipe(salt)
	} else {
		prk := cp(s.prk)
		r = hkdf.Expand(s.newHash, prk, cp(s.info))
		wipe(prk)
	}
	return r
}

// Buffer disciplines of a replay: the buffers passed to Read belong to the caller, the reader must not
// retain them (spec/HkdfReader.tla, action Scribble).
const (
	discFreshScribble  = 0 // a fresh buffer per Read, overwritten (00 / ff / pseudo-random) once its content is checked
	discSharedScribble = 1 // one array reused for every Read, overwritten between Reads
	discSharedKeep     = 2 // one array reused for every Read, still holding the previous output
	nDisc              = 3
)

var discName = []string{"fresh buffer, overwritten after use", "shared buffer, overwritten between reads", "shared buffer, previous output left in place"}

func scribble(b []byte, k int) {
	switch k % 3 {
	case 0:
		for i := range b {
			b[i] = 0
		}
	case 1:
		for i := range b {
			b[i] = 0xff
		}
	default:
		x := uint32(k)*2654435761 + 12345
		for i := range b {
			x = x*1664525 + 1013904223
			b[i] = byte(x >> 24)
		}
	}
}

// replay runs one history of Read sizes on a real reader.  The judgement is the abstract model's rule
// (spec/HkdfReader.tla): with pos bytes consumed, Read(n) must fail iff n > 255*H - pos and then
// consume nothing; otherwise it returns the next bytes of the stream.  model, when non-nil, carries
// TLC's own prediction per call and is cross-checked against the rule (harness self-check).
func (e *env) replay(s *stream, viaNew bool, disc int, sizes []int, model []read, src string) {
	limit := 255 * s.hsize
	d := func(i int, extra map[string]any) map[string]any {
		m := map[string]any{"stream": s.label, "hash": s.hname, "via": map[bool]string{true: "New", false: "Expand"}[viaNew],
			"reads": sizes, "index": i, "source": src, "buffers": discName[disc]}
		for k, v := range extra {
			m[k] = v
		}
		return m
	}
	e.guard("c18-hkdf-panic", d(-1, nil), func() {
		r := s.reader(viaNew)
		pos := 0
		var shared []byte
		if disc != discFreshScribble {
			mx := 0
			for _, n := range sizes {
				if n > mx {
					mx = n
				}
			}
			shared = bytes.Repeat([]byte{0xEE}, mx)
		}
		armed, counted := false, false
		for i, n := range sizes {
			wantErr := n > limit-pos
			if model != nil && (model[i].Err != wantErr || (!wantErr && model[i].From != pos)) {
				e.t.Fatalf("harness: abstract rule disagrees with TLC's history %v at %d", sizes, i)
			}
			var buf []byte
			if disc == discFreshScribble {
				buf = bytes.Repeat([]byte{0xEE}, n)
			} else {
				buf = shared[:n]
			}
			if armed && n > 0 && !wantErr && !counted { // this Read has to generate a new block after the scribble
				counted = true
				e.bnd[s.hname]++
			}
			got, err := r.Read(buf)
			// copy the result out, then - the caller owns buf - overwrite it before anything else happens
			var res []byte
			if got >= 0 && got <= n {
				res = append([]byte(nil), buf[:got]...)
			}
			scribbled := false
			if disc != discSharedKeep && n > 0 {
				scribble(buf, i+n)
				scribbled = true
			}
			if wantErr {
				if err == nil {
					e.fail("c18-hkdf-read-beyond-limit-succeeds", "Read beyond the 255*HashLen limit did not fail",
						d(i, map[string]any{"pos": pos, "n": n, "returned": got}))
					return
				}
				if got != 0 {
					e.fail("c18-hkdf-failed-read-consumed", "failing Read reported consumed bytes", d(i, map[string]any{"pos": pos, "n": n, "returned": got}))
					return
				}
				continue // state must be unchanged: the following reads are judged from the same pos
			}
			if err != nil {
				e.fail("c18-hkdf-read-within-limit-fails", "Read within the 255*HashLen limit failed",
					d(i, map[string]any{"pos": pos, "n": n, "err": err.Error()}))
				return
			}
			if got > n || (got == 0 && n > 0) {
				e.fail("c18-hkdf-read-count", "Read returned an impossible count", d(i, map[string]any{"pos": pos, "n": n, "returned": got}))
				return
			}
			if got < n {
				e.out.Extra["short_reads"] = 1
			}
			if !bytes.Equal(res, s.okm[pos:pos+got]) {
				j := 0
				for j < got && res[j] == s.okm[pos+j] {
					j++
				}
				e.fail("c18-hkdf-stream-mismatch", "Read returned bytes that are not the next bytes of the RFC 5869 stream",
					d(i, map[string]any{"pos": pos, "n": n, "first_diff_at_stream_pos": pos + j, "block": (pos+j)/s.hsize + 1,
						"got": hx(res[j:got]), "want": hx(s.okm[pos+j : pos+got])}))
				return
			}
			if fresh := got - (s.hsize-pos%s.hsize)%s.hsize; scribbled && fresh >= s.hsize && fresh%s.hsize == 0 {
				armed = true
			}
			pos += got
		}
	})
}

// probeInfoAliasing reports whether modifying the info slice after hkdf.Expand changes later output.
// hkdf.Expand/New store the caller's slice; RFC 5869 and the package documentation are silent on
// ownership of constructor arguments, so this is recorded, not judged.
func probeInfoAliasing() string {
	prk := bytes.Repeat([]byte{7}, 32)
	want := make([]byte, 96)
	io.ReadFull(hkdf.Expand(sha256.New, prk, []byte("context-info")), want)
	info := []byte("context-info")
	r := hkdf.Expand(sha256.New, prk, info)
	got := make([]byte, 96)
	io.ReadFull(r, got[:32])
	for i := range info {
		info[i] = 0
	}
	io.ReadFull(r, got[32:])
	if bytes.Equal(got, want) {
		return "no: output unaffected by overwriting info after Expand"
	}
	return "yes: overwriting the info slice after Expand changes every later block (the reader aliases the caller's slice)"
}

func TestReplay(t *testing.T) {
	out := vutil.NewOut()
	defer func() {
		if err := out.Write(); err != nil {
			t.Errorf("write out: %v", err)
		}
	}()
	e := &env{t: t, out: out, bnd: map[string]int{}}
	var cases []rec
	if err := vutil.ReadNDJSON(os.Getenv("VERIF_CASES"), func(line []byte) error {
		var r rec
		if err := json.Unmarshal(line, &r); err != nil {
			return err
		}
		cases = append(cases, r)
		return nil
	}); err != nil {
		t.Fatalf("cases: %v", err)
	}

	// ---- 1. harness self-check: Go twins against TLC (no verdict)
	nv := 0
	for _, r := range cases {
		switch r.T {
		case "toyvec":
			for _, v := range r.Hash {
				if !bytes.Equal(toyprim.Sum(v.H, tb(v.M)), tb(v.D)) {
					t.Fatalf("harness: toyprim.Hash differs from PrimToy!ToyHash evaluated by TLC: %+v", v)
				}
				// chunked writes and Sum-then-continue give the same digest
				hh := toyprim.NewHash(v.H)
				m := tb(v.M)
				hh.Write(m[:len(m)/2])
				hh.Sum(nil)
				hh.Write(m[len(m)/2:])
				if !bytes.Equal(hh.Sum(nil), tb(v.D)) {
					t.Fatalf("harness: toyprim.Hash chunking")
				}
				nv++
			}
			for _, v := range r.Hmac {
				if !bytes.Equal(toyprim.HMAC(toyNew(v.H), tb(v.K), tb(v.M)), tb(v.D)) {
					t.Fatalf("harness: toyprim.HMAC differs from PrimToy!ToyHMAC evaluated by TLC: %+v", v)
				}
				nv++
			}
		case "hkdf":
			prk := toyprim.HKDFExtract(toyNew(r.H), tb(r.Salt), tb(r.Secret))
			if !bytes.Equal(prk, tb(r.PRK)) || !bytes.Equal(toyprim.HKDFStream(toyNew(r.H), prk, tb(r.Info), 255), tb(r.OKM)) {
				t.Fatalf("harness: toyprim.HKDF differs from Kdf!HkdfStream evaluated by TLC (h=%d)", r.H)
			}
			nv++
		case "pbkdf2":
			if !bytes.Equal(toyprim.PBKDF2(toyNew(r.H), tb(r.PW), tb(r.Salt), r.Iter, r.DKLen), tb(r.DK)) {
				t.Fatalf("harness: toyprim.PBKDF2 differs from Kdf!Pbkdf2 evaluated by TLC (h=%d iter=%d dklen=%d)", r.H, r.Iter, r.DKLen)
			}
			nv++
		}
	}
	if nv < 20 {
		t.Fatalf("harness: too few TLC vectors (%d)", nv)
	}
	out.Extra["tlc_vectors_validating_go_twins"] = nv

	// ---- 2. streams: toy (expected bytes from TLC) and real hashes (expected bytes from the validated
	// transcription, cross-checked with crypto/hkdf called directly)
	var streams []*stream
	for _, r := range cases {
		if r.T != "hkdf" {
			continue
		}
		s := &stream{label: fmt.Sprintf("toy%d secret=%d salt=%d info=%d", r.H, len(r.Secret), len(r.Salt), len(r.Info)), hname: fmt.Sprintf("toy%d", r.H),
			newHash: toyNew(r.H), hsize: r.H, secret: tb(r.Secret), salt: tb(r.Salt), info: tb(r.Info), prk: tb(r.PRK), okm: tb(r.OKM)}
		streams = append(streams, s)
	}
	rng := vutil.Rand(18)
	nReal := 2
	if vutil.Thorough() {
		nReal = 6
	}
	for _, nh := range realHashes {
		for i := 0; i < nReal; i++ {
			secret := make([]byte, rng.Intn(80))
			rng.Read(secret)
			var salt []byte
			if i%3 != 0 {
				salt = make([]byte, 1+rng.Intn(2*nh.size+70)) // sometimes longer than the hash block
				rng.Read(salt)
			}
			info := make([]byte, rng.Intn(40)*(i%2))
			rng.Read(info)
			prk := toyprim.HKDFExtract(nh.f, salt, secret)
			okm := toyprim.HKDFStream(nh.f, prk, info, 255)
			// third opinion: the standard library called directly
			sprk, err1 := stdhkdf.Extract(nh.f, secret, salt)
			sokm, err2 := stdhkdf.Expand(nh.f, prk, string(info), 255*nh.size)
			if err1 != nil || err2 != nil || !bytes.Equal(sprk, prk) || !bytes.Equal(sokm, okm) {
				t.Fatalf("harness: transcription and crypto/hkdf disagree for %s", nh.name)
			}
			streams = append(streams, &stream{label: fmt.Sprintf("%s #%d secret=%d salt=%d info=%d", nh.name, i, len(secret), len(salt), len(info)),
				hname: nh.name, newHash: nh.f, hsize: nh.size, secret: secret, salt: salt, info: info, prk: prk, okm: okm})
		}
	}
	// python vectors (independent implementation), when provided
	npy := 0
	for _, r := range cases {
		if r.T != "pyhkdf" {
			continue
		}
		f, ok := hashByName(r.HashName)
		if !ok {
			continue
		}
		s := &stream{label: fmt.Sprintf("python %s secret=%d salt=%d info=%d", r.HashName, len(r.XSecret)/2, len(r.XSalt)/2, len(r.XInfo)/2), hname: r.HashName,
			newHash: f, hsize: f().Size(), secret: unhex(r.XSecret), salt: unhex(r.XSalt), info: unhex(r.XInfo), prk: unhex(r.XPRK), okm: unhex(r.XOKM)}
		if len(s.okm) != 255*s.hsize {
			t.Fatalf("harness: bad python vector")
		}
		streams = append(streams, s)
		npy++
	}
	// RFC 5869 appendix A vectors: Extract value and the stream prefix
	raw, err := os.ReadFile("rfc5869.json")
	if err != nil {
		t.Fatalf("harness: %v", err)
	}
	var rfc []struct{ Hash, Master, Salt, Prk, Info, Out string }
	if err := json.Unmarshal(raw, &rfc); err != nil || len(rfc) == 0 {
		t.Fatalf("harness: rfc5869.json: %v", err)
	}
	for i, v := range rfc {
		f, ok := hashByName(v.Hash)
		if !ok {
			continue
		}
		d := map[string]any{"vector": fmt.Sprintf("RFC 5869 (package test table #%d, %s)", i, v.Hash)}
		e.guard("c18-hkdf-panic", d, func() {
			var salt []byte
			if v.Salt != "" {
				salt = unhex(v.Salt)
			}
			prk := hkdf.Extract(f, unhex(v.Master), salt)
			if !bytes.Equal(prk, unhex(v.Prk)) {
				d["got"], d["want"] = hx(prk), v.Prk
				e.fail("c18-hkdf-extract-mismatch", "hkdf.Extract differs from the RFC 5869 test vector", d)
			}
			for _, viaNew := range []bool{true, false} {
				var rd io.Reader
				if viaNew {
					rd = hkdf.New(f, unhex(v.Master), salt, unhex(v.Info))
				} else {
					rd = hkdf.Expand(f, unhex(v.Prk), unhex(v.Info))
				}
				got := make([]byte, len(v.Out)/2)
				if _, err := io.ReadFull(rd, got); err != nil || !bytes.Equal(got, unhex(v.Out)) {
					d["got"], d["want"], d["via_new"] = hx(got), v.Out, viaNew
					e.fail("c18-hkdf-stream-mismatch", "HKDF output differs from the RFC 5869 test vector", d)
				}
			}
		})
		out.Case(fmt.Sprintf("rfc5869 #%d", i))
	}

	// ---- 3. Extract / whole-stream reads on every stream
	for _, s := range streams {
		d := map[string]any{"stream": s.label, "hash": s.hname}
		e.guard("c18-hkdf-panic", d, func() {
			var salt []byte
			if len(s.salt) > 0 {
				salt = s.salt
			}
			prk := hkdf.Extract(s.newHash, s.secret, salt)
			if !bytes.Equal(prk, s.prk) {
				e.fail("c18-hkdf-extract-mismatch", "hkdf.Extract differs from HMAC(salt, secret) per RFC 5869 2.2",
					map[string]any{"stream": s.label, "got": hx(prk), "want": hx(s.prk)})
			}
			if len(s.salt) == 0 { // an empty non-nil salt is the same as an absent one
				if p2 := hkdf.Extract(s.newHash, s.secret, []byte{}); !bytes.Equal(p2, s.prk) {
					e.fail("c18-hkdf-extract-mismatch", "hkdf.Extract with an empty salt differs from HashLen zero octets",
						map[string]any{"stream": s.label, "got": hx(p2), "want": hx(s.prk)})
				}
			}
		})
		for _, viaNew := range []bool{false, true} {
			e.replay(s, viaNew, discFreshScribble, []int{255 * s.hsize, 0, 1}, nil, "whole-stream")
			e.replay(s, viaNew, discSharedScribble, []int{s.hsize, 2 * s.hsize, 1, s.hsize - 1, 3 * s.hsize, s.hsize + 1}, nil, "block-boundaries")
			out.Case("whole " + s.label + fmt.Sprint(viaNew))
		}
	}

	// ---- 4. TLC's Read histories on every stream with the matching hash size
	nh := 0
	for _, r := range cases {
		if r.T != "hist" {
			continue
		}
		sizes := make([]int, len(r.Reads))
		for i, x := range r.Reads {
			sizes[i] = x.N
		}
		// every history on up to 6 streams of the matching hash size (rotating through all of them)
		var match []*stream
		for _, s := range streams {
			if s.hsize == r.H {
				match = append(match, s)
			}
		}
		for k := 0; k < len(match) && k < 6; k++ {
			s := match[(nh+k)%len(match)]
			e.replay(s, (nh+k)%2 == 0, (nh/2+k)%nDisc, sizes, r.Reads, "tlc-history")
			out.Case(fmt.Sprintf("hist %s %v", s.label, sizes))
		}
		if nh%500 == 0 {
			out.Sample(map[string]any{"h": r.H, "reads": r.Reads})
		}
		nh++
	}
	if nh < 100 {
		t.Fatalf("harness: too few histories (%d)", nh)
	}
	out.Extra["tlc_histories"] = nh
	out.Extra["python_hkdf_vectors"] = npy

	// ---- 5. long random histories (many small reads walking the whole stream), judged by the same rule
	nRand := 40
	if vutil.Thorough() {
		nRand = 600
	}
	for i := 0; i < nRand; i++ {
		s := streams[rng.Intn(len(streams))]
		limit := 255 * s.hsize
		var sizes []int
		pos := 0
		maxRead := []int{3, s.hsize + 2, 3*s.hsize + 1, limit / 7}[i%4]
		for len(sizes) < 4000 {
			n := rng.Intn(maxRead + 1)
			if rng.Intn(50) == 0 {
				n = limit - pos + rng.Intn(3) // around what is left
			} else if rng.Intn(8) == 0 {
				n = (s.hsize-pos%s.hsize)%s.hsize + s.hsize*(1+rng.Intn(3)) // end exactly on a block boundary
			}
			sizes = append(sizes, n)
			if n <= limit-pos {
				pos += n
			}
			if pos == limit && rng.Intn(3) == 0 {
				sizes = append(sizes, 0, 1, 0)
				break
			}
		}
		e.replay(s, i%2 == 0, (i/2)%nDisc, sizes, nil, "random-history")
		out.Case(fmt.Sprintf("rand %d %s", i, s.label))
	}

	// vacuity guard data: replays that exercised "Read ends on a block boundary, buffer overwritten, new block generated"
	tot := 0
	per := map[string]any{}
	for k, v := range e.bnd {
		per[k] = v
		tot += v
	}
	out.Extra["boundary_scribble_newblock_replays"] = tot
	out.Extra["boundary_scribble_newblock_replays_per_hash"] = per

	// ---- 5b. informational probe (never a verdict): the reader keeps the caller's info slice
	out.Extra["informational"] = map[string]any{"info_slice_retained_by_reader": probeInfoAliasing()}

	// ---- 6. PBKDF2 with the toy hash against TLC
	for _, r := range cases {
		if r.T != "pbkdf2" {
			continue
		}
		label := fmt.Sprintf("toy%d pw=%d salt=%d iter=%d dklen=%d", r.H, len(r.PW), len(r.Salt), r.Iter, r.DKLen)
		want := tb(r.DK)
		lens := []int{r.DKLen}
		if r.DKLen <= 40 { // shorter keys are prefixes (RFC 8018 5.2 step 4)
			for n := 1; n < r.DKLen; n++ {
				lens = append(lens, n)
			}
		}
		for _, n := range lens {
			d := map[string]any{"case": label, "keylen": n}
			e.guard("c18-pbkdf2-panic", d, func() {
				got := pbkdf2.Key(tb(r.PW), tb(r.Salt), r.Iter, n, toyNew(r.H))
				if !bytes.Equal(got, want[:n]) {
					d["got"], d["want"] = hx(got), hx(want[:n])
					e.fail("c18-pbkdf2-mismatch", "pbkdf2.Key differs from RFC 8018 PBKDF2 over the supplied hash", d)
				}
			})
			out.Case(fmt.Sprintf("%s n=%d", label, n))
		}
	}
	// ---- 7. PBKDF2 with real hashes: RFC 6070 vectors, python vectors, the validated transcription
	raw, err = os.ReadFile("rfc6070.json")
	if err != nil {
		t.Fatalf("harness: %v", err)
	}
	var v6070 []struct {
		Hash, Password, Salt, Out string
		Iter                      int
	}
	if err := json.Unmarshal(raw, &v6070); err != nil || len(v6070) == 0 {
		t.Fatalf("harness: rfc6070.json: %v", err)
	}
	checkPB := func(src, hname string, f func() hash.Hash, pw, salt []byte, iter int, want []byte) {
		d := map[string]any{"source": src, "hash": hname, "pw": hx(pw), "salt": hx(salt), "iter": iter, "keylen": len(want)}
		e.guard("c18-pbkdf2-panic", d, func() {
			got := pbkdf2.Key(pw, salt, iter, len(want), f)
			if !bytes.Equal(got, want) {
				d["got"], d["want"] = hx(got), hx(want)
				e.fail("c18-pbkdf2-mismatch", "pbkdf2.Key differs from RFC 8018 PBKDF2", d)
			}
		})
		out.Case(fmt.Sprintf("pbkdf2 %s %s %x %x %d %d", src, hname, pw, salt, iter, len(want)))
	}
	for _, v := range v6070 {
		if f, ok := hashByName(v.Hash); ok {
			checkPB("rfc6070", v.Hash, f, unhex(v.Password), unhex(v.Salt), v.Iter, unhex(v.Out))
		}
	}
	npb := 0
	for _, r := range cases {
		if r.T != "pypbkdf2" {
			continue
		}
		if f, ok := hashByName(r.HashName); ok {
			checkPB("python", r.HashName, f, unhex(r.XPW), unhex(r.XSalt), r.Iter, unhex(r.XDK))
			npb++
		}
	}
	out.Extra["python_pbkdf2_vectors"] = npb
	nPB := 60
	if vutil.Thorough() {
		nPB = 600
	}
	for i := 0; i < nPB; i++ {
		nh := realHashes[i%len(realHashes)]
		pw := make([]byte, rng.Intn(2*nh.size+80)) // sometimes longer than the HMAC block
		rng.Read(pw)
		salt := make([]byte, rng.Intn(40))
		rng.Read(salt)
		iter := 1 + rng.Intn(5)
		if i%10 == 0 {
			iter = 100 + rng.Intn(400)
		}
		kl := nh.size*rng.Intn(4) + []int{-1, 0, 1, rng.Intn(nh.size)}[rng.Intn(4)]
		if kl < 1 {
			kl = 1
		}
		if i%25 == 3 {
			kl = 255*nh.size + rng.Intn(2*nh.size+2) // block index 256 and beyond: INT(i) second octet
			iter = 1
		}
		checkPB("transcription", nh.name, nh.f, pw, salt, iter, toyprim.PBKDF2(nh.f, pw, salt, iter, kl))
	}
}
