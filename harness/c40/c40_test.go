// Binding R for C40 (spec/SSHSig.tla).  Every case TLC enumerated is materialised with real keys of
// every type and the package's own signers (security keys: software P-256 / Ed25519 keys wrapped as
// sk-* public keys, signatures laid out as PROTOCOL.u2f defines):
//   part 1  a signature (signer type x algorithm x presented format x mutation class x flag bytes) is
//           presented to PublicKey.Verify of the same / another key of every type (plain, inside a
//           Certificate, or -- for the no-touch-required clone -- through CertChecker.CheckCert with a
//           security-key CA, the public route to skKeyWithoutUP);
//   part 2  NewSignerWithAlgorithms / Sign / SignWithAlgorithm on the package's signers;
//   part 3  a real client/server handshake with a security-key client key, flags byte fl and the
//           no-touch-required opt-out placed in the callback's Permissions or the certificate.
package c40

import (
	"bytes"
	"crypto/elliptic"
	"crypto/rand"
	"encoding/base64"
	"encoding/json"
	"fmt"
	"hash/fnv"
	"math/big"
	"strings"
	"sync"
	"testing"
	"time"

	"golang.org/x/crypto/ssh"
	"verif/harness/c38lib"
	"verif/harness/memconn"
	"verif/harness/vutil"
)

type vcase struct {
	TS      string `json:"ts"`
	A       string `json:"a"`
	TV      string `json:"tv"`
	Same    bool   `json:"same"`
	F       string `json:"f"`
	Mu      string `json:"mu"`
	Fl      int    `json:"fl"`
	Flp     int    `json:"flp"`
	NoTouch bool   `json:"notouch"`
	Wrap    string `json:"wrap"`
}
type mcase struct {
	KT   string   `json:"kt"`
	L1   []string `json:"l1"`
	L2   []string `json:"l2"`
	Call string   `json:"call"`
	Alg  string   `json:"alg"`
}
type ocase struct {
	Fl    int    `json:"fl"`
	Perms string `json:"perms"`
	Cert  string `json:"cert"`
}
type tcase struct {
	Part  int      `json:"part"`
	V     vcase    `json:"v"`
	Acc   bool     `json:"acc"`
	Why   string   `json:"why"`
	Valid bool     `json:"valid"`
	Unj   bool     `json:"unjudged"`
	M     mcase    `json:"m"`
	New   bool     `json:"new"`
	OK    bool     `json:"ok"`
	Fmt   string   `json:"fmt"`
	Algs  []string `json:"algs"`
	O     ocase    `json:"o"`
	Login bool     `json:"login"`
}

func hashOf(s string, salt int64) uint64 {
	h := fnv.New64a()
	fmt.Fprintf(h, "%d|%d|%s", vutil.Seed(), salt, s)
	return h.Sum64()
}

var sigCount = map[string]int{}
var mu sync.Mutex

func viol(out *vutil.Out, sig, what string, detail any) {
	mu.Lock()
	defer mu.Unlock()
	sigCount[sig]++
	out.Extra["violations:"+sig] = sigCount[sig]
	if sigCount[sig] <= 3 {
		out.Violation(sig, what, detail)
	}
}
func bump(out *vutil.Out, k string) {
	mu.Lock()
	defer mu.Unlock()
	n, _ := out.Extra[k].(int)
	out.Extra[k] = n + 1
}

type world struct {
	k1, k2  map[string]*c38lib.Key
	datas   [][]byte
	sigs    map[string]*ssh.Signature
	short   map[string][]byte // data whose RSA signature (per algorithm) starts with a zero byte
	hostKey *c38lib.Key
}

func newWorld(t *testing.T) *world {
	w := &world{sigs: map[string]*ssh.Signature{}, short: map[string][]byte{}}
	var err error
	if w.k1, err = c38lib.KeySet(2048); err != nil {
		t.Fatal(err)
	}
	if w.k2, err = c38lib.KeySet(2048); err != nil {
		t.Fatal(err)
	}
	if w.hostKey, err = c38lib.NewKey(ssh.KeyAlgoED25519, 0); err != nil {
		t.Fatal(err)
	}
	r := vutil.Rand(40)
	long := make([]byte, 1500)
	r.Read(long)
	w.datas = [][]byte{{}, []byte("verif C40 message"), long}
	return w
}

// sign produces a signature by key k1[ts] with algorithm a (security keys: flags fl).
func (w *world) sign(ts, a string, data []byte, fl byte) (*ssh.Signature, error) {
	k := w.k1[ts]
	if k.SK != nil {
		return k.SK.SignFlags(data, fl, 41)
	}
	as, ok := k.Signer.(ssh.AlgorithmSigner)
	if !ok {
		return nil, fmt.Errorf("signer for %s is not an AlgorithmSigner", ts)
	}
	return as.SignWithAlgorithm(rand.Reader, data, a)
}

func (w *world) cachedSign(ts, a string, di int, fl byte) (*ssh.Signature, error) {
	key := fmt.Sprintf("%s|%s|%d|%d", ts, a, di, fl)
	if s, ok := w.sigs[key]; ok {
		return s, nil
	}
	s, err := w.sign(ts, a, w.datas[di], fl)
	if err == nil {
		w.sigs[key] = s
	}
	return s, err
}

func cloneSig(s *ssh.Signature) *ssh.Signature {
	return &ssh.Signature{Format: s.Format, Blob: append([]byte(nil), s.Blob...), Rest: append([]byte(nil), s.Rest...)}
}

func curveOrder(ts string) *big.Int {
	switch ts {
	case ssh.KeyAlgoECDSA384:
		return elliptic.P384().Params().N
	case ssh.KeyAlgoECDSA521:
		return elliptic.P521().Params().N
	}
	return elliptic.P256().Params().N
}

func isEC(ts string) bool {
	return strings.HasPrefix(ts, "ecdsa-") || ts == ssh.KeyAlgoSKECDSA256
}

// mutate applies the mutation class to a copy of the signature; returns nil if not applicable here.
func mutate(ts string, s *ssh.Signature, c vcase, h uint64) (*ssh.Signature, error) {
	s = cloneSig(s)
	flipAt := func(frac int) {
		if len(s.Blob) > 0 {
			s.Blob[(len(s.Blob)*frac/4)%len(s.Blob)] ^= 1 << (h % 8)
		}
	}
	var r, ss *big.Int
	if isEC(ts) {
		rd := &c38lib.R{B: s.Blob}
		r, ss = new(big.Int).SetBytes(rd.Str()), new(big.Int).SetBytes(rd.Str())
		if rd.Err != nil {
			return nil, rd.Err
		}
	}
	switch c.Mu {
	case "none", "otherdata":
	case "flipA":
		if isEC(ts) {
			r.Xor(r, big.NewInt(1<<(h%8)))
			s.Blob = (&c38lib.W{}).Mpint(r).Mpint(ss).B
		} else {
			flipAt(1)
		}
	case "flipB":
		if isEC(ts) {
			ss.Xor(ss, big.NewInt(1<<(h%8)))
			s.Blob = (&c38lib.W{}).Mpint(r).Mpint(ss).B
		} else {
			flipAt(3)
		}
	case "prefix01":
		s.Blob = append([]byte{0x01}, s.Blob...)
	case "prefixFF":
		s.Blob = append([]byte{0xff}, s.Blob...)
	case "prefix00":
		s.Blob = append([]byte{0x00}, s.Blob...)
	case "prefixMany":
		pre := make([]byte, 2+h%31)
		for i := range pre {
			pre[i] = byte(h >> (uint(i) % 56))
		}
		if h%3 == 0 {
			pre[0] = 0 // a zero first, then non-zero bytes
			pre[len(pre)-1] |= 1
		}
		s.Blob = append(pre, s.Blob...)
	case "trail":
		s.Blob = append(s.Blob, byte(h>>8))
	case "trunc":
		if len(s.Blob) > 0 {
			s.Blob = s.Blob[:len(s.Blob)-1]
		}
	case "empty":
		s.Blob = nil
	case "flagsAfter":
		s.Rest[0] = byte(c.Flp)
	case "counterAfter":
		s.Rest[4] ^= 1
	case "restTrunc":
		s.Rest = s.Rest[:4]
	case "restTrail":
		s.Rest = append(s.Rest, 0)
	case "rsaShort":
		for len(s.Blob) > 0 && s.Blob[0] == 0 {
			s.Blob = s.Blob[1:]
		}
	case "ecdsaPadR":
		s.Blob = (&c38lib.W{}).Str(append([]byte{0}, c38lib.MpintBytes(r)...)).Mpint(ss).B
	case "ecdsaNegS":
		s.Blob = (&c38lib.W{}).Mpint(r).Mpint(new(big.Int).Sub(curveOrder(ts), ss)).B
	default:
		return nil, fmt.Errorf("unknown mutation %q", c.Mu)
	}
	return s, nil
}

func otherData(d []byte, h uint64) []byte {
	switch {
	case len(d) == 0:
		return []byte{0}
	case h%3 == 0:
		return append(append([]byte(nil), d...), 'x')
	case h%3 == 1:
		return d[:len(d)-1]
	}
	o := append([]byte(nil), d...)
	o[int(h>>8)%len(o)] ^= 1 << (h % 8)
	return o
}

func (w *world) verifyKey(c vcase) ssh.PublicKey {
	if c.Same {
		return w.k1[c.TV].Pub
	}
	if c.TV == c.TS {
		return w.k2[c.TV].Pub
	}
	return w.k1[c.TV].Pub
}

// rsaShortData finds data whose signature with algorithm a starts with a zero byte.
func (w *world) rsaShortData(a string) ([]byte, *ssh.Signature, error) {
	for i := 0; i < 20000; i++ {
		d := []byte(fmt.Sprintf("short-%s-%d-%d", a, vutil.Seed(), i))
		if s, ok := w.sigs["short|"+a]; ok {
			return w.short[a], s, nil
		}
		s, err := w.sign(ssh.KeyAlgoRSA, a, d, 1)
		if err != nil {
			return nil, nil, err
		}
		if s.Blob[0] == 0 {
			w.short[a], w.sigs["short|"+a] = d, s
			return d, s, nil
		}
	}
	return nil, nil, fmt.Errorf("no RSA signature with a leading zero byte found")
}

func (w *world) part1(out *vutil.Out, tc tcase, line []byte) (bad bool, err error) {
	c := tc.V
	key := string(line)
	h := hashOf(key, 1)
	di := int(h>>4) % len(w.datas)
	data := w.datas[di]
	var base *ssh.Signature
	kv := w.verifyKey(c)
	var certForNoTouch *ssh.Certificate
	switch {
	case c.NoTouch:
		// the no-touch-required clone is reachable through CheckCert: the key under test is the CA key
		certForNoTouch = &ssh.Certificate{Key: w.k2[ssh.KeyAlgoED25519].Pub, Serial: h, CertType: ssh.UserCert, KeyId: "c40",
			ValidBefore: ssh.CertTimeInfinity, Nonce: []byte{byte(h), byte(h >> 8)}, SignatureKey: kv}
		m := certForNoTouch.Marshal()
		data = m[:len(m)-4]
		if base, err = w.sign(c.TS, c.A, data, byte(c.Fl)); err != nil {
			return false, err
		}
	case c.Mu == "rsaShort":
		if data, base, err = w.rsaShortData(c.A); err != nil {
			return false, err
		}
	default:
		if base, err = w.cachedSign(c.TS, c.A, di, byte(c.Fl)); err != nil {
			return false, err
		}
	}
	sig, err := mutate(c.TS, base, c, h>>12)
	if err != nil {
		return false, err
	}
	sig.Format = c.F
	var verr error
	if c.NoTouch {
		if c.Mu == "otherdata" {
			certForNoTouch.KeyId = "c40-changed-after-signing"
		}
		certForNoTouch.Signature = sig
		chk := &ssh.CertChecker{Clock: func() time.Time { return time.Unix(1700000000, 0) }}
		verr = chk.CheckCert("", certForNoTouch)
	} else {
		vdata := data
		if c.Mu == "otherdata" {
			vdata = otherData(data, h>>20)
		}
		pk := kv
		if c.Wrap == "cert" {
			pk = &ssh.Certificate{Key: kv}
		}
		verr = pk.Verify(vdata, sig)
	}
	acc := verr == nil
	out.Case(key)
	det := func() map[string]any {
		return map[string]any{"case": tc, "real": map[string]any{"accept": acc, "error": fmt.Sprint(verr)},
			"verify_key_b64": base64.StdEncoding.EncodeToString(kv.Marshal()), "sig_format": sig.Format,
			"sig_blob_b64": base64.StdEncoding.EncodeToString(sig.Blob), "sig_rest_b64": base64.StdEncoding.EncodeToString(sig.Rest)}
	}
	if tc.Unj {
		// same signature value in another encoding / algebraic twin: reported, not judged
		if acc {
			bump(out, "benign_variant_accepted:"+c.Mu)
		} else if tc.Acc {
			bump(out, "benign_variant_rejected:"+c.Mu)
		}
		return false, nil
	}
	if acc == tc.Valid {
		if acc != tc.Acc {
			bump(out, "code_model_drift")
		}
		return false, nil
	}
	if acc {
		why := "mutation:" + c.Mu
		switch {
		case tc.Why == "format":
			why = "format-not-allowed-for-key-type"
		case c.TV != c.TS || !c.Same:
			why = "other-key"
		case c.F != c.A:
			why = "other-algorithm-label"
		case tc.Why == "presence":
			why = "missing-user-presence"
		}
		viol(out, "verify:accepted-invalid:"+why, fmt.Sprintf("Verify accepted a signature that is not valid (%s): signer %s/%s, key %s (same=%v), format %q, mutation %s, flags %d->%d, notouch=%v",
			why, c.TS, c.A, c.TV, c.Same, c.F, c.Mu, c.Fl, c.Flp, c.NoTouch), det())
	} else {
		viol(out, "verify:rejected-valid:"+c.TS+"/"+c.A, fmt.Sprintf("Verify rejected a valid signature made by the package's signer: %v", verr), det())
	}
	return true, nil
}

func sameList(a, b []string) bool {
	if len(a) != len(b) {
		return false
	}
	for i := range a {
		if a[i] != b[i] {
			return false
		}
	}
	return true
}
func contains(l []string, x string) bool {
	for _, y := range l {
		if x == y {
			return true
		}
	}
	return false
}

func (w *world) part2(out *vutil.Out, tc tcase, line []byte) (bad bool, err error) {
	c := tc.M
	out.Case(string(line))
	k := w.k1[c.KT]
	as, ok := k.Signer.(ssh.AlgorithmSigner)
	if !ok {
		return false, fmt.Errorf("%s signer is not an AlgorithmSigner", c.KT)
	}
	det := map[string]any{"case": tc}
	ms, err1 := ssh.NewSignerWithAlgorithms(as, c.L1)
	list := c.L1
	if err1 == nil && !(len(c.L2) == 1 && c.L2[0] == "-") {
		ms, err1 = ssh.NewSignerWithAlgorithms(ms, c.L2)
		list = c.L2
	}
	if err1 != nil {
		if tc.New {
			bump(out, "constructor_stricter_than_model")
		}
		return false, nil
	}
	got := ms.Algorithms()
	for _, a := range got {
		if !contains(c.L1, a) {
			viol(out, "multialgo:restriction-widened", fmt.Sprintf("NewSignerWithAlgorithms returned a signer whose Algorithms() %v are not within the first restriction %v", got, c.L1), det)
			return true, nil
		}
	}
	if !tc.New {
		bump(out, "constructor_more_tolerant_than_model")
		list = got
	} else if !sameList(got, tc.Algs) {
		bump(out, "algorithms_list_differs_from_model")
	}
	data := w.datas[int(hashOf(string(line), 2)%uint64(len(w.datas)))]
	var sig *ssh.Signature
	var serr error
	if c.Call == "Sign" {
		sig, serr = ms.Sign(rand.Reader, data)
	} else {
		sig, serr = ms.SignWithAlgorithm(rand.Reader, data, c.Alg)
	}
	det["real"] = map[string]any{"error": fmt.Sprint(serr), "algorithms": got}
	if serr != nil {
		want := c.Alg
		if want == "" {
			want = c.KT
		}
		if c.Call == "SignWithAlgorithm" && contains(list, want) && tc.OK {
			viol(out, "signer-refuses-listed-algorithm", fmt.Sprintf("SignWithAlgorithm(%q) fails although the algorithm is in the signer's list %v: %v", c.Alg, list, serr), det)
			return true, nil
		}
		if tc.OK {
			bump(out, "signer_stricter_than_model")
		}
		return false, nil
	}
	det["real"].(map[string]any)["format"] = sig.Format
	if !contains(list, sig.Format) {
		viol(out, "multialgo:"+c.Call+"-uses-algorithm-outside-list",
			fmt.Sprintf("%s on a signer restricted to %v produced a %q signature", c.Call, list, sig.Format), det)
		return true, nil
	}
	if verr := k.Pub.Verify(data, sig); verr != nil {
		viol(out, "signer-signature-does-not-verify:"+c.KT+"/"+sig.Format, "a signature produced by the package's signer does not verify under its public key: "+verr.Error(), det)
		return true, nil
	}
	if !tc.OK {
		bump(out, "signer_more_tolerant_than_model")
	}
	return false, nil
}

func (w *world) handshake(skType string, c ocase) (bool, string) {
	k := w.k1[skType]
	var signer ssh.Signer = k.SK.WithFlags(byte(c.Fl))
	mk := func(kind string) map[string]string {
		if kind == "ext" || kind == "crit" {
			return map[string]string{"no-touch-required": ""}
		}
		return nil
	}
	if c.Cert != "plain" {
		cert := &ssh.Certificate{Key: k.Pub, CertType: ssh.UserCert, ValidBefore: ssh.CertTimeInfinity, KeyId: "c40"}
		if c.Cert == "ext" {
			cert.Extensions = mk("ext")
		} else if c.Cert == "crit" {
			cert.CriticalOptions = mk("crit")
		}
		if err := cert.SignCert(rand.Reader, w.hostKey.Signer); err != nil {
			return false, "SignCert: " + err.Error()
		}
		var err error
		if signer, err = ssh.NewCertSigner(cert, signer); err != nil {
			return false, "NewCertSigner: " + err.Error()
		}
	}
	sc := &ssh.ServerConfig{PublicKeyCallback: func(ssh.ConnMetadata, ssh.PublicKey) (*ssh.Permissions, error) {
		p := &ssh.Permissions{}
		if c.Perms == "ext" {
			p.Extensions = mk("ext")
		} else if c.Perms == "crit" {
			p.CriticalOptions = mk("crit")
		}
		return p, nil
	}}
	sc.AddHostKey(w.hostKey.Signer)
	a, b := memconn.Pair()
	done := make(chan error, 1)
	go func() {
		conn, _, _, err := ssh.NewServerConn(b, sc)
		if err == nil {
			conn.Close()
		} else {
			b.Close()
		}
		done <- err
	}()
	cc := &ssh.ClientConfig{User: "u", Auth: []ssh.AuthMethod{ssh.PublicKeys(signer)}, HostKeyCallback: ssh.InsecureIgnoreHostKey()}
	conn, _, _, cerr := ssh.NewClientConn(a, "verif:22", cc)
	if cerr == nil {
		conn.Close()
	} else {
		a.Close()
	}
	serr := <-done
	return cerr == nil && serr == nil, fmt.Sprintf("client: %v; server: %v", cerr, serr)
}

func (w *world) part3(out *vutil.Out, tc tcase, line []byte) bool {
	bad := false
	for _, skType := range []string{ssh.KeyAlgoSKED25519, ssh.KeyAlgoSKECDSA256} {
		ok, info := w.handshake(skType, tc.O)
		mu.Lock()
		out.Case(skType + "|" + string(line))
		mu.Unlock()
		if ok == tc.Login {
			continue
		}
		bad = true
		det := map[string]any{"case": tc, "key_type": skType, "real": map[string]any{"login": ok, "info": info}}
		if ok {
			viol(out, "sk-presence:login-without-user-presence", fmt.Sprintf("public key authentication with a %s signature whose flags byte %d lacks user presence succeeded without a no-touch-required extension (permissions: %s, certificate: %s)",
				skType, tc.O.Fl, tc.O.Perms, tc.O.Cert), det)
		} else {
			viol(out, "sk-presence:login-refused", fmt.Sprintf("public key authentication with a %s signature (flags %d, permissions: %s, certificate: %s) was refused: %s",
				skType, tc.O.Fl, tc.O.Perms, tc.O.Cert, info), det)
		}
	}
	return bad
}

func TestC40(t *testing.T) {
	out := vutil.NewOut()
	defer func() {
		if err := out.Write(); err != nil {
			t.Fatal(err)
		}
	}()
	w := newWorld(t)
	fails := 0
	var p3 []struct {
		tc   tcase
		line []byte
	}
	n := 0
	err := vutil.ReadNDJSON(vutil.Env("VERIF_CASES", ""), func(line []byte) error {
		var tc tcase
		if err := json.Unmarshal(line, &tc); err != nil {
			return err
		}
		line = append([]byte(nil), line...)
		n++
		if n%1499 == 1 {
			out.Sample(json.RawMessage(line))
		}
		var bad bool
		var err error
		func() {
			// a panic inside the package (Verify, signers) is a violation, not a harness failure
			defer func() {
				if r := recover(); r != nil {
					viol(out, fmt.Sprintf("panic:part%d", tc.Part), fmt.Sprintf("the package panicked: %v", r), map[string]any{"case": tc, "panic": fmt.Sprint(r)})
					bad = true
				}
			}()
			switch tc.Part {
			case 1:
				bad, err = w.part1(out, tc, line)
			case 2:
				bad, err = w.part2(out, tc, line)
			}
		}()
		switch tc.Part {
		case 3:
			p3 = append(p3, struct {
				tc   tcase
				line []byte
			}{tc, line})
		}
		if err != nil {
			return fmt.Errorf("materialise %s: %w", line, err)
		}
		if bad {
			fails++
			if fails <= 10 {
				t.Errorf("case %s", line)
			}
		}
		return nil
	})
	if err != nil {
		t.Fatal(err)
	}
	// handshakes in parallel
	var wg sync.WaitGroup
	ch := make(chan int)
	var p3fails int
	for g := 0; g < 8; g++ {
		wg.Add(1)
		go func() {
			defer wg.Done()
			for i := range ch {
				if w.part3(out, p3[i].tc, p3[i].line) {
					mu.Lock()
					p3fails++
					mu.Unlock()
				}
			}
		}()
	}
	for i := range p3 {
		ch <- i
	}
	close(ch)
	wg.Wait()
	out.Extra["completed"] = true
	if fails+p3fails > 0 {
		t.Errorf("%d failing cases", fails+p3fails)
	}
	_ = bytes.Equal
}
