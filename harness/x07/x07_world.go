package x07

// x07_world.go: one REAL library endpoint (ssh.NewClientConn or ssh.NewServerConn, public API, unchanged code,
// no hook) on one end of an in-memory connection, the independent raw peer (x07_peer.go) on the other, and the
// translation between the model's vocabulary (spec/SSHPrelude.tla) and bytes.  Everything blocks on sync.Cond
// or channels, so inside a testing/synctest bubble synctest.Wait() returns exactly when the library is quiescent.

import (
	"bytes"
	"crypto/ed25519"
	"crypto/rand"
	"errors"
	"fmt"
	"io"
	mrand "math/rand"
	"net"
	"regexp"
	"runtime"
	"sort"
	"strconv"
	"strings"
	"sync"
	"testing/synctest"

	"golang.org/x/crypto/ssh"
	"verif/harness/memconn"
)

// ---------------------------------------------------------------- vocabulary shared with the model

type evT struct {
	K string `json:"k"`
	C string `json:"c"`
	N int    `json:"n"`
}

type pktT struct {
	T string `json:"t"`
	A string `json:"a"`
	I int    `json:"i"` // PONG: the number of the PING it answers
}

type cfgT struct {
	Role  string `json:"role"`
	Own   string `json:"own"`
	Sp    bool   `json:"sp"`
	Xc    bool   `json:"xc"`
	Rk    bool   `json:"rk"`
	Start string `json:"start"`
}

type obsT struct {
	Out    []pktT `json:"out"`
	Res    string `json:"res"`
	Wait   string `json:"wait"`
	Disc   int    `json:"disc"`
	Closed bool   `json:"closed"`
}

const (
	defaultVersion = "SSH-2.0-Go"
	customVersion  = "SSH-2.0-x07custom_1.0 with a comment"
	junkVersion    = "SSH-2.0-x07\x01junk"
	userName       = "x07user"
	rekeyThreshold = 1024
	bigPayload     = 2048
	noopRequest    = "x07-noop@verif.example"
	sigAlgsOffered = "rsa-sha2-512,x07-unknown-alg@verif.example"
)

func ownVersion(own string) string {
	switch own {
	case "custom":
		return customVersion
	case "junk":
		return junkVersion
	}
	return defaultVersion
}

var (
	keysOnce   sync.Once
	hostPriv   ed25519.PrivateKey
	hostPub    ed25519.PublicKey
	hostSigner ssh.Signer
	rsaSigner  ssh.Signer
)

func keys() {
	keysOnce.Do(func() {
		var err error
		hostPub, hostPriv, err = ed25519.GenerateKey(rand.Reader)
		if err != nil {
			panic(err)
		}
		if hostSigner, err = ssh.NewSignerFromKey(hostPriv); err != nil {
			panic(err)
		}
		if rsaSigner, err = ssh.ParsePrivateKey([]byte(testRSAKeyPEM)); err != nil {
			panic(err)
		}
	})
}

// ---------------------------------------------------------------- the world

type world struct {
	cfg  cfgT
	rng  *mrand.Rand
	a, b *memconn.Conn
	p    *rawPeer

	mu       sync.Mutex
	resSet   bool
	resErr   error
	conn     ssh.Conn
	waitSet  bool
	waitErr  error
	hostSeen []byte // library is client: the host key handed to HostKeyCallback

	line     []byte // bytes of the current identification line sent so far (without LF)
	lastLine []byte // the last line completed by an LF
	libLine  []byte // the library's own line as read from the wire (nil: not seen yet)
	npings   int
	notes    []string
}

func (w *world) note(f string, a ...any) { w.notes = append(w.notes, fmt.Sprintf(f, a...)) }

// newWorld starts the library endpoint.  Must be called inside a synctest bubble.
func newWorld(cfg cfgT, seed int64) *world {
	keys()
	w := &world{cfg: cfg, rng: mrand.New(mrand.NewSource(seed))}
	w.a, w.b = memconn.Pair()
	w.p = newRawPeer(w.b, cfg.Role == "client")
	w.p.hostPriv = hostPriv
	w.p.libHost = hostPub
	finish := func(c ssh.Conn, chans <-chan ssh.NewChannel, reqs <-chan *ssh.Request, err error) {
		w.mu.Lock()
		w.resSet, w.resErr = true, err
		if err == nil {
			w.conn = c
		}
		w.mu.Unlock()
		if err != nil {
			return
		}
		go ssh.DiscardRequests(reqs)
		go func() {
			for nc := range chans {
				nc.Reject(ssh.Prohibited, "x07")
			}
		}()
		go func() {
			e := c.Wait()
			w.mu.Lock()
			w.waitSet, w.waitErr = true, e
			w.mu.Unlock()
		}()
	}
	if cfg.Role == "client" {
		cc := &ssh.ClientConfig{User: userName, Auth: []ssh.AuthMethod{ssh.PublicKeys(rsaSigner)},
			HostKeyCallback: func(_ string, _ net.Addr, key ssh.PublicKey) error {
				w.mu.Lock()
				w.hostSeen = key.Marshal()
				w.mu.Unlock()
				return nil
			}}
		if cfg.Own != "default" {
			cc.ClientVersion = ownVersion(cfg.Own)
		}
		if cfg.Rk {
			cc.RekeyThreshold = rekeyThreshold
		}
		go func() {
			c, chans, reqs, err := ssh.NewClientConn(w.a, "peer.example:22", cc)
			finish(c, chans, reqs, err)
		}()
	} else {
		sc := &ssh.ServerConfig{NoClientAuth: true}
		sc.AddHostKey(hostSigner)
		if cfg.Own != "default" {
			sc.ServerVersion = ownVersion(cfg.Own)
		}
		if cfg.Rk {
			sc.RekeyThreshold = rekeyThreshold
		}
		go func() {
			c, chans, reqs, err := ssh.NewServerConn(w.a, sc)
			if c != nil {
				finish(c, chans, reqs, err)
			} else {
				finish(nil, nil, nil, err)
			}
		}()
	}
	return w
}

// verByte is the concrete byte of class c at position i of the current line.
func (w *world) verByte(c string, i int) byte {
	switch c {
	case "S":
		return 'S'
	case "H":
		return 'H'
	case "D":
		return '-'
	case "R":
		return '\r'
	case "N":
		return '\n'
	case "Z":
		return 0
	case "B":
		return byte(0x80 + w.rng.Intn(0x80))
	}
	// "other ASCII": anything below 0x80 that is not one of the classes above (control characters included)
	for {
		b := byte(1 + w.rng.Intn(0x7f))
		if b != 'S' && b != 'H' && b != '-' && b != '\r' && b != '\n' {
			return b
		}
	}
}

var discRe = regexp.MustCompile(`ssh: disconnect, reason (\d+): "([^"]*)"`)

// classify maps an error to the model's classes.
func classify(err error) (string, int, string) {
	if err == nil {
		return "ok", 0, ""
	}
	if m := discRe.FindStringSubmatch(err.Error()); m != nil {
		r, _ := strconv.Atoi(m[1])
		return "disc", r, m[2]
	}
	if errors.Is(err, io.EOF) || errors.Is(err, io.ErrUnexpectedEOF) {
		return "eof", 0, ""
	}
	return "err", 0, ""
}

func discMessage(reason int) string { return fmt.Sprintf("bye-%d", reason) }

// payloadOf builds the packet(s) of a model event.
func (w *world) pingPayload() []byte {
	w.npings++
	return cat([]byte{mPing}, sshStr(fmt.Sprintf("p%d;", w.npings)))
}

// perform executes one model event (no waiting).
func (w *world) perform(e evT) error {
	p := w.p
	switch e.K {
	case "ver":
		var bs []byte
		for i := 0; i < e.N; i++ {
			b := w.verByte(e.C, len(w.line))
			bs = append(bs, b)
			if b == '\n' {
				w.lastLine, w.line = w.line, nil
			} else {
				w.line = append(w.line, b)
			}
		}
		p.writeRaw(bs)
	case "eof":
		p.close()
	case "ignore":
		p.writePacket(cat([]byte{mIgnore}, sshStr("x07 noise")))
	case "debug":
		p.writePacket(cat([]byte{mDebug}, []byte{1}, sshStr("x07 debug"), sshStr("")))
	case "disc":
		p.writePacket(cat([]byte{mDisconnect}, u32(uint32(e.N)), sshStr(discMessage(e.N)), sshStr("")))
	case "kexinit":
		// ext-info-c in EVERY KEXINIT of a client peer that offers it (RFC 8308 wants it in the first one only; the
		// server must not answer a later one with another EXT_INFO); kex-strict in the first one only
		first := p.kexes == 0 && p.myInit == nil
		p.sendKexInit(w.cfg.Xc && !p.isServer, first && w.cfg.Sp)
	case "kexmsg":
		if p.isServer {
			return p.serverReply(p.vC, p.vS)
		}
		return p.clientInit()
	case "kexmsgbad":
		// the peer hashes another identification string than the one it sent (RFC 4253 section 8: V_S is the
		// string without CR LF)
		vC, vS := p.vC, p.vS
		switch w.rng.Intn(3) {
		case 0:
			vS = append(append([]byte(nil), vS...), '\r')
		case 1:
			vS = vS[:len(vS)-1]
		default:
			vC = append(append([]byte(nil), vC...), '\r', '\n')
		}
		return p.serverReply(vC, vS)
	case "newkeys":
		p.writePacket([]byte{mNewKeys})
	case "ping":
		if e.N <= 1 {
			p.writePacket(w.pingPayload())
		} else {
			var pk [][]byte
			for i := 0; i < e.N; i++ {
				pk = append(pk, w.pingPayload())
			}
			if w.rng.Intn(2) == 0 {
				p.writePackets(pk)
			} else {
				for _, x := range pk {
					p.writePacket(x)
				}
			}
		}
	case "bigping":
		w.npings++
		p.writePacket(cat([]byte{mPing}, sshBytes(append([]byte(fmt.Sprintf("p%d;", w.npings)), bytes.Repeat([]byte{'.'}, bigPayload)...))))
	case "greq0":
		p.writePacket(cat([]byte{mGlobalReq}, sshStr(noopRequest), []byte{0}))
	case "extinfo":
		p.writePacket(cat([]byte{mExtInfo}, u32(2), sshStr("x07-unknown-extension@verif.example"), sshStr("whatever"),
			sshStr("server-sig-algs"), sshStr(sigAlgsOffered)))
	case "extbad":
		p.writePacket(cat([]byte{mExtInfo}, u32(3), sshStr("server-sig-algs"), sshStr(sigAlgsOffered), sshStr("truncated"), u32(99)))
	case "svcacc":
		p.writePacket(cat([]byte{mServiceAcc}, sshStr("ssh-userauth")))
	case "svcacc2":
		p.writePacket(cat([]byte{mServiceAcc}, sshStr("x07-other-service")))
	case "svcreq":
		p.writePacket(cat([]byte{mServiceReq}, sshStr("ssh-userauth")))
	case "svcreq2":
		p.writePacket(cat([]byte{mServiceReq}, sshStr("ssh-connection")))
	case "authok":
		p.writePacket([]byte{mAuthSuccess})
	case "authfail":
		p.writePacket(cat([]byte{mAuthFailure}, sshStr("publickey"), []byte{0}))
	case "authreq":
		p.writePacket(cat([]byte{mAuthRequest}, sshStr(userName), sshStr("ssh-connection"), sshStr("none")))
	case "authreq2":
		p.writePacket(cat([]byte{mAuthRequest}, sshStr(userName), sshStr("x07-other-service"), sshStr("none")))
	case "empty":
		p.writePacket(nil)
	case "zero":
		p.writePacket([]byte{0, 0, 0, 0, 0, 0, 0, 0, 0})
	case "unk":
		p.writePacket([]byte{199, 1, 2, 3, 4, 5, 6, 7, 8})
	case "unimpl":
		p.writePacket(cat([]byte{mUnimpl}, u32(p.rd.seq)))
	case "pong":
		p.writePacket(cat([]byte{mPong}, sshStr("unsolicited")))
	case "burst":
		var pk [][]byte
		if e.C == "unimpl" {
			pk = append(pk, cat([]byte{mUnimpl}, u32(p.rd.seq)))
		} else {
			pk = append(pk, []byte{199, 1, 2, 3, 4, 5, 6, 7, 8})
		}
		for i := 0; i < e.N; i++ {
			pk = append(pk, cat([]byte{mPing}, sshStr(fmt.Sprintf("b%d;", i))))
		}
		p.writePackets(pk)
	default:
		return fmt.Errorf("unknown event kind %q", e.K)
	}
	return nil
}

// abstract turns a packet the library wrote into the model's vocabulary.
func (w *world) abstract(pl []byte) pktT {
	if len(pl) == 0 {
		return pktT{T: "empty"}
	}
	str := func(b []byte) (string, []byte) {
		s, r, ok := getStr(b)
		if !ok {
			return "<malformed>", nil
		}
		return string(s), r
	}
	switch pl[0] {
	case mKexInit:
		ki := w.p.libInitInfo
		if ki == nil {
			return pktT{T: "kexinit", A: "malformed"}
		}
		a := ""
		if ki.HasExtC {
			a += "e"
		}
		if ki.HasStrict {
			a += "s"
		}
		if ki.HasExtS {
			a += "+ext-info-s"
		}
		if ki.Follows {
			a += "+follows"
		}
		return pktT{T: "kexinit", A: a}
	case mECDHInit:
		return pktT{T: "kexmsg", A: "init"}
	case mECDHReply:
		if w.p.sigOK != nil && *w.p.sigOK {
			return pktT{T: "kexmsg", A: "reply"}
		}
		return pktT{T: "kexmsg", A: "reply-signature-does-not-verify"}
	case mNewKeys:
		return pktT{T: "newkeys"}
	case mExtInfo:
		if len(pl) < 5 {
			return pktT{T: "extinfo", A: "malformed"}
		}
		n := int(uint32(pl[1])<<24 | uint32(pl[2])<<16 | uint32(pl[3])<<8 | uint32(pl[4]))
		rest := pl[5:]
		var names []string
		ok := true
		for i := 0; i < n && rest != nil; i++ {
			var name, val string
			name, rest = str(rest)
			if rest == nil {
				ok = false
				break
			}
			val, rest = str(rest)
			switch name {
			case "server-sig-algs":
				if !strings.Contains(","+val+",", ",rsa-sha2-512,") || !strings.Contains(","+val+",", ",ssh-ed25519,") {
					name += "=" + val
				}
			case "ping@openssh.com":
				if val != "0" {
					name += "=" + val
				}
			}
			names = append(names, name)
		}
		if !ok || len(rest) != 0 {
			return pktT{T: "extinfo", A: "malformed"}
		}
		if len(names) == 2 && names[0] == "server-sig-algs" && names[1] == "ping@openssh.com" {
			return pktT{T: "extinfo", A: "sigalgs+ping0"}
		}
		return pktT{T: "extinfo", A: strings.Join(names, "+")}
	case mServiceReq:
		s, r := str(pl[1:])
		if len(r) != 0 {
			s += "+trailing"
		}
		return pktT{T: "svcreq", A: s}
	case mServiceAcc:
		s, r := str(pl[1:])
		if len(r) != 0 {
			s += "+trailing"
		}
		return pktT{T: "svcacc", A: s}
	case mAuthRequest:
		user, r := str(pl[1:])
		svc, r := str(r)
		method, r := str(r)
		a := method
		if method == "publickey" && len(r) > 0 {
			algo, _ := str(r[1:])
			a = "pk:" + algo
			if r[0] != 0 {
				a = "pksig:" + algo
			}
		}
		if user != userName {
			a += "+user=" + user
		}
		if svc != "ssh-connection" {
			a += "+service=" + svc
		}
		return pktT{T: "authreq", A: a}
	case mAuthSuccess:
		a := ""
		if len(pl) != 1 {
			a = "trailing"
		}
		return pktT{T: "authok", A: a}
	case mAuthFailure:
		return pktT{T: "authfail"}
	case mPong:
		s, r := str(pl[1:])
		if len(r) != 0 || !strings.HasPrefix(s, "p") || !strings.Contains(s, ";") {
			return pktT{T: "pong", A: "garbled"}
		}
		id, err := strconv.Atoi(s[1:strings.Index(s, ";")])
		rest := s[strings.Index(s, ";")+1:]
		if err != nil || (rest != "" && (len(rest) != bigPayload || strings.Trim(rest, ".") != "")) {
			return pktT{T: "pong", A: "garbled", I: id}
		}
		return pktT{T: "pong", I: id}
	case mDisconnect:
		if len(pl) >= 5 {
			return pktT{T: "disconnect", A: strconv.Itoa(int(uint32(pl[1])<<24 | uint32(pl[2])<<16 | uint32(pl[3])<<8 | uint32(pl[4])))}
		}
		return pktT{T: "disconnect"}
	case mReqFailure:
		return pktT{T: "gfail"}
	case mUnimpl:
		return pktT{T: "unimplemented"}
	}
	return pktT{T: fmt.Sprintf("type%d", pl[0])}
}

// sendPlain performs the peer's half of a plain version exchange ("SSH-xx" CR LF) in one write.
func (w *world) sendPlain() {
	var bs []byte
	for i, c := range []string{"S", "S", "H", "D", "X", "X", "R", "N"} {
		bs = append(bs, w.verByte(c, i))
	}
	w.lastLine, w.line = bs[:len(bs)-1], nil
	w.p.writeRaw(bs)
}

// accept tells the peer which identification strings enter the exchange hash: the library's line without
// CR LF and the first hashLen bytes of the peer's accepted line (the model's statement of what is hashed).
func (w *world) accept(hashLen int) error {
	if hashLen > len(w.lastLine) || w.libLine == nil {
		return fmt.Errorf("accepted line has %d bytes, the model hashes %d; library line %q", len(w.lastLine), hashLen, w.libLine)
	}
	mine := append([]byte(nil), w.lastLine[:hashLen]...)
	theirs := bytes.TrimSuffix(w.libLine, []byte("\r\n"))
	if w.p.isServer {
		w.p.vS, w.p.vC = mine, theirs
	} else {
		w.p.vC, w.p.vS = mine, theirs
	}
	return nil
}

// observe waits for quiescence and reports what the library has done.
func (w *world) observe() obsT {
	synctest.Wait()
	var o obsT
	if w.libLine == nil {
		if l := w.p.takeLine(); l != nil {
			w.libLine = l
			if string(l) == ownVersion(w.cfg.Own)+"\r\n" {
				o.Out = append(o.Out, pktT{T: "ver", A: w.cfg.Own})
			} else {
				o.Out = append(o.Out, pktT{T: "ver", A: fmt.Sprintf("other:%q", l)})
			}
		} else if w.p.pendingBytes() > 0 {
			o.Out = append(o.Out, pktT{T: "ver", A: "unterminated"})
			return o
		}
	}
	for {
		pl, ok := w.p.next()
		if !ok {
			break
		}
		o.Out = append(o.Out, w.abstract(pl))
	}
	w.mu.Lock()
	if w.resSet {
		var msg string
		o.Res, o.Disc, msg = classify(w.resErr)
		if o.Res == "disc" && msg != discMessage(o.Disc) {
			w.note("the constructor's error carries the disconnect message %q, the peer sent %q", msg, discMessage(o.Disc))
		}
	}
	if w.waitSet {
		var msg string
		var d int
		o.Wait, d, msg = classify(w.waitErr)
		if o.Wait == "ok" {
			o.Wait = "nil"
		}
		if o.Wait == "disc" {
			o.Disc = d
			if msg != discMessage(d) {
				w.note("Wait's error carries the disconnect message %q, the peer sent %q", msg, discMessage(d))
			}
		}
	}
	w.mu.Unlock()
	o.Closed = w.p.libClosed()
	return o
}

var sshGoroutineRe = regexp.MustCompile(`golang\.org/x/crypto/ssh\.`)

var (
	stackMu  sync.Mutex
	stackBuf = make([]byte, 256<<10)
)

var bubbleRe = regexp.MustCompile(`synctest bubble (\d+)`)

// sshGoroutines returns the goroutines of the caller's synctest bubble that run, or were started by, package ssh.
func sshGoroutines() (int, string) {
	stackMu.Lock()
	defer stackMu.Unlock()
	var buf []byte
	for {
		n := runtime.Stack(stackBuf, true)
		if n < len(stackBuf) {
			buf = stackBuf[:n]
			break
		}
		stackBuf = make([]byte, 2*len(stackBuf))
	}
	var keep []string
	gs := strings.Split(string(buf), "\n\n")
	mine := ""
	if len(gs) > 0 { // the first goroutine of a dump is the caller
		if m := bubbleRe.FindString(strings.SplitN(gs[0], "\n", 2)[0]); m != "" {
			mine = m + "]"
		}
	}
	for _, g := range gs {
		if sshGoroutineRe.MatchString(g) && (mine == "" || strings.Contains(strings.SplitN(g, "\n", 2)[0], mine)) {
			keep = append(keep, g)
		}
	}
	return len(keep), strings.Join(keep, "\n\n")
}

// readLoopHandingOver: the goroutine is handshakeTransport.readLoop itself (its innermost frame of package ssh, not
// readOnePacket or the transport below it), blocked handing a packet to `incoming` -- a plain channel send, or a
// select once the hand-over can be abandoned.
func readLoopHandingOver(g, hdr string) bool {
	if !(strings.Contains(hdr, "chan send") || strings.Contains(hdr, "select")) {
		return false
	}
	f := topSSHFrame.FindString(g)
	return strings.HasSuffix(f, "(*handshakeTransport).readLoop")
}

// stallSignature names the way the library is stuck, from a goroutine dump restricted to package ssh.
func stallSignature(dump string) string {
	readLoopSend, muxWrite, muxClose, muxWait := false, false, false, false
	var others []string
	for _, g := range strings.Split(dump, "\n\n") {
		hdr := strings.SplitN(g, "\n", 2)[0]
		switch {
		case readLoopHandingOver(g, hdr):
			readLoopSend = true
		case strings.Contains(g, "(*mux).loop") && strings.Contains(g, "handshakeTransport).writePacket"):
			muxWrite = true
		case strings.Contains(g, "(*mux).loop") && strings.Contains(g, "handshakeTransport).Close"):
			muxClose = true
		case strings.Contains(g, "(*mux).Wait"):
			muxWait = true
		case strings.Contains(g, "handshakeTransport).kexLoop"), strings.Contains(g, "ssh.DiscardRequests"):
		default:
			if f := topSSHFrame.FindString(g); f != "" {
				others = append(others, strings.TrimPrefix(f, "golang.org/x/crypto/ssh."))
			}
		}
	}
	_ = muxWait
	switch {
	case readLoopSend && muxWrite:
		return "stall:rekey:mux.loop-blocked-in-writePacket+readLoop-blocked-on-incoming"
	case readLoopSend && muxClose:
		return "stall:mux.loop-blocked-in-Close+readLoop-blocked-on-incoming"
	case readLoopSend:
		return "stall:handshake-failed:readLoop-blocked-on-incoming"
	}
	sort.Strings(others)
	if len(others) > 0 {
		return "stall:" + others[0]
	}
	return "stall:unclassified"
}

var topSSHFrame = regexp.MustCompile(`golang\.org/x/crypto/ssh\.(\(\*?\w+\)\.[\w.]+|[\w.]+)`)

// cleanup releases what the harness itself holds.
func (w *world) cleanup() {
	w.p.close()
	w.a.Close()
	w.mu.Lock()
	c := w.conn
	w.mu.Unlock()
	if c != nil {
		c.Close()
	}
	synctest.Wait()
}
