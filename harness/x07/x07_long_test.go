// Binding T for X07: a model-independent driver plays long random sessions against the REAL library (both roles)
// through the independent raw peer and records, per event, what the library did.  spec/SSHPrelude_Trace.tla
// validates every recorded session event by event.  The driver knows the protocol only as a script (what a
// conforming peer sends next) plus a menu of deviations; it predicts nothing.
package x07

import (
	"bytes"
	"encoding/json"
	"fmt"
	mrand "math/rand"
	"os"
	"strconv"
	"testing"
	"testing/synctest"

	"verif/harness/vutil"
)

type traceEv struct {
	Ev     string `json:"ev"`
	Role   string `json:"role,omitempty"`
	Own    string `json:"own,omitempty"`
	Sp     *bool  `json:"sp,omitempty"`
	Xc     *bool  `json:"xc,omitempty"`
	Rk     *bool  `json:"rk,omitempty"`
	Start  string `json:"start,omitempty"`
	K      string `json:"k"`
	C      string `json:"c"`
	N      int    `json:"n"`
	Out    []pktT `json:"out"`
	Res    string `json:"res"`
	Wait   string `json:"wait"`
	Disc   int    `json:"disc"`
	Closed bool   `json:"closed"`
}

type longSession struct {
	w      *world
	rng    *mrand.Rand
	trace  []traceEv
	dead   bool
	est    bool // the constructor returned a connection
	infra  error
	pings  int // PINGs sent since the library's own KEXINIT (while waiting for the peer's)
	window bool
	wire   string
}

func (s *longSession) record(e evT, o obsT) {
	if o.Out == nil {
		o.Out = []pktT{}
	}
	s.trace = append(s.trace, traceEv{Ev: "step", K: e.K, C: e.C, N: e.N, Out: o.Out, Res: o.Res, Wait: o.Wait, Disc: o.Disc, Closed: o.Closed})
	if (o.Res != "" && o.Res != "ok") || o.Wait != "" || o.Closed {
		s.dead = true
	}
	if o.Res == "ok" {
		s.est = true
	}
	for _, p := range o.Out {
		if p.T == "kexinit" && e.K == "greq0" {
			s.window, s.pings = true, 0
		}
	}
}

// do performs one event and records the observation; false when the session is over.
func (s *longSession) do(e evT) bool {
	if s.dead || s.infra != nil {
		return false
	}
	if err := s.w.perform(e); err != nil {
		s.infra = fmt.Errorf("event %v: %w", e, err)
		return false
	}
	if e.K == "ver" && e.C == "N" && e.N == 1 && bytes.HasPrefix(s.w.lastLine, []byte("SSH-")) && s.w.p.vC == nil && s.w.libLine != nil {
		// RFC 4253 section 8: the identification strings are hashed without CR LF
		n := len(s.w.lastLine)
		if n > 0 && s.w.lastLine[n-1] == '\r' {
			n--
		}
		s.w.accept(n)
	}
	o := s.w.observe()
	if e.K == "eof" {
		s.dead = true
	}
	s.record(e, o)
	if len(s.w.p.problems) > 0 {
		// the independent peer cannot follow what the library wrote (keys, sequence numbers, framing): a finding
		s.wire = s.w.p.problems[0]
		s.dead = true
	}
	return !s.dead && s.infra == nil
}

func (s *longSession) noise() bool {
	for s.rng.Intn(4) == 0 {
		k := "ignore"
		if s.rng.Intn(2) == 0 {
			k = "debug"
		}
		if !s.do(evT{K: k, N: 1}) {
			return false
		}
	}
	return true
}

var fatalKinds = []string{"unk", "unimpl", "zero", "empty", "pong", "svcreq2", "authreq2", "extbad", "newkeys", "kexmsg", "svcacc", "authok"}

// deviate sometimes does something a conforming peer would not do here (the session usually ends).
func (s *longSession) deviate(p int) bool {
	if s.rng.Intn(100) >= p {
		return true
	}
	switch s.rng.Intn(6) {
	case 0:
		return s.do(evT{K: "disc", N: []int{2, 11}[s.rng.Intn(2)]})
	case 1:
		return s.do(evT{K: "eof"})
	default:
		return s.do(evT{K: fatalKinds[s.rng.Intn(len(fatalKinds))], N: 1})
	}
}

func (s *longSession) rekey(libStarted bool) bool {
	if !s.noise() || !s.do(evT{K: "kexinit", N: 1}) {
		return false
	}
	if !libStarted && !s.deviate(2) {
		return false
	}
	if !s.noise() || !s.do(evT{K: "kexmsg", N: 1}) || !s.noise() || !s.do(evT{K: "newkeys", N: 1}) {
		return false
	}
	s.window, s.pings = false, 0
	return true
}

func (s *longSession) versionPhase() bool {
	r := s.rng
	// lines before the identification string
	for i := r.Intn(3); i > 0; i-- {
		n := 1 + r.Intn(60)
		if r.Intn(10) == 0 {
			n = 250 + r.Intn(8) // around the limit
		}
		c := []string{"X", "B", "Z", "R"}[r.Intn(4)]
		if r.Intn(4) == 0 {
			if !s.do(evT{K: "ver", C: "S", N: 1 + r.Intn(3)}) {
				return false
			}
		}
		if !s.do(evT{K: "ver", C: c, N: n}) || !s.do(evT{K: "ver", C: "N", N: 1}) {
			return false
		}
	}
	if r.Intn(6) == 0 {
		if !s.do(evT{K: "ver", C: "N", N: 2 + r.Intn(1030)}) {
			return false
		}
	}
	if r.Intn(25) == 0 {
		return s.do(evT{K: "eof"})
	}
	for _, e := range []evT{{K: "ver", C: "S", N: 2}, {K: "ver", C: "H", N: 1}, {K: "ver", C: "D", N: 1}} {
		if !s.do(e) {
			return false
		}
	}
	n := 1 + r.Intn(40)
	switch r.Intn(8) {
	case 0:
		n = 248 + r.Intn(5)
	case 1:
		n = 0
	}
	if n > 0 && !s.do(evT{K: "ver", C: []string{"X", "X", "X", "B", "Z", "S"}[r.Intn(6)], N: n}) {
		return false
	}
	if r.Intn(4) != 0 {
		if !s.do(evT{K: "ver", C: "R", N: 1 + r.Intn(5)/4}) {
			return false
		}
	}
	return s.do(evT{K: "ver", C: "N", N: 1})
}

func (s *longSession) run(cfg cfgT, maxOpen int) {
	r := s.rng
	o := s.w.observe()
	if cfg.Start == "kex0" && cfg.Own != "junk" {
		if len(o.Out) != 1 || o.Out[0].T != "ver" {
			s.infra = fmt.Errorf("no identification line from the library: %+v", o)
			return
		}
		s.w.sendPlain()
		if err := s.w.accept(6); err != nil {
			s.infra = err
			return
		}
		o = s.w.observe()
	}
	if o.Out == nil {
		o.Out = []pktT{}
	}
	sp, xc, rk := cfg.Sp, cfg.Xc, cfg.Rk
	s.trace = append(s.trace, traceEv{Ev: "cfg", Role: cfg.Role, Own: cfg.Own, Sp: &sp, Xc: &xc, Rk: &rk, Start: cfg.Start,
		Out: o.Out, Res: o.Res, Wait: o.Wait, Disc: o.Disc, Closed: o.Closed})
	if o.Res != "" {
		return
	}
	if cfg.Start == "ver" && !s.versionPhase() {
		return
	}
	// first key exchange
	if !s.deviate(3) || !s.noise() || !s.do(evT{K: "kexinit", N: 1}) || !s.deviate(3) {
		return
	}
	if !(cfg.Sp && r.Intn(3) != 0) && !s.noise() { // strict KEX: noise here ends the session, do it only sometimes
		return
	}
	if cfg.Role == "client" && r.Intn(30) == 0 {
		s.do(evT{K: "kexmsgbad", N: 1})
		return
	}
	if !s.do(evT{K: "kexmsg", N: 1}) || !s.deviate(3) || !s.do(evT{K: "newkeys", N: 1}) || !s.noise() || !s.deviate(3) {
		return
	}
	if cfg.Role == "client" {
		if r.Intn(3) != 0 && !s.do(evT{K: "extinfo", N: 1}) {
			return
		}
		k := "svcacc"
		if r.Intn(5) == 0 {
			k = "svcacc2"
		}
		if !s.noise() || !s.do(evT{K: k, N: 1}) || !s.noise() || !s.deviate(3) {
			return
		}
		if r.Intn(4) == 0 && !s.do(evT{K: "extinfo", N: 1}) {
			return
		}
		if r.Intn(6) == 0 {
			s.do(evT{K: "authfail", N: 1})
			s.do(evT{K: "authfail", N: 1})
			return
		}
		if !s.do(evT{K: "authok", N: 1}) {
			return
		}
	} else {
		if !s.do(evT{K: "svcreq", N: 1}) || !s.noise() || !s.deviate(3) || !s.do(evT{K: "authreq", N: 1}) {
			return
		}
	}
	// established
	for i := 0; i < maxOpen; i++ {
		if !s.noise() {
			return
		}
		switch x := r.Intn(100); {
		case x < 45:
			if !s.do(evT{K: "ping", N: 1}) {
				return
			}
		case x < 60:
			if !s.rekey(false) {
				return
			}
		case x < 80 && cfg.Rk:
			if !s.do(evT{K: "bigping", N: 1}) || !s.noise() || !s.do(evT{K: "greq0", N: 1}) {
				return
			}
			// the library waits for the peer's KEXINIT: PINGs are answered after NEWKEYS
			for j := r.Intn(4); j > 0; j-- {
				n := 1 + r.Intn(30)
				if r.Intn(5) == 0 {
					n = 60 + r.Intn(10)
				}
				if s.pings+n > 64+16+1 {
					break
				}
				s.pings += n
				if !s.do(evT{K: "ping", N: n}) || !s.noise() {
					return
				}
			}
			if r.Intn(20) == 0 {
				s.do(evT{K: "disc", N: 11})
				return
			}
			if !s.rekey(true) {
				return
			}
		case x < 85:
			if !s.do(evT{K: "greq0", N: 1}) {
				return
			}
		case x < 88:
			if !s.do(evT{K: "burst", C: []string{"unk", "unimpl"}[r.Intn(2)], N: 1 + r.Intn(16)}) {
				return
			}
		default:
			if !s.deviate(40) {
				return
			}
		}
	}
	s.do(evT{K: "eof"})
}

func TestLong(t *testing.T) {
	out := vutil.NewOut()
	defer func() {
		if err := out.Write(); err != nil {
			t.Fatal(err)
		}
	}()
	n, _ := strconv.Atoi(vutil.Env("VERIF_X07_LONG", "40"))
	fh, err := os.Create(vutil.Env("VERIF_TRACE_OUT", os.DevNull))
	if err != nil {
		t.Fatal(err)
	}
	defer fh.Close()
	rng := vutil.Rand(707)
	events, est, rekeys := 0, 0, 0
	startWatchdog(watchdogLimit())
	for i := 0; i < n; i++ {
		watchdogProgress(i)
		cfg := cfgT{Role: []string{"client", "server"}[rng.Intn(2)], Own: []string{"default", "default", "custom"}[rng.Intn(3)],
			Sp: rng.Intn(2) == 0, Rk: rng.Intn(3) != 0, Start: []string{"kex0", "kex0", "ver"}[rng.Intn(3)]}
		if rng.Intn(40) == 0 {
			cfg.Own = "junk"
		}
		if cfg.Role == "server" {
			cfg.Xc = rng.Intn(2) == 0
		}
		seed := rng.Int63()
		var s *longSession
		synctest.Test(t, func(t *testing.T) {
			s = &longSession{w: newWorld(cfg, seed), rng: mrand.New(mrand.NewSource(seed))}
			s.run(cfg, 10+s.rng.Intn(40))
			s.w.cleanup()
			if s.infra == nil && s.wire == "" {
				if k, dump := sshGoroutines(); k != 0 {
					out.Violation("prelude-"+stallSignature(dump), "goroutines of package ssh left after a recorded session ended", map[string]any{"trace": s.trace, "dump": tail(dump, 2500)})
					t.Errorf("goroutines left after session %d", i)
				}
			}
		})
		if s.infra != nil {
			t.Fatalf("session %d: harness problem: %v", i, s.infra)
		}
		if s.wire != "" {
			out.Violation("prelude-wire:long-session", "the independent peer cannot follow what the library wrote: "+s.wire, map[string]any{"trace": s.trace, "cfg": cfg})
			t.Errorf("session %d: %s", i, s.wire)
			continue
		}
		if len(s.w.notes) > 0 {
			out.Violation("prelude-doc:long", s.w.notes[0], map[string]any{"trace": s.trace})
			t.Errorf("session %d: %s", i, s.w.notes[0])
		}
		b, _ := json.Marshal(s.trace)
		fh.Write(append(b, '\n'))
		events += len(s.trace)
		if s.est {
			est++
		}
		for _, e := range s.trace {
			if e.K == "newkeys" && e.Res == "ok" {
				rekeys++
			}
		}
		out.Case(string(b))
	}
	out.Extra["long_sessions"] = n
	out.Extra["long_events"] = events
	out.Extra["long_established"] = est
	out.Extra["long_rekeys"] = rekeys
}
