package x07

// Stand-alone reproductions of the known findings X07-K1 / X07-K2a / X07-K2b (run on demand:
// VERIF_X07_REPRO=1 go test -tags verif -run TestKnownStalls -v ./x07/).  Each scenario is a short script for the
// raw peer against the real library; the verdict is read from the goroutine dump of the bubble.

import (
	"os"
	"strings"
	"testing"
	"testing/synctest"
)

func reproScenario(t *testing.T, name string, cfg cfgT, script []evT, wantSig string) {
	stalled := ""
	func() {
		defer func() {
			if r := recover(); r != nil && stalled == "" {
				panic(r)
			}
		}()
		synctest.Test(t, func(t *testing.T) {
			w := newWorld(cfg, 1)
			w.observe()
			w.sendPlain()
			if err := w.accept(6); err != nil {
				t.Fatal(err)
			}
			w.observe()
			for _, e := range script {
				if err := w.perform(e); err != nil {
					t.Fatalf("%s: %v: %v", name, e, err)
				}
				o := w.observe()
				t.Logf("%s: %-8s n=%-3d -> out=%v res=%q wait=%q closed=%v", name, e.K, e.N, o.Out, o.Res, o.Wait, o.Closed)
			}
			// while the connection is still there: is the library wedged (readLoop cannot hand over, nothing runs)?
			if _, dump := sshGoroutines(); strings.Contains(stallSignature(dump), "readLoop-blocked-on-incoming") {
				stalled = stallSignature(dump)
				t.Logf("%s: wedged before the harness let go of the connection: %s", name, stalled)
			}
			w.cleanup() // both ends closed, Conn.Close called
			if n, dump := sshGoroutines(); n > 0 {
				stalled = stallSignature(dump)
				t.Logf("%s: %d goroutines of package ssh left after both ends were closed: %s\n%s", name, n, stalled, tail(dump, 1800))
			}
		})
	}()
	if wantSig != "" && !strings.Contains(stalled, wantSig) {
		t.Logf("%s: NOT reproduced (got %q)", name, stalled)
	}
}

func TestKnownStalls(t *testing.T) {
	if os.Getenv("VERIF_X07_REPRO") == "" {
		t.Skip("on demand")
	}
	up := []evT{{K: "kexinit", N: 1}, {K: "kexmsg", N: 1}, {K: "newkeys", N: 1}}
	srvOpen := append(append([]evT(nil), up...), evT{K: "svcreq", N: 1}, evT{K: "authreq", N: 1})
	// K2a: before authentication -- a refused packet with 17 packets behind it
	reproScenario(t, "K2a", cfgT{Role: "server", Own: "default", Sp: true, Start: "kex0"},
		append(append([]evT(nil), up...), evT{K: "burst", C: "unk", N: 17}), "handshake-failed")
	// K2b: established -- an unknown packet with 17 PINGs behind it: Conn.Wait never returns
	reproScenario(t, "K2b", cfgT{Role: "server", Own: "default", Sp: true, Start: "kex0"},
		append(append([]evT(nil), srvOpen...), evT{K: "burst", C: "unk", N: 17}), "blocked-in-Close")
	// K1: the library starts a re-key, 82 PINGs arrive before the peer's KEXINIT: nothing is read any more
	reproScenario(t, "K1", cfgT{Role: "server", Own: "default", Sp: true, Rk: true, Start: "kex0"},
		append(append([]evT(nil), srvOpen...), evT{K: "bigping", N: 1}, evT{K: "greq0", N: 1}, evT{K: "ping", N: 82},
			evT{K: "kexinit", N: 1}, evT{K: "kexmsg", N: 1}, evT{K: "eof"}), "stall:rekey")
}
