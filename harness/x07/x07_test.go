// Binding R for X07 (SSH transport prelude and transport-level message handling, spec/SSHPrelude.tla).
//
// Every history TLC generated (runs of identification-string bytes, packets, bursts, end of file, with the
// model's per-step prediction) is replayed on a REAL library endpoint (ssh.NewClientConn / ssh.NewServerConn)
// whose peer is the independent raw peer of x07_peer.go.  Each history runs in its own testing/synctest
// bubble: after every event synctest.Wait() returns only when every goroutine is durably blocked, so what the
// library wrote, what the constructor and Conn.Wait returned and whether the library closed the connection are
// read at a deterministic quiescent point and compared with the prediction.  At the end the peer drops the
// connection and the goroutines of package ssh are read from a goroutine dump: none may be left.  A stall is
// named from the dump (which goroutine waits where), never from timing.  The replay runs in child processes:
// a panic or goroutines left blocked for ever inside package ssh kill the child, the parent turns that into a
// violation for the history that was running and restarts after it.
package x07

import (
	"bufio"
	"bytes"
	"encoding/json"
	"fmt"
	"os"
	"os/exec"
	"reflect"
	"regexp"
	"strconv"
	"strings"
	"sync"
	"testing"
	"testing/synctest"

	"verif/harness/vutil"
)

type altT struct {
	On   bool   `json:"on"`
	Out  []pktT `json:"out"`
	Res  string `json:"res"`
	Wait string `json:"wait"`
}

type stepT struct {
	Ev      evT    `json:"ev"`
	Out     []pktT `json:"out"`
	Res     string `json:"res"`
	Wait    string `json:"wait"`
	Disc    int    `json:"disc"`
	Closed  bool   `json:"closed"`
	Dead    bool   `json:"dead"`
	HashLen int    `json:"hashLen"`
	Alt     altT   `json:"alt"`
	Fl      flushT `json:"fl"`
	Weak    bool   `json:"weak"`
}

// flushT: PONGs from+1 .. from+n were queued when a key exchange failed; kexLoop may still push an in-order
// prefix of them before the connection is closed.
type flushT struct {
	From int `json:"from"`
	N    int `json:"n"`
}

type caseT struct {
	Cfg   cfgT    `json:"cfg"`
	Steps []stepT `json:"steps"`
	Final struct {
		Res    string `json:"res"`
		Wait   string `json:"wait"`
		Closed bool   `json:"closed"`
		Was    bool   `json:"was"`
		Weak   bool   `json:"weak"`
		Fl     flushT `json:"fl"`
	} `json:"final"`
}

type mismatch struct {
	Step   int      `json:"step"`
	What   string   `json:"what"`
	Got    any      `json:"got"`
	Want   any      `json:"want"`
	Events []evT    `json:"events"`
	Kind   string   `json:"kind"` // "mismatch" | "stall" | "goroutines" | "wire" | "doc"
	Sig    string   `json:"sig"`
	Notes  []string `json:"notes,omitempty"`
}

func sameOut(a, b []pktT) bool {
	return len(a) == len(b) && (len(a) == 0 || reflect.DeepEqual(a, b))
}

// stripFlush removes an in-order prefix of the PONGs that may still be flushed after a failed key exchange.
func stripFlush(out []pktT, fl flushT) []pktT {
	k := 0
	for k < len(out) && k < fl.N && out[k] == (pktT{T: "pong", I: fl.From + k + 1}) {
		k++
	}
	return out[k:]
}

func sameClass(got, want string, weak bool) bool {
	return got == want || (weak && want == "eof" && got == "err")
}

// compare returns "" or what differs between the observation and the prediction.
func compare(got obsT, out []pktT, res, wait string, disc int, closed bool, fl flushT, weak bool) (string, any, any) {
	if !sameOut(stripFlush(got.Out, fl), out) {
		return "packets written by the library", got.Out, out
	}
	if !sameClass(got.Res, res, weak) {
		return "result of the constructor", got.Res, res
	}
	if !sameClass(got.Wait, wait, weak) {
		return "result of Conn.Wait", got.Wait, wait
	}
	if (res == "disc" || wait == "disc") && got.Disc != disc {
		return "disconnect reason carried by the error", got.Disc, disc
	}
	if got.Closed != closed {
		return "the library closed the connection", got.Closed, closed
	}
	return "", nil, nil
}

// phaseOf names where in the protocol a step happens (for signatures): from the steps before it.
func phaseOf(c *caseT, i int) string {
	ph := "ver"
	if c.Cfg.Start == "kex0" {
		ph = "kex0"
	}
	for j := 1; j < i && j < len(c.Steps); j++ {
		st := c.Steps[j]
		for _, o := range st.Out {
			switch o.T {
			case "kexinit":
				if ph == "ver" {
					ph = "kex0"
				}
			case "svcreq", "svcacc":
				if o.T == "svcreq" {
					ph = "svc"
				} else {
					ph = "auth"
				}
			case "authreq":
				ph = "auth"
			}
		}
		if st.Ev.K == "newkeys" && ph == "kex0" && len(st.Out) == 0 {
			ph = "svc"
		}
		if st.Res == "ok" {
			ph = "open"
		}
	}
	return ph
}

// replayIn runs one history in its own bubble; report is called (inside the bubble) as soon as there is a verdict.
func replayIn(t *testing.T, c *caseT, idx int, report func(mm *mismatch, diverted bool, infra error)) {
	stalled := false
	defer func() {
		// goroutines of package ssh blocked for ever keep the bubble from ending: synctest panics.  When the
		// stall has been reported from the goroutine dump already, the panic says nothing new: the goroutines
		// stay behind in this process (later dumps are restricted to their own bubble).
		if r := recover(); r != nil {
			if stalled && strings.Contains(fmt.Sprint(r), "blocked goroutines remain") {
				return
			}
			panic(r)
		}
	}()
	synctest.Test(t, func(t *testing.T) {
		w := newWorld(c.Cfg, int64(idx)*7919+vutil.Seed())
		var evs []evT
		reported := false
		say := func(mm *mismatch, diverted bool, infra error) {
			if !reported {
				reported = true
				if mm != nil && mm.Kind == "stall" {
					stalled = true
				}
				report(mm, diverted, infra)
			}
		}
		defer func() {
			say(nil, false, nil)
			w.cleanup()
		}()
		fail := func(step int, kind, what string, got, want any) *mismatch {
			k := "end"
			if step >= 0 && step < len(c.Steps) {
				k = c.Steps[step].Ev.K
				if k == "ver" {
					k += "-" + c.Steps[step].Ev.C
				}
			}
			mm := &mismatch{Step: step, What: what, Got: got, Want: want, Events: append([]evT(nil), evs...), Kind: kind}
			mm.Sig = "prelude-" + kind + ":" + c.Cfg.Role + ":" + phaseOf(c, step) + ":" + k
			return mm
		}
		// a difference with nothing running and goroutines of package ssh blocked is named from the dump
		stallOr := func(mm *mismatch) *mismatch {
			n, dump := sshGoroutines()
			if n > 0 {
				sig := stallSignature(dump)
				if strings.HasPrefix(sig, "stall:rekey") || strings.Contains(sig, "readLoop-blocked-on-incoming") {
					mm.Kind, mm.Sig = "stall", "prelude-"+sig
					mm.Notes = append(mm.Notes, tail(dump, 2500))
				}
			}
			return mm
		}
		if len(c.Steps) == 0 || c.Steps[0].Ev.K != "init" {
			say(nil, false, fmt.Errorf("history does not start with the initial observation"))
			return
		}
		// step 0: the library's own line (or its refusal); after a plain exchange, its first KEXINIT
		got := w.observe()
		init := c.Steps[0]
		evs = append(evs, init.Ev)
		if c.Cfg.Start == "kex0" && c.Cfg.Own != "junk" {
			if len(got.Out) != 1 || got.Out[0] != (pktT{T: "ver", A: c.Cfg.Own}) || got.Res != "" {
				say(fail(0, "mismatch", "the library's identification line", got, "ver:"+c.Cfg.Own), false, nil)
				return
			}
			w.sendPlain()
			if err := w.accept(init.HashLen); err != nil {
				say(nil, false, err)
				return
			}
			got = w.observe()
		}
		if what, g, wv := compare(got, init.Out, init.Res, init.Wait, init.Disc, init.Closed, flushT{}, false); what != "" {
			say(fail(0, "mismatch", what, g, wv), false, nil)
			return
		}
		for i := 1; i < len(c.Steps); i++ {
			st := &c.Steps[i]
			evs = append(evs, st.Ev)
			if err := w.perform(st.Ev); err != nil {
				say(nil, false, fmt.Errorf("step %d %v: %w", i, st.Ev, err))
				return
			}
			if st.Ev.K == "ver" && c.Steps[i-1].HashLen == 0 && st.HashLen > 0 {
				if err := w.accept(st.HashLen); err != nil {
					say(nil, false, fmt.Errorf("step %d: %w", i, err))
					return
				}
			}
			got := w.observe()
			if len(w.p.problems) > 0 {
				mm := fail(i, "wire", "the independent peer cannot follow what the library wrote: "+w.p.problems[0], w.p.problems, nil)
				say(mm, false, nil)
				return
			}
			if len(w.notes) > 0 {
				mm := fail(i, "doc", w.notes[0], w.notes, nil)
				say(mm, false, nil)
				return
			}
			if what, g, wv := compare(got, st.Out, st.Res, st.Wait, st.Disc, st.Closed, st.Fl, st.Weak); what != "" {
				if st.Alt.On {
					if w2, _, _ := compare(got, st.Alt.Out, st.Alt.Res, st.Alt.Wait, 0, true, flushT{}, false); w2 == "" {
						say(nil, true, nil) // the other outcome the model allows: this history ends here
						return
					}
				}
				say(stallOr(fail(i, "mismatch", what, g, wv)), false, nil)
				return
			}
			if st.Res == "ok" && c.Steps[i-1].Res == "" {
				// established: what the connection reports about the identification strings
				if s := w.checkMetadata(); s != "" {
					say(fail(i, "doc", s, nil, nil), false, nil)
					return
				}
			}
		}
		// the peer drops the connection (unless the connection has ended)
		ns := len(c.Steps)
		if !c.Final.Was {
			evs = append(evs, evT{K: "eof"})
			w.p.close()
		}
		got = w.observe()
		if len(stripFlush(got.Out, c.Final.Fl)) != 0 && !c.Final.Was {
			say(fail(ns, "mismatch", "after the end of file: packets written by the library", got.Out, nil), false, nil)
			return
		}
		if !sameClass(got.Res, c.Final.Res, c.Final.Weak) || !sameClass(got.Wait, c.Final.Wait, c.Final.Weak) || got.Closed != c.Final.Closed {
			say(stallOr(fail(ns, "mismatch", "after the connection ended: constructor / Wait / closed", []any{got.Res, got.Wait, got.Closed}, []any{c.Final.Res, c.Final.Wait, c.Final.Closed})), false, nil)
			return
		}
		// the harness lets go of its own ends; nothing of package ssh may be left
		w.cleanup()
		if n, dump := sshGoroutines(); n != 0 {
			mm := fail(ns, "goroutines", "goroutines of package ssh left after the connection ended", n, 0)
			mm.Sig = "prelude-" + stallSignature(dump)
			mm.Kind = "stall"
			mm.Notes = []string{tail(dump, 2500)}
			say(mm, false, nil)
			return
		}
	})
}

// checkMetadata: ClientVersion / ServerVersion are documented as the strings "as hashed into the session ID".
func (w *world) checkMetadata() string {
	w.mu.Lock()
	c := w.conn
	w.mu.Unlock()
	if c == nil {
		return ""
	}
	if !bytes.Equal(c.ClientVersion(), w.p.vC) || !bytes.Equal(c.ServerVersion(), w.p.vS) {
		return fmt.Sprintf("Conn.ClientVersion / ServerVersion = %q / %q, hashed by the peer: %q / %q", c.ClientVersion(), c.ServerVersion(), w.p.vC, w.p.vS)
	}
	if !bytes.Equal(c.SessionID(), w.p.sessionID) {
		return "Conn.SessionID differs from the exchange hash the peer computed"
	}
	if c.User() != userName {
		return fmt.Sprintf("Conn.User = %q", c.User())
	}
	return ""
}

func tail(s string, n int) string {
	if len(s) > n {
		return s[len(s)-n:]
	}
	return s
}

// ---------------------------------------------------------------- child: replay cases and report

type childReport struct {
	Case     int       `json:"case"`
	Sig      string    `json:"sig"`
	What     string    `json:"what"`
	Mismatch *mismatch `json:"mismatch"`
	Infra    string    `json:"infra"`
	Diverted bool      `json:"diverted"`
}

func TestReplayChild(t *testing.T) {
	if os.Getenv("VERIF_X07_CHILD") != "replay" {
		t.Skip("child only")
	}
	start, _ := strconv.Atoi(os.Getenv("VERIF_X07_START"))
	shard, _ := strconv.Atoi(os.Getenv("VERIF_X07_SHARD"))
	nshard, _ := strconv.Atoi(vutil.Env("VERIF_X07_NSHARD", "1"))
	prog, err := os.OpenFile(os.Getenv("VERIF_X07_PROGRESS"), os.O_CREATE|os.O_WRONLY, 0o644)
	if err != nil {
		t.Fatal(err)
	}
	rep, err := os.OpenFile(os.Getenv("VERIF_X07_REPORT"), os.O_CREATE|os.O_WRONLY|os.O_APPEND, 0o644)
	if err != nil {
		t.Fatal(err)
	}
	defer rep.Close()
	startWatchdog(watchdogLimit())
	i := -1
	err = vutil.ReadNDJSON(os.Getenv("VERIF_CASES"), func(line []byte) error {
		i++
		if i < start || i%nshard != shard {
			return nil
		}
		var c caseT
		if err := json.Unmarshal(line, &c); err != nil {
			return err
		}
		prog.WriteAt([]byte(fmt.Sprintf("%-12d", i)), 0)
		watchdogProgress(i)
		replayIn(t, &c, i, func(mm *mismatch, diverted bool, infra error) {
			switch {
			case infra != nil:
				b, _ := json.Marshal(childReport{Case: i, Infra: infra.Error()})
				rep.Write(append(b, '\n'))
			case mm != nil:
				b, _ := json.Marshal(childReport{Case: i, Sig: mm.Sig, What: mm.What, Mismatch: mm})
				rep.Write(append(b, '\n'))
			case diverted:
				b, _ := json.Marshal(childReport{Case: i, Diverted: true})
				rep.Write(append(b, '\n'))
			}
		})
		return nil
	})
	if err != nil {
		t.Fatal(err)
	}
	prog.WriteAt([]byte(fmt.Sprintf("%-12s", "done")), 0)
}

var sshFrame = regexp.MustCompile(`golang\.org/x/crypto/ssh\.(\(\*?\w+\)\.\w+|\w+)`)

// classifyCrash inspects the output of a crashed child.
func classifyCrash(out string) (sig, what string, verdict bool) {
	i := strings.Index(out, "panic: ")
	j := strings.Index(out, "fatal error: ")
	if i < 0 && j < 0 {
		return "", "child died without a Go panic", false
	}
	if i < 0 || (j >= 0 && j < i) {
		i = j
	}
	msg := out[i:]
	first := strings.SplitN(msg, "\n", 2)[0]
	if strings.Contains(first, "test timed out") {
		return "", "child timed out: " + first, false
	}
	if strings.Contains(first, "deadlock: main bubble goroutine has exited but blocked goroutines remain") ||
		strings.Contains(first, "all goroutines in bubble are blocked") || strings.Contains(first, "all goroutines are asleep") {
		if sshFrame.MatchString(msg) {
			return "prelude-" + stallSignature(msg), "goroutines remained blocked for ever inside package ssh after the connection ended: " + first, true
		}
		return "", "bubble deadlock outside package ssh: " + first, false
	}
	stack := msg
	if k := strings.Index(msg, "\n\ngoroutine "); k >= 0 {
		rest := msg[k+2:]
		if e := strings.Index(rest, "\n\n"); e >= 0 {
			stack = msg[:k+2+e]
		}
	}
	if f := sshFrame.FindString(stack); f != "" {
		return "prelude-panic:" + strings.TrimPrefix(f, "golang.org/x/crypto/ssh."), "panic in package ssh: " + first, true
	}
	return "", "child panicked outside package ssh: " + first, false
}

// runChildren runs the child test over all cases in nshard concurrent child processes (child k replays the
// cases with index = k mod nshard), restarting a child after a crash.
func runChildren(t *testing.T, out *vutil.Out, childTest string, ncases int, cases []json.RawMessage) {
	nshard, _ := strconv.Atoi(vutil.Env("VERIF_X07_PAR", "4"))
	if nshard < 1 {
		nshard = 1
	}
	dir := t.TempDir()
	var mu sync.Mutex
	crashes := 0
	crashed := map[int]string{} // case -> crash signature (reported only if the child had not reported the case itself)
	crashOut := map[int]string{}
	var fatal []string
	var wg sync.WaitGroup
	for k := 0; k < nshard; k++ {
		wg.Add(1)
		go func(k int) {
			defer wg.Done()
			progress := fmt.Sprintf("%s/progress%d", dir, k)
			report := fmt.Sprintf("%s/report%d.ndjson", dir, k)
			start := 0
			for start < ncases {
				os.WriteFile(progress, []byte(fmt.Sprintf("%-12d", -1)), 0o644)
				cmd := exec.Command(os.Args[0], "-test.run=^"+childTest+"$", "-test.timeout=1500s")
				cmd.Env = append(os.Environ(), "VERIF_X07_CHILD=replay", "VERIF_X07_START="+strconv.Itoa(start), "VERIF_X07_PROGRESS="+progress,
					"VERIF_X07_REPORT="+report, "VERIF_X07_SHARD="+strconv.Itoa(k), "VERIF_X07_NSHARD="+strconv.Itoa(nshard))
				var buf bytes.Buffer
				cmd.Stdout, cmd.Stderr = &buf, &buf
				err := cmd.Run()
				pb, _ := os.ReadFile(progress)
				ps := strings.TrimSpace(string(pb))
				if ps == "done" {
					return
				}
				last, _ := strconv.Atoi(ps)
				mu.Lock()
				if err == nil || last < start {
					fatal = append(fatal, fmt.Sprintf("x07 child %d stopped at %q without finishing (err=%v):\n%s", k, ps, err, tail(buf.String(), 4000)))
					mu.Unlock()
					return
				}
				sig, what, verdict := classifyCrash(buf.String())
				if f, ok := hangOf(buf.String()); ok {
					sig, what, verdict = "prelude-hang:"+f, "the library never became quiescent: a goroutine waits for a lock inside package ssh ("+f+") while nothing is running", true
				}
				if !verdict {
					fatal = append(fatal, fmt.Sprintf("x07 child crashed at case %d, not attributable to package ssh (%s):\n%s", last, what, tail(buf.String(), 6000)))
					mu.Unlock()
					return
				}
				crashed[last] = sig + "\x00" + what
				crashOut[last] = tail(buf.String(), 3000)
				crashes++
				tooMany := crashes > 400
				mu.Unlock()
				if tooMany {
					return
				}
				start = last + 1
			}
		}(k)
	}
	wg.Wait()
	if len(fatal) > 0 {
		t.Fatal(fatal[0])
	}
	out.Extra["child_restarts"] = crashes
	diverted := 0
	reportedCase := map[int]bool{}
	sigCount := map[string]int{}
	for k := 0; k < nshard; k++ {
		fh, err := os.Open(fmt.Sprintf("%s/report%d.ndjson", dir, k))
		if err != nil {
			continue
		}
		sc := bufio.NewScanner(fh)
		sc.Buffer(make([]byte, 1<<20), 1<<26)
		for sc.Scan() {
			var r childReport
			if json.Unmarshal(sc.Bytes(), &r) != nil {
				continue
			}
			if r.Infra != "" {
				fh.Close()
				t.Fatalf("x07 replay infrastructure problem at case %d: %s", r.Case, r.Infra)
			}
			if r.Diverted {
				diverted++
				continue
			}
			reportedCase[r.Case] = true
			var cs any
			if r.Case < len(cases) {
				cs = cases[r.Case]
				if r.Mismatch != nil && r.Mismatch.Kind == "stall" && !explained(cases[r.Case], r.Sig) {
					r.Sig += ":outside-the-known-conditions"
				}
			}
			sigCount[r.Sig]++
			if sigCount[r.Sig] <= 3 {
				out.Violation(r.Sig, "real library differs from SSHPrelude: "+r.What, map[string]any{"mismatch": r.Mismatch, "case": cs})
			}
			t.Errorf("%s: case %d: %s got=%v want=%v", r.Sig, r.Case, r.What, r.Mismatch.Got, r.Mismatch.Want)
		}
		fh.Close()
	}
	for cse, sw := range crashed {
		if reportedCase[cse] {
			continue // the child had reported the stall itself before the bubble could not end
		}
		parts := strings.SplitN(sw, "\x00", 2)
		var detail any
		if cse < len(cases) {
			detail = map[string]any{"case": cases[cse], "crash": crashOut[cse]}
		} else {
			detail = map[string]any{"case_index": cse, "crash": crashOut[cse]}
		}
		sigCount[parts[0]]++
		if sigCount[parts[0]] <= 3 {
			out.Violation(parts[0], parts[1], detail)
		}
		t.Errorf("%s at case %d: %s", parts[0], cse, parts[1])
	}
	out.Extra["histories_that_took_the_other_allowed_outcome"] = diverted
	out.Extra["violation_signatures"] = sigCount
}

// explained: the specification's AsIs twin (the two stalls K1 / K2 of the implementation, see SSHPrelude.tla)
// predicts a stall for this history: a burst of more than chanSize packets behind a packet that ends the
// connection (K2), or at least maxPendingPackets + chanSize + 2 PINGs while the library waits for the peer's
// KEXINIT (K1).  Any other stall keeps a signature of its own.
func explained(raw json.RawMessage, sig string) bool {
	var c caseT
	if json.Unmarshal(raw, &c) != nil {
		return false
	}
	window, inWindow := 0, false
	k1, k2 := false, false
	for _, st := range c.Steps {
		switch st.Ev.K {
		case "burst":
			if st.Ev.N > 16 {
				k2 = true
			}
		case "ping":
			if inWindow {
				window += st.Ev.N
			}
		case "newkeys":
			inWindow, window = false, 0
		}
		for _, o := range st.Out {
			if o.T == "kexinit" && o.A == "" && st.Ev.K == "greq0" {
				inWindow, window = true, 0
			}
		}
		if window >= 64+16+2 {
			k1 = true
		}
	}
	if strings.Contains(sig, "stall:rekey:") {
		return k1
	}
	return k2
}

func TestReplay(t *testing.T) {
	out := vutil.NewOut()
	defer func() {
		if err := out.Write(); err != nil {
			t.Fatal(err)
		}
	}()
	var cases []json.RawMessage
	keep := 200000
	err := vutil.ReadNDJSON(vutil.Env("VERIF_CASES", ""), func(line []byte) error {
		if len(cases) < keep {
			cases = append(cases, append(json.RawMessage(nil), line...))
		}
		out.Case(string(line))
		if len(out.Samples) < 3 && len(line) < 2500 && out.Evaluations%997 == 5 {
			out.Sample(json.RawMessage(append([]byte(nil), line...)))
		}
		return nil
	})
	if err != nil {
		t.Fatal(err)
	}
	runChildren(t, out, "TestReplayChild", out.Evaluations, cases)
}
