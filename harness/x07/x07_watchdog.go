package x07

import (
	"fmt"
	"os"
	"regexp"
	"runtime"
	"strconv"
	"strings"
	"sync/atomic"
	"time"
)

// A goroutine that waits for a sync.Mutex is not "durably blocked" for testing/synctest, so a bubble in which the
// client is stuck on a mutex (e.g. a SendRequest waiting for globalSentMu held by a request that never returns)
// never becomes idle and synctest.Wait() never returns.  The child processes therefore run a real-time watchdog
// OUTSIDE the bubbles: when one case makes no progress for a long time it takes a goroutine dump and classifies it.
// Only "some goroutine waits for a lock inside package ssh, and nothing at all is running" is a hang; anything
// else (a slow machine) is reported as a stall, which the parent treats as an infrastructure problem.

var (
	wdCase  atomic.Int64 // index of the case / session in progress
	wdStart atomic.Int64 // unix nanoseconds at which it started
)

func watchdogProgress(i int) {
	wdCase.Store(int64(i))
	wdStart.Store(time.Now().UnixNano())
}

var goroutineHeader = regexp.MustCompile(`^goroutine (\d+)(?: gp=\S+ m=\S+(?: mp=\S+)?)? \[([^\]]*)\]`)

// classifyHang inspects a full goroutine dump: (frame, true) if a goroutine waits for a lock with a frame of
// package ssh on its stack and no goroutine except the caller is running or runnable.
func classifyHang(dump string, self string) (frame string, hang bool, busy bool) {
	for _, g := range strings.Split(dump, "\n\n") {
		m := goroutineHeader.FindStringSubmatch(g)
		if m == nil {
			continue
		}
		state := m[2]
		if strings.Contains(g, self) {
			continue
		}
		if strings.HasPrefix(state, "running") || strings.HasPrefix(state, "runnable") {
			busy = true
		}
		if strings.Contains(state, "sync.Mutex.Lock") || strings.Contains(state, "sync.RWMutex") || strings.HasPrefix(state, "semacquire") {
			if f := sshFrame.FindString(g); f != "" && frame == "" {
				frame = strings.TrimPrefix(f, "golang.org/x/crypto/ssh.")
			}
		}
	}
	return frame, frame != "" && !busy, busy
}

const hangExitCode = 7

// watchdogLimit: real time one case may take before the dump is taken (a case normally takes milliseconds).
func watchdogLimit() time.Duration {
	if v, err := strconv.Atoi(os.Getenv("VERIF_X07_WATCHDOG_S")); err == nil && v > 0 {
		return time.Duration(v) * time.Second
	}
	return 90 * time.Second
}

func startWatchdog(limit time.Duration) {
	watchdogProgress(-1)
	go func() {
		buf := make([]byte, 4<<20)
		strikes := 0
		for {
			time.Sleep(2 * time.Second)
			if time.Since(time.Unix(0, wdStart.Load())) < limit {
				strikes = 0
				continue
			}
			n := runtime.Stack(buf, true)
			dump := string(buf[:n])
			frame, hang, busy := classifyHang(dump, "x07.startWatchdog")
			if hang {
				fmt.Printf("\nX07-HANG case=%d frame=%s\n%s\n", wdCase.Load(), frame, dump)
				os.Exit(hangExitCode)
			}
			strikes++
			if strikes >= 4 || !busy {
				fmt.Printf("\nX07-STALL case=%d busy=%v\n%s\n", wdCase.Load(), busy, dump)
				os.Exit(hangExitCode + 1)
			}
			time.Sleep(15 * time.Second)
		}
	}()
}

var hangLine = regexp.MustCompile(`X07-HANG case=(-?\d+) frame=(\S+)`)

// hangOf extracts the watchdog's verdict from the output of a child.
func hangOf(out string) (frame string, ok bool) {
	m := hangLine.FindStringSubmatch(out)
	if m == nil {
		return "", false
	}
	return m[2], true
}
