// Binding R for C28: every negotiation TLC enumerated from SSHNegotiate is replayed on the
// real findAgreedAlgorithms (through the verif hook, via Marshal/Unmarshal of real KEXINITs)
// for both roles, and compared with the model's prediction.
package c28

import (
	"encoding/json"
	"fmt"
	"reflect"
	"testing"

	"golang.org/x/crypto/ssh"
	"verif/harness/vutil"
)

type view struct {
	Ok      bool   `json:"ok"`
	What    string `json:"what"`
	Kex     string `json:"kex"`
	Hostkey string `json:"hostkey"`
	WCipher string `json:"wCipher"`
	RCipher string `json:"rCipher"`
	WMAC    string `json:"wMAC"`
	RMAC    string `json:"rMAC"`
	WComp   string `json:"wComp"`
	RComp   string `json:"rComp"`
}

type tcase struct {
	Ci map[string][]string `json:"ci"`
	Si map[string][]string `json:"si"`
	C  view                `json:"c"`
	S  view                `json:"s"`
}

// abstract -> concrete names; only AEAD-ness matters to the code under test.
var nameMap = map[string]string{
	"g": "aes128-gcm@openssh.com", "g2": "chacha20-poly1305@openssh.com",
	"a": "aes128-ctr", "b": "aes256-ctr", "c1": "aes128-ctr", "c2": "aes192-ctr", "c3": "aes256-ctr", "c4": "aes128-cbc",
	"k1": "curve25519-sha256", "k2": "ecdh-sha2-nistp256", "k9": "k9@verif",
	"h1": "ssh-ed25519", "h2": "rsa-sha2-512", "h9": "h9@verif",
	"m1": "hmac-sha2-256-etm@openssh.com", "m2": "hmac-sha2-256", "m3": "hmac-sha2-512", "m4": "hmac-sha1", "m9": "m9@verif",
}

func conc(l []string) []string {
	out := make([]string, len(l))
	for i, x := range l {
		if y, ok := nameMap[x]; ok {
			out[i] = y
		} else {
			out[i] = x
		}
	}
	return out
}
func conc1(x string) string {
	if x == "-" {
		return ""
	}
	if y, ok := nameMap[x]; ok {
		return y
	}
	return x
}

func mk(m map[string][]string) *ssh.VerifKexInit {
	return &ssh.VerifKexInit{
		KexAlgos: conc(m["kex"]), ServerHostKeyAlgos: conc(m["hostkey"]),
		CiphersClientServer: conc(m["cipherCS"]), CiphersServerClient: conc(m["cipherSC"]),
		MACsClientServer: conc(m["macCS"]), MACsServerClient: conc(m["macSC"]),
		CompressionClientServer: conc(m["compCS"]), CompressionServerClient: conc(m["compSC"]),
	}
}

func realView(isClient bool, ci, si *ssh.VerifKexInit) (v view) {
	r, err := ssh.VerifFindAgreedAlgorithms(isClient, ci, si)
	if err != nil {
		return view{Ok: false}
	}
	return view{Ok: true, Kex: r.Algs.KeyExchange, Hostkey: r.Algs.HostKey,
		WCipher: r.Algs.Write.Cipher, RCipher: r.Algs.Read.Cipher, WMAC: r.Algs.Write.MAC, RMAC: r.Algs.Read.MAC,
		WComp: r.WriteCompression, RComp: r.ReadCompression}
}

func want(v view) view {
	if !v.Ok {
		return view{Ok: false}
	}
	return view{Ok: true, Kex: conc1(v.Kex), Hostkey: conc1(v.Hostkey), WCipher: conc1(v.WCipher), RCipher: conc1(v.RCipher),
		WMAC: conc1(v.WMAC), RMAC: conc1(v.RMAC), WComp: conc1(v.WComp), RComp: conc1(v.RComp)}
}

func TestReplay(t *testing.T) {
	out := vutil.NewOut()
	defer func() {
		if err := out.Write(); err != nil {
			t.Fatal(err)
		}
	}()
	err := vutil.ReadNDJSON(vutil.Env("VERIF_CASES", ""), func(line []byte) error {
		var c tcase
		if err := json.Unmarshal(line, &c); err != nil {
			return err
		}
		ci, si := mk(c.Ci), mk(c.Si)
		for _, role := range []bool{true, false} {
			got := realView(role, ci, si)
			exp := want(c.S)
			if role {
				exp = want(c.C)
			}
			key := fmt.Sprintf("%v|%v|%v", c.Ci, c.Si, role)
			out.Case(key)
			if !reflect.DeepEqual(got, exp) {
				out.Violation("negotiate-mismatch", fmt.Sprintf("findAgreedAlgorithms(isClient=%v) differs from RFC 4253 7.1 model", role),
					map[string]any{"case": c, "isClient": role, "got": got, "want": exp})
				t.Errorf("mismatch role=%v case=%s got=%+v want=%+v", role, line, got, exp)
			}
		}
		// symmetry judged on the real code alone (independent of the model's prediction)
		rc, rs := realView(true, ci, si), realView(false, ci, si)
		if rc.Ok != rs.Ok || (rc.Ok && (rc.Kex != rs.Kex || rc.Hostkey != rs.Hostkey || rc.WCipher != rs.RCipher || rc.RCipher != rs.WCipher ||
			rc.WMAC != rs.RMAC || rc.RMAC != rs.WMAC || rc.WComp != rs.RComp || rc.RComp != rs.WComp)) {
			out.Violation("negotiate-asymmetric", "client and server computations disagree", map[string]any{"case": c, "client": rc, "server": rs})
			t.Errorf("asymmetric: %s", line)
		}
		out.Sample(json.RawMessage(append([]byte(nil), line...)))
		return nil
	})
	if err != nil {
		t.Fatal(err)
	}
}
