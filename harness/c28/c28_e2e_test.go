package c28

import (
	"crypto/ecdsa"
	"crypto/ed25519"
	"crypto/elliptic"
	"crypto/rand"
	"encoding/json"
	"fmt"
	"sync"
	"testing"

	"golang.org/x/crypto/ssh"
	"verif/harness/memconn"
	"verif/harness/vutil"
)

// End-to-end binding for C28: the same negotiations, but through real client and server connections:
// the lists are put into ClientConfig/ServerConfig, the KEXINITs are assembled by sendKexInit, and the
// outcome is read back from both sides' Algorithms().
var e2eNames = map[string]string{
	"k1": "curve25519-sha256", "k2": "ecdh-sha2-nistp256", "k9": "ecdh-sha2-nistp384",
	"h1": "ssh-ed25519", "h2": "ecdsa-sha2-nistp256", "h9": "ecdsa-sha2-nistp384",
	"c1": "aes128-ctr", "c2": "aes256-ctr", "g": "aes128-gcm@openssh.com", "g2": "chacha20-poly1305@openssh.com",
	"m1": "hmac-sha2-256-etm@openssh.com", "m2": "hmac-sha2-256", "m9": "hmac-sha2-512",
}

func e2e(l []string) []string {
	out := make([]string, len(l))
	for i, x := range l {
		out[i] = e2eNames[x]
	}
	return out
}
func e2e1(x string) string {
	if x == "-" {
		return ""
	}
	return e2eNames[x]
}

var hostSigners = map[string]ssh.Signer{}

func init() {
	_, ed, _ := ed25519.GenerateKey(rand.Reader)
	hostSigners["ssh-ed25519"], _ = ssh.NewSignerFromKey(ed)
	ec, _ := ecdsa.GenerateKey(elliptic.P256(), rand.Reader)
	hostSigners["ecdsa-sha2-nistp256"], _ = ssh.NewSignerFromKey(ec)
	ec3, _ := ecdsa.GenerateKey(elliptic.P384(), rand.Reader)
	hostSigners["ecdsa-sha2-nistp384"], _ = ssh.NewSignerFromKey(ec3)
}

func runE2E(c tcase) (cv, sv view, cerr, serr error) {
	a, b := memconn.Pair()
	cconf := &ssh.ClientConfig{User: "u", HostKeyCallback: ssh.InsecureIgnoreHostKey(), HostKeyAlgorithms: e2e(c.Ci["hostkey"])}
	cconf.KeyExchanges, cconf.Ciphers, cconf.MACs = e2e(c.Ci["kex"]), e2e(c.Ci["cipherCS"]), e2e(c.Ci["macCS"])
	sconf := &ssh.ServerConfig{NoClientAuth: true}
	sconf.KeyExchanges, sconf.Ciphers, sconf.MACs = e2e(c.Si["kex"]), e2e(c.Si["cipherCS"]), e2e(c.Si["macCS"])
	for _, h := range e2e(c.Si["hostkey"]) { // the server's host key algorithm list is the order of its host keys
		sconf.AddHostKey(hostSigners[h])
	}
	var wg sync.WaitGroup
	wg.Add(2)
	mk := func(al ssh.NegotiatedAlgorithms) view {
		return view{Ok: true, Kex: al.KeyExchange, Hostkey: al.HostKey, WCipher: al.Write.Cipher, RCipher: al.Read.Cipher, WMAC: al.Write.MAC, RMAC: al.Read.MAC}
	}
	go func() {
		defer wg.Done()
		conn, chans, reqs, err := ssh.NewServerConn(b, sconf)
		if err != nil {
			serr = err
			b.Close()
			return
		}
		go ssh.DiscardRequests(reqs)
		go func() {
			for ch := range chans {
				ch.Reject(ssh.Prohibited, "")
			}
		}()
		sv = mk(conn.Conn.(ssh.AlgorithmsConnMetadata).Algorithms())
		conn.Close()
	}()
	go func() {
		defer wg.Done()
		conn, chans, reqs, err := ssh.NewClientConn(a, "addr", cconf)
		if err != nil {
			cerr = err
			a.Close()
			return
		}
		go ssh.DiscardRequests(reqs)
		go func() {
			for ch := range chans {
				ch.Reject(ssh.Prohibited, "")
			}
		}()
		cv = mk(conn.(ssh.AlgorithmsConnMetadata).Algorithms())
		conn.Close()
	}()
	wg.Wait()
	return
}

func TestE2E(t *testing.T) {
	out := vutil.NewOut()
	defer func() {
		if err := out.Write(); err != nil {
			t.Fatal(err)
		}
	}()
	var cases []tcase
	if err := vutil.ReadNDJSON(vutil.Env("VERIF_CASES", ""), func(line []byte) error {
		var c tcase
		if err := json.Unmarshal(line, &c); err != nil {
			return err
		}
		cases = append(cases, c)
		return nil
	}); err != nil {
		t.Fatal(err)
	}
	type res struct {
		cv, sv     view
		cerr, serr error
	}
	results := make([]res, len(cases))
	sem := make(chan struct{}, 16)
	var wg sync.WaitGroup
	for i := range cases {
		wg.Add(1)
		sem <- struct{}{}
		go func(i int) {
			defer wg.Done()
			defer func() { <-sem }()
			r := &results[i]
			r.cv, r.sv, r.cerr, r.serr = runE2E(cases[i])
		}(i)
	}
	wg.Wait()
	for i, c := range cases {
		r := results[i]
		key := fmt.Sprintf("%v|%v", c.Ci, c.Si)
		out.Case(key)
		if i < 3 {
			out.Sample(map[string]any{"case": c, "client": r.cv, "server": r.sv, "clientErr": fmt.Sprint(r.cerr), "serverErr": fmt.Sprint(r.serr)})
		}
		bad := func(what string) {
			out.Violation("negotiate-e2e-mismatch", what, map[string]any{"case": c, "client": r.cv, "server": r.sv, "clientErr": fmt.Sprint(r.cerr), "serverErr": fmt.Sprint(r.serr)})
			t.Errorf("%s: %s", what, key)
		}
		if !c.C.Ok {
			if r.cerr == nil || r.serr == nil {
				bad("the model says negotiation fails, but a side completed the handshake")
			}
			continue
		}
		if r.cerr != nil || r.serr != nil {
			bad(fmt.Sprintf("the model says negotiation succeeds, but the handshake failed (client: %v, server: %v)", r.cerr, r.serr))
			continue
		}
		wantC := view{Ok: true, Kex: e2e1(c.C.Kex), Hostkey: e2e1(c.C.Hostkey), WCipher: e2e1(c.C.WCipher), RCipher: e2e1(c.C.RCipher), WMAC: e2e1(c.C.WMAC), RMAC: e2e1(c.C.RMAC)}
		wantS := view{Ok: true, Kex: e2e1(c.S.Kex), Hostkey: e2e1(c.S.Hostkey), WCipher: e2e1(c.S.WCipher), RCipher: e2e1(c.S.RCipher), WMAC: e2e1(c.S.WMAC), RMAC: e2e1(c.S.RMAC)}
		if r.cv != wantC {
			bad(fmt.Sprintf("client negotiated %+v, RFC 4253 7.1 model says %+v", r.cv, wantC))
		}
		if r.sv != wantS {
			bad(fmt.Sprintf("server negotiated %+v, RFC 4253 7.1 model says %+v", r.sv, wantS))
		}
	}
}
