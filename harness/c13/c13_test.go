// Binding E+R for C13 (XTS mode matches IEEE 1619 and inverts).
//
// VERIF_CASES holds (1) TRACE lines of spec/XTS_MC.tla: toy-primitive vectors, and XTS cases whose
// ciphertext TLC evaluated from the definition spec/XTS.tla with the toy block cipher of
// spec/PrimToy.tla; (2) optional vectors computed by OpenSSL's EVP_aes_{128,256}_xts (t="ossl").
// The harness drives the REAL golang.org/x/crypto/xts: NewCipher(toyprim.NewBlock, k1||k2) for the
// TLC cases, NewCipher(aes.NewCipher, key) for IEEE 1619 Annex B vectors (ieee1619.json), the
// OpenSSL vectors and an independent composition crypto/aes + toyprim.Mul2 (validated against the
// TLC cases in the same run) for lengths 16..4096; Encrypt/Decrypt with separate and aliased buffers.
package c13

import (
	"bytes"
	"crypto/aes"
	"crypto/cipher"
	"encoding/binary"
	"encoding/hex"
	"encoding/json"
	"fmt"
	"os"
	"strconv"
	"testing"

	"golang.org/x/crypto/xts"
	"verif/harness/toyprim"
	"verif/harness/vutil"
)

type kv struct {
	K []int `json:"k"`
	X []int `json:"x"`
	Y []int `json:"y"`
}

type rec struct {
	T       string `json:"t"`
	E       []kv   `json:"e"`
	M       []kv   `json:"m"`
	KeyOK   []int  `json:"keyok"`
	Sec     string `json:"sec"`
	Sector8 []int  `json:"sector8"`
	Tw      string `json:"tw"`
	NB      int    `json:"nb"`
	K1      []int  `json:"k1"`
	K2      []int  `json:"k2"`
	PT      []int  `json:"pt"`
	CT      []int  `json:"ct"`
	T0      []int  `json:"t0"`
	TLast   []int  `json:"tlast"`
	// OpenSSL vectors
	Key    string `json:"key"`
	Sector string `json:"sector"` // decimal uint64
	PTHex  string `json:"pthex"`
	CTHex  string `json:"cthex"`
}

func tb(v []int) []byte {
	b := make([]byte, len(v))
	for i, x := range v {
		b[i] = byte(x)
	}
	return b
}

func hx(b []byte) string {
	if len(b) > 48 {
		return hex.EncodeToString(b[:48]) + "..."
	}
	return hex.EncodeToString(b)
}

func firstDiff(a, b []byte) int {
	for i := range a {
		if i >= len(b) || a[i] != b[i] {
			return i
		}
	}
	if len(a) != len(b) {
		return len(a)
	}
	return -1
}

type env struct {
	t    *testing.T
	out  *vutil.Out
	seen map[string]int
}

// fail records a violation (at most 5 per signature, so that one defect does not crowd out another).
func (e *env) fail(sig, what string, d map[string]any) {
	if e.seen == nil {
		e.seen = map[string]int{}
	}
	e.seen[sig]++
	if e.seen[sig] <= 5 {
		e.out.Violation(sig, what, d)
	}
	if e.seen[sig] <= 20 {
		e.t.Errorf("%s: %s %v", sig, what, d)
	} else {
		e.t.Fail()
	}
}

// checkXTS drives the real package on one (cipherFunc, key, sector, pt) with the expected ciphertext.
func (e *env) checkXTS(src string, f func([]byte) (cipher.Block, error), key []byte, sector uint64, pt, want []byte, label string) {
	d := func(extra map[string]any) map[string]any {
		m := map[string]any{"source": src, "case": label, "key": hex.EncodeToString(key), "sector": strconv.FormatUint(sector, 10),
			"len": len(pt), "pt": hx(pt), "want": hx(want)}
		for k, v := range extra {
			m[k] = v
		}
		return m
	}
	defer func() {
		if r := recover(); r != nil {
			e.fail("c13-panic:"+src, "xts panicked on a valid input (length a positive multiple of 16)", d(map[string]any{"panic": fmt.Sprint(r)}))
		}
	}()
	// Every slice handed to the package is a private copy that is overwritten as soon as the call's
	// result has been judged: the Cipher must not depend on the caller's key, source or destination
	// memory after a call returns.
	wipe := func(k int, bs ...[]byte) {
		for _, b := range bs {
			for i := range b {
				b[i] = byte(0x5A*k + i*k)
			}
		}
	}
	keyc := append([]byte(nil), key...)
	c, err := xts.NewCipher(f, keyc)
	wipe(1, keyc)
	if err != nil {
		e.fail("c13-newcipher-error:"+src, "xts.NewCipher rejects a valid key", d(map[string]any{"err": err.Error()}))
		return
	}
	n := len(pt)
	orig := append([]byte(nil), pt...)
	pt = append([]byte(nil), pt...) // private, wiped and refreshed between calls
	refresh := func() { copy(pt, orig) }
	// an unrelated call first: the tweak register is pooled and must not leak between calls
	scratch := make([]byte, 48)
	c.Encrypt(scratch, scratch, ^sector)
	// Encrypt, separate buffers
	dst := bytes.Repeat([]byte{0xA7}, n)
	c.Encrypt(dst, pt, sector)
	if i := firstDiff(dst, want); i >= 0 {
		e.fail("c13-encrypt-mismatch:"+src, "xts.Encrypt differs from IEEE 1619 XTS", d(map[string]any{"got": hx(dst), "first_diff": i, "block": i / 16}))
		return
	}
	if !bytes.Equal(pt, orig) {
		e.fail("c13-source-modified:"+src, "xts.Encrypt modified the plaintext buffer", d(nil))
	}
	wipe(2, dst, pt, scratch)
	refresh()
	// Encrypt, in place
	buf := append([]byte(nil), pt...)
	c.Encrypt(buf, buf, sector)
	if i := firstDiff(buf, want); i >= 0 {
		e.fail("c13-encrypt-inplace-mismatch:"+src, "in-place xts.Encrypt differs from the separate-buffer result", d(map[string]any{"got": hx(buf), "first_diff": i}))
	}
	wipe(3, buf)
	// Encrypt into a longer destination (allowed: len(ciphertext) >= len(plaintext))
	long := bytes.Repeat([]byte{0x5C}, n+16)
	c.Encrypt(long, pt, sector)
	if i := firstDiff(long[:n], want); i >= 0 {
		e.fail("c13-encrypt-mismatch:"+src, "xts.Encrypt into a longer destination differs from IEEE 1619 XTS", d(map[string]any{"got": hx(long), "first_diff": i}))
	}
	wipe(0, long, pt)
	refresh()
	// Decrypt, separate buffers and in place
	ctc := append([]byte(nil), want...)
	back := bytes.Repeat([]byte{0x3B}, n)
	c.Decrypt(back, ctc, sector)
	if i := firstDiff(back, orig); i >= 0 {
		e.fail("c13-decrypt-mismatch:"+src, "xts.Decrypt does not return the plaintext", d(map[string]any{"got": hx(back), "first_diff": i, "block": i / 16}))
	}
	if !bytes.Equal(ctc, want) {
		e.fail("c13-source-modified:"+src, "xts.Decrypt modified the ciphertext buffer", d(nil))
	}
	wipe(4, back)
	c.Decrypt(ctc, ctc, sector)
	if i := firstDiff(ctc, orig); i >= 0 {
		e.fail("c13-decrypt-inplace-mismatch:"+src, "in-place xts.Decrypt does not return the plaintext", d(map[string]any{"got": hx(ctc), "first_diff": i}))
	}
	wipe(5, ctc)
	// after all that scribbling the first Cipher still encrypts correctly
	dst2 := make([]byte, n)
	c.Encrypt(dst2, pt, sector)
	if i := firstDiff(dst2, want); i >= 0 {
		e.fail("c13-encrypt-mismatch:"+src, "xts.Encrypt differs from IEEE 1619 XTS after the caller overwrote buffers of earlier calls", d(map[string]any{"got": hx(dst2), "first_diff": i}))
	}
	// a fresh Cipher object gives the same result (no hidden state in the first one)
	c2, _ := xts.NewCipher(f, key)
	again := make([]byte, n)
	c2.Encrypt(again, pt, sector)
	if !bytes.Equal(again, want) {
		e.fail("c13-encrypt-mismatch:"+src, "a second Cipher with the same key gives a different ciphertext", d(map[string]any{"got": hx(again)}))
	}
}

func aesPair(key []byte) (cipher.Block, cipher.Block) {
	k1, err1 := aes.NewCipher(key[:len(key)/2])
	k2, err2 := aes.NewCipher(key[len(key)/2:])
	if err1 != nil || err2 != nil {
		panic("harness: bad AES key length")
	}
	return k1, k2
}

func sec8(s uint64) []byte {
	b := make([]byte, 8)
	binary.LittleEndian.PutUint64(b, s)
	return b
}

func TestReplay(t *testing.T) {
	out := vutil.NewOut()
	defer func() {
		if err := out.Write(); err != nil {
			t.Errorf("write out: %v", err)
		}
	}()
	e := &env{t: t, out: out}
	var cases []rec
	if err := vutil.ReadNDJSON(os.Getenv("VERIF_CASES"), func(line []byte) error {
		var r rec
		if err := json.Unmarshal(line, &r); err != nil {
			return err
		}
		cases = append(cases, r)
		return nil
	}); err != nil {
		t.Fatalf("cases: %v", err)
	}
	// ---- 1. the Go twin of the toy primitives and the XTS/GF128 transcription against TLC (harness self-check: no verdict)
	nToy, nX := 0, 0
	var keyOK map[int]bool
	for _, r := range cases {
		switch r.T {
		case "toyvec":
			for _, v := range r.E {
				b, _ := toyprim.NewBlock(tb(v.K))
				y := make([]byte, 16)
				b.Encrypt(y, tb(v.X))
				x := make([]byte, 16)
				b.Decrypt(x, y)
				if !bytes.Equal(y, tb(v.Y)) || !bytes.Equal(x, tb(v.X)) {
					t.Fatalf("harness: toyprim.Block differs from PrimToy!ToyE evaluated by TLC: %v", v)
				}
				nToy++
			}
			for _, v := range r.M {
				if !bytes.Equal(toyprim.Mul2(tb(v.X)), tb(v.Y)) {
					t.Fatalf("harness: toyprim.Mul2 differs from PrimGF128!GFMul2 evaluated by TLC: %v", v)
				}
				nToy++
			}
			keyOK = map[int]bool{}
			for _, l := range r.KeyOK {
				keyOK[l] = true
			}
		case "xts":
			k1, _ := toyprim.NewBlock(tb(r.K1))
			k2, _ := toyprim.NewBlock(tb(r.K2))
			if !bytes.Equal(toyprim.XTS(k1, k2, tb(r.Sector8), tb(r.PT), true), tb(r.CT)) ||
				!bytes.Equal(toyprim.XTS(k1, k2, tb(r.Sector8), tb(r.CT), false), tb(r.PT)) {
				t.Fatalf("harness: toyprim.XTS differs from XTS!XTSEnc evaluated by TLC on case %s/%s/%d", r.Sec, r.Tw, r.NB)
			}
			t0 := make([]byte, 16)
			copy(t0, tb(r.Sector8))
			k2.Encrypt(t0, t0)
			tl := t0
			for j := 0; j < r.NB; j++ {
				tl = toyprim.Mul2(tl)
			}
			if !bytes.Equal(t0, tb(r.T0)) || !bytes.Equal(tl, tb(r.TLast)) {
				t.Fatalf("harness: tweak chain differs from TLC on case %s/%s/%d", r.Sec, r.Tw, r.NB)
			}
			nX++
		}
	}
	if nToy == 0 || nX == 0 {
		t.Fatalf("harness: no TLC vectors in VERIF_CASES (toy %d, xts %d)", nToy, nX)
	}
	out.Extra["toy_vectors_validated"] = nToy
	out.Extra["refimpl_cases_validated_against_tlc"] = nX

	// ---- 2. the real xts package with the toy block cipher against the TLC-evaluated ciphertexts
	for _, r := range cases {
		if r.T != "xts" {
			continue
		}
		key := append(tb(r.K1), tb(r.K2)...)
		sector := binary.LittleEndian.Uint64(tb(r.Sector8))
		label := fmt.Sprintf("toy sec=%s tw=%s nb=%d", r.Sec, r.Tw, r.NB)
		e.checkXTS("toy", toyprim.NewBlock, key, sector, tb(r.PT), tb(r.CT), label)
		out.Case(label)
		if r.NB == 32 {
			out.Sample(map[string]any{"case": label, "t0": hx(tb(r.T0)), "ct": hx(tb(r.CT))})
		}
	}

	// ---- 3. real AES: IEEE 1619 Annex B vectors
	var ieee []struct {
		Key        string `json:"key"`
		Sector     uint64 `json:"sector"`
		Plaintext  string `json:"plaintext"`
		Ciphertext string `json:"ciphertext"`
	}
	raw, err := os.ReadFile("ieee1619.json")
	if err != nil {
		t.Fatalf("harness: %v", err)
	}
	if err := json.Unmarshal(raw, &ieee); err != nil || len(ieee) == 0 {
		t.Fatalf("harness: ieee1619.json: %v", err)
	}
	for i, v := range ieee {
		key, _ := hex.DecodeString(v.Key)
		pt, _ := hex.DecodeString(v.Plaintext)
		ct, _ := hex.DecodeString(v.Ciphertext)
		k1, k2 := aesPair(key)
		if !bytes.Equal(toyprim.XTS(k1, k2, sec8(v.Sector), pt, true), ct) {
			t.Fatalf("harness: composition crypto/aes + toyprim.XTS differs from IEEE 1619 vector %d", i)
		}
		label := fmt.Sprintf("ieee1619 #%d keylen=%d sector=%#x len=%d", i, len(key), v.Sector, len(pt))
		e.checkXTS("ieee", aes.NewCipher, key, v.Sector, pt, ct, label)
		out.Case(label)
	}
	// ---- 4. real AES: vectors computed by OpenSSL (independent implementation), when provided
	nOssl := 0
	for _, r := range cases {
		if r.T != "ossl" {
			continue
		}
		key, _ := hex.DecodeString(r.Key)
		pt, _ := hex.DecodeString(r.PTHex)
		ct, _ := hex.DecodeString(r.CTHex)
		sector, err := strconv.ParseUint(r.Sector, 10, 64)
		if err != nil || len(pt) == 0 || len(pt) != len(ct) {
			t.Fatalf("harness: bad ossl vector")
		}
		label := fmt.Sprintf("openssl keylen=%d sector=%s len=%d", len(key), r.Sector, len(pt))
		e.checkXTS("openssl", aes.NewCipher, key, sector, pt, ct, label)
		out.Case(label)
		nOssl++
	}
	out.Extra["openssl_vectors"] = nOssl

	// ---- 5. real AES: independent composition crypto/aes + the validated transcription, lengths 16..4096
	rng := vutil.Rand(13)
	sectors := []uint64{0, 1, 1 << 32, 1 << 63, ^uint64(0), 1<<32 - 1, 1<<56 + 5, ^uint64(0) - 1, 0xfe, 0xff}
	lens := []int{}
	if vutil.Thorough() {
		for k := 1; k <= 256; k++ {
			lens = append(lens, 16*k)
		}
	} else {
		for _, k := range []int{1, 2, 3, 4, 31, 32, 33, 64, 127, 128, 129, 255, 256} {
			lens = append(lens, 16*k)
		}
		for i := 0; i < 20; i++ {
			lens = append(lens, 16*(1+rng.Intn(256)))
		}
	}
	rounds := 1
	if vutil.Thorough() {
		rounds = 4
	}
	for _, kl := range []int{32, 64, 48} {
		for rd := 0; rd < rounds; rd++ {
			for li, n := range lens {
				key := make([]byte, kl)
				rng.Read(key)
				pt := make([]byte, n)
				rng.Read(pt)
				var sector uint64
				if (li+rd)%3 == 0 {
					sector = rng.Uint64()
				} else {
					sector = sectors[(li+rd*7)%len(sectors)]
				}
				k1, k2 := aesPair(key)
				want := toyprim.XTS(k1, k2, sec8(sector), pt, true)
				label := fmt.Sprintf("compose keylen=%d sector=%#x len=%d", kl, sector, n)
				e.checkXTS("compose", aes.NewCipher, key, sector, pt, want, label)
				out.Case(label)
			}
		}
	}

	// ---- 6. key-length rule.  Verdict only for what the property quantifies over (AES-128/256 key
	// pairs must be accepted); the rest is informational (error, not panic, for other lengths).
	info := map[string]any{}
	unexpected := []string{}
	for l := 0; l <= 80; l++ {
		func() {
			defer func() {
				if r := recover(); r != nil {
					unexpected = append(unexpected, fmt.Sprintf("keylen %d: panic %v", l, r))
				}
			}()
			_, err := xts.NewCipher(aes.NewCipher, make([]byte, l))
			if keyOK[l] && err != nil {
				if l == 32 || l == 64 {
					e.fail("c13-newcipher-error:aes", "xts.NewCipher rejects an AES-128/256 key pair", map[string]any{"keylen": l, "err": err.Error()})
				} else {
					unexpected = append(unexpected, fmt.Sprintf("keylen %d rejected: %v", l, err))
				}
			}
			if !keyOK[l] && err == nil {
				unexpected = append(unexpected, fmt.Sprintf("keylen %d accepted", l))
			}
		}()
	}
	if _, err := xts.NewCipher(toyprim.NewBlock8, make([]byte, 32)); err == nil {
		unexpected = append(unexpected, "cipher with block size 8 accepted")
	}
	info["keylen_rule_deviations"] = unexpected
	// non-multiple-of-16 lengths (outside the property; documented "must be a multiple of 16"): informational
	c, _ := xts.NewCipher(aes.NewCipher, make([]byte, 32))
	np := 0
	for _, n := range []int{1, 15, 17, 31, 100} {
		func() {
			defer func() {
				if recover() != nil {
					np++
				}
			}()
			c.Encrypt(make([]byte, n), make([]byte, n), 0)
		}()
		func() {
			defer func() {
				if recover() != nil {
					np++
				}
			}()
			c.Decrypt(make([]byte, n), make([]byte, n), 0)
		}()
	}
	info["non_multiple_of_16_calls_that_panicked"] = fmt.Sprintf("%d of 10", np)
	out.Extra["informational"] = info
}
