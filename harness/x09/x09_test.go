// Conformance harness for X09 (spec/AcmeAccount.tla).
//
// TestReplay (binding R): every witness history TLC emitted from AcmeAccount_Gen (initial CA table and client
//
//	cache, a sequence of public calls, per request the reply class the CA gives) is played on the REAL
//	acme.Client against the stateful fake CA of fake.go; the recorded events (requests with signer / header
//	form / kid / payload class / inner JWS, replies, results, the client's Key and KID after every call) must
//	equal the model's.
//
// TestRandom (binding T): seeded random sessions with two goroutines sharing one client (AccountKeyRollover
//
//	alone, as documented), failures injected at random; direct wire checks are judged here, the recorded
//	logs are validated by AcmeAccount_Trace.
package x09

import (
	"context"
	"crypto"
	"encoding/json"
	"errors"
	"fmt"
	"net/http"
	"os"
	"reflect"
	"runtime"
	"strconv"
	"strings"
	"sync"
	"testing"
	"time"

	"golang.org/x/crypto/acme"
	"verif/harness/vutil"
)

var (
	keyOnce sync.Once
	theKeys map[string]crypto.Signer
)

func keys() map[string]crypto.Signer {
	keyOnce.Do(func() { theKeys = NewKeys() })
	return theKeys
}

type initCfg struct {
	SK  map[string]string `json:"sk"`
	SS  map[string]string `json:"ss"`
	Kid string            `json:"kid"`
	Dir bool              `json:"dir"`
}

type step struct {
	C       int
	Op, NK  string
	Script  []Reply
	DirOK   []bool
	Reason  int
	Generic string
	Quiet   bool // the caller is alone: Key / KID may be read at return
}

type session struct {
	ca  *CA
	cl  *acme.Client
	obs map[string]int
	mu  sync.Mutex
}

func newSession(ic initCfg) *session {
	ca := NewCA(keys())
	for a, k := range ic.SK {
		ca.SKey[a] = k
	}
	for a, st := range ic.SS {
		ca.SStat[a] = st
	}
	cl := &acme.Client{Key: keys()["k1"], HTTPClient: &http.Client{Transport: ca}, DirectoryURL: Base + "/dir",
		RetryBackoff: func(int, *http.Request, *http.Response) time.Duration { return 0 }}
	if ic.Dir {
		if _, err := cl.Discover(context.Background()); err != nil {
			panic(err)
		}
	}
	if ic.Kid != "" {
		cl.KID = acme.KeyID(AcctURL(ic.Kid))
	}
	ca.Rec = true
	ca.Log = append(ca.Log, Event{"ev": "init", "sk": ic.SK, "ss": ic.SS, "kid": ic.Kid, "dir": ic.Dir})
	return &session{ca: ca, cl: cl, obs: map[string]int{}}
}

func (s *session) keyName() string {
	for n, k := range keys() {
		if s.cl.Key == k {
			return n
		}
	}
	return "unknown"
}

func classify(err error) (string, string) {
	var ae *acme.Error
	var ne *NetErr
	switch {
	case err == nil:
		return "ok", ""
	case err == acme.ErrAccountAlreadyExists:
		return "exists", ""
	case err == acme.ErrNoAccount:
		return "noacct", ""
	case errors.As(err, &ae):
		d := fmt.Sprintf("%d:%s", ae.StatusCode, ae.ProblemType)
		switch {
		case ae.StatusCode == 409:
			d = "conflict409"
		case ae.StatusCode == 403 && strings.HasSuffix(ae.ProblemType, ":unauthorized"):
			d = "unauth"
		case ae.StatusCode == 500:
			d = "e500"
		case ae.StatusCode == 400 && strings.HasSuffix(ae.ProblemType, ":malformed"):
			d = "malformed"
		case ae.StatusCode == 400 && strings.HasSuffix(ae.ProblemType, ":accountDoesNotExist"):
			d = "noacct"
		case ae.StatusCode == 400 && strings.HasSuffix(ae.ProblemType, ":alreadyRevoked"):
			d = "alreadyRevoked"
		}
		return "acmeerr", d
	case errors.As(err, &ne):
		return "other", "neterr"
	}
	return "other", "other:" + err.Error()
}

// call performs one public call of the real client and logs call / ret.
func (s *session) call(st step) {
	ca, cl := s.ca, s.cl
	cc := &CallCtx{ID: st.C, Op: st.Op, Reason: st.Reason, Script: st.Script, DirOK: st.DirOK, Generic: st.Generic,
		Contact: []string{"mailto:x09-" + strconv.Itoa(st.C) + "@example.org"}}
	ctx, cancel := context.WithTimeout(WithCall(context.Background(), cc), 60*time.Second)
	defer cancel()
	ca.LogEvent(Event{"ev": "call", "c": st.C, "op": st.Op, "nk": st.NK})
	var err error
	var acct *acme.Account
	switch st.Op {
	case "discover":
		_, err = cl.Discover(ctx)
	case "register":
		acct, err = cl.Register(ctx, &acme.Account{Contact: cc.Contact}, acme.AcceptTOS)
	case "registerEAB":
		acct, err = cl.Register(ctx, &acme.Account{Contact: cc.Contact,
			ExternalAccountBinding: &acme.ExternalAccountBinding{KID: ca.EABKid, Key: ca.EABKey}}, acme.AcceptTOS)
	case "getreg":
		acct, err = cl.GetReg(ctx, "https://ignored.example/legacy")
	case "update":
		acct, err = cl.UpdateReg(ctx, &acme.Account{Contact: cc.Contact, URI: "https://ignored.example/acct"})
	case "deactivate":
		err = cl.DeactivateReg(ctx)
	case "rollover":
		err = cl.AccountKeyRollover(ctx, keys()[st.NK])
	case "revokeAcct":
		err = cl.RevokeCert(ctx, nil, ca.CertDER, acme.CRLReasonCode(st.Reason))
	case "revokeCert":
		err = cl.RevokeCert(ctx, keys()["ck"], ca.CertDER, acme.CRLReasonCode(st.Reason))
	case "revokeExpl":
		err = cl.RevokeCert(ctx, cl.Key, ca.CertDER, acme.CRLReasonCode(st.Reason))
	case "generic":
		if st.Generic == "order" {
			_, err = cl.GetOrder(ctx, Base+"/order/1")
		} else {
			err = cl.RevokeAuthorization(ctx, Base+"/authz/1")
		}
	default:
		panic("unknown op " + st.Op)
	}
	res, d := classify(err)
	ca.mu.Lock()
	loc := ca.LastLoc[st.C]
	// direct checks on returned values (documentation of Register / GetReg / UpdateReg)
	switch {
	case res == "ok" && (st.Op == "register" || st.Op == "registerEAB" || st.Op == "getreg"):
		if acct == nil || acct.URI != AcctURL(loc) || acct.Status != "valid" {
			ca.problem("x09-result:account", "%s succeeded but returned account %+v, the CA answered with Location %s", st.Op, acct, AcctURL(loc))
		}
	case res == "ok" && st.Op == "update":
		if acct == nil {
			ca.problem("x09-result:account", "UpdateReg succeeded with a nil account")
		} else if acct.URI == "" {
			s.mu.Lock()
			s.obs["updatereg_result_uri_empty"]++
			s.mu.Unlock()
		}
	case res != "ok" && acct != nil:
		ca.problem("x09-result:account", "%s failed (%v) but returned a non-nil account", st.Op, err)
	}
	ca.mu.Unlock()
	e := Event{"ev": "ret", "c": st.C, "res": res, "d": d, "key": "?", "kid": "?"}
	if st.Quiet {
		e["key"], e["kid"] = s.keyName(), acctName(string(cl.KID))
	}
	ca.LogEvent(e)
}

func norm(v any) any {
	b, _ := json.Marshal(v)
	var x any
	json.Unmarshal(b, &x)
	return x
}

// ------------------------------------------------------------------ binding R

func TestReplay(t *testing.T) {
	out := vutil.NewOut()
	var tw *os.File
	if p := os.Getenv("VERIF_TRACES"); p != "" {
		tw, _ = os.Create(p)
		defer tw.Close()
	}
	every, _ := strconv.Atoi(vutil.Env("X09_TRACE_EVERY", "10"))
	obs := map[string]int{}
	defer func() {
		for k, v := range obs {
			out.Extra[k] = v
		}
		if err := out.Write(); err != nil {
			t.Fatal(err)
		}
	}()
	n := 0
	err := vutil.ReadNDJSON(vutil.Env("VERIF_CASES", ""), func(line []byte) error {
		var hist []map[string]any
		if err := json.Unmarshal(line, &hist); err != nil {
			return err
		}
		n++
		if len(hist) == 0 || hist[0]["ev"] != "init" {
			return fmt.Errorf("history does not start with init")
		}
		var ic initCfg
		b, _ := json.Marshal(hist[0])
		json.Unmarshal(b, &ic)
		var want []map[string]any
		var steps []step
		for _, e := range hist[1:] {
			switch e["ev"] {
			case "tau":
				continue
			case "call":
				steps = append(steps, step{C: int(e["c"].(float64)), Op: e["op"].(string), NK: e["nk"].(string), Quiet: true,
					Script: []Reply{}, Reason: []int{0, 1, 4, 5}[(n+len(steps))%4], Generic: []string{"authz", "order"}[(n+len(steps))%2]})
			case "dir":
				s := &steps[len(steps)-1]
				s.DirOK = append(s.DirOK, e["ok"].(bool))
			case "reply":
				s := &steps[len(steps)-1]
				s.Script = append(s.Script, Reply{Cls: e["cls"].(string), Lost: e["lost"].(bool)})
			}
			want = append(want, e)
		}
		key := string(line)
		out.Case(key)
		ss := newSession(ic)
		for _, st := range steps {
			ss.call(st)
		}
		for k, v := range ss.obs {
			obs[k] += v
		}
		got := ss.ca.Log[1:]
		detail := map[string]any{"case": hist, "recorded": ss.ca.Log}
		for _, p := range ss.ca.Problems {
			out.Violation(p.Sig, p.What, detail)
			t.Errorf("%s: %s", p.Sig, p.What)
		}
		if ss.ca.Unscripted > 0 {
			out.Violation("x09-replay:extra-request", fmt.Sprintf("the real client sent %d request(s) the model does not send", ss.ca.Unscripted), detail)
			t.Errorf("unscripted requests")
		}
		if sig, what := compare(want, got); sig != "" {
			out.Violation(sig, what, detail)
			t.Errorf("%s: %s", sig, what)
		}
		if len(out.Samples) < 3 && len(steps) >= 2 {
			out.Sample(map[string]any{"recorded": norm(ss.ca.Log)})
		}
		if tw != nil && every > 0 && n%every == 0 {
			b, _ := json.Marshal(ss.ca.Log)
			tw.Write(append(b, '\n'))
		}
		return nil
	})
	if err != nil {
		t.Fatal(err)
	}
}

// compare the recorded event sequence with the model's; returns a violation signature or "".
func compare(want []map[string]any, gotE []Event) (string, string) {
	var opName string
	for i, w := range want {
		if w["ev"] == "call" {
			opName = w["op"].(string)
		}
		if i >= len(gotE) {
			return "x09-replay:" + opName + ":missing-" + w["ev"].(string), fmt.Sprintf("the model's %s event #%d (%v) did not happen on the real client", w["ev"], i, w)
		}
		g := norm(gotE[i]).(map[string]any)
		if g["ev"] != w["ev"] {
			return "x09-replay:" + opName + ":" + fmt.Sprint(g["ev"]) + "-for-" + fmt.Sprint(w["ev"]), fmt.Sprintf("event #%d: model %v, real client %v", i, w, g)
		}
		for f, wv := range w {
			if w["ev"] == "ret" && f == "d" && w["res"] != "acmeerr" {
				continue
			}
			if !reflect.DeepEqual(wv, g[f]) {
				return fmt.Sprintf("x09-replay:%s:%s.%s", opName, w["ev"], f), fmt.Sprintf("event #%d field %s: model %v, real client %v (model event %v, real %v)", i, f, wv, g[f], w, g)
			}
		}
	}
	if len(gotE) > len(want) {
		return "x09-replay:" + opName + ":extra-event", fmt.Sprintf("the real client produced %d events, the model %d; first extra: %v", len(gotE), len(want), gotE[len(want)])
	}
	return "", ""
}

// ------------------------------------------------------------------ binding T

var seqOps = []string{"discover", "register", "registerEAB", "getreg", "update", "deactivate", "rollover", "rollover", "revokeAcct", "revokeCert", "revokeExpl", "generic"}
var concOps = []string{"register", "registerEAB", "getreg", "update", "deactivate", "revokeAcct", "revokeCert", "revokeExpl", "generic", "generic", "discover"}

func TestRandom(t *testing.T) {
	out := vutil.NewOut()
	var tw *os.File
	if p := os.Getenv("VERIF_TRACES"); p != "" {
		tw, _ = os.Create(p)
		defer tw.Close()
	}
	obs := map[string]int{}
	defer func() {
		for k, v := range obs {
			out.Extra[k] = v
		}
		if err := out.Write(); err != nil {
			t.Fatal(err)
		}
	}()
	nsess, _ := strconv.Atoi(vutil.Env("X09_SESSIONS", "40"))
	for i := 0; i < nsess; i++ {
		rnd := vutil.Rand(int64(9000 + i))
		var rmu sync.Mutex
		rint := func(n int) int { rmu.Lock(); defer rmu.Unlock(); return rnd.Intn(n) }
		none := map[string]string{"a1": "none", "a2": "none"}
		ic := initCfg{SK: map[string]string{"a1": "none", "a2": "none"}, SS: none}
		switch rint(5) {
		case 1, 2:
			ic.SK = map[string]string{"a1": "k1", "a2": "none"}
			ic.SS = map[string]string{"a1": "valid", "a2": "none"}
		case 3:
			ic.SK = map[string]string{"a1": "k1", "a2": "k2"}
			ic.SS = map[string]string{"a1": "valid", "a2": "valid"}
		case 4:
			ic.SK = map[string]string{"a1": "k1", "a2": "none"}
			ic.SS = map[string]string{"a1": "deactivated", "a2": "none"}
		}
		if ic.SK["a1"] == "k1" && rint(3) == 0 {
			ic.Kid = "a1"
		}
		ic.Dir = rint(2) == 0
		// every third session starts as a "lookup race": the key is registered, nothing is cached, and both
		// goroutines open with an operation that needs the account URL
		race := i%3 == 2
		if race {
			ic = initCfg{SK: map[string]string{"a1": "k1", "a2": "none"}, SS: map[string]string{"a1": "valid", "a2": "none"}, Dir: rint(2) == 0}
		}
		ss := newSession(ic)
		pInject := []int{0, 15, 35}[rint(3)]
		ss.ca.Choose = func(g string, eff bool) Reply {
			if rint(100) >= pInject {
				return Reply{Cls: g}
			}
			switch rint(5) {
			case 0:
				return Reply{Cls: "e500"}
			case 1:
				return Reply{Cls: "neterr"}
			case 2:
				return Reply{Cls: "malformed"}
			case 3:
				return Reply{Cls: "unauth"}
			}
			return Reply{Cls: g, Lost: eff}
		}
		ss.ca.DirFail = func() bool { return rint(100) < 15 }
		ss.ca.Yield = func() {
			for k := rint(4); k > 0; k-- {
				runtime.Gosched()
			}
			if rint(8) == 0 {
				time.Sleep(time.Duration(20+rint(200)) * time.Microsecond)
			}
		}
		mk := func(c int, ops []string, quiet bool) step {
			st := step{C: c, Op: ops[rint(len(ops))], NK: "none", Quiet: quiet, Reason: []int{0, 1, 3, 4, 5, 9}[rint(6)], Generic: []string{"authz", "order"}[rint(2)]}
			if st.Op == "rollover" {
				st.NK = []string{"k1", "k2"}[rint(2)]
			}
			return st
		}
		nph := 3 + rint(4)
		ncalls := 0
		for ph := 0; ph < nph; ph++ {
			if rint(100) < 35 && !(race && ph == 0) {
				ss.call(mk(1+rint(2), seqOps, true))
				ncalls++
				continue
			}
			var wg sync.WaitGroup
			start := make(chan struct{})
			for c := 1; c <= 2; c++ {
				var sts []step
				if race && ph == 0 {
					sts = append(sts, mk(c, []string{"update", "generic", "revokeAcct", "generic"}, false))
				}
				for k := 1 + rint(2); k > 0; k-- {
					sts = append(sts, mk(c, concOps, false))
				}
				ncalls += len(sts)
				wg.Add(1)
				go func() {
					defer wg.Done()
					<-start
					for _, st := range sts {
						ss.call(st)
					}
				}()
			}
			close(start)
			wg.Wait()
		}
		ss.call(step{C: 1, Op: "discover", NK: "none", Quiet: true, DirOK: []bool{true}}) // reads Key / KID at a quiescent point
		for k, v := range ss.obs {
			obs[k] += v
		}
		out.Case(fmt.Sprintf("rand-%d-%d", vutil.Seed(), i))
		detail := map[string]any{"session": i, "recorded": norm(ss.ca.Log)}
		for _, p := range ss.ca.Problems {
			out.Violation(p.Sig, p.What, detail)
			t.Errorf("%s: %s", p.Sig, p.What)
		}
		if i < 2 {
			out.Sample(map[string]any{"recorded": norm(ss.ca.Log)})
		}
		if tw != nil {
			b, _ := json.Marshal(ss.ca.Log)
			tw.Write(append(b, '\n'))
		}
		obs["random_calls"] += ncalls + 1
		obs["random_events"] += len(ss.ca.Log)
	}
}
