// Package x09 is the conformance harness of the growth check X09 (ACME account life cycle, key
// identification, key rollover, revocation; spec/AcmeAccount.tla).
//
// fake.go: a stateful in-process RFC 8555 CA (an http.RoundTripper) that
//   - keeps the account table of the specification (account -> key, status) and one revocable certificate,
//   - verifies every signed request independently of package acme (flattened JWS, protected header members,
//     signature tried against every known key, embedded JWK rebuilt by the RFC 7517/7518 rules, the inner JWS
//     of keyChange and the externalAccountBinding JWS verified in full),
//   - answers with the class its table dictates or with an injected failure chosen by a script, and
//   - records every request, reply, directory fetch, call and return in the event vocabulary of
//     AcmeAccount_Trace.tla.
package x09

import (
	"bytes"
	"context"
	"crypto"
	"crypto/ecdsa"
	"crypto/elliptic"
	"crypto/hmac"
	"crypto/rand"
	"crypto/rsa"
	"crypto/sha256"
	"crypto/sha512"
	"encoding/base64"
	"encoding/json"
	"fmt"
	"io"
	"math/big"
	"net/http"
	"reflect"
	"runtime"
	"sort"
	"strings"
	"sync"
)

const Base = "https://ca.x09.test"

type Event map[string]any

// CallCtx travels in the context of one public call so that the CA knows the caller and what to expect.
type CallCtx struct {
	ID      int
	Op      string
	Reason  int      // RevokeCert reason
	Contact []string // Register / UpdateReg contact
	Generic string   // "authz" | "order"
	Script  []Reply  // replies for the requests of this call, in order (replay); nil = CA's Choose
	si      int
	DirOK   []bool
	di      int
}

type Reply struct {
	Cls  string
	Lost bool
}

type ctxKey struct{}

func WithCall(ctx context.Context, c *CallCtx) context.Context {
	return context.WithValue(ctx, ctxKey{}, c)
}

// NetErr is the transport error of reply classes "neterr" and "lost".
type NetErr struct{}

func (*NetErr) Error() string { return "verif: connection reset by peer" }

type Problem struct{ Sig, What string }

type CA struct {
	mu      sync.Mutex
	Log     []Event
	Rec     bool
	Keys    map[string]crypto.Signer // k1, k2, ck
	SKey    map[string]string        // account -> key name | "none"
	SStat   map[string]string        // account -> none | valid | deactivated
	Revoked bool
	nonce   int

	// Choose picks the reply for a request when the call carries no script.
	Choose  func(genuine string, effectful bool) Reply
	DirFail func() bool
	Yield   func()

	EABKid     string
	EABKey     []byte
	CertDER    []byte
	Problems   []Problem
	Unscripted int
	LastLoc    map[int]string // caller -> Location of the last reply
}

func NewCA(keys map[string]crypto.Signer) *CA {
	return &CA{Keys: keys, SKey: map[string]string{"a1": "none", "a2": "none"}, SStat: map[string]string{"a1": "none", "a2": "none"},
		EABKid: "eab-kid-1", EABKey: []byte("0123456789abcdef0123456789abcdef"), CertDER: []byte("\x30\x82\x01\x0a-not-a-real-certificate-\x00\xff\xfe"),
		LastLoc: map[int]string{}}
}

func (s *CA) problem(sig, f string, a ...any) {
	if len(s.Problems) < 20 {
		s.Problems = append(s.Problems, Problem{sig, fmt.Sprintf(f, a...)})
	}
}

func (s *CA) log(e Event) {
	if s.Rec {
		s.Log = append(s.Log, e)
	}
}

// LogEvent is used by the driver for call / ret events.
func (s *CA) LogEvent(e Event) {
	s.mu.Lock()
	s.log(e)
	s.mu.Unlock()
}

func AcctURL(a string) string { return Base + "/acct/" + a }

func acctName(u string) string {
	if strings.HasPrefix(u, Base+"/acct/") {
		return strings.TrimPrefix(u, Base+"/acct/")
	}
	return u
}

func urlName(u string) string {
	switch {
	case u == Base+"/new-acct":
		return "newAccount"
	case u == Base+"/key-change":
		return "keyChange"
	case u == Base+"/revoke":
		return "revoke"
	case u == Base+"/authz/1", u == Base+"/order/1":
		return "generic"
	case strings.HasPrefix(u, Base+"/acct/"):
		return acctName(u)
	}
	return u
}

// ------------------------------------------------------------------ independent JWS reading

func b64(s string) ([]byte, error) {
	if strings.ContainsAny(s, "=+/ \n") {
		return nil, fmt.Errorf("not unpadded base64url: %q", s)
	}
	return base64.RawURLEncoding.DecodeString(s)
}

func memberNames(m map[string]json.RawMessage) string {
	var k []string
	for x := range m {
		k = append(k, x)
	}
	sort.Strings(k)
	return strings.Join(k, ",")
}

type jws struct {
	hdr      map[string]json.RawMessage
	alg      string
	payload  []byte
	rawPay   string
	sig      []byte
	sigInput []byte
}

func parseJWS(body []byte) (*jws, error) {
	var outer map[string]json.RawMessage
	if err := json.Unmarshal(body, &outer); err != nil {
		return nil, fmt.Errorf("not JSON: %v", err)
	}
	if got := memberNames(outer); got != "payload,protected,signature" {
		return nil, fmt.Errorf("flattened JWS members are %q", got)
	}
	var prot, payload, sig string
	if json.Unmarshal(outer["protected"], &prot) != nil || json.Unmarshal(outer["payload"], &payload) != nil || json.Unmarshal(outer["signature"], &sig) != nil {
		return nil, fmt.Errorf("JWS members are not strings")
	}
	j := &jws{rawPay: payload, sigInput: []byte(prot + "." + payload)}
	ph, err := b64(prot)
	if err != nil {
		return nil, fmt.Errorf("protected: %v", err)
	}
	if j.payload, err = b64(payload); err != nil {
		return nil, fmt.Errorf("payload: %v", err)
	}
	if j.sig, err = b64(sig); err != nil {
		return nil, fmt.Errorf("signature: %v", err)
	}
	if err := json.Unmarshal(ph, &j.hdr); err != nil {
		return nil, fmt.Errorf("protected header is not JSON: %v", err)
	}
	json.Unmarshal(j.hdr["alg"], &j.alg)
	return j, nil
}

func (j *jws) str(name string) (string, bool) {
	raw, ok := j.hdr[name]
	if !ok {
		return "", false
	}
	var s string
	if json.Unmarshal(raw, &s) != nil {
		return "", true
	}
	return s, true
}

func pubFromJWK(raw json.RawMessage) (crypto.PublicKey, error) {
	var j map[string]string
	if err := json.Unmarshal(raw, &j); err != nil {
		return nil, fmt.Errorf("jwk is not an object of strings: %v", err)
	}
	switch j["kty"] {
	case "EC":
		var c elliptic.Curve
		switch j["crv"] {
		case "P-256":
			c = elliptic.P256()
		case "P-384":
			c = elliptic.P384()
		case "P-521":
			c = elliptic.P521()
		default:
			return nil, fmt.Errorf("unknown crv %q", j["crv"])
		}
		x, ex := b64(j["x"])
		y, ey := b64(j["y"])
		w := (c.Params().BitSize + 7) / 8
		if ex != nil || ey != nil || len(x) != w || len(y) != w || len(j) != 4 {
			return nil, fmt.Errorf("malformed EC jwk")
		}
		return &ecdsa.PublicKey{Curve: c, X: new(big.Int).SetBytes(x), Y: new(big.Int).SetBytes(y)}, nil
	case "RSA":
		n, en := b64(j["n"])
		e, ee := b64(j["e"])
		if en != nil || ee != nil || len(n) == 0 || len(e) == 0 || len(j) != 3 {
			return nil, fmt.Errorf("malformed RSA jwk")
		}
		return &rsa.PublicKey{N: new(big.Int).SetBytes(n), E: int(new(big.Int).SetBytes(e).Int64())}, nil
	}
	return nil, fmt.Errorf("unknown kty %q", j["kty"])
}

func verifySig(alg string, pub crypto.PublicKey, input, sig []byte) bool {
	switch alg {
	case "RS256":
		k, ok := pub.(*rsa.PublicKey)
		if !ok {
			return false
		}
		h := sha256.Sum256(input)
		return rsa.VerifyPKCS1v15(k, crypto.SHA256, h[:], sig) == nil
	case "ES256", "ES384", "ES512":
		k, ok := pub.(*ecdsa.PublicKey)
		if !ok {
			return false
		}
		if k.Curve.Params().Name != map[string]string{"ES256": "P-256", "ES384": "P-384", "ES512": "P-521"}[alg] {
			return false
		}
		w := (k.Curve.Params().BitSize + 7) / 8
		if len(sig) != 2*w {
			return false
		}
		var d []byte
		switch alg {
		case "ES256":
			x := sha256.Sum256(input)
			d = x[:]
		case "ES384":
			x := sha512.Sum384(input)
			d = x[:]
		default:
			x := sha512.Sum512(input)
			d = x[:]
		}
		return ecdsa.Verify(k, d, new(big.Int).SetBytes(sig[:w]), new(big.Int).SetBytes(sig[w:]))
	}
	return false
}

func pubEqual(a, b crypto.PublicKey) bool {
	type eq interface{ Equal(crypto.PublicKey) bool }
	x, ok := a.(eq)
	return ok && b != nil && x.Equal(b)
}

// signerOf: the name of the known key whose public half verifies the signature ("unknown" if none).
func (s *CA) signerOf(j *jws) string {
	names := make([]string, 0, len(s.Keys))
	for n := range s.Keys {
		names = append(names, n)
	}
	sort.Strings(names)
	found := "unknown"
	for _, n := range names {
		if verifySig(j.alg, s.Keys[n].Public(), j.sigInput, j.sig) {
			if found != "unknown" {
				return "ambiguous"
			}
			found = n
		}
	}
	return found
}

func (s *CA) keyName(pub crypto.PublicKey) string {
	for n, k := range s.Keys {
		if pubEqual(k.Public(), pub) {
			return n
		}
	}
	return "unknown"
}

// reqInfo is the abstract view of a signed request (the "req" event of the trace).
type reqInfo struct {
	URL, Signer, Form, Kid, Pay, NK, IAcct, IOld, IForm, IURL, EAB string
	INonce                                                         bool
}

func (r *reqInfo) event(c int) Event {
	return Event{"ev": "req", "c": c, "url": r.URL, "signer": r.Signer, "form": r.Form, "kid": r.Kid, "pay": r.Pay, "nk": r.NK,
		"iacct": r.IAcct, "iold": r.IOld, "iform": r.IForm, "inonce": r.INonce, "iurl": r.IURL, "eab": r.EAB}
}

func jsonEqual(a []byte, b any) bool {
	var x, y any
	if json.Unmarshal(a, &x) != nil {
		return false
	}
	bb, _ := json.Marshal(b)
	json.Unmarshal(bb, &y)
	return reflect.DeepEqual(x, y)
}

// read verifies one signed request and classifies it.  Everything that contradicts RFC 8555 6.2 / 7.3 / 7.3.4 /
// 7.3.5 / 7.6 outright is recorded as a problem (direct check); the abstract fields go to the trace.
func (s *CA) read(cc *CallCtx, fullURL string, body []byte) *reqInfo {
	r := &reqInfo{URL: urlName(fullURL), NK: "none", IOld: "none", IForm: "none", IURL: "none", EAB: "none", Signer: "unknown", Form: "none", Pay: "other"}
	j, err := parseJWS(body)
	if err != nil {
		s.problem("x09-wire:jws", "request to %s is not a flattened JWS: %v", r.URL, err)
		return r
	}
	if got := memberNames(j.hdr); got != "alg,jwk,nonce,url" && got != "alg,kid,nonce,url" {
		s.problem("x09-wire:header-members", "protected header of the request to %s has members %q (RFC 8555 6.2: alg, nonce, url and exactly one of jwk / kid)", r.URL, got)
	}
	_, hasJWK := j.hdr["jwk"]
	kidv, hasKid := j.str("kid")
	switch {
	case hasJWK && hasKid:
		r.Form = "both"
	case hasJWK:
		r.Form = "jwk"
	case hasKid:
		r.Form, r.Kid = "kid", acctName(kidv)
	}
	if n, ok := j.str("nonce"); !ok || n == "" {
		s.problem("x09-wire:nonce", "request to %s carries no nonce", r.URL)
	}
	if u, _ := j.str("url"); u != fullURL {
		s.problem("x09-wire:url", "protected header url %q differs from the request URL %q", u, fullURL)
	}
	r.Signer = s.signerOf(j)
	if r.Signer == "unknown" || r.Signer == "ambiguous" {
		s.problem("x09-wire:signature", "signature of the request to %s verifies under no known key (alg %s)", r.URL, j.alg)
	}
	if hasJWK {
		pub, err := pubFromJWK(j.hdr["jwk"])
		if err != nil {
			s.problem("x09-wire:jwk", "embedded jwk of the request to %s: %v", r.URL, err)
		} else if r.Signer != "unknown" && s.keyName(pub) != r.Signer {
			s.problem("x09-wire:jwk-mismatch", "request to %s embeds the jwk of %s but is signed by %s", r.URL, s.keyName(pub), r.Signer)
		}
	}
	// payload
	switch {
	case r.URL == "newAccount":
		var m map[string]json.RawMessage
		if json.Unmarshal(j.payload, &m) != nil {
			s.problem("x09-wire:newaccount-payload", "newAccount payload is not a JSON object: %q", j.payload)
			break
		}
		if string(m["onlyReturnExisting"]) == "true" {
			r.Pay = "lookup"
			if len(m) != 1 {
				s.problem("x09-wire:lookup-payload", "account lookup payload has members %s", memberNames(m))
			}
			break
		}
		if _, ok := m["onlyReturnExisting"]; ok {
			s.problem("x09-wire:newaccount-payload", "newAccount payload carries onlyReturnExisting=%s", m["onlyReturnExisting"])
		}
		r.Pay = "newacct"
		if string(m["termsOfServiceAgreed"]) != "true" {
			s.problem("x09-wire:tos", "newAccount payload lacks termsOfServiceAgreed although the prompt agreed: %s", j.payload)
		}
		if cc != nil && !jsonEqual(m["contact"], cc.Contact) {
			s.problem("x09-wire:contact", "newAccount contact is %s, want %v", m["contact"], cc.Contact)
		}
		if raw, ok := m["externalAccountBinding"]; ok {
			r.Pay = "newacct-eab"
			r.EAB = s.readEAB(raw, fullURL)
		}
	case r.URL == "keyChange":
		r.Pay = "keychange"
		s.readInner(r, j.payload)
	case r.URL == "revoke":
		var m map[string]json.RawMessage
		if json.Unmarshal(j.payload, &m) != nil || (memberNames(m) != "certificate,reason" && memberNames(m) != "certificate") {
			s.problem("x09-wire:revoke-payload", "revokeCert payload is %q", j.payload)
			break
		}
		r.Pay = "revoke"
		var cert string
		json.Unmarshal(m["certificate"], &cert)
		if der, err := b64(cert); err != nil || !bytes.Equal(der, s.CertDER) {
			s.problem("x09-wire:revoke-certificate", "revokeCert certificate member is not base64url(DER): %q", cert)
		}
		reason := 0
		if raw, ok := m["reason"]; ok {
			if json.Unmarshal(raw, &reason) != nil {
				s.problem("x09-wire:revoke-reason", "reason is %s", raw)
			}
		}
		if cc != nil && reason != cc.Reason {
			s.problem("x09-wire:revoke-reason", "revokeCert reason is %d, the caller passed %d", reason, cc.Reason)
		}
	case r.URL == "generic":
		r.Pay = "generic"
		if strings.HasSuffix(fullURL, "/order/1") {
			if j.rawPay != "" {
				s.problem("x09-wire:post-as-get", "POST-as-GET payload is %q, want the empty string", j.rawPay)
			}
		} else {
			var m map[string]any
			if json.Unmarshal(j.payload, &m) != nil || m["status"] != "deactivated" {
				s.problem("x09-wire:authz-deactivate", "authorization deactivation payload is %q", j.payload)
			}
		}
	default: // an account URL
		switch {
		case jsonEqual(j.payload, map[string]any{"status": "deactivated"}):
			r.Pay = "deactivate"
		default:
			var m map[string]json.RawMessage
			if json.Unmarshal(j.payload, &m) == nil && (memberNames(m) == "contact" || memberNames(m) == "") {
				r.Pay = "update"
				if cc != nil && len(cc.Contact) > 0 && !jsonEqual(m["contact"], cc.Contact) {
					s.problem("x09-wire:contact", "account update contact is %s, want %v", m["contact"], cc.Contact)
				}
			}
		}
	}
	return r
}

// readInner verifies the inner JWS of a keyChange request (RFC 8555 7.3.5).
func (s *CA) readInner(r *reqInfo, payload []byte) {
	in, err := parseJWS(payload)
	if err != nil {
		s.problem("x09-wire:inner-jws", "keyChange payload is not a flattened JWS: %v", err)
		return
	}
	_, hasJWK := in.hdr["jwk"]
	_, hasKid := in.hdr["kid"]
	switch {
	case hasJWK && hasKid:
		r.IForm = "both"
	case hasJWK:
		r.IForm = "jwk"
	case hasKid:
		r.IForm = "kid"
	}
	_, r.INonce = in.hdr["nonce"]
	if u, ok := in.str("url"); ok {
		r.IURL = urlName(u)
	}
	r.NK = s.signerOf(in)
	if r.NK == "unknown" || r.NK == "ambiguous" {
		s.problem("x09-wire:inner-signature", "inner JWS of keyChange verifies under no known key")
	}
	if hasJWK {
		pub, err := pubFromJWK(in.hdr["jwk"])
		if err != nil {
			s.problem("x09-wire:inner-jwk", "inner jwk: %v", err)
		} else if s.keyName(pub) != r.NK {
			s.problem("x09-wire:inner-jwk-mismatch", "inner JWS embeds the jwk of %s but is signed by %s", s.keyName(pub), r.NK)
		}
	}
	if got := memberNames(in.hdr); got != "alg,jwk,url" {
		s.problem("x09-wire:inner-header", "inner protected header has members %q (RFC 8555 7.3.5: alg, jwk, url; no nonce)", got)
	}
	var m map[string]json.RawMessage
	if json.Unmarshal(in.payload, &m) != nil || memberNames(m) != "account,oldKey" {
		s.problem("x09-wire:inner-payload", "inner payload is %q, want {account, oldKey}", in.payload)
		return
	}
	var acct string
	json.Unmarshal(m["account"], &acct)
	r.IAcct = acctName(acct)
	if pub, err := pubFromJWK(m["oldKey"]); err == nil {
		r.IOld = s.keyName(pub)
	} else {
		r.IOld = "unknown"
	}
}

// readEAB verifies the externalAccountBinding JWS (RFC 8555 7.3.4) and names the account key it binds.
func (s *CA) readEAB(raw json.RawMessage, newAcctURL string) string {
	e, err := parseJWS(raw)
	if err != nil {
		s.problem("x09-wire:eab-jws", "externalAccountBinding is not a flattened JWS: %v", err)
		return "unknown"
	}
	if got := memberNames(e.hdr); got != "alg,kid,url" {
		s.problem("x09-wire:eab-header", "EAB protected header has members %q (RFC 8555 7.3.4: alg, kid, url; no nonce)", got)
	}
	if e.alg != "HS256" {
		s.problem("x09-wire:eab-alg", "EAB alg is %q", e.alg)
	}
	if k, _ := e.str("kid"); k != s.EABKid {
		s.problem("x09-wire:eab-kid", "EAB kid is %q, want %q", k, s.EABKid)
	}
	if u, _ := e.str("url"); u != newAcctURL {
		s.problem("x09-wire:eab-url", "EAB url is %q, want %q", u, newAcctURL)
	}
	h := hmac.New(sha256.New, s.EABKey)
	h.Write(e.sigInput)
	if !hmac.Equal(h.Sum(nil), e.sig) {
		s.problem("x09-wire:eab-mac", "EAB MAC does not verify under the EAB key")
	}
	pub, err := pubFromJWK(e.payload)
	if err != nil {
		s.problem("x09-wire:eab-payload", "EAB payload is not a JWK: %v", err)
		return "unknown"
	}
	return s.keyName(pub)
}

// ------------------------------------------------------------------ the CA proper (mirrors AcmeAccount!Genuine)

func (s *CA) acctOfKey(k string) string {
	for _, a := range []string{"a1", "a2"} {
		if s.SKey[a] == k && s.SStat[a] != "none" {
			return a
		}
	}
	return ""
}

func (s *CA) fresh() string {
	for _, a := range []string{"a1", "a2"} {
		if s.SStat[a] == "none" {
			return a
		}
	}
	return ""
}

func (s *CA) revokeClass() string {
	if s.Revoked {
		return "alreadyRevoked"
	}
	return "ok200"
}

func (s *CA) genuine(r *reqInfo) string {
	if r.URL == "newAccount" {
		if r.Form != "jwk" {
			return "malformed"
		}
		if a := s.acctOfKey(r.Signer); a != "" {
			if s.SStat[a] == "deactivated" {
				return "unauth"
			}
			return "exists200"
		}
		if r.Pay == "lookup" {
			return "noacct"
		}
		if s.fresh() == "" {
			return "e500"
		}
		return "created201"
	}
	if r.Form != "kid" {
		if r.Pay == "revoke" {
			if r.Signer == "ck" {
				return s.revokeClass()
			}
			return "unauth"
		}
		return "malformed"
	}
	a := r.Kid
	if s.SStat[a] != "valid" || s.SKey[a] != r.Signer {
		return "unauth"
	}
	switch r.Pay {
	case "update", "deactivate":
		if r.URL == a {
			return "ok200"
		}
		return "unauth"
	case "keychange":
		if r.URL != "keyChange" || r.IAcct != a || r.IOld != s.SKey[a] || r.IForm != "jwk" || r.INonce || r.IURL != r.URL {
			return "malformed"
		}
		if s.acctOfKey(r.NK) != "" {
			return "conflict409"
		}
		return "ok200"
	case "revoke":
		if r.URL == "revoke" {
			return s.revokeClass()
		}
		return "malformed"
	}
	return "ok200"
}

func effectful(r *reqInfo, cls string) bool {
	return cls == "created201" || cls == "ok200" && (r.Pay == "deactivate" || r.Pay == "keychange" || r.Pay == "revoke")
}

func (s *CA) loc(r *reqInfo, cls string) string {
	switch cls {
	case "created201":
		return s.fresh()
	case "exists200":
		return s.acctOfKey(r.Signer)
	case "conflict409":
		return s.acctOfKey(r.NK)
	}
	return ""
}

func (s *CA) effect(r *reqInfo, cls string) {
	switch {
	case cls == "created201":
		a := s.fresh()
		s.SKey[a], s.SStat[a] = r.Signer, "valid"
	case cls == "ok200" && r.Pay == "keychange":
		s.SKey[r.Kid] = r.NK
	case cls == "ok200" && r.Pay == "deactivate":
		s.SStat[r.Kid] = "deactivated"
	case cls == "ok200" && r.Pay == "revoke":
		s.Revoked = true
	}
}

var problemTypes = map[string][2]any{
	"noacct":         {400, "urn:ietf:params:acme:error:accountDoesNotExist"},
	"unauth":         {403, "urn:ietf:params:acme:error:unauthorized"},
	"malformed":      {400, "urn:ietf:params:acme:error:malformed"},
	"e500":           {500, "urn:ietf:params:acme:error:serverInternal"},
	"conflict409":    {409, "urn:ietf:params:acme:error:malformed"},
	"alreadyRevoked": {400, "urn:ietf:params:acme:error:alreadyRevoked"},
}

func (s *CA) nextNonce() string {
	s.nonce++
	return fmt.Sprintf("nonce-%d", s.nonce)
}

func response(req *http.Request, code int, ctype string, body string, h map[string]string) *http.Response {
	res := &http.Response{StatusCode: code, Status: fmt.Sprintf("%d %s", code, http.StatusText(code)), Proto: "HTTP/1.1", ProtoMajor: 1, ProtoMinor: 1,
		Header: http.Header{}, Body: io.NopCloser(strings.NewReader(body)), ContentLength: int64(len(body)), Request: req}
	res.Header.Set("Content-Type", ctype)
	for k, v := range h {
		res.Header.Set(k, v)
	}
	return res
}

func (s *CA) yield() {
	if s.Yield != nil {
		s.Yield()
	} else {
		runtime.Gosched()
	}
}

func (s *CA) RoundTrip(req *http.Request) (*http.Response, error) {
	if err := req.Context().Err(); err != nil {
		return nil, err
	}
	cc, _ := req.Context().Value(ctxKey{}).(*CallCtx)
	id := 0
	if cc != nil {
		id = cc.ID
	}
	u := req.URL.String()
	switch {
	case req.Method == "GET" && u == Base+"/dir":
		s.mu.Lock()
		defer s.mu.Unlock()
		ok := true
		if cc != nil && cc.di < len(cc.DirOK) {
			ok = cc.DirOK[cc.di]
			cc.di++
		} else if s.DirFail != nil {
			ok = !s.DirFail()
		}
		s.log(Event{"ev": "dir", "c": id, "ok": ok})
		if !ok {
			return response(req, 500, "application/problem+json", `{"type":"urn:ietf:params:acme:error:serverInternal","detail":"injected"}`, nil), nil
		}
		body := fmt.Sprintf(`{"newNonce":%q,"newAccount":%q,"newOrder":%q,"revokeCert":%q,"keyChange":%q,"meta":{"termsOfService":%q}}`,
			Base+"/new-nonce", Base+"/new-acct", Base+"/new-order", Base+"/revoke", Base+"/key-change", Base+"/terms")
		return response(req, 200, "application/json", body, map[string]string{"Replay-Nonce": s.nextNonce()}), nil
	case req.Method == "HEAD":
		s.mu.Lock()
		defer s.mu.Unlock()
		return response(req, 200, "application/json", "", map[string]string{"Replay-Nonce": s.nextNonce()}), nil
	case req.Method != "POST":
		return response(req, 405, "text/plain", "method not allowed", nil), nil
	}
	body, _ := io.ReadAll(req.Body)
	if ct := req.Header.Get("Content-Type"); ct != "application/jose+json" {
		s.mu.Lock()
		s.problem("x09-wire:content-type", "POST to %s with Content-Type %q", u, ct)
		s.mu.Unlock()
	}
	s.mu.Lock()
	r := s.read(cc, u, body)
	s.log(r.event(id))
	s.mu.Unlock()
	s.yield()
	s.mu.Lock()
	defer s.mu.Unlock()
	g := s.genuine(r)
	var rep Reply
	switch {
	case cc != nil && cc.Script != nil && cc.si < len(cc.Script):
		rep = cc.Script[cc.si]
		cc.si++
	case cc != nil && cc.Script != nil:
		s.Unscripted++
		rep = Reply{Cls: g}
	case s.Choose != nil:
		rep = s.Choose(g, effectful(r, g))
	default:
		rep = Reply{Cls: g}
	}
	cls := rep.Cls
	if rep.Lost && !(cls == g && effectful(r, g)) {
		rep.Lost = false
	}
	loc := s.loc(r, cls)
	if cls == g && effectful(r, g) {
		s.effect(r, cls)
	}
	s.log(Event{"ev": "reply", "c": id, "cls": cls, "lost": rep.Lost, "loc": loc})
	s.LastLoc[id] = loc
	if rep.Lost || cls == "neterr" {
		return nil, &NetErr{}
	}
	h := map[string]string{"Replay-Nonce": s.nextNonce()}
	if loc != "" {
		h["Location"] = AcctURL(loc)
	}
	switch cls {
	case "created201":
		return response(req, 201, "application/json", `{"status":"valid","orders":"`+Base+`/orders/1"}`, h), nil
	case "exists200":
		return response(req, 200, "application/json", `{"status":"valid","orders":"`+Base+`/orders/1"}`, h), nil
	case "ok200":
		st := "valid"
		if r.Pay == "deactivate" {
			st = "deactivated"
		}
		return response(req, 200, "application/json", `{"status":"`+st+`"}`, h), nil
	}
	pt, ok := problemTypes[cls]
	if !ok {
		pt = [2]any{500, "urn:ietf:params:acme:error:serverInternal"}
	}
	return response(req, pt[0].(int), "application/problem+json", fmt.Sprintf(`{"type":%q,"detail":"x09 %s","status":%d}`, pt[1], cls, pt[0]), h), nil
}

// NewKeys generates the three key pairs of the model.
func NewKeys() map[string]crypto.Signer {
	m := map[string]crypto.Signer{}
	for _, n := range []string{"k1", "k2", "ck"} {
		k, err := ecdsa.GenerateKey(elliptic.P256(), rand.Reader)
		if err != nil {
			panic(err)
		}
		m[n] = k
	}
	return m
}
