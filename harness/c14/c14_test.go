// Binding R+E for C14 (MD4 and RIPEMD-160 digests match their references; Sum leaves the running
// state usable).
//
// Input: (1) digests evaluated by TLC from the executable definitions spec/PrimMD4.tla and
// spec/PrimRMD160.tla for patterned messages of every length 0..TagMax (file VERIF_C14_TAGS,
// produced by spec/MDBuf_Tags.tla); (2) call histories Write(n)/Sum/Reset enumerated or simulated
// by TLC from spec/MDBuf.tla (VERIF_CASES, produced by spec/MDBuf_Gen.tla), whose prediction for
// every Sum is "the digest of the `written` bytes since the last Reset".
// Drives the real golang.org/x/crypto/md4 and golang.org/x/crypto/ripemd160 objects and compares
// every Sum byte-for-byte.  Expected digests are the TLC-evaluated ones where tabulated and
// otherwise harness/c14ref, transcriptions of the TLA+ definitions validated against all
// TLC-evaluated digests of the run.
package c14

import (
	"bytes"
	"encoding/hex"
	"encoding/json"
	"fmt"
	"hash"
	"os"
	"strconv"
	"testing"

	"golang.org/x/crypto/md4"
	"golang.org/x/crypto/ripemd160"
	"verif/harness/c03ref"
	"verif/harness/c14ref"
	"verif/harness/vutil"
)

type tagRec struct {
	Alg  string `json:"alg"`
	Seed int    `json:"seed"`
	Len  int    `json:"len"`
	D    []int  `json:"d"`
}

type ev struct {
	Op      string `json:"op"`
	N       int    `json:"n"`
	Written int    `json:"written"`
}

type hcase struct {
	H []ev `json:"h"`
}

type alg struct {
	name string
	new  func() hash.Hash
	ref  func([]byte) []byte
	size int
}

var algs = []alg{
	{"md4", md4.New, c14ref.MD4, 16},
	{"ripemd160", ripemd160.New, c14ref.RMD160, 20},
}

type tkey struct {
	alg       string
	seed, len int
}

type env struct {
	t     *testing.T
	out   *vutil.Out
	table map[tkey][]byte
	nTLC  int
	nRef  int
}

func (e *env) fail(sig, what string, d map[string]any) {
	e.out.Violation(sig, what, d)
	e.t.Errorf("%s: %s %v", sig, what, d)
}

func toBytes(v []int) []byte {
	b := make([]byte, len(v))
	for i, x := range v {
		b[i] = byte(x)
	}
	return b
}

func call(fn func()) (panicked bool, val any) {
	defer func() {
		if r := recover(); r != nil {
			panicked, val = true, r
		}
	}()
	fn()
	return false, nil
}

// replay steps a history through a real object.  seed >= 0: the message is the pattern stream Pat(seed);
// seed < 0: every Write gets random bytes from rnd.
func (e *env) replay(a alg, seed int, h []ev, label string, rnd interface{ Read([]byte) (int, error) }) {
	obj := a.new()
	var msg []byte
	detail := func(i int, extra map[string]any) map[string]any {
		d := map[string]any{"alg": a.name, "history": h, "event": i, "label": label, "seed": seed}
		for k, v := range extra {
			d[k] = v
		}
		return d
	}
	for i, x := range h {
		switch x.Op {
		case "write":
			var data []byte
			if seed >= 0 {
				data = c03ref.Pat(seed, len(msg)+x.N)[len(msg):]
			} else {
				data = make([]byte, x.N)
				rnd.Read(data)
			}
			var wn int
			var werr error
			if p, v := call(func() { wn, werr = obj.Write(data) }); p {
				e.fail("c14-panic:write:"+a.name, fmt.Sprintf("Write panicked: %v", v), detail(i, nil))
				return
			}
			if wn != x.N || werr != nil {
				n, _ := e.out.Extra["info_anomaly: Write did not report len(p), nil: "+a.name].(int) // not part of the property: informational
				e.out.Extra["info_anomaly: Write did not report len(p), nil: "+a.name] = n + 1
			}
			msg = append(msg, data...)
		case "reset":
			obj.Reset()
			msg = nil
		case "sum":
			var got []byte
			if p, v := call(func() { got = obj.Sum(nil) }); p {
				e.fail("c14-panic:sum:"+a.name, fmt.Sprintf("Sum panicked: %v", v), detail(i, nil))
				return
			}
			var want []byte
			fromTLC := false
			if seed >= 0 {
				want, fromTLC = e.table[tkey{a.name, seed, len(msg)}]
			}
			if !fromTLC {
				want = a.ref(msg)
				e.nRef++
			} else {
				e.nTLC++
			}
			if !bytes.Equal(got, want) {
				e.fail("c14-digest-mismatch:"+a.name, "Sum differs from the reference definition",
					detail(i, map[string]any{"got": hex.EncodeToString(got), "want": hex.EncodeToString(want), "written": len(msg), "judge_tlc": fromTLC}))
				return
			}
		default:
			e.t.Fatalf("unknown op %q", x.Op)
		}
		if len(msg) != x.Written {
			e.t.Fatalf("harness and model disagree on the message length (%d vs %d) at event %d of %v", len(msg), x.Written, i, h)
		}
	}
}

func TestReplay(t *testing.T) {
	out := vutil.NewOut()
	defer func() {
		if err := out.Write(); err != nil {
			t.Fatal(err)
		}
	}()
	e := &env{t: t, out: out, table: map[tkey][]byte{}}
	nrand, _ := strconv.Atoi(vutil.Env("VERIF_C14_RANDOM", "1"))
	sweepMax, _ := strconv.Atoi(vutil.Env("VERIF_C14_SWEEP", "0"))
	patSeed, _ := strconv.Atoi(vutil.Env("VERIF_C14_PATSEED", "7"))

	// ---- (1) TLC-evaluated digests: validate the transcriptions, compare the real one-shot path
	ntags := 0
	err := vutil.ReadNDJSON(os.Getenv("VERIF_C14_TAGS"), func(line []byte) error {
		var r tagRec
		if err := json.Unmarshal(line, &r); err != nil {
			return err
		}
		for _, a := range algs {
			if a.name != r.Alg {
				continue
			}
			d := toBytes(r.D)
			if !bytes.Equal(a.ref(c03ref.Pat(r.Seed, r.Len)), d) {
				return fmt.Errorf("transcription c14ref.%s differs from the TLC-evaluated definition (seed %d len %d)", a.name, r.Seed, r.Len)
			}
			e.table[tkey{a.name, r.Seed, r.Len}] = d
			ntags++
		}
		return nil
	})
	if err != nil {
		t.Fatal(err)
	}
	if ntags == 0 {
		t.Fatal("no TLC-evaluated digests")
	}
	for k := range e.table {
		for _, a := range algs {
			if a.name == k.alg {
				out.Case(fmt.Sprintf("tag|%s|%d|%d", k.alg, k.seed, k.len))
				e.replay(a, k.seed, []ev{{"write", k.len, k.len}, {"sum", 0, k.len}}, "table", nil)
				// the same message one byte at a time, Sum after every byte up to the block boundary region
				if k.len <= 130 {
					var h []ev
					for i := 1; i <= k.len; i++ {
						h = append(h, ev{"write", 1, i})
					}
					h = append(h, ev{"sum", 0, k.len})
					e.replay(a, k.seed, h, "table bytewise", nil)
				}
			}
		}
	}
	out.Extra["tlc_evaluated_digests"] = ntags

	// ---- (2) histories from the model, on both packages
	rng := vutil.Rand(1414)
	nh := 0
	err = vutil.ReadNDJSON(vutil.Env("VERIF_CASES", ""), func(line []byte) error {
		var hc hcase
		if err := json.Unmarshal(line, &hc); err != nil {
			return err
		}
		nh++
		for _, a := range algs {
			out.Case(fmt.Sprintf("pat|%s|%s", a.name, line))
			e.replay(a, patSeed, hc.H, "pattern", nil)
			for r := 0; r < nrand; r++ {
				out.Case(fmt.Sprintf("rnd%d|%s|%s", r, a.name, line))
				e.replay(a, -1, hc.H, fmt.Sprintf("random data #%d (VERIF_SEED %d)", r, vutil.Seed()), rng)
			}
		}
		if nh%2999 == 1 {
			out.Sample(json.RawMessage(append([]byte(nil), line...)))
		}
		return nil
	})
	if err != nil {
		t.Fatal(err)
	}
	out.Extra["histories"] = nh

	// ---- (3) amplifier sweep: every length 0..sweepMax, random chunking with Sum in the middle, then continue
	for _, a := range algs {
		for n := 0; n <= sweepMax; n++ {
			var h []ev
			w := 0
			for w < n {
				k := []int{0, 1, 7, 8, 9, 55, 56, 57, 63, 64, 65, 119, 120, 127, 128, 129, n}[rng.Intn(17)]
				if rng.Intn(3) == 0 {
					k = rng.Intn(n + 1)
				}
				if w+k > n {
					k = n - w
				}
				w += k
				h = append(h, ev{"write", k, w})
				if rng.Intn(4) == 0 {
					h = append(h, ev{"sum", 0, w})
				}
			}
			h = append(h, ev{"sum", 0, n}, ev{"sum", 0, n})
			out.Case(fmt.Sprintf("sweep|%s|%d", a.name, n))
			e.replay(a, -1, h, fmt.Sprintf("sweep len %d (VERIF_SEED %d)", n, vutil.Seed()), rng)
		}
	}
	out.Extra["comparisons_judged_by_tlc_digests"] = e.nTLC
	out.Extra["comparisons_judged_by_validated_transcription"] = e.nRef
}
