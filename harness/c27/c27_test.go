// C27 — interoperability with OpenSSH (direction: OpenSSH client -> Go server).
//
// A real Go SSH server (ssh.VerifNewServerConnRecorded: NewServerConn over a recording
// keyingTransport) listens on loopback TCP; the real OpenSSH `ssh` client connects once per
// configuration enumerated by TLC from spec/SSHInterop_MC.tla (kex, host key algorithm,
// cipher, MAC, user key/signature algorithm, re-key initiator, payload class), authenticates
// with an ssh-keygen generated key and pipes a seeded payload through an echo command
// implemented by the Go server.  Per connection the harness observes directly
//   - the OpenSSH exit status,
//   - byte equality of the echoed data,
//   - that the negotiated algorithms are the intended ones (server's view),
//
// and records the server-side packet trace (type, length per packet at the
// handshakeTransport/transport boundary plus the 'queued'/'kexdone' linearization points),
// which the check validates with TLC against spec/SSHInterop_Trace.tla.
package c27

import (
	"bytes"
	"context"
	"encoding/binary"
	"encoding/json"
	"errors"
	"fmt"
	"io"
	mrand "math/rand"
	"net"
	"os"
	"os/exec"
	"path/filepath"
	"slices"
	"strconv"
	"strings"
	"sync"
	"sync/atomic"
	"testing"
	"time"

	"golang.org/x/crypto/ssh"
	"verif/harness/vutil"
)

// ---------------------------------------------------------------------------------------
// lists: what the package implements, probed through its public configuration surface

type probeIn struct {
	Kex    []string `json:"kex"`
	Cipher []string `json:"cipher"`
	Mac    []string `json:"mac"`
}

// TestLists reports (a) SupportedAlgorithms() ∪ InsecureAlgorithms() and (b) for every candidate
// name given in VERIF_C27_CANDIDATES (the `ssh -Q` lists) whether Config.SetDefaults keeps it,
// i.e. whether the package has an implementation registered under that name (this is how the
// curve25519-sha256@libssh.org alias, which is not in the exported lists, is found).
func TestLists(t *testing.T) {
	out := vutil.NewOut()
	defer out.Write()
	sup, ins := ssh.SupportedAlgorithms(), ssh.InsecureAlgorithms()
	u := func(a, b []string) []string { return append(slices.Clone(a), b...) }
	out.Extra["pkg_kex"] = u(sup.KeyExchanges, ins.KeyExchanges)
	out.Extra["pkg_cipher"] = u(sup.Ciphers, ins.Ciphers)
	out.Extra["pkg_mac"] = u(sup.MACs, ins.MACs)
	out.Extra["pkg_hostkey"] = u(sup.HostKeys, ins.HostKeys)
	out.Extra["pkg_pubkey"] = u(sup.PublicKeyAuths, ins.PublicKeyAuths)
	var in probeIn
	if s := os.Getenv("VERIF_C27_CANDIDATES"); s != "" {
		if err := json.Unmarshal([]byte(s), &in); err != nil {
			t.Fatal(err)
		}
	}
	keep := func(names []string, set func(c *ssh.Config, n string), get func(c *ssh.Config) []string) []string {
		var r []string
		for _, n := range names {
			c := &ssh.Config{}
			set(c, n)
			c.SetDefaults()
			if slices.Contains(get(c), n) {
				r = append(r, n)
			}
		}
		return r
	}
	out.Extra["probe_kex"] = keep(in.Kex, func(c *ssh.Config, n string) { c.KeyExchanges = []string{n} }, func(c *ssh.Config) []string { return c.KeyExchanges })
	out.Extra["probe_cipher"] = keep(in.Cipher, func(c *ssh.Config, n string) { c.Ciphers = []string{n} }, func(c *ssh.Config) []string { return c.Ciphers })
	out.Extra["probe_mac"] = keep(in.Mac, func(c *ssh.Config, n string) { c.MACs = []string{n} }, func(c *ssh.Config) []string { return c.MACs })
	out.Case("lists")
}

// ---------------------------------------------------------------------------------------
// key material made by ssh-keygen

type keyring struct {
	dir      string
	hostSign map[string]ssh.Signer // key file stem -> signer (plain)
	hostCert map[string]ssh.Signer // key file stem -> cert signer
	hostPub  map[string]string     // stem -> authorized_keys line of the public key
	caPub    string
	userPub  map[string]ssh.PublicKey
}

var keySpecs = []struct {
	stem string
	args []string
}{
	{"ed25519", []string{"-t", "ed25519"}},
	{"ecdsa256", []string{"-t", "ecdsa", "-b", "256"}},
	{"ecdsa384", []string{"-t", "ecdsa", "-b", "384"}},
	{"ecdsa521", []string{"-t", "ecdsa", "-b", "521"}},
	{"rsa", []string{"-t", "rsa", "-b", "2048"}},
}

func keygen(dir string, args ...string) error {
	cmd := exec.Command("ssh-keygen", args...)
	cmd.Dir = dir
	cmd.Env = append(os.Environ(), "HOME="+dir)
	if b, err := cmd.CombinedOutput(); err != nil {
		return fmt.Errorf("ssh-keygen %v: %v: %s", args, err, b)
	}
	return nil
}

func makeKeys(dir string) (*keyring, error) {
	kr := &keyring{dir: dir, hostSign: map[string]ssh.Signer{}, hostCert: map[string]ssh.Signer{}, hostPub: map[string]string{}, userPub: map[string]ssh.PublicKey{}}
	if err := keygen(dir, "-q", "-N", "", "-t", "ed25519", "-f", "ca", "-C", "c27-ca"); err != nil {
		return nil, err
	}
	b, err := os.ReadFile(filepath.Join(dir, "ca.pub"))
	if err != nil {
		return nil, err
	}
	kr.caPub = strings.TrimSpace(string(b))
	for _, ks := range keySpecs {
		for _, role := range []string{"host", "user"} {
			f := role + "_" + ks.stem
			if err := keygen(dir, append([]string{"-q", "-N", "", "-f", f, "-C", "c27-" + f}, ks.args...)...); err != nil {
				return nil, err
			}
			priv, err := os.ReadFile(filepath.Join(dir, f))
			if err != nil {
				return nil, err
			}
			pubLine, err := os.ReadFile(filepath.Join(dir, f+".pub"))
			if err != nil {
				return nil, err
			}
			pub, _, _, _, err := ssh.ParseAuthorizedKey(pubLine)
			if err != nil {
				return nil, fmt.Errorf("parse %s.pub: %v", f, err)
			}
			if role == "user" {
				kr.userPub[ks.stem] = pub
				continue
			}
			signer, err := ssh.ParsePrivateKey(priv)
			if err != nil {
				return nil, fmt.Errorf("parse %s: %v", f, err)
			}
			kr.hostSign[ks.stem] = signer
			fs := strings.Fields(string(pubLine))
			kr.hostPub[ks.stem] = fs[0] + " " + fs[1]
			// host certificate signed by the CA (no principals: valid for any host name)
			if err := keygen(dir, "-q", "-s", "ca", "-h", "-I", "c27-"+f, f+".pub"); err != nil {
				return nil, err
			}
			certLine, err := os.ReadFile(filepath.Join(dir, f+"-cert.pub"))
			if err != nil {
				return nil, err
			}
			cpub, _, _, _, err := ssh.ParseAuthorizedKey(certLine)
			if err != nil {
				return nil, fmt.Errorf("parse %s-cert.pub: %v", f, err)
			}
			cert, ok := cpub.(*ssh.Certificate)
			if !ok {
				return nil, fmt.Errorf("%s-cert.pub is not a certificate", f)
			}
			cs, err := ssh.NewCertSigner(cert, signer)
			if err != nil {
				return nil, err
			}
			kr.hostCert[ks.stem] = cs
		}
	}
	return kr, nil
}

// stemOf maps a host key / public key algorithm name to the key file it needs.
func stemOf(algo string) (stem string, cert bool, err error) {
	a := algo
	if strings.HasSuffix(a, "-cert-v01@openssh.com") {
		cert = true
		a = strings.TrimSuffix(a, "-cert-v01@openssh.com")
	}
	switch a {
	case "ssh-ed25519":
		return "ed25519", cert, nil
	case "ecdsa-sha2-nistp256":
		return "ecdsa256", cert, nil
	case "ecdsa-sha2-nistp384":
		return "ecdsa384", cert, nil
	case "ecdsa-sha2-nistp521":
		return "ecdsa521", cert, nil
	case "ssh-rsa", "rsa-sha2-256", "rsa-sha2-512":
		return "rsa", cert, nil
	}
	return "", false, fmt.Errorf("no key recipe for algorithm %q", algo)
}

// ---------------------------------------------------------------------------------------
// cases, events, results

type caseT struct {
	ID      int    `json:"id"`
	Kex     string `json:"kex"`
	HostKey string `json:"hostkey"`
	Cipher  string `json:"cipher"`
	Mac     string `json:"mac"` // "-" when the cipher is an AEAD
	UserSig string `json:"usersig"`
	Rekey   string `json:"rekey"` // client | server | both
	Size    string `json:"size"`  // payload class
}

func (c caseT) key() string {
	return fmt.Sprintf("%s|%s|%s|%s|%s|%s|%s", c.Kex, c.HostKey, c.Cipher, c.Mac, c.UserSig, c.Rekey, c.Size)
}

// event is one line of the recorded trace (uniform shape, see spec/SSHInterop_Trace.tla).
type event struct {
	Ev  string `json:"ev"`  // wire | recv | queued | kexdone | end
	Ty  int    `json:"ty"`  // SSH message number (first payload byte)
	C   int    `json:"c"`   // run length: consecutive packets of the same (ev, ty)
	N   int    `json:"n"`   // payload bytes in the run
	OK  int    `json:"ok"`  // end: 1 = OpenSSH exited 0 and echoed bytes equal
	Min int    `json:"min"` // end: lower bound on completed re-keys for this payload
	ID  int    `json:"id"`  // end: configuration id (diagnostics only)
}

type recorder struct {
	mu       sync.Mutex
	evs      []event
	off      bool
	authAlgo []string // algorithm names of signed publickey requests received
	peerInit []byte   // first KEXINIT received
}

func (r *recorder) rec(side, ev string, p []byte) {
	r.mu.Lock()
	defer r.mu.Unlock()
	if r.off {
		return
	}
	ty := 0
	if len(p) > 0 {
		ty = int(p[0])
	}
	if ev == "recv" && ty == 50 {
		if a := sigAlgoOfAuthRequest(p); a != "" {
			r.authAlgo = append(r.authAlgo, a)
		}
	}
	if ev == "recv" && ty == 20 && r.peerInit == nil {
		r.peerInit = bytes.Clone(p)
	}
	if n := len(r.evs); n > 0 && ev != "kexdone" && ty != 20 && ty != 21 && r.evs[n-1].Ev == ev && r.evs[n-1].Ty == ty {
		r.evs[n-1].C++
		r.evs[n-1].N += len(p)
		return
	}
	r.evs = append(r.evs, event{Ev: ev, Ty: ty, C: 1, N: len(p)})
}

func (r *recorder) stop() []event {
	r.mu.Lock()
	defer r.mu.Unlock()
	r.off = true
	return r.evs
}

func readString(p []byte) (s, rest []byte, ok bool) {
	if len(p) < 4 {
		return nil, nil, false
	}
	n := binary.BigEndian.Uint32(p)
	if uint64(len(p)-4) < uint64(n) {
		return nil, nil, false
	}
	return p[4 : 4+n], p[4+n:], true
}

// sigAlgoOfAuthRequest returns the public key algorithm of a *signed* publickey
// SSH_MSG_USERAUTH_REQUEST, "" otherwise.
func sigAlgoOfAuthRequest(p []byte) string {
	rest := p[1:]
	var f [3][]byte
	var ok bool
	for i := range f {
		if f[i], rest, ok = readString(rest); !ok {
			return ""
		}
	}
	if string(f[2]) != "publickey" || len(rest) < 1 || rest[0] == 0 {
		return ""
	}
	algo, _, ok := readString(rest[1:])
	if !ok {
		return ""
	}
	return string(algo)
}

type result struct {
	Case       caseT    `json:"case"`
	Size       int      `json:"size"`
	Exit       int      `json:"exit"`
	Equal      bool     `json:"equal"`
	Got        int      `json:"got"`
	Stderr     string   `json:"stderr"`
	ServerErr  string   `json:"server_err"`
	Negotiated string   `json:"negotiated"`
	AuthAlgos  []string `json:"auth_algos"`
	Rekeys     int      `json:"rekeys"`
	SrvInit    int      `json:"rekeys_server_initiated"`
	CliInit    int      `json:"rekeys_client_initiated"`
	MinRekeys  int      `json:"min_rekeys"`
	Args       []string `json:"ssh_args"`
	Stalled    string   `json:"stalled"`
	Ms         int      `json:"ms"`
	Events     []event  `json:"events"`
	infra      string
}

// ---------------------------------------------------------------------------------------
// payloads and expectations

const (
	clientRekeyLimit = 16384 // ssh -o RekeyLimit=16K
	serverThreshold  = 16384 // ServerConfig.RekeyThreshold in "server"/"both" runs
	maxPayload       = 200000
)

func payloadSize(class string, rnd *mrand.Rand) int {
	switch class {
	case "zero":
		return 0
	case "one":
		return 1
	case "small":
		return 2 + rnd.Intn(999)
	case "medium":
		return 16384 + rnd.Intn(65536-16384)
	case "large":
		return 65536 + rnd.Intn(maxPayload-65536)
	case "max":
		return maxPayload
	}
	return -1
}

// minRekeys is a deliberately conservative lower bound on the number of key re-exchanges that
// must have completed after the initial one when `size` bytes were echoed.
//
// client: OpenSSH re-keys before sending a packet that would take the blocks sent under the
// current keys beyond RekeyLimit (packet.c ssh_packet_need_rekeying) and sends no channel data
// until that exchange is complete; a channel data packet of the ssh client carries at most
// 32 KiB, so no more than RekeyLimit + 32 KiB = 48 KiB of payload travels client->server
// between two key exchanges, the last of which may be cut short by the end of the session:
// at least ceil(size/48K) - 2 >= floor(size/64K) re-keys complete.
// server: this package requests a key exchange once RekeyThreshold bytes were written or read,
// but the request is served asynchronously by kexLoop while the peer's window (2 MiB) lets the
// whole payload through, so no per-connection bound is sound; the check only requires that
// server-initiated re-keys occur somewhere in the run.
func minRekeys(mode string, size int) int {
	m := 0
	if mode == "client" || mode == "both" {
		m = size / 65536
	}
	return m
}

// ---------------------------------------------------------------------------------------
// deadlock classification (state-based; the clock only decides when to look)

// monConn notes when bytes last moved and whether the server is inside Read.
type monConn struct {
	net.Conn
	last   atomic.Int64
	inRead atomic.Int32
}

func (m *monConn) touch() { m.last.Store(time.Now().UnixNano()) }
func (m *monConn) idleFor() time.Duration {
	return time.Duration(time.Now().UnixNano() - m.last.Load())
}
func (m *monConn) Read(p []byte) (int, error) {
	m.inRead.Add(1)
	n, err := m.Conn.Read(p)
	m.inRead.Add(-1)
	if n > 0 {
		m.touch()
	}
	return n, err
}
func (m *monConn) Write(p []byte) (int, error) {
	n, err := m.Conn.Write(p)
	m.touch()
	return n, err
}

// deadlocked reports whether the connection is in a state no waiting can resolve: the server
// is blocked in Read, the ssh process is sleeping (not runnable, not waiting for a CPU), and
// neither socket of the loopback connection has anything queued to send or to be read.
func deadlocked(m *monConn, pid, srvPort, cliPort int) bool {
	if m.inRead.Load() == 0 {
		return false
	}
	st, err := os.ReadFile(fmt.Sprintf("/proc/%d/stat", pid))
	if err != nil {
		return false
	}
	i := bytes.LastIndexByte(st, ')')
	if i < 0 || i+2 >= len(st) || st[i+2] != 'S' {
		return false
	}
	tcp, err := os.ReadFile("/proc/net/tcp")
	if err != nil {
		return false
	}
	seen := 0
	for _, ln := range strings.Split(string(tcp), "\n")[1:] {
		f := strings.Fields(ln)
		if len(f) < 5 {
			continue
		}
		lp, rp := hexPort(f[1]), hexPort(f[2])
		if !(lp == srvPort && rp == cliPort) && !(lp == cliPort && rp == srvPort) {
			continue
		}
		seen++
		if f[4] != "00000000:00000000" { // tx_queue:rx_queue
			return false
		}
	}
	return seen == 2
}

func hexPort(addr string) int {
	i := strings.LastIndexByte(addr, ':')
	if i < 0 {
		return -1
	}
	v, err := strconv.ParseInt(addr[i+1:], 16, 32)
	if err != nil {
		return -1
	}
	return int(v)
}

// ---------------------------------------------------------------------------------------
// one connection

type worker struct {
	ln   *net.TCPListener
	port int
	kr   *keyring
	dir  string
	all  []string // PublicKeyAuthAlgorithms accepted by the server
}

func (w *worker) run(c caseT, seed int64) (res result) {
	res.Case = c
	t0 := time.Now()
	defer func() { res.Ms = int(time.Since(t0).Milliseconds()) }()
	rnd := mrand.New(mrand.NewSource(seed*1000003 + int64(c.ID)*7919 + 17))
	size := payloadSize(c.Size, rnd)
	if size < 0 {
		res.infra = "unknown payload class " + c.Size
		return
	}
	payload := make([]byte, size)
	rnd.Read(payload)
	res.Size = size
	res.MinRekeys = minRekeys(c.Rekey, size)

	hstem, hcert, err := stemOf(c.HostKey)
	if err != nil {
		res.infra = err.Error()
		return
	}
	ustem, ucert, err := stemOf(c.UserSig)
	if err != nil || ucert {
		res.infra = fmt.Sprintf("user signature algorithm %q: %v", c.UserSig, err)
		return
	}
	userPub := w.kr.userPub[ustem]

	rec := &recorder{}
	cfg := &ssh.ServerConfig{
		PublicKeyAuthAlgorithms: w.all,
		PublicKeyCallback: func(md ssh.ConnMetadata, key ssh.PublicKey) (*ssh.Permissions, error) {
			if md.User() == "c27user" && bytes.Equal(key.Marshal(), userPub.Marshal()) {
				return &ssh.Permissions{}, nil
			}
			return nil, errors.New("unknown key")
		},
	}
	cfg.KeyExchanges = []string{c.Kex}
	cfg.Ciphers = []string{c.Cipher}
	if c.Mac != "-" {
		cfg.MACs = []string{c.Mac}
	}
	if c.Rekey == "server" || c.Rekey == "both" {
		cfg.RekeyThreshold = serverThreshold
	}
	if hcert {
		cfg.AddHostKey(w.kr.hostCert[hstem])
	} else {
		cfg.AddHostKey(w.kr.hostSign[hstem])
	}

	kh := filepath.Join(w.dir, fmt.Sprintf("known_hosts_%d", c.ID))
	var line string
	if hcert {
		line = fmt.Sprintf("@cert-authority [127.0.0.1]:%d %s\n", w.port, w.kr.caPub)
	} else {
		line = fmt.Sprintf("[127.0.0.1]:%d %s\n", w.port, w.kr.hostPub[hstem])
	}
	if err := os.WriteFile(kh, []byte(line), 0o600); err != nil {
		res.infra = err.Error()
		return
	}
	defer os.Remove(kh)

	args := []string{"-F", "/dev/null", "-T", "-o", "BatchMode=yes", "-o", "LogLevel=ERROR",
		"-o", "StrictHostKeyChecking=yes", "-o", "UserKnownHostsFile=" + kh, "-o", "GlobalKnownHostsFile=/dev/null",
		"-o", "CheckHostIP=no", "-o", "UpdateHostKeys=no",
		"-o", "IdentitiesOnly=yes", "-o", "IdentityAgent=none", "-i", filepath.Join(w.kr.dir, "user_"+ustem),
		"-o", "PreferredAuthentications=publickey", "-o", "PubkeyAcceptedAlgorithms=" + c.UserSig,
		"-o", "KexAlgorithms=" + c.Kex, "-o", "HostKeyAlgorithms=" + c.HostKey, "-o", "Ciphers=" + c.Cipher}
	if c.Mac != "-" {
		args = append(args, "-o", "MACs="+c.Mac)
	}
	if c.Rekey == "client" || c.Rekey == "both" {
		args = append(args, "-o", "RekeyLimit=16K")
	} else {
		args = append(args, "-o", "RekeyLimit=default none")
	}
	args = append(args, "-p", strconv.Itoa(w.port), "c27user@127.0.0.1", "cat")
	res.Args = args

	ctx, cancel := context.WithTimeout(context.Background(), 120*time.Second)
	defer cancel()
	cmd := exec.CommandContext(ctx, "ssh", args...)
	cmd.Env = []string{"HOME=" + w.dir, "PATH=" + os.Getenv("PATH"), "LC_ALL=C"}
	stdin, err := cmd.StdinPipe()
	if err != nil {
		res.infra = err.Error()
		return
	}
	var stdout, stderr bytes.Buffer
	cmd.Stdout = &stdout
	cmd.Stderr = &stderr
	if err := cmd.Start(); err != nil {
		res.infra = "cannot start ssh: " + err.Error()
		return
	}
	go func() {
		stdin.Write(payload)
		stdin.Close()
	}()

	type srvOut struct {
		err  string
		nego string
	}
	srvDone := make(chan srvOut, 1)
	w.ln.SetDeadline(time.Now().Add(30 * time.Second))
	nc, err := w.ln.Accept()
	if err != nil {
		cmd.Process.Kill()
		cmd.Wait()
		res.infra = fmt.Sprintf("accept: %v (ssh stderr: %s)", err, stderr.String())
		return
	}
	mc := &monConn{Conn: nc}
	mc.touch()
	go func() {
		var o srvOut
		defer func() { srvDone <- o }()
		sc, chans, reqs, err := ssh.VerifNewServerConnRecorded(mc, cfg, rec.rec)
		if err != nil {
			o.err = "handshake: " + err.Error()
			return
		}
		if am, ok := sc.Conn.(ssh.AlgorithmsConnMetadata); ok {
			a := am.Algorithms()
			o.nego = fmt.Sprintf("%s|%s|r:%s/%s|w:%s/%s", a.KeyExchange, a.HostKey, a.Read.Cipher, a.Read.MAC, a.Write.Cipher, a.Write.MAC)
		}
		go ssh.DiscardRequests(reqs)
		go func() {
			for nch := range chans {
				if nch.ChannelType() != "session" {
					nch.Reject(ssh.UnknownChannelType, "only session")
					continue
				}
				ch, creqs, err := nch.Accept()
				if err != nil {
					continue
				}
				go serveSession(ch, creqs)
			}
		}()
		if err := sc.Wait(); err != nil && err != io.EOF {
			o.err = "wait: " + err.Error()
		}
	}()

	// Wait for ssh.  A stall is never judged by the clock alone: the watchdog only asks for the
	// state-based classification below (both endpoints blocked reading, nothing in flight).
	waitDone := make(chan error, 1)
	go func() { waitDone <- cmd.Wait() }()
	cliPort := nc.RemoteAddr().(*net.TCPAddr).Port
	tick := time.NewTicker(time.Second)
	defer tick.Stop()
	quietPolls := 0
wait:
	for {
		select {
		case <-waitDone:
			break wait
		case <-tick.C:
			if mc.idleFor() < 10*time.Second || !deadlocked(mc, cmd.Process.Pid, w.port, cliPort) {
				quietPolls = 0
				continue
			}
			if quietPolls++; quietPolls < 3 {
				continue
			}
			res.Stalled = fmt.Sprintf("for %.0fs no byte moved on the connection, the server is blocked reading, the ssh process sleeps, and the send and receive queues of both sockets are empty", mc.idleFor().Seconds())
			cmd.Process.Kill()
			<-waitDone
			break wait
		}
	}
	if res.Stalled == "" && ctx.Err() != nil {
		nc.Close()
		<-srvDone
		res.infra = fmt.Sprintf("ssh did not finish within 120s and the connection is not classifiable as deadlocked (case %s; stderr: %s)", c.key(), stderr.String())
		return
	}
	if res.Stalled != "" {
		nc.Close()
	}
	res.Exit = cmd.ProcessState.ExitCode()
	select {
	case o := <-srvDone:
		res.ServerErr, res.Negotiated = o.err, o.nego
	case <-time.After(30 * time.Second):
		nc.Close()
		o := <-srvDone
		res.ServerErr, res.Negotiated = "server connection still open 30s after ssh exited; "+o.err, o.nego
	}
	nc.Close()
	evs := rec.stop()
	res.Got = stdout.Len()
	res.Equal = bytes.Equal(stdout.Bytes(), payload)
	res.Stderr = strings.TrimSpace(stderr.String())
	if len(res.Stderr) > 600 {
		res.Stderr = res.Stderr[:600]
	}
	res.AuthAlgos = rec.authAlgo
	res.Rekeys, res.SrvInit, res.CliInit = countRekeys(evs)
	ok := 0
	if res.Exit == 0 && res.Equal && res.Stalled == "" {
		ok = 1
	}
	res.Events = append(slices.Clone(evs), event{Ev: "end", OK: ok, Min: res.MinRekeys, ID: c.ID})
	return
}

// countRekeys returns the number of key re-exchanges (after the initial one) that completed
// on the server -- both NEWKEYS through, then 'kexdone' -- and who sent the first KEXINIT.
func countRekeys(evs []event) (total, byServer, byClient int) {
	inKex, first := false, true
	who := ""
	nkOut, nkIn := false, false
	for _, e := range evs {
		switch {
		case e.Ty == 20 && (e.Ev == "wire" || e.Ev == "recv"):
			if !inKex {
				inKex, nkOut, nkIn = true, false, false
				who = e.Ev
			}
		case e.Ty == 21 && e.Ev == "wire":
			nkOut = true
		case e.Ty == 21 && e.Ev == "recv":
			nkIn = true
		case e.Ev == "kexdone":
			if inKex && nkOut && nkIn && !first {
				total++
				if who == "wire" {
					byServer++
				} else {
					byClient++
				}
			}
			if inKex && nkOut && nkIn {
				first = false
			}
			inKex = false
		}
	}
	return
}

// serveSession implements the remote command: every exec request is answered positively and
// served as `cat`: session stdin is copied back to stdout, then exit-status 0.
func serveSession(ch ssh.Channel, reqs <-chan *ssh.Request) {
	started := false
	for req := range reqs {
		switch {
		case req.Type == "exec" && !started:
			started = true
			req.Reply(true, nil)
			go func() {
				io.Copy(ch, ch)
				ch.CloseWrite()
				ch.SendRequest("exit-status", false, []byte{0, 0, 0, 0})
				ch.Close()
			}()
		default:
			if req.WantReply {
				req.Reply(false, nil)
			}
		}
	}
}

// ---------------------------------------------------------------------------------------

func cbcEtm(c caseT) bool {
	return strings.HasSuffix(c.Cipher, "-cbc") && strings.HasSuffix(c.Mac, "-etm@openssh.com")
}

// TestInterop runs every case of VERIF_CASES and writes one result line (with the recorded
// trace) per case to VERIF_C27_RESULTS.
func TestInterop(t *testing.T) {
	out := vutil.NewOut()
	defer out.Write()
	if _, err := exec.LookPath("ssh"); err != nil {
		t.Fatalf("ssh not installed: %v", err)
	}
	var cases []caseT
	if err := vutil.ReadNDJSON(os.Getenv("VERIF_CASES"), func(b []byte) error {
		var c caseT
		if err := json.Unmarshal(b, &c); err != nil {
			return err
		}
		cases = append(cases, c)
		return nil
	}); err != nil {
		t.Fatal(err)
	}
	dir := t.TempDir()
	kr, err := makeKeys(dir)
	if err != nil {
		t.Fatal(err)
	}
	var all []string
	if err := json.Unmarshal([]byte(vutil.Env("VERIF_C27_PUBKEYALGOS", "[]")), &all); err != nil {
		t.Fatal(err)
	}
	par, _ := strconv.Atoi(vutil.Env("VERIF_C27_PAR", "8"))
	if par < 1 {
		par = 1
	}
	resFile, err := os.Create(os.Getenv("VERIF_C27_RESULTS"))
	if err != nil {
		t.Fatal(err)
	}
	defer resFile.Close()
	var mu sync.Mutex
	var infra []string
	var wg sync.WaitGroup
	jobs := make(chan caseT)
	nOK, nRekeyed, totalRekeys, nBytes, nSrv, nCli := 0, 0, 0, 0, 0, 0
	sigCount := map[string]int{}
	for i := 0; i < par; i++ {
		ln, err := net.ListenTCP("tcp4", &net.TCPAddr{IP: net.IPv4(127, 0, 0, 1)})
		if err != nil {
			t.Fatal(err)
		}
		defer ln.Close()
		w := &worker{ln: ln, port: ln.Addr().(*net.TCPAddr).Port, kr: kr, dir: dir, all: all}
		wg.Add(1)
		go func() {
			defer wg.Done()
			for c := range jobs {
				r := w.run(c, vutil.Seed())
				mu.Lock()
				if r.infra != "" {
					infra = append(infra, r.infra)
					mu.Unlock()
					continue
				}
				out.Case(c.key())
				judge(out, t, &r, sigCount)
				if r.Exit == 0 && r.Equal {
					nOK++
					nBytes += r.Size
					if r.Rekeys > 0 {
						nRekeyed++
						totalRekeys += r.Rekeys
						nSrv += r.SrvInit
						nCli += r.CliInit
					}
				}
				if r.ID()%97 == 0 {
					out.Sample(map[string]any{"case": r.Case, "size": r.Size, "exit": r.Exit, "equal": r.Equal, "rekeys": r.Rekeys, "negotiated": r.Negotiated})
				}
				b, _ := json.Marshal(r)
				resFile.Write(append(b, '\n'))
				mu.Unlock()
			}
		}()
	}
	for _, c := range cases {
		jobs <- c
	}
	close(jobs)
	wg.Wait()
	out.Extra["connections_ok"] = nOK
	out.Extra["connections_with_rekey"] = nRekeyed
	out.Extra["rekeys_completed"] = totalRekeys
	out.Extra["rekeys_server_initiated"] = nSrv
	out.Extra["rekeys_client_initiated"] = nCli
	out.Extra["failures_by_signature"] = sigCount
	out.Extra["payload_bytes_echoed"] = nBytes
	if len(infra) > 0 {
		out.Extra["infra"] = infra
		t.Fatalf("infrastructure trouble in %d connections, first: %s", len(infra), infra[0])
	}
}

func (r *result) ID() int { return r.Case.ID }

// judge turns the direct observations of one connection into violations.
func judge(out *vutil.Out, t *testing.T, r *result, sigCount map[string]int) {
	c := r.Case
	detail := map[string]any{"case": c, "size": r.Size, "exit": r.Exit, "equal": r.Equal, "got_bytes": r.Got, "ssh_stderr": r.Stderr,
		"server_err": r.ServerErr, "negotiated": r.Negotiated, "ssh_args": strings.Join(r.Args, " ")}
	authSeen := false
	for _, e := range r.Events {
		if e.Ev == "recv" && e.Ty >= 50 && e.Ty <= 79 {
			authSeen = true
		}
	}
	if r.Exit != 0 || !r.Equal || r.Stalled != "" {
		sig := "interop-failed:" + c.Kex + "+" + c.HostKey + "+" + c.Cipher + "+" + c.Mac + "+" + c.UserSig + "+rekey-" + c.Rekey
		if r.Stalled != "" {
			sig = "interop-deadlocked:" + c.Kex + "+" + c.HostKey + "+" + c.Cipher + "+" + c.Mac + "+" + c.UserSig + "+rekey-" + c.Rekey
			detail["deadlock"] = r.Stalled
		}
		if cbcEtm(c) && (r.Exit != 0 || r.Stalled != "") && !authSeen && r.Got == 0 {
			// the known family: CBC with an encrypt-then-MAC MAC dies at the first encrypted packet
			sig = "interop-cbc-etm-handshake-fails:" + c.Cipher + "+" + c.Mac
		}
		what := fmt.Sprintf("OpenSSH client against the Go server with kex=%s hostkey=%s cipher=%s mac=%s usersig=%s rekey=%s payload=%d bytes: ssh exit status %d, %d bytes echoed, equal=%v; ssh: %q; server: %q",
			c.Kex, c.HostKey, c.Cipher, c.Mac, c.UserSig, c.Rekey, r.Size, r.Exit, r.Got, r.Equal, r.Stderr, r.ServerErr)
		if r.Stalled != "" {
			what += "; the connection deadlocked (" + r.Stalled + ") and ssh was killed"
		}
		sigCount[sig]++
		if sigCount[sig] == 1 { // one record per signature: the cap of vutil.Out must never hide a different failure
			out.Violation(sig, what, detail)
		}
		t.Errorf("%s", what)
		return
	}
	// the connection worked: it must have used the algorithms this case is about
	wantMac := c.Mac
	if wantMac == "-" {
		wantMac = ""
	}
	want := fmt.Sprintf("%s|%s|r:%s/%s|w:%s/%s", c.Kex, c.HostKey, c.Cipher, wantMac, c.Cipher, wantMac)
	if r.Negotiated != want || !slices.Contains(r.AuthAlgos, c.UserSig) {
		// not a property violation: the case did not exercise what it claims (harness trouble)
		out.Extra["not_exercised"] = fmt.Sprintf("case %s negotiated %q (want %q), auth algos %v", c.key(), r.Negotiated, want, r.AuthAlgos)
		t.Errorf("case %s negotiated %q, want %q; auth algos %v", c.key(), r.Negotiated, want, r.AuthAlgos)
	}
}
