// Package c15ref is the "amplifier" of binding E for C15: a plain Go transcription of the executable
// TLA+ definitions in spec/PrimArgon2.tla and spec/Argon2Area.tla (RFC 9106: H_0, H', G with the
// permutation P and the BlaMka GB, address blocks, the reference area, the pass/slice/lane schedule,
// the final XOR).  It has no authority of its own: the harness first checks it against every vector
// TLC evaluated from the TLA+ definitions in the same run (tags, G blocks, H' outputs, reference-block
// tables, the RFC 9106 section 5 vectors), and only then uses it to judge further cases.  It shares no
// code with golang.org/x/crypto: BLAKE2b is harness/c05ref (the transcription of PrimBlake2), the
// memory is filled sequentially (no goroutines), operator for operator as in the specification.
package c15ref

import (
	"encoding/binary"
	"math/bits"

	"verif/harness/c05ref"
)

const (
	Version = 0x13
	TypeD   = 0
	TypeI   = 1
	TypeID  = 2
	sl4     = 4 // Argon2Area!SyncPoints
)

// Block is a sequence of 128 words.
type Block [128]uint64

// FBlaMka: PrimArgon2!FBlaMkaDef
func FBlaMka(x, y uint64) uint64 {
	return x + y + 2*uint64(uint32(x))*uint64(uint32(y))
}

// gbm: PrimArgon2!GBm
func gbm(v *[16]uint64, a, b, c, d int) {
	a1 := FBlaMka(v[a], v[b])
	d1 := bits.RotateLeft64(v[d]^a1, -32)
	c1 := FBlaMka(v[c], d1)
	b1 := bits.RotateLeft64(v[b]^c1, -24)
	a2 := FBlaMka(a1, b1)
	d2 := bits.RotateLeft64(d1^a2, -16)
	c2 := FBlaMka(c1, d2)
	b2 := bits.RotateLeft64(b1^c2, -63)
	v[a], v[b], v[c], v[d] = a2, b2, c2, d2
}

// permP: PrimArgon2!PermP (indices 0-based here)
func permP(v *[16]uint64) {
	gbm(v, 0, 4, 8, 12)
	gbm(v, 1, 5, 9, 13)
	gbm(v, 2, 6, 10, 14)
	gbm(v, 3, 7, 11, 15)
	gbm(v, 0, 5, 10, 15)
	gbm(v, 1, 6, 11, 12)
	gbm(v, 2, 7, 8, 13)
	gbm(v, 3, 4, 9, 14)
}

// XorBlock: PrimArgon2!XorBlock
func XorBlock(x, y *Block) (r Block) {
	for w := range r {
		r[w] = x[w] ^ y[w]
	}
	return
}

// G: PrimArgon2!G
func G(x, y *Block) Block {
	r := XorBlock(x, y)
	var q, z [8][16]uint64
	for i := 0; i < 8; i++ {
		copy(q[i][:], r[16*i:16*i+16])
		permP(&q[i])
	}
	for i := 0; i < 8; i++ {
		for k := 0; k < 16; k++ {
			z[i][k] = q[k/2][2*i+k%2]
		}
		permP(&z[i])
	}
	var out Block
	for w := range out {
		row, reg, half := w/16, (w%16)/2, w%2
		out[w] = z[reg][2*row+half] ^ r[w]
	}
	return out
}

// BlockOfBytes / BytesOfBlock: little-endian words
func BlockOfBytes(b []byte) (r Block) {
	for w := range r {
		r[w] = binary.LittleEndian.Uint64(b[8*w:])
	}
	return
}

func BytesOfBlock(b *Block) []byte {
	out := make([]byte, 1024)
	for w, v := range b {
		binary.LittleEndian.PutUint64(out[8*w:], v)
	}
	return out
}

func l4(n int) []byte {
	var b [4]byte
	binary.LittleEndian.PutUint32(b[:], uint32(n))
	return b[:]
}

func cat(parts ...[]byte) []byte {
	var r []byte
	for _, p := range parts {
		r = append(r, p...)
	}
	return r
}

// HPrime: PrimArgon2!HPrime
func HPrime(T int, a []byte) []byte {
	if T <= 64 {
		return c05ref.Blake2b(T, nil, cat(l4(T), a))
	}
	r := (T+31)/32 - 2
	v := c05ref.Blake2b(64, nil, cat(l4(T), a))
	out := append([]byte{}, v[:32]...)
	for i := 2; i <= r; i++ {
		v = c05ref.Blake2b(64, nil, v)
		out = append(out, v[:32]...)
	}
	return append(out, c05ref.Blake2b(T-32*r, nil, v)...)
}

// H0: PrimArgon2!H0
func H0(y int, P, S, K, X []byte, t, m, p, T int) []byte {
	return c05ref.Blake2b(64, nil, cat(l4(p), l4(T), l4(m), l4(t), l4(Version), l4(y),
		l4(len(P)), P, l4(len(S)), S, l4(len(K)), K, l4(len(X)), X))
}

// MemBlocks: PrimArgon2!MemBlocks
func MemBlocks(m, p int) int {
	if m < 8*p {
		return 8 * p
	}
	return 4 * p * (m / (4 * p))
}

// AreaFinished, AreaSize, AreaStart, AreaCol: Argon2Area
func AreaFinished(r, sl, seglen int) int {
	if r == 0 {
		return sl * seglen
	}
	return (sl4 - 1) * seglen
}

func AreaSize(r, sl, idx, seglen int, same bool) int {
	n := AreaFinished(r, sl, seglen)
	if same {
		n += idx
	}
	if same || idx == 0 {
		n--
	}
	return n
}

func AreaStart(r, sl, seglen int) int {
	if r == 0 {
		return 0
	}
	return ((sl + 1) % sl4) * seglen
}

func AreaCol(r, sl, seglen, zz int) int {
	return (AreaStart(r, sl, seglen) + zz) % (sl4 * seglen)
}

// DataIndep: PrimArgon2!DataIndep
func DataIndep(y, r, sl int) bool {
	return y == TypeI || (y == TypeID && r == 0 && sl < 2)
}

// RelPos: PrimArgon2!RelPos
func RelPos(j1 uint32, area int) int {
	x := (uint64(j1) * uint64(j1)) >> 32
	yy := (uint64(area) * x) >> 32
	return area - 1 - int(yy)
}

// RefBlock: PrimArgon2!RefBlock
func RefBlock(p, seglen, r, sl, l, idx int, w uint64) (rl, col int) {
	rl = l
	if !(r == 0 && sl == 0) {
		rl = int(uint32(w>>32) % uint32(p))
	}
	area := AreaSize(r, sl, idx, seglen, rl == l)
	return rl, AreaCol(r, sl, seglen, RelPos(uint32(w), area))
}

type params struct{ y, t, mp, p, q, seglen int }

// addrBlock: PrimArgon2!AddrBlock
func addrBlock(prm *params, r, l, sl, i int) Block {
	var z, zero Block
	z[0], z[1], z[2], z[3], z[4], z[5], z[6] = uint64(r), uint64(l), uint64(sl), uint64(prm.mp), uint64(prm.t), uint64(prm.y), uint64(i)
	g := G(&zero, &z)
	return G(&zero, &g)
}

// processSegment: PrimArgon2!ProcessSegment with StepBlock inlined
func processSegment(B []Block, prm *params, r, sl, l int) {
	var addr []Block
	if DataIndep(prm.y, r, sl) {
		for i := 1; i <= (prm.seglen+127)/128; i++ {
			addr = append(addr, addrBlock(prm, r, l, sl, i))
		}
	}
	first := 0
	if r == 0 && sl == 0 {
		first = 2
	}
	q := prm.q
	for idx := first; idx <= prm.seglen-1; idx++ {
		col := sl*prm.seglen + idx
		cur := l*q + col
		prev := l*q + (col+q-1)%q
		var w uint64
		if DataIndep(prm.y, r, sl) {
			w = addr[idx/128][idx%128]
		} else {
			w = B[prev][0]
		}
		rl, rc := RefBlock(prm.p, prm.seglen, r, sl, l, idx, w)
		g := G(&B[prev], &B[rl*q+rc])
		if r == 0 {
			B[cur] = g
		} else {
			B[cur] = XorBlock(&g, &B[cur])
		}
	}
}

// Argon2KX: PrimArgon2!Argon2KX
func Argon2KX(y int, P, S, K, X []byte, t, m, p, T int) []byte {
	mp := MemBlocks(m, p)
	q := mp / p
	prm := &params{y: y, t: t, mp: mp, p: p, q: q, seglen: q / 4}
	h0 := H0(y, P, S, K, X, t, m, p, T)
	B := make([]Block, mp)
	for k := 0; k < mp; k++ {
		lane, col := k/q, k%q
		if col < 2 {
			B[k] = BlockOfBytes(HPrime(1024, cat(h0, l4(col), l4(lane))))
		}
	}
	for r := 0; r < t; r++ {
		for sl := 0; sl < 4; sl++ {
			for l := 0; l < p; l++ {
				processSegment(B, prm, r, sl, l)
			}
		}
	}
	var c Block
	for l := 0; l < p; l++ {
		c = XorBlock(&c, &B[l*q+q-1])
	}
	return HPrime(T, BytesOfBlock(&c))
}

// Argon2: PrimArgon2!Argon2
func Argon2(y int, P, S []byte, t, m, p, T int) []byte {
	return Argon2KX(y, P, S, nil, nil, t, m, p, T)
}
