// Package c03ref is the "amplifier" of binding E for C01-C04: a plain Go transcription of the
// executable TLA+ definitions spec/PrimWords.tla (Pat), spec/PrimChaCha.tla (Block, HChaCha20, KS),
// spec/PrimPoly.tla (Poly1305 as the mathematical definition, with math/big) and spec/AEAD.tla
// (Seal).  It has no authority of its own: every harness first checks it byte-for-byte against
// the vectors TLC evaluated from the TLA+ definitions in the same run, and only then uses it to
// judge further cases.  It deliberately shares no code with golang.org/x/crypto.
package c03ref

import (
	"encoding/binary"
	"math/big"
	"math/bits"
)

// PatByte / Pat: PrimWords!PatByte, PrimWords!Pat.
func PatByte(seed, i int) byte {
	if seed == 0 {
		return 0
	}
	if seed == 1 {
		return 255
	}
	return byte(((seed*131 + i*197 + (i/7)*31 + 17) ^ (((i%251)*(i%241) + seed) % 256)) % 256)
}

func Pat(seed, n int) []byte {
	b := make([]byte, n)
	for i := range b {
		b[i] = PatByte(seed, i)
	}
	return b
}

func qr(s *[16]uint32, a, b, c, d int) {
	s[a] += s[b]
	s[d] = bits.RotateLeft32(s[d]^s[a], 16)
	s[c] += s[d]
	s[b] = bits.RotateLeft32(s[b]^s[c], 12)
	s[a] += s[b]
	s[d] = bits.RotateLeft32(s[d]^s[a], 8)
	s[c] += s[d]
	s[b] = bits.RotateLeft32(s[b]^s[c], 7)
}

func rounds(s *[16]uint32) {
	for i := 0; i < 10; i++ {
		qr(s, 0, 4, 8, 12)
		qr(s, 1, 5, 9, 13)
		qr(s, 2, 6, 10, 14)
		qr(s, 3, 7, 11, 15)
		qr(s, 0, 5, 10, 15)
		qr(s, 1, 6, 11, 12)
		qr(s, 2, 7, 8, 13)
		qr(s, 3, 4, 9, 14)
	}
}

var sigma = [4]uint32{0x61707865, 0x3320646e, 0x79622d32, 0x6b206574}

// Block: PrimChaCha!Block (key 32 bytes, nonce 12 bytes).
func Block(key []byte, ctr uint32, nonce []byte) []byte {
	var in [16]uint32
	copy(in[:4], sigma[:])
	for i := 0; i < 8; i++ {
		in[4+i] = binary.LittleEndian.Uint32(key[4*i:])
	}
	in[12] = ctr
	for i := 0; i < 3; i++ {
		in[13+i] = binary.LittleEndian.Uint32(nonce[4*i:])
	}
	s := in
	rounds(&s)
	out := make([]byte, 64)
	for i := 0; i < 16; i++ {
		binary.LittleEndian.PutUint32(out[4*i:], s[i]+in[i])
	}
	return out
}

// HChaCha20: PrimChaCha!HChaCha20 (nonce 16 bytes).
func HChaCha20(key, nonce16 []byte) []byte {
	var s [16]uint32
	copy(s[:4], sigma[:])
	for i := 0; i < 8; i++ {
		s[4+i] = binary.LittleEndian.Uint32(key[4*i:])
	}
	for i := 0; i < 4; i++ {
		s[12+i] = binary.LittleEndian.Uint32(nonce16[4*i:])
	}
	rounds(&s)
	out := make([]byte, 32)
	for i := 0; i < 4; i++ {
		binary.LittleEndian.PutUint32(out[4*i:], s[i])
		binary.LittleEndian.PutUint32(out[16+4*i:], s[12+i])
	}
	return out
}

// Eff: PrimChaCha!EffKey / EffNonce (XChaCha20 derivation for 24-byte nonces).
func Eff(key, nonce []byte) ([]byte, []byte) {
	if len(nonce) == 24 {
		n := make([]byte, 12)
		copy(n[4:], nonce[16:24])
		return HChaCha20(key, nonce[:16]), n
	}
	return key, nonce
}

// KS: PrimChaCha!KS: n keystream bytes at byte offset from of the stream starting at block `base`.
func KS(key, nonce []byte, base uint32, from int64, n int) []byte {
	out := make([]byte, 0, n+64)
	if n == 0 {
		return out
	}
	k0 := from / 64
	k1 := (from + int64(n) - 1) / 64
	for k := k0; k <= k1; k++ {
		out = append(out, Block(key, base+uint32(k), nonce)...)
	}
	off := int(from - 64*k0)
	return out[off : off+n]
}

var p1305 = new(big.Int).Sub(new(big.Int).Lsh(big.NewInt(1), 130), big.NewInt(5))

func leInt(b []byte) *big.Int {
	r := make([]byte, len(b))
	for i := range b {
		r[len(b)-1-i] = b[i]
	}
	return new(big.Int).SetBytes(r)
}

// Poly1305: PrimPoly!Poly1305 (Horner form of the definition).
func Poly1305(key, msg []byte) []byte {
	rb := append([]byte(nil), key[:16]...)
	for _, i := range []int{3, 7, 11, 15} {
		rb[i] &= 15
	}
	for _, i := range []int{4, 8, 12} {
		rb[i] &= 252
	}
	r := leInt(rb)
	s := leInt(key[16:32])
	acc := new(big.Int)
	for len(msg) > 0 {
		n := 16
		if len(msg) < 16 {
			n = len(msg)
		}
		blk := append(append([]byte(nil), msg[:n]...), 1)
		acc.Add(acc, leInt(blk))
		acc.Mul(acc, r)
		acc.Mod(acc, p1305)
		msg = msg[n:]
	}
	acc.Add(acc, s)
	be := acc.Bytes()
	out := make([]byte, 16)
	for i := 0; i < 16 && i < len(be); i++ {
		out[i] = be[len(be)-1-i]
	}
	return out
}

func pad16(b []byte) []byte {
	if r := len(b) % 16; r != 0 {
		return append(append([]byte(nil), b...), make([]byte, 16-r)...)
	}
	return b
}

// MacData: AEAD!MacData.
func MacData(ad, ct []byte) []byte {
	m := append([]byte(nil), pad16(ad)...)
	m = append(m, pad16(ct)...)
	var l [16]byte
	binary.LittleEndian.PutUint64(l[:8], uint64(len(ad)))
	binary.LittleEndian.PutUint64(l[8:], uint64(len(ct)))
	return append(m, l[:]...)
}

// Seal: AEAD!Seal (nonce 12 or 24 bytes): ciphertext || tag.
func Seal(key, nonce, pt, ad []byte) []byte {
	k, n := Eff(key, nonce)
	polyKey := KS(k, n, 0, 0, 32)
	ks := KS(k, n, 0, 64, len(pt))
	ct := make([]byte, len(pt))
	for i := range pt {
		ct[i] = pt[i] ^ ks[i]
	}
	return append(ct, Poly1305(polyKey, MacData(ad, ct))...)
}
