package x05

// TestTimer (binding T for X05 a/b): seeded random scenarios against a REAL autocert.Manager inside
// testing/synctest bubbles.  A scenario is a sequence of steps of the root goroutine:
//
//	get      GetCertificate for one of the certKeys (synchronously, or from a second goroutine while a
//	         renewal of that key is held at the CA: the call must return although the renewal is in flight)
//	sleep    let virtual time pass (seconds .. months), then wait for quiescence and probe the timers
//	caflip   the CA starts / stops refusing issuances (or issuing unusable certificates) for a key
//	putflip  Cache.Put of the Manager's renewal starts / stops failing for a key
//	gate     hold the next renewal issuance of a key at the CA;  ungate  release it
//	stop     Manager.stopRenew (hook VerifStopRenew)
//	xstart   a second startRenew for a registered key (hook VerifStartRenew)
//
// Every cache access, CA request, renewal-loop iteration (hook VerifSetDidRenewLoop on the package's
// testDidRenewLoop seam), call and return is logged with its virtual time; the logs are written to
// VERIF_TRACES (one JSON object per scenario: {"cfg": "D30"|"D10", "events": [...]}) and validated by TLC.
// Direct verdicts here: a GetCertificate that does not return while a renewal is held, a served
// certificate that is not one whole certState.

import (
	"crypto"
	"encoding/json"
	"fmt"
	"math/rand"
	"os"
	"runtime"
	"strconv"
	"strings"
	"sync/atomic"
	"syscall"
	"testing"
	"testing/synctest"
	"time"

	"golang.org/x/crypto/acme/autocert"
	"verif/harness/vutil"
)

const day = 24 * time.Hour

type scenario struct {
	ID     int              `json:"id"`
	Cfg    string           `json:"cfg"`
	Kind   string           `json:"kind"`
	Steps  []string         `json:"steps"`
	Events []map[string]any `json:"events"`
}

var progress atomic.Int64

const watchdogAfter = 120 * time.Second

// realNow is the real monotonic-ish clock in nanoseconds (time.Now is virtual inside a bubble).
func realNow() int64 {
	var tv syscall.Timeval
	syscall.Gettimeofday(&tv)
	return tv.Sec*1e9 + tv.Usec*1e3
}

// runScenario runs one scenario inside a bubble and returns its log.
func runScenario(t *testing.T, out *vutil.Out, id int, kind string, rnd *rand.Rand) *scenario {
	sc := &scenario{ID: id, Kind: kind}
	rb := time.Duration(0)
	sc.Cfg = "D30"
	if rnd.Intn(2) == 0 || kind == "expiry" {
		rb = 10 * day
		sc.Cfg = "D10"
	}
	thr := 30 * day
	if rb > 0 {
		thr = rb
	}
	synctest.Test(t, func(t *testing.T) {
		w := newWorld(rb)
		defer autocert.VerifSetDidRenewLoop(nil)
		step := func(s string) { sc.Steps = append(sc.Steps, s); progress.Add(1) }
		allKeys := []string{nameA, nameB, nameA + "+rsa", nameB + "+rsa"}
		// the keys this scenario uses: two or three, RSA issuance is costly (2048-bit key generation in the Manager)
		keys := []string{nameA, nameB}
		if rnd.Intn(3) == 0 {
			keys = append(keys, allKeys[2+rnd.Intn(2)])
		}
		if kind == "expiry" {
			keys = []string{nameA}
		}
		serial := int64(1000)
		now := time.Now()
		registered := map[string]served{} // keys with a certificate served and a renewal registered (for xstart)
		hasState := map[string]bool{}     // keys that were served a certificate: Manager.state holds them
		stoppedAll := false
		for _, k := range keys {
			_, kt := splitKey(k)
			if kind == "expiry" {
				// a certificate with a few hours left: its renewal is due at once and keeps failing
				serial++
				w.preload(k, serial, now.Add(-91*day), now.Add(time.Duration(2+rnd.Intn(4))*time.Hour+time.Duration(rnd.Intn(3000))*time.Second))
				continue
			}
			if rnd.Intn(2) == 0 || kt == "R" && rnd.Intn(4) != 0 {
				serial++
				var left time.Duration
				switch rnd.Intn(4) {
				case 0: // due already
					left = time.Duration(1+rnd.Intn(int(thr/time.Hour)-1)) * time.Hour
				case 1: // due within a day or so
					left = thr + time.Duration(1+rnd.Intn(30))*time.Hour
				default:
					left = thr + time.Duration(1+rnd.Intn(50))*day
				}
				na := now.Add(left + time.Duration(rnd.Intn(3600))*time.Second)
				w.preload(k, serial, na.Add(-91*day), na)
			}
		}
		if kind == "expiry" {
			w.mu.Lock()
			w.caOut[nameA] = []string{"cafail", "badcert"}[rnd.Intn(2)]
			w.mu.Unlock()
		}
		quiet := func() {
			synctest.Wait()
			w.event(map[string]any{"ev": "quiet"})
			w.probe(keys)
		}
		failing := func() bool {
			w.mu.Lock()
			defer w.mu.Unlock()
			for _, k := range keys {
				if (w.caOut[k] != "" && w.caOut[k] != "ok") || w.putFail[k] {
					return true
				}
			}
			return false
		}
		// stopNow calls stopRenew at a quiescent point with no renewal in flight: it must return without any help.
		// It runs in its own goroutine so that a stopRenew that waits for something that never comes is seen
		// (synctest.Wait returns with it durably blocked) instead of deadlocking the bubble.
		stopNow := func() {
			var done atomic.Bool
			go func() {
				w.event(map[string]any{"ev": "stopb"})
				autocert.VerifStopRenew(w.m)
				w.event(map[string]any{"ev": "stope"})
				done.Store(true)
			}()
			synctest.Wait()
			if !done.Load() {
				buf := make([]byte, 1<<20)
				dump := string(buf[:runtime.Stack(buf, true)])
				out.Violation("x05-stoprenew-hangs", "stopRenew did not return although no renewal was in flight: every goroutine of the bubble is durably blocked",
					map[string]any{"scenario": sc.ID, "steps": sc.Steps, "in_stop": strings.Contains(dump, "autocert.(*domainRenewal).stop"), "in_renew": strings.Contains(dump, "autocert.(*domainRenewal).renew")})
				out.Write()
				os.Exit(1) // the bubble cannot end
			}
		}
		gated := ""
		asyncN := 0
		doGet := func(g, k string) {
			// while the renewal of k is held at the CA (or merely possible), call from another goroutine and require the return
			if gated != "" {
				var done atomic.Bool
				var r served
				go func() { r = w.get(g, k); done.Store(true) }()
				synctest.Wait()
				if !done.Load() {
					d := map[string]any{"scenario": sc.ID, "key": k, "held": gated, "steps": sc.Steps}
					out.Violation("x05-getcertificate-blocked-by-renewal", "GetCertificate did not return while a renewal was held at the CA (every goroutine is durably blocked)", d)
					t.Errorf("GetCertificate blocked")
					// release everything so that the bubble can end
					w.mu.Lock()
					for kk, ch := range w.gate {
						close(ch)
						delete(w.gate, kk)
					}
					w.mu.Unlock()
					synctest.Wait()
				}
				asyncN++
				if r.cert != nil {
					hasState[k] = true
					if !stoppedAll {
						registered[k] = r
					}
				}
				return
			}
			r := w.get(g, k)
			if r.cert != nil {
				hasState[k] = true
				if !stoppedAll {
					registered[k] = r
				}
			}
		}
		n := 6 + rnd.Intn(9)
		if kind == "expiry" {
			n = 10
		}
		if kind == "held" {
			// directed prelude: obtain a certificate, hold its renewal at the CA, and call GetCertificate for the same
			// key and for another one while the renewal is in flight
			k := keys[rnd.Intn(len(keys))]
			step("get g1 " + k)
			doGet("g1", k)
			step("gate " + k)
			w.mu.Lock()
			w.gate[k] = make(chan struct{})
			w.ev(map[string]any{"ev": "gate", "k": k})
			w.mu.Unlock()
			gated = k
			d := 90*day - thr - 2*time.Hour
			step("sleep " + d.String())
			time.Sleep(d)
			quiet()
			for i := 0; i < 80; i++ {
				w.mu.Lock()
				at := w.atGate[k]
				w.mu.Unlock()
				if at {
					break
				}
				step("sleep 20m0s")
				time.Sleep(20 * time.Minute)
				quiet()
			}
			w.mu.Lock()
			at := w.atGate[k]
			w.mu.Unlock()
			if at {
				n0, _ := out.Extra["renewals_held_with_concurrent_calls"].(int)
				out.Extra["renewals_held_with_concurrent_calls"] = n0 + 1
			}
			for _, kk := range []string{k, keys[(rnd.Intn(len(keys)))], k} {
				g := "g" + strconv.Itoa(1+rnd.Intn(3))
				step("get " + g + " " + kk)
				doGet(g, kk)
			}
			n = 3 + rnd.Intn(5)
		}
		for i := 0; i < n; i++ {
			k := keys[rnd.Intn(len(keys))]
			g := "g" + strconv.Itoa(1+rnd.Intn(3))
			c := rnd.Intn(100)
			if kind == "expiry" {
				// alternate: get, sleep about an hour
				if i%2 == 0 {
					c = 0
				} else {
					c = 40
				}
			}
			switch {
			case c < 30:
				step("get " + g + " " + k)
				doGet(g, k)
			case c < 62:
				var d time.Duration
				switch x := rnd.Intn(10); {
				case kind == "expiry":
					d = time.Duration(45+rnd.Intn(40)) * time.Minute
				case failing() || x < 2:
					d = time.Duration(1+rnd.Intn(6*3600)) * time.Second
				case x < 5:
					d = time.Duration(1+rnd.Intn(48)) * time.Hour
				default:
					d = time.Duration(5+rnd.Intn(70))*day + time.Duration(rnd.Intn(86400))*time.Second
				}
				step("sleep " + d.String())
				time.Sleep(d)
				quiet()
			case c < 70:
				o := []string{"cafail", "badcert", "ok", "ok"}[rnd.Intn(4)]
				step("caflip " + k + " " + o)
				w.mu.Lock()
				w.caOut[k] = o
				w.mu.Unlock()
			case c < 76:
				step("putflip " + k)
				w.mu.Lock()
				w.putFail[k] = !w.putFail[k]
				w.mu.Unlock()
			case c < 84:
				if gated == "" && !stoppedAll {
					step("gate " + k)
					w.mu.Lock()
					w.gate[k] = make(chan struct{})
					w.ev(map[string]any{"ev": "gate", "k": k})
					w.mu.Unlock()
					gated = k
				} else if gated != "" {
					step("ungate " + gated)
					w.mu.Lock()
					close(w.gate[gated])
					delete(w.gate, gated)
					delete(w.atGate, gated)
					w.ev(map[string]any{"ev": "ungate", "k": gated})
					w.mu.Unlock()
					gated = ""
					quiet()
				}
			case c < 90:
				if stoppedAll {
					continue
				}
				step("stop")
				synctest.Wait()
				w.mu.Lock()
				held := gated != "" && w.atGate[gated]
				w.mu.Unlock()
				stoppedAll = true
				registered = map[string]served{}
				if held {
					// A renewal is in flight (held at the CA): stopRenew "waits for any in-flight calls to renew to
					// complete".  It waits on dr.timerMu, a sync.Mutex, which synctest does not regard as durably
					// blocked: neither synctest.Wait nor a virtual sleep would return now.  So: let the stopper run,
					// yield a few thousand times, require that it has NOT returned, release the renewal, and spin
					// (bounded in real time) until it has.
					var stopDone atomic.Bool
					go func() {
						w.event(map[string]any{"ev": "stopb"})
						autocert.VerifStopRenew(w.m)
						w.event(map[string]any{"ev": "stope"})
						stopDone.Store(true)
					}()
					for i := 0; i < 20000; i++ {
						runtime.Gosched()
					}
					if stopDone.Load() {
						d := map[string]any{"scenario": sc.ID, "held": gated, "steps": sc.Steps}
						out.Violation("x05-stop-did-not-wait", "stopRenew returned while a renewal iteration was still in flight at the CA", d)
						t.Errorf("stop did not wait")
					}
					w.mu.Lock()
					close(w.gate[gated])
					delete(w.gate, gated)
					delete(w.atGate, gated)
					w.ev(map[string]any{"ev": "ungate", "k": gated})
					w.mu.Unlock()
					gated = ""
					t0 := realNow()
					for !stopDone.Load() {
						runtime.Gosched()
						if realNow()-t0 > 60e9 {
							buf := make([]byte, 1<<20)
							dump := string(buf[:runtime.Stack(buf, true)])
							if strings.Contains(dump, "autocert.(*domainRenewal).stop") && !strings.Contains(dump, "autocert.(*domainRenewal).renew") {
								out.Violation("x05-stoprenew-hangs", "stopRenew did not return within 60 s of real time after the held renewal was released and finished: stop waits, no renew goroutine exists",
									map[string]any{"scenario": sc.ID, "steps": sc.Steps})
								out.Write()
								os.Exit(1)
							}
							out.Extra["hang"] = "stopRenew did not return within 60 s (real time) after the held renewal was released"
							out.Write()
							os.Exit(3)
						}
					}
					quiet()
				} else {
					stopNow()
					quiet()
				}
			default:
				if r, ok := registered[k]; ok && !stoppedAll && r.leaf != nil {
					step("xstart " + k)
					name, kt := splitKey(k)
					w.event(map[string]any{"ev": "xstart", "k": k})
					autocert.VerifStartRenew(w.m, name, kt == "R", r.cert.PrivateKey.(crypto.Signer), r.leaf.NotBefore, r.leaf.NotAfter)
				}
			}
		}
		// wind down: release a held renewal, let everything finish, stop the timers so that the bubble can end
		if gated != "" {
			w.mu.Lock()
			close(w.gate[gated])
			delete(w.gate, gated)
			w.ev(map[string]any{"ev": "ungate", "k": gated})
			w.mu.Unlock()
			gated = ""
		}
		quiet()
		stopNow()
		quiet()
		time.Sleep(2 * time.Hour) // nothing may run any more: a renewal showing up now is not explainable
		quiet()
		w.mu.Lock()
		sc.Events = w.log
		for _, b := range w.bad {
			sig := "x05-" + strings.SplitN(b, " ", 2)[0]
			out.Violation(sig, b, map[string]any{"scenario": sc.ID, "steps": sc.Steps})
			t.Errorf("%s", b)
		}
		if w.expired > 0 {
			n, _ := out.Extra["info_expired_certificates_served"].(int)
			out.Extra["info_expired_certificates_served"] = n + w.expired
		}
		if asyncN > 0 {
			n, _ := out.Extra["calls_during_held_renewal"].(int)
			out.Extra["calls_during_held_renewal"] = n + asyncN
		}
		w.mu.Unlock()
		for _, p := range w.ca.TakeProblems() {
			out.Extra["info_ca_problem"] = p
		}
	})
	return sc
}

func TestTimer(t *testing.T) {
	out := vutil.NewOut()
	defer func() {
		if err := out.Write(); err != nil {
			t.Fatal(err)
		}
	}()
	n, _ := strconv.Atoi(vutil.Env("X05_SCENARIOS", "24"))
	first, _ := strconv.Atoi(vutil.Env("X05_FIRST", "0"))
	tp := os.Getenv("VERIF_TRACES")
	var fh *os.File
	if tp != "" {
		var err error
		if fh, err = os.Create(tp); err != nil {
			t.Fatal(err)
		}
		defer fh.Close()
	}
	// watchdog (real time, outside the bubbles): a scenario that makes no progress for two minutes is hung --
	// a goroutine blocked on a mutex is invisible to synctest.  Classify by the goroutine dump.
	stopWD := make(chan struct{})
	defer close(stopWD)
	go func() {
		last, since := progress.Load(), time.Now()
		for {
			select {
			case <-stopWD:
				return
			case <-time.After(2 * time.Second):
			}
			if p := progress.Load(); p != last {
				last, since = p, time.Now()
				continue
			}
			if time.Since(since) < watchdogAfter {
				continue
			}
			buf := make([]byte, 1<<20)
			dump := string(buf[:runtime.Stack(buf, true)])
			inGet, inRenew := false, false
			for _, g := range strings.Split(dump, "\n\n") {
				if strings.Contains(g, "autocert.(*Manager).GetCertificate") &&
					(strings.Contains(g, "sync.(*Mutex).Lock") || strings.Contains(g, "sync.(*RWMutex).RLock") || strings.Contains(g, "sync.(*RWMutex).Lock")) {
					inGet = true
				}
				if strings.Contains(g, "autocert.(*domainRenewal).renew") {
					inRenew = true
				}
			}
			if inGet && inRenew {
				out.Violation("x05-getcertificate-blocked-on-mutex", "GetCertificate is blocked on a lock while a renewal is in flight (no progress for 120 s of real time; the goroutine dump shows the call in sync.Mutex/RWMutex and a renew goroutine alive)", map[string]any{"dump": dump[:min(len(dump), 6000)]})
			}
			out.Extra["hang_dump"] = dump[:min(len(dump), 4000)]
			out.Write()
			os.Exit(3)
		}
	}()
	kinds := map[string]int{}
	for i := first; i < first+n; i++ {
		kind := "random"
		if i%6 == 5 {
			kind = "expiry"
		} else if i%6 == 2 {
			kind = "held"
		}
		rnd := vutil.Rand(int64(7000 + i))
		sc := runScenario(t, out, i, kind, rnd)
		kinds[kind]++
		out.Case(fmt.Sprintf("scenario-%d-%s", i, strings.Join(sc.Steps, ";")))
		if i < first+2 {
			out.Sample(map[string]any{"scenario": sc.ID, "cfg": sc.Cfg, "kind": sc.Kind, "steps": sc.Steps, "events": len(sc.Events)})
		}
		if fh != nil {
			b, err := json.Marshal(sc)
			if err != nil {
				t.Fatal(err)
			}
			fh.Write(append(b, '\n'))
		}
	}
	out.Extra["scenarios"] = kinds
}
