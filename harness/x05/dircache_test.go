package x05

// X05 (c): autocert.DirCache on a real directory.
//
// TestDirCacheConcurrent  real goroutines (run with -race) do seeded random Put / Get / Delete on a few keys,
//	with values up to megabytes and contexts cancelled before or during the call; the invocation /
//	cancellation / response history of each round goes to VERIF_TRACES and is validated by
//	AutocertRenewTimerCacheAbs_Trace (linearizability w.r.t. the atomic map, incl. the late effects of
//	abandoned goroutines).  Direct verdicts: a Get returning bytes that are not one whole value; temp files
//	left behind once every DirCache goroutine is gone.
// TestDirCacheDirected    the documented sequential behaviour (ErrCacheMiss, Delete of a missing key is nil,
//	0700/0600 permissions, directory created on demand), the key -> file name mapping for every key shape the
//	Manager uses (IDN, +rsa, +token, +http-01, account key) and containment of hostile keys, and the
//	cancellation contract (a cancelled operation answers the context's error or has taken effect).
// TestDirCacheCancelRace  looks for a Put that answers nil although it did not store (context cancelled while
//	the goroutine finishes): reported under its own signature.

import (
	"bytes"
	"context"
	"encoding/binary"
	"encoding/json"
	"errors"
	"fmt"
	"os"
	"path/filepath"
	"runtime"
	"strconv"
	"strings"
	"sync"
	"sync/atomic"
	"testing"
	"time"

	"golang.org/x/crypto/acme/autocert"
	"verif/harness/vutil"
)

func fill(id int64) byte { return byte(id*131 + 17) }

func encodeVal(id int64, size int) []byte {
	if size < 16 {
		size = 16
	}
	b := bytes.Repeat([]byte{fill(id)}, size)
	binary.BigEndian.PutUint64(b[0:], uint64(id))
	binary.BigEndian.PutUint64(b[8:], uint64(size))
	return b
}

// decodeVal returns the id of the value if b is exactly one whole value.
func decodeVal(b []byte) (id int64, why string) {
	if len(b) < 16 {
		return 0, fmt.Sprintf("%d bytes: shorter than a value header", len(b))
	}
	id = int64(binary.BigEndian.Uint64(b[0:]))
	size := int(binary.BigEndian.Uint64(b[8:]))
	if size != len(b) {
		return id, fmt.Sprintf("value %d: %d bytes read, %d written", id, len(b), size)
	}
	if !bytes.Equal(b[16:], bytes.Repeat([]byte{fill(id)}, size-16)) {
		return id, fmt.Sprintf("value %d: the %d bytes read differ from what was written", id, size)
	}
	return id, ""
}

type hist struct {
	mu     sync.Mutex
	events []map[string]any
	done   map[int]bool // operation number -> returned
}

func (h *hist) add(e map[string]any) {
	h.mu.Lock()
	h.events = append(h.events, e)
	h.mu.Unlock()
}

func classify(err error) string {
	switch {
	case err == nil:
		return "ok"
	case errors.Is(err, autocert.ErrCacheMiss):
		return "miss"
	case errors.Is(err, context.Canceled), errors.Is(err, context.DeadlineExceeded):
		return "ctx"
	}
	return "err:" + err.Error()
}

// leftovers lists directory entries that are not key files.
func leftovers(dir string, keys []string) []string {
	ents, _ := os.ReadDir(dir)
	var out []string
	for _, e := range ents {
		isKey := false
		for _, k := range keys {
			if e.Name() == k {
				isKey = true
			}
		}
		if !isKey {
			out = append(out, e.Name())
		}
	}
	return out
}

func dirCacheGoroutines() int {
	buf := make([]byte, 1<<20)
	dump := string(buf[:runtime.Stack(buf, true)])
	return strings.Count(dump, "autocert.DirCache.")
}

func TestDirCacheConcurrent(t *testing.T) {
	out := vutil.NewOut()
	defer func() {
		if err := out.Write(); err != nil {
			t.Fatal(err)
		}
	}()
	rounds, _ := strconv.Atoi(vutil.Env("X05_DC_ROUNDS", "12"))
	var fh *os.File
	if tp := os.Getenv("VERIF_TRACES"); tp != "" {
		var err error
		if fh, err = os.Create(tp); err != nil {
			t.Fatal(err)
		}
		defer fh.Close()
	}
	allKeys := []string{"a.verif.test", "a.verif.test+rsa", "xn--bcher-kva.verif.test+token", "tok_en-1+http-01"}
	sizes := []int{16, 100, 4096, 65536, 1 << 20, 3 << 20}
	if mx, _ := strconv.Atoi(vutil.Env("X05_DC_MAXSIZE", "0")); mx > 0 {
		// under the race detector megabyte buffers cost seconds per operation
		sizes = []int{16, 100, 4096, mx / 4, mx / 2, mx}
	}
	var nOps, nCancel, nCtx, nBig atomic.Int64
	for r := 0; r < rounds; r++ {
		rnd := vutil.Rand(int64(9000 + r))
		dir := filepath.Join(t.TempDir(), "cache") // does not exist yet: Put creates it
		c := autocert.DirCache(dir)
		P := 3 + rnd.Intn(3)
		M := 4 + rnd.Intn(5)
		keys := allKeys[:1+rnd.Intn(2)]
		if rnd.Intn(4) == 0 {
			keys = allKeys[1+rnd.Intn(2):][:2]
		}
		h := &hist{done: map[int]bool{}}
		var partial atomic.Int64
		var infra atomic.Value
		var wg sync.WaitGroup
		for p := 1; p <= P; p++ {
			prnd := vutil.Rand(int64(9000+r)*100 + int64(p))
			wg.Add(1)
			go func(p int) {
				defer wg.Done()
				for n := 1; n <= M; n++ {
					opn := p*1000 + n
					k := keys[prnd.Intn(len(keys))]
					op := []string{"put", "put", "get", "get", "del"}[prnd.Intn(5)]
					size := sizes[prnd.Intn(len(sizes))]
					if size >= 1<<20 {
						nBig.Add(1)
					}
					mode := prnd.Intn(10) // 0: pre-cancelled, 1,2: cancelled concurrently, else: never
					spin := prnd.Intn(3000)
					ctx, cancel := context.WithCancel(context.Background())
					h.add(map[string]any{"ev": "inv", "p": p, "op": op, "k": k, "v": opn})
					logCancel := func() {
						h.mu.Lock()
						if !h.done[opn] {
							h.events = append(h.events, map[string]any{"ev": "cancel", "p": p})
							nCancel.Add(1)
						}
						h.mu.Unlock()
						cancel()
					}
					var cwg sync.WaitGroup
					switch mode {
					case 0:
						logCancel()
					case 1, 2:
						cwg.Add(1)
						go func() {
							defer cwg.Done()
							for i := 0; i < spin; i++ {
								runtime.Gosched()
							}
							logCancel()
						}()
					}
					res := map[string]any{"ev": "res", "p": p, "v": 0}
					switch op {
					case "put":
						res["r"] = classify(c.Put(ctx, k, encodeVal(int64(opn), size)))
					case "del":
						res["r"] = classify(c.Delete(ctx, k))
					case "get":
						data, err := c.Get(ctx, k)
						if err != nil {
							res["r"] = classify(err)
						} else if id, why := decodeVal(data); why != "" {
							res["r"] = "partial"
							partial.Add(1)
							out.Violation("x05-dircache-partial-read", "DirCache.Get returned bytes that are not one whole value: "+why,
								map[string]any{"round": r, "key": k, "value": id, "len": len(data)})
						} else {
							res["r"] = "val"
							res["v"] = id
						}
					}
					h.mu.Lock()
					h.done[opn] = true
					h.events = append(h.events, res)
					h.mu.Unlock()
					if s, _ := res["r"].(string); strings.HasPrefix(s, "err:") {
						infra.Store(s)
					}
					if res["r"] == "ctx" {
						nCtx.Add(1)
					}
					cwg.Wait()
					cancel()
					nOps.Add(1)
				}
			}(p)
		}
		wg.Wait()
		if s := infra.Load(); s != nil {
			t.Fatalf("round %d: unexpected I/O error from DirCache (infrastructure): %v", r, s)
		}
		// the abandoned goroutines finish on their own; every one of them removes its temp file
		deadline := time.Now().Add(20 * time.Second)
		var left []string
		for {
			left = leftovers(dir, keys)
			if len(left) == 0 || time.Now().After(deadline) {
				break
			}
			time.Sleep(2 * time.Millisecond)
		}
		if len(left) > 0 {
			if dirCacheGoroutines() == 0 {
				out.Violation("x05-dircache-tempfile-left", "files other than key files remain in the cache directory although no DirCache goroutine is alive",
					map[string]any{"round": r, "files": left})
				t.Errorf("temp files left: %v", left)
			} else {
				out.Extra["info_slow_orphans"] = fmt.Sprintf("round %d: DirCache goroutines still alive after 20 s", r)
			}
		}
		// final reads (sequential) close the history
		for i, k := range keys {
			opn := 9000 + i
			h.add(map[string]any{"ev": "inv", "p": 6, "op": "get", "k": k, "v": opn})
			data, err := c.Get(context.Background(), k)
			res := map[string]any{"ev": "res", "p": 6, "v": 0, "r": classify(err)}
			if err == nil {
				if id, why := decodeVal(data); why != "" {
					res["r"] = "partial"
					out.Violation("x05-dircache-partial-read", "DirCache.Get (final read) returned bytes that are not one whole value: "+why, map[string]any{"round": r, "key": k})
				} else {
					res["r"], res["v"] = "val", id
				}
			}
			h.add(res)
		}
		out.Case(fmt.Sprintf("dc-round-%d-P%d-M%d-K%d", r, P, M, len(keys)))
		if partial.Load() > 0 {
			t.Errorf("round %d: %d partial reads", r, partial.Load())
		}
		if fh != nil {
			b, _ := json.Marshal(map[string]any{"round": r, "events": h.events})
			fh.Write(append(b, '\n'))
		}
		if r < 2 {
			out.Sample(map[string]any{"round": r, "procs": P, "ops_each": M, "keys": keys, "events": len(h.events)})
		}
	}
	out.Extra["dircache_ops"] = int(nOps.Load())
	out.Extra["dircache_cancellations"] = int(nCancel.Load())
	out.Extra["dircache_ctx_errors"] = int(nCtx.Load())
	out.Extra["dircache_values_1MB_or_more"] = int(nBig.Load())
}

// ---------------------------------------------------------------------------------------------

func TestDirCacheDirected(t *testing.T) {
	out := vutil.NewOut()
	defer func() {
		if err := out.Write(); err != nil {
			t.Fatal(err)
		}
	}()
	bg := context.Background()
	fail := func(sig, what string, d any) {
		out.Violation(sig, what, d)
		t.Errorf("%s: %s", sig, what)
	}
	// ---- documented sequential behaviour
	{
		base := t.TempDir()
		dir := filepath.Join(base, "sub", "cache")
		c := autocert.DirCache(dir)
		out.Case("get-missing-dir")
		if _, err := c.Get(bg, "a.verif.test"); err != autocert.ErrCacheMiss {
			fail("x05-dircache-miss", "Get of a missing key (directory absent) did not return ErrCacheMiss", fmt.Sprint(err))
		}
		out.Case("delete-missing")
		if err := c.Delete(bg, "a.verif.test"); err != nil {
			fail("x05-dircache-delete-missing", "Delete of a missing key returned an error", err.Error())
		}
		out.Case("put-creates-dir")
		v1 := encodeVal(1, 5000)
		if err := c.Put(bg, "a.verif.test", v1); err != nil {
			t.Fatalf("Put: %v (infrastructure)", err)
		}
		if fi, err := os.Stat(dir); err != nil || !fi.IsDir() {
			fail("x05-dircache-mkdir", "Put did not create the cache directory", fmt.Sprint(err))
		} else if fi.Mode().Perm() != 0o700 {
			fail("x05-dircache-dir-perm", "cache directory not created with 0700 permissions", fi.Mode().String())
		}
		if fi, err := os.Stat(filepath.Join(dir, "a.verif.test")); err != nil {
			fail("x05-dircache-file-name", "Put(key) did not create dir/key", fmt.Sprint(err))
		} else if fi.Mode().Perm() != 0o600 {
			fail("x05-dircache-file-perm", "cache file not created with 0600 permissions", fi.Mode().String())
		}
		out.Case("put-get")
		if d, err := c.Get(bg, "a.verif.test"); err != nil || !bytes.Equal(d, v1) {
			fail("x05-dircache-roundtrip", "Get after Put did not return the original data", fmt.Sprint(err))
		}
		out.Case("overwrite")
		v2 := encodeVal(2, 100)
		c.Put(bg, "a.verif.test", v2)
		if d, err := c.Get(bg, "a.verif.test"); err != nil || !bytes.Equal(d, v2) {
			fail("x05-dircache-overwrite", "Get after a second Put did not return the second value (a shorter one)", fmt.Sprint(err))
		}
		out.Case("delete-get")
		if err := c.Delete(bg, "a.verif.test"); err != nil {
			fail("x05-dircache-delete", "Delete returned an error", err.Error())
		}
		if _, err := c.Get(bg, "a.verif.test"); err != autocert.ErrCacheMiss {
			fail("x05-dircache-delete-then-get", "Get after Delete did not return ErrCacheMiss", fmt.Sprint(err))
		}
		if l := leftovers(dir, nil); len(l) != 0 {
			fail("x05-dircache-tempfile-left", "files remain after Put/Delete of the only key", l)
		}
	}
	// ---- key -> file name mapping for every key shape the Manager uses
	{
		dir := t.TempDir()
		c := autocert.DirCache(dir)
		names := []string{"a.verif.test", "xn--bcher-kva.verif.test", "xn--80ak6aa92e.xn--p1ai", "a-b.c-d.verif.test",
			strings.Repeat("a", 63) + "." + strings.Repeat("b", 63) + ".verif.test", "1.2.3.verif.test"}
		var keys []string
		for _, n := range names {
			keys = append(keys, n, n+"+rsa", n+"+token")
		}
		for _, tok := range []string{"tok_en-1", "evaGxfADs6pSRb2LAv9IZf17Dt3juxGJ-PCt92wr-oA", "-", "_", "0"} {
			keys = append(keys, tok+"+http-01")
		}
		keys = append(keys, "acme_account+key", "acme_account.key")
		for i, k := range keys {
			out.Case("name-" + k)
			v := encodeVal(int64(100+i), 64)
			if err := c.Put(bg, k, v); err != nil {
				fail("x05-dircache-name-put", "Put failed for a key shape the Manager uses", map[string]any{"key": k, "err": err.Error()})
				continue
			}
		}
		for i, k := range keys {
			d, err := c.Get(bg, k)
			if id, why := decodeVal(d); err != nil || why != "" || id != int64(100+i) {
				fail("x05-dircache-name-collision", "Get(key) does not return what Put(key) stored once all Manager key shapes are stored (mapping not injective?)",
					map[string]any{"key": k, "got": id, "err": fmt.Sprint(err)})
			}
			if _, err := os.Stat(filepath.Join(dir, k)); err != nil {
				fail("x05-dircache-file-name", "the file of a key is not dir/key", map[string]any{"key": k})
			}
		}
		ents, _ := os.ReadDir(dir)
		if len(ents) != len(keys) {
			fail("x05-dircache-name-collision", fmt.Sprintf("%d keys stored, %d files in the directory", len(keys), len(ents)), nil)
		}
	}
	// ---- hostile keys never leave the directory (the Cache documentation excludes \/:*?"<>| from keys; Clean("/"+name) is the guard)
	{
		base := t.TempDir()
		dir := filepath.Join(base, "in", "cache")
		os.MkdirAll(dir, 0o700)
		os.WriteFile(filepath.Join(base, "in", "secret"), []byte("secret"), 0o600)
		os.WriteFile(filepath.Join(base, "secret"), []byte("secret"), 0o600)
		c := autocert.DirCache(dir)
		before := snapshot(base)
		for _, k := range []string{"../secret", "../../secret", "..", ".", "", "a/../../secret", "/etc/hostname", "x/../../../secret", "..+rsa"} {
			out.Case("hostile-" + k)
			if d, err := c.Get(bg, k); err == nil && bytes.Equal(d, []byte("secret")) {
				fail("x05-dircache-escape-read", "Get read a file outside the cache directory", k)
			}
			c.Put(bg, k, []byte("overwritten"))
			c.Delete(bg, k)
		}
		time.Sleep(20 * time.Millisecond)
		after := snapshot(base)
		delete(before, filepath.Join("in", "cache"))
		delete(after, filepath.Join("in", "cache"))
		for p, v := range before {
			if after[p] != v {
				fail("x05-dircache-escape-write", "a file outside the cache directory was changed or removed", p)
			}
		}
		for p := range after {
			if _, ok := before[p]; !ok && !strings.HasPrefix(p, filepath.Join("in", "cache")+string(filepath.Separator)) {
				fail("x05-dircache-escape-write", "a file outside the cache directory was created", p)
			}
		}
	}
	// ---- cancellation contract, context cancelled BEFORE the call
	{
		dir := t.TempDir()
		c := autocert.DirCache(dir)
		old := encodeVal(7, 1000)
		c.Put(bg, "k", old)
		ctx, cancel := context.WithCancel(bg)
		cancel()
		n := 300
		putOK, getCtx, delCtx := 0, 0, 0
		for i := 0; i < n; i++ {
			out.Case("")
			err := c.Put(ctx, "k", encodeVal(int64(1000+i), 50000))
			if r := classify(err); r != "ctx" && r != "ok" {
				fail("x05-dircache-cancel-put", "Put with a cancelled context returned neither nil nor the context's error", r)
			} else if r == "ok" {
				putOK++
			}
			// "Don't overwrite the file if the context was canceled": once the goroutines are gone the old value must still be there
		}
		waitNoLeftovers(dir, []string{"k"})
		if d, err := c.Get(bg, "k"); err != nil || !bytes.Equal(d, old) {
			id, _ := decodeVal(d)
			fail("x05-dircache-cancelled-put-stored", "a Put whose context was cancelled before the call overwrote the key", map[string]any{"now": id, "err": fmt.Sprint(err)})
		}
		if l := leftovers(dir, []string{"k"}); len(l) > 0 && dirCacheGoroutines() == 0 {
			fail("x05-dircache-tempfile-left", "temp files of cancelled Puts remain although no DirCache goroutine is alive", l)
		}
		for i := 0; i < n; i++ {
			d, err := c.Get(ctx, "k")
			switch r := classify(err); {
			case r == "ctx":
				getCtx++
			case r == "ok" && bytes.Equal(d, old):
			default:
				fail("x05-dircache-cancel-get", "Get with a cancelled context returned neither the data nor the context's error", r)
			}
		}
		for i := 0; i < 50; i++ {
			if r := classify(c.Delete(ctx, "absent")); r != "ctx" && r != "ok" {
				fail("x05-dircache-cancel-delete", "Delete with a cancelled context returned neither nil nor the context's error", r)
			} else if r == "ctx" {
				delCtx++
			}
		}
		out.Case("cancel-before-call")
		out.Extra["info_precancelled"] = fmt.Sprintf("of %d pre-cancelled calls: Put->nil %d, Get->ctx error %d; of 50 Deletes ->ctx error %d", n, putOK, getCtx, delCtx)
		if putOK > 0 {
			// answered nil, stored nothing (checked above): the deviation TestDirCacheCancelRace is about
			out.Violation("x05-dircache-put-nil-without-store", "DirCache.Put returned nil for an already cancelled context and stored nothing", map[string]any{"count": putOK, "of": n})
		}
	}
}

func waitNoLeftovers(dir string, keys []string) {
	deadline := time.Now().Add(20 * time.Second)
	for len(leftovers(dir, keys)) > 0 && time.Now().Before(deadline) {
		time.Sleep(2 * time.Millisecond)
	}
	for i := 0; dirCacheGoroutines() > 0 && i < 2000; i++ {
		time.Sleep(time.Millisecond)
	}
}

// snapshot maps every file below root (relative path) to its content.
func snapshot(root string) map[string]string {
	m := map[string]string{}
	filepath.Walk(root, func(p string, fi os.FileInfo, err error) error {
		if err != nil || p == root {
			return nil
		}
		rel, _ := filepath.Rel(root, p)
		if fi.IsDir() {
			m[rel] = "<dir>"
		} else {
			b, _ := os.ReadFile(p)
			m[rel] = string(b)
		}
		return nil
	})
	return m
}

// ---------------------------------------------------------------------------------------------

func TestDirCacheCancelRace(t *testing.T) {
	out := vutil.NewOut()
	defer func() {
		if err := out.Write(); err != nil {
			t.Fatal(err)
		}
	}()
	bg := context.Background()
	dir := t.TempDir()
	c := autocert.DirCache(dir)
	tries, _ := strconv.Atoi(vutil.Env("X05_RACE_TRIES", "3000"))
	rnd := vutil.Rand(4242)
	var witness []map[string]any
	check := func(kind string, i int, ctx context.Context, cancel func()) {
		key := "k" + strconv.Itoa(i%7)
		c.Delete(bg, key)
		err := c.Put(ctx, key, encodeVal(int64(i+1), 20000+rnd.Intn(200000)))
		cancel()
		out.Case("")
		if err == nil {
			// Put answered nil: its goroutine is finished (done is closed last), so the value must be readable now
			if _, e := c.Get(bg, key); e == autocert.ErrCacheMiss {
				witness = append(witness, map[string]any{"how": kind, "try": i})
			}
		}
	}
	for i := 0; i < tries; i++ {
		ctx, cancel := context.WithCancel(bg)
		n := rnd.Intn(400)
		go func() {
			for j := 0; j < n; j++ {
				runtime.Gosched()
			}
			cancel()
		}()
		check("context.WithCancel, cancelled concurrently", i, ctx, cancel)
	}
	out.Case("put-nil-without-store")
	out.Extra["info_put_nil_without_store"] = fmt.Sprintf("%d of %d Puts with a concurrently cancelled context", len(witness), tries)
	if len(witness) > 0 {
		out.Violation("x05-dircache-put-nil-without-store",
			"DirCache.Put returned nil although it stored nothing: its goroutine saw the context cancelled, skipped the rename and left err = nil; the caller's select took the done branch",
			map[string]any{"witnesses": len(witness), "first": witness[0], "tries": tries})
		t.Errorf("Put returned nil without storing (%d times)", len(witness))
	}
}
