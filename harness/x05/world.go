// Package x05 is the conformance harness of the growth check X05: the renewal timer discipline of
// acme/autocert (binding T: event logs of a real Manager in testing/synctest bubbles, validated by
// spec/AutocertRenewTimer_Trace.tla) and autocert.DirCache (histories of real goroutines on a real
// directory, validated by spec/AutocertRenewTimerCacheAbs_Trace.tla, plus directed checks).
package x05

import (
	"context"
	"crypto"
	"crypto/ecdsa"
	"crypto/elliptic"
	"crypto/rand"
	"crypto/rsa"
	"crypto/tls"
	"crypto/x509"
	"encoding/pem"
	"errors"
	"fmt"
	"net/http"
	"runtime"
	"strconv"
	"strings"
	"sync"
	"time"

	"golang.org/x/crypto/acme"
	"golang.org/x/crypto/acme/autocert"
	"verif/harness/acmefake"
)

const (
	nameA      = "a.verif.test"
	nameB      = "b.verif.test"
	originSecs = 100000 // recorded times are seconds since (bubble start - originSecs): always positive
)

var (
	keysOnce sync.Once
	acctKey  *ecdsa.PrivateKey
	preEC    *ecdsa.PrivateKey
	preRSA   *rsa.PrivateKey
)

func initKeys() {
	keysOnce.Do(func() {
		acctKey, _ = ecdsa.GenerateKey(elliptic.P256(), rand.Reader)
		preEC, _ = ecdsa.GenerateKey(elliptic.P256(), rand.Reader)
		preRSA, _ = rsa.GenerateKey(rand.Reader, 2048)
	})
}

func goid() int64 {
	var b [64]byte
	n := runtime.Stack(b[:], false)
	f := strings.Fields(string(b[:n]))
	id, _ := strconv.ParseInt(f[1], 10, 64)
	return id
}

// certKey string <-> (name, key type)
func keyOf(name, kt string) string {
	if kt == "R" {
		return name + "+rsa"
	}
	return name
}
func splitKey(k string) (name, kt string) {
	if strings.HasSuffix(k, "+rsa") {
		return strings.TrimSuffix(k, "+rsa"), "R"
	}
	return k, "E"
}
func isCertKey(k string) bool {
	n, _ := splitKey(k)
	return n == nameA || n == nameB
}

type world struct {
	mu      sync.Mutex
	log     []map[string]any
	gids    map[int64]string // goroutine id -> caller name
	bgKey   map[int64]string // goroutine id of a renewal goroutine -> key of its last Cache.Get
	lastNow map[int64]time.Time
	cache   map[string][]byte
	putFail map[string]bool   // Cache.Put of the Manager's own goroutines fails for these keys
	caOut   map[string]string // issuance outcome per key (default ok)
	gate    map[string]chan struct{}
	atGate  map[string]bool
	ca      *acmefake.CA
	m       *autocert.Manager
	epoch   time.Time
	expired int // certificates served after their NotAfter (information)
	bad     []string
}

func (w *world) t() int { return int(time.Since(w.epoch) / time.Second) }
func (w *world) secs(x time.Time) int {
	return int(x.Sub(w.epoch) / time.Second)
}
func (w *world) who() string {
	if g, ok := w.gids[goid()]; ok {
		return g
	}
	return "bg"
}

// ev appends an event (w.mu held)
func (w *world) ev(e map[string]any) {
	e["t"] = w.t()
	w.log = append(w.log, e)
}
func (w *world) event(e map[string]any) {
	w.mu.Lock()
	defer w.mu.Unlock()
	w.ev(e)
}

func leafOfPEM(data []byte) *x509.Certificate {
	rest := data
	for {
		var b *pem.Block
		b, rest = pem.Decode(rest)
		if b == nil {
			return nil
		}
		if b.Type == "CERTIFICATE" {
			c, err := x509.ParseCertificate(b.Bytes)
			if err != nil {
				return nil
			}
			return c
		}
	}
}

// autocert.Cache
func (w *world) Get(ctx context.Context, key string) ([]byte, error) {
	w.mu.Lock()
	defer w.mu.Unlock()
	d, ok := w.cache[key]
	if isCertKey(key) {
		hit := false
		if ok {
			if leaf := leafOfPEM(d); leaf != nil {
				now := time.Now()
				hit = !now.Before(leaf.NotBefore) && !now.After(leaf.NotAfter)
			}
		}
		who := w.who()
		if who == "bg" {
			w.bgKey[goid()] = key
		}
		w.ev(map[string]any{"ev": "cget", "who": who, "k": key, "hit": hit})
	}
	if ok {
		return append([]byte(nil), d...), nil
	}
	return nil, autocert.ErrCacheMiss
}

func (w *world) Put(ctx context.Context, key string, data []byte) error {
	w.mu.Lock()
	defer w.mu.Unlock()
	if isCertKey(key) {
		who := w.who()
		id := int64(0)
		if leaf := leafOfPEM(data); leaf != nil {
			id = leaf.SerialNumber.Int64()
		}
		fail := who == "bg" && w.putFail[key]
		w.ev(map[string]any{"ev": "cput", "who": who, "k": key, "id": id, "ok": !fail})
		if fail {
			return errors.New("verif: injected Cache.Put failure")
		}
	}
	w.cache[key] = append([]byte(nil), data...)
	return nil
}

func (w *world) Delete(ctx context.Context, key string) error {
	w.mu.Lock()
	defer w.mu.Unlock()
	delete(w.cache, key)
	return nil
}

// newWorld must be called inside the synctest bubble: the CA, the Manager and every timer then live on the virtual clock.
func newWorld(renewBefore time.Duration) *world {
	initKeys()
	w := &world{gids: map[int64]string{}, bgKey: map[int64]string{}, lastNow: map[int64]time.Time{}, cache: map[string][]byte{},
		putFail: map[string]bool{}, caOut: map[string]string{}, gate: map[string]chan struct{}{}, atGate: map[string]bool{}}
	w.epoch = time.Now().Add(-originSecs * time.Second)
	w.ca = acmefake.NewCA(func() time.Time {
		t := time.Now()
		w.mu.Lock()
		w.lastNow[goid()] = t
		w.mu.Unlock()
		return t
	})
	w.ca.Outcome = func(name, kt string) string {
		w.mu.Lock()
		defer w.mu.Unlock()
		if o := w.caOut[keyOf(name, kt)]; o != "" {
			return o
		}
		return "ok"
	}
	w.ca.OnFinalize = func(name, kt string) {
		k := keyOf(name, kt)
		w.mu.Lock()
		who := w.who()
		w.ev(map[string]any{"ev": "fin", "who": who, "k": k})
		var ch chan struct{}
		if who == "bg" {
			if ch = w.gate[k]; ch != nil {
				w.atGate[k] = true
			}
		}
		w.mu.Unlock()
		if ch != nil {
			<-ch // the renewal is held here (durably blocked: the virtual clock may advance)
		}
	}
	w.ca.OnIssued = func(name, kt, o string, serial int) {
		k := keyOf(name, kt)
		w.mu.Lock()
		defer w.mu.Unlock()
		e := map[string]any{"ev": "issued", "who": w.who(), "k": k, "o": o, "id": serial, "nb": 0, "na": 0}
		if o == "ok" {
			now := w.lastNow[goid()]
			e["nb"] = w.secs(now.Add(-time.Hour).Truncate(time.Second))
			e["na"] = w.secs(now.Add(90 * 24 * time.Hour).Truncate(time.Second))
		}
		w.ev(e)
	}
	cl := &acme.Client{Key: acctKey, HTTPClient: &http.Client{Transport: w.ca}, DirectoryURL: acmefake.Base + "/dir"}
	w.m = &autocert.Manager{Prompt: autocert.AcceptTOS, Cache: w, Client: cl, RenewBefore: renewBefore}
	autocert.VerifSetDidRenewLoop(func(next time.Duration, err error) {
		w.mu.Lock()
		defer w.mu.Unlock()
		k, ok := w.bgKey[goid()]
		if !ok {
			w.bad = append(w.bad, "renewal iteration finished in a goroutine that never read the cache")
			return
		}
		w.ev(map[string]any{"ev": "loop", "k": k, "next": int(next / time.Second), "err": err != nil})
	})
	return w
}

func pemKey(k crypto.Signer) []byte {
	switch k := k.(type) {
	case *ecdsa.PrivateKey:
		b, _ := x509.MarshalECPrivateKey(k)
		return pem.EncodeToMemory(&pem.Block{Type: "EC PRIVATE KEY", Bytes: b})
	case *rsa.PrivateKey:
		return pem.EncodeToMemory(&pem.Block{Type: "RSA PRIVATE KEY", Bytes: x509.MarshalPKCS1PrivateKey(k)})
	}
	panic("key type")
}

// preload stores a harness-made certificate for key k in the cache (serials from 1000 up).
func (w *world) preload(k string, serial int64, nb, na time.Time) {
	name, kt := splitKey(k)
	var key crypto.Signer = preEC
	if kt == "R" {
		key = preRSA
	}
	der := w.ca.Leaf(serial, name, key.Public(), nb, na)
	data := append(pemKey(key), pem.EncodeToMemory(&pem.Block{Type: "CERTIFICATE", Bytes: der})...)
	data = append(data, pem.EncodeToMemory(&pem.Block{Type: "CERTIFICATE", Bytes: w.ca.RootDER})...)
	w.mu.Lock()
	w.cache[k] = data
	w.ev(map[string]any{"ev": "preload", "k": k, "id": serial, "nb": w.secs(nb.Truncate(time.Second)), "na": w.secs(na.Truncate(time.Second))})
	w.mu.Unlock()
}

func hello(name, kt string) *tls.ClientHelloInfo {
	h := &tls.ClientHelloInfo{ServerName: name}
	if kt == "E" {
		h.CipherSuites = []uint16{tls.TLS_ECDHE_RSA_WITH_AES_128_GCM_SHA256, tls.TLS_ECDHE_ECDSA_WITH_AES_128_GCM_SHA256}
		h.SignatureSchemes = []tls.SignatureScheme{tls.PSSWithSHA256, tls.ECDSAWithP256AndSHA256}
		h.SupportedCurves = []tls.CurveID{tls.X25519, tls.CurveP256}
	} else {
		h.CipherSuites = []uint16{tls.TLS_ECDHE_RSA_WITH_AES_128_GCM_SHA256}
		h.SignatureSchemes = []tls.SignatureScheme{tls.PSSWithSHA256}
	}
	return h
}

type served struct {
	ID   int64
	Err  string
	cert *tls.Certificate
	leaf *x509.Certificate
}

// consistent judges a served certificate on its own: one whole certState (leaf = chain[0], key matches, name, key type).
func consistent(c *tls.Certificate, name, kt string) (leaf *x509.Certificate, bad string) {
	if c == nil || len(c.Certificate) == 0 {
		return nil, "empty-chain"
	}
	leaf, err := x509.ParseCertificate(c.Certificate[0])
	if err != nil {
		return nil, "unparsable-leaf"
	}
	if c.Leaf != nil && !c.Leaf.Equal(leaf) {
		return leaf, "leaf-differs-from-chain"
	}
	if leaf.VerifyHostname(name) != nil {
		return leaf, "wrong-name"
	}
	s, ok := c.PrivateKey.(crypto.Signer)
	type eq interface{ Equal(crypto.PublicKey) bool }
	if !ok {
		return leaf, "no-private-key"
	}
	if p, ok := s.Public().(eq); !ok || !p.Equal(leaf.PublicKey) {
		return leaf, "key-mismatch"
	}
	_, isRSA := leaf.PublicKey.(*rsa.PublicKey)
	if isRSA != (kt == "R") {
		return leaf, "key-type"
	}
	return leaf, ""
}

// get is one GetCertificate call by caller g (the calling goroutine is registered as g).
func (w *world) get(g, k string) served {
	name, kt := splitKey(k)
	w.mu.Lock()
	w.gids[goid()] = g
	w.ev(map[string]any{"ev": "call", "who": g, "k": k})
	w.mu.Unlock()
	c, err := w.m.GetCertificate(hello(name, kt))
	r := served{cert: c}
	if err != nil {
		r.Err = err.Error()
	} else {
		leaf, bad := consistent(c, name, kt)
		r.leaf = leaf
		if leaf != nil {
			r.ID = leaf.SerialNumber.Int64()
		}
		if bad != "" {
			w.mu.Lock()
			w.bad = append(w.bad, fmt.Sprintf("served-inconsistent:%s (key %s, serial %d)", bad, k, r.ID))
			w.mu.Unlock()
		}
	}
	w.mu.Lock()
	if r.leaf != nil && time.Now().After(r.leaf.NotAfter) {
		w.expired++
	}
	w.ev(map[string]any{"ev": "ret", "who": g, "k": k, "id": r.ID})
	delete(w.gids, goid())
	w.mu.Unlock()
	return r
}

// probe records VerifRenewalProbe for the given keys (call at a quiescent point).
func (w *world) probe(keys []string) {
	p := autocert.VerifRenewalProbe(w.m)
	if p == nil {
		return
	}
	for _, k := range keys {
		tm, in := p[k]
		if !in {
			tm = "absent"
		}
		w.event(map[string]any{"ev": "probe", "k": k, "inmap": in, "timer": tm})
	}
}
