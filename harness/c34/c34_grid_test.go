// The last clause of C34: the real client (ssh.NewClientConn) against the real Go server
// (ssh.NewServerConn) over a buffered in-memory connection, for the grid of client and server
// configurations TLC enumerated from SSHAuthClient's Go-server model.  For every combination
// the model says whether it is compatible (Sufficient) and predicts the result and the
// sequence of authentication attempts the server logs; a compatible combination that does not
// authenticate is a violation.
package c34

import (
	"errors"
	"fmt"
	"reflect"
	"runtime"
	"sync"
	"testing"
	"time"

	"golang.org/x/crypto/ssh"
	"verif/harness/memconn"
	"verif/harness/vutil"
)

type mStage struct {
	Pw   string   `json:"pw"`
	Kbd  string   `json:"kbd"`
	PkOn bool     `json:"pkon"`
	Pk   []string `json:"pk"`
	Next int      `json:"next"`
}

type mServer struct {
	Algs   []string `json:"algs"`
	Stages []mStage `json:"stages"`
}

type gcase struct {
	Cfg        string    `json:"cfg"`
	Auth       []mMethod `json:"auth"`
	Srv        string    `json:"srv"`
	Server     mServer   `json:"server"`
	Events     []event   `json:"events"`
	Res        string    `json:"res"`
	Sufficient bool      `json:"sufficient"`
	Necessary  bool      `json:"necessary"`
}

type logEntry struct {
	M   string `json:"m"`
	Res string `json:"res"`
}

// predictedLog derives, from the model's events, what the server's AuthLogCallback sees: one
// entry per authentication request except accepted public-key queries.
func predictedLog(evs []event) []logEntry {
	var out []logEntry
	pending := ""
	for _, e := range evs {
		switch {
		case e.Ev == "w" && (e.K == "req" || e.K == "inforesp"):
			pending = e.M
		case e.Ev == "r" && pending != "":
			switch e.T {
			case "failure":
				r := "failure"
				if e.Partial {
					r = "partial"
				}
				out = append(out, logEntry{pending, r})
				pending = ""
			case "success":
				out = append(out, logEntry{pending, "success"})
				pending = ""
			case "pkok", "inforeq":
				pending = ""
			}
		}
	}
	return out
}

func buildServer(sc mServer, hostKey ssh.Signer, log *[]logEntry, mu *sync.Mutex) *ssh.ServerConfig {
	initPool()
	checker := &ssh.CertChecker{IsUserAuthority: func(auth ssh.PublicKey) bool {
		return string(auth.Marshal()) == string(poolCA.PublicKey().Marshal())
	}}
	var callbacks func(k int) ssh.ServerAuthCallbacks
	accept := func(k int) (*ssh.Permissions, error) {
		st := sc.Stages[k-1]
		if st.Next == 0 {
			return nil, nil
		}
		return nil, &ssh.PartialSuccessError{Next: callbacks(st.Next)}
	}
	callbacks = func(k int) ssh.ServerAuthCallbacks {
		st := sc.Stages[k-1]
		var cb ssh.ServerAuthCallbacks
		if st.Pw != "" {
			cb.PasswordCallback = func(c ssh.ConnMetadata, pw []byte) (*ssh.Permissions, error) {
				if c.User() == theUser && string(pw) == st.Pw {
					return accept(k)
				}
				return nil, errors.New("wrong password")
			}
		}
		if st.Kbd != "none" {
			cb.KeyboardInteractiveCallback = func(c ssh.ConnMetadata, ch ssh.KeyboardInteractiveChallenge) (*ssh.Permissions, error) {
				ans, err := ch("name", "instruction", []string{"answer: "}, []bool{true})
				if err != nil {
					return nil, err
				}
				if st.Kbd == "accept" && len(ans) == 1 && ans[0] == "good" && c.User() == theUser {
					return accept(k)
				}
				return nil, errors.New("wrong answer")
			}
		}
		if st.PkOn {
			cb.PublicKeyCallback = func(c ssh.ConnMetadata, key ssh.PublicKey) (*ssh.Permissions, error) {
				name, ok := poolByPK[string(key.Marshal())]
				if !ok || c.User() != theUser {
					return nil, errors.New("unknown key")
				}
				accepted := false
				for _, n := range st.Pk {
					if n == name {
						accepted = true
					}
				}
				if !accepted {
					return nil, errors.New("key not authorized")
				}
				if _, isCert := key.(*ssh.Certificate); isCert {
					if _, err := checker.Authenticate(c, key); err != nil {
						return nil, err
					}
				}
				return accept(k)
			}
		}
		return cb
	}
	first := callbacks(1)
	cfg := &ssh.ServerConfig{
		MaxAuthTries:                -1,
		PublicKeyAuthAlgorithms:     sc.Algs,
		PasswordCallback:            first.PasswordCallback,
		PublicKeyCallback:           first.PublicKeyCallback,
		KeyboardInteractiveCallback: first.KeyboardInteractiveCallback,
		AuthLogCallback: func(c ssh.ConnMetadata, method string, err error) {
			r := "failure"
			var ps *ssh.PartialSuccessError
			switch {
			case err == nil:
				r = "success"
			case errors.As(err, &ps):
				r = "partial"
			}
			mu.Lock()
			*log = append(*log, logEntry{method, r})
			mu.Unlock()
		},
	}
	cfg.AddHostKey(hostKey)
	return cfg
}

type gridResult struct {
	clientErr, serverErr error
	log                  []logEntry
	hung                 bool
	panicked             string
}

func runGrid(c gcase, hostKey ssh.Signer) (res gridResult) {
	ccfg, err := buildConfig(c.Auth)
	if err != nil {
		res.panicked = err.Error()
		return
	}
	var mu sync.Mutex
	var log []logEntry
	scfg := buildServer(c.Server, hostKey, &log, &mu)
	a, b := memconn.Pair()
	type r struct {
		err error
		c   ssh.Conn
	}
	cch, sch := make(chan r, 1), make(chan r, 1)
	go func() {
		defer func() {
			if p := recover(); p != nil {
				cch <- r{err: fmt.Errorf("client panic: %v", p)}
			}
		}()
		conn, chans, reqs, err := ssh.NewClientConn(a, "10.0.0.2:22", ccfg)
		if err == nil {
			go ssh.DiscardRequests(reqs)
			go func() {
				for range chans {
				}
			}()
		}
		cch <- r{err, conn}
	}()
	go func() {
		defer func() {
			if p := recover(); p != nil {
				sch <- r{err: fmt.Errorf("server panic: %v", p)}
			}
		}()
		conn, chans, reqs, err := ssh.NewServerConn(b, scfg)
		if err == nil {
			go ssh.DiscardRequests(reqs)
			go func() {
				for range chans {
				}
			}()
		}
		var sc ssh.Conn
		if conn != nil {
			sc = conn
		}
		sch <- r{err, sc}
	}()
	timeout := time.After(120 * time.Second)
	var cr, sr r
	gotC, gotS := false, false
	for !gotC || !gotS {
		select {
		case cr = <-cch:
			gotC = true
			// The client has its verdict. Closing its end now is harmless when the server
			// has authenticated it (the server's last action was writing USERAUTH_SUCCESS)
			// and turns a server that still waits for requests into a server-side error
			// deterministically (no timing involved).
			if cr.c != nil {
				cr.c.Close()
			}
			a.Close()
		case sr = <-sch:
			gotS = true
			if sr.err != nil {
				b.Close()
			}
		case <-timeout:
			res.hung = true
			a.Close()
			b.Close()
			return
		}
	}
	if cr.c != nil {
		cr.c.Close()
	}
	if sr.c != nil {
		sr.c.Close()
	}
	a.Close()
	b.Close()
	res.clientErr, res.serverErr = cr.err, sr.err
	mu.Lock()
	res.log = append([]logEntry(nil), log...)
	mu.Unlock()
	return
}

func doGrid(t *testing.T, out *vutil.Out, cases []gcase) {
	hostKey := pool["other"].base
	for _, c := range cases {
		if _, err := buildConfig(c.Auth); err != nil {
			t.Fatalf("config %s: %v", c.Cfg, err)
		}
	}
	results := make([]gridResult, len(cases))
	var wg sync.WaitGroup
	work := make(chan int)
	for w := 0; w < runtime.GOMAXPROCS(0); w++ {
		wg.Add(1)
		go func() {
			defer wg.Done()
			for i := range work {
				results[i] = runGrid(cases[i], hostKey)
			}
		}()
	}
	for i := range cases {
		work <- i
	}
	close(work)
	wg.Wait()

	compatible, authenticated, divergent, gap := 0, 0, 0, 0
	var divs []map[string]any
	for i, c := range cases {
		r := results[i]
		key := c.Cfg + "|" + c.Srv
		if r.hung || r.panicked != "" {
			// not a verdict: the harness could not complete the run
			t.Fatalf("grid %s: hung=%v %s", key, r.hung, r.panicked)
		}
		out.Case(key)
		ok := r.clientErr == nil && r.serverErr == nil
		if ok {
			authenticated++
		}
		if c.Necessary && !c.Sufficient {
			gap++
		}
		want := predictedLog(c.Events)
		if c.Sufficient {
			compatible++
			if !ok {
				out.Violation("grid-compatible-combination-fails:"+key,
					fmt.Sprintf("client configuration %s is compatible with Go server configuration %s but does not authenticate: client error %v, server error %v",
						c.Cfg, c.Srv, r.clientErr, r.serverErr),
					map[string]any{"case": c, "server_log": r.log, "client_err": fmt.Sprint(r.clientErr), "server_err": fmt.Sprint(r.serverErr)})
				t.Errorf("grid %s: compatible but client err %v, server err %v", key, r.clientErr, r.serverErr)
				continue
			}
		}
		// informational: the model's prediction of result and of the server's attempt log
		if ok != (c.Res == "success") || (r.clientErr == nil) != (r.serverErr == nil) || !reflect.DeepEqual(r.log, want) {
			divergent++
			if len(divs) < 20 {
				divs = append(divs, map[string]any{"cfg": c.Cfg, "srv": c.Srv, "predicted": c.Res, "client_err": fmt.Sprint(r.clientErr),
					"server_err": fmt.Sprint(r.serverErr), "log": r.log, "predicted_log": want})
			}
		}
		if i%41 == 0 {
			out.Sample(map[string]any{"cfg": c.Cfg, "server": c.Srv, "compatible": c.Sufficient, "authenticated": ok, "server_log": r.log})
		}
	}
	out.Extra["grid_combinations"] = len(cases)
	out.Extra["grid_compatible"] = compatible
	out.Extra["grid_authenticated"] = authenticated
	out.Extra["grid_not_claimed_gap"] = gap
	out.Extra["grid_divergent"] = divergent
	out.Extra["grid_divergences"] = divs
}
