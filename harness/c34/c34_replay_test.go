// Binding R for C34: every behaviour TLC enumerated from SSHAuthClient (client configuration,
// server script, predicted events) is replayed on the real clientAuthenticate through the
// verif hook VerifClientAuthRun: the harness plays the scripted server and records every
// packet the client writes and reads and every entry to / exit from an AuthMethod; the
// recorded events are compared with the model's.  Real traces that differ from the
// prediction, traces the model's monitor flagged, and a seeded sample are handed back to the
// check, which has TLC judge them against SSHAuthObserver (the property) by trace validation.
package c34

import (
	"bytes"
	"encoding/json"
	"fmt"
	"reflect"
	"runtime"
	"strings"
	"sync"
	"sync/atomic"
	"testing"

	"golang.org/x/crypto/ssh"
	"verif/harness/vutil"
)

const (
	theUser    = "u"
	theService = "ssh-connection"
)

var sessionID = []byte("verif-session-id-0123456789abcdef")

type event struct {
	Ev      string   `json:"ev"`
	K       string   `json:"k"`
	M       string   `json:"m"`
	Sig     bool     `json:"sig"`
	SigOK   bool     `json:"sigok"`
	Key     string   `json:"key"`
	Fmt     string   `json:"fmt"`
	Algo    string   `json:"algo"`
	T       string   `json:"t"`
	Methods []string `json:"methods"`
	Partial bool     `json:"partial"`
	Algs    []string `json:"algs"`
	N       int      `json:"n"`
	I       int      `json:"i"`
	Inner   bool     `json:"inner"`
	Res     string   `json:"res"`
	Err     bool     `json:"err"`
}

func ev0(name string) event {
	return event{Ev: name, SigOK: true, Methods: []string{}, Algs: []string{}}
}

func (e *event) norm() {
	if e.Methods == nil {
		e.Methods = []string{}
	}
	if e.Algs == nil {
		e.Algs = []string{}
	}
}

type packet struct {
	T       string   `json:"t"`
	Methods []string `json:"methods"`
	Partial bool     `json:"partial"`
	Key     string   `json:"key"`
	Algo    string   `json:"algo"`
	Algs    []string `json:"algs"`
	N       int      `json:"n"`
}

type item struct {
	Name string   `json:"name"`
	Pkts []packet `json:"pkts"`
}

type mMethod struct {
	M       string    `json:"m"`
	Retry   int       `json:"retry"`
	Signers []mSigner `json:"signers"`
	Cred    string    `json:"cred"` // password / keyboard-interactive answer
}

type tcase struct {
	Cfg    string    `json:"cfg"`
	Auth   []mMethod `json:"auth"`
	Script []item    `json:"script"`
	Events []event   `json:"events"`
	Bad    []string  `json:"bad"`
	Res    string    `json:"res"`
}

func algsForFormat(f string) []string {
	switch f {
	case ssh.KeyAlgoRSA:
		return []string{ssh.KeyAlgoRSASHA256, ssh.KeyAlgoRSASHA512, ssh.KeyAlgoRSA}
	case ssh.CertAlgoRSAv01:
		return []string{ssh.CertAlgoRSASHA256v01, ssh.CertAlgoRSASHA512v01, ssh.CertAlgoRSAv01}
	}
	return []string{f}
}

// crossAlgo mirrors SSHAuthClient!CrossAlgo: the algorithm name of the other family (plain <->
// certificate) for the same key type.
func crossAlgo(a string) string {
	pairs := [][2]string{
		{ssh.KeyAlgoRSASHA256, ssh.CertAlgoRSASHA256v01}, {ssh.KeyAlgoRSASHA512, ssh.CertAlgoRSASHA512v01},
		{ssh.KeyAlgoRSA, ssh.CertAlgoRSAv01}, {ssh.KeyAlgoED25519, ssh.CertAlgoED25519v01},
		{ssh.KeyAlgoECDSA256, ssh.CertAlgoECDSA256v01},
	}
	for _, p := range pairs {
		if a == p[0] {
			return p[1]
		}
		if a == p[1] {
			return p[0]
		}
	}
	return "ssh-dss"
}

// vacuity guard: PK_OK replies naming the other family's algorithm that answered a query for a
// certificate key / a plain key
var crossCert, crossPlain atomic.Int64
var (
	crossMu    sync.Mutex
	crossByFmt = map[string]int{}
)

// resolve mirrors SSHAuthClient!Resolve: PK_OK templates are relative to the request answered.
func resolve(p packet, req event) packet {
	if p.T != "pkok" {
		return p
	}
	isPk := req.K == "req" && req.M == "publickey"
	if p.Key == "@same" && isPk {
		p.Key = req.Key
	} else {
		p.Key = "other"
	}
	switch {
	case !isPk:
		p.Algo = "ssh-dss"
	case p.Algo == "@same":
		p.Algo = req.Algo
	case p.Algo == "@cross":
		a := req.Algo
		if a == "" {
			a = req.Fmt
		}
		p.Algo = crossAlgo(a)
		if p.Key == req.Key && !req.Sig {
			crossMu.Lock()
			crossByFmt[req.Fmt]++
			crossMu.Unlock()
			if strings.Contains(req.Fmt, "-cert-") {
				crossCert.Add(1)
			} else {
				crossPlain.Add(1)
			}
		}
	case p.Algo == "@fmt":
		alt := req.Algo
		for _, a := range algsForFormat(req.Fmt) {
			if a != req.Algo {
				alt = a
				break
			}
		}
		p.Algo = alt
	default:
		p.Algo = "ssh-dss"
	}
	return p
}

type failureMsg struct {
	Methods []string `sshtype:"51"`
	Partial bool
}
type bannerMsg struct {
	Message  string `sshtype:"53"`
	Language string
}
type pkOkMsg struct {
	Algo   string `sshtype:"60"`
	PubKey []byte
}
type disconnectMsg struct {
	Reason   uint32 `sshtype:"1"`
	Message  string
	Language string
}
type acceptMsg struct {
	Service string `sshtype:"6"`
}

func sshString(b []byte, s string) []byte {
	n := len(s)
	b = append(b, byte(n>>24), byte(n>>16), byte(n>>8), byte(n))
	return append(b, s...)
}

func extInfo(name, value string) []byte {
	b := []byte{7, 0, 0, 0, 1}
	b = sshString(b, name)
	return sshString(b, value)
}

func encode(p packet) []byte {
	initPool()
	switch p.T {
	case "failure":
		return ssh.Marshal(&failureMsg{Methods: p.Methods, Partial: p.Partial})
	case "success":
		return []byte{52}
	case "banner":
		return ssh.Marshal(&bannerMsg{Message: "hello\n"})
	case "ext":
		if p.Key != "" {
			return extInfo("no-flow-control", "p")
		}
		return extInfo("server-sig-algs", strings.Join(p.Algs, ","))
	case "pkok":
		var blob []byte
		if k, ok := pool[p.Key]; ok {
			blob = k.pub.Marshal()
		} else {
			blob = pool["other"].pub.Marshal()
		}
		return ssh.Marshal(&pkOkMsg{Algo: p.Algo, PubKey: blob})
	case "inforeq":
		b := []byte{60}
		b = sshString(b, "name")
		b = sshString(b, "instruction")
		b = sshString(b, "")
		b = append(b, 0, 0, 0, byte(p.N))
		for i := 0; i < p.N; i++ {
			b = sshString(b, fmt.Sprintf("prompt %d: ", i))
			b = append(b, 1)
		}
		return b
	case "disconnect":
		return ssh.Marshal(&disconnectMsg{Reason: 2, Message: "scripted disconnect"})
	case "accept":
		return ssh.Marshal(&acceptMsg{Service: "ssh-userauth"})
	case "unexpected":
		return []byte{99, 0, 0, 0, 0}
	}
	panic("encode: unknown packet type " + p.T)
}

type authReq struct {
	User    string `sshtype:"50"`
	Service string
	Method  string
	Rest    []byte `ssh:"rest"`
}
type pkReq struct {
	HasSig bool
	Algo   string
	PubKey []byte
	Rest   []byte `ssh:"rest"`
}
type sigWrap struct {
	Sig []byte
}
type serviceReq struct {
	Service string `sshtype:"5"`
}

func underlying(algo string) string {
	switch algo {
	case ssh.CertAlgoRSAv01:
		return ssh.KeyAlgoRSA
	case ssh.CertAlgoRSASHA256v01:
		return ssh.KeyAlgoRSASHA256
	case ssh.CertAlgoRSASHA512v01:
		return ssh.KeyAlgoRSASHA512
	case ssh.CertAlgoED25519v01:
		return ssh.KeyAlgoED25519
	case ssh.CertAlgoECDSA256v01:
		return ssh.KeyAlgoECDSA256
	}
	return algo
}

// signedData is RFC 4252 section 7's data to be signed, built independently of the package.
func signedData(session []byte, user, service, algo string, pubKey []byte) []byte {
	var b []byte
	b = sshString(b, string(session))
	b = append(b, 50)
	b = sshString(b, user)
	b = sshString(b, service)
	b = sshString(b, "publickey")
	b = append(b, 1)
	b = sshString(b, algo)
	b = sshString(b, string(pubKey))
	return b
}

// decodeWrite turns a packet written by the client into a "w" event.
func decodeWrite(p []byte) event {
	e := ev0("w")
	if len(p) == 0 {
		e.K = "empty"
		return e
	}
	switch p[0] {
	case 5:
		var m serviceReq
		if err := ssh.Unmarshal(p, &m); err != nil || m.Service != "ssh-userauth" {
			e.K = "bad-service-request"
			return e
		}
		e.K = "service"
		return e
	case 61:
		e.K, e.M = "inforesp", "keyboard-interactive"
		return e
	case 50:
		var r authReq
		if err := ssh.Unmarshal(p, &r); err != nil {
			e.K = "malformed-request"
			return e
		}
		e.K, e.M = "req", r.Method
		if r.User != theUser || r.Service != theService {
			e.K = fmt.Sprintf("req user=%q service=%q", r.User, r.Service)
		}
		if r.Method != "publickey" {
			return e
		}
		var pk pkReq
		if err := ssh.Unmarshal(r.Rest, &pk); err != nil {
			e.K = "malformed-publickey-request"
			return e
		}
		e.Sig, e.Algo = pk.HasSig, pk.Algo
		if n, ok := poolByPK[string(pk.PubKey)]; ok {
			e.Key = n
		} else {
			e.Key = "unknown"
		}
		pub, err := ssh.ParsePublicKey(pk.PubKey)
		if err != nil {
			e.Fmt = "unparsable"
			return e
		}
		e.Fmt = pub.Type()
		if !pk.HasSig {
			if len(pk.Rest) != 0 {
				e.K = "query-with-trailing-data"
			}
			return e
		}
		// the signature must verify over the session identifier, as a server would check it
		e.SigOK = false
		var w sigWrap
		if err := ssh.Unmarshal(pk.Rest, &w); err != nil {
			return e
		}
		var sig ssh.Signature
		if err := ssh.Unmarshal(w.Sig, &sig); err != nil {
			return e
		}
		if sig.Format != underlying(pk.Algo) {
			return e
		}
		if err := pub.Verify(signedData(sessionID, r.User, r.Service, pk.Algo, pk.PubKey), &sig); err != nil {
			return e
		}
		e.SigOK = true
		return e
	}
	e.K = fmt.Sprintf("type-%d", p[0])
	return e
}

func buildConfig(auth []mMethod) (*ssh.ClientConfig, error) {
	cfg := &ssh.ClientConfig{User: theUser, HostKeyCallback: ssh.InsecureIgnoreHostKey()}
	for _, m := range auth {
		var a ssh.AuthMethod
		switch m.M {
		case "password":
			a = ssh.Password(m.Cred)
		case "keyboard-interactive":
			a = ssh.KeyboardInteractive(func(name, instruction string, questions []string, echos []bool) ([]string, error) {
				ans := make([]string, len(questions))
				for i := range ans {
					ans[i] = m.Cred
				}
				return ans, nil
			})
		case "publickey":
			var ss []ssh.Signer
			for _, s := range m.Signers {
				r, err := buildSigner(s)
				if err != nil {
					return nil, err
				}
				ss = append(ss, r)
			}
			a = ssh.PublicKeys(ss...)
		default:
			return nil, fmt.Errorf("method %q", m.M)
		}
		if m.Retry >= 0 {
			a = ssh.RetryableAuthMethod(a, m.Retry)
		}
		cfg.Auth = append(cfg.Auth, a)
	}
	return cfg, nil
}

func classify(err error) string {
	switch {
	case err == nil:
		return "success"
	case ssh.VerifClientAuthIsDisconnect(err):
		return "disconnect"
	case strings.Contains(err.Error(), "too many authentication attempts"):
		return "toomany"
	case strings.Contains(err.Error(), "no supported methods remain"):
		return "nomethods"
	}
	return "error"
}

// runScript runs the real clientAuthenticate against the scripted server and returns the
// recorded events.
func runScript(auth []mMethod, script []item) ([]event, error) {
	cfg, err := buildConfig(auth)
	if err != nil {
		return nil, err
	}
	var evs []event
	var queued []packet
	next := 0
	s := &ssh.VerifClientAuthScript{SessionID: sessionID}
	s.OnWrite = func(p []byte) [][]byte {
		e := decodeWrite(p)
		evs = append(evs, e)
		if next >= len(script) {
			return nil
		}
		it := script[next]
		next++
		var out [][]byte
		for _, t := range it.Pkts {
			r := resolve(t, e)
			queued = append(queued, r)
			out = append(out, encode(r))
		}
		return out
	}
	s.OnRead = func(p []byte) {
		e := ev0("r")
		if p == nil {
			e.T = "eof"
		} else {
			r := queued[0]
			queued = queued[1:]
			if !bytes.Equal(encode(r), p) {
				panic("harness: read order differs from queue order")
			}
			e.T, e.Methods, e.Partial, e.Key, e.Algo, e.Algs, e.N = r.T, r.Methods, r.Partial, r.Key, r.Algo, r.Algs, r.N
			e.norm()
		}
		evs = append(evs, e)
	}
	s.OnAttempt = func(begin bool, index int, inner bool, method, result string, hasErr bool, methods []string) {
		e := ev0("end")
		if begin {
			e.Ev = "begin"
		}
		e.I, e.Inner, e.M, e.Res, e.Err = index+1, inner, method, result, hasErr
		evs = append(evs, e)
	}
	rerr := ssh.VerifClientAuthRun(cfg, s)
	d := ev0("done")
	d.Res = classify(rerr)
	evs = append(evs, d)
	return evs, nil
}

func firstDiff(a, b []event) int {
	for i := 0; i < len(a) && i < len(b); i++ {
		if !reflect.DeepEqual(a[i], b[i]) {
			return i
		}
	}
	if len(a) != len(b) {
		if len(a) < len(b) {
			return len(a)
		}
		return len(b)
	}
	return -1
}

type traceOut struct {
	Case   int       `json:"case"`
	Cfg    string    `json:"cfg"`
	Why    string    `json:"why"` // divergent | flagged | sample
	Auth   []mMethod `json:"auth"`
	Script []string  `json:"script"`
	Items  []item    `json:"items"`
	Real   []event   `json:"real"`
	DiffAt int       `json:"diff_at"`
	Want   *event    `json:"want,omitempty"`
	Got    *event    `json:"got,omitempty"`
	Bad    []string  `json:"bad"`
}

// readCases splits the ndjson case file into scripted-server cases and grid cases.
func readCases(t *testing.T) (sc []tcase, gc []gcase) {
	err := vutil.ReadNDJSON(vutil.Env("VERIF_CASES", ""), func(line []byte) error {
		var probe struct {
			Srv *string `json:"srv"`
		}
		if err := json.Unmarshal(line, &probe); err != nil {
			return err
		}
		if probe.Srv != nil {
			var c gcase
			if err := json.Unmarshal(line, &c); err != nil {
				return err
			}
			for i := range c.Events {
				if c.Events[i].Ev != "w" {
					c.Events[i].SigOK = true
				}
				c.Events[i].norm()
			}
			gc = append(gc, c)
			return nil
		}
		var c tcase
		if err := json.Unmarshal(line, &c); err != nil {
			return err
		}
		for i := range c.Events {
			// the generator prints only the fields relevant to the kind of event
			if c.Events[i].Ev != "w" {
				c.Events[i].SigOK = true
			}
			c.Events[i].norm()
		}
		sc = append(sc, c)
		return nil
	})
	if err != nil {
		t.Fatal(err)
	}
	return
}

// TestC34 runs both parts (scripted replay and grid) on one case file.
func TestC34(t *testing.T) {
	out := vutil.NewOut()
	defer func() {
		if err := out.Write(); err != nil {
			t.Fatal(err)
		}
	}()
	initPool()
	sc, gc := readCases(t)
	if len(sc) > 0 {
		doReplay(t, out, sc)
	}
	if len(gc) > 0 {
		doGrid(t, out, gc)
	}
}

func doReplay(t *testing.T, out *vutil.Out, cases []tcase) {
	// build all signers once (sequentially: RSA key generation and caches)
	for _, c := range cases {
		if _, err := buildConfig(c.Auth); err != nil {
			t.Fatalf("config %s: %v", c.Cfg, err)
		}
	}
	type result struct {
		real []event
		err  error
	}
	results := make([]result, len(cases))
	var wg sync.WaitGroup
	work := make(chan int)
	for w := 0; w < runtime.GOMAXPROCS(0); w++ {
		wg.Add(1)
		go func() {
			defer wg.Done()
			for i := range work {
				func() {
					defer func() {
						if r := recover(); r != nil {
							results[i].err = fmt.Errorf("panic: %v", r)
						}
					}()
					results[i].real, results[i].err = runScript(cases[i].Auth, cases[i].Script)
				}()
			}
		}()
	}
	for i := range cases {
		work <- i
	}
	close(work)
	wg.Wait()

	rnd := vutil.Rand(34)
	sampleN := 150
	if vutil.Thorough() {
		sampleN = 1500
	}
	var traces []traceOut
	divergent, flagged, matched := 0, 0, 0
	flaggedSeen := map[string]int{}
	sampleP := 1.0
	if len(cases) > sampleN {
		sampleP = float64(sampleN) / float64(len(cases))
	}
	for i, c := range cases {
		r := results[i]
		names := make([]string, len(c.Script))
		for j, it := range c.Script {
			names[j] = it.Name
		}
		key := c.Cfg + "|" + strings.Join(names, ";")
		out.Case(key)
		if r.err != nil {
			out.Violation("client-auth-panic", "the real clientAuthenticate (or the harness around it) panicked: "+r.err.Error(),
				map[string]any{"cfg": c.Cfg, "script": names})
			t.Errorf("case %d: %v", i, r.err)
			continue
		}
		to := traceOut{Case: i, Cfg: c.Cfg, Auth: c.Auth, Script: names, Items: c.Script, Real: r.real, DiffAt: -1, Bad: c.Bad}
		d := firstDiff(r.real, c.Events)
		switch {
		case d >= 0:
			divergent++
			to.Why, to.DiffAt = "divergent", d
			if d < len(c.Events) {
				to.Want = &c.Events[d]
			}
			if d < len(r.real) {
				to.Got = &r.real[d]
			}
			if divergent <= 5000 {
				traces = append(traces, to)
			}
		case len(c.Bad) > 0:
			// the real run equals a model behaviour that the model's monitor flagged
			matched++
			flagged++
			k := c.Cfg + fmt.Sprint(c.Bad)
			flaggedSeen[k]++
			if flaggedSeen[k] <= 2 {
				to.Why = "flagged"
				traces = append(traces, to)
			}
		default:
			matched++
			if rnd.Float64() < sampleP {
				to.Why = "sample"
				traces = append(traces, to)
			}
		}
		if i%97 == 0 {
			out.Sample(map[string]any{"cfg": c.Cfg, "script": names, "result": c.Res, "events": len(c.Events)})
		}
	}
	out.Extra["cross_family_pkok_cert_key"] = int(crossCert.Load())
	out.Extra["cross_family_pkok_plain_key"] = int(crossPlain.Load())
	crossMu.Lock()
	for _, f := range []string{ssh.KeyAlgoED25519, ssh.CertAlgoED25519v01, ssh.KeyAlgoRSA, ssh.CertAlgoRSAv01} {
		out.Extra["cross_family_pkok:"+f] = crossByFmt[f]
	}
	crossMu.Unlock()
	out.Extra["matched"] = matched
	out.Extra["divergent"] = divergent
	out.Extra["flagged_by_model_monitor"] = flagged
	out.Extra["traces"] = traces
}
