// Key pool and signer construction shared by the C34 harness tests.
package c34

import (
	"crypto/ecdsa"
	"crypto/ed25519"
	"crypto/elliptic"
	"crypto/rand"
	"crypto/rsa"
	"fmt"
	"io"
	"reflect"
	"sync"
	"time"

	"golang.org/x/crypto/ssh"
)

// Abstract signer as the model describes it.
type mSigner struct {
	Key  string   `json:"key"`
	Fmt  string   `json:"fmt"`
	Algs []string `json:"algs"`
	Kind string   `json:"kind"` // multi | alg | plain | compat (model-internal)
}

type poolKey struct {
	name string
	base ssh.Signer       // signer for the private key
	cert *ssh.Certificate // non-nil for certificate keys
	pub  ssh.PublicKey    // what the client presents (key or certificate)
}

var (
	poolOnce sync.Once
	pool     map[string]*poolKey
	poolByPK map[string]string // marshaled public key -> name
	poolCA   ssh.Signer
)

func mustSigner(k any) ssh.Signer {
	s, err := ssh.NewSignerFromKey(k)
	if err != nil {
		panic(err)
	}
	return s
}

func mkCert(ca ssh.Signer, key ssh.PublicKey, principal string) *ssh.Certificate {
	c := &ssh.Certificate{
		Key: key, Serial: 1, CertType: ssh.UserCert, KeyId: "verif", ValidPrincipals: []string{principal},
		ValidAfter: 0, ValidBefore: ssh.CertTimeInfinity,
	}
	_ = time.Now
	if err := c.SignCert(rand.Reader, ca); err != nil {
		panic(err)
	}
	return c
}

func initPool() {
	poolOnce.Do(func() {
		pool = map[string]*poolKey{}
		poolByPK = map[string]string{}
		_, caPriv, _ := ed25519.GenerateKey(rand.Reader)
		poolCA = mustSigner(caPriv)
		add := func(name string, base ssh.Signer, cert *ssh.Certificate) {
			pk := &poolKey{name: name, base: base, cert: cert, pub: base.PublicKey()}
			if cert != nil {
				pk.pub = cert
			}
			pool[name] = pk
			poolByPK[string(pk.pub.Marshal())] = name
		}
		for _, n := range []string{"ed1", "ed2", "other"} {
			_, p, _ := ed25519.GenerateKey(rand.Reader)
			add(n, mustSigner(p), nil)
		}
		for _, n := range []string{"rsa1", "rsa2"} {
			p, err := rsa.GenerateKey(rand.Reader, 2048)
			if err != nil {
				panic(err)
			}
			add(n, mustSigner(p), nil)
		}
		for n, curve := range map[string]elliptic.Curve{"ec256": elliptic.P256(), "ec384": elliptic.P384(), "ec521": elliptic.P521()} {
			p, err := ecdsa.GenerateKey(curve, rand.Reader)
			if err != nil {
				panic(err)
			}
			add(n, mustSigner(p), nil)
		}
		add("eccert1", pool["ec256"].base, mkCert(poolCA, pool["ec256"].base.PublicKey(), "u"))
		add("rsacert1", pool["rsa1"].base, mkCert(poolCA, pool["rsa1"].base.PublicKey(), "u"))
		add("rsacert2", pool["rsa2"].base, mkCert(poolCA, pool["rsa2"].base.PublicKey(), "u"))
		add("edcert1", pool["ed1"].base, mkCert(poolCA, pool["ed1"].base.PublicKey(), "u"))
	})
}

// plainSigner hides everything but ssh.Signer.
type plainSigner struct{ s ssh.Signer }

func (p plainSigner) PublicKey() ssh.PublicKey { return p.s.PublicKey() }
func (p plainSigner) Sign(r io.Reader, data []byte) (*ssh.Signature, error) {
	return p.s.Sign(r, data)
}

// algSigner is an ssh.AlgorithmSigner that is not a MultiAlgorithmSigner.
type algSigner struct{ s ssh.AlgorithmSigner }

func (a algSigner) PublicKey() ssh.PublicKey { return a.s.PublicKey() }
func (a algSigner) Sign(r io.Reader, data []byte) (*ssh.Signature, error) {
	return a.s.Sign(r, data)
}
func (a algSigner) SignWithAlgorithm(r io.Reader, data []byte, algo string) (*ssh.Signature, error) {
	return a.s.SignWithAlgorithm(r, data, algo)
}

func defaultAlgs(keyType string) []string {
	if keyType == ssh.KeyAlgoRSA {
		return []string{ssh.KeyAlgoRSASHA256, ssh.KeyAlgoRSASHA512, ssh.KeyAlgoRSA}
	}
	return []string{keyType}
}

var (
	signerMu    sync.Mutex
	signerCache = map[string]ssh.Signer{}
)

// buildSigner makes the real ssh.Signer the model's signer record stands for.
func buildSigner(m mSigner) (ssh.Signer, error) {
	initPool()
	ck := fmt.Sprint(m.Key, m.Algs, m.Kind)
	signerMu.Lock()
	defer signerMu.Unlock()
	if s, ok := signerCache[ck]; ok {
		return s, nil
	}
	pk, ok := pool[m.Key]
	if !ok {
		return nil, fmt.Errorf("no pool key %q", m.Key)
	}
	if pk.pub.Type() != m.Fmt {
		return nil, fmt.Errorf("pool key %q has format %q, model says %q", m.Key, pk.pub.Type(), m.Fmt)
	}
	under := pk.base.PublicKey().Type()
	var s ssh.Signer
	switch m.Kind {
	case "multi":
		if reflect.DeepEqual(m.Algs, defaultAlgs(under)) {
			s = pk.base
		} else {
			r, err := ssh.NewSignerWithAlgorithms(pk.base.(ssh.AlgorithmSigner), m.Algs)
			if err != nil {
				return nil, err
			}
			s = r
		}
	case "alg":
		if !reflect.DeepEqual(m.Algs, defaultAlgs(under)) {
			return nil, fmt.Errorf("kind alg implies algorithms %v", defaultAlgs(under))
		}
		s = algSigner{pk.base.(ssh.AlgorithmSigner)}
	case "plain":
		if !reflect.DeepEqual(m.Algs, []string{under}) {
			return nil, fmt.Errorf("kind plain implies algorithms [%s]", under)
		}
		s = plainSigner{pk.base}
	default:
		return nil, fmt.Errorf("signer kind %q", m.Kind)
	}
	if pk.cert != nil {
		cs, err := ssh.NewCertSigner(pk.cert, s)
		if err != nil {
			return nil, err
		}
		s = cs
	}
	// the real signer must advertise what the model assumes
	if ms, ok := s.(ssh.MultiAlgorithmSigner); ok {
		if !reflect.DeepEqual(ms.Algorithms(), m.Algs) {
			return nil, fmt.Errorf("signer %v advertises %v", m, ms.Algorithms())
		}
	} else if m.Kind == "multi" {
		return nil, fmt.Errorf("signer %v is not a MultiAlgorithmSigner", m)
	}
	signerCache[ck] = s
	return s, nil
}
