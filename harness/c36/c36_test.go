// Binding R for C36 (connection-protocol robustness and reply matching).
//
// Every history TLC generated from spec/SSHMux.tla (peer packets interleaved with local calls,
// with the model's per-step prediction) is replayed on one REAL mux (hook ssh.VerifMuxNew =
// newMux unchanged) whose peer is this harness writing raw packets into the in-memory
// packetConn.  Each history runs in its own testing/synctest bubble: after every injected
// event synctest.Wait() returns only when every goroutine is durably blocked, so the packets
// the mux wrote back, the calls that returned and the loop's liveness are read at a
// deterministic quiescent point and compared with the prediction.  At the end the peer closes
// the connection and the closure state is compared.  Panics inside mux goroutines would kill the
// test process, so the replay runs in a child process (the same test binary); the parent turns a
// crash into a violation for the history that was running and restarts the child after it.
package c36

import (
	"bufio"
	"bytes"
	"encoding/binary"
	"encoding/json"
	"errors"
	"fmt"
	"os"
	"os/exec"
	"reflect"
	"regexp"
	"runtime"
	"sort"
	"strconv"
	"strings"
	"sync"
	"testing"
	"testing/synctest"

	"golang.org/x/crypto/ssh"
	"verif/harness/c35conn"
	"verif/harness/vutil"
)

type evT struct {
	K  string `json:"k"`
	ID int    `json:"id"`
	V  string `json:"v"`
	X  int    `json:"x"`
}

// evJ is an event as TLC prints it: a burst carries the packets queued on the transport together.
type evJ struct {
	evT
	B []evT `json:"b"`
}

type pktT struct {
	T string `json:"t"`
	A int64  `json:"a"`
	B int64  `json:"b"`
}

type stepT struct {
	Ev   evJ               `json:"ev"`
	Out  []pktT            `json:"out"`
	Done []json.RawMessage `json:"done"`
	Dead bool              `json:"dead"`
}

type objFinal struct {
	Held   bool   `json:"held"`
	Inq    bool   `json:"inq"`
	Closed bool   `json:"closed"`
	Dir    string `json:"dir"`
	Lost   bool   `json:"lost"`
}

type caseT struct {
	Cfg   string  `json:"cfg"`
	Steps []stepT `json:"steps"`
	Final struct {
		Objs    []objFinal `json:"objs"`
		Pending []int      `json:"pending"`
	} `json:"final"`
	Stale bool `json:"stale"`
}

func str(s string) []byte { return append(u32(uint32(len(s))), s...) }

func cat(parts ...[]byte) []byte {
	var b []byte
	for _, p := range parts {
		b = append(b, p...)
	}
	return b
}

// packet builds the raw packet of a peer event.
func packet(e evT) []byte {
	id := u32(uint32(e.ID))
	switch e.K {
	case "open":
		switch e.V {
		case "ok":
			return openPkt(uint32(e.X), 1000, 1000)
		case "badmax":
			return openPkt(uint32(e.X), 1000, 5)
		default:
			return []byte{90, 0, 0, 0}
		}
	case "confirm":
		mp := uint32(1000)
		if e.V == "badmax" {
			mp = 5
		}
		return cat([]byte{91}, id, u32(uint32(e.X)), u32(1000), u32(mp))
	case "fail":
		return cat([]byte{92}, id, u32(1), str(""), str(""))
	case "data":
		switch e.V {
		case "ok":
			return cat([]byte{94}, id, u32(3), []byte("abc"))
		case "zero":
			return cat([]byte{94}, id, u32(0))
		case "ext1":
			return cat([]byte{95}, id, u32(1), u32(3), []byte("abc"))
		case "ext2":
			return cat([]byte{95}, id, u32(2), u32(3), []byte("abc"))
		case "big":
			return cat([]byte{94}, id, u32(40000), []byte("abc"))
		case "mismatch":
			return cat([]byte{94}, id, u32(5), []byte("abc"))
		default:
			return cat([]byte{94}, id, []byte{0, 0})
		}
	case "eof":
		return cat([]byte{96}, id)
	case "close":
		return cat([]byte{97}, id)
	case "adj":
		switch e.V {
		case "s":
			return cat([]byte{93}, id, u32(10))
		case "max":
			return cat([]byte{93}, id, u32(0xffffffff))
		case "zero":
			return cat([]byte{93}, id, u32(0))
		default:
			return cat([]byte{93}, id, []byte{0, 0})
		}
	case "creq":
		switch e.V {
		case "wr":
			return cat([]byte{98}, id, str("x"), []byte{1})
		case "nowr":
			return cat([]byte{98}, id, str("x"), []byte{0})
		default:
			return cat([]byte{98}, id, []byte{0, 0, 0})
		}
	case "csucc":
		return cat([]byte{99}, id)
	case "cfail":
		return cat([]byte{100}, id)
	case "greq":
		if e.V == "wr" {
			return cat([]byte{80}, str("x"), []byte{1})
		}
		return cat([]byte{80}, str("x"), []byte{0})
	case "gsucc":
		return []byte{81}
	case "gfail":
		return []byte{82}
	case "ping":
		if e.V == "ok" {
			return cat([]byte{192}, str("p"))
		}
		return []byte{192, 0, 0}
	case "unknown":
		return cat([]byte{200}, id)
	case "tiny":
		return []byte{97}
	}
	panic("c36: unknown peer event " + e.K)
}

func skipString(p []byte) []byte {
	if len(p) < 4 {
		return nil
	}
	n := binary.BigEndian.Uint32(p)
	if uint32(len(p)-4) < n {
		return nil
	}
	return p[4+n:]
}

func be(p []byte, off int) int64 {
	if len(p) < off+4 {
		return -1
	}
	return int64(binary.BigEndian.Uint32(p[off:]))
}

// decodeOut maps a packet the mux wrote to the model's vocabulary.
func decodeOut(p []byte) pktT {
	switch p[0] {
	case 92:
		return pktT{"openfail", be(p, 1), 0}
	case 100:
		return pktT{"chanfail", be(p, 1), 0}
	case 99:
		return pktT{"chansucc", be(p, 1), 0}
	case 97:
		return pktT{"close", be(p, 1), 0}
	case 96:
		return pktT{"eof", be(p, 1), 0}
	case 193:
		return pktT{"pong", 0, 0}
	case 82:
		return pktT{"gfail", 0, 0}
	case 81:
		return pktT{"gsucc", 0, 0}
	case 90:
		r := skipString(p[1:])
		return pktT{"open", be(r, 0), 0}
	case 91:
		return pktT{"confirm", be(p, 1), be(p, 5)}
	case 80:
		r := skipString(p[1:])
		if len(r) < 1 {
			return pktT{"greq", 0, -1}
		}
		return pktT{"greq", 0, int64(r[0])}
	case 98:
		r := skipString(p[5:])
		if len(r) < 1 {
			return pktT{"creq", be(p, 1), -1}
		}
		return pktT{"creq", be(p, 1), int64(r[0])}
	case 93:
		return pktT{"adjust", be(p, 1), be(p, 5)}
	}
	return pktT{fmt.Sprintf("type%d", p[0]), 0, 0}
}

// ---------------------------------------------------------------- one replay

type objT struct {
	nc   ssh.NewChannel
	ch   ssh.Channel
	held bool
}

type world struct {
	mu                  sync.Mutex
	pair                *c35conn.Pair
	m                   *ssh.VerifMux
	peer                *c35conn.End
	objs                []*objT
	incoming            []ssh.NewChannel
	done                map[int]string // completions since the last step
	completed           map[int]bool
	ncalls              int
	dead                bool
	werr                error
	stop                chan struct{}
	inClosed, reqClosed bool
	drains              int // request-drain goroutines still running
	burstSeen           bool
}

func newWorld() *world {
	w := &world{done: map[int]string{}, completed: map[int]bool{}, stop: make(chan struct{})}
	w.pair = c35conn.NewPair(nil)
	w.m = ssh.VerifMuxNew(w.pair.Ends[0])
	w.peer = w.pair.Ends[1]
	go func() {
		err := w.m.Wait()
		w.mu.Lock()
		w.dead, w.werr = true, err
		w.mu.Unlock()
	}()
	go func() {
		in := w.m.IncomingChannels()
		for {
			select {
			case nc, ok := <-in:
				if !ok {
					w.mu.Lock()
					w.inClosed = true
					w.mu.Unlock()
					return
				}
				w.mu.Lock()
				w.incoming = append(w.incoming, nc)
				w.mu.Unlock()
			case <-w.stop:
				return
			}
		}
	}()
	go func() {
		rq := w.m.IncomingRequests()
		for {
			select {
			case r, ok := <-rq:
				if !ok {
					w.mu.Lock()
					w.reqClosed = true
					w.mu.Unlock()
					return
				}
				if r.WantReply {
					r.Reply(false, nil)
				}
			case <-w.stop:
				return
			}
		}
	}()
	return w
}

func (w *world) drain(reqs <-chan *ssh.Request) {
	w.mu.Lock()
	w.drains++
	w.mu.Unlock()
	go func() {
		defer func() { w.mu.Lock(); w.drains--; w.mu.Unlock() }()
		for {
			select {
			case r, ok := <-reqs:
				if !ok {
					return
				}
				if r.WantReply {
					r.Reply(false, nil)
				}
			case <-w.stop:
				return
			}
		}
	}()
}

func (w *world) finish(call int, res string) {
	w.mu.Lock()
	w.done[call] = res
	w.completed[call] = true
	w.mu.Unlock()
}

// burstStats counts, for the vacuity guard, the bursts with two responses to one open that were
// replayed, and how many of them the read loop finished before any OpenChannel caller returned.
var burstStats struct{ dup, adversarial, exited int }

// completedLocked must not take w.mu when the caller may hold it; it is only called from the
// conn's read hook (mux loop goroutine), which never holds w.mu.
func (w *world) completedLocked() int {
	w.mu.Lock()
	defer w.mu.Unlock()
	return len(w.completed)
}

func reqRes(ok bool, err error, wr bool) string {
	switch {
	case err != nil:
		return "err"
	case !wr:
		return "ok"
	case ok:
		return "true"
	}
	return "false"
}

// start launches a local call in its own goroutine.
func (w *world) start(e evT) error {
	w.ncalls++
	call := w.ncalls
	switch e.K {
	case "opench":
		o := &objT{}
		w.objs = append(w.objs, o)
		go func() {
			ch, reqs, err := w.m.OpenChannel("verif", nil)
			var oce *ssh.OpenChannelError
			switch {
			case err == nil:
				w.mu.Lock()
				o.ch, o.held = ch, true
				w.mu.Unlock()
				w.drain(reqs)
				w.finish(call, "opened")
			case errors.As(err, &oce):
				w.finish(call, "rejected")
			default:
				w.finish(call, "err")
			}
		}()
	case "lgreq", "lgreqh":
		wr := e.V == "wr"
		if e.K == "lgreqh" {
			w.pair.SetHold(0, 80) // the transport holds the global request's writePacket
		}
		go func() {
			ok, _, err := w.m.SendRequest("x", wr, nil)
			w.finish(call, reqRes(ok, err, wr))
		}()
	case "lcreq", "lcreqh", "closech":
		if e.ID < 1 || e.ID > len(w.objs) || w.objs[e.ID-1].ch == nil {
			return fmt.Errorf("event %v: the application does not hold channel object %d", e, e.ID)
		}
		ch := w.objs[e.ID-1].ch
		wr := e.V == "wr"
		if e.K == "closech" {
			go func() {
				if err := ch.Close(); err != nil {
					w.finish(call, "err")
				} else {
					w.finish(call, "ok")
				}
			}()
		} else {
			if e.K == "lcreqh" {
				w.pair.SetHold(0, 98) // the transport holds the channel request's writePacket
			}
			go func() {
				ok, err := ch.SendRequest("x", wr, nil)
				w.finish(call, reqRes(ok, err, wr))
			}()
		}
	case "accept", "reject":
		if e.ID < 1 || e.ID > len(w.objs) || w.objs[e.ID-1].nc == nil {
			return fmt.Errorf("event %v: no NewChannel was delivered for object %d", e, e.ID)
		}
		o := w.objs[e.ID-1]
		if e.K == "accept" {
			go func() {
				ch, reqs, err := o.nc.Accept()
				if err != nil {
					w.finish(call, "err")
					return
				}
				w.mu.Lock()
				o.ch, o.held = ch, true
				w.mu.Unlock()
				w.drain(reqs)
				w.finish(call, "ok")
			}()
		} else {
			go func() {
				if err := o.nc.Reject(ssh.Prohibited, "no"); err != nil {
					w.finish(call, "err")
				} else {
					w.finish(call, "ok")
				}
			}()
		}
	default:
		return fmt.Errorf("unknown local event %v", e)
	}
	return nil
}

type obsT struct {
	Out  []pktT
	Done map[int]string
	Dead bool
}

// step executes one event, waits for quiescence and returns what happened.
func (w *world) step(e evT, burst []evT) (obsT, error) {
	var o obsT
	switch e.K {
	case "opench", "lgreq", "lcreq", "lgreqh", "lcreqh", "accept", "reject", "closech":
		if err := w.start(e); err != nil {
			return o, err
		}
		if e.K == "lgreqh" || e.K == "lcreqh" {
			synctest.Wait()
			if w.pair.Holding() == 0 {
				w.pair.Release() // the request never reached the transport (closed channel / dead mux)
			}
		}
	case "release":
		if w.pair.Holding() != 1 {
			return o, fmt.Errorf("release: %d writes are held by the transport, the model says 1", w.pair.Holding())
		}
		w.pair.Release()
	case "peereof":
		w.peer.Close()
	case "burst":
		// all packets are on the transport before the read loop is woken: it handles them back to back
		var pk [][]byte
		resp := map[int]int{}
		for _, b := range burst {
			pk = append(pk, packet(b))
			if b.K == "confirm" || b.K == "fail" {
				resp[b.ID]++
			}
		}
		dupBurst := false
		for _, n := range resp {
			if n >= 2 {
				dupBurst = true
			}
		}
		w.mu.Lock()
		before := len(w.completed)
		w.mu.Unlock()
		reads := 0
		w.pair.Locked(func() {
			w.pair.ReadHook = func(ep int, closing bool) {
				if ep != 0 {
					return
				}
				reads++
				if reads == len(pk)+1 || closing { // the loop has handled the whole burst (or exits inside it)
					if dupBurst && !w.burstSeen {
						w.burstSeen = true
						// was every OpenChannel caller still un-returned when the loop finished the burst?
						if w.completedLocked() == before {
							burstStats.adversarial++
						}
						burstStats.dup++
					}
				}
			}
		})
		w.burstSeen = false
		w.peer.WritePackets(pk)
		synctest.Wait()
		if dupBurst && !w.burstSeen { // the loop had exited before the burst: nothing was read
			burstStats.exited++
		}
		w.pair.Locked(func() { w.pair.ReadHook = nil })
		goto settled
	default:
		w.peer.WritePacket(packet(e)) // fails silently once the mux has closed the connection
	}
	synctest.Wait()
settled:
	for {
		p, ok := w.peer.TryRead()
		if !ok {
			break
		}
		o.Out = append(o.Out, decodeOut(p))
	}
	w.mu.Lock()
	o.Done = w.done
	w.done = map[int]string{}
	o.Dead = w.dead
	newIn := w.incoming
	w.incoming = nil
	w.mu.Unlock()
	if e.K == "open" && e.V == "ok" {
		ob := &objT{}
		if len(newIn) == 1 {
			ob.nc = newIn[0]
		} else if len(newIn) > 1 {
			return o, fmt.Errorf("%d NewChannels delivered for one channel open", len(newIn))
		}
		w.objs = append(w.objs, ob)
	} else if len(newIn) > 0 {
		return o, fmt.Errorf("%d NewChannels delivered by event %v", len(newIn), e)
	}
	return o, nil
}

var preambles = map[string][]evT{
	"empty":  {},
	"in":     {{"open", 0, "ok", 101}, {"accept", 1, "", 0}},
	"out":    {{"opench", 0, "", 0}, {"confirm", 0, "ok", 201}},
	"both":   {{"open", 0, "ok", 101}, {"accept", 1, "", 0}, {"opench", 0, "", 0}, {"confirm", 1, "ok", 202}},
	"reopen": {{"open", 0, "ok", 101}, {"close", 0, "", 0}, {"open", 0, "ok", 102}},
}

func wantDone(raw []json.RawMessage) (map[int]string, error) {
	m := map[int]string{}
	for _, r := range raw {
		var pair []any
		if err := json.Unmarshal(r, &pair); err != nil || len(pair) != 2 {
			return nil, fmt.Errorf("bad done entry %s", r)
		}
		m[int(pair[0].(float64))] = pair[1].(string)
	}
	return m, nil
}

type mismatch struct {
	Step   int    `json:"step"`
	What   string `json:"what"`
	Got    any    `json:"got"`
	Want   any    `json:"want"`
	Events []evT  `json:"events"`
}

// cleanup releases every goroutine the replay started.
func (w *world) cleanup() {
	close(w.stop)
	w.pair.Release()
	w.peer.Close()
	w.m.Close()
	for _, o := range w.objs {
		if o.ch != nil {
			ssh.VerifChanForceClose(o.ch)
		}
		if o.nc != nil {
			ssh.VerifChanForceClose(o.nc)
		}
	}
	synctest.Wait()
}

// replayIn runs one history in its own bubble; it returns nil or the first difference between the
// real mux and the model.
func replayIn(t *testing.T, c *caseT) (mm *mismatch) {
	synctest.Test(t, func(t *testing.T) {
		w := newWorld()
		defer w.cleanup()
		var evs []evT
		for _, e := range preambles[c.Cfg] {
			evs = append(evs, e)
			if _, err := w.step(e, nil); err != nil {
				mm = &mismatch{Step: -1, What: "preamble: " + err.Error(), Events: evs}
				return
			}
		}
		for i, st := range c.Steps {
			evs = append(evs, st.Ev.evT)
			evs = append(evs, st.Ev.B...)
			got, err := w.step(st.Ev.evT, st.Ev.B)
			if err != nil {
				mm = &mismatch{Step: i, What: err.Error(), Events: evs}
				return
			}
			want, err := wantDone(st.Done)
			if err != nil {
				panic(err)
			}
			if len(got.Out) != len(st.Out) || (len(got.Out) > 0 && !reflect.DeepEqual(got.Out, st.Out)) {
				mm = &mismatch{Step: i, What: "packets written by the mux", Got: got.Out, Want: st.Out, Events: evs}
				return
			}
			if len(got.Done) != len(want) || (len(want) > 0 && !reflect.DeepEqual(got.Done, want)) {
				mm = &mismatch{Step: i, What: "calls that returned (call -> result class)", Got: got.Done, Want: want, Events: evs}
				return
			}
			if got.Dead != st.Dead {
				mm = &mismatch{Step: i, What: "mux loop exited", Got: got.Dead, Want: st.Dead, Events: evs}
				return
			}
		}
		// the connection ends (a write still held by the transport returns first)
		w.pair.Release()
		synctest.Wait()
		w.peer.Close()
		synctest.Wait()
		w.mu.Lock()
		dead, inC, reqC := w.dead, w.inClosed, w.reqClosed
		w.mu.Unlock()
		if !dead || !inC || !reqC {
			mm = &mismatch{Step: len(c.Steps), What: "after the connection ended: loop exited / incomingChannels closed / incomingRequests closed",
				Got: []bool{dead, inC, reqC}, Want: []bool{true, true, true}, Events: evs}
			return
		}
		w.mu.Lock()
		nd := w.drains
		w.mu.Unlock()
		for i, of := range c.Final.Objs {
			if i >= len(w.objs) || !of.Held {
				continue
			}
			o := w.objs[i]
			if o.ch == nil {
				mm = &mismatch{Step: len(c.Steps), What: fmt.Sprintf("model says the application holds channel object %d", i+1), Events: evs}
				return
			}
			b, sc, wc, _ := ssh.VerifChanClosure(o.ch)
			closed := b && sc && wc
			if closed != of.Closed {
				mm = &mismatch{Step: len(c.Steps), What: fmt.Sprintf("after the connection ended: channel object %d closed (buffers at EOF, writes refused, window closed)", i+1),
					Got: []bool{b, sc, wc}, Want: of.Closed, Events: evs}
				return
			}
		}
		if nd != 0 && len(c.Final.Pending) == 0 && !anyLost(c) {
			mm = &mismatch{Step: len(c.Steps), What: "after the connection ended: request streams of held channels still open", Got: nd, Want: 0, Events: evs}
			return
		}
		pend := w.pendingCalls()
		sort.Ints(pend)
		wantPend := append([]int(nil), c.Final.Pending...)
		sort.Ints(wantPend)
		if len(pend) != len(wantPend) || (len(pend) > 0 && !reflect.DeepEqual(pend, wantPend)) {
			mm = &mismatch{Step: len(c.Steps), What: "after the connection ended: calls still blocked", Got: pend, Want: wantPend, Events: evs}
			return
		}
	})
	return mm
}

func anyLost(c *caseT) bool {
	for _, o := range c.Final.Objs {
		if o.Lost {
			return true
		}
	}
	return false
}

// pendingCalls: calls started that never reported completion.
func (w *world) pendingCalls() []int {
	w.mu.Lock()
	defer w.mu.Unlock()
	var p []int
	for i := 1; i <= w.ncalls; i++ {
		if !w.completed[i] {
			p = append(p, i)
		}
	}
	return p
}

func u32(v uint32) []byte { b := make([]byte, 4); binary.BigEndian.PutUint32(b, v); return b }

func openPkt(peerID, win, maxp uint32) []byte {
	return cat([]byte{90}, str("verif"), u32(peerID), u32(win), u32(maxp))
}

// ---------------------------------------------------------------- child: replay cases START.. and report

type childReport struct {
	Case     int       `json:"case"`
	Sig      string    `json:"sig"`
	What     string    `json:"what"`
	Mismatch *mismatch `json:"mismatch"`
	Stale    bool      `json:"stale"`
	Cfg      string    `json:"cfg"`
}

func sigOf(c *caseT, mm *mismatch) string {
	if c.Stale {
		// the history contains channel.Reject on a NewChannel whose table slot was reused
		return "stale-reject-frees-reused-slot"
	}
	k := "end"
	if mm.Step >= 0 && mm.Step < len(c.Steps) {
		k = c.Steps[mm.Step].Ev.K
	}
	return "mux-mismatch:" + k
}

func TestReplayChild(t *testing.T) {
	if os.Getenv("VERIF_C36_CHILD") != "replay" {
		t.Skip("child only")
	}
	start, _ := strconv.Atoi(os.Getenv("VERIF_C36_START"))
	prog, err := os.OpenFile(os.Getenv("VERIF_C36_PROGRESS"), os.O_CREATE|os.O_WRONLY, 0o644)
	if err != nil {
		t.Fatal(err)
	}
	rep, err := os.OpenFile(os.Getenv("VERIF_C36_REPORT"), os.O_CREATE|os.O_WRONLY|os.O_APPEND, 0o644)
	if err != nil {
		t.Fatal(err)
	}
	defer rep.Close()
	i := -1
	err = vutil.ReadNDJSON(os.Getenv("VERIF_CASES"), func(line []byte) error {
		i++
		if i < start {
			return nil
		}
		var c caseT
		if err := json.Unmarshal(line, &c); err != nil {
			return err
		}
		prog.WriteAt([]byte(fmt.Sprintf("%-12d", i)), 0)
		mm := replayIn(t, &c)
		if burstStats.dup+burstStats.exited > 0 {
			os.WriteFile(os.Getenv("VERIF_C36_REPORT")+".stats", []byte(fmt.Sprintf("%d %d %d", burstStats.dup, burstStats.adversarial, runtime.GOMAXPROCS(0))), 0o644)
		}
		if mm != nil {
			b, _ := json.Marshal(childReport{Case: i, Sig: sigOf(&c, mm), What: mm.What, Mismatch: mm, Stale: c.Stale, Cfg: c.Cfg})
			rep.Write(append(b, '\n'))
		}
		return nil
	})
	if err != nil {
		t.Fatal(err)
	}
	prog.WriteAt([]byte(fmt.Sprintf("%-12s", "done")), 0)
}

var sshFrame = regexp.MustCompile(`golang\.org/x/crypto/ssh\.(\(\*?\w+\)\.\w+|\w+)`)

// classifyCrash inspects the output of a crashed child.
func classifyCrash(out string) (sig, what string, verdict bool) {
	i := strings.Index(out, "panic: ")
	j := strings.Index(out, "fatal error: ")
	if i < 0 && j < 0 {
		return "", "child died without a Go panic", false
	}
	if i < 0 || (j >= 0 && j < i) {
		i = j
	}
	msg := out[i:]
	first := strings.SplitN(msg, "\n", 2)[0]
	if strings.Contains(first, "deadlock: main bubble goroutine has exited but blocked goroutines remain") ||
		strings.Contains(first, "all goroutines in bubble are blocked") || strings.Contains(first, "all goroutines are asleep") {
		// goroutines that nothing can release: a verdict only if they are blocked inside the ssh package
		if f := sshFrame.FindString(msg); f != "" {
			return "mux-goroutine-stuck:" + strings.TrimPrefix(f, "golang.org/x/crypto/ssh."), "goroutines remained blocked for ever inside package ssh after the connection ended: " + first, true
		}
		return "", "bubble deadlock outside package ssh: " + first, false
	}
	// a real panic: attribute it to package ssh if the panicking goroutine's stack has an ssh frame
	stack := msg
	if k := strings.Index(msg, "\n\ngoroutine "); k >= 0 {
		rest := msg[k+2:]
		if e := strings.Index(rest, "\n\n"); e >= 0 {
			stack = msg[:k+2+e]
		}
	}
	if f := sshFrame.FindString(stack); f != "" {
		return "mux-panic:" + strings.TrimPrefix(f, "golang.org/x/crypto/ssh."), "panic in package ssh while handling a peer packet sequence: " + first, true
	}
	return "", "child panicked outside package ssh: " + first, false
}

// runChildren runs the child test over all cases, restarting after crashes.
func runChildren(t *testing.T, out *vutil.Out, mode, childTest string, ncases int, cases []json.RawMessage) {
	dir := t.TempDir()
	progress := dir + "/progress"
	report := dir + "/report.ndjson"
	start := 0
	crashes := 0
	dupBursts, advBursts := 0, 0
	defer func() {
		out.Extra["duplicate_response_bursts_replayed"] = dupBursts
		out.Extra["duplicate_response_bursts_loop_first"] = advBursts
	}()
	for start < ncases {
		os.WriteFile(progress, []byte(fmt.Sprintf("%-12d", -1)), 0o644)
		cmd := exec.Command(os.Args[0], "-test.run=^"+childTest+"$", "-test.timeout=3000s")
		cmd.Env = append(os.Environ(), "VERIF_C36_CHILD="+mode, "VERIF_C36_START="+strconv.Itoa(start), "VERIF_C36_PROGRESS="+progress, "VERIF_C36_REPORT="+report)
		var buf bytes.Buffer
		cmd.Stdout, cmd.Stderr = &buf, &buf
		err := cmd.Run()
		if sb, e2 := os.ReadFile(report + ".stats"); e2 == nil {
			var a, b, c int
			fmt.Sscan(string(sb), &a, &b, &c)
			dupBursts += a
			advBursts += b
			out.Extra["replay_gomaxprocs"] = c
			os.Remove(report + ".stats")
		}
		pb, _ := os.ReadFile(progress)
		ps := strings.TrimSpace(string(pb))
		if ps == "done" {
			break
		}
		last, _ := strconv.Atoi(ps)
		if err == nil || last < start {
			t.Fatalf("c36 child stopped at %q without finishing (err=%v):\n%s", ps, err, tail(buf.String(), 4000))
		}
		sig, what, verdict := classifyCrash(buf.String())
		if !verdict {
			t.Fatalf("c36 child crashed at case %d, not attributable to package ssh (%s):\n%s", last, what, tail(buf.String(), 6000))
		}
		var detail any
		if last < len(cases) {
			detail = map[string]any{"case": cases[last], "crash": tail(buf.String(), 3000)}
		} else {
			detail = map[string]any{"case_index": last, "crash": tail(buf.String(), 3000)}
		}
		if last < len(cases) && isStale(cases[last]) {
			sig = "stale-reject-frees-reused-slot"
		}
		out.Violation(sig, what, detail)
		t.Errorf("%s at case %d: %s", sig, last, what)
		crashes++
		if crashes > 25 {
			t.Fatalf("too many child crashes")
		}
		start = last + 1
	}
	out.Extra["child_crashes_"+mode] = crashes
	// collect mismatches
	perSig := map[string]int{}
	defer func() { out.Extra["mismatches_by_signature_"+mode] = perSig }()
	if fh, err := os.Open(report); err == nil {
		defer fh.Close()
		sc := bufio.NewScanner(fh)
		sc.Buffer(make([]byte, 1<<20), 1<<26)
		for sc.Scan() {
			var r childReport
			if json.Unmarshal(sc.Bytes(), &r) != nil {
				continue
			}
			var cs any
			if r.Case < len(cases) {
				cs = cases[r.Case]
			}
			perSig[r.Sig]++
			if perSig[r.Sig] > 4 { // keep a few per signature so that one frequent finding cannot crowd out another
				continue
			}
			out.Violation(r.Sig, "real mux differs from SSHMux: "+r.What, map[string]any{"mismatch": r.Mismatch, "case": cs, "cfg": r.Cfg})
			t.Errorf("%s: case %d: %s got=%v want=%v", r.Sig, r.Case, r.What, r.Mismatch.Got, r.Mismatch.Want)
		}
	}
}

func isStale(raw json.RawMessage) bool {
	var c struct {
		Stale bool `json:"stale"`
	}
	json.Unmarshal(raw, &c)
	return c.Stale
}

func tail(s string, n int) string {
	if len(s) > n {
		return s[len(s)-n:]
	}
	return s
}

func TestReplay(t *testing.T) {
	out := vutil.NewOut()
	defer func() {
		if err := out.Write(); err != nil {
			t.Fatal(err)
		}
	}()
	var cases []json.RawMessage
	keep := 200000
	err := vutil.ReadNDJSON(vutil.Env("VERIF_CASES", ""), func(line []byte) error {
		if len(cases) < keep {
			cases = append(cases, append(json.RawMessage(nil), line...))
		}
		out.Case(string(line))
		if len(out.Samples) < 3 && len(line) < 2000 && out.Evaluations%997 == 5 {
			out.Sample(json.RawMessage(append([]byte(nil), line...)))
		}
		return nil
	})
	if err != nil {
		t.Fatal(err)
	}
	runChildren(t, out, "replay", "TestReplayChild", out.Evaluations, cases)
}
