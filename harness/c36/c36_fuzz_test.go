package c36

// Exploration for C36: seeded grammar-based random long peer packet sequences interleaved with
// local calls against one real mux, without model predictions.  Judged only on the clauses that
// need no prediction: no panic (child process crash), and when the connection ends the loop has
// exited, both streams are closed, every channel the application holds is closed and every
// blocked call has returned.

import (
	"encoding/json"
	"fmt"
	"math/rand"
	"os"
	"strconv"
	"sync"
	"testing"
	"testing/synctest"

	"golang.org/x/crypto/ssh"
	"verif/harness/vutil"
)

type fzChan struct {
	local    uint32 // id at the mux
	remote   uint32 // id at the peer (harness)
	ch       ssh.Channel
	nc       ssh.NewChannel
	held     bool
	outbound bool
	decided  bool // outbound: peer answered
	peerGone bool // peer sent close
	reqWait  bool // a want-reply request is pending on it
	writing  bool
	reading  bool
	unheldRq int
	mu       sync.Mutex
}

type fzCall struct {
	kind string
	done bool
}

func fuzzOne(t *testing.T, seed int64, n int) (problem string, log []string) {
	synctest.Test(t, func(t *testing.T) {
		rng := rand.New(rand.NewSource(seed))
		w := newWorld()
		defer w.cleanup()
		var mu sync.Mutex
		var chans []*fzChan
		calls := []*fzCall{}
		gwait := false
		nextRemote := uint32(1000)
		note := func(s string) {
			if len(log) < 400 {
				log = append(log, s)
			}
		}
		startCall := func(kind string, f func()) {
			c := &fzCall{kind: kind}
			mu.Lock()
			calls = append(calls, c)
			mu.Unlock()
			go func() {
				f()
				mu.Lock()
				c.done = true
				mu.Unlock()
			}()
		}
		byLocal := func(id uint32) *fzChan {
			for _, c := range chans {
				if c.local == id && !c.peerGone {
					return c
				}
			}
			return nil
		}
		pickChan := func(pred func(*fzChan) bool) *fzChan {
			var cand []*fzChan
			for _, c := range chans {
				if pred(c) {
					cand = append(cand, c)
				}
			}
			if len(cand) == 0 {
				return nil
			}
			return cand[rng.Intn(len(cand))]
		}
		settle := func() bool {
			synctest.Wait()
			for {
				p, ok := w.peer.TryRead()
				if !ok {
					break
				}
				if p[0] == 90 { // the mux opens a channel: remember its id so the peer can answer
					r := skipString(p[1:])
					id := uint32(be(r, 0))
					for _, c := range chans {
						if c.outbound && !c.decided && c.local == 0xffffffff {
							c.local = id
							break
						}
					}
				}
			}
			w.mu.Lock()
			in := w.incoming
			w.incoming = nil
			dead := w.dead
			w.mu.Unlock()
			for _, nc := range in {
				st, _ := ssh.VerifChanGetState(nc)
				c := &fzChan{local: st.LocalID, remote: st.RemoteID, nc: nc}
				chans = append(chans, c)
				if rng.Intn(4) == 0 {
					note(fmt.Sprintf("app rejects %d", c.local))
					nc.Reject(ssh.Prohibited, "no")
					c.peerGone = true
				} else {
					ch, reqs, err := nc.Accept()
					note(fmt.Sprintf("app accepts %d err=%v", c.local, err))
					if err == nil {
						c.ch, c.held = ch, true
						w.drain(reqs)
					} else {
						c.peerGone = true
					}
				}
			}
			if len(in) > 0 {
				return settleAgain(w)
			}
			return dead
		}
		dead := false
		for i := 0; i < n && !dead; i++ {
			r := rng.Intn(100)
			var e evT
			live := pickChan(func(c *fzChan) bool { return !c.peerGone && c.local != 0xffffffff })
			anyID := func() int {
				if live != nil && rng.Intn(40) != 0 {
					return int(live.local)
				}
				return rng.Intn(4)
			}
			if live == nil && r >= 18 && r < 66 && !(r >= 50 && r < 60) && rng.Intn(30) != 0 {
				continue // no live channel to address: mostly skip channel packets (they would just end the connection)
			}
			switch {
			case r < 10:
				nextRemote++
				e = evT{"open", 0, "ok", int(nextRemote)}
				if rng.Intn(15) == 0 {
					e.V = "badmax"
				}
			case r < 18: // answer an outbound open
				c := pickChan(func(c *fzChan) bool { return c.outbound && !c.decided && c.local != 0xffffffff })
				if c == nil {
					continue
				}
				nextRemote++
				c.decided = true
				if rng.Intn(3) == 0 {
					e = evT{"fail", int(c.local), "", 0}
					c.peerGone = true
				} else {
					e = evT{"confirm", int(c.local), "ok", int(nextRemote)}
					c.remote = nextRemote
				}
			case r < 34:
				e = evT{"data", anyID(), []string{"ok", "ok", "ok", "zero", "ext1", "ext2"}[rng.Intn(6)], 0}
			case r < 38:
				e = evT{"eof", anyID(), "", 0}
			case r < 44:
				e = evT{"close", anyID(), "", 0}
				if c := byLocal(uint32(e.ID)); c != nil {
					c.peerGone = true
				}
			case r < 50:
				e = evT{"adj", anyID(), []string{"s", "s", "zero"}[rng.Intn(3)], 0}
			case r < 60:
				id := anyID()
				if c := byLocal(uint32(id)); c != nil && !c.held {
					if c.unheldRq >= 10 {
						continue
					}
					c.unheldRq++
				}
				e = evT{"creq", id, []string{"wr", "nowr"}[rng.Intn(2)], 0}
			case r < 66:
				e = evT{[]string{"csucc", "cfail"}[rng.Intn(2)], anyID(), "", 0}
			case r < 70:
				e = evT{"greq", 0, []string{"wr", "nowr"}[rng.Intn(2)], 0}
			case r < 74:
				e = evT{[]string{"gsucc", "gfail"}[rng.Intn(2)], 0, "", 0}
			case r < 76:
				e = evT{"ping", 0, "ok", 0}
			case r < 77: // something that ends the connection
				e = []evT{{"unknown", anyID(), "", 0}, {"tiny", 0, "", 0}, {"data", anyID(), "big", 0}, {"adj", anyID(), "max", 0},
					{"creq", anyID(), "short", 0}, {"confirm", anyID(), "ok", 7}, {"open", 0, "short", 0}, {"ping", 0, "short", 0}}[rng.Intn(8)]
			case r < 82: // local: open a channel
				if len(chans) > 40 {
					continue
				}
				c := &fzChan{local: 0xffffffff, outbound: true}
				chans = append(chans, c)
				note("local OpenChannel")
				startCall("OpenChannel", func() {
					ch, reqs, err := w.m.OpenChannel("verif", nil)
					if err == nil {
						c.mu.Lock()
						c.ch, c.held = ch, true
						c.mu.Unlock()
						w.drain(reqs)
					}
				})
				dead = settle()
				continue
			case r < 86:
				wr := rng.Intn(2) == 0 && !gwait
				note(fmt.Sprintf("local global request wr=%v", wr))
				if wr {
					gwait = true
				}
				startCall("mux.SendRequest", func() {
					w.m.SendRequest("x", wr, nil)
					if wr {
						mu.Lock()
						gwait = false
						mu.Unlock()
					}
				})
				dead = settle()
				continue
			default: // local call on a held channel
				c := pickChan(func(c *fzChan) bool { c.mu.Lock(); defer c.mu.Unlock(); return c.held })
				if c == nil {
					continue
				}
				c.mu.Lock()
				ch := c.ch
				c.mu.Unlock()
				switch k := rng.Intn(5); {
				case k == 0 && !c.reqWait:
					c.reqWait = true
					note(fmt.Sprintf("local channel request wr on %d", c.local))
					startCall("Channel.SendRequest", func() { ch.SendRequest("x", true, nil); mu.Lock(); c.reqWait = false; mu.Unlock() })
				case k == 1:
					note(fmt.Sprintf("local channel request nowr on %d", c.local))
					startCall("Channel.SendRequest", func() { ch.SendRequest("x", false, nil) })
				case k == 2 && !c.writing:
					c.writing = true
					sz := rng.Intn(600)
					note(fmt.Sprintf("local write %d on %d", sz, c.local))
					startCall("Channel.Write", func() { ch.Write(make([]byte, sz)); mu.Lock(); c.writing = false; mu.Unlock() })
				case k == 3 && !c.reading:
					c.reading = true
					note(fmt.Sprintf("local read on %d", c.local))
					startCall("Channel.Read", func() { ch.Read(make([]byte, 64)); mu.Lock(); c.reading = false; mu.Unlock() })
				case k == 4:
					note(fmt.Sprintf("local Close on %d", c.local))
					startCall("Channel.Close", func() { ch.Close() })
				default:
					continue
				}
				dead = settle()
				continue
			}
			mu.Lock()
			note(fmt.Sprintf("peer %s id=%d %s", e.K, e.ID, e.V))
			mu.Unlock()
			w.peer.WritePacket(packet(e))
			dead = settle()
		}
		// the connection ends
		w.peer.Close()
		synctest.Wait()
		w.mu.Lock()
		d, inC, reqC := w.dead, w.inClosed, w.reqClosed
		w.mu.Unlock()
		switch {
		case !d:
			problem = "loop-not-exited"
		case !inC:
			problem = "incomingChannels-not-closed"
		case !reqC:
			problem = "incomingRequests-not-closed"
		}
		mu.Lock()
		for _, c := range calls {
			if !c.done && problem == "" {
				problem = "call-blocked:" + c.kind
			}
		}
		mu.Unlock()
		for _, c := range chans {
			c.mu.Lock()
			if c.held && problem == "" {
				b, sc, wc, _ := ssh.VerifChanClosure(c.ch)
				if !(b && sc && wc) {
					problem = "channel-not-closed"
				}
			}
			// let cleanup release goroutines blocked on this channel
			if c.ch != nil {
				w.objs = append(w.objs, &objT{ch: c.ch})
			}
			c.mu.Unlock()
		}
	})
	return problem, log
}

func settleAgain(w *world) bool {
	synctest.Wait()
	for {
		if _, ok := w.peer.TryRead(); !ok {
			break
		}
	}
	w.mu.Lock()
	defer w.mu.Unlock()
	return w.dead
}

func TestFuzzChild(t *testing.T) {
	if os.Getenv("VERIF_C36_CHILD") != "fuzz" {
		t.Skip("child only")
	}
	start, _ := strconv.Atoi(os.Getenv("VERIF_C36_START"))
	total, _ := strconv.Atoi(os.Getenv("VERIF_C36_FUZZ"))
	prog, err := os.OpenFile(os.Getenv("VERIF_C36_PROGRESS"), os.O_CREATE|os.O_WRONLY, 0o644)
	if err != nil {
		t.Fatal(err)
	}
	rep, err := os.OpenFile(os.Getenv("VERIF_C36_REPORT"), os.O_CREATE|os.O_WRONLY|os.O_APPEND, 0o644)
	if err != nil {
		t.Fatal(err)
	}
	defer rep.Close()
	for i := start; i < total; i++ {
		prog.WriteAt([]byte(fmt.Sprintf("%-12d", i)), 0)
		seed := vutil.Seed()*1000003 + int64(i)
		n := 20 + int(seed%7)*30
		if p, log := fuzzOne(t, seed, n); p != "" {
			b, _ := json.Marshal(childReport{Case: i, Sig: "exploration:" + p, What: "random sequence: " + p,
				Mismatch: &mismatch{What: p, Got: log}})
			rep.Write(append(b, '\n'))
		}
	}
	prog.WriteAt([]byte(fmt.Sprintf("%-12s", "done")), 0)
}

func TestFuzz(t *testing.T) {
	out := vutil.NewOut()
	defer func() {
		if err := out.Write(); err != nil {
			t.Fatal(err)
		}
	}()
	total, _ := strconv.Atoi(vutil.Env("VERIF_C36_FUZZ", "200"))
	out.Evaluations = total
	out.Distinct = total
	runChildren(t, out, "fuzz", "TestFuzzChild", total, nil)
}
