package x06

import (
	"os"
	"testing"
)

// TestEmitKeysModule regenerates spec/AgentWireKeys.tla (only when VERIF_X06_EMIT names the output file).
func TestEmitKeysModule(t *testing.T) {
	p := os.Getenv("VERIF_X06_EMIT")
	if p == "" {
		t.Skip("VERIF_X06_EMIT not set")
	}
	if err := os.WriteFile(p, []byte(KeysModule()), 0o644); err != nil {
		t.Fatal(err)
	}
}
