package x06

// W1 under a transient transport fault (spec/AgentWire.tla, constant Faults; AgentWire_DocDesync.cfg /
// AgentWire_Faults.cfg): one Read of the client's transport fails (a deadline, an interrupted call) while the
// agent is alive and answers.  Whatever the client does next, no later call may be handed the reply that
// belongs to the failed call.  Deterministic: no timing is involved, the stale reply is simply the next
// frame on the stream.

import (
	"errors"
	"fmt"
	"io"
	"log"
	"sync"
	"sync/atomic"
	"testing"

	"golang.org/x/crypto/ssh/agent"
	"verif/harness/vutil"
)

var errTransient = errors.New("x06: transient read error (deadline exceeded)")

// flaky fails the next `fail` Reads without consuming anything.
type flaky struct {
	rw   io.ReadWriter
	fail atomic.Int32
}

func (f *flaky) Read(p []byte) (int, error) {
	if f.fail.Load() > 0 && f.fail.Add(-1) >= 0 {
		return 0, errTransient
	}
	return f.rw.Read(p)
}
func (f *flaky) Write(p []byte) (int, error) { return f.rw.Write(p) }

type flakyCloser struct {
	*flaky
	c io.Closer
}

func (f flakyCloser) Close() error { return f.c.Close() }

func TestDesync(t *testing.T) {
	out := vutil.NewOut()
	defer func() {
		if err := out.Write(); err != nil {
			t.Fatal(err)
		}
	}()
	log.SetOutput(io.Discard)
	kp := Pool()
	for _, mode := range []string{"serial", "pipelined"} {
		for _, variant := range []string{"sign", "remove"} {
			kr := agent.NewKeyring()
			for _, n := range []string{"ed1", "ed2"} {
				if err := kr.Add(agent.AddedKey{PrivateKey: kp[n].Priv, Comment: n}); err != nil {
					t.Fatal(err)
				}
			}
			lg := &Log{}
			var wg sync.WaitGroup
			wire := &wireRec{}
			conn := servePair(kr, 1, lg, wire, &wg)
			fl := &flaky{rw: conn}
			var cl agent.ExtendedAgent
			if mode == "serial" {
				cl = agent.NewClient(fl)
			} else {
				cl = agent.NewClient(flakyCloser{fl, conn})
			}
			out.Case("desync|" + mode + "|" + variant)
			detail := map[string]any{"mode": mode, "variant": variant}
			crossed := ""
			switch variant {
			case "sign":
				fl.fail.Store(1)
				_, err1 := cl.Sign(kp["ed1"].Pub, []byte("first"))
				detail["call1"] = fmt.Sprint(err1)
				if err1 == nil {
					t.Fatalf("%s: the injected read error did not surface", mode)
				}
				sig2, err2 := cl.Sign(kp["ed2"].Pub, []byte("second"))
				detail["call2"] = fmt.Sprint(err2)
				if err2 == nil {
					if kp["ed2"].Pub.Verify([]byte("second"), sig2) != nil {
						crossed = "Sign(ed2, \"second\") returned a signature that does not verify for it"
						if kp["ed1"].Pub.Verify([]byte("first"), sig2) == nil {
							crossed = "Sign(ed2, \"second\") returned the signature of the earlier, failed call Sign(ed1, \"first\")"
						}
					}
				}
			case "remove":
				fl.fail.Store(1)
				err1 := cl.Remove(kp["ed1"].Pub) // fails at the client; the agent removes the key
				detail["call1"] = fmt.Sprint(err1)
				if err1 == nil {
					t.Fatalf("%s: the injected read error did not surface", mode)
				}
				err2 := cl.Remove(kp["ed1"].Pub) // the agent answers failure (no such key) to THIS request
				detail["call2"] = fmt.Sprint(err2)
				conn.Close()
				wg.Wait()
				var reps []string
				for _, r := range wire.reps {
					reps = append(reps, summariseReply(r).T)
				}
				detail["replies_written_by_the_agent"] = reps
				if err2 == nil && len(reps) >= 2 && reps[1] == "failure" {
					crossed = "the second Remove(ed1) returned success although the agent answered it with SSH_AGENT_FAILURE: the success belongs to the earlier, failed call"
				}
			}
			conn.Close()
			wg.Wait()
			if crossed != "" {
				out.Violation(mode+"-client-desync:reply-crossed-after-read-error",
					fmt.Sprintf("%s client: after one transient Read error the stream is used on, one reply behind: %s", mode, crossed), detail)
				t.Errorf("%s/%s: %s", mode, variant, crossed)
			}
		}
	}
}
