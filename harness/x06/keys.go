// Package x06 binds spec/AgentWire*.tla (growth check X06: the ssh-agent wire layer, concurrent
// callers and connections, agent forwarding) to the real golang.org/x/crypto/ssh/agent.
//
// keys.go: a pool of DETERMINISTIC keys (fixed Ed25519 seeds, a fixed ECDSA scalar, fixed RSA primes,
// fixed DSA parameters, certificates signed by a fixed Ed25519 CA with a fixed nonce source), so that the
// key material table committed as spec/AgentWireKeys.tla is the same in every run; TLC computes the
// exact request / reply bytes from that table and the harness checks the table against this pool first.
package x06

import (
	"crypto/dsa"
	"crypto/ecdsa"
	"crypto/ed25519"
	"crypto/elliptic"
	"crypto/rsa"
	"fmt"
	"math/big"
	"sort"
	"strings"
	"sync"

	"golang.org/x/crypto/ssh"
)

const (
	rsaP = "f989e68fe1ae36196ab3902f7eacd1106d357d0c69b22002fd3e47b28aae9f34d49377f7aff30d0548eac2eb0152cb3f124d055bfec996dad5be80b43c79a56f"
	rsaQ = "d8b5a4d90ecf037d05e0f0219ad807ca10fa7f325a84c8dd9e84cdd5d5de12d5e56ddd1c0207160e60896ed89cec5f6b61d9e7bdf207003569800b81a1dd8653"
	dsaP = "ec798240a0919db89a9388fb871d19d00162d8119220c472a5c829ec99044d4250085e16ea8b18f8590bd6da6f38cb9e903e0299966d321bcab4ca4c77e15ed3acf651ecc0f0e70544ac3f689150cf2382c504f1a3e7541a987f23a6796d84e2f8fca1ccf650dfca5719efa778053c159f936713685924f9cb4cbf9a8268b1f3"
	dsaQ = "e9ad280b5ca0c9f902b691b1912cf5bf5c102f95"
	dsaG = "c9fe8d18a1523e29d82e583ceb9581a9483d24bf19444bd995d460ff95d26de0c25a935f6e0066624eef31a98cfc7a11b86f9e40073f92527a48d91ee7f24352865fe17f8993130b27b3d853ec2cd530c067ca70c6cf8d65b38690fefac2e746837aea99d9026542fbdee45e075c0d83e7079bc44f817464ff18d2d12f7ddc93"
	dsaX = "147151f7b86ee97d886885e4751e1c37a6055f3a"
	ecD  = "5b1f0e6c2d3a49587766554433221100ffeeddccbbaa99887766554433221101"
)

// Key is one pool entry.
type Key struct {
	Name   string
	Kind   string // rsa dsa ecdsa ed25519 rsa-cert dsa-cert ecdsa-cert ed25519-cert
	Type   string // wire type name (written out here, not taken from the package under test)
	Priv   any    // what agent.AddedKey.PrivateKey takes
	Cert   *ssh.Certificate
	Pub    ssh.PublicKey     // the identity the agent lists (the certificate when there is one)
	Fields map[string][]byte // private-key fields of the add-identity request: mpints as magnitudes
	SigFmt string            // format of a default (flags = 0) signature
}

// Blob is the public key blob by which the agent knows the key.
func (k *Key) Blob() []byte { return k.Pub.Marshal() }

var (
	poolOnce sync.Once
	pool     map[string]*Key
	order    []string
)

type detReader struct{ b byte }

func (d *detReader) Read(p []byte) (int, error) {
	for i := range p {
		d.b = d.b*13 + 7
		p[i] = d.b
	}
	return len(p), nil
}

func hexInt(s string) *big.Int {
	n, ok := new(big.Int).SetString(s, 16)
	if !ok {
		panic("bad hex constant")
	}
	return n
}

func seed(from byte) []byte {
	s := make([]byte, 32)
	for i := range s {
		s[i] = from + byte(i)
	}
	return s
}

// Pool returns the deterministic keys by name.
func Pool() map[string]*Key {
	poolOnce.Do(func() {
		pool = map[string]*Key{}
		caSigner, err := ssh.NewSignerFromKey(ed25519.NewKeyFromSeed(seed(200)))
		if err != nil {
			panic(err)
		}
		mkCert := func(name string, pub ssh.PublicKey, serial uint64) *ssh.Certificate {
			c := &ssh.Certificate{Key: pub, Serial: serial, CertType: ssh.UserCert, KeyId: "x06-" + name,
				ValidPrincipals: []string{"u"}, ValidAfter: 0, ValidBefore: ssh.CertTimeInfinity}
			if err := c.SignCert(&detReader{b: byte(serial)}, caSigner); err != nil {
				panic(err)
			}
			return c
		}
		add := func(k *Key) {
			s, err := ssh.NewSignerFromKey(k.Priv)
			if err != nil {
				panic(fmt.Sprintf("%s: %v", k.Name, err))
			}
			k.Pub = s.PublicKey()
			pool[k.Name] = k
			order = append(order, k.Name)
		}
		addCert := func(base *Key, name, kind, typ string, serial uint64, keep ...string) {
			c := mkCert(name, base.Pub, serial)
			f := map[string][]byte{"cert": c.Marshal()}
			for _, n := range keep {
				f[n] = base.Fields[n]
			}
			pool[name] = &Key{Name: name, Kind: kind, Type: typ, Priv: base.Priv, Cert: c, Pub: c, Fields: f, SigFmt: base.SigFmt}
			order = append(order, name)
		}
		// Ed25519
		for i, nm := range []string{"ed1", "ed2"} {
			p := ed25519.NewKeyFromSeed(seed(byte(1 + 40*i)))
			add(&Key{Name: nm, Kind: "ed25519", Type: "ssh-ed25519", Priv: p, SigFmt: "ssh-ed25519",
				Fields: map[string][]byte{"pub": []byte(p)[32:], "priv": []byte(p)}})
		}
		// ECDSA P-256
		ec, err := ecdsa.ParseRawPrivateKey(elliptic.P256(), hexInt(ecD).FillBytes(make([]byte, 32)))
		if err != nil {
			panic(err)
		}
		ecPub, err := ec.PublicKey.Bytes()
		if err != nil {
			panic(err)
		}
		add(&Key{Name: "ec1", Kind: "ecdsa", Type: "ecdsa-sha2-nistp256", Priv: ec, SigFmt: "ecdsa-sha2-nistp256",
			Fields: map[string][]byte{"curve": []byte("nistp256"), "q": ecPub, "d": hexInt(ecD).Bytes()}})
		// RSA 1024
		p, q := hexInt(rsaP), hexInt(rsaQ)
		n := new(big.Int).Mul(p, q)
		phi := new(big.Int).Mul(new(big.Int).Sub(p, big.NewInt(1)), new(big.Int).Sub(q, big.NewInt(1)))
		d := new(big.Int).ModInverse(big.NewInt(65537), phi)
		rk := &rsa.PrivateKey{PublicKey: rsa.PublicKey{N: n, E: 65537}, D: d, Primes: []*big.Int{p, q}}
		rk.Precompute()
		if err := rk.Validate(); err != nil {
			panic(err)
		}
		iqmp := new(big.Int).ModInverse(q, p)
		add(&Key{Name: "rsa1", Kind: "rsa", Type: "ssh-rsa", Priv: rk, SigFmt: "ssh-rsa",
			Fields: map[string][]byte{"n": n.Bytes(), "e": big.NewInt(65537).Bytes(), "d": d.Bytes(), "iqmp": iqmp.Bytes(), "p": p.Bytes(), "q": q.Bytes()}})
		// DSA 1024/160
		dk := &dsa.PrivateKey{X: hexInt(dsaX)}
		dk.P, dk.Q, dk.G = hexInt(dsaP), hexInt(dsaQ), hexInt(dsaG)
		dk.Y = new(big.Int).Exp(dk.G, dk.X, dk.P)
		add(&Key{Name: "dsa1", Kind: "dsa", Type: "ssh-dss", Priv: dk, SigFmt: "ssh-dss",
			Fields: map[string][]byte{"p": dk.P.Bytes(), "q": dk.Q.Bytes(), "g": dk.G.Bytes(), "y": dk.Y.Bytes(), "x": dk.X.Bytes()}})
		// certificates over the same private keys
		addCert(pool["ed1"], "ed1c", "ed25519-cert", "ssh-ed25519-cert-v01@openssh.com", 11, "pub", "priv")
		addCert(pool["ec1"], "ec1c", "ecdsa-cert", "ecdsa-sha2-nistp256-cert-v01@openssh.com", 12, "d")
		addCert(pool["rsa1"], "rsa1c", "rsa-cert", "ssh-rsa-cert-v01@openssh.com", 13, "d", "iqmp", "p", "q")
		addCert(pool["dsa1"], "dsa1c", "dsa-cert", "ssh-dss-cert-v01@openssh.com", 14, "x")
	})
	return pool
}

// Names returns the key names in pool order.
func Names() []string { Pool(); return append([]string(nil), order...) }

// ByBlob maps a public key blob back to the pool name ("" if unknown).
func ByBlob(blob []byte) string {
	for _, n := range Names() {
		if string(pool[n].Blob()) == string(blob) {
			return n
		}
	}
	return ""
}

func tlaBytes(b []byte) string {
	var sb strings.Builder
	sb.WriteString("<<")
	for i, x := range b {
		if i > 0 {
			sb.WriteString(",")
			if i%40 == 0 {
				sb.WriteString("\n      ")
			}
		}
		fmt.Fprintf(&sb, "%d", x)
	}
	sb.WriteString(">>")
	return sb.String()
}

// KeysModule renders spec/AgentWireKeys.tla.
func KeysModule() string {
	var sb strings.Builder
	sb.WriteString("---------------------------- MODULE AgentWireKeys ----------------------------\n")
	sb.WriteString("(* GENERATED by harness/x06 (VERIF_X06_EMIT=1 go test -run TestEmitKeysModule): the deterministic key\n")
	sb.WriteString("   material of the X06 harness (fixed Ed25519 seeds, ECDSA scalar, RSA primes, DSA parameters,\n")
	sb.WriteString("   certificates by a fixed CA).  kind selects the field layout of AgentWireCodec!AddLayout, type is the\n")
	sb.WriteString("   wire name, blob the public key blob the agent lists, f the fields of the add-identity request\n")
	sb.WriteString("   (mpints as big-endian magnitudes).  Every X06 run checks this table against the Go key pool. *)\n")
	sb.WriteString("KeyNames == {")
	for i, n := range Names() {
		if i > 0 {
			sb.WriteString(", ")
		}
		fmt.Fprintf(&sb, "%q", n)
	}
	sb.WriteString("}\n")
	sb.WriteString("KeyMat == [n \\in KeyNames |->\n")
	for i, n := range Names() {
		k := pool[n]
		kw := "  CASE"
		if i > 0 {
			kw = "    []"
		}
		fmt.Fprintf(&sb, "%s n = %q -> [kind |-> %q, sigfmt |-> %s,\n      type |-> %s,\n      blob |-> %s,\n      f |-> [", kw, n, k.Kind, tlaBytes([]byte(k.SigFmt)), tlaBytes([]byte(k.Type)), tlaBytes(k.Blob()))
		var fn []string
		for f := range k.Fields {
			fn = append(fn, f)
		}
		sort.Strings(fn)
		for j, f := range fn {
			if j > 0 {
				sb.WriteString(",\n      ")
			}
			fmt.Fprintf(&sb, "%s |-> %s", f, tlaBytes(k.Fields[f]))
		}
		sb.WriteString("]]\n")
	}
	sb.WriteString("  ]\n")
	sb.WriteString("=============================================================================\n")
	return sb.String()
}
