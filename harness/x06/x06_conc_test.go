package x06

// Binding T of spec/AgentWire_Trace.tla: seeded concurrent drivers (real goroutines; run with -race) over
// agent.NewClient <-> agent.ServeAgent pairs sharing ONE agent.NewKeyring, plus raw peers that send
// unknown / malformed / badly framed requests and direct callers of the keyring.  Every execution is
// recorded as one totally ordered event log (see wire.go) and written to VERIF_X06_TRACES.

import (
	"bytes"
	"encoding/binary"
	"encoding/json"
	"errors"
	"fmt"
	"io"
	"log"
	"math/rand"
	"os"
	"runtime"
	"strconv"
	"strings"
	"sync"
	"sync/atomic"
	"testing"
	"time"

	"golang.org/x/crypto/ssh"
	"golang.org/x/crypto/ssh/agent"
	"verif/harness/memconn"
	"verif/harness/vutil"
)

// an endpoint a caller goroutine talks to
type endpoint struct {
	c     int
	kind  string              // serial | pipelined | raw | direct | forwarded
	api   agent.ExtendedAgent // real client or the keyring itself
	raw   io.ReadWriter       // raw peers write frames themselves
	rawMu sync.Mutex
	close func()
}

type opSpec struct {
	req   AReq
	big   bool   // sign with more than MaxMsg octets of data (the frame exceeds the maximum)
	frame []byte // raw peers: the octets to write (header included)
}

func yield(rng *rand.Rand) {
	for i := rng.Intn(4); i > 0; i-- {
		runtime.Gosched()
	}
}

// doAPI performs one abstract request through the Agent API and classifies the result.
func doAPI(ep *endpoint, o opSpec) ARep {
	kp := Pool()
	r := o.req
	res := ARep{Ks: [][2]string{}}
	simple := func(err error) ARep { res.T = classifyErr(err); return res }
	switch r.Op {
	case "add":
		k := kp[r.K]
		ak := agent.AddedKey{PrivateKey: k.Priv, Certificate: k.Cert, Comment: r.S, LifetimeSecs: uint32(r.N)}
		switch r.Bad {
		case "confirm":
			ak.ConfirmBeforeUse = true
		case "ext":
			ak.ConstraintExtensions = []agent.ConstraintExtension{{ExtensionName: "x@v", ExtensionDetails: []byte{1}}}
		}
		return simple(ep.api.Add(ak))
	case "remove":
		return simple(ep.api.Remove(kp[r.K].Pub))
	case "removeall":
		return simple(ep.api.RemoveAll())
	case "lock":
		return simple(ep.api.Lock(append([]byte(nil), passBytes[r.S]...)))
	case "unlock":
		return simple(ep.api.Unlock(append([]byte(nil), passBytes[r.S]...)))
	case "ext":
		_, err := ep.api.Extension("x@v", []byte{9})
		if errors.Is(err, agent.ErrExtensionUnsupported) {
			res.T = "err"
			return res
		}
		if err == nil {
			res.T = "ok"
			return res
		}
		return simple(err)
	case "list":
		keys, err := ep.api.List()
		if err != nil {
			return simple(err)
		}
		res.T = "list"
		seen := map[string]bool{}
		for _, k := range keys {
			n := ByBlob(k.Blob)
			if n == "" {
				n = fmt.Sprintf("?%x", k.Blob[:min(8, len(k.Blob))])
			}
			if seen[n] {
				res.Dup = true
			}
			seen[n] = true
			res.Ks = append(res.Ks, [2]string{n, k.Comment})
		}
		return res
	case "signers":
		ss, err := ep.api.Signers()
		if err != nil {
			return simple(err)
		}
		res.T = "signers"
		seen := map[string]bool{}
		for _, s := range ss {
			n := ByBlob(s.PublicKey().Marshal())
			if seen[n] {
				res.Dup = true
			}
			seen[n] = true
			res.Ks = append(res.Ks, [2]string{n, ""})
		}
		return res
	case "sign", "oversize":
		k := kp[r.K]
		data := []byte(r.S)
		if o.big {
			data = make([]byte, MaxMsg)
		}
		var sig *ssh.Signature
		var err error
		if r.N == 0 {
			sig, err = ep.api.Sign(k.Pub, data)
		} else {
			sig, err = ep.api.SignWithFlags(k.Pub, data, agent.SignatureFlags(r.N))
		}
		if err != nil {
			return simple(err)
		}
		if verr := k.Pub.Verify(data, sig); verr != nil {
			res.T = "badsig"
			return res
		}
		res.T, res.F = "sig", fmtLabel(k, sig.Format)
		return res
	}
	res.T = "harness-unknown-op"
	return res
}

// doRaw writes a raw frame and reads one reply frame.
func doRaw(ep *endpoint, o opSpec) ARep {
	res := ARep{Ks: [][2]string{}}
	ep.rawMu.Lock()
	defer ep.rawMu.Unlock()
	if _, err := ep.raw.Write(o.frame); err != nil {
		res.T = "connerr"
		return res
	}
	var hdr [4]byte
	if _, err := io.ReadFull(ep.raw, hdr[:]); err != nil {
		res.T = "connerr"
		return res
	}
	body := make([]byte, binary.BigEndian.Uint32(hdr[:]))
	if _, err := io.ReadFull(ep.raw, body); err != nil {
		res.T = "connerr"
		return res
	}
	rep := summariseReply(body)
	switch rep.T {
	case "success":
		res.T = "ok"
	case "failure":
		res.T = "err"
	case "v1ids":
		res.T = "v1ids"
	case "ids":
		res.T, res.Ks, res.Dup = "list", rep.Ks, rep.Dup
	default:
		res.T = "raw-" + rep.T
	}
	return res
}

var rawMenu = []opSpec{
	{req: AReq{Op: "unknown", Bad: "none"}, frame: frame([]byte{99})},
	{req: AReq{Op: "unknown", Bad: "none"}, frame: frame([]byte{20, 0, 0, 0, 1, 120})},
	{req: AReq{Op: "unknown", Bad: "none"}, frame: frame([]byte{5})},
	{req: AReq{Op: "malformed", Bad: "none"}, frame: frame([]byte{13, 0, 0})},
	{req: AReq{Op: "malformed", Bad: "none"}, frame: frame([]byte{22, 0, 0, 0, 9, 1})},
	{req: AReq{Op: "malformed", Bad: "none"}, frame: frame([]byte{18, 0, 0, 0, 2, 1, 2})},
	{req: AReq{Op: "malformed", Bad: "none"}, frame: frame([]byte{17, 0, 0, 0, 3, 'n', 'o', 'p'})},
	{req: AReq{Op: "v1list", Bad: "none"}, frame: frame([]byte{1})},
	{req: AReq{Op: "v1removeall", Bad: "none"}, frame: frame([]byte{9})},
	{req: AReq{Op: "list", Bad: "none"}, frame: frame([]byte{11})},
	{req: AReq{Op: "removeall", Bad: "none"}, frame: frame([]byte{19})},
	{req: AReq{Op: "ext", Bad: "none"}, frame: frame(append([]byte{27}, sshStr([]byte("session-bind@openssh.com"))...))},
}
var rawEnd = []opSpec{
	{req: AReq{Op: "zero", Bad: "none"}, frame: []byte{0, 0, 0, 0}},
	{req: AReq{Op: "oversize", Bad: "none"}, frame: append(u32(MaxMsg+1), 11, 0, 0, 0, 1, 11)},
	{req: AReq{Op: "oversize", Bad: "none"}, frame: []byte{255, 255, 255, 255, 11}},
}

var bigLeft atomic.Int32  // oversized (16 MiB) requests still allowed in this execution
var stormMode atomic.Bool // keyring storm: only operations on the key list

func genOp(rng *rand.Rand, kind string, keys []string, tag string, allowBig bool) opSpec {
	kp := Pool()
	k := keys[rng.Intn(len(keys))]
	none := "none"
	if stormMode.Load() {
		switch x := rng.Intn(100); {
		case x < 35:
			return opSpec{req: AReq{Op: "add", K: k, S: "c" + tag, Bad: none}}
		case x < 62:
			return opSpec{req: AReq{Op: "remove", K: k, Bad: none}}
		case x < 67:
			return opSpec{req: AReq{Op: "removeall", Bad: none}}
		case x < 92 || kind != "direct":
			return opSpec{req: AReq{Op: "list", Bad: none}}
		}
		return opSpec{req: AReq{Op: "signers", Bad: none}}
	}
	switch x := rng.Intn(100); {
	case x < 22:
		bad, life := none, 0
		switch rng.Intn(8) {
		case 0:
			bad = "confirm"
		case 1:
			bad = "ext"
		case 2:
			life = 3600
		}
		return opSpec{req: AReq{Op: "add", K: k, S: "c" + tag, N: life, Bad: bad}}
	case x < 36:
		return opSpec{req: AReq{Op: "remove", K: k, Bad: none}}
	case x < 41:
		return opSpec{req: AReq{Op: "removeall", Bad: none}}
	case x < 62:
		return opSpec{req: AReq{Op: "list", Bad: none}}
	case x < 80:
		n := 0
		if kp[k].Kind == "rsa" || kp[k].Kind == "rsa-cert" {
			n = []int{0, 2, 4}[rng.Intn(3)]
		}
		if allowBig && (kind == "serial" || kind == "pipelined") && rng.Intn(6) == 0 && bigLeft.Add(-1) >= 0 {
			return opSpec{req: AReq{Op: "oversize", K: k, Bad: none}, big: true}
		}
		return opSpec{req: AReq{Op: "sign", K: k, S: "d" + tag, N: n, Bad: none}}
	case x < 87:
		return opSpec{req: AReq{Op: "lock", S: []string{"p", "q"}[rng.Intn(2)], Bad: none}}
	case x < 95:
		return opSpec{req: AReq{Op: "unlock", S: []string{"p", "q", "e"}[rng.Intn(3)], Bad: none}}
	case x < 97 && kind == "direct":
		return opSpec{req: AReq{Op: "signers", Bad: none}}
	}
	return opSpec{req: AReq{Op: "ext", Bad: none}}
}

// runCallers runs the caller goroutines of all endpoints and returns when they are done.
func runCallers(t *testing.T, lg *Log, rng *rand.Rand, eps []*endpoint, keys []string, maxCallers, maxOps int, allowBig bool, mid func()) {
	var wg sync.WaitGroup
	var midOnce sync.Once
	start := make(chan struct{}) // all callers start together
	for _, ep := range eps {
		nc := 1 + rng.Intn(maxCallers)
		if ep.kind == "raw" {
			nc = 1
		}
		if stormMode.Load() {
			nc = maxCallers
		}
		for p := 1; p <= nc; p++ {
			nops := 2 + rng.Intn(maxOps-1)
			if stormMode.Load() {
				nops = maxOps
			}
			var ops []opSpec
			for i := 0; i < nops; i++ {
				tag := fmt.Sprintf("%d.%d.%d", ep.c, p, i)
				if ep.kind == "raw" {
					ops = append(ops, rawMenu[rng.Intn(len(rawMenu))])
				} else {
					ops = append(ops, genOp(rng, ep.kind, keys, tag, allowBig))
				}
			}
			if ep.kind == "raw" && rng.Intn(2) == 0 {
				ops = append(ops, rawEnd[rng.Intn(len(rawEnd))], rawMenu[rng.Intn(len(rawMenu))])
			}
			seed := rng.Int63()
			wg.Add(1)
			go func(ep *endpoint, p int, ops []opSpec) {
				defer wg.Done()
				r := rand.New(rand.NewSource(seed))
				<-start
				for i, o := range ops {
					yield(r)
					if mid != nil && i == len(ops)/2 && ep.c == 1 && p == 1 {
						midOnce.Do(mid)
					}
					lg.Call(ep.c, p, o.req)
					var res ARep
					if ep.kind == "raw" {
						res = doRaw(ep, o)
					} else {
						res = doAPI(ep, o)
					}
					lg.Ret(ep.c, p, res)
				}
			}(ep, p, ops)
		}
	}
	close(start)
	wg.Wait()
}

func waitOrDump(t *testing.T, what string, d time.Duration, f func()) bool {
	done := make(chan struct{})
	go func() { f(); close(done) }()
	select {
	case <-done:
		return true
	case <-time.After(d):
		buf := make([]byte, 1<<20)
		n := runtime.Stack(buf, true)
		hangDump = string(buf[:n])
		return false
	}
}

var hangDump string

// whatever the passphrase in force, the agent ends unlocked and is listed
var finalProbe = []opSpec{{req: AReq{Op: "unlock", S: "p", Bad: "none"}}, {req: AReq{Op: "unlock", S: "q", Bad: "none"}},
	{req: AReq{Op: "list", Bad: "none"}}, {req: AReq{Op: "signers", Bad: "none"}}}

// one recorded execution over in-memory connections
func concurrentRound(t *testing.T, round int, rng *rand.Rand, allowBig bool, storm bool) (events []map[string]any, wires map[int]*wireRec, ok bool) {
	lg := &Log{}
	kr := agent.NewKeyring()
	var srvWG sync.WaitGroup
	bigLeft.Store(1)
	nconn := 2 + rng.Intn(3)
	kinds := []string{"serial", "pipelined", "raw", "direct"}
	if storm {
		// keyring storm: direct callers and one pipelined connection hammer a few keys (atomicity of
		// Add / Remove / RemoveAll against List and Signers under keyring.mu)
		nconn, kinds = 3, []string{"direct", "direct", "pipelined"}
	}
	var eps []*endpoint
	wires = map[int]*wireRec{}
	real := false
	for c := 1; c <= nconn; c++ {
		kind := kinds[rng.Intn(len(kinds))]
		if storm {
			kind = kinds[c-1]
		}
		if c == nconn && !real {
			kind = []string{"serial", "pipelined"}[rng.Intn(2)]
		}
		ep := &endpoint{c: c, kind: kind}
		switch kind {
		case "direct":
			ep.api = kr.(agent.ExtendedAgent)
			ep.close = func() {}
		default:
			real = real || kind != "raw"
			wires[c] = &wireRec{}
			conn := servePair(kr, c, lg, wires[c], &srvWG)
			ep.close = func() { conn.Close() }
			switch kind {
			case "serial":
				ep.api = agent.NewClient(noCloser{&jitter{conn: conn}})
			case "pipelined":
				ep.api = agent.NewClient(&jitter{conn: conn})
			case "raw":
				ep.raw = conn
			}
		}
		lg.Conn(c, kind != "direct")
		eps = append(eps, ep)
	}
	names := Names()
	rng.Shuffle(len(names), func(i, j int) { names[i], names[j] = names[j], names[i] })
	keys := names[:2+rng.Intn(2)]
	maxOps := 4
	if storm {
		keys, maxOps = []string{"ed1", "ed2", "ec1", "ed1c"}, 8
	}
	stormMode.Store(storm)
	maxCallers := 3
	if storm {
		maxCallers = 2
	}
	fin := waitOrDump(t, "callers", 240*time.Second, func() {
		runCallers(t, lg, rng, eps, keys, maxCallers, maxOps, allowBig, nil)
		// the final state, seen directly
		lg.Conn(6, false)
		fe := &endpoint{c: 6, kind: "direct", api: kr.(agent.ExtendedAgent)}
		for _, o := range finalProbe {
			lg.Call(6, 1, o.req)
			lg.Ret(6, 1, doAPI(fe, o))
		}
		for _, ep := range eps {
			ep.close()
		}
		srvWG.Wait()
	})
	return lg.Events(), wires, fin
}

// TestConcurrent records VERIF_X06_ROUNDS executions.
func TestConcurrent(t *testing.T) {
	out := vutil.NewOut()
	defer func() {
		if err := out.Write(); err != nil {
			t.Fatal(err)
		}
	}()
	log.SetOutput(io.Discard)
	rounds, _ := strconv.Atoi(vutil.Env("VERIF_X06_ROUNDS", "20"))
	f, err := os.Create(vutil.Env("VERIF_X06_TRACES", os.DevNull))
	if err != nil {
		t.Fatal(err)
	}
	defer f.Close()
	enc := json.NewEncoder(f)
	ops, bigs := 0, 0
	for r := 0; r < rounds; r++ {
		rng := vutil.Rand(int64(6000 + r))
		ev, _, ok := concurrentRound(t, r, rng, r%8 == 5, r%4 == 3)
		if !ok {
			classifyHang(t, out, "concurrent", r, ev)
			return
		}
		for _, e := range ev {
			if e["ev"] == "call" {
				ops++
				if e["op"] == "oversize" {
					bigs++
				}
			}
		}
		out.Case(fmt.Sprintf("conc|%d|%d", vutil.Seed(), r))
		if err := enc.Encode(ev); err != nil {
			t.Fatal(err)
		}
		if r == 0 {
			out.Sample(map[string]any{"events_of_first_execution": len(ev), "first_events": ev[:min(len(ev), 12)]})
		}
	}
	out.Extra["x06_concurrent_calls_recorded"] = ops
	out.Extra["x06_oversized_requests_sent"] = bigs
}

// a watchdog fired: a verdict only when NO goroutine can run (nothing runnable / running / in a syscall besides the
// watchdog itself) and a caller is still inside an API call (or a raw peer still waits for its reply): that call can
// never return (W6).  A slow machine -- something can still run -- is exit 2.
func classifyHang(t *testing.T, out *vutil.Out, what string, round int, ev []map[string]any) {
	var blocked []string
	busy := 0
	for i, g := range strings.Split(hangDump, "\n\n") {
		hdr := g
		if j := strings.IndexByte(g, '\n'); j > 0 {
			hdr = g[:j]
		}
		if i > 0 && (strings.Contains(hdr, "[runnable") || strings.Contains(hdr, "[running") || strings.Contains(hdr, "[syscall") || strings.Contains(hdr, "[sleep")) {
			busy++
		}
		// a CALLER that never returned: its stack goes through the harness's doAPI / doRaw
		if strings.Contains(g, "x06.doAPI") || strings.Contains(g, "x06.doRaw") {
			blocked = append(blocked, g)
		}
	}
	if len(blocked) > 0 && busy == 0 {
		top := "raw-peer-waits-for-reply"
		for _, ln := range strings.Split(blocked[0], "\n") {
			if strings.Contains(ln, "ssh/agent.") {
				top = strings.TrimSpace(ln)
				if i := strings.LastIndexByte(top, '('); i > 0 {
					top = top[:i]
				}
				top = strings.TrimPrefix(top, "golang.org/x/crypto/ssh/")
				break
			}
		}
		out.Violation("x06-hang:"+top, fmt.Sprintf("%s execution %d did not finish within the watchdog: nothing can run and %d call(s) never returned (W6), blocked in %s", what, round, len(blocked), top),
			map[string]any{"goroutines": blocked[:min(len(blocked), 6)], "events": ev})
		t.Errorf("%s execution %d hung inside ssh/agent: %s", what, round, top)
		return
	}
	t.Fatalf("%s execution %d did not finish within the watchdog, but %d goroutines can still run / no caller is inside a call (slow machine)\n%s",
		what, round, busy, hangDump[:min(len(hangDump), 4000)])
}

var _ = bytes.Equal
var _ = memconn.Pair
