package x06

// Agent forwarding over a REAL ssh client/server pair (in-memory transport): the client side holds the
// keyring and calls agent.ForwardToAgent + agent.RequestAgentForwarding; the server side opens
// auth-agent@openssh.com channels and runs agent.NewClient on them.  Two forwarded channels are used
// simultaneously by concurrent callers, a third carries a raw peer, the keyring is also called directly;
// in the middle of the run the first channel is closed.  The recorded executions go through the same
// trace specification (forwarded channels are opaque connections).  A second scenario forwards to a unix
// socket with agent.ForwardToRemote, where the harness serves (and observes) each accepted connection.

import (
	"crypto/ed25519"
	"crypto/rand"
	"encoding/json"
	"fmt"
	"io"
	"log"
	mrand "math/rand"
	"net"
	"os"
	"path/filepath"
	"strconv"
	"sync"
	"testing"
	"time"

	"golang.org/x/crypto/ssh"
	"golang.org/x/crypto/ssh/agent"
	"verif/harness/memconn"
	"verif/harness/vutil"
)

var (
	hostOnce   sync.Once
	hostSigner ssh.Signer
)

func hostKey() ssh.Signer {
	hostOnce.Do(func() {
		_, priv, err := ed25519.GenerateKey(rand.Reader)
		if err != nil {
			panic(err)
		}
		hostSigner, err = ssh.NewSignerFromKey(priv)
		if err != nil {
			panic(err)
		}
	})
	return hostSigner
}

type sshPair struct {
	client *ssh.Client
	server *ssh.ServerConn
	a, b   *memconn.Conn
	fwdReq chan bool // the server saw auth-agent-req@openssh.com
}

func newSSHPair() (*sshPair, error) {
	a, b := memconn.Pair()
	p := &sshPair{a: a, b: b, fwdReq: make(chan bool, 4)}
	scfg := &ssh.ServerConfig{NoClientAuth: true}
	scfg.AddHostKey(hostKey())
	type sres struct {
		c     *ssh.ServerConn
		chans <-chan ssh.NewChannel
		reqs  <-chan *ssh.Request
		err   error
	}
	sc := make(chan sres, 1)
	go func() {
		c, chans, reqs, err := ssh.NewServerConn(b, scfg)
		sc <- sres{c, chans, reqs, err}
	}()
	cc, cchans, creqs, err := ssh.NewClientConn(a, "mem", &ssh.ClientConfig{User: "u", HostKeyCallback: ssh.InsecureIgnoreHostKey()})
	if err != nil {
		a.Close()
		b.Close()
		return nil, fmt.Errorf("client handshake: %w", err)
	}
	s := <-sc
	if s.err != nil {
		a.Close()
		b.Close()
		return nil, fmt.Errorf("server handshake: %w", s.err)
	}
	p.server = s.c
	p.client = ssh.NewClient(cc, cchans, creqs)
	go ssh.DiscardRequests(s.reqs)
	go func() {
		for nc := range s.chans {
			if nc.ChannelType() != "session" {
				nc.Reject(ssh.UnknownChannelType, "x06 server: sessions only")
				continue
			}
			ch, reqs, err := nc.Accept()
			if err != nil {
				continue
			}
			go io.Copy(io.Discard, ch)
			go func() {
				for r := range reqs {
					ok := r.Type == "auth-agent-req@openssh.com"
					if ok {
						p.fwdReq <- true
					}
					if r.WantReply {
						r.Reply(ok, nil)
					}
				}
			}()
		}
	}()
	return p, nil
}

func (p *sshPair) close() {
	p.client.Close()
	p.server.Close()
	p.a.Close()
	p.b.Close()
}

// forwardRound: mode "agent" (ForwardToAgent) or "remote" (ForwardToRemote to a unix socket).
func forwardRound(t *testing.T, round int, rng *mrand.Rand, mode string, dir string) (events []map[string]any, ok bool, err error) {
	lg := &Log{}
	kr := agent.NewKeyring()
	pair, err := newSSHPair()
	if err != nil {
		return nil, true, err
	}
	defer pair.close()
	var srvWG sync.WaitGroup
	var ln net.Listener
	accepted := make(chan int) // the id for the unix connection just accepted (0: not to be served)
	if mode == "agent" {
		if err := agent.ForwardToAgent(pair.client, kr); err != nil {
			return nil, true, err
		}
	} else {
		sock := filepath.Join(dir, fmt.Sprintf("a%d.sock", round))
		ln, err = net.Listen("unix", sock)
		if err != nil {
			return nil, true, fmt.Errorf("unix sockets unavailable: %w", err)
		}
		defer ln.Close()
		go func() {
			for {
				conn, err := ln.Accept()
				if err != nil {
					return
				}
				var id int
				select {
				case id = <-accepted:
				case <-time.After(20 * time.Second):
				}
				if id == 0 {
					conn.Close() // the probe connection of ForwardToRemote, or an unexpected one
					continue
				}
				srvWG.Add(1)
				go func() {
					defer srvWG.Done()
					agent.ServeAgent(kr, &srvTap{c: id, log: lg, under: conn})
					conn.Close()
				}()
			}
		}()
		// ForwardToRemote dials once to probe the socket and closes that connection at once
		probe := make(chan struct{})
		go func() { defer close(probe); err = agent.ForwardToRemote(pair.client, sock) }()
		select {
		case accepted <- 0:
		case <-time.After(20 * time.Second):
		}
		<-probe
		if err != nil {
			return nil, true, err
		}
	}
	sess, err := pair.client.NewSession()
	if err != nil {
		return nil, true, err
	}
	if err := agent.RequestAgentForwarding(sess); err != nil {
		return nil, true, fmt.Errorf("RequestAgentForwarding: %w", err)
	}
	select {
	case <-pair.fwdReq:
	default:
		return nil, true, fmt.Errorf("the server never saw auth-agent-req@openssh.com")
	}
	// the server side opens the forwarded channels
	open := func(c int) (ssh.Channel, error) {
		ch, reqs, err := pair.server.OpenChannel("auth-agent@openssh.com", nil)
		if err != nil {
			return nil, err
		}
		go ssh.DiscardRequests(reqs)
		if mode == "remote" {
			// channels are opened one at a time: the next unix connection accepted belongs to this channel
			select {
			case accepted <- c:
			case <-time.After(20 * time.Second):
				return nil, fmt.Errorf("no unix connection was made for forwarded channel %d", c)
			}
		}
		return ch, nil
	}
	var eps []*endpoint
	var chans []ssh.Channel
	for c := 1; c <= 3; c++ {
		ch, err := open(c)
		if err != nil {
			return nil, true, fmt.Errorf("open forwarded channel %d: %w", c, err)
		}
		chans = append(chans, ch)
		lg.Conn(c, mode == "remote")
		ep := &endpoint{c: c, kind: "forwarded", close: func() { ch.Close() }}
		if c == 3 {
			ep.kind, ep.raw = "raw", ch
		} else {
			ep.api = agent.NewClient(ch)
		}
		eps = append(eps, ep)
	}
	lg.Conn(4, false)
	eps = append(eps, &endpoint{c: 4, kind: "direct", api: kr.(agent.ExtendedAgent), close: func() {}})
	names := Names()
	rng.Shuffle(len(names), func(i, j int) { names[i], names[j] = names[j], names[i] })
	keys := names[:2+rng.Intn(2)]
	fin := waitOrDump(t, "forward", 240*time.Second, func() {
		stormMode.Store(false)
		// in the middle of caller 1 of connection 1: the first forwarded channel is closed (that server only ends)
		runCallers(t, lg, rng, eps, keys, 2, 5, false, func() {
			lg.Close(1)
			chans[0].Close()
		})
		// a new channel still works after the others are gone
		lg.Conn(5, mode == "remote")
		if ch, err := open(5); err == nil {
			ep := &endpoint{c: 5, kind: "forwarded", api: agent.NewClient(ch)}
			for _, o := range finalProbe[:3] {
				lg.Call(5, 1, o.req)
				lg.Ret(5, 1, doAPI(ep, o))
			}
			ch.Close()
		} else {
			t.Errorf("opening a forwarded channel after the others were closed: %v", err)
		}
		lg.Conn(6, false)
		fe := &endpoint{c: 6, kind: "direct", api: kr.(agent.ExtendedAgent)}
		for _, o := range finalProbe {
			lg.Call(6, 1, o.req)
			lg.Ret(6, 1, doAPI(fe, o))
		}
		for _, ch := range chans {
			ch.Close()
		}
		if ln != nil {
			ln.Close()
		}
		srvWG.Wait()
	})
	return lg.Events(), fin, nil
}

// TestForward records VERIF_X06_ROUNDS executions of each forwarding scenario.
func TestForward(t *testing.T) {
	out := vutil.NewOut()
	defer func() {
		if err := out.Write(); err != nil {
			t.Fatal(err)
		}
	}()
	log.SetOutput(io.Discard)
	rounds, _ := strconv.Atoi(vutil.Env("VERIF_X06_ROUNDS", "6"))
	f, err := os.Create(vutil.Env("VERIF_X06_TRACES", os.DevNull))
	if err != nil {
		t.Fatal(err)
	}
	defer f.Close()
	enc := json.NewEncoder(f)
	dir, err := os.MkdirTemp("", "x06s")
	if err != nil {
		t.Fatal(err)
	}
	defer os.RemoveAll(dir)
	calls := map[string]int{}
	for r := 0; r < rounds; r++ {
		for _, mode := range []string{"agent", "remote"} {
			rng := vutil.Rand(int64(7000 + 2*r + len(mode)))
			ev, ok, err := forwardRound(t, r, rng, mode, dir)
			if err != nil {
				if mode == "remote" && r == 0 {
					out.Extra["x06_forward_to_remote_skipped"] = err.Error()
					continue
				}
				t.Fatalf("forwarding scenario %s, execution %d: %v", mode, r, err)
			}
			if !ok {
				classifyHang(t, out, "forward-"+mode, r, ev)
				return
			}
			for _, e := range ev {
				if e["ev"] == "call" {
					calls[mode]++
				}
			}
			out.Case(fmt.Sprintf("forward|%s|%d|%d", mode, vutil.Seed(), r))
			if err := enc.Encode(ev); err != nil {
				t.Fatal(err)
			}
		}
	}
	out.Extra["x06_forwarded_calls_recorded"] = calls
}
