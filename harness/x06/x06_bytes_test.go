package x06

// Binding E+R of spec/AgentWireCli.tla and spec/AgentWireSrv.tla: the octets TLC computed are compared
// with what the real agent.NewClient writes / what the real agent.ServeAgent writes, and the outcomes TLC
// predicted for scripted replies with what the real client returns.

import (
	"bytes"
	"encoding/binary"
	"encoding/json"
	"errors"
	"fmt"
	"io"
	"log"
	"os"
	"runtime/debug"
	"sort"
	"strings"
	"sync"
	"testing"
	"time"

	"golang.org/x/crypto/ssh"
	"golang.org/x/crypto/ssh/agent"
	"verif/harness/memconn"
	"verif/harness/vutil"
)

func hexs(b []byte) string {
	if len(b) > 600 {
		return fmt.Sprintf("%x...(%d octets)", b[:600], len(b))
	}
	return fmt.Sprintf("%x", b)
}

// labels of spec/AgentWireCodec.tla LabelBytes
var labelBytes = map[string][]byte{"a": []byte("a"), "b": []byte("bb"), "p": []byte("pw"), "q": []byte("q"), "e": {},
	"d": []byte("data to sign"), "x": []byte("x@v")}

// ---- a scripted peer for the client: collects what the client writes, answers from a script ----------

// serialPeer is an io.ReadWriter WITHOUT Close (agent.NewClient -> serialised client).
type serialPeer struct {
	mu      sync.Mutex
	written []byte
	replies []byte // served after the first complete request frame has been written
	armed   bool
}

func (s *serialPeer) Write(p []byte) (int, error) {
	s.mu.Lock()
	defer s.mu.Unlock()
	s.written = append(s.written, p...)
	if fr, _ := splitFrames(s.written); len(fr) > 0 {
		s.armed = true
	}
	return len(p), nil
}
func (s *serialPeer) Read(p []byte) (int, error) {
	s.mu.Lock()
	defer s.mu.Unlock()
	if !s.armed || len(s.replies) == 0 {
		return 0, io.EOF
	}
	n := copy(p, s.replies)
	s.replies = s.replies[n:]
	return n, nil
}

// pipePeer serves the same script over an in-memory net.Conn (has Close -> pipelined client).
func pipePeer(replies []byte) (client io.ReadWriteCloser, written func() []byte, stop func()) {
	a, b := memconn.Pair()
	var mu sync.Mutex
	var got []byte
	done := make(chan struct{})
	go func() {
		defer close(done)
		buf := make([]byte, 65536)
		answered := false
		for {
			n, err := b.Read(buf)
			mu.Lock()
			got = append(got, buf[:n]...)
			fr, _ := splitFrames(got)
			mu.Unlock()
			if len(fr) > 0 && !answered {
				answered = true
				b.Write(replies)
				b.Close() // end of stream after the scripted reply
			}
			if err != nil {
				return
			}
		}
	}()
	return a, func() []byte { mu.Lock(); defer mu.Unlock(); return append([]byte(nil), got...) }, func() { a.Close(); b.Close(); <-done }
}

type cliCall struct {
	Op      string `json:"op"`
	K       string `json:"k"`
	C       string `json:"c"`
	N       int    `json:"n"`
	Confirm bool   `json:"confirm"`
	Exts    int    `json:"exts"`
}

func extsOf(n int) []agent.ConstraintExtension {
	switch n {
	case 1:
		return []agent.ConstraintExtension{{ExtensionName: "x@v", ExtensionDetails: []byte{1, 2, 3}}}
	case 2:
		return []agent.ConstraintExtension{{ExtensionName: "x@v", ExtensionDetails: nil}, {ExtensionName: "y@v", ExtensionDetails: []byte{255, 0}}}
	}
	return nil
}

// perform invokes the API call on cl; the result is irrelevant for "req" cases.
func perform(cl agent.ExtendedAgent, c cliCall) error {
	kp := Pool()
	switch c.Op {
	case "list":
		_, err := cl.List()
		return err
	case "signers":
		_, err := cl.Signers()
		return err
	case "removeall":
		return cl.RemoveAll()
	case "remove":
		return cl.Remove(kp[c.K].Pub)
	case "lock":
		return cl.Lock(append([]byte(nil), labelBytes[c.C]...))
	case "unlock":
		return cl.Unlock(append([]byte(nil), labelBytes[c.C]...))
	case "sign":
		var err error
		if c.N == 0 {
			_, err = cl.Sign(kp[c.K].Pub, labelBytes[c.C])
		} else {
			_, err = cl.SignWithFlags(kp[c.K].Pub, labelBytes[c.C], agent.SignatureFlags(c.N))
		}
		return err
	case "ext":
		_, err := cl.Extension(string(labelBytes[c.C]), []byte{9, 9})
		return err
	case "add":
		k := kp[c.K]
		return cl.Add(agent.AddedKey{PrivateKey: k.Priv, Certificate: k.Cert, Comment: string(labelBytes[c.C]),
			LifetimeSecs: uint32(c.N), ConfirmBeforeUse: c.Confirm, ConstraintExtensions: extsOf(c.Exts)})
	}
	return fmt.Errorf("harness: unknown call %q", c.Op)
}

type cliOut struct {
	T    string `json:"t"`
	Keys []struct {
		Fmt     []int `json:"fmt"`
		Blob    []int `json:"blob"`
		Comment []int `json:"comment"`
	} `json:"keys"`
	Fmt []int `json:"fmt"`
	Sig []int `json:"sig"`
	Raw []int `json:"raw"`
}

type cliCase struct {
	Kind     string  `json:"kind"`
	Call     cliCall `json:"call"`
	Bytes    []int   `json:"bytes"`
	CallKind string  `json:"callkind"`
	Reply    string  `json:"reply"`
	Out      cliOut  `json:"out"`
}

// TestClient replays spec/AgentWireCli.tla.
func TestClient(t *testing.T) {
	out := vutil.NewOut()
	defer func() {
		if err := out.Write(); err != nil {
			t.Fatal(err)
		}
	}()
	log.SetOutput(io.Discard)
	table := map[string]*RawItem{}
	var cases []cliCase
	err := vutil.ReadNDJSON(os.Getenv("VERIF_CASES"), func(line []byte) error {
		if bytes.Contains(line, []byte(`"table"`)) {
			var tb struct {
				Table []RawItem `json:"table"`
			}
			if err := json.Unmarshal(line, &tb); err != nil {
				return err
			}
			for i := range tb.Table {
				table[tb.Table[i].Name] = &tb.Table[i]
			}
			return nil
		}
		var c cliCase
		if err := json.Unmarshal(line, &c); err != nil {
			return err
		}
		cases = append(cases, c)
		return nil
	})
	if err != nil {
		t.Fatal(err)
	}
	if len(table) == 0 || len(cases) == 0 {
		t.Fatalf("no table (%d) or cases (%d)", len(table), len(cases))
	}
	failure := frame([]byte{5})
	nReq, nRep := 0, 0
	for _, c := range cases {
		for _, mode := range []string{"serial", "pipelined"} {
			switch c.Kind {
			case "req":
				want := ints(c.Bytes)
				var got []byte
				var callErr error
				if mode == "serial" {
					sp := &serialPeer{replies: append([]byte(nil), failure...)}
					callErr = perform(agent.NewClient(sp), c.Call)
					got = sp.written
				} else {
					conn, written, stop := pipePeer(failure)
					callErr = perform(agent.NewClient(conn), c.Call)
					got = written()
					stop()
				}
				key := fmt.Sprintf("req|%s|%s|%s|%d|%v|%d|%s", c.Call.Op, c.Call.K, c.Call.C, c.Call.N, c.Call.Confirm, c.Call.Exts, mode)
				out.Case(key)
				nReq++
				if !bytes.Equal(got, want) {
					out.Violation("client-request-bytes:"+c.Call.Op, fmt.Sprintf("%s client, call %+v: octets written differ from the specification's frame", mode, c.Call),
						map[string]any{"case": c, "mode": mode, "want_hex": hexs(want), "got_hex": hexs(got), "call_error": fmt.Sprint(callErr)})
					t.Errorf("%s %+v: wrote %s want %s", mode, c.Call, hexs(got), hexs(want))
				}
			case "rep":
				it := table[c.Reply]
				if it == nil {
					t.Fatalf("reply %q not in table", c.Reply)
				}
				if it.Pad > 0 && mode == "pipelined" && !vutil.Thorough() {
					continue // one 16 MiB reply per call kind is enough for the quick tier
				}
				stream := it.Bytes()
				res := playReply(mode, c.CallKind, stream)
				out.Case("rep|" + c.CallKind + "|" + c.Reply + "|" + mode)
				nRep++
				if d := diffOutcome(c, it, res); d != "" {
					out.Violation("client-reply-outcome:"+c.CallKind+":"+c.Reply, fmt.Sprintf("%s client, %s call, reply %q: %s", mode, c.CallKind, c.Reply, d),
						map[string]any{"case": c, "mode": mode, "reply_hex": hexs(stream), "real": res})
					t.Errorf("%s %s %s: %s", mode, c.CallKind, c.Reply, d)
				}
			}
		}
	}
	out.Extra["x06_client_request_cases"] = nReq
	out.Extra["x06_client_reply_cases"] = nRep
	out.Sample(map[string]any{"client_cases": len(cases), "reply_menu": len(table)})
}

type realOutcome struct {
	T    string      `json:"t"`
	Err  string      `json:"err"`
	Keys [][3]string `json:"keys"` // fmt, blob hex, comment hex
	Fmt  string      `json:"fmt"`
	Sig  string      `json:"sig"`
	Raw  int         `json:"raw_len"`
	raw  []byte
}

func playReply(mode, kind string, stream []byte) realOutcome {
	var cl agent.ExtendedAgent
	var stop func()
	if mode == "serial" {
		cl = agent.NewClient(&serialPeer{replies: append([]byte(nil), stream...)})
	} else {
		conn, _, st := pipePeer(stream)
		cl, stop = agent.NewClient(conn), st
	}
	var r realOutcome
	var err error
	switch kind {
	case "simple":
		err = cl.RemoveAll()
	case "list":
		var keys []*agent.Key
		keys, err = cl.List()
		for _, k := range keys {
			r.Keys = append(r.Keys, [3]string{k.Format, fmt.Sprintf("%x", k.Blob), fmt.Sprintf("%x", k.Comment)})
		}
	case "sign":
		var sig *ssh.Signature
		sig, err = cl.Sign(Pool()["ed1"].Pub, []byte("data to sign"))
		if sig != nil {
			r.Fmt, r.Sig = sig.Format, fmt.Sprintf("%x", sig.Blob)
		}
	case "ext":
		var raw []byte
		raw, err = cl.Extension("x@v", []byte{9, 9})
		r.raw, r.Raw = raw, len(raw)
	}
	if stop != nil {
		stop()
	}
	switch {
	case err == nil:
		r.T = "ok"
	case errors.Is(err, agent.ErrExtensionUnsupported):
		r.T, r.Err = "unsupported", err.Error()
	default:
		r.T, r.Err = "err", err.Error()
	}
	return r
}

func diffOutcome(c cliCase, it *RawItem, r realOutcome) string {
	if r.T != c.Out.T {
		return fmt.Sprintf("outcome %q (%s), specification says %q", r.T, r.Err, c.Out.T)
	}
	if r.T != "ok" {
		return ""
	}
	switch c.CallKind {
	case "list":
		if len(r.Keys) != len(c.Out.Keys) {
			return fmt.Sprintf("%d keys returned, specification says %d", len(r.Keys), len(c.Out.Keys))
		}
		for i, k := range c.Out.Keys {
			w := [3]string{string(ints(k.Fmt)), fmt.Sprintf("%x", ints(k.Blob)), fmt.Sprintf("%x", ints(k.Comment))}
			if r.Keys[i] != w {
				return fmt.Sprintf("key %d is %v, specification says %v", i, r.Keys[i], w)
			}
		}
	case "sign":
		if r.Fmt != string(ints(c.Out.Fmt)) || r.Sig != fmt.Sprintf("%x", ints(c.Out.Sig)) {
			return fmt.Sprintf("signature (%s, %s) differs from the specification's (%s, %x)", r.Fmt, r.Sig, ints(c.Out.Fmt), ints(c.Out.Sig))
		}
	case "ext":
		want := append(ints(c.Out.Raw), make([]byte, it.Pad)...)
		if !bytes.Equal(r.raw, want) {
			return fmt.Sprintf("raw extension reply of %d octets differs from the specification's %d", len(r.raw), len(want))
		}
	}
	return ""
}

// ---- server sessions ------------------------------------------------------------------------------------

type srvExp struct {
	T    string   `json:"t"`
	B    []int    `json:"b"`
	E    []string `json:"e"`
	K    string   `json:"k"`
	Fmt  []int    `json:"fmt"`
	Data []int    `json:"data"`
}
type srvSession struct {
	Inp  []string `json:"inp"`
	Out  []srvExp `json:"out"`
	Dead string   `json:"dead"`
}

type streamRW struct {
	r   *bytes.Reader
	out bytes.Buffer
}

func (o *streamRW) Read(p []byte) (int, error)  { return o.r.Read(p) }
func (o *streamRW) Write(p []byte) (int, error) { return o.out.Write(p) }

// TestServer replays spec/AgentWireSrv.tla.
func TestServer(t *testing.T) {
	out := vutil.NewOut()
	defer func() {
		if err := out.Write(); err != nil {
			t.Fatal(err)
		}
	}()
	log.SetOutput(io.Discard)
	table := map[string]*RawItem{}
	entries := map[string][]byte{}
	var sessions []srvSession
	err := vutil.ReadNDJSON(os.Getenv("VERIF_CASES"), func(line []byte) error {
		if bytes.Contains(line, []byte(`"table"`)) {
			var tb struct {
				Table   []RawItem `json:"table"`
				MaxMsg  int       `json:"maxmsg"`
				Entries []struct {
					Name string `json:"name"`
					B    []int  `json:"b"`
				} `json:"entries"`
			}
			if err := json.Unmarshal(line, &tb); err != nil {
				return err
			}
			if tb.MaxMsg != MaxMsg {
				return fmt.Errorf("specification instantiated with MaxMsg %d, harness with %d", tb.MaxMsg, MaxMsg)
			}
			for i := range tb.Table {
				table[tb.Table[i].Name] = &tb.Table[i]
			}
			for _, e := range tb.Entries {
				entries[e.Name] = ints(e.B)
			}
			return nil
		}
		var s srvSession
		if err := json.Unmarshal(line, &s); err != nil {
			return err
		}
		sessions = append(sessions, s)
		return nil
	})
	if err != nil {
		t.Fatal(err)
	}
	if len(table) == 0 || len(sessions) == 0 {
		t.Fatalf("no table (%d) or sessions (%d)", len(table), len(sessions))
	}
	// the 16 MiB frame is expensive: in the quick tier keep a bounded number of sessions that contain it
	bigBudget := 12
	if vutil.Thorough() {
		bigBudget = 400
	}
	deadline := time.Now().Add(20 * time.Minute)
	orderDiffs, sigs, replies := 0, 0, 0
	for _, s := range sessions {
		big := false
		var in []byte
		for _, n := range s.Inp {
			it := table[n]
			if it == nil {
				t.Fatalf("frame %q not in table", n)
			}
			if it.Pad > 0 {
				big = true
			}
		}
		if big {
			if bigBudget == 0 {
				continue
			}
			bigBudget--
		}
		if time.Now().After(deadline) {
			break
		}
		for _, n := range s.Inp {
			in = append(in, table[n].Bytes()...)
		}
		rw := &streamRW{r: bytes.NewReader(in)}
		var serveErr error
		var pan any
		var stack string
		func() {
			defer func() {
				if p := recover(); p != nil {
					pan, stack = p, string(debug.Stack())
				}
			}()
			serveErr = agent.ServeAgent(agent.NewKeyring(), rw)
		}()
		key := strings.Join(s.Inp, ",")
		out.Case(key)
		last := s.Inp[len(s.Inp)-1]
		if i := strings.IndexByte(last, ':'); i > 0 {
			last = last[:i]
		}
		viol := func(kind, what string, extra map[string]any) {
			d := map[string]any{"session": s, "input_hex": hexs(in), "output_hex": hexs(rw.out.Bytes()), "serve_error": fmt.Sprint(serveErr)}
			for k, v := range extra {
				d[k] = v
			}
			out.Violation("serveagent-"+kind+":"+last, fmt.Sprintf("ServeAgent on frames [%s]: %s", key, what), d)
			t.Errorf("[%s]: %s", key, what)
		}
		if pan != nil {
			viol("panic", fmt.Sprintf("panic: %v", pan), map[string]any{"stack": stack})
			continue
		}
		frames, rest := splitFrames(rw.out.Bytes())
		if len(rest) != 0 {
			viol("framing", fmt.Sprintf("%d octets written that do not form a frame", len(rest)), nil)
			continue
		}
		if len(frames) != len(s.Out) {
			viol("reply-count", fmt.Sprintf("%d replies written, specification says %d (one per request served, none after the connection ended: %s)", len(frames), len(s.Out), s.Dead), nil)
			continue
		}
		for i, e := range s.Out {
			got := frames[i]
			replies++
			switch e.T {
			case "lit":
				if !bytes.Equal(got, ints(e.B)) {
					viol("reply", fmt.Sprintf("reply %d to %q is %s, specification says %x", i+1, s.Inp[i], hexs(got), ints(e.B)), nil)
				}
			case "ids":
				want := append([]byte{12}, u32(uint32(len(e.E)))...)
				var wantEntries []string
				for _, n := range e.E {
					if entries[n] == nil {
						t.Fatalf("entry %q not in table", n)
					}
					want = append(want, entries[n]...)
					wantEntries = append(wantEntries, string(entries[n]))
				}
				if bytes.Equal(got, want) {
					break
				}
				// same entries in another order?  (the order of an identities answer is not specified)
				gotEntries, ok := idEntries(got)
				sort.Strings(gotEntries)
				sort.Strings(wantEntries)
				if ok && strings.Join(gotEntries, "\x00|") == strings.Join(wantEntries, "\x00|") {
					orderDiffs++
					break
				}
				viol("identities", fmt.Sprintf("identities answer %d is %s, specification says entries %v", i+1, hexs(got), e.E), nil)
			case "sig":
				k := Pool()[e.K]
				sb, tail, ok := takeStr(got[1:])
				if got[0] != 14 || !ok || len(tail) != 0 {
					viol("signature", fmt.Sprintf("reply %d is not a sign response: %s", i+1, hexs(got)), nil)
					break
				}
				f, t1, ok1 := takeStr(sb)
				sg, _, ok2 := takeStr(t1)
				if !ok1 || !ok2 || string(f) != string(ints(e.Fmt)) {
					viol("signature", fmt.Sprintf("signature blob of reply %d has format %q, specification says %q", i+1, f, ints(e.Fmt)), nil)
					break
				}
				if err := k.Pub.Verify(ints(e.Data), &ssh.Signature{Format: string(f), Blob: sg}); err != nil {
					viol("signature", fmt.Sprintf("signature of reply %d does not verify under %s: %v", i+1, e.K, err), nil)
					break
				}
				sigs++
			default:
				t.Fatalf("unknown expectation %q", e.T)
			}
		}
	}
	out.Extra["x06_server_sessions"] = out.Evaluations
	out.Extra["x06_server_replies_compared"] = replies
	out.Extra["x06_server_signatures_verified"] = sigs
	out.Extra["x06_identities_answers_in_other_order"] = orderDiffs
	out.Sample(map[string]any{"session": sessions[len(sessions)/2]})
}

func idEntries(body []byte) ([]string, bool) {
	if len(body) < 5 || body[0] != 12 {
		return nil, false
	}
	n := int(binary.BigEndian.Uint32(body[1:5]))
	rest := body[5:]
	var es []string
	for i := 0; i < n; i++ {
		_, t1, ok := takeStr(rest)
		if !ok {
			return nil, false
		}
		_, t2, ok := takeStr(t1)
		if !ok {
			return nil, false
		}
		es = append(es, string(rest[:len(rest)-len(t2)]))
		rest = t2
	}
	return es, len(rest) == 0
}

// TestKeysModule: the committed spec/AgentWireKeys.tla is the table of the current key pool.
func TestKeysModule(t *testing.T) {
	out := vutil.NewOut()
	defer out.Write()
	p := vutil.Env("VERIF_X06_KEYS", "/verif/spec/AgentWireKeys.tla")
	b, err := os.ReadFile(p)
	if err != nil {
		t.Fatal(err)
	}
	out.Case("keys-module")
	if string(b) != KeysModule() {
		t.Fatalf("%s is stale: regenerate with VERIF_X06_EMIT=%s go test -run TestEmitKeysModule ./x06/", p, p)
	}
}
