package x06

// wire.go: the harness's own view of the agent wire format (used to materialise TLC-emitted frames, to
// summarise observed frames as events for trace validation, and to drive raw peers), the event log, and
// the recording transports.

import (
	"bytes"
	"encoding/binary"
	"errors"
	"fmt"
	"io"
	"runtime"
	"sort"
	"sync"
	"sync/atomic"
	"time"

	"golang.org/x/crypto/ssh"
	"golang.org/x/crypto/ssh/agent"
	"verif/harness/memconn"
)

const MaxMsg = 16 << 20 // the limit the specification is instantiated with (AgentWire*.cfg MaxMsg)

func u32(n uint32) []byte { b := make([]byte, 4); binary.BigEndian.PutUint32(b, n); return b }
func sshStr(b []byte) []byte {
	return append(u32(uint32(len(b))), b...)
}
func frame(body []byte) []byte { return append(u32(uint32(len(body))), body...) }

func ints(v []int) []byte {
	b := make([]byte, len(v))
	for i, x := range v {
		b[i] = byte(x)
	}
	return b
}

// RawItem is a frame of a TLC menu: hdr ++ body ++ pad zero octets.
type RawItem struct {
	Name string `json:"name"`
	Hdr  []int  `json:"hdr"`
	Body []int  `json:"body"`
	Pad  int    `json:"pad"`
}

func (r *RawItem) Bytes() []byte {
	b := append(ints(r.Hdr), ints(r.Body)...)
	if r.Pad > 0 {
		b = append(b, make([]byte, r.Pad)...)
	}
	return b
}

// splitFrames cuts a reply stream into frame bodies; rest is what does not form a whole frame.
func splitFrames(b []byte) (frames [][]byte, rest []byte) {
	for len(b) >= 4 {
		l := int(binary.BigEndian.Uint32(b))
		if l > len(b)-4 {
			break
		}
		frames = append(frames, b[4:4+l])
		b = b[4+l:]
	}
	return frames, b
}

func takeStr(b []byte) (s, rest []byte, ok bool) {
	if len(b) < 4 {
		return nil, nil, false
	}
	l := int(binary.BigEndian.Uint32(b))
	if l < 0 || l > len(b)-4 {
		return nil, nil, false
	}
	return b[4 : 4+l], b[4+l:], true
}

// ---- the abstract request / reply of spec/AgentWireServe.tla --------------------------------------

// AReq is the abstract request: op k s n bad.
type AReq struct {
	Op  string `json:"op"`
	K   string `json:"k"`
	S   string `json:"s"`
	N   int    `json:"n"`
	Bad string `json:"bad"`
}

func mpintOf(mag []byte) []byte {
	if len(mag) > 0 && mag[0]&0x80 != 0 {
		mag = append([]byte{0}, mag...)
	}
	return sshStr(mag)
}

var layouts = map[string][][2]string{
	"rsa":          {{"mpint", "n"}, {"mpint", "e"}, {"mpint", "d"}, {"mpint", "iqmp"}, {"mpint", "p"}, {"mpint", "q"}},
	"dsa":          {{"mpint", "p"}, {"mpint", "q"}, {"mpint", "g"}, {"mpint", "y"}, {"mpint", "x"}},
	"ecdsa":        {{"string", "curve"}, {"string", "q"}, {"mpint", "d"}},
	"ed25519":      {{"string", "pub"}, {"string", "priv"}},
	"rsa-cert":     {{"string", "cert"}, {"mpint", "d"}, {"mpint", "iqmp"}, {"mpint", "p"}, {"mpint", "q"}},
	"dsa-cert":     {{"string", "cert"}, {"mpint", "x"}},
	"ecdsa-cert":   {{"string", "cert"}, {"mpint", "d"}},
	"ed25519-cert": {{"string", "cert"}, {"string", "pub"}, {"string", "priv"}},
}

// keySection is string(type) ++ private fields as they stand in an add-identity request.
func keySection(k *Key) []byte {
	b := sshStr([]byte(k.Type))
	for _, f := range layouts[k.Kind] {
		if f[0] == "mpint" {
			b = append(b, mpintOf(k.Fields[f[1]])...)
		} else {
			b = append(b, sshStr(k.Fields[f[1]])...)
		}
	}
	return b
}

var (
	sectOnce sync.Once
	sections map[string][]byte
)

// summarise reads a request body the way the dispatch table of the specification does, at the level
// of the abstract request (used only to describe observed traffic in events; the octet-exact reading is TLC's).
func summarise(body []byte) AReq {
	sectOnce.Do(func() {
		sections = map[string][]byte{}
		for n, k := range Pool() {
			sections[n] = keySection(k)
		}
	})
	bad := AReq{Op: "malformed", Bad: "none"}
	r := AReq{Bad: "none"}
	if len(body) == 0 {
		return bad
	}
	rest := body[1:]
	switch body[0] {
	case 11:
		r.Op = "list"
	case 19:
		r.Op = "removeall"
	case 1:
		r.Op = "v1list"
	case 9:
		r.Op = "v1removeall"
	case 18:
		blob, tail, ok := takeStr(rest)
		if !ok || len(tail) != 0 {
			return bad
		}
		if _, _, ok := takeStr(blob); !ok {
			return bad
		}
		r.Op, r.K = "remove", ByBlob(blob)
		if r.K == "" {
			r.Op = "foreign"
		}
	case 22, 23:
		p, tail, ok := takeStr(rest)
		if !ok || len(tail) != 0 {
			return bad
		}
		r.Op, r.S = map[byte]string{22: "lock", 23: "unlock"}[body[0]], passLabel(p)
	case 13:
		blob, t1, ok := takeStr(rest)
		if !ok {
			return bad
		}
		data, t2, ok := takeStr(t1)
		if !ok || len(t2) != 4 {
			return bad
		}
		if _, _, ok := takeStr(blob); !ok {
			return bad
		}
		r.Op, r.K, r.S, r.N = "sign", ByBlob(blob), string(data), int(binary.BigEndian.Uint32(t2))
		if r.K == "" {
			r = AReq{Op: "foreign", Bad: "none"}
		}
	case 17, 25:
		for n, s := range sections {
			if bytes.HasPrefix(rest, s) {
				c, cons, ok := takeStr(rest[len(s):])
				if !ok {
					return bad
				}
				r.Op, r.K, r.S = "add", n, string(c)
				for len(cons) > 0 {
					switch cons[0] {
					case 1:
						if len(cons) < 5 {
							return bad
						}
						r.N = int(binary.BigEndian.Uint32(cons[1:5]))
						cons = cons[5:]
					case 2:
						r.Bad = "confirm"
						cons = cons[1:]
					case 255, 3:
						_, t1, ok := takeStr(cons[1:])
						if !ok {
							return bad
						}
						_, t2, ok := takeStr(t1)
						if !ok {
							return bad
						}
						if r.Bad == "none" {
							r.Bad = "ext"
						}
						cons = t2
					default:
						return bad
					}
				}
				return r
			}
		}
		return bad
	case 27:
		if _, _, ok := takeStr(rest); !ok {
			return bad
		}
		r.Op = "ext"
	default:
		r.Op = "unknown"
	}
	return r
}

// passphrase labels of the specification (spec/AgentWireCodec.tla LabelBytes)
var passBytes = map[string][]byte{"p": []byte("pw"), "q": []byte("q"), "e": {}}

func passLabel(b []byte) string {
	for l, v := range passBytes {
		if bytes.Equal(v, b) {
			return l
		}
	}
	return "?"
}

// ARep is the abstract reply / result: t ks f.
type ARep struct {
	T   string      `json:"t"`
	Ks  [][2]string `json:"ks"`
	F   string      `json:"f"`
	Dup bool        `json:"dup"`
}

func sortKs(ks [][2]string) [][2]string {
	sort.Slice(ks, func(i, j int) bool { return ks[i][0]+"|"+ks[i][1] < ks[j][0]+"|"+ks[j][1] })
	if ks == nil {
		ks = [][2]string{}
	}
	return ks
}

func fmtLabel(k *Key, format string) string {
	if k != nil && format == k.SigFmt {
		return "default"
	}
	return format
}

// summariseReply describes a reply body written by ServeAgent (signatures are not verified here: the
// caller that receives the signature verifies it).
func summariseReply(body []byte) ARep {
	r := ARep{Ks: [][2]string{}}
	if len(body) == 0 {
		r.T = "empty"
		return r
	}
	switch body[0] {
	case 5:
		r.T = "failure"
	case 6:
		r.T = "success"
	case 2:
		r.T = "v1ids"
	case 12:
		r.T = "ids"
		if len(body) < 5 {
			r.T = "garbled"
			return r
		}
		n := int(binary.BigEndian.Uint32(body[1:5]))
		rest := body[5:]
		seen := map[string]bool{}
		for i := 0; i < n; i++ {
			blob, t1, ok := takeStr(rest)
			if !ok {
				r.T = "garbled"
				return r
			}
			c, t2, ok := takeStr(t1)
			if !ok {
				r.T = "garbled"
				return r
			}
			rest = t2
			name := ByBlob(blob)
			if name == "" {
				name = fmt.Sprintf("?%x", blob[:min(8, len(blob))])
			}
			if seen[name] {
				r.Dup = true
			}
			seen[name] = true
			r.Ks = append(r.Ks, [2]string{name, string(c)})
		}
		if len(rest) != 0 {
			r.T = "garbled"
		}
		r.Ks = sortKs(r.Ks)
	case 14:
		r.T = "sig"
		sb, tail, ok := takeStr(body[1:])
		if !ok || len(tail) != 0 {
			r.T = "garbled"
			return r
		}
		f, _, ok := takeStr(sb)
		if !ok {
			r.T = "garbled"
			return r
		}
		r.F = string(f)
	default:
		r.T = fmt.Sprintf("type%d", body[0])
	}
	return r
}

// ---- event log (one per recorded execution) ----------------------------------------------------------

type Log struct {
	mu sync.Mutex
	ev []map[string]any
}

func (l *Log) add(e map[string]any) {
	l.mu.Lock()
	l.ev = append(l.ev, e)
	l.mu.Unlock()
}

func (l *Log) Events() []map[string]any {
	l.mu.Lock()
	defer l.mu.Unlock()
	return append([]map[string]any(nil), l.ev...)
}

func (l *Log) Conn(c int, wired bool) { l.add(map[string]any{"ev": "conn", "c": c, "wired": wired}) }
func (l *Log) Close(c int)            { l.add(map[string]any{"ev": "close", "c": c}) }
func (l *Log) Call(c, p int, r AReq) {
	l.add(map[string]any{"ev": "call", "c": c, "p": p, "op": r.Op, "k": r.K, "s": r.S, "n": r.N, "bad": r.Bad})
}
func (l *Log) Ret(c, p int, r ARep) {
	l.add(map[string]any{"ev": "ret", "c": c, "p": p, "t": r.T, "ks": sortKs(r.Ks), "dup": r.Dup, "f": r.F})
}
func (l *Log) SrvRead(c int, r AReq) {
	l.add(map[string]any{"ev": "srvread", "c": c, "op": r.Op, "k": r.K, "s": r.S, "n": r.N, "bad": r.Bad})
}
func (l *Log) SrvWrite(c int, r ARep) {
	l.add(map[string]any{"ev": "srvwrite", "c": c, "t": r.T, "ks": sortKs(r.Ks), "f": r.F})
}

// ---- recording transport on the server side of a wired connection -------------------------------------

// srvTap wraps the transport ServeAgent reads from / writes to.  It reassembles frames from the octets
// handed to ServeAgent and logs srvread BEFORE Read returns the last octet of a request (or of a header
// declaring 0 / more than MaxMsg), and srvwrite BEFORE the last octet of a reply is passed on.
type srvTap struct {
	c      int
	log    *Log
	under  io.ReadWriter
	in     []byte
	inDead bool
	out    []byte
	last   AReq // the request being served (ServeAgent serves one at a time)
	wire   *wireRec
}

// wireRec keeps the raw frames of one connection (samples / replay files).
type wireRec struct {
	mu   sync.Mutex
	reqs [][]byte
	reps [][]byte
}

func (t *srvTap) Read(p []byte) (int, error) {
	n, err := t.under.Read(p)
	if n > 0 && !t.inDead {
		t.in = append(t.in, p[:n]...)
		for len(t.in) >= 4 && !t.inDead {
			l := binary.BigEndian.Uint32(t.in)
			if l == 0 || l > MaxMsg {
				op := "oversize"
				if l == 0 {
					op = "zero"
				}
				t.log.SrvRead(t.c, AReq{Op: op, Bad: "none"})
				t.inDead = true
				t.in = nil
				break
			}
			if uint32(len(t.in)-4) < l {
				break
			}
			body := t.in[4 : 4+l]
			if t.wire != nil {
				t.wire.mu.Lock()
				t.wire.reqs = append(t.wire.reqs, append([]byte(nil), body...))
				t.wire.mu.Unlock()
			}
			t.last = summarise(body)
			t.log.SrvRead(t.c, t.last)
			t.in = t.in[4+l:]
		}
	}
	return n, err
}

func (t *srvTap) Write(p []byte) (int, error) {
	t.out = append(t.out, p...)
	for len(t.out) >= 4 {
		l := binary.BigEndian.Uint32(t.out)
		if uint32(len(t.out)-4) < l {
			break
		}
		body := t.out[4 : 4+l]
		if t.wire != nil {
			t.wire.mu.Lock()
			t.wire.reps = append(t.wire.reps, append([]byte(nil), body...))
			t.wire.mu.Unlock()
		}
		r := summariseReply(body)
		if r.T == "sig" {
			r.F = fmtLabel(Pool()[t.last.K], r.F)
		}
		t.log.SrvWrite(t.c, r)
		t.out = t.out[4+l:]
	}
	return t.under.Write(p)
}

// jitter is the client's end of a connection with a slow, yielding Write and Read: it widens the windows
// between the client's critical sections and its I/O (a transport is allowed to be slow), so that a
// missing lock or a misplaced enqueue shows up as a different interleaving on the wire.
type jitter struct {
	conn *memconn.Conn
	n    atomic.Uint32
}

func (j *jitter) pause() {
	k := j.n.Add(1)
	for i := uint32(0); i < 1+k%3; i++ {
		runtime.Gosched()
	}
	if k%3 == 0 {
		time.Sleep(30 * time.Microsecond)
	}
}
func (j *jitter) Read(p []byte) (int, error)  { j.pause(); return j.conn.Read(p) }
func (j *jitter) Write(p []byte) (int, error) { j.pause(); return j.conn.Write(p) }
func (j *jitter) Close() error                { return j.conn.Close() }

// noCloser hides Close: agent.NewClient then uses the fully serialised client.
type noCloser struct{ rw io.ReadWriter }

func (n noCloser) Read(p []byte) (int, error)  { return n.rw.Read(p) }
func (n noCloser) Write(p []byte) (int, error) { return n.rw.Write(p) }

// servePair starts ServeAgent(ag) on one end of an in-memory connection (tapped when log != nil) and
// returns the other end.  The serving goroutine closes its end when ServeAgent returns, as ForwardToAgent does.
func servePair(ag agent.Agent, c int, log *Log, wire *wireRec, done *sync.WaitGroup) *memconn.Conn {
	a, b := memconn.Pair()
	done.Add(1)
	go func() {
		defer done.Done()
		var rw io.ReadWriter = b
		if log != nil {
			rw = &srvTap{c: c, log: log, under: b, wire: wire}
		}
		agent.ServeAgent(ag, rw)
		b.Close()
	}()
	return a
}

// classify turns an error of the client API into the result classes of the specification.
func classifyErr(err error) string {
	if err == nil {
		return "ok"
	}
	s := err.Error()
	if len(s) >= 20 && s[:20] == "agent: client error:" {
		return "connerr"
	}
	if errors.Is(err, io.EOF) || errors.Is(err, io.ErrClosedPipe) || errors.Is(err, io.ErrUnexpectedEOF) {
		return "connerr"
	}
	return "err"
}

var _ = ssh.Marshal
