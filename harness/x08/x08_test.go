package x08

import (
	"bytes"
	"encoding/json"
	"fmt"
	"io"
	"os"
	"runtime"
	"sort"
	"strings"
	"sync"
	"testing"
	"time"

	"golang.org/x/crypto/openpgp"
	pgperrors "golang.org/x/crypto/openpgp/errors"
	"golang.org/x/crypto/openpgp/packet"
	_ "golang.org/x/crypto/ripemd160"

	"verif/harness/vutil"
)

// Signatures of the five decisions that are findings of this check (known_findings.json); everything else that
// contradicts a rule is reported under a generic signature.
const (
	sigF1 = "X08-F1:flagless-primary-selected-unchecked"
	sigF2 = "X08-F2:key-expiry-from-signature-creation"
	sigF3 = "X08-F3:zero-key-lifetime-expired"
	sigF4 = "X08-F4:subkey-revocation-without-reason-ignored"
	sigF5 = "X08-F5:serialize-drops-key-revocations"
)

// ---- predictions written by TLC ------------------------------------------------------------------------------------------

type predAt struct {
	Now     int      `json:"now"`
	Enc     []string `json:"enc"`
	Sign    []string `json:"sign"`
	Encrypt []string `json:"encrypt"`
	Signres []string `json:"signres"`
}

type parsedID struct {
	N   string  `json:"n"`
	Sig sigSpec `json:"sig"`
}

type parsedSub struct {
	Algo string  `json:"algo"`
	C    int     `json:"c"`
	Pv   bool    `json:"pv"`
	Sig  sigSpec `json:"sig"`
}

type parsedSpec struct {
	Nrev int         `json:"nrev"`
	Ids  []parsedID  `json:"ids"`
	Subs []parsedSub `json:"subs"`
}

type tcase struct {
	W       wireSpec         `json:"w"`
	Parsed  parsedSpec       `json:"parsed"`
	Q       []predAt         `json:"q"`
	Kbu     map[string][]int `json:"kbu"`
	Dec     []string         `json:"dec"`
	Rtnrev  int              `json:"rtnrev"`
	Rtkbu   map[string][]int `json:"rtkbu"`
	Primary []string         `json:"primary"`
	Kbiself []string         `json:"kbiself"`

	// set while playing: ReadEntity resolved an unspecified tie (two equally new binding signatures) the other way than
	// the model; the rules are still judged on the real objects, the model's predictions are not compared
	tied bool
}

var usageBytes = []byte{0, packet.KeyFlagCertify, packet.KeyFlagSign, packet.KeyFlagEncryptCommunications,
	packet.KeyFlagEncryptCommunications | packet.KeyFlagEncryptStorage}
var usageNames = []string{"0", "C", "S", "E", "ET"}

func in(xs []string, x string) bool {
	for _, y := range xs {
		if y == x {
			return true
		}
	}
	return false
}

// ---- result collection -------------------------------------------------------------------------------------------------

type collector struct {
	mu      sync.Mutex
	out     *vutil.Out
	perSig  map[string]int
	counts  map[string]int
	t       *testing.T
	failed  bool
	samples int
}

func newCollector(t *testing.T, out *vutil.Out) *collector {
	return &collector{out: out, perSig: map[string]int{}, counts: map[string]int{}, t: t}
}

func (c *collector) violation(sig, what string, detail any) {
	c.mu.Lock()
	defer c.mu.Unlock()
	c.perSig[sig]++
	c.failed = true
	if c.perSig[sig] <= 2 {
		c.out.Violation(sig, what, detail)
		c.t.Logf("VIOLATION %s: %s", sig, what)
	}
}

func (c *collector) count(k string, n int) {
	c.mu.Lock()
	c.counts[k] += n
	c.mu.Unlock()
}

func (c *collector) caseDone(key string, sample any) {
	c.mu.Lock()
	c.out.Case(key)
	if c.samples < 3 {
		c.samples++
		c.out.Sample(sample)
	}
	c.mu.Unlock()
}

func (c *collector) finish() {
	for k, v := range c.counts {
		c.out.Extra[k] = v
	}
	for s, n := range c.perSig {
		c.out.Extra["x08_violations_"+s] = n
	}
	if c.failed {
		c.t.Errorf("violations recorded: %v", c.perSig)
	}
}

// ---- the rules, evaluated on the real objects (independent of the model) ------------------------------------------------

func algoCanEncrypt(a packet.PublicKeyAlgorithm) bool {
	return a == packet.PubKeyAlgoRSA || a == packet.PubKeyAlgoRSAEncryptOnly || a == packet.PubKeyAlgoElGamal
}

func algoCanSign(a packet.PublicKeyAlgorithm) bool {
	return a == packet.PubKeyAlgoRSA || a == packet.PubKeyAlgoRSASignOnly || a == packet.PubKeyAlgoDSA || a == packet.PubKeyAlgoECDSA
}

// RFC 4880 5.2.3.6: the key expires KeyLifetimeSecs after the KEY creation time; absent or zero: never.
func rfcExpired(pub *packet.PublicKey, sig *packet.Signature, now time.Time) bool {
	if sig.KeyLifetimeSecs == nil || *sig.KeyLifetimeSecs == 0 {
		return false
	}
	return now.After(pub.CreationTime.Add(time.Duration(*sig.KeyLifetimeSecs) * time.Second))
}

func sigBasedExpired(sig *packet.Signature, now time.Time) bool {
	if sig.KeyLifetimeSecs == nil {
		return false
	}
	return now.After(sig.CreationTime.Add(time.Duration(*sig.KeyLifetimeSecs) * time.Second))
}

func zeroLife(sig *packet.Signature) bool {
	return sig.KeyLifetimeSecs != nil && *sig.KeyLifetimeSecs == 0
}

func usableSub(sk *openpgp.Subkey, now time.Time, enc bool) bool {
	s := sk.Sig
	if s.SigType != packet.SigTypeSubkeyBinding || !s.FlagsValid || rfcExpired(sk.PublicKey, s, now) {
		return false
	}
	if enc {
		return s.FlagEncryptCommunications && algoCanEncrypt(sk.PublicKey.PubKeyAlgo)
	}
	return s.FlagSign && algoCanSign(sk.PublicKey.PubKeyAlgo)
}

func usablePrim(e *openpgp.Entity, s *packet.Signature, now time.Time, enc bool) bool {
	if rfcExpired(e.PrimaryKey, s, now) {
		return false
	}
	if enc {
		return (!s.FlagsValid || s.FlagEncryptCommunications) && algoCanEncrypt(e.PrimaryKey.PubKeyAlgo)
	}
	return !s.FlagsValid || s.FlagSign
}

type finding struct{ sig, what string }

// judgeSelection checks K1 (enc = true) / K2 on what encryptionKey / signingKey returned.
func judgeSelection(e *openpgp.Entity, key openpgp.Key, ok bool, now time.Time, enc bool) []finding {
	var fs []finding
	K := "K2"
	verb := "signing"
	if enc {
		K, verb = "K1", "encryption"
	}
	var usable []int
	for i := range e.Subkeys {
		if usableSub(&e.Subkeys[i], now, enc) {
			usable = append(usable, i)
		}
	}
	zeroAmong := func(idx []int) bool {
		for _, i := range idx {
			if zeroLife(e.Subkeys[i].Sig) {
				return true
			}
		}
		return false
	}
	if !ok {
		if len(usable) > 0 {
			if zeroAmong(usable) {
				fs = append(fs, finding{sigF3, "no " + verb + " key although a subkey with key expiration 0 (never expires) is usable"})
			} else {
				fs = append(fs, finding{K + ":usable-subkey-rejected", "no " + verb + " key although a subkey is usable"})
			}
		}
		all, zero := true, false
		for _, id := range e.Identities {
			if !usablePrim(e, id.SelfSignature, now, enc) {
				all = false
			}
			zero = zero || zeroLife(id.SelfSignature)
		}
		if all && len(usable) == 0 {
			if zero {
				fs = append(fs, finding{sigF3, "no " + verb + " key although the primary key, with key expiration 0 (never expires), is usable"})
			} else {
				fs = append(fs, finding{K + ":usable-primary-rejected", "no " + verb + " key although the primary key is usable under every user id"})
			}
		}
		return fs
	}
	s := key.SelfSignature
	if key.PublicKey == e.PrimaryKey || key.PublicKey.KeyId == e.PrimaryKey.KeyId {
		if rfcExpired(e.PrimaryKey, s, now) {
			switch {
			case !s.FlagsValid:
				fs = append(fs, finding{sigF1, "expired primary key without key flags selected for " + verb})
			case !sigBasedExpired(s, now):
				fs = append(fs, finding{sigF2, "primary key past its expiry (key creation + lifetime) selected for " + verb})
			default:
				fs = append(fs, finding{K + ":expired-key-selected", "expired primary key selected for " + verb})
			}
		}
		if enc && !algoCanEncrypt(e.PrimaryKey.PubKeyAlgo) {
			if !s.FlagsValid {
				fs = append(fs, finding{sigF1, "primary key without key flags selected for encryption although its algorithm cannot encrypt"})
			} else {
				fs = append(fs, finding{K + ":incapable-key-selected", "primary key whose algorithm cannot encrypt selected"})
			}
		}
		if s.FlagsValid && ((enc && !s.FlagEncryptCommunications) || (!enc && !s.FlagSign)) {
			fs = append(fs, finding{K + ":unflagged-key-selected", "primary key whose key flags do not allow " + verb + " selected"})
		}
		if len(usable) > 0 {
			if zeroAmong(usable) {
				fs = append(fs, finding{sigF3, "primary key selected although a subkey with key expiration 0 (never expires) is usable"})
			} else {
				fs = append(fs, finding{K + ":primary-preferred-over-subkey", "primary key selected although a usable " + verb + " subkey exists"})
			}
		}
		return fs
	}
	idx := -1
	for i := range e.Subkeys {
		if e.Subkeys[i].PublicKey.KeyId == key.PublicKey.KeyId {
			idx = i
		}
	}
	if idx < 0 {
		return append(fs, finding{K + ":foreign-key-selected", "selected key is not a key of the entity"})
	}
	sk := &e.Subkeys[idx]
	if s != sk.Sig {
		fs = append(fs, finding{K + ":wrong-self-signature", "Key.SelfSignature of a subkey is not the subkey's signature"})
	}
	if sk.Sig.SigType == packet.SigTypeSubkeyRevocation {
		fs = append(fs, finding{K + ":revoked-subkey-selected", "revoked subkey selected for " + verb})
	}
	if rfcExpired(sk.PublicKey, sk.Sig, now) {
		if !sigBasedExpired(sk.Sig, now) {
			fs = append(fs, finding{sigF2, "subkey past its expiry (key creation + lifetime) selected for " + verb})
		} else {
			fs = append(fs, finding{K + ":expired-key-selected", "expired subkey selected for " + verb})
		}
	}
	if (enc && !algoCanEncrypt(sk.PublicKey.PubKeyAlgo)) || (!enc && !algoCanSign(sk.PublicKey.PubKeyAlgo)) {
		fs = append(fs, finding{K + ":incapable-key-selected", "subkey whose algorithm is not capable selected for " + verb})
	}
	if !sk.Sig.FlagsValid || (enc && !sk.Sig.FlagEncryptCommunications) || (!enc && !sk.Sig.FlagSign) {
		fs = append(fs, finding{K + ":unflagged-key-selected", "subkey without the key flag selected for " + verb})
	}
	if enc { // the newest usable subkey (by binding signature); ties are not judged
		for _, j := range usable {
			if e.Subkeys[j].Sig.CreationTime.After(sk.Sig.CreationTime) && usableSub(sk, now, enc) {
				if zeroLife(e.Subkeys[j].Sig) {
					fs = append(fs, finding{sigF3, "a newer subkey with key expiration 0 (never expires) is passed over"})
				} else {
					fs = append(fs, finding{K + ":older-subkey-preferred", "an older encryption subkey is preferred over a newer usable one"})
				}
				break
			}
		}
	}
	return fs
}

// ---- one case --------------------------------------------------------------------------------------------------------

type runner struct {
	k    *kit
	c    *collector
	deep bool // public API round trips (Encrypt / ReadMessage / Sign / CheckDetachedSignature) for every query
}

func errClass(err error) string {
	switch err.(type) {
	case nil:
		return "ok"
	case pgperrors.InvalidArgumentError:
		return "invalid-argument"
	case pgperrors.UnsupportedError:
		return "unsupported"
	case pgperrors.StructuralError:
		return "structural"
	}
	if err == pgperrors.ErrUnknownIssuer {
		return "unknown-issuer"
	}
	if err == pgperrors.ErrKeyIncorrect {
		return "key-incorrect"
	}
	return "other"
}

func (r *runner) compareParsed(tc *tcase, b *built, e *openpgp.Entity, where string, detail map[string]any) {
	if len(e.Identities) != len(tc.Parsed.Ids) {
		r.c.violation("model-mismatch:parse-identities"+where, fmt.Sprintf("ReadEntity kept %d user ids, the specification %d", len(e.Identities), len(tc.Parsed.Ids)), detail)
		return
	}
	for _, pid := range tc.Parsed.Ids {
		id := e.Identities[uidString(pid.N)]
		if id == nil || id.SelfSignature == nil {
			r.c.violation("model-mismatch:parse-identities"+where, "user id "+pid.N+" not kept by ReadEntity", detail)
			continue
		}
		if got := observed(id.SelfSignature); !sameSig(got, pid.Sig) {
			d := map[string]any{"got": got, "want": pid.Sig}
			for k, v := range detail {
				d[k] = v
			}
			r.c.violation("model-mismatch:self-signature-choice"+where, "user id "+pid.N+": ReadEntity kept another self-signature than the specification", d)
		}
	}
	if len(e.Subkeys) != len(tc.Parsed.Subs) {
		r.c.violation("model-mismatch:parse-subkeys"+where, fmt.Sprintf("ReadEntity kept %d subkeys, the specification %d", len(e.Subkeys), len(tc.Parsed.Subs)), detail)
		return
	}
	for i, ps := range tc.Parsed.Subs {
		sk := e.Subkeys[i]
		if b.names[sk.PublicKey.KeyId] != fmt.Sprintf("S%d", i+1) {
			r.c.violation("model-mismatch:parse-subkeys"+where, "subkeys out of order", detail)
			continue
		}
		got := observed(sk.Sig)
		if !sameSig(got, ps.Sig) {
			d := map[string]any{"got": got, "want": ps.Sig, "subkey": i + 1}
			for k, v := range detail {
				d[k] = v
			}
			// the strictly newest binding signature is RFC 4880's recommendation and pinned by the package's tests; the
			// choice among equally new ones is not
			if got.Y == "bind" && ps.Sig.Y == "bind" && got.T == ps.Sig.T {
				r.c.count("x08_tiebreak_binding_signature", 1)
				tc.tied = true
				continue
			}
			r.c.violation("model-mismatch:binding-signature-choice"+where, fmt.Sprintf("subkey %d: ReadEntity kept another signature than the specification", i+1), d)
		}
	}
}

func (r *runner) name(b *built, key openpgp.Key, ok bool) string {
	if !ok {
		return "none"
	}
	if n, found := b.names[key.PublicKey.KeyId]; found {
		return n
	}
	return "?"
}

func (r *runner) subByName(e *openpgp.Entity, b *built, n string) *openpgp.Subkey {
	for i := range e.Subkeys {
		if b.names[e.Subkeys[i].PublicKey.KeyId] == n {
			return &e.Subkeys[i]
		}
	}
	return nil
}

// tie reports whether got is as good as one of the predicted subkeys but for an unspecified tie-break.
func (r *runner) tie(e *openpgp.Entity, b *built, pred []string, got string, now time.Time, enc bool) bool {
	g := r.subByName(e, b, got)
	if g == nil || !usableSub(g, now, enc) {
		return false
	}
	for _, p := range pred {
		ps := r.subByName(e, b, p)
		if ps == nil {
			continue
		}
		if !enc || ps.Sig.CreationTime.Equal(g.Sig.CreationTime) {
			return true
		}
	}
	return false
}

func (r *runner) selections(tc *tcase, b *built, e *openpgp.Entity, where string, detail map[string]any, reps int) {
	for _, q := range tc.Q {
		now := at(q.Now)
		seenE, seenS := map[string]bool{}, map[string]bool{}
		for rep := 0; rep < reps; rep++ {
			for _, enc := range []bool{true, false} {
				var key openpgp.Key
				var ok bool
				pred, what, seen := q.Sign, "signingKey", seenS
				if enc {
					key, ok = openpgp.VerifEncryptionKey(e, now)
					pred, what, seen = q.Enc, "encryptionKey", seenE
				} else {
					key, ok = openpgp.VerifSigningKey(e, now)
				}
				got := r.name(b, key, ok)
				if seen[got] {
					continue
				}
				seen[got] = true
				d := map[string]any{"now": q.Now, "got": got, "allowed": pred, "call": what + where}
				for k, v := range detail {
					d[k] = v
				}
				for _, f := range judgeSelection(e, key, ok, now, enc) {
					r.c.violation(f.sig, what+where+": "+f.what, d)
				}
				if !in(pred, got) && !tc.tied {
					if r.tie(e, b, pred, got, now, enc) {
						r.c.count("x08_tiebreak_"+what, 1)
					} else {
						r.c.violation("model-mismatch:"+what+where, fmt.Sprintf("%s(now=%d) returned %s, the specification allows %v", what, q.Now, got, pred), d)
					}
				}
				if ok && key.Entity != e {
					r.c.violation("K5:key-of-other-entity", what+" returned a Key whose Entity is not the receiver", d)
				}
			}
		}
		if len(seenE) > 1 || len(seenS) > 1 {
			r.c.count("x08_maporder_varied", 1)
		}
	}
}

func (r *runner) keysQueries(tc *tcase, b *built, e *openpgp.Entity, kbu map[string][]int, where string, detail map[string]any, reps int) {
	el := openpgp.EntityList{e}
	ids := map[string]uint64{"P": b.prim.id}
	for i, s := range b.subs {
		ids[fmt.Sprintf("S%d", i+1)] = s.id
	}
	for name, id := range ids {
		ks := el.KeysById(id)
		if len(ks) != 1 || ks[0].PublicKey.KeyId != id || ks[0].Entity != e {
			r.c.violation("K6:keys-by-id"+where, fmt.Sprintf("KeysById(%s) returned %d keys", name, len(ks)), detail)
			continue
		}
		if name == "P" {
			okSelf := false
			for _, n := range tc.Kbiself {
				if id := e.Identities[uidString(n)]; id != nil && id.SelfSignature == ks[0].SelfSignature {
					okSelf = true
				}
			}
			if !okSelf {
				r.c.violation("model-mismatch:keys-by-id-self-signature"+where, "KeysById(primary): SelfSignature is not that of an identity the specification allows", detail)
			}
		} else if sk := r.subByName(e, b, name); sk == nil || ks[0].SelfSignature != sk.Sig {
			r.c.violation("K6:keys-by-id"+where, "KeysById(subkey): SelfSignature is not the subkey's signature", detail)
		}
		want := kbu[name]
		for ui, u := range usageBytes {
			for rep := 0; rep < reps; rep++ {
				got := el.KeysByIdUsage(id, u)
				present := len(got) == 1 && got[0].PublicKey.KeyId == id
				if len(got) > 1 || (len(got) == 1 && !present) {
					r.c.violation("K6:keys-by-id-usage"+where, "KeysByIdUsage returned keys with another id or several keys", detail)
				}
				d := map[string]any{"key": name, "usage": usageNames[ui], "present": present, "want": want[ui]}
				for k, v := range detail {
					d[k] = v
				}
				// rules on the real objects
				if present {
					if len(e.Revocations) > 0 {
						r.c.violation("K3:key-of-revoked-entity-returned", "KeysByIdUsage returned a key of an entity that has a key revocation", d)
					}
					s := got[0].SelfSignature
					if s.SigType == packet.SigTypeSubkeyRevocation {
						if s.RevocationReason == nil {
							r.c.violation(sigF4, "KeysByIdUsage"+where+" returned a revoked subkey (revocation signature without a reason subpacket)", d)
						} else {
							r.c.violation("K3:revoked-subkey-returned", "KeysByIdUsage returned a revoked subkey", d)
						}
					}
					if s.FlagsValid && u != 0 {
						var have byte
						if s.FlagCertify {
							have |= packet.KeyFlagCertify
						}
						if s.FlagSign {
							have |= packet.KeyFlagSign
						}
						if s.FlagEncryptCommunications {
							have |= packet.KeyFlagEncryptCommunications
						}
						if s.FlagEncryptStorage {
							have |= packet.KeyFlagEncryptStorage
						}
						if have&u != u {
							r.c.violation("K6:usage-not-covered", "KeysByIdUsage returned a key whose key flags do not cover the required usage", d)
						}
					}
				}
				if ((want[ui] == 1 && !present) || (want[ui] == 0 && present)) && !tc.tied {
					r.c.violation("model-mismatch:keys-by-id-usage"+where, fmt.Sprintf("KeysByIdUsage(%s, %s): present=%v, the specification says %d", name, usageNames[ui], present, want[ui]), d)
				}
				if want[ui] != 2 {
					break
				}
			}
		}
	}
	if ks := el.KeysById(0x0102030405060708); len(ks) != 0 {
		r.c.violation("K6:keys-by-id"+where, "KeysById of an unknown id returned keys", detail)
	}
}

var message = []byte("x08 message\n")

func firstPackets(b []byte, n int) []packet.Packet {
	var ps []packet.Packet
	rd := packet.NewReader(bytes.NewReader(b))
	for len(ps) < n {
		p, err := rd.Next()
		if err != nil {
			break
		}
		ps = append(ps, p)
		if lit, ok := p.(*packet.LiteralData); ok {
			io.Copy(io.Discard, lit.Body)
		}
	}
	return ps
}

// publicAPI plays Encrypt / ReadMessage and Sign / ReadMessage, DetachSign / CheckDetachedSignature for one instant.
func (r *runner) publicAPI(tc *tcase, b *built, e *openpgp.Entity, q predAt, detail map[string]any, single bool) {
	now := at(q.Now)
	cfg := &packet.Config{Time: func() time.Time { return now }}
	d := map[string]any{"now": q.Now}
	for k, v := range detail {
		d[k] = v
	}
	el := openpgp.EntityList{e}
	func() {
		defer func() {
			if p := recover(); p != nil {
				r.c.violation("K5:panic-in-encrypt", fmt.Sprintf("Encrypt / ReadMessage panicked: %v", p), d)
			}
		}()
		hk, hok := openpgp.VerifEncryptionKey(e, now)
		var buf bytes.Buffer
		w, err := openpgp.Encrypt(&buf, []*openpgp.Entity{e}, nil, nil, cfg)
		got := ""
		if err != nil {
			switch errClass(err) {
			case "invalid-argument":
				got = "err:nokey"
				if strings.Contains(err.Error(), "cannot encrypt to public key") || strings.Contains(err.Error(), "encryption failed") {
					got = "err:algo"
				}
			default:
				got = "err:algo"
			}
			if hok && algoCanEncrypt(hk.PublicKey.PubKeyAlgo) && single {
				r.c.violation("K5:encrypt-fails-with-selected-key", "Encrypt failed although encryptionKey selects an encryption-capable key: "+err.Error(), d)
			}
			if !hok && single && errClass(err) != "invalid-argument" {
				r.c.violation("K5:encrypt-error-class", "Encrypt without a usable key failed with "+errClass(err)+" instead of InvalidArgumentError", d)
			}
		} else {
			w.Write(message)
			w.Close()
			ps := firstPackets(buf.Bytes(), 1)
			ek, isEK := (packet.Packet)(nil), false
			if len(ps) == 1 {
				ek = ps[0]
				_, isEK = ek.(*packet.EncryptedKey)
			}
			if !isEK {
				r.c.violation("K5:encrypt-output", "Encrypt output does not start with an encrypted session key packet", d)
				return
			}
			kid := ek.(*packet.EncryptedKey).KeyId
			got = b.names[kid]
			if single && (!hok || hk.PublicKey.KeyId != kid) {
				r.c.violation("K5:encrypt-uses-other-key", fmt.Sprintf("Encrypt addressed %s, encryptionKey selects %s", got, r.name(b, hk, hok)), d)
			}
			if !hok && single {
				r.c.violation("K5:encrypt-silent-fallback", "Encrypt succeeded although encryptionKey reports no usable key", d)
			}
			// the recipient decrypts with exactly that key
			if pk := r.privOf(e, kid); pk != nil {
				md, err := openpgp.ReadMessage(bytes.NewReader(buf.Bytes()), el, nil, nil)
				if err != nil {
					r.c.violation("K5:recipient-cannot-decrypt", "ReadMessage with the recipient's private keys failed: "+err.Error(), d)
				} else {
					body, _ := io.ReadAll(md.UnverifiedBody)
					if !bytes.Equal(body, message) || md.DecryptedWith.PublicKey == nil || md.DecryptedWith.PublicKey.KeyId != kid ||
						len(md.EncryptedToKeyIds) != 1 || md.EncryptedToKeyIds[0] != kid {
						r.c.violation("K5:decrypted-with-other-key", "ReadMessage did not decrypt with the addressed key", d)
					}
				}
			}
		}
		if !in(q.Encrypt, got) && !tc.tied {
			dd := map[string]any{"got": got, "allowed": q.Encrypt}
			for k, v := range d {
				dd[k] = v
			}
			if !strings.HasPrefix(got, "err") && r.tie(e, b, q.Encrypt, got, now, true) {
				r.c.count("x08_tiebreak_Encrypt", 1)
			} else {
				r.c.violation("model-mismatch:Encrypt", fmt.Sprintf("Encrypt(now=%d): %s, the specification allows %v", q.Now, got, q.Encrypt), dd)
			}
		}
	}()
	func() {
		defer func() {
			if p := recover(); p != nil {
				r.c.violation("K5:panic-in-sign", fmt.Sprintf("Sign / ReadMessage panicked: %v", p), d)
			}
		}()
		hk, hok := openpgp.VerifSigningKey(e, now)
		var buf bytes.Buffer
		w, err := openpgp.Sign(&buf, e, nil, cfg)
		got := ""
		if err != nil {
			got = "err:nokey"
			if strings.Contains(err.Error(), "no private key") {
				got = "err:nopriv"
			}
			if errClass(err) != "invalid-argument" {
				r.c.violation("K5:sign-error-class", "Sign failed with "+errClass(err)+" instead of InvalidArgumentError: "+err.Error(), d)
			}
			if hok && hk.PrivateKey != nil && single {
				r.c.violation("K5:sign-fails-with-selected-key", "Sign failed although signingKey selects a key with a private part: "+err.Error(), d)
			}
		} else {
			w.Write(message)
			if err := w.Close(); err != nil {
				r.c.violation("K5:sign-close", "closing the signed message failed: "+err.Error(), d)
				return
			}
			ps := firstPackets(buf.Bytes(), 3)
			if len(ps) != 3 {
				r.c.violation("K5:sign-output", "Sign output is not one-pass signature, literal data, signature", d)
				return
			}
			ops, ok1 := ps[0].(*packet.OnePassSignature)
			sg, ok2 := ps[2].(*packet.Signature)
			if !ok1 || !ok2 || sg.IssuerKeyId == nil || *sg.IssuerKeyId != ops.KeyId {
				r.c.violation("K5:sign-output", "one-pass signature and signature packet disagree about the signer", d)
				return
			}
			got = b.names[ops.KeyId]
			if single && (!hok || hk.PublicKey.KeyId != ops.KeyId) {
				r.c.violation("K5:sign-uses-other-key", fmt.Sprintf("Sign used %s, signingKey selects %s", got, r.name(b, hk, hok)), d)
			}
			// verification side: the signer is found iff KeysByIdUsage(id, Sign) is not empty, and then the signature is good
			md, err := openpgp.ReadMessage(bytes.NewReader(buf.Bytes()), el, nil, nil)
			if err != nil {
				r.c.violation("K5:signed-message-unreadable", "ReadMessage of the signed message failed: "+err.Error(), d)
			} else {
				body, _ := io.ReadAll(md.UnverifiedBody)
				want := tc.Kbu[got][2]
				found := md.SignedBy != nil
				if !md.IsSigned || md.SignedByKeyId != ops.KeyId || !bytes.Equal(body, message) {
					r.c.violation("K5:signed-message-details", "ReadMessage reports other details than the message has", d)
				}
				if ((want == 1 && !found) || (want == 0 && found)) && !tc.tied {
					r.c.violation("model-mismatch:signer-lookup", fmt.Sprintf("ReadMessage: signer found=%v, the specification says %d", found, want), d)
				}
				if found && (md.SignedBy.PublicKey.KeyId != ops.KeyId || md.SignatureError != nil) {
					r.c.violation("K5:good-signature-rejected", fmt.Sprintf("signature by the entity's own key not verified: %v", md.SignatureError), d)
				}
			}
		}
		if !in(q.Signres, got) && !tc.tied {
			dd := map[string]any{"got": got, "allowed": q.Signres}
			for k, v := range d {
				dd[k] = v
			}
			if !strings.HasPrefix(got, "err") && r.tie(e, b, q.Signres, got, now, false) {
				r.c.count("x08_tiebreak_Sign", 1)
			} else {
				r.c.violation("model-mismatch:Sign", fmt.Sprintf("Sign(now=%d): %s, the specification allows %v", q.Now, got, q.Signres), dd)
			}
		}
	}()
}

func (r *runner) privOf(e *openpgp.Entity, id uint64) *packet.PrivateKey {
	if e.PrimaryKey.KeyId == id {
		return e.PrivateKey
	}
	for _, s := range e.Subkeys {
		if s.PublicKey.KeyId == id {
			return s.PrivateKey
		}
	}
	return nil
}

func (r *runner) detached(tc *tcase, b *built, e *openpgp.Entity, detail map[string]any) {
	if e.PrivateKey == nil {
		return
	}
	defer func() {
		if p := recover(); p != nil {
			r.c.violation("K5:panic-in-detached", fmt.Sprintf("DetachSign / CheckDetachedSignature panicked: %v", p), detail)
		}
	}()
	var sig bytes.Buffer
	now := at(2)
	if err := openpgp.DetachSign(&sig, e, bytes.NewReader(message), &packet.Config{Time: func() time.Time { return now }}); err != nil {
		r.c.violation("K5:detach-sign-failed", "DetachSign with the primary key failed: "+err.Error(), detail)
		return
	}
	want := tc.Kbu["P"][2]
	for rep := 0; rep < 4; rep++ {
		signer, err := openpgp.CheckDetachedSignature(openpgp.EntityList{e}, bytes.NewReader(message), bytes.NewReader(sig.Bytes()))
		found := err == nil && signer == e
		if err != nil && err != pgperrors.ErrUnknownIssuer {
			r.c.violation("K5:detached-signature-error", "CheckDetachedSignature of a good signature failed with "+err.Error(), detail)
		}
		if (want == 1 && !found) || (want == 0 && found) {
			r.c.violation("model-mismatch:detached-signer-lookup", fmt.Sprintf("CheckDetachedSignature: signer found=%v, the specification says %d", found, want), detail)
		}
		if found && len(e.Revocations) > 0 {
			r.c.violation("K3:key-of-revoked-entity-returned", "CheckDetachedSignature accepted a signature by a key of a revoked entity", detail)
		}
		if want != 2 {
			break
		}
	}
}

func (r *runner) run(tc *tcase, raw json.RawMessage) {
	b := r.k.build(&tc.W)
	detail := map[string]any{"case": raw}
	defer func() {
		if p := recover(); p != nil {
			buf := make([]byte, 4096)
			buf = buf[:runtime.Stack(buf, false)]
			r.c.violation("panic", fmt.Sprintf("panic while playing a case: %v", p), map[string]any{"case": raw, "stack": string(buf)})
		}
	}()
	e, err := b.read()
	if err != nil {
		r.c.violation("model-mismatch:read-entity", "ReadEntity rejects a well-formed entity: "+err.Error(), detail)
		return
	}
	reps := 1
	if len(tc.Parsed.Ids) > 1 {
		reps = 6
	}
	single := len(tc.Parsed.Ids) == 1
	if (e.PrivateKey != nil) != tc.W.Prim.Pv {
		r.c.violation("model-mismatch:private-key", "primary private key presence differs", detail)
	}
	if len(e.Revocations) != tc.Parsed.Nrev {
		r.c.violation("model-mismatch:revocations", fmt.Sprintf("ReadEntity kept %d key revocations, the specification %d", len(e.Revocations), tc.Parsed.Nrev), detail)
	}
	r.compareParsed(tc, b, e, "", detail)
	r.selections(tc, b, e, "", detail, reps)
	r.keysQueries(tc, b, e, tc.Kbu, "", detail, reps)
	// primaryIdentity
	seen := map[string]bool{}
	for rep := 0; rep < reps; rep++ {
		id := openpgp.VerifPrimaryIdentity(e)
		n := "?"
		if id != nil {
			n = b.uids[id.Name]
		}
		if !seen[n] {
			seen[n] = true
			if !in(tc.Primary, n) {
				r.c.violation("model-mismatch:primaryIdentity", fmt.Sprintf("primaryIdentity returned %s, the specification allows %v", n, tc.Primary), detail)
			}
			flagged := 0
			for _, x := range e.Identities {
				if x.SelfSignature.IsPrimaryId != nil && *x.SelfSignature.IsPrimaryId {
					flagged++
				}
			}
			if flagged > 0 && (id == nil || id.SelfSignature.IsPrimaryId == nil || !*id.SelfSignature.IsPrimaryId) {
				r.c.violation("K4:flagged-primary-user-id-ignored", "primaryIdentity returned an unflagged user id although one is flagged primary", detail)
			}
		}
	}
	// DecryptionKeys
	var dec []string
	for _, k := range (openpgp.EntityList{e}).DecryptionKeys() {
		dec = append(dec, b.names[k.PublicKey.KeyId])
		if k.PrivateKey == nil {
			r.c.violation("K6:decryption-key-without-private-part", "DecryptionKeys returned a key without private part", detail)
		}
		if k.SelfSignature.FlagsValid && !k.SelfSignature.FlagEncryptCommunications && !k.SelfSignature.FlagEncryptStorage {
			r.c.violation("K6:decryption-key-without-encryption-flag", "DecryptionKeys returned a key whose flags allow no encryption", detail)
		}
	}
	if strings.Join(dec, ",") != strings.Join(tc.Dec, ",") && !tc.tied {
		r.c.violation("model-mismatch:DecryptionKeys", fmt.Sprintf("DecryptionKeys returned %v, the specification %v", dec, tc.Dec), detail)
	}
	if r.deep {
		for _, q := range tc.Q {
			r.publicAPI(tc, b, e, q, detail, single)
		}
		r.detached(tc, b, e, detail)
	}
	// K7: Entity.Serialize -> ReadEntity
	var pubser bytes.Buffer
	if err := e.Serialize(&pubser); err != nil {
		r.c.violation("K7:serialize-failed", "Entity.Serialize failed: "+err.Error(), detail)
		return
	}
	e2, err := openpgp.ReadEntity(packet.NewReader(bytes.NewReader(pubser.Bytes())))
	if err != nil {
		r.c.violation("K7:reread-failed", "ReadEntity of Entity.Serialize output failed: "+err.Error(), detail)
		return
	}
	if len(e2.Revocations) < len(e.Revocations) {
		r.c.violation(sigF5, fmt.Sprintf("Entity.Serialize / ReadEntity: %d key revocations before, %d after", len(e.Revocations), len(e2.Revocations)), detail)
	}
	if len(e2.Revocations) != tc.Rtnrev {
		r.c.violation("model-mismatch:round-trip-revocations", fmt.Sprintf("after the round trip %d key revocations, the specification %d", len(e2.Revocations), tc.Rtnrev), detail)
	}
	if e2.PrivateKey != nil {
		r.c.violation("K7:private-key-in-public-serialization", "Entity.Serialize wrote private key material", detail)
	}
	r.compareParsed(tc, b, e2, "(round-trip)", detail)
	r.selections(tc, b, e2, "(round-trip)", detail, reps)
	r.keysQueries(tc, b, e2, tc.Rtkbu, "(round-trip)", detail, reps)
	r.c.count("x08_queries", len(tc.Q)*4+len(tc.Kbu)*10+4)
}

func caseKey(raw []byte) string {
	var v struct {
		W json.RawMessage `json:"w"`
		Q []struct {
			Now int `json:"now"`
		} `json:"q"`
	}
	json.Unmarshal(raw, &v)
	nows := []int{}
	for _, q := range v.Q {
		nows = append(nows, q.Now)
	}
	sort.Ints(nows)
	return fmt.Sprintf("%s@%v", v.W, nows)
}

func TestReplay(t *testing.T) {
	out := vutil.NewOut()
	defer func() {
		if err := out.Write(); err != nil {
			t.Fatal(err)
		}
	}()
	k, err := newKit()
	if err != nil {
		t.Fatal(err)
	}
	c := newCollector(t, out)
	r := &runner{k: k, c: c, deep: os.Getenv("VERIF_X08_SHALLOW") == ""}
	type job struct{ raw []byte }
	jobs := make(chan job, 256)
	var wg sync.WaitGroup
	var bad []string
	for i := 0; i < runtime.GOMAXPROCS(0); i++ {
		wg.Add(1)
		go func() {
			defer wg.Done()
			for j := range jobs {
				var tc tcase
				if err := json.Unmarshal(j.raw, &tc); err != nil {
					c.mu.Lock()
					bad = append(bad, err.Error()+": "+string(j.raw[:min(len(j.raw), 200)]))
					c.mu.Unlock()
					continue
				}
				r.run(&tc, json.RawMessage(j.raw))
				c.caseDone(caseKey(j.raw), json.RawMessage(j.raw))
			}
		}()
	}
	err = vutil.ReadNDJSON(vutil.Env("VERIF_CASES", ""), func(line []byte) error {
		jobs <- job{append([]byte(nil), line...)}
		return nil
	})
	close(jobs)
	wg.Wait()
	if err != nil {
		t.Fatal(err)
	}
	if len(bad) > 0 {
		t.Fatalf("undecodable cases (infrastructure): %v", bad[0])
	}
	c.count("x08_signatures_made", k.nsigs)
	c.finish()
}
