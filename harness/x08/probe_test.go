package x08

import (
	"bytes"
	"fmt"
	"testing"

	"golang.org/x/crypto/openpgp"
	"golang.org/x/crypto/openpgp/packet"

	"verif/harness/vutil"
)

func sg(y string, t, l int, pr string, fv bool, f ...string) sigSpec {
	if f == nil {
		f = []string{}
	}
	return sigSpec{Y: y, T: t, L: l, Pr: pr, Fv: fv, F: f}
}

// The five switchable decisions of the specification, each with the smallest entity that tells the two behaviours apart.
type scenario struct {
	name, fix, sig, what string
	w                    wireSpec
	now                  int
}

func scenarios() []scenario {
	idCS := []idSpec{{N: "a", Sigs: []sigSpec{sg("pos", 0, -1, "absent", true, "C", "S")}}}
	rev := sg("rev", 1, -1, "absent", false)
	return []scenario{
		{name: "prec", fix: "FixPrec", sig: sigF1, now: 3,
			what: "a primary key without a key flags subpacket is selected for encryption and signing after its expiry (operator precedence in encryptionKey / signingKey)",
			w:    wireSpec{Prim: primSpec{"rsa", 0, true}, Ids: []idSpec{{N: "a", Sigs: []sigSpec{sg("pos", 0, 1, "absent", false)}}}}},
		{name: "base", fix: "FixBase", sig: sigF2, now: 3,
			what: "a subkey created at 0 with key lifetime 2, bound at 2, is selected at 3: KeyExpired counts the lifetime from the signature creation time, RFC 4880 5.2.3.6 from the key creation time",
			w: wireSpec{Prim: primSpec{"ecdsa", 0, true}, Ids: idCS,
				Subs: []subSpec{{Algo: "rsa", C: 0, Pv: true, Sigs: []sigSpec{sg("bind", 2, 2, "absent", true, "E", "T")}}}}},
		{name: "zero", fix: "FixZero", sig: sigF3, now: 2,
			what: "a subkey whose binding signature carries key expiration 0 (never expires, RFC 4880 5.2.3.6) is treated as expired",
			w: wireSpec{Prim: primSpec{"ecdsa", 0, true}, Ids: idCS,
				Subs: []subSpec{{Algo: "rsa", C: 0, Pv: true, Sigs: []sigSpec{sg("bind", 0, 0, "absent", true, "E", "T")}}}}},
		{name: "revreason", fix: "FixRevReason", sig: sigF4, now: 2,
			what: "KeysByIdUsage returns a revoked signing subkey when the revocation signature has no reason-for-revocation subpacket",
			w: wireSpec{Prim: primSpec{"rsa", 0, true}, Ids: idCS,
				Subs: []subSpec{{Algo: "rsa", C: 0, Pv: true, Sigs: []sigSpec{sg("bind", 1, -1, "absent", true, "S"), rev}}}}},
		{name: "serrev", fix: "FixSerRev", sig: sigF5, now: 2,
			what: "Entity.Serialize does not write the key revocation: after Serialize / ReadEntity the revoked key is accepted by KeysByIdUsage again",
			w:    wireSpec{Prim: primSpec{"rsa", 0, true}, Nrev: 1, Ids: idCS}},
	}
}

// probeOne reports whether the code under test shows the repaired behaviour for the scenario.
func probeOne(k *kit, sc scenario) (fixed bool, obs string, err error) {
	b := k.build(&sc.w)
	e, err := b.read()
	if err != nil {
		return false, "", err
	}
	now := at(sc.now)
	name := func(key openpgp.Key, ok bool) string {
		if !ok {
			return "none"
		}
		return b.names[key.PublicKey.KeyId]
	}
	switch sc.name {
	case "prec":
		enc := name(openpgp.VerifEncryptionKey(e, now))
		sign := name(openpgp.VerifSigningKey(e, now))
		return enc == "none" && sign == "none", fmt.Sprintf("encryptionKey=%s signingKey=%s", enc, sign), nil
	case "base":
		enc := name(openpgp.VerifEncryptionKey(e, now))
		return enc == "none", "encryptionKey=" + enc, nil
	case "zero":
		enc := name(openpgp.VerifEncryptionKey(e, now))
		return enc == "S1", "encryptionKey=" + enc, nil
	case "revreason":
		ks := openpgp.EntityList{e}.KeysByIdUsage(b.subs[0].id, packet.KeyFlagSign)
		return len(ks) == 0, fmt.Sprintf("KeysByIdUsage(subkey, Sign) returns %d keys", len(ks)), nil
	case "serrev":
		var buf bytes.Buffer
		if err := e.Serialize(&buf); err != nil {
			return false, "", err
		}
		e2, err := openpgp.ReadEntity(packet.NewReader(bytes.NewReader(buf.Bytes())))
		if err != nil {
			return false, "", err
		}
		ks := openpgp.EntityList{e2}.KeysByIdUsage(b.prim.id, packet.KeyFlagSign)
		return len(e2.Revocations) == len(e.Revocations), fmt.Sprintf("%d key revocations before, %d after; KeysByIdUsage(primary, Sign) after: %d keys", len(e.Revocations), len(e2.Revocations), len(ks)), nil
	}
	return false, "", fmt.Errorf("unknown scenario")
}

// TestProbe finds out which of the five switchable decisions the code under test makes the old way.  Each old
// decision is a violation in its own right (reproduced here on the smallest entity); the specification's constants are
// set accordingly, so that everything else is compared with a model of the code as it is.
func TestProbe(t *testing.T) {
	out := vutil.NewOut()
	defer func() {
		if err := out.Write(); err != nil {
			t.Fatal(err)
		}
	}()
	k, err := newKit()
	if err != nil {
		t.Fatal(err)
	}
	fix := map[string]bool{}
	obs := map[string]string{}
	for _, sc := range scenarios() {
		fixed, o, err := probeOne(k, sc)
		if err != nil {
			t.Fatalf("scenario %s: %v", sc.name, err)
		}
		out.Case("probe:" + sc.name)
		fix[sc.fix] = fixed
		obs[sc.name] = o
		if !fixed {
			out.Violation(sc.sig, sc.what, map[string]any{"scenario": sc.name, "entity": sc.w, "now": sc.now, "observed": o})
			t.Errorf("%s: %s (%s)", sc.sig, sc.what, o)
		}
	}
	out.Extra["fix"] = fix
	out.Extra["x08_probe_observed"] = obs
}
