package x08

import (
	"bytes"
	"encoding/json"
	"fmt"
	"os"
	"strconv"
	"strings"
	"sync"
	"testing"
	"time"

	"golang.org/x/crypto/openpgp"
	"golang.org/x/crypto/openpgp/packet"

	"verif/harness/pgpkit"
	"verif/harness/vutil"
)

// gpgCases: the five probe scenarios, then seeded entities over a menu on which GnuPG's rules and the package's are
// meant to coincide (one user id, up to two subkeys, no signature newer than the first instant asked about).
func gpgCases(n int) []wireSpec {
	var ws []wireSpec
	for _, sc := range scenarios() {
		ws = append(ws, sc.w)
	}
	rnd := vutil.Rand(808)
	pick := func(xs ...int) int { return xs[rnd.Intn(len(xs))] }
	idFlags := [][]string{nil, {"C", "S"}, {"C", "S", "E", "T"}}
	for len(ws) < n {
		w := wireSpec{Prim: primSpec{[]string{"rsa", "ecdsa"}[rnd.Intn(2)], 0, false}}
		f := idFlags[rnd.Intn(3)]
		w.Ids = []idSpec{{N: "a", Sigs: []sigSpec{sg("pos", pick(0, 1), pick(-1, -1, 0, 2, 3), "absent", f != nil, f...)}}}
		for i := rnd.Intn(3); i > 0; i-- {
			algo := []string{"rsa", "elg", "ecdsa"}[rnd.Intn(3)]
			fl := []string{"E", "T"}
			if algo == "ecdsa" || (algo == "rsa" && rnd.Intn(3) == 0) {
				fl = []string{"S"}
			}
			c := pick(0, 1)
			sk := subSpec{Algo: algo, C: c, Sigs: []sigSpec{sg("bind", pick(c, 1, 2), pick(-1, -1, 0, 1, 2), "absent", true, fl...)}}
			if sk.Sigs[0].T < c {
				sk.Sigs[0].T = c
			}
			if rnd.Intn(6) == 0 {
				r := sg("rev", 2, -1, "absent", false)
				r.Rs = true
				sk.Sigs = append(sk.Sigs, r)
			}
			w.Subs = append(w.Subs, sk)
		}
		ws = append(ws, w)
	}
	return ws
}

// TestGPG asks GnuPG (scratch home, --faked-system-time) which key it encrypts to and records it next to the package's
// choice.  Informational: nothing here affects the verdict.
func TestGPG(t *testing.T) {
	out := vutil.NewOut()
	defer func() {
		if err := out.Write(); err != nil {
			t.Fatal(err)
		}
	}()
	n, _ := strconv.Atoi(vutil.Env("VERIF_X08_GPGN", "24"))
	k, err := newKit()
	if err != nil {
		t.Fatal(err)
	}
	base := vutil.Env("VERIF_SCRATCH", t.TempDir())
	var mu sync.Mutex
	counts := map[string]int{}
	var examples []map[string]any
	nExplained := 0
	cases := gpgCases(n)
	sem := make(chan struct{}, 8)
	var wg sync.WaitGroup
	for ci, w := range cases {
		wg.Add(1)
		go func(ci int, w wireSpec) {
			defer wg.Done()
			sem <- struct{}{}
			defer func() { <-sem }()
			pub := w
			pub.Prim.Pv = false
			pub.Subs = append([]subSpec{}, w.Subs...)
			for i := range pub.Subs {
				pub.Subs[i].Pv = false
			}
			b := k.build(&pub)
			e, err := b.read()
			if err != nil {
				mu.Lock()
				counts["x08_gpg_go_rejects_entity"]++
				mu.Unlock()
				return
			}
			dir, err := os.MkdirTemp(base, "g")
			if err != nil {
				return
			}
			defer os.RemoveAll(dir)
			g, err := pgpkit.NewGPG(dir)
			if err != nil || g == nil {
				return
			}
			defer g.Close()
			if _, se, err := g.Run(b.octets, "--import"); err != nil {
				mu.Lock()
				counts["x08_gpg_import_failed"]++
				if len(examples) < 10 {
					examples = append(examples, map[string]any{"entity": w, "gpg_import": strings.TrimSpace(se)})
				}
				mu.Unlock()
				return
			}
			fpr := strings.ToUpper(fmt.Sprintf("%x", e.PrimaryKey.Fingerprint[:]))
			for _, now := range []int{2, 3, 4} {
				tnow := at(now)
				so, se, gerr := g.Run(message, "--trust-model", "always", "--faked-system-time", strconv.FormatInt(tnow.Unix(), 10)+"!",
					"-r", fpr, "-o", "-", "-e")
				gpgKey := "refuses"
				if gerr == nil {
					gpgKey = "?"
					if p, err := packet.NewReader(bytes.NewReader(so)).Next(); err == nil {
						if ek, ok := p.(*packet.EncryptedKey); ok {
							gpgKey = b.names[ek.KeyId]
						}
					}
				}
				key, ok := openpgp.VerifEncryptionKey(e, tnow)
				goKey := "refuses"
				if ok {
					goKey = b.names[key.PublicKey.KeyId]
					var buf bytes.Buffer
					if _, err := openpgp.Encrypt(&buf, []*openpgp.Entity{e}, nil, nil, &packet.Config{Time: func() time.Time { return tnow }}); err != nil {
						goKey = "refuses"
					}
				}
				class := "agree"
				switch {
				case gpgKey == goKey:
				case gpgKey == "refuses":
					class = "gpg_refuses_package_encrypts"
				case goKey == "refuses":
					class = "package_refuses_gpg_encrypts"
				default:
					class = "different_key"
				}
				var why []string
				for _, f := range judgeSelection(e, key, ok, tnow, true) {
					why = append(why, f.sig)
				}
				// laxities of the package that are modelled as they are (DESIGN.md 13, X08, observations)
				if class != "agree" && len(why) == 0 {
					primExpired := false
					for _, id := range e.Identities {
						primExpired = primExpired || rfcExpired(e.PrimaryKey, id.SelfSignature, tnow)
					}
					switch {
					case class == "gpg_refuses_package_encrypts" && primExpired && goKey != "P":
						why = append(why, "observation:primary-key-expired-subkey-still-used")
					case class == "different_key" && goKey != "P" && gpgKey != "P":
						why = append(why, "observation:newest-subkey-by-binding-signature-not-by-key-creation")
					}
				}
				mu.Lock()
				out.Case(fmt.Sprintf("gpg:%d@%d", ci, now))
				counts["x08_gpg_"+class]++
				if class != "agree" {
					switch {
					case len(why) == 0:
						counts["x08_gpg_disagreements_unexplained"]++
					case strings.HasPrefix(why[0], "observation:"):
						counts["x08_gpg_disagreements_explained_by_observations"]++
					default:
						counts["x08_gpg_disagreements_explained_by_findings"]++
					}
					if (len(why) > 0 && nExplained < 4) || (len(why) == 0 && len(examples) < 14) {
						if len(why) > 0 {
							nExplained++
						}
						msg := strings.TrimSpace(se)
						if len(msg) > 300 {
							msg = msg[:300]
						}
						js, _ := json.Marshal(w)
						examples = append(examples, map[string]any{"entity": json.RawMessage(js), "now": now, "gpg": gpgKey, "package": goKey,
							"rule_checks_on_package_choice": why, "gpg_says": msg})
					}
				}
				mu.Unlock()
			}
		}(ci, w)
	}
	wg.Wait()
	for k, v := range counts {
		out.Extra[k] = v
	}
	out.Extra["x08_gpg_examples"] = examples
}
