// Package x08 is the conformance harness of the growth check X08 (spec/PGPKeySel.tla): OpenPGP entity validity and
// key selection.  This file builds real entities from the abstract wire entities of the specification.  Key packets
// come from the package's constructors; every signature packet (certifications, subkey bindings with cross-signatures,
// revocations) is assembled and signed here, octet by octet, so that subpackets the package's own serializer cannot
// write (a key expiration of zero, primary-user-id = 0, a reason for revocation) are available and so that the inputs
// do not depend on the code under test.
package x08

import (
	"bytes"
	"crypto"
	"crypto/ecdsa"
	"crypto/elliptic"
	"crypto/rand"
	"crypto/rsa"
	"crypto/sha256"
	"encoding/binary"
	"encoding/json"
	"fmt"
	"io"
	"math/big"
	"sync"
	"time"

	"golang.org/x/crypto/openpgp"
	"golang.org/x/crypto/openpgp/elgamal"
	"golang.org/x/crypto/openpgp/packet"
)

// T0 is the origin of the specification's time scale (2020-01-01 00:00:00 UTC); one unit is one second.
const T0 = 1577836800

func at(t int) time.Time { return time.Unix(T0+int64(t), 0) }

// ---- the abstract wire entity (JSON written by TLC) -------------------------------------------------------------------

type sigSpec struct {
	Y  string   `json:"y"`
	T  int      `json:"t"`
	L  int      `json:"l"`
	Pr string   `json:"pr"`
	Fv bool     `json:"fv"`
	F  []string `json:"f"`
	Rs bool     `json:"rs"`
}

type primSpec struct {
	Algo string `json:"algo"`
	C    int    `json:"c"`
	Pv   bool   `json:"pv"`
}

type idSpec struct {
	N    string    `json:"n"`
	Sigs []sigSpec `json:"sigs"`
}

type subSpec struct {
	Algo string    `json:"algo"`
	C    int       `json:"c"`
	Pv   bool      `json:"pv"`
	Sigs []sigSpec `json:"sigs"`
}

type wireSpec struct {
	Prim primSpec  `json:"prim"`
	Nrev int       `json:"nrev"`
	Ids  []idSpec  `json:"ids"`
	Subs []subSpec `json:"subs"`
}

func (s sigSpec) has(f string) bool {
	for _, x := range s.F {
		if x == f {
			return true
		}
	}
	return false
}

func (s sigSpec) flagByte() byte {
	var b byte
	for _, x := range s.F {
		switch x {
		case "C":
			b |= 1
		case "S":
			b |= 2
		case "E":
			b |= 4
		case "T":
			b |= 8
		}
	}
	return b
}

var sigTypes = map[string]byte{"pos": 0x13, "gen": 0x10, "cas": 0x12, "urev": 0x30, "bind": 0x18, "rev": 0x28}

func uidString(n string) string { return "ident-" + n + " <" + n + "@verif.invalid>" }

// ---- key material -----------------------------------------------------------------------------------------------------

// RFC 2409 second Oakley group (1024-bit), generator 2
const modp1024 = "FFFFFFFFFFFFFFFFC90FDAA22168C234C4C6628B80DC1CD129024E088A67CC74020BBEA63B139B22514A08798E3404DD" +
	"EF9519B3CD3A431B302B0A6DF25F14374FE1356D6D51C245E485B576625E7EC6F44C42E9A637ED6B0BFF5CB6F406B7ED" +
	"EE386BFB5A899FA5AE9F24117C4B1FE649286651ECE65381FFFFFFFFFFFFFFFF"

type keyMat struct {
	algo string
	rsa  *rsa.PrivateKey
	ec   *ecdsa.PrivateKey
	elg  *elgamal.PrivateKey
}

func newKeyMat(algo string) (*keyMat, error) {
	m := &keyMat{algo: algo}
	var err error
	switch algo {
	case "rsa":
		m.rsa, err = rsa.GenerateKey(rand.Reader, 1024)
	case "ecdsa":
		m.ec, err = ecdsa.GenerateKey(elliptic.P256(), rand.Reader)
	case "elg":
		p, _ := new(big.Int).SetString(modp1024, 16)
		var x *big.Int
		x, err = rand.Int(rand.Reader, new(big.Int).Sub(p, big.NewInt(3)))
		if err == nil {
			x.Add(x, big.NewInt(2))
			g := big.NewInt(2)
			m.elg = &elgamal.PrivateKey{PublicKey: elgamal.PublicKey{G: g, P: p, Y: new(big.Int).Exp(g, x, p)}, X: x}
		}
	default:
		err = fmt.Errorf("unknown algorithm %q", algo)
	}
	return m, err
}

// keyPkt is a key packet: key material + creation time + role (primary key or subkey).
type keyPkt struct {
	name  string // "P", "S1", ...
	mat   *keyMat
	pub   *packet.PublicKey
	pubB  []byte // public (sub)key packet
	privB []byte // secret (sub)key packet, unprotected
	body  []byte // body of the public key packet (what signatures hash)
	id    uint64
}

type kit struct {
	mu    sync.Mutex
	mats  map[string]*keyMat
	keys  map[string]*keyPkt
	sigs  map[string][]byte
	ents  map[string][]byte
	nsigs int
}

func newKit() (*kit, error) {
	k := &kit{mats: map[string]*keyMat{}, keys: map[string]*keyPkt{}, sigs: map[string][]byte{}, ents: map[string][]byte{}}
	for _, role := range []string{"P", "S1", "S2", "S3"} {
		for _, a := range []string{"rsa", "ecdsa", "elg"} {
			if role == "P" && a == "elg" {
				continue
			}
			m, err := newKeyMat(a)
			if err != nil {
				return nil, err
			}
			k.mats[role+":"+a] = m
		}
	}
	return k, nil
}

func ser(f func(io.Writer) error) []byte {
	var b bytes.Buffer
	if err := f(&b); err != nil {
		panic(err)
	}
	return b.Bytes()
}

// packetBody strips the header of a definite-length packet.
func packetBody(p []byte) []byte {
	if p[0]&0x40 != 0 { // new format
		switch {
		case p[1] < 192:
			return p[2 : 2+int(p[1])]
		case p[1] < 224:
			n := (int(p[1])-192)<<8 + int(p[2]) + 192
			return p[3 : 3+n]
		case p[1] == 255:
			n := int(binary.BigEndian.Uint32(p[2:6]))
			return p[6 : 6+n]
		}
		panic("partial length")
	}
	switch p[0] & 3 {
	case 0:
		return p[2 : 2+int(p[1])]
	case 1:
		return p[3 : 3+int(binary.BigEndian.Uint16(p[1:3]))]
	case 2:
		return p[5 : 5+int(binary.BigEndian.Uint32(p[1:5]))]
	}
	panic("indeterminate length")
}

func (k *kit) key(name, algo string, created int) *keyPkt {
	ck := fmt.Sprintf("%s:%s:%d", name, algo, created)
	k.mu.Lock()
	defer k.mu.Unlock()
	if kp, ok := k.keys[ck]; ok {
		return kp
	}
	m := k.mats[name+":"+algo]
	if m == nil {
		panic("no key material for " + ck)
	}
	var pub *packet.PublicKey
	var priv *packet.PrivateKey
	t := at(created)
	switch algo {
	case "rsa":
		pub, priv = packet.NewRSAPublicKey(t, &m.rsa.PublicKey), packet.NewRSAPrivateKey(t, m.rsa)
	case "ecdsa":
		pub, priv = packet.NewECDSAPublicKey(t, &m.ec.PublicKey), packet.NewECDSAPrivateKey(t, m.ec)
	case "elg":
		pub, priv = packet.NewElGamalPublicKey(t, &m.elg.PublicKey), packet.NewElGamalPrivateKey(t, m.elg)
	}
	if name != "P" {
		pub.IsSubkey, priv.IsSubkey = true, true
	}
	kp := &keyPkt{name: name, mat: m, pub: pub, pubB: ser(pub.Serialize), privB: ser(priv.Serialize), id: pub.KeyId}
	kp.body = packetBody(kp.pubB)
	k.keys[ck] = kp
	return kp
}

// ---- signature packets ------------------------------------------------------------------------------------------------

type subpkt struct {
	typ  byte
	data []byte
}

func encodeSubpackets(sp []subpkt) []byte {
	var b []byte
	for _, s := range sp {
		n := 1 + len(s.data)
		switch {
		case n < 192:
			b = append(b, byte(n))
		case n < 8384:
			b = append(b, byte((n-192)>>8)+192, byte(n-192))
		default:
			b = append(b, 255, byte(n>>24), byte(n>>16), byte(n>>8), byte(n))
		}
		b = append(b, s.typ)
		b = append(b, s.data...)
	}
	return b
}

func mpi(x *big.Int) []byte {
	b := x.Bytes()
	n := x.BitLen()
	return append([]byte{byte(n >> 8), byte(n)}, b...)
}

func newPacket(tag byte, body []byte) []byte {
	var h []byte
	n := len(body)
	switch {
	case n < 192:
		h = []byte{0xC0 | tag, byte(n)}
	case n < 8384:
		h = []byte{0xC0 | tag, byte((n-192)>>8) + 192, byte(n - 192)}
	default:
		h = []byte{0xC0 | tag, 255, byte(n >> 24), byte(n >> 16), byte(n >> 8), byte(n)}
	}
	return append(h, body...)
}

func u32(v uint32) []byte { b := make([]byte, 4); binary.BigEndian.PutUint32(b, v); return b }
func u64(v uint64) []byte { b := make([]byte, 8); binary.BigEndian.PutUint64(b, v); return b }

// keyHashData is what a signature over a key hashes for that key: 0x99, two octets of length, the key packet body.
func keyHashData(kp *keyPkt) []byte {
	return append([]byte{0x99, byte(len(kp.body) >> 8), byte(len(kp.body))}, kp.body...)
}

// sigBody returns the body of a version 4 signature packet of the given type by signer over data (RFC 4880 5.2.4),
// SHA-256.
func sigBody(signer *keyPkt, sigType byte, hashed, unhashed []subpkt, data []byte) []byte {
	var algo byte
	switch signer.mat.algo {
	case "rsa":
		algo = 1
	case "ecdsa":
		algo = 19
	default:
		panic("key cannot sign: " + signer.mat.algo)
	}
	hs := encodeSubpackets(hashed)
	us := encodeSubpackets(unhashed)
	head := []byte{4, sigType, algo, 8, byte(len(hs) >> 8), byte(len(hs))}
	head = append(head, hs...)
	h := sha256.New()
	h.Write(data)
	h.Write(head)
	h.Write([]byte{4, 0xff})
	h.Write(u32(uint32(len(head))))
	digest := h.Sum(nil)
	body := append([]byte{}, head...)
	body = append(body, byte(len(us)>>8), byte(len(us)))
	body = append(body, us...)
	body = append(body, digest[0], digest[1])
	switch signer.mat.algo {
	case "rsa":
		s, err := rsa.SignPKCS1v15(rand.Reader, signer.mat.rsa, crypto.SHA256, digest)
		if err != nil {
			panic(err)
		}
		body = append(body, mpi(new(big.Int).SetBytes(s))...)
	case "ecdsa":
		r, s, err := ecdsa.Sign(rand.Reader, signer.mat.ec, digest)
		if err != nil {
			panic(err)
		}
		body = append(body, mpi(r)...)
		body = append(body, mpi(s)...)
	}
	return body
}

// sigPacket builds (and caches) the signature packet for spec s made by the primary key over target: "uid:<name>",
// "sub" (then sub is the subkey) or "key" (a key revocation).
func (k *kit) sigPacket(prim *keyPkt, target string, sub *keyPkt, s sigSpec) []byte {
	js, _ := json.Marshal(s)
	ck := fmt.Sprintf("%s/%d|%s|%s", prim.mat.algo, prim.pub.CreationTime.Unix(), target, js)
	if sub != nil {
		ck += fmt.Sprintf("|%s/%s/%d", sub.name, sub.mat.algo, sub.pub.CreationTime.Unix())
	}
	k.mu.Lock()
	if p, ok := k.sigs[ck]; ok {
		k.mu.Unlock()
		return p
	}
	k.mu.Unlock()
	hashed := []subpkt{{2, u32(uint32(T0 + s.T))}}
	if s.Fv {
		hashed = append(hashed, subpkt{27, []byte{s.flagByte()}})
	}
	if s.L >= 0 {
		hashed = append(hashed, subpkt{9, u32(uint32(s.L))})
	}
	switch s.Pr {
	case "true":
		hashed = append(hashed, subpkt{25, []byte{1}})
	case "false":
		hashed = append(hashed, subpkt{25, []byte{0}})
	}
	if s.Rs {
		hashed = append(hashed, subpkt{29, []byte{0}})
	}
	if s.Y == "pos" || s.Y == "gen" || s.Y == "cas" {
		// preferences, so that Encrypt / Sign do not fall back to the algorithms "every implementation supports"
		hashed = append(hashed, subpkt{11, []byte{9, 7}}, subpkt{21, []byte{8, 10}}, subpkt{30, []byte{1}})
	}
	unhashed := []subpkt{{16, u64(prim.id)}}
	typ, ok := sigTypes[s.Y]
	if !ok {
		panic("unknown signature kind " + s.Y)
	}
	data := keyHashData(prim)
	switch {
	case target == "sub":
		data = append(data, keyHashData(sub)...)
		if s.has("S") {
			// cross-signature (0x19) by the subkey over the same data, embedded in the unhashed area
			emb := sigBody(sub, 0x19, []subpkt{{2, u32(uint32(T0 + s.T))}}, []subpkt{{16, u64(sub.id)}}, data)
			unhashed = append(unhashed, subpkt{32, emb})
		}
	case target == "key":
	default: // "uid:<string>"
		id := target[4:]
		data = append(data, 0xb4)
		data = append(data, u32(uint32(len(id)))...)
		data = append(data, id...)
	}
	p := newPacket(2, sigBody(prim, typ, hashed, unhashed, data))
	k.mu.Lock()
	k.sigs[ck] = p
	k.nsigs++
	k.mu.Unlock()
	return p
}

// built is a wire entity turned into octets, with the names of its keys.
type built struct {
	octets []byte
	prim   *keyPkt
	subs   []*keyPkt
	names  map[uint64]string
	uids   map[string]string // uid string -> abstract name
}

func (k *kit) build(w *wireSpec) *built {
	prim := k.key("P", w.Prim.Algo, w.Prim.C)
	b := &built{prim: prim, names: map[uint64]string{prim.id: "P"}, uids: map[string]string{}}
	var out []byte
	if w.Prim.Pv {
		out = append(out, prim.privB...)
	} else {
		out = append(out, prim.pubB...)
	}
	for i := 0; i < w.Nrev; i++ {
		out = append(out, k.sigPacket(prim, "key", nil, sigSpec{Y: "krev", T: 1 + i, L: -1, Pr: "absent", Rs: true})...)
	}
	for _, id := range w.Ids {
		u := uidString(id.N)
		b.uids[u] = id.N
		out = append(out, newPacket(13, []byte(u))...)
		for _, s := range id.Sigs {
			out = append(out, k.sigPacket(prim, "uid:"+u, nil, s)...)
		}
	}
	for i, sk := range w.Subs {
		name := fmt.Sprintf("S%d", i+1)
		sub := k.key(name, sk.Algo, sk.C)
		b.subs = append(b.subs, sub)
		b.names[sub.id] = name
		if sk.Pv {
			out = append(out, sub.privB...)
		} else {
			out = append(out, sub.pubB...)
		}
		for _, s := range sk.Sigs {
			out = append(out, k.sigPacket(prim, "sub", sub, s)...)
		}
	}
	b.octets = out
	return b
}

func init() { sigTypes["krev"] = 0x20 }

func (b *built) read() (*openpgp.Entity, error) {
	return openpgp.ReadEntity(packet.NewReader(bytes.NewReader(b.octets)))
}

// observed abstracts a real signature to the specification's record.
func observed(s *packet.Signature) sigSpec {
	o := sigSpec{Y: "?", L: -1, Pr: "absent", F: []string{}}
	if s == nil {
		return o
	}
	for n, t := range sigTypes {
		if byte(s.SigType) == t {
			o.Y = n
		}
	}
	o.T = int(s.CreationTime.Unix() - T0)
	if s.KeyLifetimeSecs != nil {
		o.L = int(*s.KeyLifetimeSecs)
	}
	if s.IsPrimaryId != nil {
		o.Pr = "false"
		if *s.IsPrimaryId {
			o.Pr = "true"
		}
	}
	o.Fv = s.FlagsValid
	if s.FlagCertify {
		o.F = append(o.F, "C")
	}
	if s.FlagSign {
		o.F = append(o.F, "S")
	}
	if s.FlagEncryptCommunications {
		o.F = append(o.F, "E")
	}
	if s.FlagEncryptStorage {
		o.F = append(o.F, "T")
	}
	o.Rs = s.RevocationReason != nil
	return o
}

func sameSig(a, b sigSpec) bool {
	if a.Y != b.Y || a.T != b.T || a.L != b.L || a.Pr != b.Pr || a.Fv != b.Fv || a.Rs != b.Rs || len(a.F) != len(b.F) {
		return false
	}
	for _, f := range a.F {
		if !b.has(f) {
			return false
		}
	}
	return true
}
