// Package c14ref is the "amplifier" of binding E for C14: plain Go transcriptions of the
// executable TLA+ definitions spec/PrimMD4.tla (RFC 1320) and spec/PrimRMD160.tla (the
// RIPEMD-160 paper's pseudo-code, word selections computed from the permutations rho and pi).
// They have no authority of their own: the harness first checks them byte-for-byte against
// the digests TLC evaluated from the TLA+ definitions in the same run, and only then uses
// them to judge further cases.  They are one-shot functions over the padded message and share
// no code with golang.org/x/crypto/md4 or golang.org/x/crypto/ripemd160.
package c14ref

import (
	"encoding/binary"
	"math/bits"
)

// mdPad: PrimMD4!MDPad.
func mdPad(msg []byte) []byte {
	n := len(msg)
	p := append([]byte(nil), msg...)
	p = append(p, 0x80)
	p = append(p, make([]byte, (119-n%64)%64)...)
	var l [8]byte
	binary.LittleEndian.PutUint64(l[:], uint64(n)*8)
	return append(p, l[:]...)
}

func words(b []byte) (x [16]uint32) {
	for i := range x {
		x[i] = binary.LittleEndian.Uint32(b[4*i:])
	}
	return
}

var ord2 = [16]int{0, 4, 8, 12, 1, 5, 9, 13, 2, 6, 10, 14, 3, 7, 11, 15}
var ord3 = [16]int{0, 8, 4, 12, 2, 10, 6, 14, 1, 9, 5, 13, 3, 11, 7, 15}
var sh1 = [4]int{3, 7, 11, 19}
var sh2 = [4]int{3, 5, 9, 13}
var sh3 = [4]int{3, 9, 11, 15}

// MD4: PrimMD4!MD4.
func MD4(msg []byte) []byte {
	h := [4]uint32{0x67452301, 0xefcdab89, 0x98badcfe, 0x10325476}
	p := mdPad(msg)
	for off := 0; off < len(p); off += 64 {
		x := words(p[off:])
		q := h
		for j := 0; j < 48; j++ {
			i := j % 16
			var t uint32
			var s int
			switch {
			case j < 16:
				t, s = q[0]+(q[1]&q[2]|^q[1]&q[3])+x[i], sh1[j%4]
			case j < 32:
				t, s = q[0]+(q[1]&q[2]|q[1]&q[3]|q[2]&q[3])+x[ord2[i]]+0x5a827999, sh2[j%4]
			default:
				t, s = q[0]+(q[1]^q[2]^q[3])+x[ord3[i]]+0x6ed9eba1, sh3[j%4]
			}
			q = [4]uint32{q[3], bits.RotateLeft32(t, s), q[1], q[2]}
		}
		for i := range h {
			h[i] += q[i]
		}
	}
	out := make([]byte, 16)
	for i, v := range h {
		binary.LittleEndian.PutUint32(out[4*i:], v)
	}
	return out
}

var rho = [16]int{7, 4, 13, 1, 10, 6, 15, 3, 12, 0, 9, 5, 2, 14, 11, 8}
var rl, rr [80]int
var sl = [80]int{
	11, 14, 15, 12, 5, 8, 7, 9, 11, 13, 14, 15, 6, 7, 9, 8,
	7, 6, 8, 13, 11, 9, 7, 15, 7, 12, 15, 9, 11, 7, 13, 12,
	11, 13, 6, 7, 14, 9, 13, 15, 14, 8, 13, 6, 5, 12, 7, 5,
	11, 12, 14, 15, 14, 15, 9, 8, 9, 14, 5, 6, 8, 6, 5, 12,
	9, 15, 5, 11, 6, 8, 13, 12, 5, 12, 13, 14, 11, 8, 5, 6}
var sr = [80]int{
	8, 9, 9, 11, 13, 15, 15, 5, 7, 7, 8, 11, 14, 14, 12, 6,
	9, 13, 15, 7, 12, 8, 9, 11, 7, 7, 12, 7, 6, 15, 13, 11,
	9, 7, 15, 11, 8, 6, 6, 14, 12, 13, 5, 14, 13, 13, 7, 5,
	15, 5, 8, 11, 14, 14, 6, 14, 6, 9, 12, 9, 12, 5, 15, 8,
	8, 5, 12, 9, 12, 5, 14, 6, 8, 13, 6, 5, 15, 13, 11, 11}
var kl = [5]uint32{0, 0x5a827999, 0x6ed9eba1, 0x8f1bbcdc, 0xa953fd4e}
var kr = [5]uint32{0x50a28be6, 0x5c4dd124, 0x6d703ef3, 0x7a6d76e9, 0}

func init() {
	for j := 0; j < 80; j++ {
		a, b := j%16, (9*(j%16)+5)%16
		for t := 0; t < j/16; t++ {
			a, b = rho[a], rho[b]
		}
		rl[j], rr[j] = a, b
	}
}

func fj(j int, x, y, z uint32) uint32 {
	switch {
	case j < 16:
		return x ^ y ^ z
	case j < 32:
		return x&y | ^x&z
	case j < 48:
		return (x | ^y) ^ z
	case j < 64:
		return x&z | y&^z
	}
	return x ^ (y | ^z)
}

// RMD160: PrimRMD160!RMD160.
func RMD160(msg []byte) []byte {
	h := [5]uint32{0x67452301, 0xefcdab89, 0x98badcfe, 0x10325476, 0xc3d2e1f0}
	p := mdPad(msg)
	for off := 0; off < len(p); off += 64 {
		x := words(p[off:])
		l, r := h, h
		for j := 0; j < 80; j++ {
			t := bits.RotateLeft32(l[0]+fj(j, l[1], l[2], l[3])+x[rl[j]]+kl[j/16], sl[j]) + l[4]
			l = [5]uint32{l[4], t, l[1], bits.RotateLeft32(l[2], 10), l[3]}
			t = bits.RotateLeft32(r[0]+fj(79-j, r[1], r[2], r[3])+x[rr[j]]+kr[j/16], sr[j]) + r[4]
			r = [5]uint32{r[4], t, r[1], bits.RotateLeft32(r[2], 10), r[3]}
		}
		h = [5]uint32{h[1] + l[2] + r[3], h[2] + l[3] + r[4], h[3] + l[4] + r[0], h[4] + l[0] + r[1], h[0] + l[1] + r[2]}
	}
	out := make([]byte, 20)
	for i, v := range h {
		binary.LittleEndian.PutUint32(out[4*i:], v)
	}
	return out
}
