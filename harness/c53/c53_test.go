// Binding R for C53 (in-place and overlapping buffers are handled as documented).
//
// Input (VERIF_CASES): the groups printed by TLC from spec/Alias_MC.tla (real-size instance of
// spec/Alias.tla): for an API class, payload length n, dst prefix length p, capacity variant and
// additional-data placement, the model's verdict for every offset d in dmin..dmin+len(pred)-1 of the
// output's start relative to the input's start:
//
//	allowed[d] = 'A'  the documentation permits the arrangement (exact overlap / documented dst prefix / disjoint)
//	           = 'F'  it forbids it
//	pred[d]    = 'P' the code's alias checks panic, 'S' no panic and no hazard (same result as with
//	             separate buffers), 'U' no panic but a read-after-overwrite hazard (result unspecified)
//
// For every case the real function is run twice on the same inputs: with separate buffers, and in
// one arena laid out exactly as the model's call (the layout is cross-checked against the model's
// for two offsets per group).  Verdict, at the property's level:
//
//	allowed:   a panic, or a result different from the separate-buffer run, is a violation;
//	forbidden: a result different from the separate-buffer run without a panic is a violation
//	           (a panic and "same result" are both fine).
//
// Where the real panic behaviour differs from pred without contradicting the property, the case is
// counted as a model mismatch (informational).
package c53

import (
	"bytes"
	"crypto/aes"
	"encoding/json"
	"fmt"
	"math/rand"
	"os"
	"strings"
	"testing"

	"golang.org/x/crypto/chacha20"
	"golang.org/x/crypto/chacha20poly1305"
	"golang.org/x/crypto/nacl/box"
	"golang.org/x/crypto/nacl/secretbox"
	"golang.org/x/crypto/nacl/sign"
	"golang.org/x/crypto/salsa20"
	"golang.org/x/crypto/salsa20/salsa"
	"golang.org/x/crypto/xts"
	"verif/harness/vutil"
)

const (
	tagLen = 16
	epkLen = 32
	sigLen = 64
	base   = 1024 // address of the input inside the arena
	arenaN = 3072
)

type group struct {
	Cls     string `json:"cls"`
	N       int    `json:"n"`
	P       int    `json:"p"`
	Capv    string `json:"capv"`
	Adv     string `json:"adv"`
	Dmin    int    `json:"dmin"`
	Pred    string `json:"pred"`
	Allowed string `json:"allowed"`
	Dev     string `json:"dev"`
	Devat   string `json:"devat"`
	Lay0    []int  `json:"lay0"`
	LayMin  []int  `json:"layMin"`
}

var streamClasses = map[string]bool{"chacha20.XORKeyStream": true, "salsa20.XORKeyStream": true, "salsa.XORKeyStream": true, "xts.Encrypt": true, "xts.Decrypt": true}

// Alias!Need, Alias!InLen
func need(cls string, n int) int {
	switch cls {
	case "aead.Seal/generic", "aead.Seal/asm", "secretbox.Seal":
		return n + tagLen
	case "box.SealAnonymous":
		return n + tagLen + epkLen
	case "sign.Sign":
		return n + sigLen
	}
	return n
}

func inLen(cls string, n int) int {
	switch cls {
	case "aead.Open/generic", "aead.Open/asm", "secretbox.Open":
		return n + tagLen
	case "box.OpenAnonymous":
		return n + tagLen + epkLen
	case "sign.Open":
		return n + sigLen
	}
	return n
}

// layout mirrors Alias_MC!GroupCall: all addresses are arena indices; adAddr < 0: additional data outside the arena.
type layout struct {
	inN, dstA, dstP, dstC int
	adA, adN              int
}

func layoutOf(g *group, d int) layout {
	nd := need(g.Cls, g.N)
	t := base + d
	if streamClasses[g.Cls] {
		c := g.N
		if g.Capv == "spare" {
			c += 9
		}
		return layout{inN: g.N, dstA: t, dstP: 0, dstC: c, adA: -1, adN: 0}
	}
	c := g.P + nd
	switch g.Capv {
	case "spare":
		c += 9
	case "short":
		c--
	}
	l := layout{inN: inLen(g.Cls, g.N), dstA: t - g.P, dstP: g.P, dstC: c}
	switch g.Adv {
	case "sep":
		l.adA, l.adN = -1, 13
	case "outstart":
		l.adA, l.adN = t-3, 8
	case "outend":
		l.adA, l.adN = t+nd-4, 8
	case "in":
		l.adA, l.adN = base+2, 6
	case "prefix":
		l.adA, l.adN = t-g.P, g.P
	}
	return l
}

func (l layout) rel() []int {
	ad := -1000
	if l.adA >= 0 {
		ad = l.adA - base
	}
	return []int{l.inN, l.dstA - base, l.dstP, l.dstC, ad, l.adN}
}

func eqInts(a, b []int) bool {
	if len(a) != len(b) {
		return false
	}
	for i := range a {
		if a[i] != b[i] {
			return false
		}
	}
	return true
}

// api is one real function of a class.
type api struct {
	name string
	// makeInput returns the input buffer content (length inLen) for payload length n and additional data ad.
	makeInput func(rng *rand.Rand, n int, ad []byte) []byte
	// run executes the real call.  Non-stream: dst is the destination slice (len p, cap c); the result is the returned slice.
	// Stream: dst has length c >= n; the result is dst[:n].
	run func(dst, in, ad []byte) (ret []byte, ok bool)
}

type fixedReader struct{ b byte }

func (r fixedReader) Read(p []byte) (int, error) {
	for i := range p {
		p[i] = r.b
	}
	return len(p), nil
}

var (
	keyA       = [32]byte{1, 2, 3, 4, 5, 6, 7, 8, 9, 10, 11, 12, 13, 14, 15, 16, 17, 18, 19, 20, 21, 22, 23, 24, 25, 26, 27, 28, 29, 30, 31, 32}
	nonce24    = [24]byte{9, 8, 7, 6, 5, 4, 3, 2, 1, 0, 11, 12, 13, 14, 15, 16, 17, 18, 19, 20, 21, 22, 23, 24}
	counter16  = [16]byte{1, 2, 3, 4, 5, 6, 7, 8, 0xfe, 0xff, 0xff, 0xff}
	skA, skB   [32]byte
	pkA, pkB   *[32]byte
	shared     [32]byte
	signPub    *[32]byte
	signPriv   *[64]byte
	ephSeed    = byte(0x2a)
	xtsCipher  *xts.Cipher
	aeadStd    = mustAEAD(false)
	aeadX      = mustAEAD(true)
	nonce12    = nonce24[:12]
	hasAsmAEAD = cpuHas("avx2") && cpuHas("bmi2") // chacha20poly1305_amd64.go: useAVX2 = cpu.X86.HasAVX2 && cpu.X86.HasBMI2
)

// cpuHas reports whether /proc/cpuinfo lists the flag (the harness module must not grow a direct dependency on x/sys).
func cpuHas(flag string) bool {
	b, err := os.ReadFile("/proc/cpuinfo")
	if err != nil {
		return false
	}
	for _, l := range strings.Split(string(b), "\n") {
		if strings.HasPrefix(l, "flags") {
			for _, f := range strings.Fields(l) {
				if f == flag {
					return true
				}
			}
			return false
		}
	}
	return false
}

func mustAEAD(x bool) interface {
	Seal(dst, nonce, plaintext, additionalData []byte) []byte
	Open(dst, nonce, ciphertext, additionalData []byte) ([]byte, error)
} {
	if x {
		a, err := chacha20poly1305.NewX(keyA[:])
		if err != nil {
			panic(err)
		}
		return a
	}
	a, err := chacha20poly1305.New(keyA[:])
	if err != nil {
		panic(err)
	}
	return a
}

func init() {
	var err error
	pkA, _, err = box.GenerateKey(fixedReader{3})
	if err != nil {
		panic(err)
	}
	for i := range skA {
		skA[i], skB[i] = 3, 4
	}
	pkB, _, _ = box.GenerateKey(fixedReader{4})
	box.Precompute(&shared, pkB, &skA)
	signPub, signPriv, err = sign.GenerateKey(fixedReader{5})
	if err != nil {
		panic(err)
	}
	xtsCipher, err = xts.NewCipher(aes.NewCipher, keyA[:])
	if err != nil {
		panic(err)
	}
}

func randBytes(rng *rand.Rand, n int) []byte {
	b := make([]byte, n)
	rng.Read(b)
	return b
}

func plain(rng *rand.Rand, n int, _ []byte) []byte { return randBytes(rng, n) }

func newChaCha(nonce []byte, advance int) *chacha20.Cipher {
	c, err := chacha20.NewUnauthenticatedCipher(keyA[:], nonce)
	if err != nil {
		panic(err)
	}
	if advance > 0 {
		b := make([]byte, advance)
		c.XORKeyStream(b, b) // leaves buffered keystream behind: the next call starts in the drain path
	}
	return c
}

func streamAPI(name string, f func(dst, src []byte)) api {
	return api{name: name, makeInput: plain, run: func(dst, in, _ []byte) ([]byte, bool) {
		f(dst, in)
		return dst[:len(in)], true
	}}
}

func sealAPI(name string, mk func(rng *rand.Rand, n int, ad []byte) []byte, f func(dst, in, ad []byte) ([]byte, bool)) api {
	return api{name: name, makeInput: mk, run: f}
}

func apisOf(cls, path string) []api {
	switch cls {
	case "chacha20.XORKeyStream":
		return []api{
			streamAPI("chacha20.Cipher.XORKeyStream", func(d, s []byte) { newChaCha(nonce12, 0).XORKeyStream(d, s) }),
			streamAPI("chacha20.Cipher.XORKeyStream(XChaCha20, buffered keystream pending)", func(d, s []byte) { newChaCha(nonce24[:], 5).XORKeyStream(d, s) }),
		}
	case "salsa20.XORKeyStream":
		return []api{
			streamAPI("salsa20.XORKeyStream/8", func(d, s []byte) { salsa20.XORKeyStream(d, s, nonce24[:8], &keyA) }),
			streamAPI("salsa20.XORKeyStream/24", func(d, s []byte) { salsa20.XORKeyStream(d, s, nonce24[:], &keyA) }),
		}
	case "salsa.XORKeyStream":
		return []api{
			streamAPI("salsa.XORKeyStream["+path+"]", func(d, s []byte) { salsa.XORKeyStream(d, s, &counter16, &keyA) }),
		}
	case "xts.Encrypt":
		return []api{streamAPI("xts.Cipher.Encrypt", func(d, s []byte) { xtsCipher.Encrypt(d, s, 77) })}
	case "xts.Decrypt":
		return []api{streamAPI("xts.Cipher.Decrypt", func(d, s []byte) { xtsCipher.Decrypt(d, s, 77) })}
	case "aead.Seal/generic", "aead.Seal/asm":
		return []api{
			sealAPI("chacha20poly1305.Seal["+path+"]", plain, func(d, in, ad []byte) ([]byte, bool) { return aeadStd.Seal(d, nonce12, in, ad), true }),
			sealAPI("xchacha20poly1305.Seal["+path+"]", plain, func(d, in, ad []byte) ([]byte, bool) { return aeadX.Seal(d, nonce24[:], in, ad), true }),
		}
	case "aead.Open/generic", "aead.Open/asm":
		return []api{
			sealAPI("chacha20poly1305.Open["+path+"]",
				func(rng *rand.Rand, n int, ad []byte) []byte {
					return aeadStd.Seal(nil, nonce12, randBytes(rng, n), ad)
				},
				func(d, in, ad []byte) ([]byte, bool) {
					r, err := aeadStd.Open(d, nonce12, in, ad)
					return r, err == nil
				}),
			sealAPI("xchacha20poly1305.Open["+path+"]",
				func(rng *rand.Rand, n int, ad []byte) []byte {
					return aeadX.Seal(nil, nonce24[:], randBytes(rng, n), ad)
				},
				func(d, in, ad []byte) ([]byte, bool) {
					r, err := aeadX.Open(d, nonce24[:], in, ad)
					return r, err == nil
				}),
		}
	case "secretbox.Seal":
		return []api{
			sealAPI("secretbox.Seal", plain, func(d, in, _ []byte) ([]byte, bool) { return secretbox.Seal(d, in, &nonce24, &keyA), true }),
			sealAPI("box.Seal", plain, func(d, in, _ []byte) ([]byte, bool) { return box.Seal(d, in, &nonce24, pkB, &skA), true }),
			sealAPI("box.SealAfterPrecomputation", plain, func(d, in, _ []byte) ([]byte, bool) {
				return box.SealAfterPrecomputation(d, in, &nonce24, &shared), true
			}),
		}
	case "secretbox.Open":
		return []api{
			sealAPI("secretbox.Open", func(rng *rand.Rand, n int, _ []byte) []byte {
				return secretbox.Seal(nil, randBytes(rng, n), &nonce24, &keyA)
			},
				func(d, in, _ []byte) ([]byte, bool) { return secretbox.Open(d, in, &nonce24, &keyA) }),
			sealAPI("box.Open", func(rng *rand.Rand, n int, _ []byte) []byte {
				return box.Seal(nil, randBytes(rng, n), &nonce24, pkB, &skA)
			},
				func(d, in, _ []byte) ([]byte, bool) { return box.Open(d, in, &nonce24, pkA, &skB) }),
			sealAPI("box.OpenAfterPrecomputation", func(rng *rand.Rand, n int, _ []byte) []byte {
				return box.SealAfterPrecomputation(nil, randBytes(rng, n), &nonce24, &shared)
			},
				func(d, in, _ []byte) ([]byte, bool) { return box.OpenAfterPrecomputation(d, in, &nonce24, &shared) }),
		}
	case "box.SealAnonymous":
		return []api{sealAPI("box.SealAnonymous", plain, func(d, in, _ []byte) ([]byte, bool) {
			r, err := box.SealAnonymous(d, in, pkB, fixedReader{ephSeed})
			return r, err == nil
		})}
	case "box.OpenAnonymous":
		return []api{sealAPI("box.OpenAnonymous", func(rng *rand.Rand, n int, _ []byte) []byte {
			r, err := box.SealAnonymous(nil, randBytes(rng, n), pkB, fixedReader{ephSeed})
			if err != nil {
				panic(err)
			}
			return r
		}, func(d, in, _ []byte) ([]byte, bool) { return box.OpenAnonymous(d, in, pkB, &skB) })}
	case "sign.Sign":
		return []api{sealAPI("sign.Sign", plain, func(d, in, _ []byte) ([]byte, bool) { return sign.Sign(d, in, signPriv), true })}
	case "sign.Open":
		return []api{sealAPI("sign.Open", func(rng *rand.Rand, n int, _ []byte) []byte { return sign.Sign(nil, randBytes(rng, n), signPriv) },
			func(d, in, _ []byte) ([]byte, bool) { return sign.Open(d, in, signPub) })}
	}
	return nil
}

type outcome struct {
	panicked bool
	msg      string
	ret      []byte
	ok       bool
}

func guarded(f func(dst, in, ad []byte) ([]byte, bool), dst, in, ad []byte) (o outcome) {
	defer func() {
		if p := recover(); p != nil {
			o = outcome{panicked: true, msg: fmt.Sprint(p)}
		}
	}()
	r, ok := f(dst, in, ad)
	return outcome{ret: r, ok: ok}
}

func overlap(a0, an, b0, bn int) bool { return an > 0 && bn > 0 && a0 < b0+bn && b0 < a0+an }

func TestAlias(t *testing.T) {
	out := vutil.NewOut()
	defer func() {
		if err := out.Write(); err != nil {
			t.Fatal(err)
		}
	}()
	path := vutil.Env("VERIF_C53_PATH", "asm")
	if path == "asm" && !hasAsmAEAD {
		out.Extra["note_no_avx2"] = "this CPU lacks AVX2/BMI2: chacha20poly1305 uses the generic code even without purego; aead.*/asm groups not run"
	}
	stats := map[string]int{}
	nviol := 0
	perSig := map[string]int{}
	fail := func(sig, what string, d map[string]any) {
		d["build"] = path
		nviol++
		perSig[sig]++
		if perSig[sig] <= 3 { // a few witnesses per signature, so that no signature can crowd another one out of the (bounded) result file
			out.Violation(sig, what, d)
		}
		if nviol <= 12 {
			t.Errorf("%s: %s %v", sig, what, d)
		} else {
			t.Fail()
		}
	}
	mismatch := []map[string]any{}
	ngroups := 0
	err := vutil.ReadNDJSON(vutil.Env("VERIF_CASES", ""), func(line []byte) error {
		var g group
		if err := json.Unmarshal(line, &g); err != nil {
			return err
		}
		if len(g.Pred) == 0 || len(g.Pred) != len(g.Allowed) {
			return fmt.Errorf("malformed group")
		}
		// the harness lays the arena out exactly as the model does
		if !eqInts(layoutOf(&g, 0).rel(), g.Lay0) || !eqInts(layoutOf(&g, g.Dmin).rel(), g.LayMin) {
			return fmt.Errorf("layout of %v differs from the model's: harness %v / %v, model %v / %v", g, layoutOf(&g, 0).rel(), layoutOf(&g, g.Dmin).rel(), g.Lay0, g.LayMin)
		}
		switch g.Cls {
		case "aead.Seal/asm", "aead.Open/asm":
			if path != "asm" || !hasAsmAEAD {
				return nil
			}
		case "aead.Seal/generic", "aead.Open/generic":
			if path != "purego" {
				return nil
			}
		}
		apis := apisOf(g.Cls, path)
		if apis == nil {
			return fmt.Errorf("unknown class %q", g.Cls)
		}
		ngroups++
		isStream := streamClasses[g.Cls]
		for i := 0; i < len(g.Pred); i++ {
			d := g.Dmin + i
			l := layoutOf(&g, d)
			for ai, a := range apis {
				rng := rand.New(rand.NewSource(vutil.Seed()*7919 + int64(g.N*1000003+d*131+g.P*17+ai)))
				arena := randBytes(rng, arenaN)
				// additional data: inside the arena its content is whatever lies there once the input is in place
				var ad []byte
				adInArena := l.adA >= 0
				if g.Cls[:4] == "aead" {
					if adInArena && inLen(g.Cls, g.N) != g.N && overlap(l.adA, l.adN, base, l.inN) {
						// an authentic ciphertext whose additional data are part of itself cannot be constructed
						stats["skipped_unconstructible"]++
						continue
					}
					if adInArena {
						ad = arena[l.adA : l.adA+l.adN : l.adA+l.adN]
					} else {
						ad = randBytes(rng, l.adN)
					}
				}
				var input []byte
				if adInArena && overlap(l.adA, l.adN, base, l.inN) {
					// Seal-like: put the plaintext in place first; the additional data are the bytes found there
					input = a.makeInput(rng, g.N, nil)
					copy(arena[base:], input)
				} else {
					input = a.makeInput(rng, g.N, ad)
					copy(arena[base:], input)
				}
				if len(input) != l.inN {
					return fmt.Errorf("%s: input of %d bytes, model says %d", a.name, len(input), l.inN)
				}
				adCopy := append([]byte(nil), ad...)
				prefix := append([]byte(nil), arena[l.dstA:l.dstA+l.dstP]...)

				// ---- separate buffers
				var sepDst []byte
				if isStream {
					sepDst = make([]byte, l.dstC)
				} else {
					sepDst = make([]byte, l.dstP, l.dstC)
					copy(sepDst, prefix)
				}
				want := guarded(a.run, sepDst, append([]byte(nil), input...), adCopy)
				if want.panicked || !want.ok {
					return fmt.Errorf("%s with separate buffers failed (%v): harness problem, group %+v d=%d", a.name, want.msg, g, d)
				}
				wantRet := append([]byte(nil), want.ret...)

				// ---- the arrangement under test
				var dst []byte
				if isStream {
					dst = arena[l.dstA : l.dstA+l.dstC : l.dstA+l.dstC]
				} else {
					dst = arena[l.dstA : l.dstA+l.dstP : l.dstA+l.dstC]
				}
				in := arena[base : base+l.inN : base+l.inN]
				got := guarded(a.run, dst, in, ad)
				same := !got.panicked && got.ok == want.ok && bytes.Equal(got.ret, wantRet)

				allowed := g.Allowed[i] == 'A'
				pred := g.Pred[i]
				key := fmt.Sprintf("%s|%s|%d|%d|%s|%s|%d", path, a.name, g.N, g.P, g.Capv, g.Adv, d)
				if pred == 'S' && allowed && (d < -l.dstC-8 || d > l.inN+8) {
					key = "" // far-apart buffers: trivial
				}
				out.Case(key)
				stats["cases"]++
				stats[string(pred)]++
				detail := func() map[string]any {
					return map[string]any{"api": a.name, "class": g.Cls, "n": g.N, "offset": d, "prefix": g.P, "capacity": g.Capv, "ad": g.Adv,
						"layout(in.n,dst.a-in.a,dst.len,dst.cap,ad.a-in.a,ad.n)": l.rel(), "allowed": allowed, "model": string(pred),
						"panicked": got.panicked, "panic": got.msg, "ok": got.ok, "sameAsSeparate": same}
				}
				switch {
				case allowed && got.panicked:
					fail("c53-spurious-panic:"+a.name, "a documented arrangement (exact overlap / documented dst prefix / disjoint buffers) panics", detail())
				case allowed && !same:
					fail("c53-inplace-result-differs:"+a.name, "a documented arrangement gives a result different from the one with separate buffers", detail())
				case !allowed && !got.panicked && !same:
					sig := "c53-corrupt-no-panic:" + a.name
					if g.Dev != "none" && i < len(g.Devat) && g.Devat[i] == 'D' {
						sig = "c53-" + g.Dev // the class's named deviation (open, or repaired and now regressed): the finding's own signature
					}
					fail(sig, "inexactly overlapping buffers: no panic and the result differs from the one with separate buffers", detail())
					stats["forbidden_corrupt_without_panic"]++
				default:
					// property holds on this case; is the model's finer prediction right?
					if (pred == 'P') != got.panicked {
						stats["model_mismatch"]++
						if len(mismatch) < 10 {
							mismatch = append(mismatch, detail())
						}
					}
					if pred == 'U' && same {
						stats["unspecified_but_same"]++
					}
				}
				if stats["cases"]%9973 == 1 {
					out.Sample(map[string]any{"api": a.name, "n": g.N, "offset": d, "prefix": g.P, "capacity": g.Capv, "ad": g.Adv, "allowed": allowed, "model": string(pred), "panicked": got.panicked, "same": same})
				}
			}
		}
		return nil
	})
	if err != nil {
		t.Fatal(err)
	}
	if ngroups == 0 {
		t.Fatal("no groups")
	}
	for k, v := range stats {
		out.Extra[k+"_"+path] = v
	}
	for k, v := range perSig {
		out.Extra["violating_cases:"+k+"_"+path] = v
	}
	out.Extra["groups_"+path] = ngroups
	if len(mismatch) > 0 {
		out.Extra["model_mismatch_samples_"+path] = mismatch
	}
}
