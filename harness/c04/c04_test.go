// Binding R+E for C04 (Poly1305 equals the mathematical definition).
//
// Input: (1) tags evaluated by TLC from the executable definition spec/PrimPoly.tla for patterned
// keys/messages of every length 0..TagMax and for the accumulator-boundary cases of
// spec/PolyMac_Gen.tla (file VERIF_C04_TAGS); (2) Write chunkings enumerated by TLC from
// spec/PolyMac.tla (VERIF_CASES), whose prediction is "the tag of the concatenation".
// Drives the real golang.org/x/crypto/poly1305 (Sum, Verify, New/Write/Sum/Verify), which wraps
// internal/poly1305; built with tags "verif" (assembly update on amd64) and "verif,purego"
// (updateGeneric) - VERIF_C04_PATH names the path for the evidence.
package c04

import (
	"bytes"
	"encoding/hex"
	"encoding/json"
	"fmt"
	"os"
	"strconv"
	"testing"

	"golang.org/x/crypto/poly1305"
	"verif/harness/c03ref"
	"verif/harness/vutil"
)

type tagRec struct {
	T     string `json:"t"`
	ID    string `json:"id"`
	K     int    `json:"k"`
	Kseed int    `json:"kseed"`
	Mseed int    `json:"mseed"`
	Len   int    `json:"len"`
	Key   []int  `json:"key"`
	Msg   []int  `json:"msg"`
	Tag   []int  `json:"tag"`
}

type hist struct {
	W []int `json:"w"`
}

func toBytes(v []int) []byte {
	b := make([]byte, len(v))
	for i, x := range v {
		b[i] = byte(x)
	}
	return b
}

func hx(b []byte) string {
	if len(b) > 64 {
		b = b[:64]
	}
	return hex.EncodeToString(b)
}

type env struct {
	t    *testing.T
	out  *vutil.Out
	path string
}

func (e *env) fail(sig, what string, d map[string]any) {
	d["path"] = e.path
	e.out.Violation(sig, what, d)
	e.t.Errorf("%s: %s %v", sig, what, d)
}

// chunked computes the tag through New/Write.../Sum with the given chunk sizes (rest in a last write).
func chunked(key *[32]byte, msg []byte, sizes []int) (tag1, tag2 []byte, verifyOK bool) {
	m := poly1305.New(key)
	off := 0
	for _, n := range sizes {
		if off+n > len(msg) {
			n = len(msg) - off
		}
		m.Write(msg[off : off+n])
		off += n
	}
	if off < len(msg) {
		m.Write(msg[off:])
	}
	tag1 = m.Sum(nil)
	tag2 = m.Sum([]byte{9})[1:] // Sum works on a copy of the state: repeatable, appends to its argument
	verifyOK = m.Verify(tag1)
	return
}

// full check of one (key, msg, want) triple on the real package
func (e *env) checkTriple(label string, keyb, msg, want []byte, flips bool) {
	var key [32]byte
	copy(key[:], keyb)
	var got [16]byte
	poly1305.Sum(&got, msg, &key)
	d := func() map[string]any {
		return map[string]any{"case": label, "key": hx(keyb), "msglen": len(msg), "msg": hx(msg), "want": hx(want)}
	}
	if !bytes.Equal(got[:], want) {
		x := d()
		x["got"] = hx(got[:])
		e.fail("c04-sum-mismatch", "poly1305.Sum differs from the mathematical definition", x)
		return
	}
	var wt [16]byte
	copy(wt[:], want)
	if !poly1305.Verify(&wt, msg, &key) {
		e.fail("c04-verify-rejects-tag", "poly1305.Verify rejects the correct tag", d())
	}
	t1, t2, vok := chunked(&key, msg, nil)
	if !bytes.Equal(t1, want) || !bytes.Equal(t2, want) || !vok {
		x := d()
		x["got"], x["got2"], x["verify"] = hx(t1), hx(t2), vok
		e.fail("c04-mac-mismatch", "New/Write/Sum/Verify differs from the mathematical definition", x)
	}
	if flips {
		for bit := 0; bit < 128; bit++ {
			bad := wt
			bad[bit/8] ^= 1 << (bit % 8)
			acc := poly1305.Verify(&bad, msg, &key)
			m := poly1305.New(&key)
			m.Write(msg)
			acc2 := m.Verify(bad[:])
			if acc || acc2 {
				x := d()
				x["bit"] = bit
				e.fail("c04-verify-accepts-wrong-tag", "Verify accepts a tag with one bit flipped", x)
				break
			}
		}
		m := poly1305.New(&key)
		m.Write(msg)
		if m.Verify(want[:15]) || m.Verify(append(append([]byte(nil), want...), 0)) {
			e.fail("c04-verify-accepts-wrong-tag", "MAC.Verify accepts a truncated/extended tag", d())
		}
	}
}

func TestReplay(t *testing.T) {
	out := vutil.NewOut()
	defer func() {
		if err := out.Write(); err != nil {
			t.Fatal(err)
		}
	}()
	e := &env{t: t, out: out, path: vutil.Env("VERIF_C04_PATH", "default")}
	nrand, _ := strconv.Atoi(vutil.Env("VERIF_C04_RANDOM", "0"))
	type pk struct{ k, m int }
	table := map[pk]map[int][]byte{} // (kseed, mseed) -> len -> tag
	var edges []tagRec
	ntags := 0
	err := vutil.ReadNDJSON(os.Getenv("VERIF_C04_TAGS"), func(line []byte) error {
		var r tagRec
		if err := json.Unmarshal(line, &r); err != nil {
			return err
		}
		want := toBytes(r.Tag)
		var key, msg []byte
		var label string
		switch r.T {
		case "pat":
			key, msg = c03ref.Pat(r.Kseed, 32), c03ref.Pat(r.Mseed, r.Len)
			label = fmt.Sprintf("pat k%d m%d len%d", r.Kseed, r.Mseed, r.Len)
			if table[pk{r.Kseed, r.Mseed}] == nil {
				table[pk{r.Kseed, r.Mseed}] = map[int][]byte{}
			}
			table[pk{r.Kseed, r.Mseed}][r.Len] = want
		case "edge":
			key, msg = toBytes(r.Key), toBytes(r.Msg)
			label = fmt.Sprintf("edge %s k=%d s=%02x", r.ID, r.K, key[16])
			edges = append(edges, r)
		default:
			return nil
		}
		if !bytes.Equal(c03ref.Poly1305(key, msg), want) {
			return fmt.Errorf("refimpl Poly1305 differs from the TLC-evaluated definition (%s)", label)
		}
		ntags++
		out.Case(e.path + "|tag|" + label)
		e.checkTriple(label, key, msg, want, true)
		return nil
	})
	if err != nil {
		t.Fatal(err)
	}
	if ntags == 0 {
		t.Fatal("no TLC-evaluated tags")
	}
	out.Extra["tlc_evaluated_tags_"+e.path] = ntags
	// ---- boundary cases under every 2-split and a 3-split (buffer/offset handling at the accumulator boundary)
	for _, r := range edges {
		keyb, msg, want := toBytes(r.Key), toBytes(r.Msg), toBytes(r.Tag)
		var key [32]byte
		copy(key[:], keyb)
		for cut := 0; cut <= len(msg); cut++ {
			t1, t2, vok := chunked(&key, msg, []int{cut})
			t3, _, _ := chunked(&key, msg, []int{cut / 2, 0, cut - cut/2})
			out.Case(fmt.Sprintf("%s|edge-split|%s|%d|%d|%d", e.path, r.ID, r.K, key[16], cut))
			if !bytes.Equal(t1, want) || !bytes.Equal(t2, want) || !bytes.Equal(t3, want) || !vok {
				e.fail("c04-mac-mismatch", "chunked Write/Sum differs from the mathematical definition on a boundary case",
					map[string]any{"edge": r.ID, "k": r.K, "cut": cut, "got": hx(t1), "got3": hx(t3), "want": hx(want), "key": hx(keyb), "msg": hx(msg)})
				break
			}
		}
	}
	// ---- chunkings enumerated by TLC
	nh := 0
	err = vutil.ReadNDJSON(vutil.Env("VERIF_CASES", ""), func(line []byte) error {
		var h hist
		if err := json.Unmarshal(line, &h); err != nil {
			return err
		}
		nh++
		total := 0
		for _, n := range h.W {
			total += n
		}
		for p, tags := range table {
			want, ok := tags[total]
			if !ok {
				continue
			}
			var key [32]byte
			copy(key[:], c03ref.Pat(p.k, 32))
			msg := c03ref.Pat(p.m, total)
			t1, t2, vok := chunked(&key, msg, h.W)
			out.Case(fmt.Sprintf("%s|chunk|%d|%d|%s", e.path, p.k, p.m, line))
			if !bytes.Equal(t1, want) || !bytes.Equal(t2, want) || !vok {
				e.fail("c04-mac-mismatch", "chunked Write/Sum differs from the mathematical definition",
					map[string]any{"writes": h.W, "kseed": p.k, "mseed": p.m, "got": hx(t1), "got2": hx(t2), "verify": vok, "want": hx(want)})
			}
		}
		if nh%997 == 1 {
			out.Sample(json.RawMessage(append([]byte(nil), line...)))
		}
		return nil
	})
	if err != nil {
		t.Fatal(err)
	}
	out.Extra["chunkings"] = nh
	// ---- amplifier: random and structured keys/messages judged by the validated transcription
	rng := vutil.Rand(404)
	for i := 0; i < nrand; i++ {
		key := make([]byte, 32)
		rng.Read(key)
		switch i % 6 {
		case 1: // r = 1
			copy(key[:16], []byte{1, 0, 0, 0, 0, 0, 0, 0, 0, 0, 0, 0, 0, 0, 0, 0})
		case 2: // r at clamped maximum, s = 2^128-1
			for j := range key {
				key[j] = 0xff
			}
		case 3: // small r, s near 2^128
			for j := 1; j < 16; j++ {
				key[j] = 0
			}
			for j := 16; j < 32; j++ {
				key[j] = 0xff
			}
			key[16] = byte(rng.Intn(256))
		}
		n := rng.Intn(4097)
		if i%4 == 0 {
			n = rng.Intn(200)
		}
		msg := make([]byte, n)
		rng.Read(msg)
		if i%3 != 0 { // blocks with high bytes ff: accumulator near 2^130
			for b := 0; b+16 <= n; b += 16 {
				if rng.Intn(2) == 0 {
					for j := 1 + rng.Intn(3); j < 16; j++ {
						msg[b+j] = 0xff
					}
					if rng.Intn(2) == 0 {
						msg[b] = byte(0xf0 + rng.Intn(16))
					}
				}
			}
		}
		want := c03ref.Poly1305(key, msg)
		out.Case(fmt.Sprintf("%s|rand|%d", e.path, i))
		e.checkTriple(fmt.Sprintf("random #%d (seed %d)", i, vutil.Seed()), key, msg, want, i%16 == 0)
		var k32 [32]byte
		copy(k32[:], key)
		var sizes []int
		for s := 0; s < 8; s++ {
			sizes = append(sizes, []int{0, 1, 15, 16, 17, 31, 33, 64, 100, 255}[rng.Intn(10)])
		}
		t1, t2, vok := chunked(&k32, msg, sizes)
		if !bytes.Equal(t1, want) || !bytes.Equal(t2, want) || !vok {
			e.fail("c04-mac-mismatch", "chunked Write/Sum differs from the mathematical definition (random case)",
				map[string]any{"writes": sizes, "key": hx(key), "msglen": n, "msg": hex.EncodeToString(msg), "got": hx(t1), "want": hx(want)})
		}
	}
}
