// Binding E for C15 (Argon2i/Argon2id equal RFC 9106 for all parameters).
//
// Input: the values TLC evaluated from the executable definition spec/PrimArgon2.tla
// (spec/Argon2_Vec.tla; file VERIF_C15_VEC): tags, the RFC 9106 section 5 vectors, G blocks, H'
// outputs, reference-block tables.  The harness
//  1. validates its Go transcription harness/c15ref against every one of them (a disagreement is a
//     harness defect, never a verdict: the test dies without recording a violation);
//  2. compares the real golang.org/x/crypto/argon2 with them: Key / IDKey tags, and through the
//     verif hooks the compression function (processBlock / processBlockXOR), blake2bHash and
//     indexAlpha;
//  3. judges a seeded grid of further parameter sets (and random blocks for the compression
//     function) by the validated transcription.
//
// Every comparison runs on each block-function path of the build: with -tags verif on amd64 the
// SSE4.1 assembly rounds ("sse4") and the SSE2 mix + Go rounds selected when SSE4.1 is absent
// ("sse2", forced through VerifSetSSE4(false)), plus processBlockGeneric called directly for the
// compression function; with -tags verif,purego the portable code ("purego").
package c15

import (
	"bytes"
	"encoding/hex"
	"encoding/json"
	"fmt"
	"os"
	"strconv"
	"sync"
	"testing"

	"golang.org/x/crypto/argon2"
	"verif/harness/c03ref"
	"verif/harness/c15ref"
	"verif/harness/vutil"
)

type vec struct {
	K     string          `json:"k"`
	Y     int             `json:"y"`
	T     int             `json:"t"`
	M     int             `json:"m"`
	P     int             `json:"p"`
	TL    int             `json:"T"`
	Pl    int             `json:"pl"`
	Ps    int             `json:"ps"`
	Sl    int             `json:"sl"`
	Ss    int             `json:"ss"`
	Bytes json.RawMessage `json:"bytes"`
}

// an explicit case (replay) or a grid case
type acase struct {
	Y    int    `json:"y"`
	T    int    `json:"t"`
	M    uint32 `json:"m"`
	P    int    `json:"p"`
	TL   int    `json:"T"`
	Pw   string `json:"pw"`   // hex
	Salt string `json:"salt"` // hex
	Tag  string `json:"tag,omitempty"`
	pw   []byte
	salt []byte
	want []byte
	src  string
}

func toBytes(raw json.RawMessage) ([]byte, error) {
	var v []int
	if err := json.Unmarshal(raw, &v); err != nil {
		return nil, err
	}
	b := make([]byte, len(v))
	for i, x := range v {
		if x < 0 || x > 255 {
			return nil, fmt.Errorf("not a byte: %d", x)
		}
		b[i] = byte(x)
	}
	return b, nil
}

func hx(b []byte) string {
	if len(b) > 64 {
		return hex.EncodeToString(b[:64]) + "..."
	}
	return hex.EncodeToString(b)
}

type env struct {
	t      *testing.T
	out    *vutil.Out
	purego bool
	nviol  int
	bySig  map[string]int
}

func (e *env) fail(sig, what string, d map[string]any) {
	e.nviol++
	e.bySig[sig]++
	if e.bySig[sig] > 3 {
		return
	}
	e.out.Violation(sig, what, d)
	if e.nviol <= 20 {
		e.t.Errorf("%s: %s %v", sig, what, d)
	}
}

// block-function paths of this build for Key/IDKey; each returns a restore function
type variant struct {
	name string
	set  func() func()
}

func (e *env) variants() []variant {
	if e.purego {
		if argon2.VerifUseSSE4() {
			e.t.Fatalf("purego build reports SSE4 rounds in use")
		}
		return []variant{{"purego", func() func() { return func() {} }}}
	}
	vs := []variant{}
	if argon2.VerifUseSSE4() {
		vs = append(vs, variant{"sse4", func() func() {
			r := argon2.VerifSetSSE4(true)
			if !argon2.VerifUseSSE4() {
				panic("SSE4 rounds not in effect")
			}
			return r
		}})
	}
	vs = append(vs, variant{"sse2", func() func() {
		r := argon2.VerifSetSSE4(false)
		if argon2.VerifUseSSE4() {
			panic("SSE4 rounds still in effect")
		}
		return r
	}})
	return vs
}

func typeName(y int) string {
	if y == c15ref.TypeI {
		return "Key"
	}
	return "IDKey"
}

// the real function, panics caught
func realTag(y int, pw, salt []byte, t int, m uint32, p int, T int) (tag []byte, panicked any) {
	defer func() {
		if r := recover(); r != nil {
			panicked = r
		}
	}()
	if y == c15ref.TypeI {
		return argon2.Key(pw, salt, uint32(t), m, uint8(p), uint32(T)), nil
	}
	return argon2.IDKey(pw, salt, uint32(t), m, uint8(p), uint32(T)), nil
}

// which clause of the property a parameter set exercises (part of the violation signature)
func class(m uint32, p, T int) string {
	c := "m-multiple"
	switch {
	case int64(m) < int64(8*p):
		c = "m-below-8p"
	case int(m)%(4*p) != 0:
		c = "m-rounded"
	}
	if T > 64 {
		return c + ":T>64"
	}
	return c + ":T<=64"
}

func (e *env) compareTag(va string, c *acase, oracle string) {
	got, pan := realTag(c.Y, c.pw, c.salt, c.T, c.M, c.P, c.TL)
	key := fmt.Sprintf("%s|%s|%d|%d|%d|%d|%d|%x|%x", c.src, va, c.Y, c.T, c.M, c.P, c.TL, c.pw, c.salt)
	e.out.Case(key)
	d := map[string]any{"fn": typeName(c.Y), "variant": va, "y": c.Y, "t": c.T, "m": c.M, "p": c.P, "T": c.TL,
		"pw": hex.EncodeToString(c.pw), "salt": hex.EncodeToString(c.salt), "want": hx(c.want), "oracle": oracle,
		"blocks": c15ref.MemBlocks(int(c.M), c.P)}
	if pan != nil {
		d["panic"] = fmt.Sprint(pan)
		e.fail("c15-panic:"+typeName(c.Y)+":"+va, "argon2 panics on parameters the property covers", d)
		return
	}
	if !bytes.Equal(got, c.want) {
		d["got"] = hx(got)
		e.fail("c15-tag:"+typeName(c.Y)+":"+va+":"+class(c.M, c.P, c.TL), "derived key differs from the RFC 9106 tag", d)
	}
}

// compression function on every path of this build
func (e *env) compareG(src string, x, y *c15ref.Block, want *c15ref.Block, oracle string) {
	type path struct {
		name string
		f    func(out, a, b [128]uint64, xor bool) [128]uint64
		set  func() func()
	}
	var paths []path
	for _, va := range e.variants() {
		paths = append(paths, path{va.name, argon2.VerifProcessBlock, va.set})
	}
	paths = append(paths, path{"generic-direct", argon2.VerifProcessBlockGeneric, func() func() { return func() {} }})
	var old c15ref.Block
	for i := range old {
		old[i] = x[(i+5)%128]*0x9e3779b97f4a7c15 + uint64(i)
	}
	for _, p := range paths {
		restore := p.set()
		for _, xor := range []bool{false, true} {
			got := c15ref.Block(p.f([128]uint64(old), [128]uint64(*x), [128]uint64(*y), xor))
			exp := *want
			if xor {
				exp = c15ref.XorBlock(want, &old)
			}
			e.out.Case(fmt.Sprintf("%s|%s|%v|%x|%x", src, p.name, xor, x[0], y[0]))
			if got != exp {
				w := 0
				for w < 127 && got[w] == exp[w] {
					w++
				}
				e.fail("c15-compression:"+p.name, "processBlock differs from RFC 9106 G (xor variant: old xor G)", map[string]any{
					"variant": p.name, "xor": xor, "x": hx(c15ref.BytesOfBlock(x)), "y": hx(c15ref.BytesOfBlock(y)),
					"first_differing_word": w, "got": fmt.Sprintf("%016x", got[w]), "want": fmt.Sprintf("%016x", exp[w]), "oracle": oracle})
			}
		}
		restore()
	}
}

// (1)+(2): the TLC-evaluated table
func (e *env) vectors(path string) (n int, tags []*acase) {
	kinds := map[string]int{}
	err := vutil.ReadNDJSON(path, func(line []byte) error {
		var v vec
		if err := json.Unmarshal(line, &v); err != nil {
			return err
		}
		n++
		kinds[v.K]++
		bad := func(what string, got, want any) error {
			return fmt.Errorf("harness/c15ref disagrees with the TLC-evaluated definition on %s (%s): %v vs %v (transcription wrong; not a verdict)", what, line[:min(len(line), 120)], got, want)
		}
		switch v.K {
		case "a":
			want, err := toBytes(v.Bytes)
			if err != nil || len(want) != v.TL {
				return fmt.Errorf("TLC vector malformed: %.120s", line)
			}
			pw, salt := c03ref.Pat(v.Ps, v.Pl), c03ref.Pat(v.Ss, v.Sl)
			if got := c15ref.Argon2(v.Y, pw, salt, v.T, v.M, v.P, v.TL); !bytes.Equal(got, want) {
				return bad("tag", hx(got), hx(want))
			}
			tags = append(tags, &acase{Y: v.Y, T: v.T, M: uint32(v.M), P: v.P, TL: v.TL, pw: pw, salt: salt, want: want, src: "tlc"})
		case "rfc":
			want, err := toBytes(v.Bytes)
			if err != nil {
				return err
			}
			rep := func(b byte, n int) []byte { return bytes.Repeat([]byte{b}, n) }
			if got := c15ref.Argon2KX(v.Y, rep(1, 32), rep(2, 16), rep(3, 8), rep(4, 12), 3, 32, 4, 32); !bytes.Equal(got, want) {
				return bad("RFC 9106 section 5 vector", hx(got), hx(want))
			}
		case "g":
			want, err := toBytes(v.Bytes)
			if err != nil || len(want) != 1024 {
				return fmt.Errorf("TLC vector malformed: %.120s", line)
			}
			x, y, w := c15ref.BlockOfBytes(c03ref.Pat(v.Ps, 1024)), c15ref.BlockOfBytes(c03ref.Pat(v.Ss, 1024)), c15ref.BlockOfBytes(want)
			if got := c15ref.G(&x, &y); got != w {
				return bad("G", hx(c15ref.BytesOfBlock(&got)), hx(want))
			}
			e.compareG("tlc-g", &x, &y, &w, "TLC PrimArgon2!G")
		case "hp":
			want, err := toBytes(v.Bytes)
			if err != nil || len(want) != v.TL {
				return fmt.Errorf("TLC vector malformed: %.120s", line)
			}
			in := c03ref.Pat(v.Ps, v.Pl)
			if got := c15ref.HPrime(v.TL, in); !bytes.Equal(got, want) {
				return bad("H'", hx(got), hx(want))
			}
			got := argon2.VerifBlake2bHash(v.TL, in)
			e.out.Case(fmt.Sprintf("hp|%d|%d|%d", v.TL, v.Pl, v.Ps))
			if !bytes.Equal(got, want) {
				sig := "c15-hprime:T<=64"
				if v.TL > 64 {
					sig = "c15-hprime:T>64"
				}
				e.fail(sig, "blake2bHash differs from the RFC 9106 variable-length hash H'", map[string]any{
					"T": v.TL, "inlen": v.Pl, "inseed": v.Ps, "got": hx(got), "want": hx(want), "oracle": "TLC PrimArgon2!HPrime"})
			}
		case "ix":
			var rows [][]int
			if err := json.Unmarshal(v.Bytes, &rows); err != nil {
				return err
			}
			p, seglen, r, sl := v.P, v.M, v.T, v.TL
			q := 4 * seglen
			for _, row := range rows {
				if len(row) != 8 {
					return fmt.Errorf("TLC index row malformed: %v", row)
				}
				l, idx := row[0], row[1]
				w := uint64(row[2])<<48 | uint64(row[3])<<32 | uint64(row[4])<<16 | uint64(row[5])
				rl, col := c15ref.RefBlock(p, seglen, r, sl, l, idx, w)
				if rl != row[6] || col != row[7] {
					return bad("reference block", []int{rl, col}, row)
				}
				got := argon2.VerifIndexAlpha(w, uint32(q), uint32(seglen), uint32(p), uint32(r), uint32(sl), uint32(l), uint32(idx))
				e.out.Case(fmt.Sprintf("ix|%d|%d|%d|%d|%d|%d|%x", p, seglen, r, sl, l, idx, w))
				if int(got) != rl*q+col {
					e.fail("c15-index", "indexAlpha differs from the RFC 9106 section 3.4.2 reference block", map[string]any{
						"lanes": p, "seglen": seglen, "pass": r, "slice": sl, "lane": l, "index": idx, "rand": fmt.Sprintf("%016x", w),
						"got": []int{int(got) / q, int(got) % q}, "want": []int{rl, col}, "oracle": "TLC PrimArgon2!RefBlock"})
				}
			}
		default:
			return fmt.Errorf("unknown vector kind %q", v.K)
		}
		return nil
	})
	if err != nil {
		e.t.Fatalf("vectors: %v", err)
	}
	for _, k := range []string{"a", "rfc", "g", "hp", "ix"} {
		if kinds[k] == 0 {
			e.t.Fatalf("vector table has no %q entries: the transcription would not be validated", k)
		}
	}
	e.out.Extra["tlc_vectors"] = n
	return n, tags
}

// (3) the seeded grid
func genGrid(n int, thorough bool) []*acase {
	rnd := vutil.Rand(1500)
	pick := func(xs ...int) int { return xs[rnd.Intn(len(xs))] }
	var cs []*acase
	for i := 0; i < n; i++ {
		c := &acase{src: "grid"}
		c.Y = pick(c15ref.TypeI, c15ref.TypeID)
		c.T = pick(1, 1, 1, 2, 2, 3, 4)
		switch k := rnd.Intn(100); {
		case k < 70:
			c.P = 1 + rnd.Intn(8)
		case k < 88:
			c.P = 9 + rnd.Intn(8)
		case k < 96:
			c.P = 17 + rnd.Intn(48)
		default:
			c.P = pick(64, 65, 100, 127, 128, 129, 200, 254, 255)
		}
		p := c.P
		big := 4096
		if thorough {
			big = 6144
		}
		switch k := rnd.Intn(100); {
		case p > 16: // many lanes: minimal memory
			c.M = uint32(pick(0, 1, 8*p-1, 8*p, 8*p+1, 12*p-1, 12*p, 16*p+rnd.Intn(4*p)))
		case k < 15:
			c.M = uint32(rnd.Intn(8 * p)) // below the minimum (0 included)
		case k < 50:
			c.M = uint32(8*p + rnd.Intn(12*p+1)) // 2..4 blocks per segment, mostly non-multiples
		case k < 85:
			c.M = uint32(8*p + rnd.Intn(256-8)) // up to 256 KiB
		case k < 95:
			c.M = uint32(256 + rnd.Intn(1024))
		case k < 98:
			c.M = uint32(pick(516*p, 516*p+1, 4*129*p+4*p-1, 1024*p)) // segments longer than one address block
		default:
			c.M = uint32(1024 + rnd.Intn(big-1024)) // a few MiB
		}
		if int(c.M) > 1024 && c.T > 2 {
			c.T = 2
		}
		switch k := rnd.Intn(100); {
		case k < 30:
			c.TL = 1 + rnd.Intn(64)
		case k < 45:
			c.TL = pick(4, 16, 31, 32, 33, 63, 64, 65, 95, 96, 97, 127, 128, 129, 160, 192, 256, 300, 512, 1023, 1024)
		case k < 80:
			c.TL = 65 + rnd.Intn(236)
		default:
			c.TL = 301 + rnd.Intn(724)
		}
		pl := []int{0, 0, rnd.Intn(65), rnd.Intn(65), 8, 16, 32, 100 + rnd.Intn(200), pick(59, 60, 61, 123, 124, 125, 128, 187, 188, 189)}[rnd.Intn(9)]
		sl := []int{0, 8, 8, 16, 16, 16, rnd.Intn(64), rnd.Intn(64), 64 + rnd.Intn(200)}[rnd.Intn(9)]
		c.pw, c.salt = make([]byte, pl), make([]byte, sl)
		rnd.Read(c.pw)
		rnd.Read(c.salt)
		cs = append(cs, c)
	}
	return cs
}

func refAll(cs []*acase) {
	var wg sync.WaitGroup
	ch := make(chan *acase)
	for w := 0; w < 8; w++ {
		wg.Add(1)
		go func() {
			defer wg.Done()
			for c := range ch {
				c.want = c15ref.Argon2(c.Y, c.pw, c.salt, c.T, int(c.M), c.P, c.TL)
			}
		}()
	}
	for _, c := range cs {
		ch <- c
	}
	close(ch)
	wg.Wait()
}

func TestReplay(t *testing.T) {
	out := vutil.NewOut()
	defer out.Write()
	e := &env{t: t, out: out, purego: os.Getenv("VERIF_C15_PUREGO") == "1", bySig: map[string]int{}}
	vp := os.Getenv("VERIF_C15_VEC")
	if vp == "" {
		t.Fatal("VERIF_C15_VEC not set")
	}
	_, tlcTags := e.vectors(vp)
	vs := e.variants()
	names := []string{}
	for _, va := range vs {
		names = append(names, va.name)
	}
	out.Extra["variants"] = names
	if !e.purego && len(vs) < 2 {
		out.Extra["variants_not_supported_by_cpu"] = "sse4"
	}

	// explicit cases (replay): judged by the validated transcription
	var explicit []*acase
	if cp := os.Getenv("VERIF_CASES"); cp != "" {
		err := vutil.ReadNDJSON(cp, func(line []byte) error {
			c := &acase{src: "explicit"}
			if err := json.Unmarshal(line, c); err != nil {
				return err
			}
			var err error
			if c.pw, err = hex.DecodeString(c.Pw); err != nil {
				return err
			}
			if c.salt, err = hex.DecodeString(c.Salt); err != nil {
				return err
			}
			explicit = append(explicit, c)
			return nil
		})
		if err != nil {
			t.Fatalf("cases: %v", err)
		}
	}
	nrand, _ := strconv.Atoi(vutil.Env("VERIF_C15_RANDOM", "200"))
	grid := genGrid(nrand, vutil.Thorough())
	refAll(explicit)
	refAll(grid)

	for _, va := range vs {
		restore := va.set()
		for _, c := range tlcTags {
			e.compareTag(va.name, c, "TLC PrimArgon2")
		}
		for _, c := range explicit {
			e.compareTag(va.name, c, "harness/c15ref validated against TLC")
		}
		for _, c := range grid {
			e.compareTag(va.name, c, "harness/c15ref validated against TLC")
		}
		restore()
	}

	// random blocks through the compression function
	nblk, _ := strconv.Atoi(vutil.Env("VERIF_C15_BLOCKS", "300"))
	rnd := vutil.Rand(1501)
	for i := 0; i < nblk; i++ {
		var x, y c15ref.Block
		for w := range x {
			x[w], y[w] = rnd.Uint64(), rnd.Uint64()
			switch i % 7 { // sparse and saturated words exercise the carries of the multiplication
			case 1:
				x[w] |= 0xffffffff
			case 2:
				y[w] &= 0xffffffff00000000
			case 3:
				x[w], y[w] = x[w]|0x80000000ffffffff, y[w]|0xffffffff
			}
		}
		want := c15ref.G(&x, &y)
		e.compareG("rand-g", &x, &y, &want, "harness/c15ref validated against TLC")
	}

	// random reference-block computations: indexAlpha against the validated transcription of RFC 9106 3.4.2
	nidx, _ := strconv.Atoi(vutil.Env("VERIF_C15_INDEX", "20000"))
	rnd = vutil.Rand(1502)
	for i := 0; i < nidx; i++ {
		p := 1 + rnd.Intn(255)
		if i%2 == 0 {
			p = 1 + rnd.Intn(8)
		}
		seglen := 2 + rnd.Intn(6)
		if i%5 == 0 {
			seglen = 2 + rnd.Intn(300)
		}
		r, sl, l := rnd.Intn(3), rnd.Intn(4), rnd.Intn(p)
		first := 0
		if r == 0 && sl == 0 {
			first = 2
			if seglen == 2 {
				continue
			}
		}
		idx := first + rnd.Intn(seglen-first)
		if i%3 == 0 {
			idx = first
		}
		w := rnd.Uint64()
		switch i % 11 {
		case 1:
			w |= 0xffffffff
		case 2:
			w &^= 0xffffffff
		case 3:
			w = w&^0xffffffff | uint64(rnd.Intn(70000))
		}
		rl, col := c15ref.RefBlock(p, seglen, r, sl, l, idx, w)
		q := 4 * seglen
		got := argon2.VerifIndexAlpha(w, uint32(q), uint32(seglen), uint32(p), uint32(r), uint32(sl), uint32(l), uint32(idx))
		out.Case(fmt.Sprintf("rix|%d|%d|%d|%d|%d|%d|%x", p, seglen, r, sl, l, idx, w))
		if int(got) != rl*q+col {
			e.fail("c15-index", "indexAlpha differs from the RFC 9106 section 3.4.2 reference block", map[string]any{
				"lanes": p, "seglen": seglen, "pass": r, "slice": sl, "lane": l, "index": idx, "rand": fmt.Sprintf("%016x", w),
				"got": []int{int(got) / q, int(got) % q}, "want": []int{rl, col}, "oracle": "harness/c15ref validated against TLC"})
		}
	}

	// sample for the optional third opinion (reference C implementation), judged outside
	if sp := os.Getenv("VERIF_C15_SAMPLE"); sp != "" {
		fh, err := os.Create(sp)
		if err != nil {
			t.Fatalf("sample: %v", err)
		}
		enc := json.NewEncoder(fh)
		for _, c := range append(append([]*acase{}, tlcTags...), grid...) {
			c.Pw, c.Salt, c.Tag = hex.EncodeToString(c.pw), hex.EncodeToString(c.salt), hex.EncodeToString(c.want)
			enc.Encode(c)
		}
		fh.Close()
	}
	for _, c := range grid[:min(len(grid), 3)] {
		out.Sample(map[string]any{"fn": typeName(c.Y), "t": c.T, "m": c.M, "p": c.P, "T": c.TL, "pwlen": len(c.pw), "saltlen": len(c.salt), "tag": hx(c.want)})
	}
	out.Extra["grid_cases"] = len(grid)
	if e.nviol > 0 {
		out.Extra["violations_total"] = e.nviol
	}
}
