// Binding R for C22: every Builder program TLC enumerated from spec/Builder.tla is interpreted
// against the real cryptobyte.Builder (growable, preallocated, prefixed and fixed-size variants);
// error/no-error, panics, total length, the prefix bytes at the predicted offsets and the data
// bytes are compared with the model's prediction, and the output is read back with the mirrored
// cryptobyte.String reads.
package c22

import (
	"bytes"
	"encoding/json"
	"errors"
	"fmt"
	"strconv"
	"strings"
	"testing"

	"golang.org/x/crypto/cryptobyte"
	"golang.org/x/crypto/cryptobyte/asn1"
	"verif/harness/vutil"
)

type tok struct {
	T   string `json:"t"`
	N   int    `json:"n"`
	Id  int    `json:"id"`
	Off int    `json:"off"`
	B   []int  `json:"b"`
}

type tcase struct {
	Ops      []string `json:"ops"`
	Cap      int      `json:"cap"`
	Err      string   `json:"err"`
	ErrAt    string   `json:"errAt"`
	Pan      string   `json:"pan"`
	Total    int      `json:"total"`
	Peak     int      `json:"peak"`
	PeakKind string   `json:"peakKind"`
	Toks     []tok    `json:"toks"`
}

type op struct {
	o string
	a int
	k string
}

const bigSize = 1 << 20

var master []byte

func init() {
	master = make([]byte, 1<<24+8192)
	for i := range master {
		master[i] = byte(i*131) ^ byte(i>>8)*7 ^ byte(i>>16)*13 ^ 0x5a
	}
}

func fill(id, n int) []byte { off := (id * 97) % 4096; return master[off : off+n] }
func uval(id int) uint64    { return uint64(id+1) * 0x9E3779B97F4A7C15 }
func ubytes(id, w int) []byte {
	v := uval(id)
	out := make([]byte, w)
	for i := w - 1; i >= 0; i-- {
		out[i] = byte(v)
		v >>= 8
	}
	return out
}
func vbyte(id int) byte { return 0xC0 | byte(id&0x3f) }

func parseOps(s []string) ([]op, error) {
	out := make([]op, len(s))
	for i, x := range s {
		switch {
		case strings.HasPrefix(x, "open:"):
			out[i] = op{o: "open", k: x[5:]}
		case strings.HasPrefix(x, "unw"):
			n, err := strconv.Atoi(x[3:])
			if err != nil {
				return nil, err
			}
			out[i] = op{o: "unw", a: n}
		case x[0] == 'u' || x[0] == 'b' && x != "be":
			n, err := strconv.Atoi(x[1:])
			if err != nil {
				return nil, err
			}
			out[i] = op{o: x[:1], a: n}
		default:
			out[i] = op{o: x}
		}
	}
	return out, nil
}

var errValue = errors.New("verif: value error")
var errSet = errors.New("verif: set error")
var errBuild = errors.New("verif: build error")

type mval struct {
	b   byte
	err error
}

func (m mval) Marshal(b *cryptobyte.Builder) error { b.AddUint8(m.b); return m.err }

type interp struct {
	ops     []op
	pos     int
	parents []*cryptobyte.Builder
	unwind  int // >0: a BuildError is unwinding this many open frames
}

func (it *interp) skip(levels int) {
	d := 0
	for it.pos < len(it.ops) {
		o := it.ops[it.pos]
		it.pos++
		if o.o == "open" {
			d++
		} else if o.o == "close" {
			d--
			if d == -levels {
				return
			}
		}
	}
}

func (it *interp) frame(b *cryptobyte.Builder) {
	for it.pos < len(it.ops) {
		o := it.ops[it.pos]
		id := it.pos + 1
		it.pos++
		switch o.o {
		case "u":
			switch o.a {
			case 1:
				b.AddUint8(uint8(uval(id)))
			case 2:
				b.AddUint16(uint16(uval(id)))
			case 3:
				b.AddUint24(uint32(uval(id)) & 0xffffff)
			case 4:
				b.AddUint32(uint32(uval(id)))
			case 6:
				b.AddUint48(uval(id) & 0xffffffffffff)
			case 8:
				b.AddUint64(uval(id))
			}
		case "b":
			b.AddBytes(fill(id, o.a))
		case "open":
			called := false
			cont := func(c *cryptobyte.Builder) { called = true; it.frame(c) }
			it.parents = append(it.parents, b)
			switch o.k {
			case "u8":
				b.AddUint8LengthPrefixed(cont)
			case "u16":
				b.AddUint16LengthPrefixed(cont)
			case "u24":
				b.AddUint24LengthPrefixed(cont)
			case "u32":
				b.AddUint32LengthPrefixed(cont)
			case "asn1":
				b.AddASN1(asn1.Tag(0x30), cont)
			case "asn1bad":
				b.AddASN1(asn1.Tag(0x1f), cont)
			}
			it.parents = it.parents[:len(it.parents)-1]
			if it.unwind > 0 {
				// a BuildError panic was recovered by the outermost continuation: the ops of the
				// abandoned frames never ran
				it.skip(it.unwind)
				it.unwind = 0
				it.parents = it.parents[:0]
			} else if !called {
				it.skip(1)
			}
		case "close":
			return
		case "unw":
			b.Unwrite(o.a)
		case "vok":
			b.AddValue(mval{vbyte(id), nil})
		case "verr":
			b.AddValue(mval{vbyte(id), errValue})
		case "seterr":
			b.SetError(errSet)
		case "be":
			it.unwind = len(it.parents)
			panic(cryptobyte.BuildError{Err: errBuild})
		case "pw":
			it.parents[len(it.parents)-1].AddUint8(0xEE)
		}
	}
}

type result struct {
	pan string // "" or classified panic
	msg string
	err error
	out []byte
}

func run(ops []op, b *cryptobyte.Builder) (r result) {
	defer func() {
		if x := recover(); x != nil {
			r.msg = fmt.Sprint(x)
			switch {
			case strings.Contains(r.msg, "attempted write while child is pending"):
				r.pan = "write-while-child"
			case strings.Contains(r.msg, "attempted to unwrite more than was written"):
				r.pan = "unwrite"
			default:
				r.pan = "other"
			}
		}
	}()
	it := &interp{ops: ops}
	it.frame(b)
	r.out, r.err = b.Bytes()
	return
}

// expected byte content of a data token
func tokBytes(ops []op, t tok) []byte {
	switch t.T {
	case "lit":
		o := ops[t.Id-1]
		if o.o == "u" {
			return ubytes(t.Id, o.a)[:t.N]
		}
		return []byte{vbyte(t.Id)}[:t.N]
	case "fill":
		return fill(t.Id, t.N)
	default:
		out := make([]byte, len(t.B))
		for i, x := range t.B {
			out[i] = byte(x)
		}
		return out
	}
}

// compare the emitted bytes with the model's layout; shift = length of a pre-existing buffer prefix
func compareLayout(c *tcase, ops []op, out []byte, shift int) string {
	if len(out) != c.Total+shift {
		return fmt.Sprintf("total length %d, model %d", len(out)-shift, c.Total)
	}
	for _, t := range c.Toks {
		if t.T == "end" {
			continue
		}
		want := tokBytes(ops, t)
		if len(want) != t.N {
			return fmt.Sprintf("model token %+v has inconsistent length", t)
		}
		got := out[shift+t.Off : shift+t.Off+t.N]
		if !bytes.Equal(got, want) {
			if t.T == "pfx" || t.T == "tag" {
				return fmt.Sprintf("%s bytes at offset %d: got %x want %x", t.T, t.Off, got, want)
			}
			return fmt.Sprintf("data token (op %d, %d bytes) at offset %d differs", t.Id, t.N, t.Off)
		}
	}
	return ""
}

// mirrored String reads
func readBack(c *tcase, ops []op, out []byte) string {
	s := cryptobyte.String(out)
	var stack []cryptobyte.String
	cur := &s
	toks := c.Toks
	for i := 0; i < len(toks); i++ {
		t := toks[i]
		switch t.T {
		case "lit", "fill":
			if t.N == 0 {
				continue // an empty value: nothing to recover (String.read(0) on a nil String reports failure)
			}
			want := tokBytes(ops, t)
			o := ops[t.Id-1]
			if t.T == "lit" && o.o == "u" && t.N == o.a {
				var v uint64
				ok := false
				switch t.N {
				case 1:
					var x uint8
					ok = cur.ReadUint8(&x)
					v = uint64(x)
				case 2:
					var x uint16
					ok = cur.ReadUint16(&x)
					v = uint64(x)
				case 3:
					var x uint32
					ok = cur.ReadUint24(&x)
					v = uint64(x)
				case 4:
					var x uint32
					ok = cur.ReadUint32(&x)
					v = uint64(x)
				case 6:
					ok = cur.ReadUint48(&v)
				case 8:
					ok = cur.ReadUint64(&v)
				}
				var w uint64
				for _, b := range want {
					w = w<<8 | uint64(b)
				}
				if !ok || v != w {
					return fmt.Sprintf("ReadUint%d for op %d: ok=%v got %x want %x", t.N*8, t.Id, ok, v, w)
				}
			} else {
				var got []byte
				if !cur.ReadBytes(&got, t.N) || !bytes.Equal(got, want) {
					return fmt.Sprintf("ReadBytes(%d) for op %d failed or returned different bytes", t.N, t.Id)
				}
			}
		case "tag":
			// consumed together with the following asn1 prefix
		case "pfx":
			var child cryptobyte.String
			ok := false
			k := ops[t.Id-1].k
			switch k {
			case "u8":
				ok = cur.ReadUint8LengthPrefixed(&child)
			case "u16":
				ok = cur.ReadUint16LengthPrefixed(&child)
			case "u24":
				ok = cur.ReadUint24LengthPrefixed(&child)
			case "u32":
				var n uint32
				ok = cur.ReadUint32(&n)
				if ok {
					if n == 0 {
						child = cryptobyte.String{}
					} else {
						ok = cur.ReadBytes((*[]byte)(&child), int(n))
					}
				}
			case "asn1":
				ok = cur.ReadASN1(&child, asn1.Tag(0x30))
			}
			if !ok {
				return fmt.Sprintf("mirrored read of %s child (op %d) failed", k, t.Id)
			}
			stack = append(stack, *cur)
			nc := child
			cur = &nc
		case "end":
			if !cur.Empty() {
				return fmt.Sprintf("child not consumed exactly: %d bytes left over", len(*cur))
			}
			parent := stack[len(stack)-1]
			stack = stack[:len(stack)-1]
			cur = &parent
		}
	}
	if len(stack) != 0 || !cur.Empty() {
		return fmt.Sprintf("%d bytes left over at top level", len(*cur))
	}
	return ""
}

type variant struct {
	name    string
	mk      func() (*cryptobyte.Builder, []byte)
	shift   int
	fixed   bool
	wantErr string // "" = as the model says; otherwise the model predicts this capacity error
	errAt   string
}

func TestReplay(t *testing.T) {
	out := vutil.NewOut()
	defer func() {
		if err := out.Write(); err != nil {
			t.Fatal(err)
		}
	}()
	maxBig, _ := strconv.Atoi(vutil.Env("VERIF_C22_MAXBIG", "40"))
	bigRuns, bigSkipped, runs := 0, 0, 0
	kinds := map[string]int{}
	sigCount := map[string]int{}
	viol := func(sig, what string, c *tcase, v string, extra map[string]any) {
		sigCount[sig]++
		if sigCount[sig] > 3 {
			return // the first three per signature are recorded; all are counted
		}
		d := map[string]any{"case": c, "variant": v}
		for k, x := range extra {
			d[k] = x
		}
		out.Violation(sig, what, d)
		t.Errorf("%s: %s ops=%v variant=%s %v", sig, what, c.Ops, v, extra)
	}
	err := vutil.ReadNDJSON(vutil.Env("VERIF_CASES", ""), func(line []byte) error {
		var c tcase
		if err := json.Unmarshal(line, &c); err != nil {
			return err
		}
		ops, err := parseOps(c.Ops)
		if err != nil {
			return err
		}
		big := c.Peak >= bigSize
		if big {
			if bigRuns >= maxBig {
				bigSkipped++
				return nil
			}
			bigRuns++
		}
		hasUnw := false
		for _, o := range ops {
			if o.o == "unw" {
				hasUnw = true
			}
		}
		var vs []variant
		if c.Cap >= 0 {
			vs = append(vs, variant{name: fmt.Sprintf("fixed(%d)", c.Cap), fixed: true,
				mk: func() (*cryptobyte.Builder, []byte) {
					buf := make([]byte, 0, c.Cap)
					return cryptobyte.NewFixedBuilder(buf), buf
				}})
		} else {
			vs = append(vs, variant{name: "grow", mk: func() (*cryptobyte.Builder, []byte) { return cryptobyte.NewBuilder(nil), nil }})
			if !big {
				vs = append(vs, variant{name: "zero", mk: func() (*cryptobyte.Builder, []byte) { return &cryptobyte.Builder{}, nil }})
				vs = append(vs, variant{name: "prealloc-half", mk: func() (*cryptobyte.Builder, []byte) {
					return cryptobyte.NewBuilder(make([]byte, 0, c.Peak/2+1)), nil
				}})
				vs = append(vs, variant{name: "prealloc-ample", mk: func() (*cryptobyte.Builder, []byte) {
					return cryptobyte.NewBuilder(make([]byte, 0, c.Peak+9)), nil
				}})
				if !hasUnw {
					vs = append(vs, variant{name: "prefixed", shift: 3, mk: func() (*cryptobyte.Builder, []byte) {
						return cryptobyte.NewBuilder([]byte{0xEE, 0xED, 0xEC}), nil
					}})
				}
			}
			vs = append(vs, variant{name: "fixed(peak)", fixed: true, mk: func() (*cryptobyte.Builder, []byte) {
				buf := make([]byte, 0, c.Peak)
				return cryptobyte.NewFixedBuilder(buf), buf
			}})
			if c.Peak >= 1 && c.Pan == "" {
				// one byte short: the first write that reaches the peak (kind peakKind) exceeds the capacity
				vs = append(vs, variant{name: "fixed(peak-1)", fixed: true, wantErr: "capacity", errAt: c.PeakKind,
					mk: func() (*cryptobyte.Builder, []byte) {
						buf := make([]byte, 0, c.Peak-1)
						return cryptobyte.NewFixedBuilder(buf), buf
					}})
			}
		}
		for _, v := range vs {
			runs++
			key := strings.Join(c.Ops, " ") + "|" + v.name
			out.Case(key)
			b, buf := v.mk()
			r := run(ops, b)
			wantErr, errAt := c.Err, c.ErrAt
			if v.wantErr != "" && c.Err == "" {
				wantErr, errAt = v.wantErr, v.errAt
			} else if v.wantErr != "" {
				errAt = v.errAt
			}
			capPredicted := v.fixed && (wantErr == "capacity" || v.wantErr != "")
			// panics
			if r.pan != c.Pan {
				switch {
				case c.Pan == "" && capPredicted && errAt == "open" && strings.Contains(r.msg, "cryptobyte: internal error"):
					viol("fixed-capacity-at-length-prefix-panics", "NewFixedBuilder: capacity exhausted while reserving a length prefix panics with \"cryptobyte: internal error\" instead of making Bytes return an error",
						&c, v.name, map[string]any{"panic": r.msg})
				case c.Pan == "" && capPredicted && errAt == "promote" && strings.Contains(r.msg, "cryptobyte: internal error"):
					// the lost promotion error let the run continue into the length-prefix panic
					viol("fixed-capacity-at-asn1-promotion-no-error", "NewFixedBuilder: capacity exceeded by the ASN.1 long-form length promotion is not reported (the builder carried on and later panicked)",
						&c, v.name, map[string]any{"panic": r.msg})
				case c.Pan == "":
					viol("c22-unexpected-panic", "Builder panicked where the model predicts none", &c, v.name, map[string]any{"panic": r.msg})
				default:
					viol("c22-missing-panic", "documented misuse panic did not happen (or a different one did)", &c, v.name, map[string]any{"panic": r.msg, "want": c.Pan})
				}
				continue
			}
			if c.Pan != "" {
				kinds["panic:"+c.Pan]++
				continue
			}
			if (r.err != nil) != (wantErr != "") {
				switch {
				case r.err == nil && capPredicted && errAt == "promote":
					viol("fixed-capacity-at-asn1-promotion-no-error", "NewFixedBuilder: capacity exceeded by the ASN.1 long-form length promotion is not reported: Bytes returns truncated output and a nil error",
						&c, v.name, map[string]any{"outLen": len(r.out)})
				case r.err == nil:
					viol("c22-missing-error", "Bytes returned no error where the model predicts "+wantErr, &c, v.name, nil)
				default:
					viol("c22-unexpected-error", "Bytes returned an error where the model predicts none", &c, v.name, map[string]any{"error": r.err.Error()})
				}
				continue
			}
			if wantErr != "" {
				kinds["err:"+wantErr]++
				if r.out != nil {
					viol("c22-bytes-with-error", "Bytes returned bytes together with an error", &c, v.name, nil)
				}
				continue
			}
			kinds["ok"]++
			if v.fixed {
				if cap(r.out) > 0 && cap(buf) > 0 && &r.out[:1][0] != &buf[:1][0] {
					viol("c22-fixed-realloc", "fixed-size builder returned a different backing array", &c, v.name, nil)
					continue
				}
				if len(r.out) > cap(buf) {
					viol("c22-fixed-realloc", "fixed-size builder exceeded its capacity", &c, v.name, nil)
					continue
				}
			}
			if d := compareLayout(&c, ops, r.out, v.shift); d != "" {
				viol("c22-bytes-mismatch", "emitted bytes differ from the model: "+d, &c, v.name, nil)
				continue
			}
			if d := readBack(&c, ops, r.out[v.shift:]); d != "" {
				viol("c22-parseback", "mirrored String reads do not recover the program: "+d, &c, v.name, nil)
				continue
			}
		}
		if len(c.Ops) >= 3 {
			out.Sample(map[string]any{"ops": c.Ops, "err": c.Err, "pan": c.Pan, "total": c.Total})
		}
		return nil
	})
	out.Extra["c22_runs"] = runs
	out.Extra["c22_big_programs_run"] = bigRuns
	out.Extra["c22_big_programs_skipped"] = bigSkipped
	for k, n := range kinds {
		out.Extra["c22_outcome_"+k] = n
	}
	for k, n := range sigCount {
		out.Extra["c22_violations_"+k] = n
	}
	if err != nil {
		t.Fatal(err)
	}
}
