package c37

import (
	"encoding/binary"
	"errors"
	"fmt"
	"io"
	"net"
	"reflect"
	"runtime"
	"sort"
	"strings"
	"sync"
	"time"

	"golang.org/x/crypto/ssh"
)

// ---------------------------------------------------------------------------------------------
// Quiescence.  The two endpoints talk over an in-memory conn; nothing in the process uses timers
// or the network.  Hence, when every goroutine that runs ssh or harness code is parked (channel
// operation, mutex, condition variable) in one consistent snapshot, no goroutine can ever wake
// another one: the state is final until the harness itself acts.  This is how the harness waits
// for the library to "settle" after each external event and how a hang is told from slowness:
// a call that has not returned in a quiescent process never will.

var parkedStates = map[string]bool{
	"chan receive": true, "chan send": true, "select": true, "sync.Mutex.Lock": true, "sync.Cond.Wait": true,
	"semacquire": true, "sync.WaitGroup.Wait": true, "sync.RWMutex.Lock": true, "sync.RWMutex.RLock": true,
	"chan receive (nil chan)": true, "chan send (nil chan)": true, "select (no cases)": true,
}

func relevant(g G) bool {
	return strings.Contains(g.Raw, "golang.org/x/crypto/ssh") || strings.Contains(g.Raw, "verif/harness")
}

// settle waits until the process is quiescent and returns the snapshot.  self is the calling
// goroutine (the only one allowed to run); ignore lists goroutines that are parked by design
// (the test's main goroutine).
func settle(self int, limit time.Duration) ([]G, error) { return settleIgnoring(self, nil, limit) }

// leakedGoroutines counts goroutines left parked for good by earlier scenarios (see teardown).
var leakedGoroutines int

func settleIgnoring(self int, ignore map[int]bool, limit time.Duration) ([]G, error) {
	deadline := time.Now().Add(limit)
	var last string
	iter := 0
	d := 50 * time.Microsecond
	for {
		gs := dumpAll()
		busy := ""
		var sig []string
		for _, g := range gs {
			if g.ID == self || ignore[g.ID] || !relevant(g) {
				continue
			}
			if !parkedStates[g.State] {
				busy = fmt.Sprintf("goroutine %d [%s]", g.ID, g.State)
				break
			}
			top := ""
			if len(g.Funcs) > 0 {
				top = g.Funcs[0]
			}
			sig = append(sig, fmt.Sprintf("%d|%s|%s", g.ID, g.State, top))
		}
		if busy == "" {
			sort.Strings(sig)
			s := strings.Join(sig, "\n")
			if s == last {
				return gs, nil
			}
			last = s
		} else {
			last = ""
		}
		if time.Now().After(deadline) {
			return gs, fmt.Errorf("process did not become quiescent within %v (%s)", limit, busy)
		}
		// yield first (cheap; with GOMAXPROCS=1 the other goroutines then run until they park), sleep later
		iter++
		if iter < 50 {
			runtime.Gosched()
			continue
		}
		time.Sleep(d)
		if d < time.Millisecond {
			d *= 2
		}
	}
}

// ---------------------------------------------------------------------------------------------
// Concrete addresses for the abstract targets of the model.

type target struct {
	net  string // "tcp" | "unix"
	host string // tcp host as sent in tcpip-forward
	port uint32
	path string // unix socket path
	how  string // "listen" | "listentcp" | "listenunix"
}

// variants: different concrete realisations of the same abstract targets.  In all of them u1's
// socket path is the same string as t1's host:port (the forward list is keyed by network AND address).
var variants = []map[string]target{
	{
		"t1": {net: "tcp", host: "127.0.0.1", port: 8022, how: "listen"},
		"t2": {net: "tcp", host: "127.0.0.1", port: 8023, how: "listentcp"},
		"u1": {net: "unix", path: "127.0.0.1:8022", how: "listenunix"},
		"u2": {net: "unix", path: "127.0.0.1:8023", how: "listen"},
		"x":  {net: "tcp", host: "127.0.0.1", port: 9999},
		"xu": {net: "unix", path: "/nonexistent/sock"},
	},
	{ // hostnames are sent as-is; same port on another host; Listen("unix", ...)
		"t1": {net: "tcp", host: "localhost", port: 8022, how: "listen"},
		"t2": {net: "tcp", host: "localhosT", port: 8022, how: "listen"},
		"u1": {net: "unix", path: "localhost:8022", how: "listen"},
		"u2": {net: "unix", path: "/tmp/verif-c37-b.sock", how: "listenunix"},
		"x":  {net: "tcp", host: "localhost", port: 8023},
		"xu": {net: "unix", path: "localhost:8023"},
	},
	{ // IPv6, and a port allocated by the peer (the harness server answers 4242 for port 0)
		"t1": {net: "tcp", host: "::1", port: 0, how: "listentcp"},
		"t2": {net: "tcp", host: "::1", port: 4243, how: "listen"},
		"u1": {net: "unix", path: "[::1]:4242", how: "listenunix"},
		"u2": {net: "unix", path: "[::1]:4243", how: "listenunix"},
		"x":  {net: "tcp", host: "::", port: 4242},
		"xu": {net: "unix", path: "::1:4242"},
	},
}

func (t target) effPort() uint32 {
	if t.port == 0 {
		return 4242
	}
	return t.port
}

// key identifies what the forward list is supposed to match on.
func (t target) key() string {
	if t.net == "unix" {
		return "unix|" + t.path
	}
	return "tcp|" + net.JoinHostPort(t.host, fmt.Sprint(t.effPort()))
}

// ---------------------------------------------------------------------------------------------
// One scenario: a fresh client/server pair and the calls made on it.

type openRec struct {
	id     int
	tname  string
	tgt    target
	mu     sync.Mutex
	status string // "pending" | "accepted" | "rejected"
	reason string
	ch     ssh.Channel
	sentAt int // step index
	doneAt int // step index at which a final status was first observed
}

type acceptRec struct {
	lname      string
	afterClose bool // Close of this listener had returned when the call was made
	mu         sync.Mutex
	res        string // "waiting" | "conn" | "err"
	open       int    // id of the open delivered (token read from the connection)
	err        string
	remote     string
	conn       net.Conn
	gid        int
}

type callRec struct {
	lname   string
	mu      sync.Mutex
	state   string // "blocked" | "returned"
	err     string
	gid     int
	atStep  int // step at which the call was issued
	retStep int // step after which it was first observed to have returned (-1: not yet)
}

type scen struct {
	p        *pair
	tg       map[string]target
	laddr    map[string]string // listener -> target name
	lmu      sync.Mutex        // guards lns
	lns      map[string]net.Listener
	listens  map[string]*callRec
	closes   map[string]*callRec
	opens    []*openRec
	accepts  []*acceptRec
	step     int
	self     int
	lastDump []G
	ignore   map[int]bool // goroutines of the test framework and leftovers of earlier scenarios
}

func newScen(variant int, laddr map[string]string, ignore map[int]bool) (*scen, error) {
	p, err := newPair()
	if err != nil {
		return nil, err
	}
	return &scen{p: p, tg: variants[variant%len(variants)], laddr: laddr, lns: map[string]net.Listener{},
		listens: map[string]*callRec{}, closes: map[string]*callRec{}, self: goid(), ignore: ignore}, nil
}

func (s *scen) listen(l string) {
	t := s.tg[s.laddr[l]]
	r := &callRec{lname: l, state: "blocked", atStep: s.step, retStep: -1}
	s.listens[l] = r
	started := make(chan struct{})
	go func() {
		r.gid = goid()
		close(started)
		var ln net.Listener
		var err error
		switch t.how {
		case "listen":
			if t.net == "unix" {
				ln, err = s.p.client.Listen("unix", t.path)
			} else {
				ln, err = s.p.client.Listen("tcp", net.JoinHostPort(t.host, fmt.Sprint(t.port)))
			}
		case "listentcp":
			ln, err = s.p.client.ListenTCP(&net.TCPAddr{IP: net.ParseIP(t.host), Port: int(t.port)})
		case "listenunix":
			ln, err = s.p.client.ListenUnix(t.path)
		default:
			err = errors.New("harness: target cannot be listened on")
		}
		r.mu.Lock()
		defer r.mu.Unlock()
		r.state = "returned"
		if err != nil {
			r.err = err.Error()
		} else {
			s.lmu.Lock()
			s.lns[l] = ln
			s.lmu.Unlock()
		}
	}()
	<-started
}

func (s *scen) listener(l string) net.Listener {
	r := s.listens[l]
	if r == nil {
		return nil
	}
	s.lmu.Lock()
	defer s.lmu.Unlock()
	return s.lns[l]
}

func (s *scen) open(tname string) {
	t := s.tg[tname]
	o := &openRec{id: len(s.opens) + 1, tname: tname, tgt: t, status: "pending", sentAt: s.step}
	s.opens = append(s.opens, o)
	go func() {
		var ch ssh.Channel
		var err error
		if t.net == "unix" {
			ch, err = s.p.openUnix(t.path)
		} else {
			ch, err = s.p.openTCP(t.host, t.effPort(), uint32(1000+o.id))
		}
		if err == nil {
			var tok [4]byte
			binary.BigEndian.PutUint32(tok[:], uint32(o.id))
			ch.Write(tok[:])
		}
		o.mu.Lock()
		defer o.mu.Unlock()
		if err != nil {
			o.status, o.reason = "rejected", err.Error()
		} else {
			o.status, o.ch = "accepted", ch
		}
	}()
}

func (s *scen) closeReturned(l string) bool {
	c := s.closes[l]
	if c == nil {
		return false
	}
	c.mu.Lock()
	defer c.mu.Unlock()
	return c.state == "returned"
}

func (s *scen) accept(l string) error {
	ln := s.listener(l)
	if ln == nil {
		return fmt.Errorf("accept on %s: no listener (Listen did not return)", l)
	}
	a := &acceptRec{lname: l, res: "waiting", afterClose: s.closeReturned(l)}
	s.accepts = append(s.accepts, a)
	started := make(chan struct{})
	go func() {
		a.gid = goid()
		close(started)
		c, err := ln.Accept()
		if err != nil {
			a.mu.Lock()
			a.res, a.err = "err", err.Error()
			a.mu.Unlock()
			return
		}
		var tok [4]byte
		_, rerr := io.ReadFull(c, tok[:])
		a.mu.Lock()
		defer a.mu.Unlock()
		a.res, a.conn = "conn", c
		if rerr == nil {
			a.open = int(binary.BigEndian.Uint32(tok[:]))
		} else {
			a.open = -1
			a.err = "reading token: " + rerr.Error()
		}
		if c.RemoteAddr() != nil {
			a.remote = c.RemoteAddr().String()
		}
	}()
	<-started
	return nil
}

func (s *scen) closeL(l string) error {
	ln := s.listener(l)
	if ln == nil {
		return fmt.Errorf("close of %s: no listener (Listen did not return)", l)
	}
	r := &callRec{lname: l, state: "blocked", atStep: s.step, retStep: -1}
	s.closes[l] = r
	started := make(chan struct{})
	go func() {
		r.gid = goid()
		close(started)
		err := ln.Close()
		r.mu.Lock()
		defer r.mu.Unlock()
		r.state = "returned"
		if err != nil {
			r.err = err.Error()
		}
	}()
	<-started
	return nil
}

func (s *scen) settle() error {
	gs, err := settleIgnoring(s.self, s.ignore, 20*time.Second)
	s.lastDump = s.lastDump[:0]
	for _, g := range gs {
		if !s.ignore[g.ID] {
			s.lastDump = append(s.lastDump, g)
		}
	}
	return err
}

// dispatcherState classifies this process's handleChannels goroutines: "idle" (waiting for the
// next open), "send" (parked in the channel send inside forwardList.forward), "lock" (parked on the
// list mutex inside forwardList.forward), or "" if absent.
func (s *scen) dispatchers() (states []string, raw []string) {
	for _, g := range s.lastDump {
		if !g.has("ssh.(*forwardList).handleChannels") {
			continue
		}
		st := "other:" + g.State
		switch {
		case g.has("ssh.(*forwardList).forward") && g.State == "chan send":
			st = "send"
		case g.has("ssh.(*forwardList).forward") && g.State == "select":
			st = "send"
		case g.has("ssh.(*forwardList).forward") && g.State == "sync.Mutex.Lock":
			st = "lock"
		case g.State == "chan receive" && !g.has("ssh.(*forwardList).forward"):
			st = "idle"
		}
		states = append(states, st)
		raw = append(raw, g.Raw)
	}
	return
}

// obs is what the harness can see of a settled state; same shape as the model's Snapshot after mapping.
type obsAccept struct {
	L     string `json:"l"`
	After bool   `json:"after"`
	Res   string `json:"res"`
	O     int    `json:"o"`
}
type obs struct {
	Opens   []string          `json:"opens"`   // per open: pending | accepted | rejected
	Accepts []obsAccept       `json:"accepts"` // per Accept call
	Closes  map[string]string `json:"closes"`  // per listener with a Close call: blocked | returned
	Listens map[string]string `json:"listens"`
}

func (s *scen) observe() obs {
	o := obs{Closes: map[string]string{}, Listens: map[string]string{}}
	for _, r := range s.opens {
		r.mu.Lock()
		o.Opens = append(o.Opens, r.status)
		if r.status != "pending" && r.doneAt == 0 {
			r.doneAt = s.step
		}
		r.mu.Unlock()
	}
	for _, a := range s.accepts {
		a.mu.Lock()
		o.Accepts = append(o.Accepts, obsAccept{a.lname, a.afterClose, a.res, a.open})
		a.mu.Unlock()
	}
	for l, c := range s.closes {
		c.mu.Lock()
		o.Closes[l] = c.state
		if c.state == "returned" && c.retStep < 0 {
			c.retStep = s.step
		}
		c.mu.Unlock()
	}
	for l, c := range s.listens {
		c.mu.Lock()
		o.Listens[l] = c.state
		c.mu.Unlock()
	}
	return o
}

// teardown closes the connection, services every listener until it reports io.EOF (which unblocks
// a dispatcher stuck in the send of the current code), and waits until every goroutine of this
// scenario is gone, so that scenarios do not see each other's goroutines.
func (s *scen) teardown(ignore map[int]bool) error {
	for _, a := range s.accepts {
		a.mu.Lock()
		if a.conn != nil {
			a.conn.Close()
		}
		a.mu.Unlock()
	}
	s.p.close()
	for l := range s.listens {
		ln := s.listener(l)
		if ln == nil {
			continue
		}
		go func() {
			// (on a dead connection every result is an error, io.EOF included, so the loop is
			// bounded by count: more iterations than forwards can be queued anywhere)
			for i := 0; i < 200; i++ {
				c, _ := ln.Accept()
				if c != nil {
					c.Close()
				}
			}
		}()
	}
	// Wait until every goroutine of this scenario is gone -- or until the process is quiescent with
	// some of them parked for good (code under test that leaks a blocked goroutine, e.g. an Accept on
	// a listener whose channel is never closed).  Those are remembered in ignore so that later
	// scenarios do not look at them; they cannot run again.
	var left []G
	var qerr error
	for round := 0; ; round++ {
		var gs []G
		gs, qerr = settleIgnoring(s.self, ignore, 20*time.Second)
		left = left[:0]
		for _, g := range gs {
			if g.ID == s.self || ignore[g.ID] || !relevant(g) {
				continue
			}
			left = append(left, g)
		}
		if qerr != nil || len(left) == 0 || round >= 2 {
			break
		}
	}
	if qerr != nil {
		return fmt.Errorf("teardown: %w", qerr)
	}
	for _, g := range left {
		ignore[g.ID] = true
		leakedGoroutines++
	}
	if leakedGoroutines > 20000 {
		return fmt.Errorf("teardown: %d goroutines leaked so far; last:\n%s", leakedGoroutines, left[0].Raw)
	}
	return nil
}

// registeredKeys reads forwardList.entries of the client (unexported, read-only, by reflection; only called
// when the process is quiescent): the (network|address) keys that are currently registered.  ok is false if
// the layout is not the expected one.
func (s *scen) registeredKeys() (keys map[string]bool, ok bool) {
	defer func() {
		if recover() != nil {
			keys, ok = nil, false
		}
	}()
	v := reflect.ValueOf(s.p.client).Elem().FieldByName("forwards").FieldByName("entries")
	if !v.IsValid() || v.Kind() != reflect.Slice {
		return nil, false
	}
	keys = map[string]bool{}
	for i := 0; i < v.Len(); i++ {
		e := v.Index(i)
		if e.Kind() == reflect.Ptr {
			e = e.Elem()
		}
		keys[e.FieldByName("network").String()+"|"+e.FieldByName("addr").String()] = true
	}
	return keys, true
}

// muxLoopBlocked reports whether the client's connection read loop is parked handing a channel open to
// the full mux.incomingChannels queue (from the last dump).
func (s *scen) muxLoopBlocked() bool {
	for _, g := range s.lastDump {
		if g.State == "chan send" && g.has("ssh.(*mux).handleChannelOpen") && g.has("ssh.(*mux).loop") {
			return true
		}
	}
	return false
}
