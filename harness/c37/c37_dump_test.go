package c37

import (
	"regexp"
	"runtime"
	"strconv"
	"strings"
	"time"
)

// G is one goroutine of a runtime.Stack(all) dump.
type G struct {
	ID    int
	State string   // e.g. "chan send", "sync.Mutex.Lock", "chan receive"
	Funcs []string // function names, innermost first (arguments stripped)
	Raw   string
}

var gHeader = regexp.MustCompile(`^goroutine (\d+) \[([^\],]+)(?:, [^\]]*)?\]:$`)

var dumpBuf = make([]byte, 1<<18)

// dumpAll is called from one goroutine at a time (the scenario runner).
func dumpAll() []G {
	var buf []byte
	for {
		n := runtime.Stack(dumpBuf, true)
		if n < len(dumpBuf) {
			buf = dumpBuf[:n]
			break
		}
		dumpBuf = make([]byte, 2*len(dumpBuf))
	}
	var out []G
	for _, blk := range strings.Split(string(buf), "\n\n") {
		lines := strings.Split(strings.TrimSpace(blk), "\n")
		if len(lines) == 0 {
			continue
		}
		m := gHeader.FindStringSubmatch(lines[0])
		if m == nil {
			continue
		}
		id, _ := strconv.Atoi(m[1])
		g := G{ID: id, State: m[2], Raw: blk}
		for _, l := range lines[1:] {
			if strings.HasPrefix(l, "\t") || strings.HasPrefix(l, "created by ") {
				continue
			}
			if i := strings.LastIndex(l, "("); i > 0 {
				l = l[:i]
			}
			g.Funcs = append(g.Funcs, l)
		}
		out = append(out, g)
	}
	return out
}

func (g G) has(fn string) bool {
	for _, f := range g.Funcs {
		if strings.HasSuffix(f, fn) {
			return true
		}
	}
	return false
}

// goid returns the calling goroutine's id.
func goid() int {
	buf := make([]byte, 64)
	n := runtime.Stack(buf, false)
	f := strings.Fields(string(buf[:n]))
	id, _ := strconv.Atoi(f[1])
	return id
}

func findG(gs []G, id int) *G {
	for i := range gs {
		if gs[i].ID == id {
			return &gs[i]
		}
	}
	return nil
}

// waitFor polls cond every 200us..2ms up to limit; it reports whether cond became true.
// It is used only to *synchronise* with states the real code is about to reach; verdicts are
// never derived from the timeout itself (a timeout is an infrastructure error unless a
// goroutine-dump classification explains it).
func waitFor(limit time.Duration, cond func() bool) bool {
	deadline := time.Now().Add(limit)
	d := 100 * time.Microsecond
	iter := 0
	for {
		if cond() {
			return true
		}
		if time.Now().After(deadline) {
			return false
		}
		iter++
		if iter < 50 {
			runtime.Gosched()
			continue
		}
		time.Sleep(d)
		if d < 2*time.Millisecond {
			d *= 2
		}
	}
}
