package c37

import (
	"encoding/json"
	"fmt"
	"runtime"
	"sort"
	"strings"
	"testing"

	"verif/harness/vutil"
)

// Binding R for spec/SSHForwardBacklog.tla: histories generated at the real queue capacities
// (bursts of 20 forwarded opens per listener with two listeners, 40 with one; Accept and Close calls)
// are driven on the real client; after every event the harness waits for quiescence, judges R1-R3
// (judge) and compares closes / rejected / accepted counts / "read loop blocked" with the model.

type bEv struct {
	E string `json:"e"`
	L string `json:"l"`
	N int    `json:"n"`
}
type bObs struct {
	Cpc        map[string]string `json:"cpc"`
	Rej        map[string]int    `json:"rej"`
	Acc        map[string]int    `json:"acc"`
	Sent       map[string]int    `json:"sent"`
	MuxBlocked bool              `json:"muxBlocked"`
	Registered map[string]bool   `json:"registered"`
}
type bStep struct {
	Ev  bEv  `json:"ev"`
	Pre bObs `json:"pre"`
}
type bCase struct {
	Kind    map[string]string `json:"kind"`
	Hist    []bStep           `json:"hist"`
	Final   bObs              `json:"final"`
	Variant *int              `json:"variant,omitempty"`
}

func (c *bCase) String() string {
	var ks []string
	for l, k := range c.Kind {
		ks = append(ks, l+":"+k)
	}
	sort.Strings(ks)
	var b strings.Builder
	b.WriteString(strings.Join(ks, ","))
	for _, h := range c.Hist {
		if h.Ev.E == "burst" {
			fmt.Fprintf(&b, " burst(%s,%d)", h.Ev.L, h.Ev.N)
		} else {
			fmt.Fprintf(&b, " %s(%s)", h.Ev.E, h.Ev.L)
		}
	}
	return b.String()
}

func (c *bCase) laddr() map[string]string {
	var ls []string
	for l := range c.Kind {
		ls = append(ls, l)
	}
	sort.Strings(ls)
	tcp, unix := []string{"t1", "t2"}, []string{"u1", "u2"}
	m := map[string]string{}
	for _, l := range ls {
		if c.Kind[l] == "unix" {
			m[l], unix = unix[0], unix[1:]
		} else {
			m[l], tcp = tcp[0], tcp[1:]
		}
	}
	return m
}

type bReal struct {
	Closes     map[string]string `json:"closes"`
	Rej        map[string]int    `json:"rej"`
	Acc        map[string]int    `json:"acc"`
	MuxBlocked bool              `json:"muxBlocked"`
}

func (s *scen) backlogObs() bReal {
	o := s.observe()
	r := bReal{Closes: o.Closes, Rej: map[string]int{}, Acc: map[string]int{}, MuxBlocked: s.muxLoopBlocked()}
	byT := map[string]string{}
	for l, t := range s.laddr {
		byT[t] = l
		r.Rej[l], r.Acc[l] = 0, 0
	}
	for i, st := range o.Opens {
		l := byT[s.opens[i].tname]
		switch st {
		case "rejected":
			r.Rej[l]++
		case "accepted":
			r.Acc[l]++
		}
	}
	return r
}

func diffBacklog(r bReal, m bObs) string {
	for l, c := range m.Cpc {
		want := ""
		switch c {
		case "open":
		case "done":
			want = "returned"
		default:
			want = "blocked"
		}
		if r.Closes[l] != want {
			return fmt.Sprintf("Close(%s): real %q, model %q", l, r.Closes[l], want)
		}
		if r.Rej[l] != m.Rej[l] || r.Acc[l] != m.Acc[l] {
			return fmt.Sprintf("listener %s: real rejected/accepted %d/%d, model %d/%d", l, r.Rej[l], r.Acc[l], m.Rej[l], m.Acc[l])
		}
	}
	if r.MuxBlocked != m.MuxBlocked {
		return fmt.Sprintf("read loop blocked: real %v, model %v", r.MuxBlocked, m.MuxBlocked)
	}
	return ""
}

type bResult struct {
	findings      []finding
	conform       string
	infra         error
	final         bReal
	closeBlockedK map[string]int // Close issued while the read loop was blocked, by listener kind
}

func runBacklog(c *bCase, variant int, ignore map[int]bool) (res bResult) {
	res.closeBlockedK = map[string]int{}
	s, err := newScen(variant, c.laddr(), ignore)
	if err != nil {
		res.infra = err
		return
	}
	defer func() {
		if err := s.teardown(ignore); err != nil && res.infra == nil {
			res.infra = err
		}
	}()
	var ls []string
	for l := range c.Kind {
		ls = append(ls, l)
	}
	sort.Strings(ls)
	for _, l := range ls {
		s.listen(l)
		if err := s.settle(); err != nil {
			res.infra = err
			return
		}
		if s.listener(l) == nil {
			res.infra = fmt.Errorf("Listen(%s) failed: %+v", l, s.listens[l])
			return
		}
	}
	seen := map[string]bool{}
	check := func(pred bObs) bool {
		if err := s.settle(); err != nil {
			res.infra = err
			return false
		}
		res.findings = append(res.findings, s.judge(s.observe(), seen)...)
		res.final = s.backlogObs()
		if res.conform == "" {
			if d := diffBacklog(res.final, pred); d != "" {
				res.conform = fmt.Sprintf("after %d events: %s", s.step, d)
			}
		}
		return true
	}
	for i, h := range c.Hist {
		if !check(h.Pre) {
			return
		}
		s.step = i + 1
		var err error
		switch h.Ev.E {
		case "burst":
			for j := 0; j < h.Ev.N; j++ {
				s.open(s.laddr[h.Ev.L])
			}
		case "accept":
			err = s.accept(h.Ev.L)
		case "close":
			if res.final.MuxBlocked {
				res.closeBlockedK[c.Kind[h.Ev.L]]++
			}
			err = s.closeL(h.Ev.L)
		default:
			err = fmt.Errorf("unknown event %q", h.Ev.E)
		}
		if err != nil {
			res.infra = err
			return
		}
	}
	check(c.Final)
	return
}

func TestBacklog(t *testing.T) {
	out := vutil.NewOut()
	defer func() {
		if err := out.Write(); err != nil {
			t.Fatal(err)
		}
	}()
	defer runtime.GOMAXPROCS(runtime.GOMAXPROCS(1))
	ignore := map[int]bool{}
	for _, g := range dumpAll() {
		ignore[g.ID] = true
	}
	delete(ignore, goid())
	seed := int(vutil.Seed())
	var n, conform, deviates, hangs int
	closeBlocked := map[string]int{}
	sigCount := map[string]int{}
	var devSamples []any
	err := vutil.ReadNDJSON(vutil.Env("VERIF_CASES", ""), func(line []byte) error {
		var c bCase
		if err := json.Unmarshal(line, &c); err != nil {
			return err
		}
		variant := (n + seed) % len(variants)
		if c.Variant != nil {
			variant = *c.Variant
		}
		n++
		r := runBacklog(&c, variant, ignore)
		if r.infra != nil {
			return fmt.Errorf("backlog case %q variant %d: %w", c.String(), variant, r.infra)
		}
		if len(r.findings) > 0 {
			r2 := runBacklog(&c, variant, ignore) // a finding must recur on a fresh connection
			if r2.infra != nil {
				return fmt.Errorf("backlog case %q variant %d (confirmation run): %w", c.String(), variant, r2.infra)
			}
			again := map[string]bool{}
			for _, f := range r2.findings {
				again[f.sig] = true
			}
			for _, f := range r.findings {
				if !again[f.sig] {
					return fmt.Errorf("backlog case %q variant %d: finding %s did not recur", c.String(), variant, f.sig)
				}
			}
		}
		out.Case(fmt.Sprintf("backlog|%s|%d", c.String(), variant))
		for k, v := range r.closeBlockedK {
			closeBlocked[k] += v
		}
		if r.conform == "" {
			conform++
		} else {
			deviates++
			if len(devSamples) < 5 {
				devSamples = append(devSamples, map[string]any{"schedule": c.String(), "variant": variant, "difference": r.conform})
			}
		}
		if len(r.findings) == 0 && r.conform == "" && n%20 == 1 {
			out.Sample(map[string]any{"backlog_schedule": c.String(), "variant": variant, "real": r.final})
		}
		hang := false
		for _, f := range r.findings {
			if strings.HasPrefix(f.sig, "harness:") {
				return fmt.Errorf("backlog case %q: %s", c.String(), f.what)
			}
			if strings.HasPrefix(f.sig, "close-") {
				hang = true
			}
			sigCount[f.sig]++
			if sigCount[f.sig] <= 2 {
				d := map[string]any{"backlog_case": c, "variant": variant, "schedule": c.String(), "real": r.final}
				for k, v := range f.detail {
					d[k] = v
				}
				out.Violation(f.sig, f.what+" [backlog schedule:"+c.String()+"]", d)
				t.Errorf("%s: %s (backlog schedule %s, variant %d)", f.sig, f.what, c.String(), variant)
			}
		}
		if hang {
			hangs++
		}
		return nil
	})
	out.Extra["c37_backlog_conform_model"] = conform
	out.Extra["c37_backlog_deviate_from_model"] = deviates
	out.Extra["c37_backlog_schedules_with_hang"] = hangs
	out.Extra["c37_backlog_closes_with_read_loop_blocked_tcp"] = closeBlocked["tcp"]
	out.Extra["c37_backlog_closes_with_read_loop_blocked_unix"] = closeBlocked["unix"]
	if len(devSamples) > 0 {
		out.Extra["c37_backlog_deviation_samples"] = devSamples
	}
	if len(sigCount) > 0 {
		out.Extra["c37_backlog_signature_counts"] = sigCount
	}
	if err != nil {
		out.Violations = nil
		out.Extra["infra_error"] = err.Error()
		t.Fatal(err)
	}
}
