// Binding R for C37.  TLC enumerates settled schedules of external events (Listen, channel opens by
// the peer, Accept calls, Close calls) from spec/SSHForward.tla (and the counterexample schedules of
// spec/SSHForward_Old.tla); each is driven against a real ssh.Client whose peer is a real ssh server
// connection.  After every event the harness waits for process quiescence (c37_scen_test.go) and
// judges the observable state against the property C37 itself:
//
//	R1  forwards reach only a listener registered for exactly their (network,address); spurious ones are rejected
//	R2  Close returns            (a Close still parked in a quiescent process is a hang; the dump says where)
//	R3  Accept after Close returns an error
//
// and, separately, compares it with the model's prediction (conformance, informational).
package c37

import (
	"encoding/json"
	"fmt"
	"os"
	"runtime"
	"sort"
	"strings"
	"testing"

	"verif/harness/vutil"
)

type mEv struct {
	E string `json:"e"`
	L string `json:"l"`
	T string `json:"t"`
	O int    `json:"o"`
}
type mAcall struct {
	L     string `json:"l"`
	After bool   `json:"after"`
	Res   string `json:"res"`
	O     int    `json:"o"`
}
type mSnap struct {
	Ost    []string          `json:"ost"`
	Odel   []string          `json:"odel"`
	Cpc    map[string]string `json:"cpc"`
	Acalls []mAcall          `json:"acalls"`
}
type mStep struct {
	Ev  mEv   `json:"ev"`
	Pre mSnap `json:"pre"`
}
type tcase struct {
	Model   string            `json:"model"`
	Laddr   map[string]string `json:"laddr"`
	Prereg  []string          `json:"prereg"`
	Hist    []mStep           `json:"hist"`
	Final   mSnap             `json:"final"`
	Variant *int              `json:"variant,omitempty"`
}

func (c *tcase) schedule() string {
	var b strings.Builder
	b.WriteString(strings.Join(c.Prereg, ","))
	for _, h := range c.Hist {
		switch h.Ev.E {
		case "open":
			fmt.Fprintf(&b, " open(%s)", h.Ev.T)
		default:
			fmt.Fprintf(&b, " %s(%s)", h.Ev.E, h.Ev.L)
		}
	}
	return b.String()
}

// predicted observation from a model snapshot
func predicted(m mSnap, nOpens int) obs {
	o := obs{Closes: map[string]string{}, Listens: map[string]string{}}
	for i := 0; i < nOpens && i < len(m.Ost); i++ {
		switch m.Ost[i] {
		case "inflight", "buffered":
			o.Opens = append(o.Opens, "pending")
		case "delivered":
			o.Opens = append(o.Opens, "accepted")
		case "rejected":
			o.Opens = append(o.Opens, "rejected")
		}
	}
	for _, a := range m.Acalls {
		o.Accepts = append(o.Accepts, obsAccept{a.L, a.After, a.Res, a.O})
	}
	for l, c := range m.Cpc {
		switch c {
		case "done":
			o.Closes[l] = "returned"
		case "wantLock", "locked", "drain", "cancel":
			o.Closes[l] = "blocked"
		}
	}
	return o
}

func sameObs(a, b obs) string {
	if len(a.Opens) != len(b.Opens) {
		return fmt.Sprintf("number of opens %d vs %d", len(a.Opens), len(b.Opens))
	}
	for i := range a.Opens {
		if a.Opens[i] != b.Opens[i] {
			return fmt.Sprintf("open %d: real %s, model %s", i+1, a.Opens[i], b.Opens[i])
		}
	}
	if len(a.Accepts) != len(b.Accepts) {
		return fmt.Sprintf("number of Accept calls %d vs %d", len(a.Accepts), len(b.Accepts))
	}
	for i := range a.Accepts {
		x, y := a.Accepts[i], b.Accepts[i]
		if x.L != y.L || x.Res != y.Res || x.After != y.After || (x.Res == "conn" && x.O != y.O) {
			return fmt.Sprintf("Accept call %d: real %+v, model %+v", i+1, x, y)
		}
	}
	ls := map[string]bool{}
	for l := range a.Closes {
		ls[l] = true
	}
	for l := range b.Closes {
		ls[l] = true
	}
	for l := range ls {
		if a.Closes[l] != b.Closes[l] {
			return fmt.Sprintf("Close(%s): real %q, model %q", l, a.Closes[l], b.Closes[l])
		}
	}
	return ""
}

type finding struct {
	sig, what string
	detail    map[string]any
}

// judge applies the property C37 to a settled state of the real code.
func (s *scen) judge(o obs, seen map[string]bool) []finding {
	var out []finding
	add := func(key, sig, what string, detail map[string]any) {
		if seen[key] {
			return
		}
		seen[key] = true
		out = append(out, finding{sig, what, detail})
	}
	dstates, draw := s.dispatchers()
	anySend := false
	allIdle := len(dstates) > 0
	for _, d := range dstates {
		if d == "send" {
			anySend = true
		}
		if d != "idle" {
			allIdle = false
		}
	}
	// R2: Close returns.  The process is quiescent, so a Close that has not returned never will.
	var ls []string
	for l := range s.closes {
		ls = append(ls, l)
	}
	sort.Strings(ls)
	for _, l := range ls {
		c := s.closes[l]
		c.mu.Lock()
		st := c.state
		c.mu.Unlock()
		if st != "blocked" {
			continue
		}
		g := findG(s.lastDump, c.gid)
		if g == nil {
			continue
		}
		inner := ""
		for _, f := range g.Funcs {
			if strings.Contains(f, "golang.org/x/crypto/ssh.") {
				inner = f[strings.LastIndex(f, "/")+1:]
				break
			}
		}
		if g.State == "sync.Mutex.Lock" && g.has("ssh.(*forwardList).remove") && anySend {
			add("close|"+l, "close-blocked-on-list-mutex-held-by-forward-send",
				"Listener.Close never returns: it waits for the forwardList mutex in forwardList.remove while forwardList.forward holds it, blocked in the send on the listener's full 1-buffered channel (no Accept pending)",
				map[string]any{"listener": l, "close_goroutine": g.Raw, "dispatcher_goroutines": draw})
		} else if g.State == "chan receive" && g.has("ssh.(*mux).SendRequest") && s.muxLoopBlocked() {
			// Close is waiting for the reply to its cancel request, which the connection's read loop cannot
			// reach: the loop is parked on the full incomingChannels queue behind un-accepted forwards.
			kind := s.tg[s.laddr[l]].net
			keys, ok := s.registeredKeys()
			own := s.tg[s.laddr[l]].key()
			det := map[string]any{"listener": l, "kind": kind, "close_goroutine": g.Raw, "dispatchers": dstates, "registered": keys}
			switch {
			case ok && !keys[own]:
				add("close|"+l, "close-hangs:backlog:other-listener-unserviced",
					"Listener.Close never returns: it has removed its entry and waits for the cancel reply, but the connection's read loop is blocked behind forwarded opens for another, un-accepted listener (every queue between mux.loop and that listener is full)", det)
			default:
				add("close|"+l, "close-hangs:"+kind+":backlog",
					"Listener.Close never returns: it waits for the cancel reply while its own entry is still registered and the connection's read loop is blocked behind the un-accepted forwards (the entry must be removed before waiting)", det)
			}
		} else {
			add("close|"+l, "close-hangs:"+g.State+":"+inner,
				"Listener.Close never returns: parked in "+inner+" ["+g.State+"] in a quiescent process",
				map[string]any{"listener": l, "close_goroutine": g.Raw, "dispatcher_goroutines": draw})
		}
	}
	// R3 and R1 on Accept results
	for i, a := range s.accepts {
		a.mu.Lock()
		res, after, oid, ln, aerr := a.res, a.afterClose, a.open, a.lname, a.err
		a.mu.Unlock()
		dup := false
		for l2, t2 := range s.laddr {
			if l2 != ln && t2 == s.laddr[ln] && s.listens[l2] != nil {
				dup = true
			}
		}
		if after && res == "conn" {
			sig := "accept-after-close-returns-conn:buffered-before-close"
			// (sent after Close was observed to have RETURNED; a forward that slipped in while Close was
			// still waiting for the mutex was buffered when remove ran)
			if oid >= 1 && oid <= len(s.opens) && s.closes[ln] != nil && s.closes[ln].retStep >= 0 && s.opens[oid-1].sentAt > s.closes[ln].retStep {
				sig = "accept-after-close-returns-conn:sent-after-close"
			}
			if dup {
				sig = "accept-after-close-wrong:duplicate-address"
			}
			add(fmt.Sprintf("acc|%d", i), sig,
				"Accept called after Listener.Close had returned yields a connection instead of an error",
				map[string]any{"listener": ln, "accept_call": i + 1, "open": oid})
		}
		if after && res == "waiting" {
			raw := ""
			if g := findG(s.lastDump, a.gid); g != nil {
				raw = g.Raw
			}
			sig := "accept-after-close-blocks"
			what := "Accept called after Listener.Close had returned does not return (parked in a quiescent process)"
			if dup {
				sig = "accept-after-close-wrong:duplicate-address"
				what += "; another listener is registered for the same address, and Close removed that one's entry"
			}
			add(fmt.Sprintf("acc|%d", i), sig, what,
				map[string]any{"listener": ln, "accept_call": i + 1, "accept_goroutine": raw})
		}
		if res == "conn" {
			if oid < 1 || oid > len(s.opens) {
				add(fmt.Sprintf("tok|%d", i), "harness:token-unreadable", "connection returned by Accept carried no readable token: "+aerr, nil)
				continue
			}
			want := s.tg[s.laddr[ln]].key()
			got := s.opens[oid-1].tgt.key()
			if want != got {
				add(fmt.Sprintf("acc|%d", i), "forward-delivered-to-wrong-listener",
					"a forwarded channel was delivered to a listener registered for a different (network,address)",
					map[string]any{"listener": ln, "listener_addr": want, "open_addr": got, "open": oid})
			}
		}
	}
	// R1 on opens
	for _, r := range s.opens {
		r.mu.Lock()
		st, reason, doneAt := r.status, r.reason, r.doneAt
		r.mu.Unlock()
		everListened := false
		registeredThroughout := false
		for l, t := range s.laddr {
			lr := s.listens[l]
			if lr == nil || s.tg[t].key() != r.tgt.key() {
				continue
			}
			everListened = true
			lr.mu.Lock()
			ret := lr.state == "returned" && lr.err == ""
			lr.mu.Unlock()
			if ret && lr.atStep < r.sentAt && (s.closes[l] == nil || (doneAt != 0 && s.closes[l].atStep > doneAt)) {
				registeredThroughout = true
			}
		}
		if !everListened {
			if st == "accepted" {
				add(fmt.Sprintf("open|%d", r.id), "spurious-forward-delivered",
					"a forwarded channel for an address no listener registered was accepted", map[string]any{"open": r.id, "addr": r.tgt.key()})
			}
			if st == "pending" && allIdle {
				add(fmt.Sprintf("open|%d", r.id), "spurious-forward-not-rejected",
					"a forwarded channel for an address no listener registered is neither rejected nor accepted although both dispatchers are idle",
					map[string]any{"open": r.id, "addr": r.tgt.key()})
			}
		}
		// (if a listener for this address was closed while the open was outstanding, rejecting it is legitimate)
		for l, t := range s.laddr {
			if s.tg[t].key() == r.tgt.key() && s.closes[l] != nil && (doneAt == 0 || s.closes[l].atStep <= doneAt) {
				registeredThroughout = false
			}
		}
		if st == "rejected" && registeredThroughout {
			add(fmt.Sprintf("open|%d", r.id), "registered-forward-rejected",
				"a forwarded channel for the exact address of a registered, open listener was rejected: "+reason,
				map[string]any{"open": r.id, "addr": r.tgt.key()})
		}
	}
	// R1, decidedness: every forwarded open is either delivered to an Accept call or rejected.  In a
	// quiescent process with both dispatchers idle (none parked in forward()), an open the peer has
	// not got an answer for can only be sitting in the 1-slot queue of a listener that is still open,
	// waiting for the application.  Anything beyond that -- in particular a forward that was waiting
	// inside forward() when its listener was closed -- has been neither delivered nor rejected and
	// never will be (the peer's channel open hangs).
	if allIdle {
		pendingBy := map[string][]int{}
		for _, r := range s.opens {
			r.mu.Lock()
			if r.status == "pending" {
				pendingBy[r.tgt.key()] = append(pendingBy[r.tgt.key()], r.id)
			}
			r.mu.Unlock()
		}
		for key, ids := range pendingBy {
			live, ever := 0, 0
			for l, t := range s.laddr {
				lr := s.listens[l]
				if lr == nil || s.tg[t].key() != key {
					continue
				}
				ever++
				lr.mu.Lock()
				ok := lr.state == "returned" && lr.err == ""
				lr.mu.Unlock()
				if ok && !s.closeReturned(l) {
					live++
				}
			}
			if ever == 0 || len(ids) <= live { // never-registered addresses are judged above; <=1 per open listener may be queued
				continue
			}
			sort.Ints(ids)
			sig, what := "forward-undecided-after-listener-closed",
				"a forwarded channel open is neither delivered nor rejected although its listener was closed and both dispatchers are idle (the peer's OpenChannel never returns)"
			if live > 0 {
				sig, what = "forward-undecided-beyond-queue",
					"more forwarded channel opens are left without an answer than the open listeners for their address can hold queued, with both dispatchers idle"
			}
			add("undecided|"+key, sig, what, map[string]any{"addr": key, "undecided_opens": ids, "open_listeners_for_addr": live, "dispatchers": dstates})
		}
	}
	return out
}

type caseResult struct {
	findings  []finding
	conform   string // "" = real behaviour equals the model's prediction at every step; else first difference
	infra     error
	hangSeen  bool
	delivered int
	rejected  int
	finalObs  obs
	stepsDone int
}

func runCase(c *tcase, variant int, ignore map[int]bool) (res caseResult) {
	s, err := newScen(variant, c.Laddr, ignore)
	if err != nil {
		res.infra = err
		return
	}
	defer func() {
		if err := s.teardown(ignore); err != nil && res.infra == nil {
			res.infra = err
		}
	}()
	seen := map[string]bool{}
	check := func(pred mSnap) bool {
		if err := s.settle(); err != nil {
			res.infra = err
			return false
		}
		o := s.observe()
		res.finalObs = o
		res.findings = append(res.findings, s.judge(o, seen)...)
		if res.conform == "" {
			if d := sameObs(o, predicted(pred, len(s.opens))); d != "" {
				res.conform = fmt.Sprintf("after %d events: %s", s.step, d)
			}
		}
		return true
	}
	for _, l := range c.Prereg {
		s.listen(l)
		if err := s.settle(); err != nil {
			res.infra = err
			return
		}
		if s.listener(l) == nil {
			res.infra = fmt.Errorf("initial Listen(%s) failed: %+v", l, s.listens[l])
			return
		}
	}
	for i, h := range c.Hist {
		if !check(h.Pre) {
			return
		}
		s.step = i + 1
		var err error
		switch h.Ev.E {
		case "listen":
			s.listen(h.Ev.L)
		case "open":
			s.open(h.Ev.T)
		case "accept":
			err = s.accept(h.Ev.L)
		case "close":
			err = s.closeL(h.Ev.L)
		default:
			err = fmt.Errorf("unknown event %q", h.Ev.E)
		}
		if err != nil {
			// the real code is in a state in which the event cannot be issued (e.g. Listen blocked): stop here
			if res.conform == "" {
				res.conform = fmt.Sprintf("event %d not issued: %v", i+1, err)
			}
			break
		}
		res.stepsDone = i + 1
	}
	if res.stepsDone == len(c.Hist) {
		check(c.Final)
	} else if res.infra == nil {
		if err := s.settle(); err != nil {
			res.infra = err
		}
	}
	for _, f := range res.findings {
		if strings.HasPrefix(f.sig, "close-") {
			res.hangSeen = true
		}
	}
	for _, st := range res.finalObs.Opens {
		switch st {
		case "accepted":
			res.delivered++
		case "rejected":
			res.rejected++
		}
	}
	return
}

func TestReplay(t *testing.T) {
	out := vutil.NewOut()
	defer func() {
		if err := out.Write(); err != nil {
			t.Fatal(err)
		}
	}()
	// one P: stack dumps are cheap and the settled replay does not need parallelism (TestStress does)
	defer runtime.GOMAXPROCS(runtime.GOMAXPROCS(1))
	ignore := map[int]bool{}
	for _, g := range dumpAll() {
		ignore[g.ID] = true // the test's own goroutines
	}
	delete(ignore, goid())
	var n, confirmed, conformNew, conformOld, deviates, delivered, rejected, hangs int
	sigCount := map[string]int{}
	var devSamples []any
	seed := int(vutil.Seed())
	err := vutil.ReadNDJSON(vutil.Env("VERIF_CASES", ""), func(line []byte) error {
		var c tcase
		if err := json.Unmarshal(line, &c); err != nil {
			return err
		}
		variant := (n + seed) % len(variants)
		if c.Variant != nil {
			variant = *c.Variant
		}
		n++
		r := runCase(&c, variant, ignore)
		if r.infra != nil {
			return fmt.Errorf("case %q variant %d: %w", c.schedule(), variant, r.infra)
		}
		if len(r.findings) > 0 && confirmed < 40 {
			// a finding is reported only if the same schedule shows it again on a fresh connection
			confirmed++
			r2 := runCase(&c, variant, ignore)
			if r2.infra != nil {
				return fmt.Errorf("case %q variant %d (confirmation run): %w", c.schedule(), variant, r2.infra)
			}
			again := map[string]bool{}
			for _, f := range r2.findings {
				again[f.sig] = true
			}
			for _, f := range r.findings {
				if !again[f.sig] {
					return fmt.Errorf("case %q variant %d: finding %s did not recur in the confirmation run", c.schedule(), variant, f.sig)
				}
			}
		}
		out.Case(fmt.Sprintf("%s|%v|%s|%d", c.Model, c.Laddr, c.schedule(), variant))
		delivered += r.delivered
		rejected += r.rejected
		if r.hangSeen {
			hangs++
		}
		if r.conform == "" {
			if c.Model == "old" {
				conformOld++
			} else {
				conformNew++
			}
		} else {
			deviates++
			if len(devSamples) < 5 {
				devSamples = append(devSamples, map[string]any{"model": c.Model, "schedule": c.schedule(), "variant": variant, "difference": r.conform})
			}
		}
		if len(r.findings) == 0 && r.conform == "" {
			out.Sample(map[string]any{"model": c.Model, "schedule": c.schedule(), "variant": variant, "real": r.finalObs})
		}
		for _, f := range r.findings {
			if strings.HasPrefix(f.sig, "harness:") {
				return fmt.Errorf("case %q: %s", c.schedule(), f.what)
			}
			sigCount[f.sig]++
			d := map[string]any{"case": c, "variant": variant, "schedule": c.schedule(), "real": r.finalObs}
			for k, v := range f.detail {
				d[k] = v
			}
			if sigCount[f.sig] <= 2 {
				out.Violation(f.sig, f.what+" [schedule:"+c.schedule()+"]", d)
				t.Errorf("%s: %s (schedule %s, variant %d)", f.sig, f.what, c.schedule(), variant)
			}
		}
		return nil
	})
	out.Extra["c37_conform_new_model"] = conformNew
	out.Extra["c37_conform_old_model"] = conformOld
	out.Extra["c37_deviate_from_model"] = deviates
	out.Extra["c37_forwards_delivered"] = delivered
	out.Extra["c37_forwards_rejected"] = rejected
	out.Extra["c37_schedules_with_hang"] = hangs
	if leakedGoroutines > 0 {
		out.Extra["c37_goroutines_left_parked_after_teardown"] = leakedGoroutines
	}
	if len(devSamples) > 0 {
		out.Extra["c37_deviation_samples"] = devSamples
	}
	if len(sigCount) > 0 {
		out.Extra["c37_signature_counts"] = sigCount
	}
	if err != nil {
		// infrastructure trouble: make sure it is not mistaken for a verdict
		out.Violations = nil
		out.Extra["infra_error"] = err.Error()
		fmt.Fprintln(os.Stderr, "INFRA:", err)
		t.Fatal(err)
	}
}
