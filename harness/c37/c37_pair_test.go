// Package c37: conformance harness for C37 (remote forward listeners never hang on close).
// A real ssh.Client talks to a real ssh server connection (both from /repo) over an in-memory
// buffered conn; the harness plays the server application: it grants forward requests and
// opens forwarded-tcpip / forwarded-streamlocal@openssh.com channels toward the client.
package c37

import (
	"crypto/ed25519"
	"crypto/rand"
	"fmt"
	"sync"

	"golang.org/x/crypto/ssh"
	"verif/harness/memconn"
)

var (
	hostKeyOnce sync.Once
	hostSigner  ssh.Signer
)

func hostKey() ssh.Signer {
	hostKeyOnce.Do(func() {
		_, priv, err := ed25519.GenerateKey(rand.Reader)
		if err != nil {
			panic(err)
		}
		hostSigner, err = ssh.NewSignerFromKey(priv)
		if err != nil {
			panic(err)
		}
	})
	return hostSigner
}

type pair struct {
	client *ssh.Client
	server *ssh.ServerConn
	cconn  *memconn.Conn
	sconn  *memconn.Conn

	mu       sync.Mutex
	requests []string // global requests seen by the server, "type" in order
}

// newPair performs a real handshake between ssh.NewClientConn and ssh.NewServerConn.
func newPair() (*pair, error) {
	a, b := memconn.Pair()
	p := &pair{cconn: a, sconn: b}
	scfg := &ssh.ServerConfig{NoClientAuth: true}
	scfg.AddHostKey(hostKey())
	type sres struct {
		c     *ssh.ServerConn
		chans <-chan ssh.NewChannel
		reqs  <-chan *ssh.Request
		err   error
	}
	sc := make(chan sres, 1)
	go func() {
		c, chans, reqs, err := ssh.NewServerConn(b, scfg)
		sc <- sres{c, chans, reqs, err}
	}()
	ccfg := &ssh.ClientConfig{User: "u", HostKeyCallback: ssh.InsecureIgnoreHostKey()}
	cc, cchans, creqs, err := ssh.NewClientConn(a, "mem", ccfg)
	if err != nil {
		a.Close()
		b.Close()
		return nil, fmt.Errorf("client handshake: %w", err)
	}
	s := <-sc
	if s.err != nil {
		a.Close()
		b.Close()
		return nil, fmt.Errorf("server handshake: %w", s.err)
	}
	p.server = s.c
	p.client = ssh.NewClient(cc, cchans, creqs)
	go func() {
		for nc := range s.chans {
			nc.Reject(ssh.UnknownChannelType, "harness server accepts no channels")
		}
	}()
	go func() {
		for r := range s.reqs {
			p.mu.Lock()
			p.requests = append(p.requests, r.Type)
			p.mu.Unlock()
			switch r.Type {
			case "tcpip-forward":
				var m struct {
					Addr string
					Port uint32
				}
				if err := ssh.Unmarshal(r.Payload, &m); err != nil {
					r.Reply(false, nil)
					continue
				}
				if m.Port == 0 {
					r.Reply(true, ssh.Marshal(struct{ Port uint32 }{4242}))
				} else {
					r.Reply(true, nil)
				}
			case "streamlocal-forward@openssh.com", "cancel-tcpip-forward", "cancel-streamlocal-forward@openssh.com":
				r.Reply(true, nil)
			default:
				r.Reply(false, nil)
			}
		}
	}()
	return p, nil
}

func (p *pair) close() {
	p.client.Close()
	p.server.Close()
	p.cconn.Close()
	p.sconn.Close()
}

type tcpPayload struct {
	Addr       string
	Port       uint32
	OriginAddr string
	OriginPort uint32
}
type unixPayload struct {
	SocketPath string
	Reserved0  string
}

// openForward sends one channel open from the server side. network "tcp": addr host, port; "unix": path.
func (p *pair) openTCP(host string, port uint32, originPort uint32) (ssh.Channel, error) {
	ch, reqs, err := p.server.OpenChannel("forwarded-tcpip", ssh.Marshal(&tcpPayload{host, port, "127.0.0.9", originPort}))
	if err != nil {
		return nil, err
	}
	go ssh.DiscardRequests(reqs)
	return ch, nil
}

func (p *pair) openUnix(path string) (ssh.Channel, error) {
	ch, reqs, err := p.server.OpenChannel("forwarded-streamlocal@openssh.com", ssh.Marshal(&unixPayload{path, ""}))
	if err != nil {
		return nil, err
	}
	go ssh.DiscardRequests(reqs)
	return ch, nil
}
