package c37

import (
	"encoding/json"
	"fmt"
	"math/rand"
	"runtime"
	"strings"
	"testing"
	"time"

	"verif/harness/vutil"
)

// TestStress drives the real code WITHOUT settling between events: the peer's opens, the
// application's Accept calls and the Close calls race freely (several Ps).  The outcome is judged
// only against the property (R1-R3), after the process has become quiescent: every Close must have
// returned (else the dump says where it is parked), a fresh Accept on every closed listener must
// fail, and every connection handed out must carry a forward for exactly the listener's address.
func TestStress(t *testing.T) {
	out := vutil.NewOut()
	defer func() {
		if err := out.Write(); err != nil {
			t.Fatal(err)
		}
	}()
	defer runtime.GOMAXPROCS(runtime.GOMAXPROCS(4))
	ignore := map[int]bool{}
	for _, g := range dumpAll() {
		ignore[g.ID] = true
	}
	delete(ignore, goid())
	iters := 60
	if vutil.Thorough() {
		iters = 600
	}
	if v := vutil.Env("C37_STRESS_ITERS", ""); v != "" {
		fmt.Sscan(v, &iters)
	}
	salt := int64(37)
	if v := vutil.Env("C37_STRESS_SALT", ""); v != "" {
		var x int64
		fmt.Sscan(v, &x)
		salt += x
	}
	rng := vutil.Rand(salt)
	var fixed *stressPlan
	if v := vutil.Env("C37_STRESS_PLAN", ""); v != "" {
		fixed = &stressPlan{}
		if err := json.Unmarshal([]byte(v), fixed); err != nil {
			t.Fatal(err)
		}
		iters = 20
	}
	sigCount := map[string]int{}
	var delivered, rejected, hangs int
	for it := 0; it < iters; it++ {
		plan := mkPlan(rng)
		if fixed != nil {
			plan = *fixed
		}
		fs, obs, err := runStress(plan, ignore)
		if err != nil {
			out.Violations = nil
			out.Extra["infra_error"] = err.Error()
			t.Fatalf("stress iteration %d (%s): %v", it, plan.String(), err)
		}
		out.Case("stress|" + plan.String())
		for _, st := range obs.Opens {
			switch st {
			case "accepted":
				delivered++
			case "rejected":
				rejected++
			}
		}
		if it < 2 {
			out.Sample(map[string]any{"stress_plan": plan.String(), "real": obs})
		}
		hang := false
		for _, f := range fs {
			if strings.HasPrefix(f.sig, "harness:") {
				out.Violations = nil
				t.Fatalf("stress iteration %d: %s", it, f.what)
			}
			if strings.HasPrefix(f.sig, "close-") {
				hang = true
			}
			sigCount[f.sig]++
			if sigCount[f.sig] <= 2 {
				d := map[string]any{"stress_plan": plan, "real": obs}
				for k, v := range f.detail {
					d[k] = v
				}
				out.Violation(f.sig, f.what+" [stress plan:"+plan.String()+"]", d)
				t.Errorf("%s: %s (stress plan %s)", f.sig, f.what, plan.String())
			}
		}
		if hang {
			hangs++
		}
	}
	out.Extra["c37_stress_forwards_delivered"] = delivered
	out.Extra["c37_stress_forwards_rejected"] = rejected
	out.Extra["c37_stress_runs_with_hang"] = hangs
	if len(sigCount) > 0 {
		out.Extra["c37_stress_signature_counts"] = sigCount
	}
}

type stressPlan struct {
	Variant int               `json:"variant"`
	Laddr   map[string]string `json:"laddr"`
	Opens   []string          `json:"opens"`    // targets, in the order the peer sends them (one goroutine per target)
	Accepts map[string]int    `json:"accepts"`  // Accept calls per listener before the final phase
	CloseAt map[string]int    `json:"close_at"` // listener -> number of scheduler yields before Close (-1: not closed before the final phase)
}

func (p stressPlan) String() string {
	return fmt.Sprintf("v%d %v opens=%s accepts=%v close=%v", p.Variant, p.Laddr, strings.Join(p.Opens, ","), p.Accepts, p.CloseAt)
}

func mkPlan(r *rand.Rand) stressPlan {
	p := stressPlan{Variant: r.Intn(len(variants)), Laddr: map[string]string{}, Accepts: map[string]int{}, CloseAt: map[string]int{}}
	shapes := []map[string]string{
		{"L1": "t1"}, {"L1": "t1", "L2": "t2"}, {"L1": "t1", "L3": "u1"}, {"L1": "t1", "L2": "t2", "L3": "u1"},
	}
	for k, v := range shapes[r.Intn(len(shapes))] {
		p.Laddr[k] = v
	}
	tg := []string{"x", "xu"}
	for _, t := range p.Laddr {
		tg = append(tg, t, t, t)
	}
	n := r.Intn(21) // 0..20 opens
	for i := 0; i < n; i++ {
		p.Opens = append(p.Opens, tg[r.Intn(len(tg))])
	}
	for l := range p.Laddr {
		p.Accepts[l] = r.Intn(6)
		if r.Intn(4) == 0 {
			p.CloseAt[l] = -1
		} else {
			p.CloseAt[l] = r.Intn(40)
		}
	}
	return p
}

func runStress(plan stressPlan, ignore map[int]bool) ([]finding, obs, error) {
	s, err := newScen(plan.Variant, plan.Laddr, ignore)
	if err != nil {
		return nil, obs{}, err
	}
	var fs []finding
	var o obs
	err = func() error {
		for l := range plan.Laddr {
			s.listen(l)
		}
		if err := s.settle(); err != nil {
			return err
		}
		for l := range plan.Laddr {
			if s.listener(l) == nil {
				return fmt.Errorf("Listen(%s) failed: %+v", l, s.listens[l])
			}
		}
		s.step = 1
		// race: opens (sent in order by one goroutine per network, as a peer's accept loops would),
		// Accept calls, Close calls
		for _, tname := range plan.Opens {
			s.open(tname)
		}
		for l, n := range plan.Accepts {
			for i := 0; i < n; i++ {
				if err := s.accept(l); err != nil {
					return err
				}
			}
		}
		for l, y := range plan.CloseAt {
			if y < 0 {
				continue
			}
			for i := 0; i < y; i++ {
				runtime.Gosched()
			}
			if err := s.closeL(l); err != nil {
				return err
			}
		}
		if err := s.settle(); err != nil {
			return err
		}
		seen := map[string]bool{}
		o = s.observe()
		fs = append(fs, s.judge(o, seen)...)
		for _, f := range fs {
			if strings.HasPrefix(f.sig, "close-") {
				return nil // hung: the final phase would only pile up behind it
			}
		}
		// final phase: close what is still open, then Accept on every listener must fail
		s.step = 2
		for l := range plan.Laddr {
			if s.closes[l] == nil {
				if err := s.closeL(l); err != nil {
					return err
				}
			}
		}
		if err := s.settle(); err != nil {
			return err
		}
		o = s.observe()
		fs = append(fs, s.judge(o, seen)...)
		for _, f := range fs {
			if strings.HasPrefix(f.sig, "close-") {
				return nil
			}
		}
		s.step = 3
		for l := range plan.Laddr {
			if err := s.accept(l); err != nil {
				return err
			}
		}
		if err := s.settle(); err != nil {
			return err
		}
		o = s.observe()
		fs = append(fs, s.judge(o, seen)...)
		return nil
	}()
	if err == nil && len(fs) > 0 {
		// a finding must persist: look again after a pause (a hang does not go away; a handed-out connection stays handed out)
		time.Sleep(30 * time.Millisecond)
		if serr := s.settle(); serr != nil {
			err = serr
		} else {
			o = s.observe()
			again := map[string]bool{}
			for _, f := range s.judge(o, map[string]bool{}) {
				again[f.sig] = true
			}
			kept := fs[:0]
			for _, f := range fs {
				if again[f.sig] {
					kept = append(kept, f)
				}
			}
			fs = kept
		}
	}
	if terr := s.teardown(ignore); terr != nil && err == nil {
		err = terr
	}
	return fs, o, err
}
