// Binding R for C42: every known_hosts file TLC enumerated from spec/KnownHosts (with the model's
// declarative decision for every query) is materialised with real keys and certificates, loaded
// by the real knownhosts.New, and the real callback's answer (nil / *RevokedError / *KeyError and
// its Want lines / other error) is compared with the prediction.  ssh-keygen -F judges which
// lines match where OpenSSH's string-level lookup is comparable.  A Go reference of the
// declarative definition, first checked equal to the TLC predictions of the same run, then
// judges random files of 1..20 lines.
package c42

import (
	"crypto/ecdsa"
	"crypto/ed25519"
	"crypto/elliptic"
	"crypto/hmac"
	"crypto/rsa"
	"crypto/sha1"
	"encoding/base64"
	"encoding/json"
	"errors"
	"fmt"
	"math/rand"
	"os"
	"os/exec"
	"path/filepath"
	"regexp"
	"sort"
	"strconv"
	"strings"
	"sync"
	"testing"

	"golang.org/x/crypto/ssh"
	"golang.org/x/crypto/ssh/knownhosts"
	"verif/harness/vutil"
)

// ---------------------------------------------------------------- model records

type mPat struct {
	Neg  bool     `json:"neg"`
	H    []string `json:"h"`
	Port string   `json:"port"`
}
type mLine struct {
	M      string `json:"m"`
	Hashed bool   `json:"hashed"`
	Pats   []mPat `json:"pats"`
	Key    string `json:"key"`
}
type mKey struct {
	Cert bool   `json:"cert"`
	K    string `json:"k"`
	CA   string `json:"ca"`
}
type mQuery struct {
	HasHost bool     `json:"hasHost"`
	H       []string `json:"h"`
	Port    string   `json:"port"`
	RH      []string `json:"rh"`
	RPort   string   `json:"rport"`
	Key     mKey     `json:"key"`
}
type mRes struct {
	T string `json:"t"`
	W []int  `json:"w"`
	Y string `json:"y"`
}
type mOld struct {
	I int    `json:"i"`
	R mRes   `json:"r"`
	C string `json:"c"` // which pinned piece explains it: "star" | "subject" | "both"
}
type mCase struct {
	Fam     string   `json:"fam"`
	Queries []mQuery `json:"queries"`
	F       []mLine  `json:"f"`
	D       []mRes   `json:"d"`
	O       []mOld   `json:"o"`
}

func (q mQuery) targetHost() string {
	if q.HasHost {
		return strings.Join(q.H, "")
	}
	return strings.Join(q.RH, "")
}
func (q mQuery) targetPort() string {
	if q.HasHost {
		return q.Port
	}
	return q.RPort
}

// ---------------------------------------------------------------- real keys

type keyring struct {
	signers map[string]ssh.Signer
	certs   map[string]*ssh.Certificate
	rng     *rand.Rand
}

func newKeyring(rng *rand.Rand) *keyring {
	return &keyring{signers: map[string]ssh.Signer{}, certs: map[string]*ssh.Certificate{}, rng: rng}
}

var rsaOnce *rsa.PrivateKey

func (kr *keyring) signer(name string) ssh.Signer {
	if s, ok := kr.signers[name]; ok {
		return s
	}
	var priv any
	switch kr.rng.Intn(4) {
	case 0, 1:
		_, p, err := ed25519.GenerateKey(kr.rng)
		if err != nil {
			panic(err)
		}
		priv = p
	case 2:
		p, err := ecdsa.GenerateKey(elliptic.P256(), kr.rng)
		if err != nil {
			panic(err)
		}
		priv = p
	default:
		if rsaOnce == nil {
			p, err := rsa.GenerateKey(kr.rng, 2048)
			if err != nil {
				panic(err)
			}
			rsaOnce = p
			priv = p
		} else {
			_, p, _ := ed25519.GenerateKey(kr.rng)
			priv = p
		}
	}
	s, err := ssh.NewSignerFromKey(priv)
	if err != nil {
		panic(err)
	}
	kr.signers[name] = s
	return s
}

func (kr *keyring) pub(name string) ssh.PublicKey { return kr.signer(name).PublicKey() }

func (kr *keyring) key(k mKey) ssh.PublicKey {
	if !k.Cert {
		return kr.pub(k.K)
	}
	id := k.K + "/" + k.CA
	if c, ok := kr.certs[id]; ok {
		return c
	}
	c := &ssh.Certificate{Key: kr.pub(k.K), CertType: ssh.HostCert, KeyId: id, Serial: uint64(len(kr.certs) + 1),
		ValidAfter: 0, ValidBefore: ssh.CertTimeInfinity}
	if err := c.SignCert(kr.rng, kr.signer(k.CA)); err != nil {
		panic(err)
	}
	// through the wire form, as a client would receive it
	p, err := ssh.ParsePublicKey(c.Marshal())
	if err != nil {
		panic(err)
	}
	kr.certs[id] = p.(*ssh.Certificate)
	return kr.certs[id]
}

func serialize(k ssh.PublicKey) string {
	return k.Type() + " " + base64.StdEncoding.EncodeToString(k.Marshal())
}

// ---------------------------------------------------------------- materialisation

type addrT string

func (a addrT) Network() string { return "tcp" }
func (a addrT) String() string  { return string(a) }

func norm(h, port string) string {
	if port == "22" {
		return h
	}
	return "[" + h + "]:" + port
}

func patText(p mPat) string {
	s := norm(strings.Join(p.H, ""), p.Port)
	if p.Neg {
		s = "!" + s
	}
	return s
}

// independent computation of the OpenSSH hashed-host form (HMAC-SHA1, "|1|salt|hash")
func hashName(name string, rng *rand.Rand) string {
	salt := make([]byte, sha1.Size)
	rng.Read(salt)
	m := hmac.New(sha1.New, salt)
	m.Write([]byte(name))
	return "|1|" + base64.StdEncoding.EncodeToString(salt) + "|" + base64.StdEncoding.EncodeToString(m.Sum(nil))
}

type matFile struct {
	path    string
	text    string
	realLn  []int       // model line index (0-based) -> real line number (1-based)
	modelLn map[int]int // real line number -> model line index (1-based)
}

// materialise writes the model file as a real known_hosts file; comments, blank lines, tabs and
// trailing comments are sprinkled in (seeded) so that line numbers and separators vary.
func materialise(dir string, n int, f []mLine, kr *keyring, rng *rand.Rand) *matFile {
	var b strings.Builder
	mf := &matFile{modelLn: map[int]int{}}
	ln := 0
	noise := func() {
		switch rng.Intn(6) {
		case 0:
			b.WriteString("# a comment line\n")
			ln++
		case 1:
			b.WriteString("\n")
			ln++
		case 2:
			b.WriteString("  \t# indented comment\n")
			ln++
		}
	}
	for i, l := range f {
		noise()
		sep := " "
		if rng.Intn(4) == 0 {
			sep = "\t"
		}
		var hosts string
		if l.Hashed {
			name := norm(strings.Join(l.Pats[0].H, ""), l.Pats[0].Port)
			if rng.Intn(2) == 0 {
				hosts = hashName(name, rng)
			} else {
				hosts = knownhosts.HashHostname(name)
			}
		} else {
			var ps []string
			for _, p := range l.Pats {
				ps = append(ps, patText(p))
			}
			hosts = strings.Join(ps, ",")
		}
		line := ""
		switch l.M {
		// (a space after the marker: OpenSSH 9.2's check_markers looks for the first space of the whole
		// line before it looks for a tab, so "@marker<TAB>hosts<TAB>type<SPACE>blob" is not parsed by it)
		case "ca":
			line = "@cert-authority "
		case "revoked":
			line = "@revoked "
		}
		line += hosts + sep + serialize(kr.pub(l.Key))
		if rng.Intn(3) == 0 {
			line += sep + "comment" + strconv.Itoa(i)
		}
		if rng.Intn(8) == 0 {
			line = " " + line + " "
		}
		b.WriteString(line + "\n")
		ln++
		mf.realLn = append(mf.realLn, ln)
		mf.modelLn[ln] = i + 1
	}
	noise()
	mf.text = b.String()
	mf.path = filepath.Join(dir, fmt.Sprintf("kh_%d", n))
	if err := os.WriteFile(mf.path, []byte(mf.text), 0o600); err != nil {
		panic(err)
	}
	return mf
}

// ---------------------------------------------------------------- running the real callback

type realRes struct {
	T    string // ok | revoked | keyerr | reject (any other error)
	W    []int  // model line numbers in KeyError.Want, sorted
	Err  string
	Note string // defects of Want entries beyond the line set (wrong key / filename)
}

func runQuery(cb ssh.HostKeyCallback, mf *matFile, f []mLine, q mQuery, key ssh.PublicKey, kr *keyring) (r realRes) {
	host := ""
	if q.HasHost {
		host = strings.Join(q.H, "") + ":" + q.Port
	}
	remote := addrT(strings.Join(q.RH, "") + ":" + q.RPort)
	err := cb(host, remote, key)
	if err == nil {
		return realRes{T: "ok"}
	}
	r.Err = err.Error()
	var re *knownhosts.RevokedError
	var ke *knownhosts.KeyError
	switch {
	case errors.As(err, &re):
		r.T = "revoked"
		if !keysEqual(re.Revoked.Key, key) {
			r.Note = "RevokedError.Revoked.Key is not the presented key"
		}
	case errors.As(err, &ke):
		r.T = "keyerr"
		for _, w := range ke.Want {
			m, ok := mf.modelLn[w.Line]
			if !ok {
				r.Note = fmt.Sprintf("Want lists line %d which is not a key line", w.Line)
				m = -w.Line
			} else if !keysEqual(w.Key, kr.pub(f[m-1].Key)) {
				r.Note = fmt.Sprintf("Want entry for line %d carries a different key", w.Line)
			}
			if w.Filename != mf.path {
				r.Note = "Want entry with wrong filename " + w.Filename
			}
			r.W = append(r.W, m)
		}
		sort.Ints(r.W)
	default:
		r.T = "reject"
	}
	return r
}

func keysEqual(a, b ssh.PublicKey) bool { return string(a.Marshal()) == string(b.Marshal()) }

func sameSet(a, b []int) bool {
	x := append([]int(nil), a...)
	y := append([]int(nil), b...)
	sort.Ints(x)
	sort.Ints(y)
	x, y = uniq(x), uniq(y)
	if len(x) != len(y) {
		return false
	}
	for i := range x {
		if x[i] != y[i] {
			return false
		}
	}
	return true
}
func uniq(s []int) []int {
	var o []int
	for i, v := range s {
		if i == 0 || v != s[i-1] {
			o = append(o, v)
		}
	}
	return o
}

// agree compares at the level of the property: decision class, and for KeyError the Want set.
func agree(got realRes, want mRes, cert bool) bool {
	if got.T != want.T {
		return false
	}
	if want.T == "keyerr" && !sameSet(got.W, want.W) {
		return false
	}
	return true
}

const sigStar = "wildcard-star-vs-exhausted-host"
const sigSubject = "certificate-for-revoked-subject-key-accepted"

// ---------------------------------------------------------------- Go reference of the declarative definition

// wildRef: p matches s iff s splits into pieces, one per pattern character ('*' any piece, else one
// character equal to it or any for '?') -- dynamic programming over (i, j), not the package's loop.
func wildRef(p, s string) bool {
	m := make([][]bool, len(p)+1)
	for i := range m {
		m[i] = make([]bool, len(s)+1)
	}
	m[0][0] = true
	for i := 1; i <= len(p); i++ {
		for j := 0; j <= len(s); j++ {
			if p[i-1] == '*' {
				for k := 0; k <= j; k++ {
					if m[i-1][k] {
						m[i][j] = true
					}
				}
			} else if j > 0 && m[i-1][j-1] && (p[i-1] == '?' || p[i-1] == s[j-1]) {
				m[i][j] = true
			}
		}
	}
	return m[len(p)][len(s)]
}

// wildPinned: the loop of the pinned knownhosts.go (used only to attribute a mismatch to the
// known trailing-star defect, never as the expectation).
func wildPinned(pat, str string) bool {
	for {
		if len(pat) == 0 {
			return len(str) == 0
		}
		if len(str) == 0 {
			return false
		}
		if pat[0] == '*' {
			if len(pat) == 1 {
				return true
			}
			for j := range str {
				if wildPinned(pat[1:], str[j:]) {
					return true
				}
			}
			return false
		}
		if pat[0] == '?' || pat[0] == str[0] {
			pat = pat[1:]
			str = str[1:]
		} else {
			return false
		}
	}
}

func lineMatchRef(l mLine, h, port string, wild func(p, s string) bool) bool {
	if l.Hashed {
		return norm(strings.Join(l.Pats[0].H, ""), l.Pats[0].Port) == norm(h, port)
	}
	pos, neg := false, false
	for _, p := range l.Pats {
		if wild(strings.Join(p.H, ""), h) && p.Port == port {
			if p.Neg {
				neg = true
			} else {
				pos = true
			}
		}
	}
	return pos && !neg
}

func decideRef(f []mLine, q mQuery, wild func(p, s string) bool, subject bool) mRes {
	revoked := map[string]bool{}
	for _, l := range f {
		if l.M == "revoked" {
			revoked[l.Key] = true
		}
	}
	matching := func(h, port string) []int {
		var m []int
		for i, l := range f {
			if l.M != "revoked" && lineMatchRef(l, h, port, wild) {
				m = append(m, i+1)
			}
		}
		return m
	}
	if !q.Key.Cert {
		if revoked[q.Key.K] {
			return mRes{T: "revoked"}
		}
		m := matching(q.targetHost(), q.targetPort())
		for _, i := range m {
			if f[i-1].Key == q.Key.K {
				return mRes{T: "ok"}
			}
		}
		return mRes{T: "keyerr", W: m}
	}
	auth := false
	if q.HasHost {
		for _, i := range matching(strings.Join(q.H, ""), q.Port) {
			if f[i-1].M == "ca" && f[i-1].Key == q.Key.CA {
				auth = true
			}
		}
	}
	// revoked through the signing key, or (subject = the property / OpenSSH) through the subject key
	if !auth || revoked[q.Key.CA] || (subject && revoked[q.Key.K]) {
		return mRes{T: "reject"}
	}
	return mRes{T: "ok"}
}

func sameRes(a, b mRes) bool {
	return a.T == b.T && (a.T != "keyerr" || sameSet(a.W, b.W))
}

// ---------------------------------------------------------------- ssh-keygen -F

var foundRe = regexp.MustCompile(`(?m)^# Host \S+ found: line (\d+)`)

func sshKeygenFind(file, name string) ([]int, error) {
	out, err := exec.Command("ssh-keygen", "-F", name, "-f", file).CombinedOutput()
	if err != nil {
		// exit status 1 = not found
		var ee *exec.ExitError
		if !errors.As(err, &ee) {
			return nil, err
		}
	}
	var ls []int
	for _, m := range foundRe.FindAllStringSubmatch(string(out), -1) {
		n, _ := strconv.Atoi(m[1])
		ls = append(ls, n)
	}
	if len(ls) == 0 && len(out) > 0 && !strings.HasPrefix(string(out), "#") {
		return nil, fmt.Errorf("ssh-keygen: %s", out)
	}
	return ls, nil
}

// keygenComparable: OpenSSH looks the string "[h]:port" up for non-default ports and matches every
// pattern against that whole string, so an unbracketed pattern with wildcards ("*", "?b*") can match
// it; the package (and the property: "host and port") matches host and port separately.  A line with an
// unbracketed pattern that string-matches the bracketed lookup name is outside the comparable domain.
// (Bracketed patterns and default-port lookups are equivalent under both readings.)
func keygenComparable(l mLine, h, port string) bool {
	if port == "22" || l.Hashed {
		return true
	}
	for _, p := range l.Pats {
		if p.Port == "22" && wildRef(strings.Join(p.H, ""), norm(h, port)) {
			return false
		}
	}
	return true
}

// ---------------------------------------------------------------- the replay

type runner struct {
	t        *testing.T
	out      *vutil.Out
	dir      string
	kr       *keyring
	rng      *rand.Rand
	nfile    int
	keygen   bool
	kgBudget int
	kgRuns   int
	kgSkip   int
	kgEvery  int
	jobs     []*kgJob
	star     int
	subject  int
	refBad   int
}

func (r *runner) oneFile(f []mLine, queries []mQuery, d []mRes, o map[int]mOld, label string) {
	r.nfile++
	mf := materialise(r.dir, r.nfile, f, r.kr, r.rng)
	cb, err := knownhosts.New(mf.path)
	if err != nil {
		r.out.Violation("new-rejects-wellformed-file", "knownhosts.New fails on a well-formed file: "+err.Error(),
			map[string]any{"file": mf.text, "model": f})
		r.t.Errorf("New: %v\n%s", err, mf.text)
		return
	}
	for i, q := range queries {
		key := r.kr.key(q.Key)
		got := runQuery(cb, mf, f, q, key, r.kr)
		want := d[i]
		ck := fmt.Sprintf("%s|%v|%v", label, f, q)
		triv := want.T == "keyerr" && len(want.W) == 0 && len(f) > 0
		if triv {
			ck = "" // nothing matched: counted as an evaluation, not as a distinct non-trivial case
		}
		r.out.Case(ck)
		ok := agree(got, want, q.Key.Cert)
		if ok && got.Note != "" {
			ok = false
		}
		if ok {
			continue
		}
		detail := map[string]any{"file": mf.text, "model_file": f, "query": q, "got": got, "want": want,
			"hostname": strings.Join(q.H, "") + ":" + q.Port, "remote": strings.Join(q.RH, "") + ":" + q.RPort}
		// attribution to the two defects the model documents (former wildcardMatch / former IsRevoked): the answer
		// is the one the reference gives with that former piece (the reference is validated against TLC's
		// transcriptions of them in TestReplay); the verdict is a violation either way, this only picks the signature
		cause := ""
		if got.Note == "" {
			for _, alt := range []struct {
				c       string
				wild    func(p, s string) bool
				subject bool
			}{{"star", wildPinned, true}, {"subject", wildRef, false}, {"both", wildPinned, false}} {
				a := decideRef(f, q, alt.wild, alt.subject)
				if !sameRes(a, want) && agree(got, a, q.Key.Cert) {
					cause = alt.c
					break
				}
			}
		}
		if cause != "" {
			if cause == "star" || cause == "both" {
				r.star++
				if r.star <= 3 {
					r.out.Violation(sigStar, "knownhosts: a pattern ending in '*' (or containing '**') does not match a host that is exhausted when the star is reached "+
						"(e.g. pattern \"a*\" vs host \"a\"); OpenSSH's match_pattern and the declarative definition match", detail)
				}
			}
			if cause == "subject" || cause == "both" {
				r.subject++
				if r.subject <= 3 {
					r.out.Violation(sigSubject, "knownhosts: a host certificate whose subject public key is @revoked is accepted when its CA is on a matching "+
						"@cert-authority line (IsRevoked looks up the certificate blob and the signing key only); OpenSSH reports REVOKED HOST KEY", detail)
				}
			}
			continue
		}
		r.out.Violation("decision-mismatch:"+want.T+"->"+got.T, fmt.Sprintf("knownhosts callback answered %s (Want %v, %s) where the specification says %s (Want %v)",
			got.T, got.W, got.Err, want.T, want.W), detail)
		r.t.Errorf("mismatch: file=%q query=%+v got=%+v want=%+v", mf.text, q, got, want)
	}
	if r.keygen && r.kgBudget > 0 && len(f) > 0 && r.rng.Intn(r.kgEvery) == 0 {
		r.keygenCheck(cb, mf, f, queries)
	} else {
		os.Remove(mf.path)
	}
}

// keygenCheck: for every distinct target of the queries, the set of non-revoked lines the package
// matches (KeyError.Want for a key no line lists) must be the set ssh-keygen -F finds.
func (r *runner) keygenCheck(cb ssh.HostKeyCallback, mf *matFile, f []mLine, queries []mQuery) {
	seen := map[string]bool{}
	for _, q := range queries {
		h, port := q.targetHost(), q.targetPort()
		name := norm(h, port)
		if seen[name] || r.kgBudget <= 0 {
			continue
		}
		seen[name] = true
		r.kgBudget--
		probe := mQuery{HasHost: true, H: []string{h}, Port: port, RH: []string{"x"}, RPort: "1", Key: mKey{K: "unlisted"}}
		got := runQuery(cb, mf, f, probe, r.kr.pub("unlisted"), r.kr)
		if got.T != "keyerr" {
			continue
		}
		r.jobs = append(r.jobs, &kgJob{mf: mf, f: f, h: h, port: port, name: name, got: got.W})
	}
}

type kgJob struct {
	mf    *matFile
	f     []mLine
	h     string
	port  string
	name  string
	got   []int
	found []int
	err   error
}

// runKeygenJobs runs the queued ssh-keygen -F lookups (8 at a time) and judges them.
func (r *runner) runKeygenJobs() {
	var wg sync.WaitGroup
	sem := make(chan struct{}, 8)
	for _, j := range r.jobs {
		wg.Add(1)
		sem <- struct{}{}
		go func(j *kgJob) {
			defer wg.Done()
			defer func() { <-sem }()
			j.found, j.err = sshKeygenFind(j.mf.path, j.name)
		}(j)
	}
	wg.Wait()
	for _, j := range r.jobs {
		if j.err != nil {
			r.t.Logf("ssh-keygen: %v", j.err)
			r.kgSkip++
			continue
		}
		r.judgeKeygen(j)
	}
	r.jobs = nil
}

func (r *runner) judgeKeygen(j *kgJob) {
	mf, f, h, port, name, found := j.mf, j.f, j.h, j.port, j.name, j.found
	got := realRes{W: j.got}
	{
		r.kgRuns++
		var want, have []int
		skip := map[int]bool{}
		for i, l := range f {
			if l.M == "revoked" || !keygenComparable(l, h, port) {
				skip[i+1] = true
			}
		}
		for _, ln := range found {
			if m, ok := mf.modelLn[ln]; ok && !skip[m] {
				want = append(want, m)
			}
		}
		for _, m := range got.W {
			if !skip[m] {
				have = append(have, m)
			}
		}
		r.out.Case("keygen|" + mf.text + "|" + name)
		if sameSet(want, have) {
			return
		}
		// attributable to the trailing-star defect?  (reference with the pinned loop explains the package)
		var pinned []int
		for i, l := range f {
			if l.M != "revoked" && !skip[i+1] && lineMatchRef(l, h, port, wildPinned) {
				pinned = append(pinned, i+1)
			}
		}
		var decl []int
		for i, l := range f {
			if l.M != "revoked" && !skip[i+1] && lineMatchRef(l, h, port, wildRef) {
				decl = append(decl, i+1)
			}
		}
		detail := map[string]any{"file": mf.text, "name": name, "ssh_keygen_lines": want, "package_lines": have}
		if sameSet(have, pinned) && sameSet(want, decl) {
			r.star++
			if r.star <= 3 {
				r.out.Violation(sigStar, "ssh-keygen -F finds a line whose pattern ends in '*' for a host the star must match emptily; knownhosts does not match it", detail)
			}
			return
		}
		r.out.Violation("ssh-keygen-F-disagrees", fmt.Sprintf("ssh-keygen -F %s finds lines %v, knownhosts matches %v", name, want, have), detail)
		r.t.Errorf("ssh-keygen -F %s: %v, package %v\n%s", name, want, have, mf.text)
	}
}

func newRunner(t *testing.T, out *vutil.Out) *runner {
	r := &runner{t: t, out: out, dir: t.TempDir(), rng: vutil.Rand(42)}
	r.kr = newKeyring(vutil.Rand(4242))
	_, err := exec.LookPath("ssh-keygen")
	r.keygen = err == nil && os.Getenv("VERIF_NO_KEYGEN") == ""
	r.kgBudget, _ = strconv.Atoi(vutil.Env("VERIF_KEYGEN_BUDGET", "150"))
	r.kgEvery, _ = strconv.Atoi(vutil.Env("VERIF_KEYGEN_EVERY", "8"))
	if r.kgEvery < 1 {
		r.kgEvery = 1
	}
	return r
}

func (r *runner) finish() {
	r.runKeygenJobs()
	if r.star > 0 {
		r.t.Errorf("%d evaluations hit the trailing-star defect of wildcardMatch (signature %s)", r.star, sigStar)
	}
	if r.subject > 0 {
		r.t.Errorf("%d evaluations accepted a certificate for a revoked subject key (signature %s)", r.subject, sigSubject)
	}
	r.out.Extra["ssh_keygen_runs"] = r.kgRuns
	r.out.Extra["ssh_keygen_available"] = r.keygen
	r.out.Extra["star_defect_hits"] = r.star
	r.out.Extra["revoked_subject_hits"] = r.subject
	r.out.Extra["files"] = r.nfile
}

// TestReplay replays the TLC-generated cases (VERIF_CASES: first a {"queries":[...]} record, then one
// record per file) and validates the Go reference of the declarative definition against them.
func TestReplay(t *testing.T) {
	out := vutil.NewOut()
	defer func() {
		if err := out.Write(); err != nil {
			t.Fatal(err)
		}
	}()
	r := newRunner(t, out)
	defer r.finish()
	byFam := map[string][]mQuery{}
	nref := 0
	err := vutil.ReadNDJSON(vutil.Env("VERIF_CASES", ""), func(line []byte) error {
		var c mCase
		if err := json.Unmarshal(line, &c); err != nil {
			return err
		}
		if c.Queries != nil {
			byFam[c.Fam] = c.Queries
			return nil
		}
		queries := byFam[c.Fam]
		label := c.Fam
		if queries == nil || len(c.D) != len(queries) {
			return fmt.Errorf("case of family %q without matching query list", c.Fam)
		}
		o := map[int]mOld{}
		for _, x := range c.O {
			o[x.I] = x
		}
		// the reference must reproduce TLC's declarative predictions (its authority derives from them)
		for i, q := range queries {
			if ref := decideRef(c.F, q, wildRef, true); !sameRes(ref, c.D[i]) {
				r.refBad++
				t.Fatalf("harness reference disagrees with the TLC prediction (harness bug, not a verdict): file=%v query=%v ref=%v tlc=%v", c.F, q, ref, c.D[i])
			}
			if old, ok := o[i+1]; ok {
				if ref := decideRef(c.F, q, wildPinned, false); !sameRes(ref, old.R) {
					t.Fatalf("harness pinned-loop reference disagrees with the TLC transcription: file=%v query=%v ref=%v tlc=%v", c.F, q, ref, old)
				}
			}
			nref++
		}
		r.oneFile(c.F, queries, c.D, o, label)
		if len(out.Samples) < 3 && len(c.F) > 0 {
			out.Sample(map[string]any{"file": c.F, "query": queries[0], "prediction": c.D[0]})
		}
		return nil
	})
	out.Extra["reference_validated_on"] = nref
	if err != nil {
		t.Fatal(err)
	}
}
