package c42

import (
	"fmt"
	"os"
	"path/filepath"
	"strings"
	"testing"

	"golang.org/x/crypto/ssh"
	"golang.org/x/crypto/ssh/knownhosts"
	"verif/harness/vutil"
)

// TestRandomFiles: files of 1..20 lines mixing plain, wildcard, negated, hashed and bracketed
// patterns, markers and comments; hosts and ports drawn from the patterns' alphabet.  Judge: the Go
// reference of the declarative definition (validated against TLC in TestReplay of the same run).
func TestRandomFiles(t *testing.T) {
	out := vutil.NewOut()
	defer func() {
		if err := out.Write(); err != nil {
			t.Fatal(err)
		}
	}()
	r := newRunner(t, out)
	defer r.finish()
	randomFiles(t, out, r)
}

// TestModelIndependent runs the two drivers that need no TLC output (round trip, random files) in one
// process, so that checks/C42.py can run them while TLC is working.
func TestModelIndependent(t *testing.T) {
	out := vutil.NewOut()
	defer func() {
		if err := out.Write(); err != nil {
			t.Fatal(err)
		}
	}()
	r := newRunner(t, out)
	defer r.finish()
	roundTrip(t, out, r)
	out.Extra["roundtrip_ssh_keygen_runs"] = r.kgRuns
	out.Extra["roundtrip_evaluations"] = out.Evaluations
	randomFiles(t, out, r)
}

func randomFiles(t *testing.T, out *vutil.Out, r *runner) {
	rng := vutil.Rand(4200)
	n := 250
	if vutil.Thorough() {
		n = 3000
	}
	hostChars := []string{"a", "b", "."}
	patChars := []string{"a", "a", "b", "b", ".", "*", "*", "?"}
	ports := []string{"22", "22", "2222", "8022"}
	keys := []string{"k1", "k2", "k3", "ca1", "ca2"}
	str := func(al []string, max int) []string {
		k := 1 + rng.Intn(max)
		s := make([]string, k)
		for i := range s {
			s[i] = al[rng.Intn(len(al))]
		}
		return s
	}
	for c := 0; c < n; c++ {
		var hosts [][]string
		for i := 0; i < 4; i++ {
			hosts = append(hosts, str(hostChars, 4))
		}
		nl := 1 + rng.Intn(20)
		var f []mLine
		for i := 0; i < nl; i++ {
			l := mLine{M: []string{"none", "none", "none", "ca", "ca", "revoked"}[rng.Intn(6)], Key: keys[rng.Intn(len(keys))]}
			if rng.Intn(5) == 0 {
				l.Hashed = true
				l.Pats = []mPat{{H: hosts[rng.Intn(len(hosts))], Port: ports[rng.Intn(len(ports))]}}
			} else {
				np := 1 + rng.Intn(3)
				for j := 0; j < np; j++ {
					p := mPat{Neg: j > 0 && rng.Intn(3) == 0, Port: ports[rng.Intn(len(ports))]}
					switch rng.Intn(3) {
					case 0:
						p.H = hosts[rng.Intn(len(hosts))]
					case 1: // a host with some characters replaced by wildcards
						h := append([]string(nil), hosts[rng.Intn(len(hosts))]...)
						for k := range h {
							if rng.Intn(3) == 0 {
								h[k] = []string{"*", "?"}[rng.Intn(2)]
							}
						}
						if rng.Intn(3) == 0 {
							h = append(h, "*")
						}
						p.H = h
					default:
						p.H = str(patChars, 4)
					}
					l.Pats = append(l.Pats, p)
				}
			}
			f = append(f, l)
		}
		var queries []mQuery
		var d []mRes
		o := map[int]mOld{}
		for i := 0; i < 24; i++ {
			q := mQuery{HasHost: rng.Intn(6) != 0, H: hosts[rng.Intn(len(hosts))], Port: ports[rng.Intn(len(ports))],
				RH: hosts[rng.Intn(len(hosts))], RPort: ports[rng.Intn(len(ports))]}
			k := keys[rng.Intn(len(keys))]
			if rng.Intn(3) == 0 {
				q.Key = mKey{Cert: true, K: k, CA: keys[rng.Intn(len(keys))]}
			} else {
				q.Key = mKey{K: k, CA: "-"}
			}
			queries = append(queries, q)
			want := decideRef(f, q, wildRef, true)
			d = append(d, want)
			if old := decideRef(f, q, wildPinned, false); !sameRes(old, want) {
				cause := "both"
				if sameRes(decideRef(f, q, wildPinned, true), old) {
					cause = "star"
				} else if sameRes(decideRef(f, q, wildRef, false), old) {
					cause = "subject"
				}
				o[i+1] = mOld{I: i + 1, R: old, C: cause}
			}
		}
		r.oneFile(f, queries, d, o, "rnd")
		if c == 0 {
			out.Sample(map[string]any{"random_file_lines": len(f), "first_query": queries[0], "prediction": d[0]})
		}
	}
}

// TestRoundTrip: lines produced by Line and by Line(HashHostname(Normalize(addr))) match their hosts
// (callback accepts the listed key for exactly that address, KeyError with that line for another key),
// and ssh-keygen -F finds them.
func TestRoundTrip(t *testing.T) {
	out := vutil.NewOut()
	defer func() {
		if err := out.Write(); err != nil {
			t.Fatal(err)
		}
	}()
	r := newRunner(t, out)
	defer r.finish()
	roundTrip(t, out, r)
}

func roundTrip(t *testing.T, out *vutil.Out, r *runner) {
	rng := vutil.Rand(4201)
	type ad struct{ host, port string }
	var addrs []ad
	al := []string{"a", "b", "."}
	// every host over the alphabet up to length 3, both ports
	var gen func(prefix string, n int)
	gen = func(prefix string, n int) {
		if prefix != "" {
			addrs = append(addrs, ad{prefix, "22"}, ad{prefix, "2222"})
		}
		if n == 0 {
			return
		}
		for _, c := range al {
			gen(prefix+c, n-1)
		}
	}
	gen("", 3)
	for _, h := range []string{"server.example.org", "10.1.2.3", "::1", "c629:1ec4:102:304:102:304:102:304", "xn--bcher-kva.example", "host-1_x"} {
		addrs = append(addrs, ad{h, "22"}, ad{h, "23"}, ad{h, "65535"})
	}
	dir := t.TempDir()
	k1, k2 := r.kr.pub("k1"), r.kr.pub("k2")
	join := func(a ad) string {
		if strings.Contains(a.host, ":") {
			return "[" + a.host + "]:" + a.port
		}
		return a.host + ":" + a.port
	}
	for i, a := range addrs {
		hp := join(a)
		forms := []string{hp}
		if a.port == "22" {
			forms = append(forms, a.host) // Normalize also accepts a bare host
			if strings.Contains(a.host, ":") {
				forms = append(forms, "["+a.host+"]")
			}
		}
		nm := knownhosts.Normalize(hp)
		other := addrs[(i+7)%len(addrs)]
		for _, form := range forms {
			if got := knownhosts.Normalize(form); got != nm {
				out.Violation("normalize-not-canonical", fmt.Sprintf("Normalize(%q) = %q but Normalize(%q) = %q", form, got, hp, nm), nil)
				t.Errorf("Normalize(%q)=%q, Normalize(%q)=%q", form, got, hp, nm)
			}
			if got := knownhosts.Normalize(nm); got != nm {
				out.Violation("normalize-not-idempotent", fmt.Sprintf("Normalize(%q) = %q", nm, got), nil)
				t.Errorf("Normalize not idempotent on %q: %q", nm, got)
			}
			for _, hashed := range []bool{false, true} {
				var line string
				if hashed {
					line = knownhosts.Line([]string{knownhosts.HashHostname(knownhosts.Normalize(form))}, k1)
				} else if rng.Intn(2) == 0 {
					line = knownhosts.Line([]string{form}, k1)
				} else {
					line = knownhosts.Line([]string{join(other), form}, k1)
				}
				fn := filepath.Join(dir, "rt")
				if err := os.WriteFile(fn, []byte("# round trip\n"+line+"\n"), 0o600); err != nil {
					t.Fatal(err)
				}
				cb, err := knownhosts.New(fn)
				key := fmt.Sprintf("rt|%s|%v", form, hashed)
				out.Case(key)
				bad := func(sig, what string) {
					out.Violation(sig, what, map[string]any{"address": form, "line": line, "hashed": hashed})
					t.Errorf("%s: %s (address %q line %q)", sig, what, form, line)
				}
				if err != nil {
					bad("roundtrip-line-unparsable", "knownhosts.New rejects a line produced by Line: "+err.Error())
					continue
				}
				if err := cb(hp, addrT("192.0.2.1:1"), k1); err != nil {
					bad("roundtrip-line-does-not-match-its-host", "line produced by Line/HashHostname does not accept its own host and key: "+err.Error())
				}
				err = cb(hp, addrT("192.0.2.1:1"), k2)
				var ke *knownhosts.KeyError
				if !asKeyErr(err, &ke) || len(ke.Want) != 1 || ke.Want[0].Line != 2 || !keysEqual(ke.Want[0].Key, k1) {
					bad("roundtrip-want", fmt.Sprintf("another key for the line's host must give KeyError{Want: that line}, got %v", err))
				}
				// a different address must not be matched by a hashed line, nor by a single-address line
				if hashed && join(other) != hp {
					err = cb(join(other), addrT("192.0.2.1:1"), k1)
					if !asKeyErr(err, &ke) || len(ke.Want) != 0 {
						bad("roundtrip-hashed-line-matches-other-host", fmt.Sprintf("hashed line for %s accepted/matched %s: %v", hp, join(other), err))
					}
				}
				if r.keygen && (vutil.Thorough() || i%5 == 0) {
					found, err := sshKeygenFind(fn, nm)
					if err != nil {
						t.Logf("ssh-keygen: %v", err)
						continue
					}
					r.kgRuns++
					if len(found) != 1 || found[0] != 2 {
						bad("roundtrip-not-found-by-ssh-keygen", fmt.Sprintf("ssh-keygen -F %s finds lines %v, want [2]", nm, found))
					}
				}
			}
		}
	}
	out.Sample(map[string]any{"roundtrip_addresses": len(addrs)})
}

func asKeyErr(err error, ke **knownhosts.KeyError) bool {
	k, ok := err.(*knownhosts.KeyError)
	if ok {
		*ke = k
	}
	return ok
}

var _ ssh.PublicKey
