// Binding R for C23: every input TLC enumerated from spec/Asn1.tla (all byte strings over an alphabet
// of interesting octets, grammar-generated near-valid encodings, DER encodings of boundary values) goes
// to the real cryptobyte String readers (ReadAnyASN1, ReadASN1, every typed reader, the optional
// variants) and to encoding/asn1 (trusted base).  "Accept exactly DER" is judged against the model's
// prediction; "same value where both accept" against the standard library; the AddASN1* builders must
// emit the model's encoding for every boundary value.
package c23

import (
	"bytes"
	encoding_asn1 "encoding/asn1"
	"encoding/json"
	"fmt"
	"math/big"
	"reflect"
	"strconv"
	"testing"
	"time"

	"golang.org/x/crypto/cryptobyte"
	"golang.org/x/crypto/cryptobyte/asn1"
	"verif/harness/vutil"
)

type bigv struct {
	Neg bool  `json:"neg"`
	Mag []int `json:"mag"`
}

func (b bigv) Int() *big.Int {
	n := new(big.Int).SetBytes(ints2bytes(b.Mag))
	if b.Neg {
		n.Neg(n)
	}
	return n
}

type tmv struct {
	Ok  bool `json:"ok"`
	Y   int  `json:"y"`
	Mo  int  `json:"mo"`
	D   int  `json:"d"`
	H   int  `json:"h"`
	Mi  int  `json:"mi"`
	S   int  `json:"s"`
	Off int  `json:"off"`
}

type results struct {
	Any struct {
		Ok  bool `json:"ok"`
		Tag int  `json:"tag"`
		Hdr int  `json:"hdr"`
		Len int  `json:"len"`
	} `json:"any"`
	Bigc bool `json:"bigc"`
	Int  struct {
		Ok   bool `json:"ok"`
		V    bigv `json:"v"`
		Vbig bool `json:"vbig"`
	} `json:"int"`
	Fits map[string]bool `json:"fits"`
	Enum struct {
		Ok bool `json:"ok"`
		V  bigv `json:"v"`
	} `json:"enum"`
	Bool struct {
		Ok bool `json:"ok"`
		V  bool `json:"v"`
	} `json:"bool"`
	Oid struct {
		Ok bool  `json:"ok"`
		V  []int `json:"v"`
	} `json:"oid"`
	Bits struct {
		Ok  bool `json:"ok"`
		Pad int  `json:"pad"`
		N   int  `json:"n"`
	} `json:"bits"`
	Bitsb   bool `json:"bitsb"`
	Utc     tmv  `json:"utc"`
	Gen     tmv  `json:"gen"`
	Present bool `json:"present"`
	Opt     bool `json:"opt"`
	Optint  struct {
		Ok bool `json:"ok"`
		V  bigv `json:"v"`
	} `json:"optint"`
	Optoct  bool `json:"optoct"`
	Optbool struct {
		Ok      bool `json:"ok"`
		V       bool `json:"v"`
		Lenient bool `json:"lenient"`
	} `json:"optbool"`
}

type tcase struct {
	B       []int `json:"b"`
	F       int   `json:"f"`
	Ok      bool  `json:"ok"`
	Present bool  `json:"present"`
	Opt     bool  `json:"opt"`
	Src     struct {
		K     string `json:"k"`
		Big   bigv   `json:"big"`
		Arcs  []int  `json:"arcs"`
		Tm    tmv    `json:"tm"`
		Bytes []int  `json:"bytes"`
		Flag  bool   `json:"flag"`
	} `json:"src"`
	R results `json:"r"`
}

func ints2bytes(x []int) []byte {
	out := make([]byte, len(x))
	for i, v := range x {
		out[i] = byte(v)
	}
	return out
}

type runner struct {
	t        *testing.T
	out      *vutil.Out
	sigCount map[string]int
	stdDiff  map[string]int
}

func (r *runner) viol(sig, what string, detail map[string]any) {
	r.sigCount[sig]++
	if r.sigCount[sig] > 3 {
		return
	}
	r.out.Violation(sig, what, detail)
	r.t.Errorf("%s: %s input=%v", sig, what, detail["input"])
}

func mkTime(m tmv) time.Time {
	loc := time.UTC
	if m.Off != 0 {
		loc = time.FixedZone("", m.Off*60)
	}
	return time.Date(m.Y, time.Month(m.Mo), m.D, m.H, m.Mi, m.S, 0, loc)
}

func sameTime(got time.Time, m tmv) bool {
	_, off := got.Zone()
	return got.Year() == m.Y && int(got.Month()) == m.Mo && got.Day() == m.D && got.Hour() == m.H && got.Minute() == m.Mi && got.Second() == m.S &&
		off == m.Off*60 && got.Nanosecond() == 0
}

// all checks for one input
func (r *runner) check(c *tcase, line []byte) {
	data := append(ints2bytes(c.B), make([]byte, c.F)...)
	hexIn := fmt.Sprintf("%x", ints2bytes(c.B))
	if c.F > 0 {
		hexIn += fmt.Sprintf("+%d zero bytes", c.F)
	}
	det := func(extra map[string]any) map[string]any {
		d := map[string]any{"input": hexIn}
		if len(line) < 4000 {
			d["case"] = json.RawMessage(append([]byte(nil), line...))
		}
		for k, v := range extra {
			d[k] = v
		}
		return d
	}
	exp := func(reader string, got, want bool) bool {
		if got != want {
			r.viol("c23-accept:"+reader, fmt.Sprintf("%s accept=%v, DER model %v", reader, got, want), det(nil))
			return false
		}
		return got
	}
	m := &c.R
	anyOk := c.Ok && m.Any.Ok

	// ReadAnyASN1 / ReadAnyASN1Element / ReadASN1 / ReadASN1Element / ReadASN1Bytes / SkipASN1
	{
		s := cryptobyte.String(data)
		var out cryptobyte.String
		var tag asn1.Tag
		if exp("ReadAnyASN1", s.ReadAnyASN1(&out, &tag), anyOk) {
			if int(tag) != m.Any.Tag || len(out) != m.Any.Len || len(s) != len(data)-m.Any.Hdr-m.Any.Len ||
				!bytes.Equal(out, data[m.Any.Hdr:m.Any.Hdr+m.Any.Len]) {
				r.viol("c23-tlv-extent", "ReadAnyASN1 returned a different tag/content/rest than the model", det(map[string]any{"tag": int(tag), "len": len(out), "rest": len(s)}))
			}
		} else if len(s) != len(data) {
			r.viol("c23-tlv-extent", "a failed ReadAnyASN1 consumed input", det(nil))
		}
		s = cryptobyte.String(data)
		if exp("ReadAnyASN1Element", s.ReadAnyASN1Element(&out, &tag), anyOk) && (len(out) != m.Any.Hdr+m.Any.Len || int(tag) != m.Any.Tag) {
			r.viol("c23-tlv-extent", "ReadAnyASN1Element returned a different extent than the model", det(nil))
		}
		if anyOk {
			t0 := asn1.Tag(m.Any.Tag)
			s = cryptobyte.String(data)
			exp("ReadASN1(tag)", s.ReadASN1(&out, t0), true)
			s = cryptobyte.String(data)
			exp("ReadASN1(other tag)", s.ReadASN1(&out, t0^1), false)
			s = cryptobyte.String(data)
			exp("ReadASN1Element(tag)", s.ReadASN1Element(&out, t0), true)
			s = cryptobyte.String(data)
			var raw []byte
			exp("ReadASN1Bytes(tag)", s.ReadASN1Bytes(&raw, t0), true)
			s = cryptobyte.String(data)
			exp("SkipASN1(tag)", s.SkipASN1(t0), true)
			exp("PeekASN1Tag", cryptobyte.String(data).PeekASN1Tag(t0), true)
		} else if len(data) >= 1 {
			s = cryptobyte.String(data)
			exp("ReadASN1(first octet)", s.ReadASN1(&out, asn1.Tag(data[0])), false)
			s = cryptobyte.String(data)
			exp("SkipASN1(first octet)", s.SkipASN1(asn1.Tag(data[0])), false)
		}
	}

	// encoding/asn1 on the generic element
	var raw encoding_asn1.RawValue
	_, stdErr := encoding_asn1.Unmarshal(data, &raw)
	if (stdErr == nil) != anyOk {
		r.stdDiff["tlv"]++
	} else if anyOk {
		tb := raw.Class<<6 | raw.Tag
		if raw.IsCompound {
			tb |= 0x20
		}
		if tb != m.Any.Tag || !bytes.Equal(raw.Bytes, data[m.Any.Hdr:m.Any.Hdr+m.Any.Len]) {
			r.viol("c23-stdlib-value:tlv", "ReadAnyASN1 and encoding/asn1 disagree on tag or content", det(nil))
		}
	}

	want := func(b bool) bool { return anyOk && b }
	tagIs := func(t int) bool { return anyOk && m.Any.Tag == t }

	// BOOLEAN
	{
		s := cryptobyte.String(data)
		var v bool
		if exp("ReadASN1Boolean", s.ReadASN1Boolean(&v), want(m.Bool.Ok)) {
			if v != m.Bool.V {
				r.viol("c23-value:bool", "ReadASN1Boolean value differs from the model", det(nil))
			}
			var sv bool
			if _, err := encoding_asn1.Unmarshal(data, &sv); err == nil && sv != v {
				r.viol("c23-stdlib-value:bool", "BOOLEAN value differs from encoding/asn1", det(nil))
			} else if err != nil {
				r.stdDiff["bool"]++
			}
		} else if tagIs(1) {
			var sv bool
			if _, err := encoding_asn1.Unmarshal(data, &sv); err == nil {
				r.stdDiff["bool"]++
			}
		}
	}

	// INTEGER into every Go type
	intOk := want(m.Int.Ok)
	{
		s := cryptobyte.String(data)
		bi := new(big.Int)
		if exp("ReadASN1Integer(*big.Int)", s.ReadASN1Integer(bi), intOk) {
			if !m.Int.Vbig && bi.Cmp(m.Int.V.Int()) != 0 {
				r.viol("c23-value:int", "ReadASN1Integer(*big.Int) value differs from the model", det(map[string]any{"got": bi.String(), "want": m.Int.V.Int().String()}))
			}
			var sb *big.Int
			if _, err := encoding_asn1.Unmarshal(data, &sb); err == nil {
				if sb.Cmp(bi) != 0 {
					r.viol("c23-stdlib-value:int", "INTEGER value differs from encoding/asn1", det(map[string]any{"got": bi.String(), "stdlib": sb.String()}))
				}
			} else {
				r.stdDiff["int"]++
			}
		} else if tagIs(2) {
			var sb *big.Int
			if _, err := encoding_asn1.Unmarshal(data, &sb); err == nil {
				r.stdDiff["int"]++
			}
		}
		fit := func(k string) bool { return intOk && m.Fits[k] }
		val := m.Int.V.Int()
		signed := []struct {
			name string
			p    any
			k    string
		}{{"int8", new(int8), "i8"}, {"int16", new(int16), "i16"}, {"int32", new(int32), "i32"}, {"int64", new(int64), "i64"}, {"int", new(int), "i64"}}
		for _, x := range signed {
			s = cryptobyte.String(data)
			if exp("ReadASN1Integer(*"+x.name+")", s.ReadASN1Integer(x.p), fit(x.k)) {
				if got := reflect.ValueOf(x.p).Elem().Int(); !m.Int.Vbig && big.NewInt(got).Cmp(val) != 0 {
					r.viol("c23-value:int", "ReadASN1Integer(*"+x.name+") value differs from the model", det(map[string]any{"got": got, "want": val.String()}))
				}
			}
		}
		unsigned := []struct {
			name string
			p    any
			k    string
		}{{"uint8", new(uint8), "u8"}, {"uint16", new(uint16), "u16"}, {"uint32", new(uint32), "u32"}, {"uint64", new(uint64), "u64"}, {"uint", new(uint), "u64"}}
		for _, x := range unsigned {
			s = cryptobyte.String(data)
			if exp("ReadASN1Integer(*"+x.name+")", s.ReadASN1Integer(x.p), fit(x.k)) {
				if got := reflect.ValueOf(x.p).Elem().Uint(); !m.Int.Vbig && new(big.Int).SetUint64(got).Cmp(val) != 0 {
					r.viol("c23-value:int", "ReadASN1Integer(*"+x.name+") value differs from the model", det(map[string]any{"got": got, "want": val.String()}))
				}
			}
		}
		s = cryptobyte.String(data)
		var mag []byte
		if exp("ReadASN1Integer(*[]byte)", s.ReadASN1Integer(&mag), fit("nonneg")) && !m.Int.Vbig {
			wantMag := val.Bytes()
			if len(wantMag) == 0 {
				wantMag = []byte{0}
			}
			if !bytes.Equal(mag, wantMag) {
				r.viol("c23-value:int", "ReadASN1Integer(*[]byte) value differs from the model", det(map[string]any{"got": fmt.Sprintf("%x", mag)}))
			}
		}
		s = cryptobyte.String(data)
		var i64 int64 = -1 // a dirty destination must not leak into the result
		if exp("ReadASN1Int64WithTag", s.ReadASN1Int64WithTag(&i64, asn1.INTEGER), fit("i64")) && !m.Int.Vbig && big.NewInt(i64).Cmp(val) != 0 {
			r.viol("c23-value:int", "ReadASN1Int64WithTag value differs from the model", det(map[string]any{"got": i64, "want": val.String()}))
		}
		var s64 int64
		if _, err := encoding_asn1.Unmarshal(data, &s64); err == nil && fit("i64") && s64 != i64 {
			r.viol("c23-stdlib-value:int", "int64 value differs from encoding/asn1", det(nil))
		} else if (err == nil) != fit("i64") && tagIs(2) {
			r.stdDiff["int64"]++
		}
	}

	// ENUMERATED
	{
		s := cryptobyte.String(data)
		var e int
		if exp("ReadASN1Enum", s.ReadASN1Enum(&e), want(m.Enum.Ok)) {
			if big.NewInt(int64(e)).Cmp(m.Enum.V.Int()) != 0 {
				r.viol("c23-value:enum", "ReadASN1Enum value differs from the model", det(nil))
			}
			var se encoding_asn1.Enumerated
			if _, err := encoding_asn1.Unmarshal(data, &se); err == nil && int(se) != e {
				r.viol("c23-stdlib-value:enum", "ENUMERATED value differs from encoding/asn1", det(map[string]any{"got": e, "stdlib": int(se)}))
			} else if err != nil {
				r.stdDiff["enum"]++
			}
		}
	}

	// OBJECT IDENTIFIER
	if !m.Bigc || !anyOk {
		s := cryptobyte.String(data)
		var oid encoding_asn1.ObjectIdentifier
		if exp("ReadASN1ObjectIdentifier", s.ReadASN1ObjectIdentifier(&oid), want(m.Oid.Ok)) {
			if !reflect.DeepEqual([]int(oid), m.Oid.V) {
				r.viol("c23-value:oid", "ReadASN1ObjectIdentifier value differs from the model", det(map[string]any{"got": []int(oid), "want": m.Oid.V}))
			}
			var so encoding_asn1.ObjectIdentifier
			if _, err := encoding_asn1.Unmarshal(data, &so); err == nil {
				if !so.Equal(oid) {
					r.viol("c23-stdlib-value:oid", "OID value differs from encoding/asn1", det(map[string]any{"got": oid.String(), "stdlib": so.String()}))
				}
			} else {
				r.stdDiff["oid"]++
			}
		} else if tagIs(6) {
			var so encoding_asn1.ObjectIdentifier
			if _, err := encoding_asn1.Unmarshal(data, &so); err == nil {
				r.stdDiff["oid"]++
			}
		}
	}

	// BIT STRING
	{
		s := cryptobyte.String(data)
		var bs encoding_asn1.BitString
		if exp("ReadASN1BitString", s.ReadASN1BitString(&bs), want(m.Bits.Ok)) {
			if bs.BitLength != m.Bits.N*8-m.Bits.Pad || len(bs.Bytes) != m.Bits.N || !bytes.Equal(bs.Bytes, data[m.Any.Hdr+1:m.Any.Hdr+m.Any.Len]) {
				r.viol("c23-value:bits", "ReadASN1BitString value differs from the model", det(nil))
			}
			var sb encoding_asn1.BitString
			if _, err := encoding_asn1.Unmarshal(data, &sb); err == nil {
				if sb.BitLength != bs.BitLength || !bytes.Equal(sb.Bytes, bs.Bytes) {
					r.viol("c23-stdlib-value:bits", "BIT STRING value differs from encoding/asn1", det(nil))
				}
			} else {
				r.stdDiff["bits"]++
			}
		} else if tagIs(3) {
			var sb encoding_asn1.BitString
			if _, err := encoding_asn1.Unmarshal(data, &sb); err == nil {
				r.stdDiff["bits"]++
			}
		}
		s = cryptobyte.String(data)
		var bb []byte
		if exp("ReadASN1BitStringAsBytes", s.ReadASN1BitStringAsBytes(&bb), want(m.Bitsb)) && len(bb) != m.Any.Len-1 {
			r.viol("c23-value:bits", "ReadASN1BitStringAsBytes value differs from the model", det(nil))
		}
	}

	// OCTET STRING against encoding/asn1
	if tagIs(4) {
		var so []byte
		if _, err := encoding_asn1.Unmarshal(data, &so); err != nil {
			r.stdDiff["octet"]++
		} else if !bytes.Equal(so, data[m.Any.Hdr:m.Any.Hdr+m.Any.Len]) {
			r.viol("c23-stdlib-value:octet", "OCTET STRING value differs from encoding/asn1", det(nil))
		}
	}

	// UTCTime / GeneralizedTime
	if !m.Bigc || !anyOk {
		for _, k := range []string{"utc", "gen"} {
			mv, tagN, name := m.Utc, 23, "ReadASN1UTCTime"
			if k == "gen" {
				mv, tagN, name = m.Gen, 24, "ReadASN1GeneralizedTime"
			}
			s := cryptobyte.String(data)
			var tm time.Time
			var ok bool
			if k == "utc" {
				ok = s.ReadASN1UTCTime(&tm)
			} else {
				ok = s.ReadASN1GeneralizedTime(&tm)
			}
			var st time.Time
			_, serr := encoding_asn1.Unmarshal(data, &st)
			if exp(name, ok, want(mv.Ok)) {
				if !sameTime(tm, mv) {
					r.viol("c23-value:time", name+" value differs from the model", det(map[string]any{"got": tm.String()}))
				}
				if serr == nil && !st.Equal(tm) {
					r.viol("c23-stdlib-value:time", name+" value differs from encoding/asn1", det(map[string]any{"got": tm.String(), "stdlib": st.String()}))
				} else if serr != nil {
					r.stdDiff[k]++
				}
			} else if tagIs(tagN) && serr == nil && ok == want(mv.Ok) {
				r.stdDiff[k]++
			}
		}
	}

	// optional variants, probed with [0] (0xa0)
	present, opt := c.Present, c.Opt
	if c.Ok {
		present, opt = m.Present, m.Opt
	}
	{
		const ctx0 = asn1.Tag(0xa0)
		s := cryptobyte.String(data)
		var out cryptobyte.String
		var p bool
		if exp("ReadOptionalASN1", s.ReadOptionalASN1(&out, &p, ctx0), opt) && p != present {
			r.viol("c23-value:optional", "ReadOptionalASN1 presence differs from the model", det(nil))
		}
		if !present && len(s) != len(data) {
			r.viol("c23-value:optional", "ReadOptionalASN1 consumed input although the element is absent", det(nil))
		}
		s = cryptobyte.String(data)
		exp("SkipOptionalASN1", s.SkipOptionalASN1(ctx0), opt)
		oi, oo, ob := opt, opt, opt
		if c.Ok {
			oi, oo, ob = m.Optint.Ok, m.Optoct, m.Optbool.Ok
		}
		s = cryptobyte.String(data)
		bi := new(big.Int)
		if exp("ReadOptionalASN1Integer(*big.Int)", s.ReadOptionalASN1Integer(bi, ctx0, big.NewInt(42)), oi) {
			w := big.NewInt(42)
			if present {
				w = m.Optint.V.Int()
			}
			if bi.Cmp(w) != 0 {
				r.viol("c23-value:optional", "ReadOptionalASN1Integer value differs from the model", det(map[string]any{"got": bi.String(), "want": w.String()}))
			}
		}
		s = cryptobyte.String(data)
		var oct []byte
		var p2 bool
		if exp("ReadOptionalASN1OctetString", s.ReadOptionalASN1OctetString(&oct, &p2, ctx0), oo) && p2 != present {
			r.viol("c23-value:optional", "ReadOptionalASN1OctetString presence differs from the model", det(nil))
		}
		s = cryptobyte.String(data)
		bv := false
		got := s.ReadOptionalASN1Boolean(&bv, ctx0, true)
		if got != ob {
			if got && c.Ok && m.Optbool.Lenient {
				r.viol("optional-boolean-trailing-data-accepted", "ReadOptionalASN1Boolean accepts an explicit wrapper that holds more than the BOOLEAN (no child.Empty() check, unlike the Integer and OctetString variants)", det(nil))
			} else {
				r.viol("c23-accept:ReadOptionalASN1Boolean", fmt.Sprintf("ReadOptionalASN1Boolean accept=%v, DER model %v", got, ob), det(nil))
			}
		} else if got {
			w := true
			if present {
				w = m.Optbool.V
			}
			if bv != w {
				r.viol("c23-value:optional", "ReadOptionalASN1Boolean value differs from the model", det(nil))
			}
		}
	}

	// builders: the DER encoding of a boundary value
	if c.Ok && c.Src.K != "" && c.Src.K != "none" {
		wantEnc := ints2bytes(c.B)
		build := func(name string, f func(b *cryptobyte.Builder)) {
			var b cryptobyte.Builder
			f(&b)
			got, err := b.Bytes()
			if err != nil || !bytes.Equal(got, wantEnc) {
				r.viol("c23-builder:"+name, name+" does not emit the DER encoding evaluated by TLC", det(map[string]any{"got": fmt.Sprintf("%x", got), "err": fmt.Sprint(err), "want": fmt.Sprintf("%x", wantEnc)}))
			}
		}
		switch c.Src.K {
		case "int":
			v := c.Src.Big.Int()
			build("AddASN1BigInt", func(b *cryptobyte.Builder) { b.AddASN1BigInt(v) })
			if v.IsInt64() {
				build("AddASN1Int64", func(b *cryptobyte.Builder) { b.AddASN1Int64(v.Int64()) })
				build("AddASN1Int64WithTag", func(b *cryptobyte.Builder) { b.AddASN1Int64WithTag(v.Int64(), asn1.INTEGER) })
			}
			if v.IsUint64() {
				build("AddASN1Uint64", func(b *cryptobyte.Builder) { b.AddASN1Uint64(v.Uint64()) })
			}
			build("MarshalASN1", func(b *cryptobyte.Builder) { b.MarshalASN1(v) })
		case "enum":
			build("AddASN1Enum", func(b *cryptobyte.Builder) { b.AddASN1Enum(c.Src.Big.Int().Int64()) })
		case "bool":
			build("AddASN1Boolean", func(b *cryptobyte.Builder) { b.AddASN1Boolean(c.Src.Flag) })
		case "oid":
			build("AddASN1ObjectIdentifier", func(b *cryptobyte.Builder) { b.AddASN1ObjectIdentifier(encoding_asn1.ObjectIdentifier(c.Src.Arcs)) })
		case "octet":
			build("AddASN1OctetString", func(b *cryptobyte.Builder) { b.AddASN1OctetString(ints2bytes(c.Src.Bytes)) })
		case "bits":
			build("AddASN1BitString", func(b *cryptobyte.Builder) { b.AddASN1BitString(ints2bytes(c.Src.Bytes)) })
		case "utc":
			build("AddASN1UTCTime", func(b *cryptobyte.Builder) { b.AddASN1UTCTime(mkTime(c.Src.Tm)) })
		case "gen":
			build("AddASN1GeneralizedTime", func(b *cryptobyte.Builder) { b.AddASN1GeneralizedTime(mkTime(c.Src.Tm)) })
		case "null":
			build("AddASN1NULL", func(b *cryptobyte.Builder) { b.AddASN1NULL() })
		}
	}
}

func TestReplay(t *testing.T) {
	out := vutil.NewOut()
	defer func() {
		if err := out.Write(); err != nil {
			t.Fatal(err)
		}
	}()
	r := &runner{t: t, out: out, sigCount: map[string]int{}, stdDiff: map[string]int{}}
	accepted, values := 0, 0
	err := vutil.ReadNDJSON(vutil.Env("VERIF_CASES", ""), func(line []byte) error {
		var c tcase
		if err := json.Unmarshal(line, &c); err != nil {
			return err
		}
		key := fmt.Sprintf("%x+%d", ints2bytes(c.B), c.F)
		if c.Ok && c.Src.K != "none" && c.Src.K != "" {
			key += "|" + c.Src.K
			values++
		}
		out.Case(key)
		if c.Ok {
			accepted++
			if accepted%500 == 1 {
				out.Sample(map[string]any{"input": fmt.Sprintf("%x", ints2bytes(c.B)), "fill": c.F, "tag": c.R.Any.Tag, "len": c.R.Any.Len, "int": c.R.Int.Ok, "oid": c.R.Oid.Ok})
			}
		}
		func() {
			defer func() {
				if x := recover(); x != nil {
					r.viol("c23-panic", "a cryptobyte reader or builder panicked", map[string]any{"input": key, "panic": fmt.Sprint(x)})
				}
			}()
			r.check(&c, line)
		}()
		return nil
	})
	if err != nil {
		t.Fatal(err)
	}
	// documented builder errors (fixed probes)
	probe := func(name string, f func(b *cryptobyte.Builder)) {
		out.Case("builder-error|" + name)
		var b cryptobyte.Builder
		f(&b)
		if _, err := b.Bytes(); err == nil {
			r.viol("c23-builder-error:"+name, name+": documented error not reported", nil)
		}
	}
	probe("AddASN1 high tag", func(b *cryptobyte.Builder) { b.AddASN1(asn1.Tag(0x1f), func(*cryptobyte.Builder) {}) })
	probe("AddASN1UTCTime 2050", func(b *cryptobyte.Builder) { b.AddASN1UTCTime(time.Date(2050, 1, 1, 0, 0, 0, 0, time.UTC)) })
	probe("AddASN1UTCTime 1949", func(b *cryptobyte.Builder) { b.AddASN1UTCTime(time.Date(1949, 12, 31, 23, 59, 59, 0, time.UTC)) })
	probe("AddASN1GeneralizedTime 10000", func(b *cryptobyte.Builder) { b.AddASN1GeneralizedTime(time.Date(10000, 1, 1, 0, 0, 0, 0, time.UTC)) })
	for _, oid := range [][]int{{}, {1}, {3, 1}, {1, 40}, {0, 40}, {1, 2, -1}} {
		o := oid
		probe(fmt.Sprintf("AddASN1ObjectIdentifier %v", o), func(b *cryptobyte.Builder) { b.AddASN1ObjectIdentifier(encoding_asn1.ObjectIdentifier(o)) })
	}
	out.Extra["c23_inputs_with_der_tlv"] = accepted
	out.Extra["c23_boundary_values"] = values
	for k, n := range r.stdDiff {
		out.Extra["c23_info_accept_differs_from_encoding_asn1_"+k] = n
	}
	for k, n := range r.sigCount {
		out.Extra["c23_violations_"+k] = n
	}
}

// TestRandom: seeded random / mutated encodings into cryptobyte and encoding/asn1 (differential).
// Only value agreement where both accept, the TLV extent and panic-freedom are judged.
func TestRandom(t *testing.T) {
	out := vutil.NewOut()
	defer func() {
		if err := out.Write(); err != nil {
			t.Fatal(err)
		}
	}()
	r := &runner{t: t, out: out, sigCount: map[string]int{}, stdDiff: map[string]int{}}
	n, _ := strconv.Atoi(vutil.Env("VERIF_C23_RANDOM", "100000"))
	rnd := vutil.Rand(23)
	tags := []byte{1, 2, 3, 4, 5, 6, 10, 23, 24, 0x30, 0xa0}
	both := 0
	for i := 0; i < n; i++ {
		var data []byte
		tag := tags[rnd.Intn(len(tags))]
		ln := rnd.Intn(12)
		content := make([]byte, ln)
		rnd.Read(content)
		for j := range content {
			switch rnd.Intn(5) {
			case 0:
				content[j] = 0
			case 1:
				content[j] = 0xff
			case 2:
				content[j] = 0x80
			}
		}
		data = append([]byte{tag, byte(ln)}, content...)
		switch rnd.Intn(8) {
		case 0:
			data[1] = byte(rnd.Intn(256))
		case 1:
			data = append([]byte{tag, 0x81, byte(ln)}, content...)
		case 2:
			data = data[:rnd.Intn(len(data)+1)]
		case 3:
			data = append(data, byte(rnd.Intn(256)))
		}
		out.Case("")
		func() {
			defer func() {
				if x := recover(); x != nil {
					r.viol("c23-panic", "a reader panicked on a random input", map[string]any{"input": fmt.Sprintf("%x", data), "panic": fmt.Sprint(x)})
				}
			}()
			det := map[string]any{"input": fmt.Sprintf("%x", data)}
			s := cryptobyte.String(data)
			bi := new(big.Int)
			var sb *big.Int
			_, e1 := encoding_asn1.Unmarshal(data, &sb)
			if s.ReadASN1Integer(bi) && e1 == nil {
				both++
				if bi.Cmp(sb) != 0 {
					r.viol("c23-stdlib-value:int", "INTEGER value differs from encoding/asn1", det)
				}
			}
			s = cryptobyte.String(data)
			var oid, so encoding_asn1.ObjectIdentifier
			_, e2 := encoding_asn1.Unmarshal(data, &so)
			if s.ReadASN1ObjectIdentifier(&oid) && e2 == nil {
				both++
				if !oid.Equal(so) {
					r.viol("c23-stdlib-value:oid", "OID value differs from encoding/asn1", det)
				}
			}
			s = cryptobyte.String(data)
			var bs, sbs encoding_asn1.BitString
			_, e3 := encoding_asn1.Unmarshal(data, &sbs)
			if s.ReadASN1BitString(&bs) && e3 == nil {
				both++
				if bs.BitLength != sbs.BitLength || !bytes.Equal(bs.Bytes, sbs.Bytes) {
					r.viol("c23-stdlib-value:bits", "BIT STRING value differs from encoding/asn1", det)
				}
			}
			s = cryptobyte.String(data)
			var bv, sbv bool
			_, e4 := encoding_asn1.Unmarshal(data, &sbv)
			if s.ReadASN1Boolean(&bv) && e4 == nil {
				both++
				if bv != sbv {
					r.viol("c23-stdlib-value:bool", "BOOLEAN value differs from encoding/asn1", det)
				}
			}
			s = cryptobyte.String(data)
			var any cryptobyte.String
			var tg asn1.Tag
			var raw encoding_asn1.RawValue
			_, e5 := encoding_asn1.Unmarshal(data, &raw)
			if s.ReadAnyASN1(&any, &tg) && e5 == nil {
				both++
				if !bytes.Equal(any, raw.Bytes) {
					r.viol("c23-stdlib-value:tlv", "element content differs from encoding/asn1", det)
				}
			}
		}()
	}
	out.Extra["c23_random_inputs"] = n
	out.Extra["c23_random_both_accept"] = both
}
