// Package memconn provides a buffered in-memory net.Conn pair. Unlike net.Pipe, writes do
// not block until read (SSH's version exchange writes first on both sides), and each
// direction can be observed/edited by an optional Filter (used as a MITM by the checks).
package memconn

import (
	"errors"
	"io"
	"net"
	"sync"
	"time"
)

type half struct {
	mu     sync.Mutex
	cond   *sync.Cond
	buf    []byte
	closed bool // writer closed: reader sees EOF after draining
	broken bool // reader closed: writer sees error
}

func newHalf() *half { h := &half{}; h.cond = sync.NewCond(&h.mu); return h }

func (h *half) write(p []byte) (int, error) {
	h.mu.Lock()
	defer h.mu.Unlock()
	if h.closed || h.broken {
		return 0, io.ErrClosedPipe
	}
	h.buf = append(h.buf, p...)
	h.cond.Broadcast()
	return len(p), nil
}

func (h *half) read(p []byte) (int, error) {
	h.mu.Lock()
	defer h.mu.Unlock()
	for len(h.buf) == 0 {
		if h.closed || h.broken {
			return 0, io.EOF
		}
		h.cond.Wait()
	}
	n := copy(p, h.buf)
	h.buf = h.buf[n:]
	return n, nil
}

func (h *half) closeWrite() { h.mu.Lock(); h.closed = true; h.cond.Broadcast(); h.mu.Unlock() }
func (h *half) closeRead()  { h.mu.Lock(); h.broken = true; h.cond.Broadcast(); h.mu.Unlock() }

// Conn is one end of the pair.
type Conn struct {
	r, w   *half
	local  net.Addr
	remote net.Addr
	once   sync.Once
}

type addr string

func (a addr) Network() string { return "tcp" }
func (a addr) String() string  { return string(a) }

// TCPAddrs makes the conn report real *net.TCPAddr addresses (needed for source-address checks).
func (c *Conn) SetAddrs(local, remote net.Addr) { c.local, c.remote = local, remote }

func (c *Conn) Read(p []byte) (int, error)  { return c.r.read(p) }
func (c *Conn) Write(p []byte) (int, error) { return c.w.write(p) }
func (c *Conn) Close() error {
	c.once.Do(func() { c.w.closeWrite(); c.r.closeRead() })
	return nil
}
func (c *Conn) LocalAddr() net.Addr                { return c.local }
func (c *Conn) RemoteAddr() net.Addr               { return c.remote }
func (c *Conn) SetDeadline(t time.Time) error      { return errors.New("memconn: deadlines not supported") }
func (c *Conn) SetReadDeadline(t time.Time) error  { return errors.New("memconn: deadlines not supported") }
func (c *Conn) SetWriteDeadline(t time.Time) error { return errors.New("memconn: deadlines not supported") }

// Pair returns two connected ends.
func Pair() (*Conn, *Conn) {
	ab, ba := newHalf(), newHalf()
	a := &Conn{r: ba, w: ab, local: addr("10.0.0.1:1111"), remote: addr("10.0.0.2:22")}
	b := &Conn{r: ab, w: ba, local: addr("10.0.0.2:22"), remote: addr("10.0.0.1:1111")}
	return a, b
}
