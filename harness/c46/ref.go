// Package c46: conformance harness for property C46 (ASCII armor and cleartext signatures).
//
// ref.go is a plain Go transcription of the executable definitions in spec/Armor.tla and
// spec/ClearSign.tla (radix-64, CRC-24, block layout, the model of armor.Decode, the clearsign
// writer/decoder and the declarative canonical form).  It deliberately uses neither encoding/base64
// nor the packages under test.  Its authority derives from the TLA+ definitions: on every run it is
// first compared with the vectors TLC evaluated (TestArmorReplay / TestClearReplay do that for every
// TLC case) and only then used for bodies and texts TLC does not enumerate (bulk tests).
package c46

import "bytes"

// ---------------------------------------------------------------- radix-64 and CRC-24 (Armor.tla)

func refB64Char(v int) byte {
	switch {
	case v < 26:
		return byte(65 + v)
	case v < 52:
		return byte(71 + v)
	case v < 62:
		return byte(v - 4)
	case v == 62:
		return 43
	}
	return 47
}

func refB64Val(c byte) int {
	switch {
	case c >= 65 && c <= 90:
		return int(c) - 65
	case c >= 97 && c <= 122:
		return int(c) - 71
	case c >= 48 && c <= 57:
		return int(c) + 4
	case c == 43:
		return 62
	case c == 47:
		return 63
	}
	return -1
}

func refB64Encode(s []byte) []byte {
	var o []byte
	n := len(s)
	for i := 0; i+3 <= n; i += 3 {
		a, b, c := int(s[i]), int(s[i+1]), int(s[i+2])
		o = append(o, refB64Char(a/4), refB64Char((a%4)*16+b/16), refB64Char((b%16)*4+c/64), refB64Char(c%64))
	}
	switch n % 3 {
	case 1:
		a := int(s[n-1])
		o = append(o, refB64Char(a/4), refB64Char((a%4)*16), '=', '=')
	case 2:
		a, b := int(s[n-2]), int(s[n-1])
		o = append(o, refB64Char(a/4), refB64Char((a%4)*16+b/16), refB64Char((b%16)*4), '=')
	}
	return o
}

const (
	refCrcInit = 11994318 // 0xB704CE
	refCrcPoly = 25578747 // 0x1864CFB
)

func refCrc24(s []byte) uint32 {
	c := uint32(refCrcInit)
	for _, b := range s {
		c ^= uint32(b) * 65536
		for i := 0; i < 8; i++ {
			c *= 2
			if c >= 16777216 {
				c ^= refCrcPoly
			}
		}
	}
	return c % 16777216
}

func refCrcLine(c uint32) []byte {
	return append([]byte{'='}, refB64Encode([]byte{byte(c / 65536), byte(c / 256 % 256), byte(c % 256)})...)
}

// ---------------------------------------------------------------- block layout (Armor.tla Encode)

type refHdr struct{ K, V string }

func refProlog(typ string, hdrs []refHdr) []byte {
	var o []byte
	o = append(o, "-----BEGIN "...)
	o = append(o, typ...)
	o = append(o, "-----\n"...)
	for _, h := range hdrs {
		o = append(o, h.K...)
		o = append(o, ": "...)
		o = append(o, h.V...)
		o = append(o, '\n')
	}
	return append(o, '\n')
}

func refBodyText(body []byte) []byte {
	e := refB64Encode(body)
	var o []byte
	for i := 0; i < len(e); i += 64 {
		j := i + 64
		if j > len(e) {
			j = len(e)
		}
		if i > 0 {
			o = append(o, '\n')
		}
		o = append(o, e[i:j]...)
	}
	return o
}

// refEncodeWith: withCrc=false leaves the CRC line out.
func refEncodeWith(typ string, hdrs []refHdr, body []byte, crc uint32, withCrc bool) []byte {
	o := refProlog(typ, hdrs)
	o = append(o, refBodyText(body)...)
	if withCrc {
		o = append(o, '\n')
		o = append(o, refCrcLine(crc)...)
	}
	o = append(o, "\n-----END "...)
	o = append(o, typ...)
	o = append(o, "-----"...)
	return o
}

func refEncode(typ string, hdrs []refHdr, body []byte) []byte {
	return refEncodeWith(typ, hdrs, body, refCrc24(body), true)
}

// ---------------------------------------------------------------- model of armor.Decode + ReadAll(Body)

type refRes struct {
	Ok         bool
	Why        string
	Typ        string
	Hdr        map[string]string
	Body       []byte
	CrcChecked bool
	AfterPad   bool
}

const (
	refMaxBodyLine = 96
	refReadBuf     = 100
)

func refReadLines(t []byte) [][]byte {
	var ls [][]byte
	start := 0
	for i := 0; i < len(t); i++ {
		if t[i] == '\n' {
			e := i
			if i-1 >= start && t[i-1] == '\r' {
				e = i - 1
			}
			ls = append(ls, t[start:e])
			start = i + 1
		}
	}
	if start < len(t) {
		ls = append(ls, t[start:])
	}
	return ls
}

func refIsSpace(c byte) bool { return c == 9 || c == 10 || c == 11 || c == 12 || c == 13 || c == 32 }

func refTrim(s []byte) []byte {
	for len(s) > 0 && refIsSpace(s[0]) {
		s = s[1:]
	}
	for len(s) > 0 && refIsSpace(s[len(s)-1]) {
		s = s[:len(s)-1]
	}
	return s
}

func refIdxColonSp(s []byte) int {
	for i := 0; i+1 < len(s); i++ {
		if s[i] == ':' && s[i+1] == ' ' {
			return i
		}
	}
	return -1
}

type refB64 struct {
	Ok       bool
	Bytes    []byte
	AfterPad bool
}

// refB64Stream: quanta of 4 over s (CR/LF already removed); lenient about data after a padded quantum
// (flag AfterPad), exactly as B64Stream in Armor.tla.
func refB64Stream(s []byte) refB64 {
	var acc []byte
	pad := false
	after := false
	i := 0
	for {
		n := len(s) - i
		if n == 0 {
			return refB64{true, acc, after}
		}
		if pad {
			after = true
		}
		if n < 4 {
			return refB64{false, acc, after}
		}
		a, b, c, d := s[i], s[i+1], s[i+2], s[i+3]
		va, vb, vc, vd := refB64Val(a), refB64Val(b), refB64Val(c), refB64Val(d)
		switch {
		case va < 0 || vb < 0:
			return refB64{false, acc, after}
		case c == '=':
			if d != '=' {
				return refB64{false, acc, after}
			}
			acc = append(acc, byte(va*4+vb/16))
			pad = true
		case vc < 0:
			return refB64{false, acc, after}
		case d == '=':
			acc = append(acc, byte(va*4+vb/16), byte((vb%16)*16+vc/4))
			pad = true
		case vd < 0:
			return refB64{false, acc, after}
		default:
			acc = append(acc, byte(va*4+vb/16), byte((vb%16)*16+vc/4), byte((vc%4)*64+vd))
		}
		i += 4
	}
}

func refNoCRLF(s []byte) []byte {
	var o []byte
	for _, c := range s {
		if c != '\r' && c != '\n' {
			o = append(o, c)
		}
	}
	return o
}

func refFail(why string) refRes { return refRes{Why: why, Hdr: map[string]string{}} }

func refReadBody(ls [][]byte, j int, typ string, hdr map[string]string) refRes {
	var chars []byte
	term := ""
	crc := uint32(0)
	for term == "" {
		if j >= len(ls) {
			term = "eof"
			break
		}
		line := ls[j]
		switch {
		case len(line) >= refReadBuf:
			term = "corrupt"
		case bytes.HasPrefix(line, []byte("-----END ")):
			term = "end"
		case len(line) == 5 && line[0] == '=':
			d := refB64Stream(refNoCRLF(line[1:5]))
			if !d.Ok || d.AfterPad {
				term = "corrupt"
			} else if len(d.Bytes) != 3 {
				term = "corrupt" // a padded checksum is not a CRC-24 (repaired code, /repo 5d307c4; before, the line was skipped)
			} else if j+1 < len(ls) && bytes.HasPrefix(ls[j+1], []byte("-----END ")) {
				term = "crc"
				crc = uint32(d.Bytes[0])*65536 + uint32(d.Bytes[1])*256 + uint32(d.Bytes[2])
			} else {
				term = "corrupt"
			}
		case len(line) > refMaxBodyLine:
			term = "corrupt"
		default:
			chars = append(chars, line...)
			j++
		}
	}
	if term == "corrupt" {
		return refFail("armor-corrupt")
	}
	dec := refB64Stream(refNoCRLF(chars))
	if !dec.Ok {
		r := refFail("base64")
		r.AfterPad = dec.AfterPad
		return r
	}
	if term == "crc" && crc != refCrc24(dec.Bytes) {
		r := refFail("crc")
		r.AfterPad = dec.AfterPad
		return r
	}
	return refRes{Ok: true, Why: term, Typ: typ, Hdr: hdr, Body: dec.Bytes, CrcChecked: term == "crc", AfterPad: dec.AfterPad}
}

func refDecode(t []byte) refRes {
	ls := refReadLines(t)
	j := 0
find:
	for {
		if j >= len(ls) {
			return refFail("no-block")
		}
		if len(ls[j]) >= refReadBuf {
			j++
			continue
		}
		line := refTrim(ls[j])
		j++
		if !(len(line) > 16 && bytes.HasPrefix(line, []byte("-----BEGIN "))) {
			continue
		}
		typ := string(line[11 : len(line)-5])
		hdr := map[string]string{}
		for {
			if j >= len(ls) {
				return refFail("eof-in-headers")
			}
			if len(ls[j]) >= refReadBuf {
				return refFail("long-line-not-modelled")
			}
			h := refTrim(ls[j])
			j++
			if len(h) == 0 {
				return refReadBody(ls, j, typ, hdr)
			}
			i := refIdxColonSp(h)
			if i < 0 {
				if h[len(h)-1] == ':' { // "Key: " written for an empty value, trimmed (repaired code, /repo 91fc6da)
					hdr[string(h[:len(h)-1])] = ""
					continue
				}
				continue find
			}
			hdr[string(h[:i])] = string(h[i+2:])
		}
	}
}

// refHeaderClass mirrors HeaderClass in Armor.tla.
func refHeaderClass(k, v string) string {
	switch {
	case refIdxColonSp([]byte(k)) >= 0:
		return "key-contains-colon-space"
	case len(k) > 0 && refIsSpace(k[0]):
		return "key-leading-space"
	case len(v) == 0:
		return "safe" // was the class "empty-value" before /repo 91fc6da
	case refIsSpace(v[len(v)-1]):
		return "value-trailing-space"
	}
	return "safe"
}

// ---------------------------------------------------------------- ClearSign.tla

type refClear struct {
	Out    []byte // dash-escaped text between the header block and the signature
	Signed []byte // bytes hashed by the signer
	DecOk  bool
	Plain  []byte // Block.Plaintext
	Bytes  []byte // Block.Bytes
}

func refIsWS(b byte) bool { return b == ' ' || b == '\t' || b == '\r' }

// refClearsign runs the writer state machine of ClearSign.tla over txt, closes it and decodes.
func refClearsign(txt []byte) refClear {
	bol, first := true, true
	var ws, out, hashed []byte
	for _, b := range txt {
		if bol {
			if !first {
				hashed = append(hashed, '\r', '\n')
			}
			first = false
		}
		switch {
		case refIsWS(b):
			ws = append(ws, b)
			bol = false
		case bol && b == '-':
			out = append(out, '-', ' ', '-')
			hashed = append(hashed, b)
			bol = false
		case bol && b == '\n':
			out = append(out, '\n')
		case bol:
			out = append(out, b)
			hashed = append(hashed, b)
			bol = false
		case b == '\n':
			ws = ws[:0]
			out = append(out, '\n')
			bol = true
		default:
			out = append(out, ws...)
			hashed = append(hashed, ws...)
			ws = ws[:0]
			out = append(out, b)
			hashed = append(hashed, b)
		}
	}
	if !bol {
		out = append(out, '\n')
	}
	r := refClear{Out: out, Signed: hashed}
	r.DecOk, r.Bytes, r.Plain = refClearDecodeBody(append(append([]byte{}, out...), "-----BEGIN PGP SIGNATURE-----\nX\n"...))
	return r
}

func refGetLine(d []byte) (line, rest []byte) {
	i := bytes.IndexByte(d, '\n')
	if i < 0 {
		return d, nil
	}
	j := i + 1
	if i > 0 && d[i-1] == '\r' {
		i--
	}
	return d[:i], d[j:]
}

func refClearDecodeBody(rest []byte) (ok bool, bs, plain []byte) {
	firstLine := true
	for {
		var line []byte
		line, rest = refGetLine(rest)
		if len(line) == 0 && len(rest) == 0 {
			return false, bs, plain
		}
		if string(line) == "-----BEGIN PGP SIGNATURE-----" {
			return true, bs, plain
		}
		if !firstLine {
			bs = append(bs, '\r', '\n')
		}
		firstLine = false
		if len(line) >= 2 && line[0] == '-' && line[1] == ' ' {
			line = line[2:]
		}
		for len(line) > 0 && (line[len(line)-1] == ' ' || line[len(line)-1] == '\t') {
			line = line[:len(line)-1]
		}
		bs = append(bs, line...)
		plain = append(plain, line...)
		plain = append(plain, '\n')
	}
}

// refCanon is the declarative canonical form (CanonPlain / CanonSigned of ClearSign.tla).
func refCanon(txt []byte) (plain, signed []byte) {
	var lines [][]byte
	start := 0
	for i := 0; i < len(txt); i++ {
		if txt[i] == '\n' {
			lines = append(lines, txt[start:i])
			start = i + 1
		}
	}
	if start < len(txt) {
		lines = append(lines, txt[start:])
	}
	for i, l := range lines {
		for len(l) > 0 && refIsWS(l[len(l)-1]) {
			l = l[:len(l)-1]
		}
		plain = append(plain, l...)
		plain = append(plain, '\n')
		if i > 0 {
			signed = append(signed, '\r', '\n')
		}
		signed = append(signed, l...)
	}
	return
}
