// Binding E+R for C46.  TLC evaluates spec/Armor.tla and spec/ClearSign.tla and emits cases with the
// model's predictions; this harness (1) checks the Go transcription ref.go against every TLC case,
// (2) drives the REAL armor.Encode/Decode and clearsign.Encode/Decode (+ openpgp.CheckDetachedSignature,
// + gpg --verify as amplifier) and compares with the predictions at the level of the property.
package c46

import (
	"bytes"
	"crypto"
	"encoding/json"
	"fmt"
	"io"
	"math/rand"
	"os"
	"path/filepath"
	"reflect"
	"strconv"
	"strings"
	"sync"
	"testing"

	"golang.org/x/crypto/openpgp"
	"golang.org/x/crypto/openpgp/armor"
	"golang.org/x/crypto/openpgp/clearsign"
	"golang.org/x/crypto/openpgp/packet"
	"verif/harness/pgpkit"
	"verif/harness/vutil"
)

// bs decodes a JSON array of small integers (TLC's rendering of a byte sequence).
type bs []byte

func (b *bs) UnmarshalJSON(d []byte) error {
	var v []int
	if err := json.Unmarshal(d, &v); err != nil {
		return err
	}
	o := make([]byte, len(v))
	for i, x := range v {
		o[i] = byte(x)
	}
	*b = o
	return nil
}
func (b bs) MarshalJSON() ([]byte, error) { return json.Marshal(string(b)) }

type acase struct {
	K          string   `json:"k"`
	ID         []any    `json:"id"`
	D          int      `json:"d"`
	Typ        bs       `json:"typ"`
	Hdrs       [][]bs   `json:"hdrs"`
	Body       bs       `json:"body"`
	Text       bs       `json:"text"`
	Lo         int      `json:"lo"`
	Hi         int      `json:"hi"`
	Crc        uint32   `json:"crc"`
	Safe       []string `json:"safe"`
	Ok         bool     `json:"ok"`
	Rtyp       bs       `json:"rtyp"`
	Rhdr       [][]bs   `json:"rhdr"`
	Rbody      bs       `json:"rbody"`
	CrcChecked bool     `json:"crcChecked"`
	Flips      [][]int  `json:"flips"` // [pos, bit, ok, afterPad] (0-based pos into the text)
}

func (c *acase) hdrList() []refHdr {
	var l []refHdr
	for _, h := range c.Hdrs {
		l = append(l, refHdr{string(h[0]), string(h[1])})
	}
	return l
}
func hdrMap(l []refHdr) map[string]string {
	m := map[string]string{}
	for _, h := range l {
		m[h.K] = h.V
	}
	return m
}

type realRes struct {
	Ok   bool
	Typ  string
	Hdr  map[string]string
	Body []byte
	Err  string
}

// realDecode = armor.Decode + io.ReadAll(Body); a panic is reported as such.
func realDecode(text []byte) (r realRes, panicked any) {
	defer func() {
		if p := recover(); p != nil {
			panicked = p
		}
	}()
	blk, err := armor.Decode(bytes.NewReader(text))
	if err != nil || blk == nil {
		return realRes{Err: fmt.Sprint(err)}, nil
	}
	body, err := io.ReadAll(blk.Body)
	if err != nil {
		return realRes{Err: err.Error()}, nil
	}
	return realRes{Ok: true, Typ: blk.Type, Hdr: blk.Header, Body: body}, nil
}

// realEncode = armor.Encode + Write (cut into seeded chunks) + Close.
func realEncode(typ string, hdr map[string]string, body []byte, rng *rand.Rand) ([]byte, error) {
	var buf bytes.Buffer
	w, err := armor.Encode(&buf, typ, hdr)
	if err != nil {
		return nil, err
	}
	for rest := body; len(rest) > 0; {
		n := 1 + rng.Intn(len(rest))
		if rng.Intn(3) == 0 {
			n = 1 + rng.Intn(1+min(len(rest)-1, 70))
		}
		if _, err := w.Write(rest[:n]); err != nil {
			return nil, err
		}
		rest = rest[n:]
	}
	if err := w.Close(); err != nil {
		return nil, err
	}
	return buf.Bytes(), nil
}

func sameHdr(a, b map[string]string) bool {
	if len(a) != len(b) {
		return false
	}
	for k, v := range a {
		if w, ok := b[k]; !ok || w != v {
			return false
		}
	}
	return true
}

// region of the real output the property's corruption clause speaks about: first body character ..
// last character of the CRC line.  ok=false if the output does not have the expected coarse structure.
func realRegion(text []byte) (lo, hi int, crcLine []byte, ok bool) {
	i := bytes.Index(text, []byte("\n\n"))
	j := bytes.LastIndex(text, []byte("\n-----END "))
	if i < 0 || j < 0 || j < i+1 {
		return 0, 0, nil, false
	}
	lo = i + 2
	k := bytes.LastIndexByte(text[:j], '\n')
	if k < 0 || k+1 >= j || text[k+1] != '=' {
		return 0, 0, nil, false
	}
	return lo, j - 1, text[k+1 : j], true
}

type judge struct {
	out  *vutil.Out
	t    *testing.T
	mu   sync.Mutex
	n    map[string]int
	sigs map[string]int
}

func newJudge(t *testing.T, out *vutil.Out) *judge {
	return &judge{out: out, t: t, n: map[string]int{}, sigs: map[string]int{}}
}

var maxPerSig, _ = strconv.Atoi(vutil.Env("VERIF_C46_MAXVIOL", "3"))

// viol records a violation exhibited by the real code; at most 3 per signature are kept in the result.
func (j *judge) viol(sig, what string, detail any) {
	j.mu.Lock()
	defer j.mu.Unlock()
	j.sigs[sig]++
	if j.sigs[sig] <= maxPerSig {
		j.out.Violation(sig, what, detail)
		j.t.Errorf("%s: %s", sig, what)
	}
}
func (j *judge) count(k string) {
	j.mu.Lock()
	j.n[k]++
	j.mu.Unlock()
}
func (j *judge) kase(key string) {
	j.mu.Lock()
	j.out.Case(key)
	j.mu.Unlock()
}
func (j *judge) sample(v any) {
	j.mu.Lock()
	if len(j.out.Samples) < 5 {
		j.out.Sample(v)
	}
	j.mu.Unlock()
}
func (j *judge) get(k string) int {
	j.mu.Lock()
	defer j.mu.Unlock()
	return j.n[k]
}
func (j *judge) sampleN(class string, max int, v any) {
	j.mu.Lock()
	if j.n["samples_"+class] < max {
		j.n["samples_"+class]++
		j.out.Samples = append(j.out.Samples, v)
	}
	j.mu.Unlock()
}
func (j *judge) extra(k string, v any) {
	j.mu.Lock()
	j.out.Extra[k] = v
	j.mu.Unlock()
}
func (j *judge) flush() {
	for k, v := range j.n {
		if !strings.HasPrefix(k, "samples_") {
			j.out.Extra["c46_"+k] = v
		}
	}
	for k, v := range j.sigs {
		j.out.Extra["c46_violations_"+k] = v
	}
}

// judgeDamaged: the real decoder was given a damaged block.  Property level: it may only be accepted if the
// decoded body is the original one and the CRC line is the original one (then CRC and body still match).
func (j *judge) judgeDamaged(what string, damaged, body []byte, crcTouched bool, detail map[string]any) (accepted bool) {
	r, p := realDecode(damaged)
	if p != nil {
		detail["panic"] = fmt.Sprint(p)
		j.viol("armor-decode-panic", "armor.Decode/Read panicked on a damaged block ("+what+")", detail)
		return false
	}
	if !r.Ok {
		return false
	}
	if !bytes.Equal(r.Body, body) || crcTouched {
		detail["decodedBody"] = fmt.Sprintf("%x", r.Body)
		detail["text"] = string(damaged)
		sig := "armor-damaged-accepted:" + what
		if bytes.Equal(r.Body, body) && shortCrcLine(damaged) {
			// the checksum line decodes to fewer than 3 bytes and is silently skipped (ShortCrcLine in Armor.tla)
			sig = "armor-damaged-accepted:short-crc-line-skipped"
		}
		j.viol(sig, "a block whose body/CRC was damaged ("+what+") is accepted although CRC-24 and body do not match", detail)
	}
	return true
}

// shortCrcLine: some line "=xxxx" decodes cleanly to fewer than 3 bytes.
func shortCrcLine(t []byte) bool {
	for _, l := range refReadLines(t) {
		if len(l) == 5 && l[0] == '=' {
			if d := refB64Stream(refNoCRLF(l[1:5])); d.Ok && !d.AfterPad && len(d.Bytes) < 3 {
				return true
			}
		}
	}
	return false
}

func armorReplay(t *testing.T, jd *judge, casesPath string) {
	out := jd.out
	_ = out
	rng := vutil.Rand(46)
	refBad := 0
	err := vutil.ReadNDJSON(casesPath, func(line []byte) error {
		var c acase
		if err := json.Unmarshal(line, &c); err != nil {
			return err
		}
		typ, hdrs, body := string(c.Typ), c.hdrList(), []byte(c.Body)
		id := fmt.Sprint(c.ID, c.K, c.D, hdrs, len(body))
		want := realRes{Ok: c.Ok, Typ: string(c.Rtyp), Hdr: map[string]string{}, Body: c.Rbody}
		for _, kv := range c.Rhdr {
			want.Hdr[string(kv[0])] = string(kv[1])
		}
		// (1) the transcription must reproduce TLC's evaluation (otherwise its bulk verdicts mean nothing)
		rr := refDecode(c.Text)
		if rr.Ok != c.Ok || (c.Ok && (rr.Typ != want.Typ || !sameHdr(rr.Hdr, want.Hdr) || !bytes.Equal(rr.Body, want.Body) || rr.CrcChecked != c.CrcChecked)) ||
			refCrc24(body) != c.Crc || (c.K == "none" && !bytes.Equal(refEncode(typ, hdrs, body), c.Text)) {
			refBad++
			t.Errorf("INFRA: Go transcription disagrees with TLC on case %s", id)
			return nil
		}
		if c.K != "none" {
			// model-made blocks with a well-formed but different CRC line / without CRC line, fed to the real decoder
			jd.kase(id)
			switch c.K {
			case "wrongcrc":
				jd.judgeDamaged("crc-line-replaced", c.Text, body, true, map[string]any{"id": c.ID, "delta": c.D})
			case "dropcrc":
				r, _ := realDecode(c.Text)
				if r.Ok && bytes.Equal(r.Body, body) {
					jd.count("no_crc_line_accepted")
				} else {
					jd.count("no_crc_line_rejected")
				}
			}
			return nil
		}
		// (2) the real encoder, then the real decoder
		real, err := realEncode(typ, hdrMap(hdrs), body, rng)
		if err != nil {
			jd.viol("armor-encode-error", "armor.Encode failed: "+err.Error(), map[string]any{"id": c.ID})
			return nil
		}
		sameText := bytes.Equal(real, c.Text)
		if !sameText && len(hdrs) == 2 { // the other iteration order of the Go map
			sameText = bytes.Equal(real, refEncode(typ, []refHdr{hdrs[1], hdrs[0]}, body))
		}
		if !sameText {
			jd.count("encoding_differs_from_model")
			if jd.get("encoding_differs_from_model") <= 3 {
				jd.extra(fmt.Sprintf("c46_encoding_diff_%d", jd.get("encoding_differs_from_model")), map[string]string{"real": string(real), "model": string(c.Text)})
			}
		}
		allSafe := true
		class := "safe"
		for _, s := range c.Safe {
			if s != "safe" {
				allSafe = false
				class = s
			}
		}
		keys := map[string]bool{}
		for _, h := range hdrs {
			keys[h.K] = true
		}
		distinct := len(keys) == len(hdrs)
		key := id
		if allSafe && len(hdrs) > 0 {
			key = "" // representable header maps beyond the first are not counted as distinct non-trivial cases
		}
		jd.kase(key)
		got, p := realDecode(real)
		if p != nil {
			jd.viol("armor-decode-panic", "armor.Decode/Read panicked on Encode output", map[string]any{"id": c.ID, "panic": fmt.Sprint(p)})
			return nil
		}
		rt := got.Ok && got.Typ == typ && sameHdr(got.Hdr, hdrMap(hdrs)) && bytes.Equal(got.Body, body)
		det := map[string]any{"id": c.ID, "type": typ, "headers": hdrs, "bodyLen": len(body), "encoded": string(real), "decoded": got, "modelPredictsRoundTrip": c.Ok && reflect.DeepEqual(want.Hdr, hdrMap(hdrs))}
		switch {
		case rt && (allSafe && distinct):
		case rt:
			jd.count("model_pessimistic") // the model says this header map does not survive, the code returned it intact
		case allSafe && distinct:
			sig := "armor-roundtrip"
			for _, h := range hdrs {
				if h.V == "" { // regression of /repo 91fc6da keeps the signature of finding C46-H1
					sig = "armor-header-roundtrip:empty-value"
				}
			}
			jd.viol(sig, "armor.Encode then armor.Decode does not return the same type, headers and body", det)
		case !distinct:
			// two headers whose keys collide after parsing: order dependent, not judged
		default:
			// the model (a transcription of the code) predicts the loss; the property quantifies over every header map
			jd.viol("armor-header-roundtrip:"+class, "armor.Encode then armor.Decode does not return the header map it was given ("+class+")", det)
		}
		// the real decoder on the model's text, the model's decoder on the real text (cross binding, informational unless the property is hit)
		if !sameText {
			if m, _ := realDecode(c.Text); m.Ok != c.Ok {
				jd.count("real_decoder_differs_on_model_text")
			}
			if m := refDecode(real); !(m.Ok && bytes.Equal(m.Body, body)) {
				jd.count("model_decoder_rejects_real_text")
			}
		}
		// (3) CRC-24 value on the wire: if the real encoder's CRC line is not CRC-24(body) and the real decoder accepts it,
		// a body whose CRC-24 does not match is accepted.
		lo, hi, crcLine, ok := realRegion(real)
		if !ok {
			jd.count("real_output_unstructured")
			return nil
		}
		if !bytes.Equal(crcLine, refCrcLine(c.Crc)) && got.Ok {
			jd.viol("armor-crc-value", "the checksum line written by Encode is not the CRC-24 (RFC 4880 6.1) of the body, and Decode accepts it",
				map[string]any{"id": c.ID, "crcLine": string(crcLine), "want": string(refCrcLine(c.Crc))})
		}
		if !allSafe {
			return nil
		}
		// (4) damage on the REAL output: CRC line replaced by other well-formed values; every modelled bit flip
		for _, d := range []uint32{1, 8388608, 11994318} {
			dm := append(append(append([]byte{}, real[:hi-4]...), refCrcLine((c.Crc+d)%16777216)...), real[hi+1:]...)
			jd.judgeDamaged("crc-line-replaced", dm, body, true, map[string]any{"id": c.ID, "delta": d})
			jd.count("crc_replaced")
		}
		for _, f := range c.Flips {
			pos, bit, mok, mAfter := f[0], f[1], f[2] == 1, f[3] == 1
			if !sameText {
				// positions are the model's; on a differently laid out text fall back to the same relative position
				pos = lo + (pos-c.Lo)%(hi-lo+1)
			}
			dm := append([]byte{}, real...)
			dm[pos] ^= 1 << uint(bit)
			acc := jd.judgeDamaged("bit-flip", dm, body, pos >= hi-4, map[string]any{"id": c.ID, "pos": pos, "bit": bit})
			jd.kase(fmt.Sprint(id, "flip", pos, bit))
			switch {
			case mAfter:
				jd.count("flips_after_padding_unjudged")
			case acc && !mok && sameText:
				jd.viol("armor-flip-accepted-model-rejects", "a single-bit corruption the model rejects is accepted", map[string]any{"id": c.ID, "pos": pos, "bit": bit, "text": string(dm)})
			case !acc && mok:
				jd.count("flips_real_stricter_than_model")
			}
			if acc {
				jd.count("flips_accepted_body_intact")
			} else {
				jd.count("flips_rejected")
			}
		}
		if len(c.Flips) > 0 || len(hdrs) == 2 {
			jd.sampleN("armor", 2, map[string]any{"id": c.ID, "text": string(real), "flips": len(c.Flips)})
		}
		return nil
	})
	if err != nil {
		t.Fatal(err)
	}
	if refBad > 0 {
		jd.extra("c46_ref_mismatch", refBad)
	}
}

// safeStr: a header key/value over letters, spaces and colons that the model classifies as representable.
func safePair(rng *rand.Rand) (string, string) {
	al := []byte("aZ9 :-")
	for {
		k := make([]byte, rng.Intn(12))
		for i := range k {
			k[i] = al[rng.Intn(len(al))]
		}
		v := make([]byte, 1+rng.Intn(40))
		for i := range v {
			v[i] = al[rng.Intn(len(al))]
		}
		if refHeaderClass(string(k), string(v)) == "safe" {
			return string(k), string(v)
		}
	}
}

// TestArmorBulk: bodies up to 10 kB (seeded), representable header maps, via the transcription validated above.
func armorBulk(t *testing.T, jd *judge) {
	out := jd.out
	_ = out
	rng := vutil.Rand(4601)
	n, _ := strconv.Atoi(vutil.Env("VERIF_C46_BULK", "200"))
	nflip, _ := strconv.Atoi(vutil.Env("VERIF_C46_BULKFLIPS", "64"))
	types := []string{"PGP SIGNATURE", "PGP MESSAGE", "PGP PUBLIC KEY BLOCK", "X", "A B", "PGP MESSAGE, PART 1/3"}
	for it := 0; it < n; it++ {
		var ln int
		switch rng.Intn(4) {
		case 0:
			ln = 48*rng.Intn(214) + rng.Intn(3) - 1 // around multiples of a full line
		case 1:
			ln = rng.Intn(200)
		default:
			ln = rng.Intn(10241)
		}
		if ln < 0 {
			ln = 0
		}
		if ln > 10240 {
			ln = 10240
		}
		body := make([]byte, ln)
		rng.Read(body)
		typ := types[rng.Intn(len(types))]
		var hdrs []refHdr
		seen := map[string]bool{}
		for i := rng.Intn(4); i > 0; i-- {
			k, v := safePair(rng)
			if !seen[k] {
				seen[k] = true
				hdrs = append(hdrs, refHdr{k, v})
			}
		}
		jd.kase(fmt.Sprint("bulk", it, ln, len(hdrs)))
		real, err := realEncode(typ, hdrMap(hdrs), body, rng)
		if err != nil {
			jd.viol("armor-encode-error", "armor.Encode failed: "+err.Error(), nil)
			continue
		}
		det := map[string]any{"type": typ, "headers": hdrs, "body": fmt.Sprintf("%x", body)}
		got, p := realDecode(real)
		if p != nil {
			jd.viol("armor-decode-panic", "armor.Decode/Read panicked on Encode output", det)
			continue
		}
		if !(got.Ok && got.Typ == typ && sameHdr(got.Hdr, hdrMap(hdrs)) && bytes.Equal(got.Body, body)) {
			det["decoded"] = got
			jd.viol("armor-roundtrip", "armor.Encode then armor.Decode does not return the same type, headers and body", det)
			continue
		}
		if len(hdrs) <= 1 && !bytes.Equal(real, refEncode(typ, hdrs, body)) {
			jd.count("encoding_differs_from_model")
		}
		if m := refDecode(real); !(m.Ok && m.Typ == typ && sameHdr(m.Hdr, hdrMap(hdrs)) && bytes.Equal(m.Body, body) && m.CrcChecked) {
			jd.count("model_decoder_rejects_real_text")
		}
		lo, hi, crcLine, ok := realRegion(real)
		if !ok {
			jd.count("real_output_unstructured")
			continue
		}
		if !bytes.Equal(crcLine, refCrcLine(refCrc24(body))) {
			jd.viol("armor-crc-value", "the checksum line written by Encode is not the CRC-24 (RFC 4880 6.1) of the body, and Decode accepts it",
				map[string]any{"crcLine": string(crcLine), "want": string(refCrcLine(refCrc24(body))), "body": fmt.Sprintf("%x", body)})
		}
		dm := append(append(append([]byte{}, real[:hi-4]...), refCrcLine(uint32(rng.Intn(1<<24)))...), real[hi+1:]...)
		if !bytes.Equal(dm, real) {
			jd.judgeDamaged("crc-line-replaced", dm, body, true, det)
		}
		for f := 0; f < nflip; f++ {
			pos := lo + rng.Intn(hi-lo+1)
			if f%4 == 0 { // favour the end of the body and the CRC line
				pos = hi - rng.Intn(min(12, hi-lo+1))
			}
			bit := rng.Intn(8)
			d2 := append([]byte{}, real...)
			d2[pos] ^= 1 << uint(bit)
			m := refDecode(d2)
			acc := jd.judgeDamaged("bit-flip", d2, body, pos >= hi-4, map[string]any{"pos": pos, "bit": bit, "bodyLen": ln})
			jd.kase("")
			if acc && !m.Ok && !m.AfterPad {
				jd.viol("armor-flip-accepted-model-rejects", "a single-bit corruption the model rejects is accepted", map[string]any{"pos": pos, "bit": bit, "text": string(d2)})
			}
			if acc {
				jd.count("flips_accepted_body_intact")
			} else {
				jd.count("flips_rejected")
			}
		}
	}
}

// ---------------------------------------------------------------------------------------------- clearsign

type ccase struct {
	Txt    bs `json:"txt"`
	Out    bs `json:"out"`
	Signed bs `json:"signed"`
	Plain  bs `json:"plain"`
	Bytes  bs `json:"bytes"`
}

type signer struct {
	kind string
	e    *openpgp.Entity
}

var hashes = []crypto.Hash{crypto.SHA256, crypto.SHA512, crypto.SHA384, crypto.SHA224, crypto.SHA1}
var chunkers = pgpkit.Chunkers(vutil.Seed())
var gpgHashes = []crypto.Hash{crypto.SHA256, crypto.SHA512, crypto.SHA384}
var hashNames = map[crypto.Hash]string{crypto.SHA256: "SHA256", crypto.SHA512: "SHA512", crypto.SHA384: "SHA384", crypto.SHA224: "SHA224", crypto.SHA1: "SHA1"}

func mkSigners(t *testing.T, kinds ...string) []signer {
	var s []signer
	for _, k := range kinds {
		e, err := pgpkit.New(k, crypto.SHA256)
		if err != nil {
			t.Fatalf("INFRA: cannot build %s entity: %v", k, err)
		}
		s = append(s, signer{k, e})
	}
	return s
}

type clearOut struct {
	msg   []byte
	block *clearsign.Block
	rest  []byte
	sig   []byte // the armored signature's packet bytes
}

// realClearsign = clearsign.Encode + Write (seeded chunks) + Close, then clearsign.Decode.
func realClearsign(txt []byte, s signer, h crypto.Hash, rng *rand.Rand) (o clearOut, err error, panicked any) {
	defer func() {
		if p := recover(); p != nil {
			panicked = p
		}
	}()
	var buf bytes.Buffer
	w, err := clearsign.Encode(&buf, s.e.PrivateKey, &packet.Config{DefaultHash: h})
	if err != nil {
		return o, err, nil
	}
	for rest := txt; len(rest) > 0; {
		n := 1 + rng.Intn(len(rest))
		if _, err := w.Write(rest[:n]); err != nil {
			return o, err, nil
		}
		rest = rest[n:]
	}
	if err := w.Close(); err != nil {
		return o, err, nil
	}
	o.msg = buf.Bytes()
	o.block, o.rest = clearsign.Decode(o.msg)
	if o.block != nil {
		o.sig, err = io.ReadAll(o.block.ArmoredSignature.Body)
		if err != nil {
			return o, fmt.Errorf("reading the armored signature: %v", err), nil
		}
	}
	return o, nil, nil
}

const clearHead = "-----BEGIN PGP SIGNED MESSAGE-----\nHash: "

// escapedPart returns the dash-escaped text between the header block and the signature armor.
func escapedPart(msg []byte) ([]byte, string, bool) {
	if !bytes.HasPrefix(msg, []byte(clearHead)) {
		return nil, "", false
	}
	i := bytes.Index(msg, []byte("\n\n"))
	j := bytes.LastIndex(msg, []byte("-----BEGIN PGP SIGNATURE-----\n"))
	if i < 0 || j < i+2 {
		return nil, "", false
	}
	return msg[i+2 : j], string(msg[len(clearHead):i]), true
}

func (j *judge) clearCase(txt []byte, want refClear, s signer, h crypto.Hash, rng *rand.Rand) (msg []byte) {
	det := map[string]any{"txt": string(txt), "txtHex": fmt.Sprintf("%x", txt), "key": s.kind, "hash": hashNames[h]}
	o, err, p := realClearsign(txt, s, h, rng)
	if p != nil {
		det["panic"] = fmt.Sprint(p)
		j.viol("clearsign-panic", "clearsign Encode/Decode panicked", det)
		return nil
	}
	if err != nil {
		det["err"] = err.Error()
		j.viol("clearsign-encode-error", "clearsign.Encode failed on a plain text", det)
		return nil
	}
	det["message"] = string(o.msg)
	if o.block == nil {
		j.viol("clearsign-decode-nil", "clearsign.Decode does not find the message clearsign.Encode wrote", det)
		return nil
	}
	if len(o.rest) != 0 {
		det["rest"] = string(o.rest)
		j.viol("clearsign-decode-rest", "clearsign.Decode leaves a remainder after the message clearsign.Encode wrote", det)
	}
	if !bytes.Equal(o.block.Plaintext, want.Plain) {
		det["plaintext"], det["want"] = string(o.block.Plaintext), string(want.Plain)
		j.viol("clearsign-plaintext", "Decode(Encode(text)).Plaintext is not the canonicalised text with dash-escaping undone", det)
	}
	if !bytes.Equal(o.block.Bytes, want.Signed) {
		det["bytes"], det["want"] = fmt.Sprintf("%q", o.block.Bytes), fmt.Sprintf("%q", want.Signed)
		j.viol("clearsign-signed-bytes", "Decode(Encode(text)).Bytes is not the canonical signed form (lines without trailing whitespace joined by CRLF)", det)
	}
	if got := o.block.Headers.Get("Hash"); got != hashNames[h] {
		det["hashHeader"] = got
		j.viol("clearsign-hash-header", "the Hash: armor header does not name the hash of the signature", det)
	}
	ring := openpgp.EntityList{s.e}
	// the embedded signature verifies with the package over Block.Bytes ...
	if _, err := openpgp.CheckDetachedSignature(ring, bytes.NewReader(o.block.Bytes), bytes.NewReader(o.sig)); err != nil {
		det["err"] = err.Error()
		j.viol("clearsign-signature", "the embedded signature does not verify over Block.Bytes", det)
	}
	// ... and over the bytes the MODEL says are signed (binds the signer's hash input to the model)
	if _, err := openpgp.CheckDetachedSignature(ring, bytes.NewReader(want.Signed), bytes.NewReader(o.sig)); err != nil {
		det["err"] = err.Error()
		j.viol("clearsign-signature-model-bytes", "the embedded signature does not verify over the canonical signed bytes predicted by the model", det)
	}
	// ... however the verifier's reader cuts the bytes: Bytes has CR LF between lines and text-mode verification goes through the
	// canonical-text hash wrapper, which must carry its "previous byte was CR" state from one Write to the next (spec/CanonText.tla)
	readers := []string{"afterCR"} // stateless chunkers: clearCase runs in several goroutines
	if len(txt)%4 == 3 || len(txt) > 64 {
		readers = append(readers, "onebyte", "k7")
	}
	for _, name := range readers {
		if _, err := openpgp.CheckDetachedSignature(ring, chunkers[name](want.Signed), bytes.NewReader(o.sig)); err != nil {
			det["err"], det["reader"] = err.Error(), name
			j.viol("clearsign-signature-chunked", "the embedded signature does not verify when the signed bytes reach the verifier in pieces ("+name+")", det)
			break
		}
	}
	// negative control on the verifier: one more byte must not verify
	if _, err := openpgp.CheckDetachedSignature(ring, bytes.NewReader(append(append([]byte{}, want.Signed...), 'x')), bytes.NewReader(o.sig)); err == nil {
		j.viol("clearsign-signature-vacuous", "the embedded signature also verifies over different bytes", det)
	}
	if esc, hn, ok := escapedPart(o.msg); !ok || hn != hashNames[h] {
		j.count("clear_message_unstructured")
	} else if !bytes.Equal(esc, want.Out) {
		j.count("escaped_text_differs_from_model")
	}
	return o.msg
}

func clearReplay(t *testing.T, jd *judge, casesPath string, signers []signer) {
	var cases []ccase
	err := vutil.ReadNDJSON(casesPath, func(line []byte) error {
		var c ccase
		if err := json.Unmarshal(line, &c); err != nil {
			return err
		}
		cases = append(cases, c)
		return nil
	})
	if err != nil {
		t.Fatal(err)
	}
	// (1) transcription == TLC on every case
	for _, c := range cases {
		r := refClearsign(c.Txt)
		pl, sg := refCanon(c.Txt)
		if !bytes.Equal(r.Out, c.Out) || !bytes.Equal(r.Signed, c.Signed) || !bytes.Equal(r.Plain, c.Plain) || !bytes.Equal(r.Bytes, c.Bytes) || !r.DecOk ||
			!bytes.Equal(pl, c.Plain) || !bytes.Equal(sg, c.Signed) {
			t.Fatalf("INFRA: Go transcription of ClearSign.tla disagrees with TLC on %q", []byte(c.Txt))
		}
	}
	// (1b) quick tier: TLC enumerated a shorter bound; the transcription just validated predicts the remaining texts up to ENUMLEN
	if n, _ := strconv.Atoi(vutil.Env("VERIF_C46_ENUMLEN", "0")); n > 0 {
		have := map[string]bool{}
		maxLen := 0
		for _, c := range cases {
			have[string(c.Txt)] = true
			if len(c.Txt) > maxLen {
				maxLen = len(c.Txt)
			}
		}
		alpha := []byte{'a', '-', ' ', '\t', '\r', '\n'}
		var gen func(prefix []byte)
		gen = func(prefix []byte) {
			if len(prefix) > maxLen && !have[string(prefix)] {
				r := refClearsign(prefix)
				pl, sg := refCanon(prefix)
				if !r.DecOk || !bytes.Equal(pl, r.Plain) || !bytes.Equal(sg, r.Signed) || !bytes.Equal(sg, r.Bytes) {
					jd.count("model_invariant_fails_on_enumerated_text")
				} else {
					cases = append(cases, ccase{Txt: append([]byte{}, prefix...), Out: r.Out, Signed: r.Signed, Plain: r.Plain, Bytes: r.Bytes})
				}
			}
			if len(prefix) < n {
				for _, a := range alpha {
					gen(append(prefix, a))
				}
			}
		}
		gen(nil)
	}
	// (2) the real package; RSA signing is slow, so RSA/DSA take every 16th case and ECDSA the rest
	workers := 4
	var wg sync.WaitGroup
	var mu sync.Mutex
	gpgStride := 0
	if n, _ := strconv.Atoi(vutil.Env("VERIF_C46_GPG_N", "0")); n > 0 { // about n of the texts also go to gpg
		gpgStride = max(1, len(cases)/n)
	}
	var forGPG []gpgItem
	for w := 0; w < workers; w++ {
		wg.Add(1)
		go func(w int) {
			defer wg.Done()
			rng := vutil.Rand(int64(4610 + w))
			for i := w; i < len(cases); i += workers {
				c := cases[i]
				s := signers[0]
				if i%16 == 5 {
					s = signers[1]
				} else if i%16 == 11 {
					s = signers[2]
				}
				h := hashes[(i/3)%len(hashes)]
				if gpgStride > 0 && i%gpgStride == int(vutil.Seed())%gpgStride {
					h = gpgHashes[(i/3)%len(gpgHashes)] // gpg policy: ECDSA P-256 needs >= 256-bit digests, SHA-1 is deprecated
				}
				msg := jd.clearCase(c.Txt, refClear{Out: c.Out, Signed: c.Signed, Plain: c.Plain, Bytes: c.Bytes}, s, h, rng)
				jd.kase("clear:" + string(c.Txt))
				if len(c.Txt) >= 5 && msg != nil && bytes.IndexByte(c.Txt, '-') >= 0 {
					jd.sampleN("clear", 2, map[string]any{"txt": string(c.Txt), "plain": string(c.Plain), "signed": string(c.Signed), "message": string(msg)})
				}
				mu.Lock()
				if gpgStride > 0 && i%gpgStride == int(vutil.Seed())%gpgStride && msg != nil {
					forGPG = append(forGPG, gpgItem{txt: c.Txt, msg: msg, kind: s.kind})
				}
				mu.Unlock()
			}
		}(w)
	}
	wg.Wait()
	if len(forGPG) > 0 {
		gpgVerifyAll(t, jd, signers, forGPG)
	}
}

type gpgItem struct {
	txt, msg []byte
	kind     string
}

// gpgVerifyAll: `gpg --verify` on clearsigned messages (amplifier; skipped when gpg is missing).
func gpgVerifyAll(t *testing.T, jd *judge, signers []signer, items []gpgItem) {
	dir, err := os.MkdirTemp(vutil.Env("VERIF_SCRATCH", ""), "g")
	if err != nil {
		t.Fatalf("INFRA: %v", err)
	}
	defer os.RemoveAll(dir)
	g, err := pgpkit.NewGPG(dir)
	if err != nil {
		t.Fatalf("INFRA: %v", err)
	}
	if g == nil {
		jd.extra("c46_gpg", "missing")
		return
	}
	defer g.Close()
	failed := map[string]bool{}
	for _, s := range signers {
		if err := g.ImportPublic(s.e); err != nil {
			jd.extra("c46_gpg_import_"+s.kind, err.Error())
			failed[s.kind] = true
			t.Logf("gpg import of %s key failed: %v", s.kind, err)
		}
	}
	var wg sync.WaitGroup
	for w := 0; w < 4; w++ {
		wg.Add(1)
		go func(w int) {
			defer wg.Done()
			for i := w; i < len(items); i += 4 {
				it := items[i]
				if failed[it.kind] {
					jd.count("gpg_skipped_key_not_imported")
					continue
				}
				f := filepath.Join(dir, fmt.Sprintf("m%d_%d.asc", w, i))
				os.WriteFile(f, it.msg, 0o600)
				_, se, err := g.Run(nil, "--verify", f)
				os.Remove(f)
				if err != nil {
					jd.viol("clearsign-gpg-verify", "GnuPG does not verify the clearsigned text written by clearsign.Encode",
						map[string]any{"txt": string(it.txt), "txtHex": fmt.Sprintf("%x", it.txt), "key": it.kind, "message": string(it.msg), "gpg": se})
				} else if !strings.Contains(se, "Good signature") {
					jd.count("gpg_exit0_without_good_signature")
				} else {
					jd.count("gpg_verified")
				}
			}
		}(w)
	}
	wg.Wait()
}

// TestClearBulk: long texts (to 10 kB) over a wider alphabet, judged by the validated transcription.
func clearBulk(t *testing.T, jd *judge, signers []signer) {
	n, _ := strconv.Atoi(vutil.Env("VERIF_C46_BULK", "200"))
	ngpg, _ := strconv.Atoi(vutil.Env("VERIF_C46_BULKGPG", "20"))
	rng := vutil.Rand(4620)
	words := []string{"a", "-", " ", "\t", "\r", "\n", "\r\n", "- ", "--", "-----BEGIN PGP SIGNATURE-----", "-----BEGIN PGP SIGNED MESSAGE-----", "Hash: SHA1",
		"From ", "\n\n", " \n", "x", "é", "\x00", "=", "-----END PGP SIGNATURE-----", "hello world"}
	var items []gpgItem
	for it := 0; it < n; it++ {
		var b []byte
		target := rng.Intn(200)
		if it%5 == 0 {
			target = rng.Intn(10241)
		}
		nul := it%4 == 3 // NUL bytes only in every fourth text (those are not sent to gpg)
		for len(b) < target {
			if rng.Intn(4) == 0 {
				b = append(b, byte(32+rng.Intn(95)))
			} else if w := words[rng.Intn(len(words))]; nul || w != "\x00" {
				b = append(b, w...)
			}
		}
		want := refClearsign(b)
		pl, sg := refCanon(b)
		if !bytes.Equal(pl, want.Plain) || !bytes.Equal(sg, want.Signed) || !bytes.Equal(sg, want.Bytes) {
			// the model's own invariants (DecodeIsCanon / SigVerifies) fail outside TLC's bound: a model finding, not a verdict
			jd.count("model_invariant_fails_on_bulk_text")
			continue
		}
		s := signers[it%len(signers)]
		h := gpgHashes[it%3] // these also go to gpg
		msg := jd.clearCase(b, want, s, h, rng)
		jd.kase(fmt.Sprintf("bulk-%d-%d", it, len(b)))
		// GnuPG handles cleartext lines as C strings (a NUL byte at a line end breaks its whitespace trimming: observed
		// "BAD signature" for "x \x00", fine for "a\x00b") -- texts with NUL are not sent to gpg; everything else about them is judged.
		if msg != nil && len(items) < ngpg && bytes.IndexByte(b, 0) < 0 {
			items = append(items, gpgItem{txt: b, msg: msg, kind: s.kind})
		}
	}
	if len(items) > 0 {
		gpgVerifyAll(t, jd, signers, items)
	}
}

// TestC46 runs the four parts (armor replay + bulk, clearsign replay + bulk) against one result file;
// the armor and the clearsign halves run concurrently.
func TestC46(t *testing.T) {
	out := vutil.NewOut()
	defer func() {
		if err := out.Write(); err != nil {
			t.Fatal(err)
		}
	}()
	jd := newJudge(t, out)
	defer jd.flush()
	var wg sync.WaitGroup
	if p := vutil.Env("VERIF_CASES", ""); p != "" {
		wg.Add(1)
		go func() {
			defer wg.Done()
			armorReplay(t, jd, p)
			if vutil.Env("VERIF_C46_BULK", "0") != "0" {
				armorBulk(t, jd)
			}
		}()
	}
	if p := vutil.Env("VERIF_C46_CLEAR", ""); p != "" {
		wg.Add(1)
		go func() {
			defer wg.Done()
			signers := mkSigners(t, pgpkit.ECDSAP256, pgpkit.RSA, pgpkit.DSA1024)
			clearReplay(t, jd, p, signers)
			if vutil.Env("VERIF_C46_BULK", "0") != "0" {
				clearBulk(t, jd, signers)
			}
		}()
	}
	wg.Wait()
}
