// Binding R+E for C03 (ChaCha20 keystream, seek, split-invariance, overflow).
//
// Input: (1) keystream tables and HChaCha20 values evaluated by TLC from the executable TLA+
// definitions spec/PrimChaCha.tla (file VERIF_C03_KS); (2) call histories enumerated by TLC from
// spec/StreamCipher.tla (VERIF_CASES), each event [op, arg, res, from] carrying the model's
// prediction.  Every history is stepped through a real chacha20.Cipher (12- and 24-byte nonces,
// several keys) with the model block k mapped to real counter Base+k (Base = 0, or 2^32-L so
// that the model's limit is the real 2^32 limit); each XORKeyStream output is compared with
// src xor KS[from, from+n) and panics are compared as events.
package c03

import (
	"bytes"
	"encoding/hex"
	"encoding/json"
	"fmt"
	"os"
	"strconv"
	"testing"

	"golang.org/x/crypto/chacha20"
	"verif/harness/c03ref"
	"verif/harness/vutil"
)

type rec struct {
	T     string `json:"t"`
	Kseed int    `json:"kseed"`
	Nseed int    `json:"nseed"`
	Nlen  int    `json:"nlen"`
	Base  string `json:"base"`
	L     int    `json:"L"`
	Bytes []int  `json:"bytes"`
}

type hist struct {
	H [][4]int64 `json:"h"`
}

type variant struct {
	name       string
	key, nonce []byte // as given to NewUnauthenticatedCipher
	ek, en     []byte // effective key / 12-byte nonce (refimpl)
	base       uint32
	table      []byte // TLC-evaluated keystream from position 0 (may be nil for random keys)
}

func toBytes(v []int) []byte {
	b := make([]byte, len(v))
	for i, x := range v {
		b[i] = byte(x)
	}
	return b
}

func (v *variant) ks(from int64, n int) []byte {
	if from >= 0 && int(from)+n <= len(v.table) {
		return v.table[from : int(from)+n]
	}
	return c03ref.KS(v.ek, v.en, v.base, from, n)
}

func hx(b []byte) string {
	if len(b) > 48 {
		b = b[:48]
	}
	return hex.EncodeToString(b)
}

// call f, report whether it panicked
func panics(f func()) (msg string, p bool) {
	defer func() {
		if r := recover(); r != nil {
			p = true
			msg = fmt.Sprint(r)
		}
	}()
	f()
	return
}

func TestReplay(t *testing.T) {
	out := vutil.NewOut()
	defer func() {
		if err := out.Write(); err != nil {
			t.Fatal(err)
		}
	}()
	baseName := vutil.Env("VERIF_C03_BASE", "zero")
	L, _ := strconv.Atoi(vutil.Env("VERIF_C03_L", "0"))
	nrand, _ := strconv.Atoi(vutil.Env("VERIF_C03_RANDKEYS", "0"))
	var base uint32
	if baseName == "top" {
		base = uint32((uint64(1) << 32) - uint64(L))
	}
	var vars []*variant
	tlcBytes := 0
	// ---- TLC-evaluated tables: validate the Go transcription, check one-shot keystream and HChaCha20
	err := vutil.ReadNDJSON(os.Getenv("VERIF_C03_KS"), func(line []byte) error {
		var r rec
		if err := json.Unmarshal(line, &r); err != nil {
			return err
		}
		switch r.T {
		case "hc":
			key, n16 := c03ref.Pat(r.Kseed, 32), c03ref.Pat(r.Nseed, 16)
			want := toBytes(r.Bytes)
			if !bytes.Equal(c03ref.HChaCha20(key, n16), want) {
				return fmt.Errorf("refimpl HChaCha20 differs from the TLC-evaluated definition (kseed %d nseed %d)", r.Kseed, r.Nseed)
			}
			got, err := chacha20.HChaCha20(key, n16)
			out.Case(fmt.Sprintf("hc|%d|%d", r.Kseed, r.Nseed))
			tlcBytes += 32
			if err != nil || !bytes.Equal(got, want) {
				out.Violation("c03-hchacha20-mismatch", "chacha20.HChaCha20 differs from the draft-irtf-cfrg-xchacha definition evaluated by TLC",
					map[string]any{"kseed": r.Kseed, "nseed": r.Nseed, "got": hx(got), "want": hx(want)})
				t.Errorf("HChaCha20 mismatch kseed=%d nseed=%d", r.Kseed, r.Nseed)
			}
		case "ks":
			key, nonce := c03ref.Pat(r.Kseed, 32), c03ref.Pat(r.Nseed, r.Nlen)
			ek, en := c03ref.Eff(key, nonce)
			var b uint32
			if r.Base == "top" {
				b = uint32((uint64(1) << 32) - uint64(r.L))
			}
			table := toBytes(r.Bytes)
			if !bytes.Equal(c03ref.KS(ek, en, b, 0, len(table)), table) {
				return fmt.Errorf("refimpl KS differs from the TLC-evaluated definition (kseed %d nlen %d base %s)", r.Kseed, r.Nlen, r.Base)
			}
			tlcBytes += len(table)
			// one-shot: the whole table in a single XORKeyStream call on the real Cipher
			c, err := chacha20.NewUnauthenticatedCipher(key, nonce)
			if err != nil {
				return err
			}
			got := make([]byte, len(table))
			msg, p := panics(func() {
				if b != 0 {
					c.SetCounter(b)
				}
				c.XORKeyStream(got, got)
			})
			out.Case(fmt.Sprintf("ks|%d|%d|%s|%d", r.Kseed, r.Nlen, r.Base, r.L))
			if p || !bytes.Equal(got, table) {
				out.Violation("c03-keystream-mismatch", "one-shot XORKeyStream differs from the RFC 8439 keystream evaluated by TLC",
					map[string]any{"kseed": r.Kseed, "nseed": r.Nseed, "nlen": r.Nlen, "base": b, "panic": msg, "got": hx(got), "want": hx(table)})
				t.Errorf("one-shot keystream mismatch kseed=%d nlen=%d base=%d panic=%q", r.Kseed, r.Nlen, b, msg)
			}
			if r.Base == baseName && (r.Base == "zero" || r.L == L) {
				vars = append(vars, &variant{name: fmt.Sprintf("k%d/n%d/%s", r.Kseed, r.Nlen, r.Base), key: key, nonce: nonce, ek: ek, en: en, base: b, table: table})
			}
		}
		return nil
	})
	if err != nil {
		t.Fatal(err)
	}
	if len(vars) == 0 {
		t.Fatalf("no keystream table for base=%s L=%d", baseName, L)
	}
	// ---- random keys/nonces (oracle: the validated transcription)
	rng := vutil.Rand(303)
	for i := 0; i < nrand; i++ {
		key := make([]byte, 32)
		nonce := make([]byte, 12+12*(i%2))
		rng.Read(key)
		rng.Read(nonce)
		ek, en := c03ref.Eff(key, nonce)
		vars = append(vars, &variant{name: fmt.Sprintf("rand%d/n%d/%s", i, len(nonce), baseName), key: key, nonce: nonce, ek: ek, en: en, base: base})
	}
	out.Extra["tlc_evaluated_bytes"] = tlcBytes
	out.Extra["variants"] = len(vars)
	nh := 0
	err = vutil.ReadNDJSON(vutil.Env("VERIF_CASES", ""), func(line []byte) error {
		var h hist
		if err := json.Unmarshal(line, &h); err != nil {
			return err
		}
		nh++
		for _, v := range vars {
			out.Case(v.name + "|" + string(line))
			replay(t, out, v, &h, nh)
		}
		if nh%9973 == 1 {
			out.Sample(json.RawMessage(append([]byte(nil), line...)))
		}
		return nil
	})
	if err != nil {
		t.Fatal(err)
	}
	out.Extra["histories"] = nh
}

func replay(t *testing.T, out *vutil.Out, v *variant, h *hist, idx int) {
	c, err := chacha20.NewUnauthenticatedCipher(v.key, v.nonce)
	if err != nil {
		t.Fatal(err)
	}
	if v.base != 0 {
		c.SetCounter(v.base)
	}
	fail := func(sig, what string, step int, extra map[string]any) {
		extra["history"] = h.H
		extra["variant"] = v.name
		extra["base"] = v.base
		extra["step"] = step
		out.Violation(sig, what, extra)
		t.Errorf("%s: %s (variant %s step %d history %v)", sig, what, v.name, step, h.H)
	}
	for i, e := range h.H {
		op, arg, res, from := e[0], e[1], e[2], e[3]
		if op == 1 { // SetCounter
			msg, p := panics(func() { c.SetCounter(v.base + uint32(arg)) })
			if p != (res == 1) {
				if p {
					fail("c03-setcounter-unexpected-panic", "SetCounter panicked on a forward seek: "+msg, i, map[string]any{})
				} else {
					fail("c03-setcounter-missing-panic", "SetCounter accepted a rollback", i, map[string]any{})
				}
				return
			}
			if p {
				return
			}
			continue
		}
		n := int(arg)
		src := c03ref.Pat(17+i+idx%5, n)
		var dst []byte
		inPlace := (i+idx)%2 == 0
		if inPlace {
			dst = append([]byte(nil), src...)
		} else {
			dst = bytes.Repeat([]byte{0xA5}, n+3) // dst larger than src is allowed
		}
		msg, p := panics(func() {
			if inPlace {
				c.XORKeyStream(dst, dst)
			} else {
				c.XORKeyStream(dst, src)
			}
		})
		if p != (res == 1) {
			if p {
				fail("c03-xor-unexpected-panic", "XORKeyStream panicked although the keystream is not exhausted: "+msg, i, map[string]any{"n": n})
			} else {
				fail("c03-xor-missing-panic", "XORKeyStream did not panic although 2^32 blocks would be exceeded (counter wrap)", i, map[string]any{"n": n})
			}
			return
		}
		if p {
			return
		}
		if n == 0 {
			continue
		}
		ks := v.ks(from, n)
		want := make([]byte, n)
		for j := range want {
			want[j] = src[j] ^ ks[j]
		}
		if !bytes.Equal(dst[:n], want) {
			fail("c03-keystream-mismatch", fmt.Sprintf("XORKeyStream output is not src xor keystream[%d..%d)", from, from+int64(n)), i,
				map[string]any{"n": n, "from": from, "got": hx(dst[:n]), "want": hx(want)})
			return
		}
	}
}
