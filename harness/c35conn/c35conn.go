// Package c35conn is a monitored in-memory packet connection pair for driving real ssh muxes
// (hook ssh.VerifMuxNew) in the C35/C36 checks.  Each End implements ssh.VerifMuxPacketConn.
// Every packet is reported to the monitor callback at WritePacket entry (atomically with its
// enqueue) and at ReadPacket return (atomically with its dequeue), under ONE lock for the pair,
// so the callback sees a true linearization of all packet events of both endpoints.
// All blocking is on sync.Cond, which is durably blocking inside a testing/synctest bubble.
package c35conn

import (
	"errors"
	"io"
	"sync"
)

// Monitor is called with the pair's lock held. send=true: ep is writing p; send=false: ep has
// just dequeued p.  p must not be modified or retained beyond the call unless copied.
type Monitor func(ep int, send bool, p []byte)

type Pair struct {
	mu     sync.Mutex
	cond   [2]*sync.Cond
	q      [2][][]byte // q[i]: packets on their way to endpoint i
	closed [2]bool     // endpoint i called Close
	mon    Monitor
	Ends   [2]*End

	// write gate: while holdOn, WritePacket calls of endpoint holdEp whose first byte is holdTyp
	// wait (as writePacket does during a key exchange) until Release.
	holdOn   bool
	holdEp   int
	holdTyp  byte
	holding  int
	holdCond *sync.Cond

	// ReadHook, if set, is called with the lock held whenever endpoint ep enters ReadPacket
	// (i.e. its reader has finished handling everything it dequeued before) or calls Close.
	ReadHook func(ep int, closing bool)
	// AfterWrite, if set, is called with the lock held right after endpoint ep queued packet p for
	// its peer; if it returns true the writer then waits (packet already delivered) until Release.
	AfterWrite func(ep int, p []byte) bool
	afterHeld  int
}

type End struct {
	p *Pair
	i int
}

var ErrClosed = errors.New("c35conn: connection closed")

func NewPair(mon Monitor) *Pair {
	p := &Pair{mon: mon}
	p.cond[0] = sync.NewCond(&p.mu)
	p.cond[1] = sync.NewCond(&p.mu)
	p.holdCond = sync.NewCond(&p.mu)
	p.Ends[0] = &End{p, 0}
	p.Ends[1] = &End{p, 1}
	return p
}

// WritePacket copies the packet (the real transport encrypts it before returning, so callers
// reuse the buffer) and queues it for the peer.
func (e *End) WritePacket(pkt []byte) error {
	p := e.p
	p.mu.Lock()
	defer p.mu.Unlock()
	if p.holdOn && e.i == p.holdEp && len(pkt) > 0 && pkt[0] == p.holdTyp && !p.closed[e.i] && !p.closed[1-e.i] {
		p.holding++
		for p.holdOn {
			p.holdCond.Wait()
		}
		p.holding--
	}
	if p.closed[e.i] || p.closed[1-e.i] {
		return ErrClosed
	}
	cp := append([]byte(nil), pkt...)
	if p.mon != nil {
		p.mon(e.i, true, cp)
	}
	p.q[1-e.i] = append(p.q[1-e.i], cp)
	p.cond[1-e.i].Signal()
	if p.AfterWrite != nil && p.AfterWrite(e.i, cp) {
		// the packet is on its way; the writing goroutine is held before it can continue
		p.holdOn = true
		p.afterHeld++
		for p.holdOn {
			p.holdCond.Wait()
		}
		p.afterHeld--
	}
	return nil
}

// WritePackets queues several packets for the peer atomically: the peer's reader finds all of them
// queued when it next asks for a packet.
func (e *End) WritePackets(pkts [][]byte) error {
	p := e.p
	p.mu.Lock()
	defer p.mu.Unlock()
	if p.closed[e.i] || p.closed[1-e.i] {
		return ErrClosed
	}
	for _, pkt := range pkts {
		cp := append([]byte(nil), pkt...)
		if p.mon != nil {
			p.mon(e.i, true, cp)
		}
		p.q[1-e.i] = append(p.q[1-e.i], cp)
	}
	p.cond[1-e.i].Signal()
	return nil
}

// AfterHeld returns the number of writers held after their packet was delivered.
func (p *Pair) AfterHeld() int {
	p.mu.Lock()
	defer p.mu.Unlock()
	return p.afterHeld
}

// ReadPacket blocks until a packet is available; queued packets are still delivered after the
// peer closed, then io.EOF.
func (e *End) ReadPacket() ([]byte, error) {
	p := e.p
	p.mu.Lock()
	defer p.mu.Unlock()
	if p.ReadHook != nil {
		p.ReadHook(e.i, false)
	}
	for len(p.q[e.i]) == 0 {
		if p.closed[e.i] || p.closed[1-e.i] {
			return nil, io.EOF
		}
		p.cond[e.i].Wait()
	}
	pkt := p.q[e.i][0]
	p.q[e.i][0] = nil
	p.q[e.i] = p.q[e.i][1:]
	if p.mon != nil {
		p.mon(e.i, false, pkt)
	}
	return pkt, nil
}

// TryRead returns the next queued packet for this endpoint without blocking (used by the
// scripted raw peer of C36 after the bubble is quiescent).
func (e *End) TryRead() ([]byte, bool) {
	p := e.p
	p.mu.Lock()
	defer p.mu.Unlock()
	if len(p.q[e.i]) == 0 {
		return nil, false
	}
	pkt := p.q[e.i][0]
	p.q[e.i] = p.q[e.i][1:]
	if p.mon != nil {
		p.mon(e.i, false, pkt)
	}
	return pkt, true
}

func (e *End) Close() error {
	p := e.p
	p.mu.Lock()
	if p.ReadHook != nil && !p.closed[e.i] {
		p.ReadHook(e.i, true)
	}
	p.closed[e.i] = true
	p.cond[0].Broadcast()
	p.cond[1].Broadcast()
	p.mu.Unlock()
	return nil
}

// SetHold makes WritePacket calls of endpoint ep with message type typ wait until Release.
func (p *Pair) SetHold(ep int, typ byte) {
	p.mu.Lock()
	p.holdOn, p.holdEp, p.holdTyp = true, ep, typ
	p.mu.Unlock()
}

// Release opens the write gate and lets the held writers continue.
func (p *Pair) Release() {
	p.mu.Lock()
	p.holdOn = false
	p.holdCond.Broadcast()
	p.mu.Unlock()
}

// ReleaseLocked is Release for callers that already hold the pair's lock (hooks, monitor).
func (p *Pair) ReleaseLocked() {
	p.holdOn = false
	p.holdCond.Broadcast()
}

// AfterHeldLocked is AfterHeld for callers that already hold the pair's lock: writers that were
// held after delivery and have not resumed yet (released or not).
func (p *Pair) AfterHeldLocked() int { return p.afterHeld }

// Holding returns the number of writers currently held by the gate.
func (p *Pair) Holding() int {
	p.mu.Lock()
	defer p.mu.Unlock()
	return p.holding
}

// Closed reports whether endpoint i has called Close.
func (p *Pair) Closed(i int) bool {
	p.mu.Lock()
	defer p.mu.Unlock()
	return p.closed[i]
}

// InFlight returns the number of queued packets towards each endpoint.
func (p *Pair) InFlight() (to0, to1 int) {
	p.mu.Lock()
	defer p.mu.Unlock()
	return len(p.q[0]), len(p.q[1])
}

// Locked runs f with the pair's lock held (to log driver events in the same linear order as
// the packet events).
func (p *Pair) Locked(f func()) {
	p.mu.Lock()
	defer p.mu.Unlock()
	f()
}
