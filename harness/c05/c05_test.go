// Binding R+E for C05 (BLAKE2b/BLAKE2s digests are RFC 7693 on every SIMD path).
//
// Input: (1) digests evaluated by TLC from the executable definition spec/PrimBlake2.tla
// (spec/Blake2_Vec.tla; file VERIF_C05_VEC); (2) call histories enumerated by TLC from the
// implementation-shaped spec/Blake2Buf.tla at the real block size (VERIF_CASES; each line
// {"alg","keyed","h":[[op,n,mlen,offset,c],...]}), whose prediction for every Sum is "the RFC 7693
// digest of the mlen bytes written since the last Reset, state unchanged".
// Drives the real golang.org/x/crypto/blake2b and blake2s (New*/Write/Sum/Reset, Sum256/384/512)
// with every hashBlocks variant forced in turn through the verif hook VerifSetDispatch
// (AVX2, AVX, SSE4, generic | SSE4, SSSE3, SSE2, generic); with -tags verif,purego the
// compile-time generic path.
package c05

import (
	"bytes"
	"encoding/binary"
	"encoding/hex"
	"encoding/json"
	"fmt"
	"hash"
	"os"
	"strconv"
	"testing"

	"golang.org/x/crypto/blake2b"
	"golang.org/x/crypto/blake2s"
	"verif/harness/c03ref"
	"verif/harness/c05ref"
	"verif/harness/vutil"
)

type vec struct {
	T     string `json:"t"`
	A     int    `json:"a"`
	K     int    `json:"k"`
	Ks    int    `json:"ks"`
	M     int    `json:"m"`
	Ms    int    `json:"ms"`
	Bytes []int  `json:"bytes"`
}

type histCase struct {
	Alg   string  `json:"alg"`
	Keyed int     `json:"keyed"`
	H     [][]int `json:"h"`
}

func toBytes(v []int) []byte {
	b := make([]byte, len(v))
	for i, x := range v {
		b[i] = byte(x)
	}
	return b
}

func hx(b []byte) string {
	if len(b) > 80 {
		b = b[:80]
	}
	return hex.EncodeToString(b)
}

type variant struct {
	name  string
	flags uint
}

// variants of hashBlocks selectable in this build; skipped ones (not supported by the CPU) are reported
func variants(alg string, purego bool) (vs []variant, skipped []string) {
	if purego {
		return []variant{{"purego-generic", 0}}, nil
	}
	var all []variant
	var sup uint
	if alg == "b" {
		all = []variant{{"AVX2", blake2b.VerifUseAVX2}, {"AVX", blake2b.VerifUseAVX}, {"SSE4", blake2b.VerifUseSSE4}, {"generic", 0}}
		sup = blake2b.VerifDispatchSupported()
	} else {
		all = []variant{{"SSE4", blake2s.VerifUseSSE4}, {"SSSE3", blake2s.VerifUseSSSE3}, {"SSE2", blake2s.VerifUseSSE2}, {"generic", 0}}
		sup = blake2s.VerifDispatchSupported()
	}
	for _, v := range all {
		if v.flags&^sup != 0 {
			skipped = append(skipped, alg+":"+v.name)
			continue
		}
		vs = append(vs, v)
	}
	return
}

func force(alg string, v variant) (restore func()) {
	if alg == "b" {
		r := blake2b.VerifSetDispatch(v.flags)
		if blake2b.VerifDispatch() != v.flags {
			panic("dispatch not in effect")
		}
		return r
	}
	r := blake2s.VerifSetDispatch(v.flags)
	if blake2s.VerifDispatch() != v.flags {
		panic("dispatch not in effect")
	}
	return r
}

func newHash(alg string, size int, key []byte) (hash.Hash, error) {
	if alg == "b" {
		return blake2b.New(size, key)
	}
	switch size {
	case 32:
		return blake2s.New256(key)
	case 16:
		return blake2s.New128(key)
	}
	return nil, fmt.Errorf("blake2s offers no %d-byte digest", size)
}

func refDigest(alg string, size int, key, msg []byte) []byte {
	if alg == "b" {
		return c05ref.Blake2b(size, key, msg)
	}
	return c05ref.Blake2s(size, key, msg)
}

func blockSize(alg string) int {
	if alg == "b" {
		return 128
	}
	return 64
}

type env struct {
	t      *testing.T
	out    *vutil.Out
	purego bool
	nviol  int
	bySig  map[string]int
}

// at most 3 violations per signature are recorded (vutil.Out keeps 50 in all)
func (e *env) fail(sig, what string, d map[string]any) {
	e.nviol++
	if e.bySig == nil {
		e.bySig = map[string]int{}
	}
	e.bySig[sig]++
	if e.bySig[sig] > 3 {
		return
	}
	e.out.Violation(sig, what, d)
	if e.nviol <= 20 {
		e.t.Errorf("%s: %s %v", sig, what, d)
	}
}

// one-shot functions of the packages (checkSum path), where one exists for (alg, size) and no key
func oneShot(alg string, size int, msg []byte) []byte {
	switch {
	case alg == "b" && size == 64:
		s := blake2b.Sum512(msg)
		return s[:]
	case alg == "b" && size == 48:
		s := blake2b.Sum384(msg)
		return s[:]
	case alg == "b" && size == 32:
		s := blake2b.Sum256(msg)
		return s[:]
	case alg == "s" && size == 32:
		s := blake2s.Sum256(msg)
		return s[:]
	}
	return nil
}

// digest of msg through New/Write(chunks)/Sum on the variant currently forced
func chunkedDigest(alg string, size int, key, msg []byte, chunk int) ([]byte, error) {
	h, err := newHash(alg, size, key)
	if err != nil {
		return nil, err
	}
	if chunk <= 0 {
		h.Write(msg)
	} else {
		for off := 0; off < len(msg); off += chunk {
			end := off + chunk
			if end > len(msg) {
				end = len(msg)
			}
			h.Write(msg[off:end])
		}
	}
	return h.Sum(nil), nil
}

// (1) TLC-evaluated digests: validate the transcription, then compare the real code on every variant
func (e *env) vectors(path string) int {
	n := 0
	err := vutil.ReadNDJSON(path, func(line []byte) error {
		var v vec
		if err := json.Unmarshal(line, &v); err != nil {
			return err
		}
		if v.T != "b" && v.T != "s" {
			return nil
		}
		n++
		key, msg, want := c03ref.Pat(v.Ks, v.K), c03ref.Pat(v.Ms, v.M), toBytes(v.Bytes)
		if len(want) != v.A {
			return fmt.Errorf("TLC vector of wrong length: %s", line)
		}
		if got := refDigest(v.T, v.A, key, msg); !bytes.Equal(got, want) {
			return fmt.Errorf("harness/c05ref disagrees with the TLC-evaluated definition on %s size=%d klen=%d mlen=%d: %x vs %x (transcription wrong; not a verdict)", v.T, v.A, v.K, v.M, got, want)
		}
		vs, _ := variants(v.T, e.purego)
		for _, va := range vs {
			restore := force(v.T, va)
			d := map[string]any{"alg": v.T, "variant": va.name, "size": v.A, "klen": v.K, "kseed": v.Ks, "mlen": v.M, "mseed": v.Ms, "want": hx(want), "oracle": "TLC PrimBlake2"}
			for _, chunk := range []int{0, 1, 7, blockSize(v.T), blockSize(v.T) + 1} {
				if chunk == 1 && v.M > 300 {
					continue
				}
				got, err := chunkedDigest(v.T, v.A, key, msg, chunk)
				e.out.Case(fmt.Sprintf("vec|%s|%s|%d|%d|%d|%d|%d|c%d", v.T, va.name, v.A, v.K, v.Ks, v.M, v.Ms, chunk))
				if err != nil {
					d["err"] = err.Error()
					e.fail("c05-new-rejects-valid-parameters", "New rejects a digest size / key length the property covers", d)
					break
				}
				if !bytes.Equal(got, want) {
					d["got"], d["chunk"] = hx(got), chunk
					e.fail("c05-digest-mismatch:"+v.T+":"+va.name, "Sum differs from the RFC 7693 digest", d)
					break
				}
			}
			if v.K == 0 {
				if got := oneShot(v.T, v.A, msg); got != nil {
					e.out.Case(fmt.Sprintf("vec1|%s|%s|%d|%d|%d", v.T, va.name, v.A, v.M, v.Ms))
					if !bytes.Equal(got, want) {
						d["got"] = hx(got)
						e.fail("c05-oneshot-mismatch:"+v.T+":"+va.name, "one-shot Sum256/384/512 differs from the RFC 7693 digest", d)
					}
				}
			}
			restore()
		}
		return nil
	})
	if err != nil {
		e.t.Fatalf("vectors: %v", err)
	}
	return n
}

type combo struct {
	size, klen int
}

func combos(alg string, keyed bool, all bool) []combo {
	var cs []combo
	if alg == "b" {
		sizes := []int{64, 32, 1, 20, 48}
		klens := []int{0}
		if keyed {
			klens = []int{1, 64, 32}
		}
		if !all {
			sizes = sizes[:3]
			klens = klens[:(len(klens)+1)/2]
		}
		for _, s := range sizes {
			for _, k := range klens {
				cs = append(cs, combo{s, k})
			}
		}
		return cs
	}
	if !keyed {
		return []combo{{32, 0}}
	}
	cs = []combo{{32, 1}, {16, 32}, {32, 32}, {16, 1}, {32, 16}, {16, 16}}
	if !all {
		cs = cs[:3]
	}
	return cs
}

// stream of message bytes: mode 0 restarts the pattern at every Reset (the message since Reset is a
// Pat prefix), mode 1 continues it (stale buffer contents differ from the new message)
type stream struct {
	seed, mode, pos int
	msg             []byte // bytes since the last Reset
}

func (s *stream) take(n int) []byte {
	b := make([]byte, n)
	for i := range b {
		b[i] = c03ref.PatByte(s.seed, s.pos+i)
	}
	s.pos += n
	s.msg = append(s.msg, b...)
	return b
}

func (s *stream) reset() {
	s.msg = s.msg[:0]
	if s.mode == 0 {
		s.pos = 0
	}
}

// image of the real unkeyed state: offset and low counter word from MarshalBinary (informational)
func stateImage(alg string, h hash.Hash) (offset int, c uint64, ok bool) {
	m, isM := h.(interface{ MarshalBinary() ([]byte, error) })
	if !isM {
		return
	}
	b, err := m.MarshalBinary()
	if err != nil {
		return
	}
	if alg == "b" && len(b) == 3+64+16+1+128+1 {
		return int(b[len(b)-1]), binary.BigEndian.Uint64(b[3+64:]), true
	}
	if alg == "s" && len(b) == 3+32+8+1+64+1 {
		return int(b[len(b)-1]), uint64(binary.BigEndian.Uint32(b[3+32:])), true
	}
	return
}

// (2) one history on one (variant, size, key, pattern mode)
func (e *env) history(hc *histCase, va variant, cb combo, mode int, idx int, implMismatch *int) {
	key := c03ref.Pat(7+cb.klen, cb.klen)
	h, err := newHash(hc.Alg, cb.size, key)
	d := func() map[string]any {
		return map[string]any{"alg": hc.Alg, "variant": va.name, "size": cb.size, "klen": cb.klen, "mode": mode, "history": hc.H, "keyed": hc.Keyed}
	}
	if err != nil {
		x := d()
		x["err"] = err.Error()
		e.fail("c05-new-rejects-valid-parameters", "New rejects a digest size / key length the property covers", x)
		return
	}
	st := &stream{seed: 23 + idx%5, mode: mode}
	check := func(step int, prefix []byte) bool {
		want := refDigest(hc.Alg, cb.size, key, st.msg)
		got := h.Sum(prefix)
		if !bytes.Equal(got[:len(prefix)], prefix) || !bytes.Equal(got[len(prefix):], want) {
			x := d()
			x["step"], x["mlen"], x["want"], x["got"] = step, len(st.msg), hx(want), hx(got[len(prefix):])
			e.fail("c05-history-digest-mismatch:"+hc.Alg+":"+va.name, "Sum in a Write/Sum/Reset history differs from the RFC 7693 digest of the bytes written since Reset", x)
			return false
		}
		return true
	}
	for i, op := range hc.H {
		switch op[0] {
		case 0:
			n, err := h.Write(st.take(op[1]))
			if n != op[1] || err != nil {
				x := d()
				x["step"] = i
				e.fail("c05-write-result", "Write did not consume its argument", x)
				return
			}
		case 1:
			var prefix []byte
			if i%2 == 1 {
				prefix = []byte{0xa5, 0x5a, 0x01}
			}
			if !check(i, prefix) {
				return
			}
		case 2:
			h.Reset()
			st.reset()
		}
		if len(st.msg) != op[2] {
			e.t.Fatalf("harness and model disagree on the message length (%d vs %d): %v", len(st.msg), op[2], hc.H)
		}
		if cb.klen == 0 && mode == 0 {
			if off, c, ok := stateImage(hc.Alg, h); ok && (off != op[3] || c != uint64(op[4])) {
				*implMismatch++
			}
		}
	}
	// a final Sum (the model allows Sum in every state, with the same prediction), twice
	if check(len(hc.H), nil) {
		check(len(hc.H)+1, []byte{1})
	}
}

func TestReplay(t *testing.T) {
	out := vutil.NewOut()
	defer out.Write()
	e := &env{t: t, out: out, purego: os.Getenv("VERIF_C05_PUREGO") == "1"}
	nvec := e.vectors(os.Getenv("VERIF_C05_VEC"))
	out.Extra["tlc_vectors"] = nvec
	if nvec < 20 {
		t.Fatalf("too few TLC vectors (%d)", nvec)
	}
	all := vutil.Thorough()
	implMismatch, nh := 0, 0
	var skipped []string
	for _, alg := range []string{"b", "s"} {
		_, sk := variants(alg, e.purego)
		skipped = append(skipped, sk...)
	}
	if p := os.Getenv("VERIF_CASES"); p != "" {
		err := vutil.ReadNDJSON(p, func(line []byte) error {
			var hc histCase
			if err := json.Unmarshal(line, &hc); err != nil {
				return err
			}
			nh++
			vs, _ := variants(hc.Alg, e.purego)
			for _, va := range vs {
				restore := force(hc.Alg, va)
				for ci, cb := range combos(hc.Alg, hc.Keyed == 1, all) {
					for mode := 0; mode < 2; mode++ {
						if !all && (nh+ci+mode)%2 == 1 && ci > 0 {
							continue // quick: every history on the first combination, half of them on the others
						}
						e.history(&hc, va, cb, mode, nh, &implMismatch)
						out.Case(fmt.Sprintf("h|%s|%s|%d|%d|%d|%d", hc.Alg, va.name, cb.size, cb.klen, mode, nh))
					}
				}
				restore()
			}
			if nh <= 3 {
				out.Sample(map[string]any{"alg": hc.Alg, "keyed": hc.Keyed, "history": hc.H})
			}
			return nil
		})
		if err != nil {
			t.Fatalf("histories: %v", err)
		}
	}
	out.Extra["histories"] = nh
	out.Extra["impl_state_image_mismatches_informational"] = implMismatch
	out.Extra["variants_not_supported_by_cpu"] = skipped
	// (3) amplifier: random lengths / chunkings / Sum / Reset interleavings, judged by the validated transcription
	nrand, _ := strconv.Atoi(vutil.Env("VERIF_C05_RANDOM", "0"))
	rnd := vutil.Rand(505)
	for i := 0; i < nrand; i++ {
		alg := []string{"b", "s"}[i%2]
		B := blockSize(alg)
		keyed := rnd.Intn(2)
		cs := combos(alg, keyed == 1, true)
		cb := cs[rnd.Intn(len(cs))]
		if alg == "b" {
			cb.size = 1 + rnd.Intn(64)
			if keyed == 1 {
				cb.klen = 1 + rnd.Intn(64)
			}
		} else if keyed == 1 {
			cb.klen = 1 + rnd.Intn(32)
		}
		var hc histCase
		hc.Alg, hc.Keyed = alg, keyed
		mlen, total := 0, 0
		// target length around a multiple of the block size, up to 2000
		target := rnd.Intn(16)*B + rnd.Intn(5) - 2
		if rnd.Intn(3) == 0 || target < 0 {
			target = rnd.Intn(2001)
		}
		if target > 2000 {
			target = 2000
		}
		for mlen < target && len(hc.H) < 60 {
			n := 0
			switch rnd.Intn(6) {
			case 0:
				n = rnd.Intn(3)
			case 1:
				n = B - 1 + rnd.Intn(3)
			case 2:
				n = rnd.Intn(B)
			case 3:
				n = B * (1 + rnd.Intn(4))
			case 4:
				if rnd.Intn(4) == 0 {
					n = rnd.Intn(2001) // a big single Write: many blocks per hashBlocks call
				} else {
					n = rnd.Intn(3*B + 2)
				}
			default:
				n = rnd.Intn(3*B + 2)
			}
			if mlen+n > target {
				n = target - mlen
			}
			mlen += n
			total += n
			hc.H = append(hc.H, []int{0, n, mlen, -1, -1})
			switch rnd.Intn(12) {
			case 0, 1:
				hc.H = append(hc.H, []int{1, 0, mlen, -1, -1})
			case 2:
				if total < 4000 {
					mlen = 0
					hc.H = append(hc.H, []int{2, 0, 0, -1, -1})
				}
			}
		}
		vs, _ := variants(alg, e.purego)
		for _, va := range vs {
			restore := force(alg, va)
			dummy := 0
			e.history(&hc, va, cb, 1, i, &dummy)
			out.Case(fmt.Sprintf("r|%s|%s|%d", alg, va.name, i))
			restore()
		}
	}
	out.Extra["random_histories"] = nrand
	// (4) every message length 0..2000 in ONE Write (many blocks per hashBlocks call: the assembly loops), plus the
	// one-shot functions, on every variant; unkeyed full-size and keyed odd-size; judged by the validated transcription
	step := 1
	if nrand == 0 {
		step = 97
	}
	for _, alg := range []string{"b", "s"} {
		msg := c03ref.Pat(29, 2000)
		type cb struct{ size, klen int }
		cbs := []cb{{64, 0}, {20, 64}}
		if alg == "s" {
			cbs = []cb{{32, 0}, {16, 32}}
		}
		want := map[[3]int][]byte{}
		vs, _ := variants(alg, e.purego)
		for _, va := range vs {
			restore := force(alg, va)
			for _, c := range cbs {
				key := c03ref.Pat(13, c.klen)
				for L := 0; L <= 2000; L += step {
					k := [3]int{c.size, c.klen, L}
					if want[k] == nil {
						want[k] = refDigest(alg, c.size, key, msg[:L])
					}
					got, _ := chunkedDigest(alg, c.size, key, msg[:L], 0)
					out.Case(fmt.Sprintf("sweep|%s|%s|%d|%d|%d", alg, va.name, c.size, c.klen, L))
					bad := !bytes.Equal(got, want[k])
					if !bad && c.klen == 0 {
						if o := oneShot(alg, c.size, msg[:L]); o != nil && !bytes.Equal(o, want[k]) {
							bad, got = true, o
						}
					}
					if bad {
						e.fail("c05-single-write-mismatch:"+alg+":"+va.name, "digest of a message written in one call (or the one-shot function) differs from the RFC 7693 digest",
							map[string]any{"alg": alg, "variant": va.name, "size": c.size, "klen": c.klen, "mlen": L, "want": hx(want[k]), "got": hx(got)})
						break
					}
				}
			}
			restore()
		}
	}
}
