// Binding R for C44.  spec/PGPMessage.tla gives, per (message kind, attack, region), the set of outcome classes the
// reader can end in.  This harness produces real messages with openpgp.Encrypt / Sign / SymmetricallyEncrypt /
// DetachSign for each key type x cipher x hash x compression the package supports, reads them back (plaintext equal,
// signature verified), applies the model's attacks at the byte level (flip / truncate per region, StripMDC) and reads
// to EOF: the observed class must be one the model allows -- never the complete original plaintext with a nil error
// and a verified signature after a modification of a protected region.  GnuPG is the independent implementation in
// both directions (amplifier).
package c44

import (
	"bytes"
	"crypto"
	"encoding/json"
	"fmt"
	"io"
	"os"
	"path/filepath"
	"runtime/debug"
	"strconv"
	"strings"
	"testing"
	"time"

	"crypto/rand"
	"crypto/rsa"

	"golang.org/x/crypto/openpgp"
	"golang.org/x/crypto/openpgp/elgamal"
	pgperr "golang.org/x/crypto/openpgp/errors"
	"golang.org/x/crypto/openpgp/packet"
	_ "golang.org/x/crypto/ripemd160"
	"verif/harness/pgpkit"
	"verif/harness/vutil"
)

// ------------------------------------------------------------------------------------------------ model table

type row struct {
	Kind        string `json:"kind"`
	A           string `json:"a"`
	R           string `json:"r"`
	Known       bool   `json:"known"`
	Class       string `json:"class"`
	Unprotected bool   `json:"unprotected"`
}

type table map[string]map[string]bool // "kind|attack|region" (signer known) -> allowed classes

func (t table) allowed(kind, a, r string) map[string]bool { return t[kind+"|"+a+"|"+r] }

// ------------------------------------------------------------------------------------------------ keys and messages

type keyset struct {
	kind string
	e    *openpgp.Entity
}

var ciphers = map[string]packet.CipherFunction{"3des": packet.Cipher3DES, "cast5": packet.CipherCAST5, "aes128": packet.CipherAES128, "aes192": packet.CipherAES192, "aes256": packet.CipherAES256}
var hashes = map[string]crypto.Hash{"sha1": crypto.SHA1, "sha256": crypto.SHA256, "sha384": crypto.SHA384, "sha512": crypto.SHA512, "ripemd160": crypto.RIPEMD160}
var hashIDs = map[string]uint8{"sha1": 2, "ripemd160": 3, "sha256": 8, "sha384": 9, "sha512": 10}
var comps = map[string]packet.CompressionAlgo{"none": packet.CompressionNone, "zip": packet.CompressionZIP, "zlib": packet.CompressionZLIB}

const passphrase = "verif C44 passphrase"

type mspec struct {
	Kind   string // enc encsig sym symz sig detached detachedtext
	Key    string
	Cipher string
	Hash   string
	Comp   string
	// how the plaintext is handed to the WriteCloser: nil = pieces of at most 4096 octets; otherwise these Write sizes
	// (the partial-length writer cuts every Write call separately, see spec/PGPPartial.tla)
	Writes []int
	Mode   string // label of Writes for case identities: "one", "32k", "pat"
}

func ms(kind, key, cipher, hash, comp string) mspec {
	return mspec{Kind: kind, Key: key, Cipher: cipher, Hash: hash, Comp: comp}
}

func (m mspec) String() string {
	s := fmt.Sprintf("%s/%s/%s/%s/%s", m.Kind, m.Key, m.Cipher, m.Hash, m.Comp)
	if m.Mode != "" {
		s += "/" + m.Mode
	}
	return s
}

// produce builds the message with the package under test.
func produce(m mspec, k keyset, plain []byte) (msg []byte, err error) {
	defer func() {
		if p := recover(); p != nil {
			err = fmt.Errorf("panic: %v", p)
		}
	}()
	cfg := &packet.Config{DefaultHash: hashes[m.Hash], DefaultCipher: ciphers[m.Cipher], DefaultCompressionAlgo: comps[m.Comp]}
	if m.Comp != "none" && m.Comp != "" {
		cfg.CompressionConfig = &packet.CompressionConfig{Level: 6}
	}
	var buf bytes.Buffer
	var w io.WriteCloser
	hints := &openpgp.FileHints{IsBinary: true, FileName: "c44.bin", ModTime: time.Unix(1700000000, 0)}
	// preferences are read from the self-signature of the primary identity: steer cipher and hash through them
	for _, id := range k.e.Identities {
		id.SelfSignature.PreferredSymmetric = []uint8{uint8(ciphers[m.Cipher])}
		id.SelfSignature.PreferredHash = []uint8{hashIDs[m.Hash]}
	}
	switch m.Kind {
	case "enc":
		w, err = openpgp.Encrypt(&buf, []*openpgp.Entity{k.e}, nil, hints, cfg)
	case "encsig":
		w, err = openpgp.Encrypt(&buf, []*openpgp.Entity{k.e}, k.e, hints, cfg)
	case "sym", "symz":
		w, err = openpgp.SymmetricallyEncrypt(&buf, []byte(passphrase), hints, cfg)
	case "sig":
		w, err = openpgp.Sign(&buf, k.e, hints, cfg)
	case "detached":
		err = openpgp.DetachSign(&buf, k.e, bytes.NewReader(plain), cfg)
		return buf.Bytes(), err
	case "detachedtext":
		err = openpgp.DetachSignText(&buf, k.e, bytes.NewReader(plain), cfg)
		return buf.Bytes(), err
	default:
		return nil, fmt.Errorf("unknown kind %s", m.Kind)
	}
	if err != nil {
		return nil, err
	}
	wi := 0
	for rest := plain; len(rest) > 0; {
		n := len(rest)
		if m.Writes != nil {
			if wi < len(m.Writes) && m.Writes[wi] < n {
				n = m.Writes[wi]
			}
			wi++
		} else if n > 4096 {
			n = 1 + (len(rest)*7)%4096
		}
		if _, err = w.Write(rest[:n]); err != nil {
			return nil, err
		}
		rest = rest[n:]
	}
	if err = w.Close(); err != nil {
		return nil, err
	}
	return buf.Bytes(), nil
}

type outcome struct {
	Class    string // detected | unverified | silent | altered-clean
	Detail   string
	Body     []byte
	Verified bool
	Panic    any
	Where    string
}

func isSigned(kind string) bool {
	return kind == "encsig" || kind == "sig" || kind == "detached" || kind == "detachedtext"
}

// consume reads the message to EOF with the package under test and classifies the result as the model does.
func consume(kind string, msg, data []byte, ring openpgp.EntityList, want []byte) (o outcome) {
	defer func() {
		if p := recover(); p != nil {
			o = outcome{Class: "panic", Panic: p, Detail: fmt.Sprint(p), Where: "other"}
			if st := string(debug.Stack()); strings.Contains(st, "(*EncryptedKey).Decrypt") {
				o.Where = "EncryptedKey.Decrypt"
			}
		}
	}()
	if kind == "detached" || kind == "detachedtext" {
		if _, err := openpgp.CheckDetachedSignature(ring, bytes.NewReader(data), bytes.NewReader(msg)); err != nil {
			return outcome{Class: "detected", Detail: "error: " + err.Error()}
		}
		return outcome{Class: "silent", Verified: true}
	}
	asked := 0
	prompt := func(keys []openpgp.Key, symmetric bool) ([]byte, error) {
		asked++
		if asked > 2 || !symmetric {
			return nil, fmt.Errorf("no (further) passphrase")
		}
		return []byte(passphrase), nil
	}
	md, err := openpgp.ReadMessage(bytes.NewReader(msg), ring, prompt, nil)
	if err != nil {
		return outcome{Class: "detected", Detail: "error: ReadMessage: " + err.Error()}
	}
	body, err := io.ReadAll(md.UnverifiedBody)
	o.Body = body
	if err != nil {
		if _, ok := err.(pgperr.SignatureError); ok {
			return outcome{Class: "detected", Detail: "mdcerror: " + err.Error(), Body: body}
		}
		return outcome{Class: "detected", Detail: "error: reading: " + err.Error(), Body: body}
	}
	if md.SignatureError != nil {
		return outcome{Class: "detected", Detail: "sigerror: " + md.SignatureError.Error(), Body: body}
	}
	o.Verified = md.IsSigned && md.SignedBy != nil && (md.Signature != nil || md.SignatureV3 != nil)
	switch {
	case isSigned(kind) && !o.Verified:
		o.Class = "unverified"
	case bytes.Equal(body, want):
		o.Class = "silent"
	default:
		o.Class = "altered-clean"
	}
	return o
}

// ------------------------------------------------------------------------------------------------ packet framing and regions

type span struct{ lo, hi int }

type pkt struct {
	tag        int
	start, end int
	framing    []int  // offsets of tag and length octets (incl. partial-length octets inside the body)
	body       []span // body pieces in wire order
}

func (p *pkt) bodyOffsets() []int {
	var o []int
	for _, s := range p.body {
		for i := s.lo; i < s.hi; i++ {
			o = append(o, i)
		}
	}
	return o
}

func parsePackets(b []byte) ([]pkt, error) {
	var out []pkt
	off := 0
	for off < len(b) {
		p := pkt{start: off}
		t := b[off]
		if t&0x80 == 0 {
			return nil, fmt.Errorf("bad tag at %d", off)
		}
		p.framing = append(p.framing, off)
		off++
		if t&0x40 != 0 { // new format
			p.tag = int(t & 0x3f)
			for {
				if off >= len(b) {
					return nil, fmt.Errorf("truncated length")
				}
				l := int(b[off])
				switch {
				case l < 192:
					p.framing = append(p.framing, off)
					off++
					p.body = append(p.body, span{off, off + l})
					off += l
				case l < 224:
					p.framing = append(p.framing, off, off+1)
					l = (l-192)<<8 + int(b[off+1]) + 192
					off += 2
					p.body = append(p.body, span{off, off + l})
					off += l
				case l == 255:
					p.framing = append(p.framing, off, off+1, off+2, off+3, off+4)
					l = int(b[off+1])<<24 | int(b[off+2])<<16 | int(b[off+3])<<8 | int(b[off+4])
					off += 5
					p.body = append(p.body, span{off, off + l})
					off += l
				default: // partial
					p.framing = append(p.framing, off)
					l = 1 << uint(l&0x1f)
					off++
					p.body = append(p.body, span{off, off + l})
					off += l
					continue
				}
				break
			}
		} else {
			p.tag = int(t>>2) & 0xf
			var l int
			switch t & 3 {
			case 0:
				p.framing = append(p.framing, off)
				l = int(b[off])
				off++
			case 1:
				p.framing = append(p.framing, off, off+1)
				l = int(b[off])<<8 | int(b[off+1])
				off += 2
			case 2:
				p.framing = append(p.framing, off, off+1, off+2, off+3)
				l = int(b[off])<<24 | int(b[off+1])<<16 | int(b[off+2])<<8 | int(b[off+3])
				off += 4
			default:
				l = len(b) - off
			}
			p.body = append(p.body, span{off, off + l})
			off += l
		}
		if off > len(b) {
			return nil, fmt.Errorf("packet overruns")
		}
		p.end = off
		out = append(out, p)
	}
	return out, nil
}

func mpiLen(b []byte, off int) int { return ((int(b[off])<<8 | int(b[off+1])) + 7) / 8 }

// regionsOf labels every byte offset of a message produced by this package with the model's region names.
func regionsOf(kind string, msg []byte, blockSize int) (map[string][]int, error) {
	ps, err := parsePackets(msg)
	if err != nil {
		return nil, err
	}
	reg := map[string][]int{}
	add := func(r string, offs ...int) { reg[r] = append(reg[r], offs...) }
	sigPacket := func(p pkt) error { // v4 signature packet
		bo := p.bodyOffsets()
		// packet.Read does not require a packet's parser to use up the announced length: a larger length octet changes nothing
		add("sigpkt", p.framing[0])
		add("sigslack", p.framing[1:]...)
		if len(bo) < 10 || msg[bo[0]] != 4 {
			return fmt.Errorf("not a v4 signature")
		}
		hl := int(msg[bo[4]])<<8 | int(msg[bo[5]])
		ul := int(msg[bo[6+hl]])<<8 | int(msg[bo[7+hl]])
		add("sigpkt", bo[:8+hl]...)
		add("sigslack", bo[8+hl:8+hl+ul]...)
		i := 8 + hl + ul
		add("sigpkt", bo[i:i+2]...) // hash tag
		i += 2
		for i+2 <= len(bo) {
			n := mpiLen(msg, bo[i])
			add("sigslack", bo[i], bo[i+1])
			add("sigpkt", bo[i+2:i+2+n]...)
			i += 2 + n
		}
		return nil
	}
	switch kind {
	case "detached", "detachedtext":
		if len(ps) != 1 || ps[0].tag != 2 {
			return nil, fmt.Errorf("detached: want one signature packet")
		}
		return reg, sigPacket(ps[0])
	case "sig":
		if len(ps) != 3 || ps[0].tag != 4 || ps[1].tag != 11 || ps[2].tag != 2 {
			return nil, fmt.Errorf("sig: unexpected packet sequence %v", tags(ps))
		}
		bo := ps[0].bodyOffsets()
		add("ops", ps[0].framing[0])
		add("opshint", ps[0].framing[1:]...) // length octet: see sigPacket
		add("ops", bo[0], bo[2])
		// signature type (binary/text only selects how the data is fed to the hash: the same octets unless the data has a bare LF;
		// the type that is signed is the one in the Signature packet), public-key algorithm, nested flag
		add("opshint", bo[1], bo[3], bo[12])
		add("ops", bo[4:12]...)
		lo := ps[1].bodyOffsets()
		hdr := 2 + int(msg[lo[1]]) + 4
		add("lithdr", ps[1].framing[:2]...)
		add("lithdr", lo[:hdr]...)
		add("litbody", ps[1].framing[2:]...)
		add("litbody", lo[hdr:]...)
		return reg, sigPacket(ps[2])
	}
	// encrypted kinds: session-key packets, then one SEIPD packet
	for i, p := range ps {
		bo := p.bodyOffsets()
		switch {
		case p.tag == 1:
			add("esk", p.framing...)
			add("esk", bo[:10]...)
			j := 10
			for j+2 <= len(bo) {
				n := mpiLen(msg, bo[j])
				add("eskslack", bo[j], bo[j+1])
				add("esk", bo[j+2:j+2+n]...)
				j += 2 + n
			}
		case p.tag == 3:
			add("esk", p.framing...)
			if len(bo) > 13+9 && msg[bo[1]] == 2 {
				// encrypted 3DES session key (cipher octet + 24 key octets, CFB with 8-octet blocks: 8+8+8+1): the low bit of every key
				// octet is a DES parity bit.  A flipped ciphertext bit flips exactly that plaintext bit and garbles the NEXT block: in the
				// last block (1 octet) nothing follows, in the block before it only one octet is garbled, which yields an equivalent key
				// with probability 1/128 -- both are "eskslack" in the model (outcome not predicted)
				add("esk", bo[:len(bo)-9]...)
				add("eskslack", bo[len(bo)-9:]...)
			} else {
				add("esk", bo...)
			}
		case p.tag == 18:
			if i != len(ps)-1 {
				return nil, fmt.Errorf("SEIPD is not the last packet")
			}
			add("framing", p.framing...)
			add("ver", bo[0])
			add("prefix", bo[1:1+blockSize+2]...)
			add("inner", bo[1+blockSize+2:len(bo)-22]...)
			add("mdc", bo[len(bo)-22:]...)
		default:
			return nil, fmt.Errorf("unexpected packet tag %d in %v", p.tag, tags(ps))
		}
	}
	if len(reg["ver"]) == 0 {
		return nil, fmt.Errorf("no SEIPD packet in %v", tags(ps))
	}
	return reg, nil
}

func tags(ps []pkt) []int {
	var t []int
	for _, p := range ps {
		t = append(t, p.tag)
	}
	return t
}

// stripMDC rewrites the SEIPD packet (tag 18) as a SymmetricallyEncrypted packet (tag 9) without version octet and without the
// encrypted MDC trailer: the model's StripMDC attack.
func stripMDC(msg []byte) ([]byte, error) {
	ps, err := parsePackets(msg)
	if err != nil {
		return nil, err
	}
	last := ps[len(ps)-1]
	if last.tag != 18 {
		return nil, fmt.Errorf("no SEIPD")
	}
	var body []byte
	for _, s := range last.body {
		body = append(body, msg[s.lo:s.hi]...)
	}
	body = body[1 : len(body)-22]
	out := append([]byte{}, msg[:last.start]...)
	out = append(out, 0xc0|9, 255, byte(len(body)>>24), byte(len(body)>>16), byte(len(body)>>8), byte(len(body)))
	return append(out, body...), nil
}

// model region for table lookup
func modelRegion(kind, r string) []string {
	switch r {
	case "framing":
		return []string{"ver"}
	case "inner":
		switch kind {
		case "enc", "sym":
			return []string{"lithdr", "litbody"}
		case "symz":
			return []string{"comphdr", "lithdr", "litbody"}
		default:
			return []string{"ops", "opshint", "lithdr", "litbody", "sigpkt", "sigslack"}
		}
	}
	return []string{r}
}

// ------------------------------------------------------------------------------------------------ the test

type runner struct {
	t    *testing.T
	out  *vutil.Out
	tab  table
	sigs map[string]int
	cnt  map[string]int
}

func (r *runner) viol(sig, what string, detail any) {
	r.sigs[sig]++
	if r.sigs[sig] <= 3 {
		r.out.Violation(sig, what, detail)
		r.t.Errorf("%s: %s", sig, what)
	}
}

func sample(offs []int, all bool, max int) []int {
	if len(offs) == 0 {
		return nil
	}
	if all {
		if len(offs) > max {
			step := (len(offs) + max - 1) / max
			var o []int
			for i := 0; i < len(offs); i += step {
				o = append(o, offs[i])
			}
			return append(o, offs[len(offs)-1])
		}
		return offs
	}
	o := []int{offs[0]}
	if len(offs) > 2 {
		o = append(o, offs[len(offs)/2])
	}
	if len(offs) > 1 {
		o = append(o, offs[len(offs)-1])
	}
	return o
}

func modelKind(kind string) string {
	if kind == "detachedtext" {
		return "detached"
	}
	return kind
}

// attack applies every model attack to msg and compares the observed class with the model's allowed set.
func (r *runner) attack(m mspec, k keyset, msg, plain []byte, everyByte bool) {
	ring := openpgp.EntityList{k.e}
	mk := modelKind(m.Kind)
	bs := 16
	if m.Cipher == "3des" || m.Cipher == "cast5" {
		bs = 8
	}
	reg, err := regionsOf(m.Kind, msg, bs)
	if err != nil {
		r.viol("pgp-structure:"+m.Kind, "the produced message does not have the packet structure of the model: "+err.Error(), map[string]any{"spec": m.String(), "msg": fmt.Sprintf("%x", msg)})
		return
	}
	judge := func(a, region string, damaged []byte, pos int, mask byte) {
		o := consume(m.Kind, damaged, plain, ring, plain)
		if m.Kind == "detached" || m.Kind == "detachedtext" {
			if region == "litbody" {
				o = consume(m.Kind, msg, damaged, ring, plain)
			}
		}
		r.out.Case(fmt.Sprintf("%s|%s|%s|%d|%02x", m, a, region, pos, mask))
		det := map[string]any{"spec": m.String(), "attack": a, "region": region, "pos": pos, "mask": mask, "observed": o.Class, "detail": o.Detail, "msg": fmt.Sprintf("%x", msg)}
		if o.Class == "panic" {
			r.viol("pgp-panic:"+o.Where, "reading a modified message panicked: "+o.Detail, det)
			return
		}
		allowed := map[string]bool{}
		for _, mr := range modelRegion(mk, region) {
			for c := range r.tab.allowed(mk, a, mr) {
				allowed[c] = true
			}
		}
		if len(allowed) == 0 {
			r.viol("c44-harness", fmt.Sprintf("no model row for %s %s %s", mk, a, region), det)
			return
		}
		r.cnt["attack_"+a+"_"+o.Class]++
		if o.Class == "detected" {
			return
		}
		if !allowed[o.Class] {
			what := "a modified " + m.Kind + " message (" + a + " in " + region + ") is read to EOF with no error"
			switch o.Class {
			case "silent":
				what += ", the complete original plaintext and a verified signature state"
			case "altered-clean":
				what += " and delivers altered data"
			case "unverified":
				what += " although an integrity layer covers the region (signature not verifiable, MDC not enforced)"
			}
			r.viol("pgp-undetected:"+m.Kind+":"+a+":"+region+":"+o.Class, what, det)
		} else {
			r.cnt["unprotected_"+region+"_"+o.Class]++
		}
	}
	for region, offs := range reg {
		for i, pos := range sample(offs, everyByte, 2048) {
			masks := []byte{0x01, 0x80}
			if !everyByte {
				masks = masks[i%2 : i%2+1]
			}
			for _, mask := range masks {
				d := append([]byte{}, msg...)
				d[pos] ^= mask
				judge("flip", region, d, pos, mask)
			}
		}
		cuts := sample(offs, false, 0)
		if everyByte {
			cuts = sample(offs, true, 256)
		}
		for _, pos := range cuts {
			if region == "inner" || region == "framing" {
				continue // the model's truncation points are regions; these map to several
			}
			judge("truncate", region, append([]byte{}, msg[:pos]...), pos, 0)
		}
	}
	if m.Kind == "detached" || m.Kind == "detachedtext" {
		// flips and truncation of the signed data
		for i, pos := range sample(seq(len(plain)), everyByte, 512) {
			d := append([]byte{}, plain...)
			d[pos] ^= []byte{0x01, 0x80}[i%2]
			judge("flip", "litbody", d, pos, 0)
		}
		if len(plain) > 0 {
			judge("truncate", "litbody", plain[:len(plain)/2], len(plain)/2, 0)
		}
		return
	}
	if mk != "sig" {
		if d, err := stripMDC(msg); err != nil {
			r.viol("c44-harness", "stripMDC: "+err.Error(), m.String())
		} else {
			judge("stripmdc", "-", d, -1, 0)
		}
	}
}

func seq(n int) []int {
	o := make([]int, n)
	for i := range o {
		o[i] = i
	}
	return o
}

func pattern(n int, seed int) []byte {
	b := make([]byte, n)
	for i := range b {
		b[i] = byte((i*131 + seed*17 + i/251) % 256)
	}
	if n > 40 { // canonical-text edge cases in the data (for text signatures and as ordinary bytes elsewhere)
		copy(b[3:], "line \t\r\n-dash\n\r\n \n.\r")
	}
	return b
}

func TestC44(t *testing.T) {
	out := vutil.NewOut()
	defer func() {
		if err := out.Write(); err != nil {
			t.Fatal(err)
		}
	}()
	r := &runner{t: t, out: out, tab: table{}, sigs: map[string]int{}, cnt: map[string]int{}}
	defer func() {
		for k, v := range r.cnt {
			out.Extra["c44_"+k] = v
		}
		for k, v := range r.sigs {
			out.Extra["c44_violations_"+k] = v
		}
	}()
	err := vutil.ReadNDJSON(vutil.Env("VERIF_CASES", ""), func(line []byte) error {
		var x row
		if err := json.Unmarshal(line, &x); err != nil {
			return err
		}
		if !x.Known {
			return nil
		}
		k := x.Kind + "|" + x.A + "|" + x.R
		if r.tab[k] == nil {
			r.tab[k] = map[string]bool{}
		}
		r.tab[k][x.Class] = true
		return nil
	})
	if err != nil {
		t.Fatal(err)
	}
	thorough := vutil.Thorough()
	var keys []keyset
	kinds := []string{pgpkit.RSA, pgpkit.DSA1024, pgpkit.ECDSAP256, pgpkit.ECDSAP384}
	if thorough {
		kinds = append(kinds, pgpkit.ECDSAP521)
	}
	for _, kind := range kinds {
		e, err := pgpkit.New(kind, crypto.SHA256)
		if err != nil {
			t.Fatalf("INFRA: key %s: %v", kind, err)
		}
		keys = append(keys, keyset{kind, e})
	}
	encCiphers := []string{"aes128", "aes256", "cast5"}
	symCiphers := []string{"aes128", "aes192", "aes256", "cast5", "3des"}
	hs := []string{"sha256", "sha384", "sha512", "sha1", "ripemd160"}
	sizes := []int{0, 1, 40, 1000, 8191, 8192, 100000}
	// ---- (1) round trips over the supported combinations (full product in the thorough tier, a rotating cover in quick)
	var specs []mspec
	n := 0
	for _, k := range keys {
		for ci, c := range encCiphers {
			for hi, h := range hs {
				n++
				if thorough || (ci+hi+n)%4 == int(vutil.Seed())%4 {
					specs = append(specs, ms("enc", k.kind, c, h, "none"), ms("encsig", k.kind, c, h, "none"))
				}
			}
		}
		for hi, h := range hs {
			// quick: every hash with some key and every key with some hash
			if thorough || hi == (n+int(vutil.Seed()))%len(hs) || keys[(hi+int(vutil.Seed()))%len(keys)].kind == k.kind {
				specs = append(specs, ms("sig", k.kind, "aes128", h, "none"), ms("detached", k.kind, "aes128", h, "none"), ms("detachedtext", k.kind, "aes128", h, "none"))
			}
		}
	}
	for ci, c := range symCiphers {
		for zi, z := range []string{"none", "zip", "zlib"} {
			for hi, h := range []string{"sha256", "sha1", "sha512"} {
				if thorough || (ci+zi+hi)%3 == int(vutil.Seed())%3 {
					kind := "sym"
					if z != "none" {
						kind = "symz"
					}
					specs = append(specs, ms(kind, pgpkit.RSA, c, h, z))
				}
			}
		}
	}
	keyOf := func(kind string) keyset {
		for _, k := range keys {
			if k.kind == kind {
				return k
			}
		}
		return keys[0]
	}
	attacked := map[string]bool{}
	for si, m := range specs {
		k := keyOf(m.Key)
		ring := openpgp.EntityList{k.e}
		for zi, sz := range sizes {
			if !thorough && zi != (si%len(sizes)) && sz != 40 {
				continue
			}
			plain := pattern(sz, si)
			msg, err := produce(m, k, plain)
			if err != nil {
				r.viol("pgp-produce:"+m.Kind, "the package cannot produce the message: "+err.Error(), map[string]any{"spec": m.String(), "size": sz})
				continue
			}
			out.Case(fmt.Sprintf("rt|%s|%d", m, sz))
			o := consume(m.Kind, msg, plain, ring, plain)
			if o.Class != "silent" {
				r.viol("pgp-roundtrip:"+m.Kind, fmt.Sprintf("a %s message is not read back with the original plaintext, no error and a verified signature: %s %s", m.Kind, o.Class, o.Detail),
					map[string]any{"spec": m.String(), "size": sz, "msg": fmt.Sprintf("%x", clip(msg, 4096))})
				continue
			}
			r.cnt["roundtrip_ok"]++
			if len(out.Samples) < 4 && sz == 40 {
				out.Sample(map[string]any{"spec": m.String(), "size": sz, "messageLen": len(msg)})
			}
			// ---- (2) attacks on the 40-byte message of each (kind, key, cipher family, compression) class
			akey := m.Kind + "|" + m.Key + "|" + m.Cipher + "|" + m.Comp
			if thorough {
				akey += "|" + m.Hash
			}
			hkey := m.Kind + "|" + m.Hash // every (signed kind, hash) is attacked at least once, too
			if sz == 40 && (!attacked[akey] || (isSigned(m.Kind) && !attacked[hkey])) {
				attacked[akey], attacked[hkey] = true, true
				r.attack(m, k, msg, plain, thorough)
			}
		}
	}
	// ---- (2a) canonical text under chunked input (spec/CanonText.tla) and text-mode signatures through chunking readers
	r.canonReplay(vutil.Env("VERIF_C44_CANON", ""))
	r.textSignatures(keys)
	// ---- (2b) session-key packets whose decrypted content is shorter than cipher octet + checksum (anyone holding the public key can make them)
	r.shortSessionKey(keys)
	// ---- (2c) partial body lengths: write patterns around every chunk-size boundary (spec/PGPPartial.tla), hand-built chunkings
	r.partialLengths(keys, vutil.Env("VERIF_C44_PARTIAL", ""))
	// ---- (3) GnuPG in both directions
	if vutil.Env("VERIF_C44_GPG", "1") == "1" {
		r.gpg(keys, specs, thorough)
	}
}

func clip(b []byte, n int) []byte {
	if len(b) > n {
		return b[:n]
	}
	return b
}

var gpgCipher = map[string]string{"3des": "3DES", "cast5": "CAST5", "aes128": "AES", "aes192": "AES192", "aes256": "AES256"}
var gpgHash = map[string]string{"sha1": "SHA1", "sha256": "SHA256", "sha384": "SHA384", "sha512": "SHA512", "ripemd160": "RIPEMD160"}

func (r *runner) gpg(keys []keyset, specs []mspec, thorough bool) {
	dir, err := os.MkdirTemp(vutil.Env("VERIF_SCRATCH", ""), "g")
	if err != nil {
		r.t.Fatalf("INFRA: %v", err)
	}
	defer os.RemoveAll(dir)
	g, err := pgpkit.NewGPG(dir)
	if err != nil {
		r.t.Fatalf("INFRA: %v", err)
	}
	if g == nil {
		r.out.Extra["c44_gpg"] = "missing"
		return
	}
	defer g.Close()
	imported := map[string]bool{}
	for _, k := range keys {
		if err := g.ImportPrivate(k.e); err != nil {
			r.out.Extra["c44_gpg_import_"+k.kind] = err.Error()
			continue
		}
		imported[k.kind] = true
	}
	max, _ := strconv.Atoi(vutil.Env("VERIF_C44_GPGMAX", "40"))
	done := 0
	file := func(name string, b []byte) string {
		p := filepath.Join(dir, name)
		os.WriteFile(p, b, 0o600)
		return p
	}
	for si, m := range specs {
		if done >= max {
			break
		}
		if !thorough && si%3 != int(vutil.Seed())%3 {
			continue
		}
		var k keyset
		for _, kk := range keys {
			if kk.kind == m.Key {
				k = kk
			}
		}
		if !imported[k.kind] {
			r.cnt["gpg_skipped_key_not_imported"]++
			continue
		}
		if m.Hash == "sha1" || m.Hash == "ripemd160" || (m.Hash == "sha256" && m.Key == pgpkit.ECDSAP384) || (m.Hash != "sha512" && m.Key == pgpkit.ECDSAP521) {
			if isSigned(m.Kind) {
				continue // gpg's digest policy (weak digests; ECDSA needs a digest as wide as the curve), not the package's business
			}
		}
		done++
		plain := pattern(300+si, si)
		fpr := pgpkit.Fingerprint(k.e)
		ring := openpgp.EntityList{k.e}
		det := map[string]any{"spec": m.String()}
		// Go -> gpg
		msg, err := produce(m, k, plain)
		if err != nil {
			continue
		}
		mf := file(fmt.Sprintf("m%d.gpg", si), msg)
		var so []byte
		var se string
		switch m.Kind {
		case "detached", "detachedtext":
			df := file(fmt.Sprintf("d%d.bin", si), plain)
			_, se, err = g.Run(nil, "--verify", mf, df)
		case "sym", "symz":
			so, se, err = g.Run(nil, "--passphrase", passphrase, "--decrypt", mf)
		default:
			so, se, err = g.Run(nil, "--decrypt", mf)
		}
		r.out.Case("gpg-accepts|" + m.String())
		if err != nil { // a rejection must be reproducible to count (the machine is shared, gpg talks to an agent)
			first := se
			switch m.Kind {
			case "detached", "detachedtext":
				_, se, err = g.Run(nil, "--verify", mf, filepath.Join(dir, fmt.Sprintf("d%d.bin", si)))
			case "sym", "symz":
				so, se, err = g.Run(nil, "--passphrase", passphrase, "--decrypt", mf)
			default:
				so, se, err = g.Run(nil, "--decrypt", mf)
			}
			if err == nil {
				r.cnt["gpg_rejection_not_reproducible"]++
				r.out.Extra["c44_gpg_flaky_first_error"] = first
			}
			det["msg"] = fmt.Sprintf("%x", clip(msg, 4096))
		}
		det["gpg"] = se
		switch {
		case err != nil:
			r.viol("pgp-gpg-rejects:"+m.Kind, "GnuPG does not accept a message produced by the package", det)
		case !strings.HasPrefix(m.Kind, "detached") && !bytes.Equal(so, plain):
			r.viol("pgp-gpg-plaintext:"+m.Kind, "GnuPG decrypts a message produced by the package to different data", det)
		case isSigned(m.Kind) && !strings.Contains(se, "Good signature"):
			r.viol("pgp-gpg-signature:"+m.Kind, "GnuPG does not report a good signature on a message produced by the package", det)
		default:
			r.cnt["gpg_accepts_go"]++
		}
		// gpg -> Go
		pf := file(fmt.Sprintf("p%d.bin", si), plain)
		of := filepath.Join(dir, fmt.Sprintf("o%d.gpg", si))
		args := []string{"--yes", "-o", of, "--cipher-algo", gpgCipher[m.Cipher], "--digest-algo", gpgHash[m.Hash], "--trust-model", "always"}
		switch m.Comp {
		case "zip":
			args = append(args, "--compress-algo", "ZIP")
		case "zlib":
			args = append(args, "--compress-algo", "ZLIB")
		default:
			if si%2 == 0 {
				args = append(args, "--compress-algo", "none")
			} // else gpg's default compression
		}
		switch m.Kind {
		case "enc":
			args = append(args, "-r", fpr, "--encrypt", pf)
		case "encsig":
			args = append(args, "-r", fpr, "-u", fpr, "--sign", "--encrypt", pf)
		case "sym", "symz":
			args = append(args, "--passphrase", passphrase, "--symmetric", pf)
		case "sig":
			args = append(args, "-u", fpr, "--sign", pf)
		case "detached":
			args = append(args, "-u", fpr, "--detach-sign", pf)
		case "detachedtext":
			args = append(args, "-u", fpr, "--textmode", "--detach-sign", pf)
		}
		if _, se, err := g.Run(nil, args...); err != nil {
			r.cnt["gpg_could_not_produce"]++
			if r.cnt["gpg_could_not_produce"] <= 3 {
				r.out.Extra[fmt.Sprintf("c44_gpg_produce_error_%d", r.cnt["gpg_could_not_produce"])] = m.String() + ": " + se
			}
			continue
		}
		gm, err := os.ReadFile(of)
		if err != nil {
			continue
		}
		r.out.Case("go-accepts|" + m.String())
		o := consume(m.Kind, gm, plain, ring, plain)
		if o.Class != "silent" {
			// does GnuPG accept its own output?  (the machine is shared; a message gpg itself rejects says nothing about the package)
			var gerr error
			var gse string
			switch m.Kind {
			case "detached", "detachedtext":
				_, gse, gerr = g.Run(nil, "--verify", of, pf)
			case "sym", "symz":
				_, gse, gerr = g.Run(nil, "--passphrase", passphrase, "--decrypt", of)
			default:
				_, gse, gerr = g.Run(nil, "--decrypt", of)
			}
			if gerr != nil || (isSigned(m.Kind) && !strings.Contains(gse, "Good signature")) {
				r.cnt["gpg_output_rejected_by_gpg_itself"]++
				r.out.Extra["c44_gpg_self_reject"] = m.String() + ": " + gse
				continue
			}
			var kb bytes.Buffer
			k.e.SerializePrivate(&kb, nil)
			det["observed"], det["detail"], det["msg"], det["gpgOnItsOwnOutput"], det["throwawaySecretKey"] = o.Class, o.Detail, fmt.Sprintf("%x", clip(gm, 4096)), gse, fmt.Sprintf("%x", kb.Bytes())
			r.viol("pgp-go-rejects-gpg:"+m.Kind, "a message produced by GnuPG with the same algorithms is not accepted (original data, no error, verified signature)", det)
		} else {
			r.cnt["go_accepts_gpg"]++
		}
	}
	r.gpgTextMode(g, dir, keys, imported)
	r.gpgBig(g, dir, keys, imported)
}

// gpgBig: partial body lengths across implementations.  Messages handed to the package in ONE Write (chunks of 2^16 and more)
// must be readable by GnuPG; GnuPG's own large messages (8 KiB chunks) must be readable here.
func (r *runner) gpgBig(g *pgpkit.GPG, dir string, keys []keyset, imported map[string]bool) {
	var k keyset
	for _, kk := range keys {
		if imported[kk.kind] && (kk.kind == pgpkit.RSA || k.e == nil) {
			k = kk
		}
	}
	if k.e == nil {
		return
	}
	ring := openpgp.EntityList{k.e}
	fpr := pgpkit.Fingerprint(k.e)
	for i, kind := range []string{"enc", "encsig", "sym", "sig"} {
		sz := []int{100000, 131072 + 5, 65523, 200000}[i]
		plain := pattern(sz, i)
		m := mspec{Kind: kind, Key: k.kind, Cipher: "aes256", Hash: "sha256", Comp: "none", Writes: []int{sz}, Mode: "one"}
		msg, err := produce(m, k, plain)
		if err != nil {
			continue
		}
		mf := filepath.Join(dir, fmt.Sprintf("big%d.gpg", i))
		os.WriteFile(mf, msg, 0o600)
		args := []string{"--decrypt", mf}
		if kind == "sym" {
			args = append([]string{"--passphrase", passphrase}, args...)
		}
		r.out.Case("gpg-accepts-big|" + m.String())
		so, se, err := g.Run(nil, args...)
		if err != nil || !bytes.Equal(so, plain) {
			so, se, err = g.Run(nil, args...) // must be reproducible
		}
		if err != nil || !bytes.Equal(so, plain) {
			r.viol("pgp-gpg-rejects-partial:"+kind, fmt.Sprintf("GnuPG does not read a %d-byte %s message written by the package in one Write (largest partial chunk 2^%d)", sz, kind, maxPartialExp(msg)),
				map[string]any{"spec": m.String(), "gpg": se})
		} else {
			r.cnt["gpg_accepts_go_big"]++
		}
		pf := filepath.Join(dir, fmt.Sprintf("bigp%d.bin", i))
		os.WriteFile(pf, plain, 0o600)
		of := filepath.Join(dir, fmt.Sprintf("bigo%d.gpg", i))
		gargs := []string{"--yes", "-o", of, "--compress-algo", "none", "--cipher-algo", "AES256", "--digest-algo", "SHA256"}
		switch kind {
		case "enc":
			gargs = append(gargs, "-r", fpr, "--encrypt", pf)
		case "encsig":
			gargs = append(gargs, "-r", fpr, "-u", fpr, "--sign", "--encrypt", pf)
		case "sym":
			gargs = append(gargs, "--passphrase", passphrase, "--symmetric", pf)
		case "sig":
			gargs = append(gargs, "-u", fpr, "--sign", pf)
		}
		if _, _, err := g.Run(nil, gargs...); err != nil {
			r.cnt["gpg_could_not_produce"]++
			continue
		}
		gm, _ := os.ReadFile(of)
		r.out.Case("go-accepts-big|" + m.String())
		if o := consume(kind, gm, plain, ring, plain); o.Class != "silent" {
			r.viol("pgp-go-rejects-gpg-partial:"+kind, fmt.Sprintf("a %d-byte %s message by GnuPG is not read back: %s %s", sz, kind, o.Class, o.Detail), map[string]any{"spec": m.String()})
		} else {
			r.cnt["go_accepts_gpg_big"]++
		}
	}
}

// gpgTextMode: text-mode signatures between GnuPG and the package with the text cut around every CR on the Go side.
func (r *runner) gpgTextMode(g *pgpkit.GPG, dir string, keys []keyset, imported map[string]bool) {
	var k keyset
	for _, kk := range keys {
		if imported[kk.kind] && (kk.kind == pgpkit.RSA || k.e == nil) {
			k = kk
		}
	}
	if k.e == nil {
		return
	}
	ring := openpgp.EntityList{k.e}
	fpr := pgpkit.Fingerprint(k.e)
	chunkers := pgpkit.Chunkers(vutil.Seed())
	for tn, txt := range crlfTexts() {
		if tn == "big" && !vutil.Thorough() {
			continue
		}
		// texts in which a CR directly precedes a CR LF line end or ends the text: GnuPG drops such CRs from the line, this package
		// hashes them (finding C44-T1); they get their own signature so that every other text-mode difference is still reported
		edge := bytes.Contains(txt, []byte("\r\r\n")) || bytes.HasSuffix(txt, []byte("\r"))
		sigFor := func(s string) string {
			if edge {
				return "pgp-gpg-text-canonicalisation:cr-run-at-line-end"
			}
			return s
		}
		tf := filepath.Join(dir, "t_"+tn+".txt")
		os.WriteFile(tf, txt, 0o600)
		// Go signs while reading the text in pieces, gpg verifies
		for _, sn := range []string{"afterCR", "seeded"} {
			var b bytes.Buffer
			if err := openpgp.DetachSignText(&b, k.e, chunkers[sn](txt), &packet.Config{DefaultHash: crypto.SHA256}); err != nil {
				continue
			}
			sf := filepath.Join(dir, "t_"+tn+"_"+sn+".sig")
			os.WriteFile(sf, b.Bytes(), 0o600)
			r.out.Case("gpg-text-verify|" + tn + "|" + sn)
			if _, se, err := g.Run(nil, "--verify", sf, tf); err != nil {
				if _, se2, err2 := g.Run(nil, "--verify", sf, tf); err2 != nil {
					r.viol(sigFor("pgp-gpg-rejects:detachedtext-chunked"), "GnuPG does not verify a text-mode detached signature made by DetachSignText from a chunked reader",
						map[string]any{"text": tn, "reader": sn, "gpg": se2})
				}
				_ = se
			} else {
				r.cnt["gpg_accepts_go_text"]++
			}
		}
		// gpg signs (detached, text mode), Go verifies through every chunker
		sf := filepath.Join(dir, "g_"+tn+".sig")
		if _, _, err := g.Run(nil, "--yes", "-o", sf, "-u", fpr, "--digest-algo", "SHA256", "--textmode", "--detach-sign", tf); err == nil {
			sig, _ := os.ReadFile(sf)
			for vn, mk := range chunkers {
				r.out.Case("go-text-verify|" + tn + "|" + vn)
				if _, err := openpgp.CheckDetachedSignature(ring, mk(txt), bytes.NewReader(sig)); err != nil {
					r.viol(sigFor("pgp-go-rejects-gpg:detachedtext-chunked"), "a text-mode detached signature by GnuPG does not verify when the text is read in pieces: "+err.Error(),
						map[string]any{"text": tn, "reader": vn})
				} else {
					r.cnt["go_accepts_gpg_text"]++
				}
			}
		} else {
			r.cnt["gpg_could_not_produce"]++
		}
		// gpg writes a text-mode one-pass signed message, Go reads it with small reads
		mf := filepath.Join(dir, "g_"+tn+".gpg")
		if _, _, err := g.Run(nil, "--yes", "-o", mf, "-u", fpr, "--digest-algo", "SHA256", "--compress-algo", "none", "--textmode", "--sign", tf); err == nil {
			msg, _ := os.ReadFile(mf)
			for _, rs := range []int{1, 7, 15, 4096} {
				r.out.Case(fmt.Sprintf("go-text-message|%s|%d", tn, rs))
				md, err := openpgp.ReadMessage(bytes.NewReader(msg), ring, nil, nil)
				if err != nil {
					r.viol("pgp-go-rejects-gpg:textmsg", "a text-mode signed message by GnuPG is not read: "+err.Error(), map[string]any{"text": tn})
					break
				}
				buf := make([]byte, rs)
				var rerr error
				for rerr == nil {
					_, rerr = md.UnverifiedBody.Read(buf)
				}
				if rerr != io.EOF || md.SignatureError != nil || md.SignedBy == nil {
					r.viol(sigFor("pgp-go-rejects-gpg:textmsg"), fmt.Sprintf("a text-mode signed message by GnuPG does not verify when read %d bytes at a time: %v %v", rs, rerr, md.SignatureError),
						map[string]any{"text": tn, "readSize": rs})
				} else {
					r.cnt["go_accepts_gpg_textmsg"]++
				}
			}
		}
	}
}

// shortSessionKey: a public-key session-key packet that decrypts to 0, 1 or 2 octets, followed by an SEIPD packet.
// The property wants reading to fail with an error.
func (r *runner) shortSessionKey(keys []keyset) {
	for _, k := range keys {
		sub := k.e.Subkeys[0]
		for n := 0; n <= 2; n++ {
			var mpis [][]byte
			var algo byte
			block := []byte{9, 1}[:n]
			switch pub := sub.PublicKey.PublicKey.(type) {
			case *rsa.PublicKey:
				c, err := rsa.EncryptPKCS1v15(rand.Reader, pub, block)
				if err != nil {
					continue
				}
				mpis, algo = [][]byte{c}, 1
			case *elgamal.PublicKey:
				c1, c2, err := elgamal.Encrypt(rand.Reader, pub, block)
				if err != nil {
					continue
				}
				mpis, algo = [][]byte{c1.Bytes(), c2.Bytes()}, 16
			default:
				continue
			}
			body := []byte{3}
			for i := 7; i >= 0; i-- {
				body = append(body, byte(sub.PublicKey.KeyId>>(8*uint(i))))
			}
			body = append(body, algo)
			for _, m := range mpis {
				bits := len(m) * 8
				body = append(body, byte(bits>>8), byte(bits))
				body = append(body, m...)
			}
			msg := []byte{0xc0 | 1, 255, byte(len(body) >> 24), byte(len(body) >> 16), byte(len(body) >> 8), byte(len(body))}
			msg = append(msg, body...)
			seipd := append([]byte{1}, make([]byte, 40)...)
			msg = append(msg, 0xc0|18, byte(len(seipd)))
			msg = append(msg, seipd...)
			r.out.Case(fmt.Sprintf("short-session-key|%s|%d", k.kind, n))
			o := consume("enc", msg, nil, openpgp.EntityList{k.e}, nil)
			if o.Class == "panic" {
				r.viol("pgp-panic:"+o.Where, "ReadMessage panics on a session-key packet that decrypts to fewer than 3 octets: "+o.Detail,
					map[string]any{"key": k.kind, "decryptedLen": n, "msg": fmt.Sprintf("%x", msg)})
			} else if o.Class != "detected" {
				r.viol("pgp-short-session-key-accepted", "a session-key packet without key material is accepted", map[string]any{"key": k.kind, "decryptedLen": n})
			} else {
				r.cnt["short_session_key_error"]++
			}
		}
	}
}
