package c44

// Canonical text (text-mode signatures) under chunked input: binding for spec/CanonText.tla.
//  (1) canonReplay: every (text, cut) TLC enumerated is written chunk by chunk into openpgp.NewCanonicalTextHash over a
//      recording hash; the bytes that reach the hash must be the model's.
//  (2) canonBulk: long CRLF texts with seeded cuts (incl. right after every CR) judged by the Go transcription refCanon,
//      which is first validated against all TLC cases.
//  (3) textSignatures: DetachSignText / CheckDetachedSignature through readers that cut the text everywhere around each CR
//      (sign chunked <-> verify whole and vice versa), and text-mode one-pass messages read with 1..k-byte reads.

import (
	"bytes"
	"crypto"
	"encoding/json"
	"fmt"
	"io"
	"strings"

	"golang.org/x/crypto/openpgp"
	"golang.org/x/crypto/openpgp/packet"
	"verif/harness/pgpkit"
	"verif/harness/vutil"
)

type bs []byte

func (b *bs) UnmarshalJSON(d []byte) error {
	var v []int
	if err := json.Unmarshal(d, &v); err != nil {
		return err
	}
	o := make([]byte, len(v))
	for i, x := range v {
		o[i] = byte(x)
	}
	*b = o
	return nil
}

type ctcase struct {
	Txt  bs    `json:"txt"`
	Cuts []int `json:"cuts"`
	Out  bs    `json:"out"`
}

// recHash records what is written to it (a hash.Hash whose "digest" is the whole input).
type recHash struct{ buf bytes.Buffer }

func (r *recHash) Write(p []byte) (int, error) { return r.buf.Write(p) }
func (r *recHash) Sum(in []byte) []byte        { return append(in, r.buf.Bytes()...) }
func (r *recHash) Reset()                      { r.buf.Reset() }
func (r *recHash) Size() int                   { return r.buf.Len() }
func (r *recHash) BlockSize() int              { return 64 }

// refCanon: transcription of Canon in CanonText.tla (a CR protects the byte that follows it; an unprotected LF becomes CR LF).
func refCanon(t []byte) []byte {
	var o []byte
	protected := false
	for _, c := range t {
		switch {
		case protected:
			o = append(o, c)
			protected = false
		case c == '\r':
			o = append(o, c)
			protected = true
		case c == '\n':
			o = append(o, '\r', '\n')
		default:
			o = append(o, c)
		}
	}
	return o
}

func realCanon(txt []byte, cuts []int) (out []byte, panicked any) {
	defer func() {
		if p := recover(); p != nil {
			panicked = p
		}
	}()
	h := &recHash{}
	w := openpgp.NewCanonicalTextHash(h)
	pos := 0
	for _, n := range cuts {
		w.Write(txt[pos : pos+n])
		pos += n
	}
	if pos < len(txt) {
		w.Write(txt[pos:])
	}
	return w.Sum(nil), nil
}

func (r *runner) canonReplay(path string) {
	if path == "" {
		return
	}
	refBad := 0
	err := vutil.ReadNDJSON(path, func(line []byte) error {
		var c ctcase
		if err := json.Unmarshal(line, &c); err != nil {
			return err
		}
		if !bytes.Equal(refCanon(c.Txt), c.Out) {
			refBad++
			return nil
		}
		r.out.Case(fmt.Sprintf("canon|%x|%v", []byte(c.Txt), c.Cuts))
		got, p := realCanon(c.Txt, c.Cuts)
		if p != nil || !bytes.Equal(got, c.Out) {
			r.viol("pgp-canonical-text-chunking", "NewCanonicalTextHash feeds the hash something else than the canonical text when the text arrives in several Write calls",
				map[string]any{"txt": fmt.Sprintf("%q", []byte(c.Txt)), "cuts": c.Cuts, "got": fmt.Sprintf("%q", got), "want": fmt.Sprintf("%q", []byte(c.Out)), "panic": fmt.Sprint(p)})
		} else {
			r.cnt["canon_cases_ok"]++
		}
		return nil
	})
	if err != nil {
		r.t.Fatal(err)
	}
	if refBad > 0 {
		r.t.Fatalf("INFRA: Go transcription of CanonText.tla disagrees with TLC on %d cases", refBad)
	}
	// bulk: long texts, seeded cuts, judged by the transcription just validated
	rng := vutil.Rand(4401)
	for it := 0; it < 60; it++ {
		n := 1 + rng.Intn(3000)
		if it%10 == 0 {
			n = 70000
		}
		txt := make([]byte, n)
		for i := range txt {
			switch rng.Intn(8) {
			case 0:
				txt[i] = '\r'
			case 1:
				txt[i] = '\n'
			default:
				txt[i] = byte(32 + rng.Intn(90))
			}
			if i > 0 && txt[i-1] == '\r' && rng.Intn(3) > 0 {
				txt[i] = '\n'
			}
		}
		var cuts []int
		for pos := 0; pos < n; {
			k := 1 + rng.Intn(200)
			if i := bytes.IndexByte(txt[pos:min(n, pos+k)], '\r'); i >= 0 && rng.Intn(2) == 0 {
				k = i + 1 // right after a CR
			}
			if pos+k > n {
				k = n - pos
			}
			cuts = append(cuts, k)
			pos += k
		}
		r.out.Case(fmt.Sprintf("canonbulk|%d", it))
		got, p := realCanon(txt, cuts)
		if p != nil || !bytes.Equal(got, refCanon(txt)) {
			r.viol("pgp-canonical-text-chunking", "NewCanonicalTextHash feeds the hash something else than the canonical text when the text arrives in several Write calls",
				map[string]any{"len": n, "chunks": len(cuts), "panic": fmt.Sprint(p)})
		}
	}
}

func crlfTexts() map[string][]byte {
	long := []byte(strings.Repeat("0123456789abcdef0123456789abcde\r\n", 3100)) // 33 bytes per line
	// put a CR exactly at offset 32767 (last byte of io.Copy's first 32 KiB chunk) and at 65535
	big := append([]byte(strings.Repeat("x", 32767)), long...)
	big[32767], big[32768] = '\r', '\n'
	big = append(big[:65535:65535], append([]byte("\r\n"), big[65537:]...)...)
	return map[string][]byte{
		"two-lines": []byte("line 1\r\nline 2\r\n"),
		"mixed":     []byte("a\r\n\nb\r\r\nc\n\r\n\r"),
		"dashes":    []byte("- dash\r\n-----BEGIN\r\n \t\r\nlast"),
		"crlf-only": []byte("\r\n\r\n\r\n"),
		"big":       big,
	}
}

// textSignatures: sign and verify text-mode detached signatures through every pair of chunkers; read text-mode one-pass messages
// with small reads.
func (r *runner) textSignatures(keys []keyset) {
	chunkers := pgpkit.Chunkers(vutil.Seed())
	names := []string{"memory", "plain", "onebyte", "afterCR", "seeded", "k7"}
	for ki, k := range keys {
		if !vutil.Thorough() && ki >= 2 {
			break
		}
		ring := openpgp.EntityList{k.e}
		cfg := &packet.Config{DefaultHash: crypto.SHA256}
		if k.kind == pgpkit.ECDSAP384 {
			cfg.DefaultHash = crypto.SHA384
		} else if k.kind == pgpkit.ECDSAP521 {
			cfg.DefaultHash = crypto.SHA512
		}
		for tn, txt := range crlfTexts() {
			sigs := map[string][]byte{}
			for _, sn := range names {
				if tn == "big" && sn == "onebyte" && !vutil.Thorough() {
					continue
				}
				var b bytes.Buffer
				if err := openpgp.DetachSignText(&b, k.e, chunkers[sn](txt), cfg); err != nil {
					r.viol("pgp-produce:detachedtext", "DetachSignText failed: "+err.Error(), map[string]any{"key": k.kind, "text": tn, "reader": sn})
					continue
				}
				sigs[sn] = b.Bytes()
			}
			for sn, sig := range sigs {
				for _, vn := range names {
					if tn == "big" && vn == "onebyte" && !vutil.Thorough() {
						continue
					}
					r.out.Case(fmt.Sprintf("textsig|%s|%s|%s|%s", k.kind, tn, sn, vn))
					if _, err := openpgp.CheckDetachedSignature(ring, chunkers[vn](txt), bytes.NewReader(sig)); err != nil {
						r.viol("pgp-text-signature-chunking:detached", "a text-mode detached signature made while reading the text in one way does not verify when the same text is read in another way: "+err.Error(),
							map[string]any{"key": k.kind, "text": tn, "signedThrough": sn, "verifiedThrough": vn})
					} else {
						r.cnt["textsig_ok"]++
					}
				}
			}
			// a text-mode one-pass signed message (what `gpg --textmode --sign` writes), built at packet level with the signature over
			// the model's canonical form; read back with small reads on UnverifiedBody
			if tn == "big" && !vutil.Thorough() {
				continue
			}
			msg, err := textModeMessage(k, txt, cfg)
			if err != nil {
				r.viol("c44-harness", "cannot build a text-mode message: "+err.Error(), k.kind)
				continue
			}
			for _, rs := range []int{1, 2, 3, 7, 8, 4096, -1} {
				r.out.Case(fmt.Sprintf("textmsg|%s|%s|%d", k.kind, tn, rs))
				md, err := openpgp.ReadMessage(bytes.NewReader(msg), ring, nil, nil)
				if err != nil {
					r.viol("pgp-roundtrip:textmsg", "a text-mode signed message is not read: "+err.Error(), map[string]any{"key": k.kind, "text": tn})
					break
				}
				var body []byte
				buf := make([]byte, 8192)
				for {
					want := rs
					if rs < 0 { // cut right after every CR
						want = len(txt) - len(body)
						if i := bytes.IndexByte(txt[min(len(body), len(txt)):], '\r'); i >= 0 {
							want = i + 1
						}
						if want < 1 {
							want = 1
						}
						if want > len(buf) {
							want = len(buf)
						}
					}
					n, err := md.UnverifiedBody.Read(buf[:want])
					body = append(body, buf[:n]...)
					if err == io.EOF {
						break
					}
					if err != nil {
						r.viol("pgp-text-signature-chunking:message", "reading a text-mode signed message with small reads fails: "+err.Error(), map[string]any{"key": k.kind, "text": tn, "readSize": rs})
						break
					}
				}
				if md.SignatureError != nil || !bytes.Equal(body, txt) || md.SignedBy == nil {
					r.viol("pgp-text-signature-chunking:message", fmt.Sprintf("a text-mode signed message does not verify when UnverifiedBody is read %d bytes at a time: %v", rs, md.SignatureError),
						map[string]any{"key": k.kind, "text": tn, "readSize": rs, "bodyEqual": bytes.Equal(body, txt)})
				} else {
					r.cnt["textmsg_ok"]++
				}
			}
		}
	}
}

// textModeMessage: OnePass(text) . Literal('t') . Signature(text) with the signature computed over refCanon(txt).
func textModeMessage(k keyset, txt []byte, cfg *packet.Config) ([]byte, error) {
	priv := k.e.PrivateKey
	var b bytes.Buffer
	ops := &packet.OnePassSignature{SigType: packet.SigTypeText, Hash: cfg.Hash(), PubKeyAlgo: priv.PubKeyAlgo, KeyId: priv.KeyId, IsLast: true}
	if err := ops.Serialize(&b); err != nil {
		return nil, err
	}
	w, err := packet.SerializeLiteral(nopCloser{&b}, false, "t.txt", 0)
	if err != nil {
		return nil, err
	}
	if _, err := w.Write(txt); err != nil {
		return nil, err
	}
	if err := w.Close(); err != nil {
		return nil, err
	}
	h := cfg.Hash().New()
	h.Write(refCanon(txt))
	sig := &packet.Signature{SigType: packet.SigTypeText, PubKeyAlgo: priv.PubKeyAlgo, Hash: cfg.Hash(), CreationTime: cfg.Now(), IssuerKeyId: &priv.KeyId}
	if err := sig.Sign(h, priv, cfg); err != nil {
		return nil, err
	}
	if err := sig.Serialize(&b); err != nil {
		return nil, err
	}
	return b.Bytes(), nil
}

type nopCloser struct{ io.Writer }

func (nopCloser) Close() error { return nil }
