package c44

// Partial body lengths (RFC 4880 4.2.2.4): binding for spec/PGPPartial.tla.
//  (1) every write pattern TLC enumerated is fed to openpgp.Sign; the literal packet's length octets must be the model's and the
//      message must read back;
//  (2) Sign / Encrypt / Encrypt+Sign / SymmetricallyEncrypt (with and without compression) of messages whose size puts the first
//      chunk at 2^16 and 2^17, handed over in ONE Write and in 32 KiB pieces, must read back;
//  (3) hand-built literal packets with every partial length octet that fits the size budget, in several chunkings and with one-,
//      two- and five-octet closing lengths, must read back.

import (
	"bytes"
	"encoding/json"
	"fmt"
	"io"

	"golang.org/x/crypto/openpgp"
	"verif/harness/vutil"
)

type ppcase struct {
	Pat    []int `json:"pat"`
	Total  int   `json:"total"`
	Octets []int `json:"octets"`
	MaxExp int   `json:"maxExp"`
}

const literalHdr = 13 // format, name length, "c44.bin", date

// lengthOctets returns the partial length octets of a packet (and 0 for a closing one-octet length 0, else the first closing octet).
func lengthOctets(msg []byte, p pkt) []int {
	var o []int
	for _, off := range p.framing[1:] {
		if b := int(msg[off]); b >= 224 && b < 255 {
			o = append(o, b)
		} else {
			o = append(o, b)
			break
		}
	}
	return o
}

func maxPartialExp(msg []byte) int {
	ps, err := parsePackets(msg)
	if err != nil {
		return -1
	}
	m := -1
	for _, p := range ps {
		for _, b := range lengthOctets(msg, p) {
			if b >= 224 && b < 255 && b-224 > m {
				m = b - 224
			}
		}
	}
	return m
}

func (r *runner) partialLengths(keys []keyset, path string) {
	thorough := vutil.Thorough()
	budget := 1 << 18
	if thorough {
		budget = 1 << 23
	}
	var signer keyset
	for _, k := range keys {
		if k.kind == "ecdsa-256" {
			signer = k
		}
	}
	if signer.e == nil {
		signer = keys[0]
	}
	// (1) model patterns on Sign: exact length octets, then read back
	if path != "" {
		err := vutil.ReadNDJSON(path, func(line []byte) error {
			var c ppcase
			if err := json.Unmarshal(line, &c); err != nil {
				return err
			}
			if len(c.Pat) == 0 || c.Pat[0] != literalHdr || c.Total-literalHdr > budget {
				r.cnt["partial_patterns_over_budget"]++
				return nil
			}
			plain := pattern(c.Total-literalHdr, len(c.Pat))
			writes := c.Pat[1:]
			if len(writes) == 0 {
				writes = []int{}
			}
			m := mspec{Kind: "sig", Key: signer.kind, Cipher: "aes128", Hash: "sha256", Comp: "none", Writes: writes, Mode: "pat"}
			msg, err := produce(m, signer, plain)
			r.out.Case(fmt.Sprintf("partial-pattern|%d|%d", c.Total, len(c.Pat)))
			det := map[string]any{"pattern": clipInts(c.Pat, 12), "writes": len(c.Pat), "total": c.Total}
			if err != nil {
				r.viol("pgp-produce:sig", "Sign failed: "+err.Error(), det)
				return nil
			}
			ps, perr := parsePackets(msg)
			if perr != nil || len(ps) != 3 || ps[1].tag != 11 {
				r.viol("pgp-structure:sig", fmt.Sprintf("unexpected packet structure: %v", perr), det)
				return nil
			}
			got := lengthOctets(msg, ps[1])
			if fmt.Sprint(got) != fmt.Sprint(c.Octets) {
				// the exact cut is the writer's choice; the property is the round trip below -- informational
				r.cnt["partial_octets_differ_from_model"]++
			}
			if maxPartialExp(msg) >= 16 {
				r.cnt["partial_chunks_ge16_exercised"]++
			}
			o := consume("sig", msg, plain, openpgp.EntityList{signer.e}, plain)
			if o.Class != "silent" {
				det["observed"], det["detail"], det["lengthOctets"] = o.Class, o.Detail, clipInts(got, 12)
				r.viol("pgp-roundtrip-partial:sig", "a message written with this pattern of Write calls is not read back (partial body lengths)", det)
				return nil
			}
			r.cnt["partial_patterns_ok"]++
			if c.MaxExp >= 16 && maxPartialExp(msg) >= 16 {
				r.cnt["partial_chunks_ge16_read_back"]++
			}
			return nil
		})
		if err != nil {
			r.t.Fatal(err)
		}
	}
	// (2) each producer, big messages, one Write and 32 KiB pieces
	sizes := []int{65522, 65523, 65536, 100000, 131072 + 5}
	if thorough {
		sizes = append(sizes, 262144, 1<<20, 1<<22+3)
	}
	ki := int(vutil.Seed())
	for _, kind := range []string{"sig", "enc", "encsig", "sym", "symz"} {
		for si, sz := range sizes {
			for _, mode := range []string{"one", "32k"} {
				ks := []keyset{keys[(ki+si)%len(keys)]}
				if thorough {
					ks = keys
				}
				for _, k := range ks {
					m := mspec{Kind: kind, Key: k.kind, Cipher: []string{"aes128", "aes256", "cast5"}[si%3], Hash: "sha256", Comp: "none", Mode: mode}
					if kind == "symz" {
						m.Comp = []string{"zip", "zlib"}[si%2]
					}
					if k.kind == "ecdsa-384" {
						m.Hash = "sha384"
					} else if k.kind == "ecdsa-521" {
						m.Hash = "sha512"
					}
					m.Writes = []int{sz}
					if mode == "32k" {
						m.Writes = nil
						for rest := sz; rest > 0; rest -= 32768 {
							m.Writes = append(m.Writes, 32768)
						}
					}
					plain := pattern(sz, si)
					if kind == "symz" { // incompressible data, so that the compressed packet is big as well
						rng := vutil.Rand(int64(4450 + si))
						rng.Read(plain)
					}
					msg, err := produce(m, k, plain)
					r.out.Case(fmt.Sprintf("partial-big|%s|%d", m, sz))
					det := map[string]any{"spec": m.String(), "size": sz}
					if err != nil {
						r.viol("pgp-produce:"+kind, "the package cannot produce the message: "+err.Error(), det)
						continue
					}
					if maxPartialExp(msg) >= 16 {
						r.cnt["partial_chunks_ge16_exercised"]++
					}
					o := consume(kind, msg, plain, openpgp.EntityList{k.e}, plain)
					if o.Class != "silent" {
						det["observed"], det["detail"], det["maxPartialExponent"] = o.Class, o.Detail, maxPartialExp(msg)
						r.viol("pgp-roundtrip-partial:"+kind, fmt.Sprintf("a %d-byte %s message handed over as %s is not read back with the original plaintext", sz, kind, mode), det)
						continue
					}
					r.cnt["partial_big_ok"]++
					if maxPartialExp(msg) >= 16 {
						r.cnt["partial_chunks_ge16_read_back"]++
					}
				}
			}
		}
	}
	// (3) hand-built literal packets: every partial length octet within the budget
	maxK := 17
	if thorough {
		maxK = 22
	}
	finals := []int{0, 1, 191, 192, 8383, 8384}
	for k := 0; k <= maxK; k++ {
		for ci, exps := range [][]int{{k}, {k, k}, {9, k}, {k, 0, 1}, {k, 9, k}} {
			total := finals[(k+ci)%len(finals)]
			for _, e := range exps {
				total += 1 << uint(e)
			}
			if total < 6 || total > 3*budget {
				continue
			}
			data := pattern(total-6, k+ci)
			body := append([]byte{'b', 0, 0x65, 0x53, 0xf1, 0x00}, data...)
			msg := []byte{0xc0 | 11}
			pos := 0
			for _, e := range exps {
				n := 1 << uint(e)
				msg = append(msg, byte(224+e))
				msg = append(msg, body[pos:pos+n]...)
				pos += n
			}
			rest := len(body) - pos
			switch {
			case rest < 192:
				msg = append(msg, byte(rest))
			case rest < 8384:
				msg = append(msg, byte((rest-192)>>8)+192, byte(rest-192))
			default:
				msg = append(msg, 255, byte(rest>>24), byte(rest>>16), byte(rest>>8), byte(rest))
			}
			msg = append(msg, body[pos:]...)
			r.out.Case(fmt.Sprintf("partial-handbuilt|%v|%d", exps, rest))
			if k >= 16 {
				r.cnt["partial_chunks_ge16_exercised"]++
			}
			got, err := readLiteral(msg)
			if err != nil || !bytes.Equal(got, data) {
				r.viol("pgp-read-partial:handbuilt", fmt.Sprintf("a literal packet with partial length octets %v (+ closing length %d) is not read back: %v", exps, rest, err),
					map[string]any{"exponents": exps, "closing": rest, "gotLen": len(got), "wantLen": len(data)})
				continue
			}
			r.cnt["partial_handbuilt_ok"]++
			if k >= 16 {
				r.cnt["partial_chunks_ge16_read_back"]++
			}
		}
	}
}

func readLiteral(msg []byte) (body []byte, err error) {
	defer func() {
		if p := recover(); p != nil {
			err = fmt.Errorf("panic: %v", p)
		}
	}()
	md, err := openpgp.ReadMessage(bytes.NewReader(msg), openpgp.EntityList{}, nil, nil)
	if err != nil {
		return nil, err
	}
	return io.ReadAll(md.UnverifiedBody)
}

func clipInts(a []int, n int) []int {
	if len(a) > n {
		return a[:n]
	}
	return a
}
