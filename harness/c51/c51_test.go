// Conformance harness for C51 (autocert): drives the REAL autocert.Manager through its public
// GetCertificate with a recording HostPolicy, a recording Cache and an in-process fake ACME CA.
//
// TestDecision   (binding R) replays every case of the Autocert decision table TLC enumerated.
// TestConcurrent (binding T) N = 2..16 goroutines call GetCertificate for one name; issuances are
//
//	counted at the CA and the event log is validated by Autocert_Trace.
//
// TestCleanup    a failed issuance is not retried until the delayed clean-up (virtual time).
// TestRenewNext  (binding R) the renewal delay over the grid TLC enumerated from AutocertRenew,
//
//	plus seeded random durations through a Go transcription anchored on that grid.
//
// TestRenewPublic the same defect class through the public API (tiny RenewBefore).
package c51

import (
	"bytes"
	"context"
	"crypto"
	"crypto/ecdsa"
	"crypto/elliptic"
	"crypto/rand"
	"crypto/rsa"
	"crypto/tls"
	"crypto/x509"
	"encoding/json"
	"encoding/pem"
	"fmt"
	"math/big"
	"net/http"
	"os"
	"runtime"
	"strconv"
	"strings"
	"sync"
	"testing"
	"testing/synctest"
	"time"

	"golang.org/x/crypto/acme"
	"golang.org/x/crypto/acme/autocert"
	"verif/harness/acmefake"
	"verif/harness/vutil"
)

var (
	T0       = time.Date(2026, 6, 1, 0, 0, 0, 0, time.UTC) // cached certificates are valid [T0, T0+48h]
	window   = 48 * time.Hour
	keysOnce sync.Once
	ecA, ecB *ecdsa.PrivateKey
	rsA, rsB *rsa.PrivateKey
	acctKey  *ecdsa.PrivateKey
)

func initKeys() {
	keysOnce.Do(func() {
		ecA, _ = ecdsa.GenerateKey(elliptic.P256(), rand.Reader)
		ecB, _ = ecdsa.GenerateKey(elliptic.P256(), rand.Reader)
		acctKey, _ = ecdsa.GenerateKey(elliptic.P256(), rand.Reader)
		rsA, _ = rsa.GenerateKey(rand.Reader, 2048)
		rsB, _ = rsa.GenerateKey(rand.Reader, 2048)
	})
}

func goid() int64 {
	var b [64]byte
	n := runtime.Stack(b[:], false)
	f := strings.Fields(string(b[:n]))
	id, _ := strconv.ParseInt(f[1], 10, 64)
	return id
}

func clockAt(pos string) time.Time {
	switch pos {
	case "pre":
		return T0.Add(-time.Second)
	case "start":
		return T0
	case "end":
		return T0.Add(window)
	case "post":
		return T0.Add(window + time.Second)
	}
	return T0.Add(window / 2)
}

// concrete spellings per name class, and the name they normalise to
func spelling(class string) (input, norm string) {
	const n = "host.verif.test"
	switch class {
	case "plain":
		return n, n
	case "trailingdot":
		return n + ".", n
	case "upper":
		return "HOST.VERIF.TEST", n
	case "mixed":
		return "HoSt.Verif.tEST", n
	case "idn":
		return "bücher.verif.test", "xn--bcher-kva.verif.test"
	case "empty":
		return "", ""
	case "nodot":
		return "localhost", ""
	case "dotsonly":
		return "...", ""
	case "badchar":
		return "ho$t.verif.test", ""
	case "port":
		return "host.verif.test:443", ""
	case "space":
		return "host .verif.test", ""
	}
	panic("unknown name class " + class)
}

type world struct {
	mu       sync.Mutex
	log      []map[string]any
	touches  []string
	gids     map[int64]string
	cache    map[string][]byte
	policyOK bool
	now      time.Time
	ca       *acmefake.CA
	m        *autocert.Manager
	norm     string
	// issuances attributed to the GetCertificate calls under observation (by goroutine), per key type;
	// the Manager's own renewal goroutine (a due certificate is renewed at once) is counted separately
	finByCaller   map[string]int
	finBackground int
	// scheduling pressure for rounds with two key types (never part of a verdict): the first finalize
	// to arrive waits for the second one, and the certificate numbered first is reported last, so that
	// two issuances of DIFFERENT certKeys overlap and complete in the opposite order of their serials
	pairStress   bool
	finArrivals  int
	secondFin    chan struct{}
	secondIssued chan struct{}
	issuedCount  int
}

func (w *world) g() string {
	return w.gids[goid()]
}
func (w *world) ev(e map[string]any) {
	if e["g"] == "" {
		return // not one of the calls under observation (background goroutine of the Manager)
	}
	w.log = append(w.log, e)
}
func (w *world) isCertKey(k string) bool { return k == w.norm || k == w.norm+"+rsa" }

// autocert.Cache
func (w *world) Get(ctx context.Context, key string) ([]byte, error) {
	w.mu.Lock()
	defer w.mu.Unlock()
	if w.isCertKey(key) && w.g() != "" {
		w.touches = append(w.touches, "cacheget")
		w.ev(map[string]any{"ev": "cacheget", "g": w.g(), "key": key})
	}
	if d, ok := w.cache[key]; ok {
		return append([]byte(nil), d...), nil
	}
	return nil, autocert.ErrCacheMiss
}
func (w *world) Put(ctx context.Context, key string, data []byte) error {
	w.mu.Lock()
	defer w.mu.Unlock()
	if w.isCertKey(key) && w.g() != "" {
		w.touches = append(w.touches, "cacheput")
		w.ev(map[string]any{"ev": "cacheput", "g": w.g(), "key": key})
	}
	w.cache[key] = append([]byte(nil), data...)
	return nil
}
func (w *world) Delete(ctx context.Context, key string) error {
	w.mu.Lock()
	defer w.mu.Unlock()
	delete(w.cache, key)
	return nil
}

func (w *world) policy(ctx context.Context, host string) error {
	w.mu.Lock()
	defer w.mu.Unlock()
	w.touches = append(w.touches, "policy")
	w.ev(map[string]any{"ev": "policy", "g": w.g(), "host": host})
	if !w.policyOK {
		return fmt.Errorf("verif: host %q rejected by policy", host)
	}
	return nil
}

func newWorld(policyOK bool, now time.Time, norm string, outcome string) *world {
	initKeys()
	w := &world{secondFin: make(chan struct{}), secondIssued: make(chan struct{}), finByCaller: map[string]int{}, gids: map[int64]string{}, cache: map[string][]byte{}, policyOK: policyOK, now: now, norm: norm}
	w.ca = acmefake.NewCA(func() time.Time { return w.now })
	w.ca.Outcome = func(string, string) string { return outcome }
	w.ca.OnFinalize = func(name, kt string) {
		w.mu.Lock()
		defer w.mu.Unlock()
		if w.g() == "" {
			w.finBackground++
			return
		}
		w.finByCaller[kt]++
		w.touches = append(w.touches, "finalize")
		w.ev(map[string]any{"ev": "finalize", "g": w.g(), "kt": kt})
		if w.pairStress {
			w.finArrivals++
			if w.finArrivals == 2 {
				close(w.secondFin)
			} else if w.finArrivals == 1 {
				ch := w.secondFin
				w.mu.Unlock()
				select {
				case <-ch:
				case <-time.After(3 * time.Second):
				}
				w.mu.Lock()
			}
		}
	}
	w.ca.OnIssued = func(name, kt, o string, serial int) {
		if w.pairStress && serial == 1 {
			select { // let the certificate numbered second be reported first
			case <-w.secondIssued:
			case <-time.After(500 * time.Millisecond):
			}
		}
		w.mu.Lock()
		defer w.mu.Unlock()
		w.ev(map[string]any{"ev": "issued", "g": w.g(), "o": o, "serial": serial})
		if w.pairStress && w.g() != "" {
			w.issuedCount++
			if serial == 2 {
				close(w.secondIssued)
			}
		}
	}
	cl := &acme.Client{Key: acctKey, HTTPClient: &http.Client{Transport: w.ca}, DirectoryURL: acmefake.Base + "/dir"}
	w.m = &autocert.Manager{Prompt: autocert.AcceptTOS, Cache: w, HostPolicy: w.policy, Client: cl}
	autocert.VerifSetNow(w.m, func() time.Time { return w.now })
	return w
}

func pemKey(k crypto.Signer) []byte {
	switch k := k.(type) {
	case *ecdsa.PrivateKey:
		b, _ := x509.MarshalECPrivateKey(k)
		return pem.EncodeToMemory(&pem.Block{Type: "EC PRIVATE KEY", Bytes: b})
	case *rsa.PrivateKey:
		return pem.EncodeToMemory(&pem.Block{Type: "RSA PRIVATE KEY", Bytes: x509.MarshalPKCS1PrivateKey(k)})
	}
	panic("key type")
}
func pemCert(der []byte) []byte {
	return pem.EncodeToMemory(&pem.Block{Type: "CERTIFICATE", Bytes: der})
}

const cachedSerial, tokenSerial = 1000, 5000

// entry builds the cache content of a class for the certKey of key type kt.
func (w *world) entry(class, kt string) []byte {
	var a, b, other crypto.Signer = ecA, ecB, rsA
	if kt == "R" {
		a, b, other = rsA, rsB, ecA
	}
	leaf := func(name string, pub crypto.PublicKey) []byte {
		return w.ca.Leaf(cachedSerial, name, pub, T0, T0.Add(window))
	}
	chain := func(k crypto.Signer, der []byte) []byte {
		return bytes.Join([][]byte{pemKey(k), pemCert(der), pemCert(w.ca.RootDER)}, nil)
	}
	switch class {
	case "good":
		return chain(a, leaf(w.norm, a.Public()))
	case "othername":
		return chain(a, leaf("other.verif.test", a.Public()))
	case "keymismatch":
		return chain(a, leaf(w.norm, b.Public()))
	case "keynegated":
		// the stored private key is n-d for the leaf key d: public point (X, p-Y) -- same X, other Y
		if kt == "R" {
			return chain(a, leaf(w.norm, b.Public())) // no such key for RSA: unrelated key
		}
		c := ecA.Curve.Params()
		neg := &ecdsa.PrivateKey{PublicKey: ecdsa.PublicKey{Curve: ecA.Curve, X: new(big.Int).Set(ecA.X), Y: new(big.Int).Sub(c.P, ecA.Y)},
			D: new(big.Int).Sub(c.N, ecA.D)}
		return chain(neg, leaf(w.norm, ecA.Public()))
	case "wrongtype":
		return chain(other, leaf(w.norm, other.Public()))
	case "nopem":
		return []byte("this is not PEM at all\n")
	case "garbage":
		return append(chain(a, leaf(w.norm, a.Public())), []byte("trailing garbage that is not PEM\n")...)
	case "nokeyblock":
		return bytes.Join([][]byte{pemCert(leaf(w.norm, a.Public())), pemKey(a)}, nil)
	case "badkeyder":
		return bytes.Join([][]byte{pem.EncodeToMemory(&pem.Block{Type: "EC PRIVATE KEY", Bytes: []byte("not a DER key")}), pemCert(leaf(w.norm, a.Public()))}, nil)
	}
	panic("unknown cache class " + class)
}

func (w *world) preload(cacheE, cacheR string) {
	if cacheE != "miss" && cacheE != "" {
		w.cache[w.norm] = w.entry(cacheE, "E")
	}
	if cacheR != "miss" && cacheR != "" {
		w.cache[w.norm+"+rsa"] = w.entry(cacheR, "R")
	}
}

func hello(name, kt string, token bool) *tls.ClientHelloInfo {
	h := &tls.ClientHelloInfo{ServerName: name}
	if kt == "E" {
		h.CipherSuites = []uint16{tls.TLS_ECDHE_RSA_WITH_AES_128_GCM_SHA256, tls.TLS_ECDHE_ECDSA_WITH_AES_128_GCM_SHA256}
		h.SignatureSchemes = []tls.SignatureScheme{tls.PSSWithSHA256, tls.ECDSAWithP256AndSHA256}
		h.SupportedCurves = []tls.CurveID{tls.X25519, tls.CurveP256}
	} else {
		h.CipherSuites = []uint16{tls.TLS_ECDHE_RSA_WITH_AES_128_GCM_SHA256}
		h.SignatureSchemes = []tls.SignatureScheme{tls.PSSWithSHA256}
	}
	if token {
		h.SupportedProtos = []string{acme.ALPNProto}
	}
	return h
}

type got struct {
	T      string `json:"t"`
	Src    string `json:"src"`
	Serial int64  `json:"serial"`
	Err    string `json:"err,omitempty"`
	Panic  string `json:"panic,omitempty"`
	cert   *tls.Certificate
}

func safeGet(m *autocert.Manager, h *tls.ClientHelloInfo) (r got) {
	defer func() {
		if p := recover(); p != nil {
			r = got{T: "panic", Panic: fmt.Sprint(p)}
		}
	}()
	c, err := m.GetCertificate(h)
	if err != nil {
		return got{T: "err", Err: err.Error()}
	}
	r = got{T: "cert", cert: c, Src: "unknown", Serial: -1}
	if len(c.Certificate) > 0 {
		if leaf, e := x509.ParseCertificate(c.Certificate[0]); e == nil {
			r.Serial = leaf.SerialNumber.Int64()
			switch {
			case r.Serial == cachedSerial:
				r.Src = "cache"
			case r.Serial == tokenSerial:
				r.Src = "token"
			case r.Serial > 0 && r.Serial < cachedSerial:
				r.Src = "new"
			}
		}
	}
	return r
}

// validate judges a served non-challenge certificate by the property statement alone.
func validate(c *tls.Certificate, norm, kt string, now time.Time) []string {
	var bad []string
	if c == nil || len(c.Certificate) == 0 {
		return []string{"empty-chain"}
	}
	leaf, err := x509.ParseCertificate(c.Certificate[0])
	if err != nil {
		return []string{"unparsable-leaf"}
	}
	if norm == "" || leaf.VerifyHostname(norm) != nil {
		bad = append(bad, "wrong-name")
	}
	if now.Before(leaf.NotBefore) {
		bad = append(bad, "not-yet-valid")
	}
	if now.After(leaf.NotAfter) {
		bad = append(bad, "expired")
	}
	s, ok := c.PrivateKey.(crypto.Signer)
	type eq interface{ Equal(crypto.PublicKey) bool }
	if !ok {
		bad = append(bad, "no-private-key")
	} else if p, ok := s.Public().(eq); !ok || !p.Equal(leaf.PublicKey) {
		bad = append(bad, "key-mismatch")
	}
	switch leaf.PublicKey.(type) {
	case *ecdsa.PublicKey:
		if kt != "E" {
			bad = append(bad, "key-type")
		}
	case *rsa.PublicKey:
		if kt != "R" {
			bad = append(bad, "key-type")
		}
	default:
		bad = append(bad, "key-type")
	}
	return bad
}

type dcase struct {
	Policy     bool              `json:"policy"`
	Clock      string            `json:"clock"`
	Cache      map[string]string `json:"cache"`
	TokenCache string            `json:"tokenCache"`
	NC         map[string]string `json:"nc"`
	KT         map[string]string `json:"kt"`
	Tok        map[string]bool   `json:"tok"`
	Res        map[string]struct {
		T, Why, Src string
	} `json:"res"`
	Orders     map[string]int        `json:"orders"`
	FinalCache map[string]string     `json:"finalcache"`
	Ev         struct{ T, X string } `json:"ev"`
}

func TestDecision(t *testing.T) {
	out := vutil.NewOut()
	defer func() {
		if err := out.Write(); err != nil {
			t.Fatal(err)
		}
	}()
	rsaBudget := 6
	if v := os.Getenv("C51_RSA_ISSUES"); v != "" {
		fmt.Sscan(v, &rsaBudget)
	}
	rng := vutil.Rand(51)
	skippedRSA, info := 0, map[string]int{}
	negatedRuns := 0 // cases whose ECDSA cache entry holds the negated scalar of the leaf key and reach the cache
	err := vutil.ReadNDJSON(vutil.Env("VERIF_CASES", ""), func(line []byte) error {
		var c dcase
		if err := json.Unmarshal(line, &c); err != nil {
			return err
		}
		nc, kt, tok, want := c.NC["g1"], c.KT["g1"], c.Tok["g1"], c.Res["g1"]
		if kt == "R" && c.Orders["R"] > 0 {
			// RSA issuance generates a 2048-bit key inside the Manager: keep a seeded sample
			if rsaBudget <= 0 || rng.Intn(8) != 0 {
				skippedRSA++
				return nil
			}
			rsaBudget--
		}
		outcome := "ok"
		if c.Ev.T == "finish" {
			outcome = c.Ev.X
		}
		input, norm := spelling(nc)
		w := newWorld(c.Policy, clockAt(c.Clock), norm, outcome)
		if norm != "" {
			w.preload(c.Cache["E"], c.Cache["R"])
			if c.TokenCache == "good" {
				w.cache[norm+"+token"] = bytes.Join([][]byte{pemKey(ecB), pemCert(w.ca.Leaf(tokenSerial, norm, ecB.Public(), T0.Add(-24*time.Hour), T0.Add(30*24*time.Hour)))}, nil)
			}
		}
		w.gids[goid()] = "g1"
		r := safeGet(w.m, hello(input, kt, tok))
		autocert.VerifStopRenew(w.m)
		w.mu.Lock()
		fin := w.finByCaller[kt]
		if w.finBackground > 0 {
			info["renewal-issuance-in-background"]++
		}
		w.mu.Unlock()
		if kt == "E" && c.Cache["E"] == "keynegated" && !tok && c.Policy && norm != "" {
			negatedRuns++
		}
		key := fmt.Sprintf("%s|pol=%v|clock=%s|cache=%s|kt=%s|tok=%v|tc=%s|out=%s", nc, c.Policy, c.Clock, c.Cache[kt], kt, tok, c.TokenCache, outcome)
		out.Case(key)
		detail := map[string]any{"case": json.RawMessage(append([]byte(nil), line...)), "input": input, "got": r, "touches": w.touches, "finalize_requests": fin}
		fail := func(sig, what string) {
			out.Violation(sig, what, detail)
			t.Errorf("%s: %s [%s]", sig, what, key)
		}
		if r.T == "panic" {
			fail("c51-getcertificate-panic", "GetCertificate panicked: "+r.Panic)
			return nil
		}
		// (1) the property itself, judged without the model
		if r.T == "cert" && r.Src != "token" {
			if !c.Policy {
				fail("c51-served-unapproved-name", "a certificate was served for a name the HostPolicy rejects")
			}
			if tok {
				fail("c51-served-regular-cert-to-challenge", "a non-challenge certificate was served to a tls-alpn-01 hello")
			}
			for _, b := range validate(r.cert, norm, kt, w.now) {
				fail("c51-served-invalid-"+b, fmt.Sprintf("served certificate (serial %d) fails the independent validity check: %s", r.Serial, b))
			}
		}
		if r.T == "cert" && r.Src == "token" && !tok {
			fail("c51-served-challenge-cert", "a challenge certificate was served to a regular hello")
		}
		// (2) the model's decision
		undetermined := c.Cache[kt] == "badkeyder" && !tok // error vs. miss is not fixed by the property
		switch {
		case want.T == "cert" && r.T != "cert":
			if undetermined {
				info["badkeyder-differs"]++
			} else {
				fail("c51-decision-mismatch", fmt.Sprintf("model: serve a certificate (%s); real: error %q", want.Src, r.Err))
			}
		case want.T == "err" && r.T == "cert":
			if undetermined {
				info["badkeyder-differs"]++
			} else {
				fail("c51-decision-mismatch", fmt.Sprintf("model: error (%s); real: served certificate serial %d (%s)", want.Why, r.Serial, r.Src))
			}
		case want.T == "cert" && want.Src != r.Src:
			fail("c51-decision-source", fmt.Sprintf("model: certificate from %s; real: from %s (serial %d)", want.Src, r.Src, r.Serial))
		}
		if fin != c.Orders[kt] && !undetermined {
			fail("c51-issuance-count", fmt.Sprintf("CA received %d finalize requests, the model predicts %d", fin, c.Orders[kt]))
		}
		// order of consultation (mechanism, more precise than the property): informational
		if len(w.touches) > 0 && !tok && w.touches[0] != "policy" {
			info["policy-not-first"]++
		}
		if c.FinalCache[kt] == "new" {
			leafInCache := false
			if d := w.cache[certKeyName(norm, kt)]; d != nil && r.cert != nil && len(r.cert.Certificate) > 0 {
				leafInCache = bytes.Contains(d, pemCert(r.cert.Certificate[0]))
			}
			if !leafInCache {
				info["issued-cert-not-cached"]++
			}
		}
		for _, p := range w.ca.TakeProblems() {
			info["ca-nonce-problem: "+p]++
		}
		if len(out.Samples) < 5 && r.T == "cert" {
			out.Sample(map[string]any{"name": input, "policy": c.Policy, "clock": c.Clock, "cache": c.Cache[kt], "kt": kt, "outcome": outcome, "got": r})
		}
		return nil
	})
	out.Extra["c51_rsa_issuance_cases_skipped"] = skippedRSA
	out.Extra["c51_negated_scalar_cache_cases"] = negatedRuns
	for k, v := range info {
		out.Extra["info_"+k] = v
	}
	if err != nil {
		t.Fatal(err)
	}
}

func certKeyName(norm, kt string) string {
	if kt == "R" {
		return norm + "+rsa"
	}
	return norm
}

// ---------------------------------------------------------------------------------------------

func TestConcurrent(t *testing.T) {
	out := vutil.NewOut()
	var tf *os.File
	if p := os.Getenv("VERIF_TRACES"); p != "" {
		tf, _ = os.Create(p)
		defer tf.Close()
	}
	defer func() {
		if err := out.Write(); err != nil {
			t.Fatal(err)
		}
	}()
	rounds, rsaRounds := 40, 2
	if v := os.Getenv("C51_ROUNDS"); v != "" {
		fmt.Sscan(v, &rounds)
	}
	if v := os.Getenv("C51_RSA_ROUNDS"); v != "" {
		fmt.Sscan(v, &rsaRounds)
	}
	rng := vutil.Rand(52)
	spell := []string{"plain", "trailingdot", "upper", "mixed"}
	for r := 0; r < rounds; r++ {
		policyOK := rng.Intn(8) != 0
		cacheE, clock := "miss", "mid"
		switch rng.Intn(5) {
		case 0:
			cacheE = "good"
		case 1:
			cacheE, clock = "good", "post"
		case 2:
			cacheE = []string{"othername", "keymismatch", "keynegated", "wrongtype", "garbage"}[rng.Intn(5)]
		}
		outcome := []string{"ok", "ok", "ok", "cafail", "badcert"}[rng.Intn(5)]
		_, norm := spelling("plain")
		w := newWorld(policyOK, clockAt(clock), norm, outcome)
		w.preload(cacheE, "miss")
		w.ca.Gate = make(chan struct{})
		useRSA := r < rsaRounds
		n := 2 + rng.Intn(15)
		w.pairStress = useRSA && n >= 5 && outcome == "ok" && cacheE != "good" && policyOK && r%2 == 0
		type call struct {
			g, nc, kt string
		}
		w.log = append(w.log, map[string]any{"ev": "cfg", "policy": policyOK, "clock": clock, "cacheE": cacheE, "cacheR": "miss"})
		gno := 0
		results := map[string]got{}
		var rmu sync.Mutex
		wave := func(n int, gate bool) []call {
			var calls []call
			var wg sync.WaitGroup
			start := make(chan struct{})
			for i := 0; i < n; i++ {
				gno++
				c := call{g: "g" + strconv.Itoa(gno), nc: spell[rng.Intn(len(spell))], kt: "E"}
				if useRSA && i%5 == 4 {
					c.kt = "R"
				}
				calls = append(calls, c)
				wg.Add(1)
				go func() {
					defer wg.Done()
					w.mu.Lock()
					w.gids[goid()] = c.g
					w.mu.Unlock()
					<-start
					in, _ := spelling(c.nc)
					w.mu.Lock()
					w.ev(map[string]any{"ev": "call", "g": c.g, "nc": c.nc, "kt": c.kt})
					w.mu.Unlock()
					res := safeGet(w.m, hello(in, c.kt, false))
					w.mu.Lock()
					w.ev(map[string]any{"ev": "ret", "g": c.g, "t": res.T, "src": res.Src, "serial": res.Serial})
					w.mu.Unlock()
					rmu.Lock()
					results[c.g] = res
					rmu.Unlock()
				}()
			}
			close(start)
			if gate {
				// let the callers pile up behind the owner before the CA answers (stress only, no verdict depends on it)
				for i := 0; i < 20; i++ {
					runtime.Gosched()
				}
				time.Sleep(time.Duration(rng.Intn(3)) * time.Millisecond)
				close(w.ca.Gate)
			}
			wg.Wait()
			return calls
		}
		calls := wave(n, true)
		calls = append(calls, wave(1+rng.Intn(4), false)...)
		autocert.VerifStopRenew(w.m)
		out.Case(fmt.Sprintf("round %d n=%d pol=%v cache=%s/%s out=%s rsa=%v", r, len(calls), policyOK, cacheE, clock, outcome, useRSA))
		detail := map[string]any{"round": r, "policy": policyOK, "cache": cacheE, "clock": clock, "outcome": outcome, "calls": calls, "results": results, "log": w.log}
		fail := func(sig, what string) {
			out.Violation(sig, what, detail)
			t.Errorf("%s: %s (round %d)", sig, what, r)
		}
		// E1 judged directly: one issuance per (name, key type) however many callers
		ordersN, _ := w.ca.Counts(norm, "E")
		kts := map[string]bool{}
		for _, c := range calls {
			kts[c.kt] = true
		}
		w.mu.Lock()
		ordersN -= w.finBackground // a renewal's order is not one of the callers'
		finBy := map[string]int{"E": w.finByCaller["E"], "R": w.finByCaller["R"]}
		w.mu.Unlock()
		for kt := range kts {
			fin := finBy[kt]
			if fin > 1 {
				fail("c51-multiple-issuances", fmt.Sprintf("%d concurrent GetCertificate calls for %s (%s) started %d issuances", len(calls), norm, kt, fin))
			}
		}
		if ordersN > len(kts) {
			fail("c51-multiple-issuances", fmt.Sprintf("%d newOrder requests for %s with %d key types requested", ordersN, norm, len(kts)))
		}
		// every served certificate is valid by the property's own terms; all callers of a key type get the same one
		serials := map[string]int64{}
		for _, c := range calls {
			res := results[c.g]
			if res.T == "panic" {
				fail("c51-getcertificate-panic", "GetCertificate panicked: "+res.Panic)
				continue
			}
			if res.T != "cert" {
				continue
			}
			if !policyOK {
				fail("c51-served-unapproved-name", "certificate served although the HostPolicy rejects the name")
			}
			for _, b := range validate(res.cert, norm, c.kt, w.now) {
				fail("c51-served-invalid-"+b, fmt.Sprintf("%s got certificate serial %d failing the independent check: %s", c.g, res.Serial, b))
			}
			if s, ok := serials[c.kt]; ok && s != res.Serial {
				fail("c51-waiters-different-cert", fmt.Sprintf("callers for key type %s got different certificates (serials %d and %d)", c.kt, s, res.Serial))
			}
			serials[c.kt] = res.Serial
		}
		if tf != nil {
			b, _ := json.Marshal(w.log)
			tf.Write(append(b, '\n'))
		}
		if len(out.Samples) < 3 {
			out.Sample(map[string]any{"round": r, "callers": len(calls), "policy": policyOK, "cache": cacheE, "clock": clock, "outcome": outcome, "newOrders": ordersN})
		}
	}
}

// TestCleanup: after a failed issuance the state stays (no new issuance) until createCertRetryAfter
// (1 minute) has passed; virtual time, one goroutine.
func TestCleanup(t *testing.T) {
	out := vutil.NewOut()
	defer func() {
		if err := out.Write(); err != nil {
			t.Fatal(err)
		}
	}()
	for _, kind := range []string{"cafail", "badcert"} {
		synctest.Test(t, func(t *testing.T) {
			_, norm := spelling("plain")
			outcome := kind
			w := newWorld(true, time.Now(), norm, "ok")
			autocert.VerifSetNow(w.m, time.Now)
			w.ca.Now = time.Now
			w.ca.Outcome = func(string, string) string { return outcome }
			w.gids[goid()] = "g1"
			r1 := safeGet(w.m, hello(norm, "E", false))
			f1 := w.finByCaller["E"]
			r2 := safeGet(w.m, hello(norm, "E", false))
			f2 := w.finByCaller["E"]
			time.Sleep(61 * time.Second)
			synctest.Wait()
			outcome = "ok"
			r3 := safeGet(w.m, hello(norm, "E", false))
			f3 := w.finByCaller["E"]
			autocert.VerifStopRenew(w.m)
			out.Case("cleanup-" + kind)
			d := map[string]any{"outcome": kind, "r1": r1, "r2": r2, "r3": r3, "finalizes": []int{f1, f2, f3}}
			out.Sample(d)
			if r1.T == "cert" || r2.T == "cert" {
				out.Violation("c51-served-after-failed-issuance", "a certificate was served although the only issuance failed", d)
				t.Errorf("served after failure")
			}
			if f2 > 1 {
				out.Violation("c51-multiple-issuances", fmt.Sprintf("second call right after a failed issuance started issuance #%d before the clean-up", f2), d)
				t.Errorf("re-issued before cleanup")
			}
			if r3.T != "cert" || f3 != 2 {
				out.Extra["info_cleanup_"+kind] = fmt.Sprintf("after 61 s: result %s, %d issuances (model: certificate, 2)", r3.T, f3)
			} else if bad := validate(r3.cert, norm, "E", time.Now()); len(bad) > 0 {
				out.Violation("c51-served-invalid-"+bad[0], "certificate issued after clean-up fails the independent check", d)
				t.Errorf("invalid after cleanup")
			}
		})
	}
}

// ---------------------------------------------------------------------------------------------

type rcase struct {
	Life int64 `json:"life"`
	RB   int64 `json:"rb"`
	Off  int64 `json:"off"`
	Lo   int64 `json:"lo"`
	Hi   int64 `json:"hi"`
	Thr  int64 `json:"thr"`
	MJ   int64 `json:"mj"`
}

// Go transcription of AutocertRenew.tla (anchored on the TLC-evaluated grid before it is used)
func refWindow(life, rb, off time.Duration) (lo, hi, maxJitter time.Duration) {
	const day30, hour1 = 30 * 24 * time.Hour, time.Hour
	thr := min(life/3, day30)
	if rb > 0 {
		thr = min(rb, day30)
	}
	mj := min(thr/10, hour1)
	lo = max(0, life-thr-off)
	hi = max(0, life-(thr-max(0, mj-1))-off)
	return lo, hi, mj
}

func callNext(rb time.Duration, now, nb, na time.Time) (d time.Duration, pan string) {
	defer func() {
		if p := recover(); p != nil {
			pan = fmt.Sprint(p)
		}
	}()
	return autocert.VerifRenewalNext(rb, now, nb, na), ""
}

func TestRenewNext(t *testing.T) {
	out := vutil.NewOut()
	defer func() {
		if err := out.Write(); err != nil {
			t.Fatal(err)
		}
	}()
	unit := time.Nanosecond
	if os.Getenv("C51_UNIT") == "s" {
		unit = time.Second
	}
	nb := time.Date(2026, 1, 1, 0, 0, 0, 0, time.UTC)
	refBad := 0
	sigCount := map[string]int{}
	report := func(sig, what string, detail any) {
		sigCount[sig]++
		if sigCount[sig] <= 3 { // a few witnesses per signature; the totals go to the evidence
			out.Violation(sig, what, detail)
		}
	}
	defer func() {
		for k, v := range sigCount {
			out.Extra["count_"+k] = v
		}
	}()
	check := func(key string, life, rb, off, lo, hi, mj time.Duration, detail map[string]any) {
		out.Case(key)
		for rep := 0; rep < 3; rep++ {
			d, pan := callNext(rb, nb.Add(off), nb, nb.Add(life))
			if pan != "" {
				autocert.VerifResetPseudoRand() // the panic left the package's jitter lock held: every later call would hang
				sig := "c51-next-panic"
				if mj <= 0 {
					sig = "c51-next-panic-maxjitter0"
				}
				detail["panic"] = pan
				report(sig, fmt.Sprintf("domainRenewal.next panics (%s) for lifetime %v, RenewBefore %v, now = notBefore+%v (jitter bound %v)", pan, life, rb, off, mj), detail)
				t.Errorf("%s: %s", sig, key)
				return
			}
			if d < 0 {
				report("c51-next-negative", fmt.Sprintf("next returned %v for %s", d, key), detail)
				t.Errorf("negative: %s", key)
				return
			}
			if d < lo || d > hi {
				detail["got"] = d.String()
				report("c51-next-outside-window", fmt.Sprintf("next returned %v for %s; documented window [%v, %v]", d, key, lo, hi), detail)
				t.Errorf("outside window: %s got %v want [%v,%v]", key, d, lo, hi)
				return
			}
		}
	}
	err := vutil.ReadNDJSON(vutil.Env("VERIF_CASES", ""), func(line []byte) error {
		var c rcase
		if err := json.Unmarshal(line, &c); err != nil {
			return err
		}
		life, rb, off := time.Duration(c.Life)*unit, time.Duration(c.RB)*unit, time.Duration(c.Off)*unit
		lo := time.Duration(c.Lo) * unit
		mj := time.Duration(c.MJ) * unit
		hi := max(0, life-(time.Duration(c.Thr)*unit-max(0, mj-1))-off) // jitter is drawn in nanoseconds: up to mj-1ns
		// anchor the Go transcription on the TLC-evaluated case
		rlo, rhi, rmj := refWindow(life, rb, off)
		if rlo != lo || rhi != hi || rmj != mj {
			refBad++
		}
		check(fmt.Sprintf("life=%v rb=%v off=%v", life, rb, off), life, rb, off, lo, hi, mj, map[string]any{"case": json.RawMessage(append([]byte(nil), line...)), "unit": unit.String()})
		return nil
	})
	if err != nil {
		t.Fatal(err)
	}
	out.Extra["c51_ref_mismatch"] = refBad
	if refBad > 0 {
		t.Fatalf("harness transcription of AutocertRenew disagrees with TLC on %d cases (infrastructure)", refBad)
	}
	// amplifier: seeded random durations (lifetime 0..3 years, RenewBefore 1ns..60 days or unset, any now)
	n := 2000
	if v := os.Getenv("C51_RANDOM_NEXT"); v != "" {
		fmt.Sscan(v, &n)
	}
	if unit == time.Second {
		rng := vutil.Rand(53)
		scales := []int64{1, 10, 100, 1000, int64(time.Millisecond), int64(time.Second), int64(time.Hour), int64(24 * time.Hour), int64(3 * 365 * 24 * time.Hour)}
		pick := func() time.Duration { return time.Duration(rng.Int63n(scales[rng.Intn(len(scales))] + 1)) }
		for i := 0; i < n; i++ {
			life := pick()
			rb := time.Duration(0)
			if rng.Intn(3) != 0 {
				rb = 1 + time.Duration(rng.Int63n(int64(60*24*time.Hour)))
				if rng.Intn(2) == 0 {
					rb = 1 + pick()%(60*24*time.Hour)
				}
			}
			off := pick() - pick()/2
			lo, hi, mj := refWindow(life, rb, off)
			check(fmt.Sprintf("life=%v rb=%v off=%v", life, rb, off), life, rb, off, lo, hi, mj, map[string]any{"random": i})
		}
	}
}

// TestRenewPublic: the renewal timer is armed inside GetCertificate (cache hit -> startRenew ->
// next); a Manager with a tiny RenewBefore must still serve.
func TestRenewPublic(t *testing.T) {
	out := vutil.NewOut()
	defer func() {
		if err := out.Write(); err != nil {
			t.Fatal(err)
		}
	}()
	for _, rb := range []time.Duration{1, 9, 10, time.Hour} {
		_, norm := spelling("plain")
		w := newWorld(true, clockAt("mid"), norm, "ok")
		w.m.RenewBefore = rb
		w.preload("good", "miss")
		w.gids[goid()] = "g1"
		r := safeGet(w.m, hello(norm, "E", false))
		if r.T == "panic" {
			autocert.VerifResetPseudoRand()
		}
		autocert.VerifStopRenew(w.m)
		out.Case(fmt.Sprintf("RenewBefore=%v", rb))
		d := map[string]any{"RenewBefore": rb.String(), "got": r}
		out.Sample(d)
		switch {
		case r.T == "panic" && rb < 10:
			out.Violation("c51-next-panic-maxjitter0", fmt.Sprintf("GetCertificate panics (%s) for a cached valid certificate when Manager.RenewBefore = %v (renewal jitter bound 0)", r.Panic, rb), d)
			t.Errorf("panic rb=%v", rb)
		case r.T == "panic":
			out.Violation("c51-getcertificate-panic", "GetCertificate panicked: "+r.Panic, d)
			t.Errorf("panic rb=%v", rb)
		case r.T != "cert":
			out.Violation("c51-decision-mismatch", "valid cached certificate not served: "+r.Err, d)
			t.Errorf("not served rb=%v", rb)
		}
	}
}
