// Binding R+E for C08 (SHA-3, SHAKE, cSHAKE and legacy Keccak match FIPS 202 / Keccak; Sum pure,
// Clone independent, Write/Sum after Read panic).
//
// Input: (1) output streams evaluated by TLC from the executable definitions spec/PrimKeccak.tla
// (file VERIF_C08_TAGS, produced by spec/SpongeBuf_Tags.tla); (2) call histories enumerated or
// simulated by TLC from spec/SpongeBuf.tla with the model's prediction for every call
// (VERIF_CASES, produced by spec/SpongeBuf_Gen.tla): outcome ok/panic and which slice of the
// object's output stream Z(m[0..absorbed)) the call returns.
// Drives the real golang.org/x/crypto/sha3 objects (New224..New512, NewShake128/256,
// NewCShake128/256, NewLegacyKeccak256/512 and the one-shot helpers) and compares every returned
// byte and every panic/no-panic with the prediction.  Expected bytes come from the TLC-evaluated
// streams where the case is in the table and otherwise from harness/c08ref, a transcription of
// PrimKeccak that is first validated against every TLC-evaluated stream of the run.
package c08

import (
	"bytes"
	"encoding/hex"
	"encoding/json"
	"fmt"
	"hash"
	"io"
	"os"
	"strconv"
	"testing"

	"golang.org/x/crypto/sha3"
	"verif/harness/c03ref"
	"verif/harness/c08ref"
	"verif/harness/vutil"
)

type tagRec struct {
	Fn    string `json:"fn"`
	Seed  int    `json:"seed"`
	Len   int    `json:"len"`
	Nseed int    `json:"nseed"`
	Nlen  int    `json:"nlen"`
	Sseed int    `json:"sseed"`
	Slen  int    `json:"slen"`
	Z     []int  `json:"z"`
}

type ev struct {
	Op       string `json:"op"`
	O        int    `json:"o"`
	N        int    `json:"n"`
	Pre      string `json:"pre"`
	Res      string `json:"res"`
	Absorbed int    `json:"absorbed"`
	From     int    `json:"from"`
	O2       int    `json:"o2"`
}

// one line of VERIF_CASES: a history for every function of Kind (Fn == "") or for Fn only;
// Sym != 0: the numbers are k*Sym + d and stand for k*rate + d (spec/SpongeBuf_Gen.tla).
type hcase struct {
	Kind string `json:"kind"`
	Fn   string `json:"fn"`
	Sym  int    `json:"sym"`
	H    []ev   `json:"h"`
}

func toBytes(v []int) []byte {
	b := make([]byte, len(v))
	for i, x := range v {
		b[i] = byte(x)
	}
	return b
}

func hx(b []byte) string {
	if len(b) > 48 {
		return hex.EncodeToString(b[:48]) + fmt.Sprintf("...(%d bytes)", len(b))
	}
	return hex.EncodeToString(b)
}

func decode(x, rate, sym int) int {
	if sym == 0 {
		return x
	}
	k := (x + sym/2) / sym
	return k*rate + (x - k*sym)
}

type tkey struct {
	fn                      string
	seed, n, ns, nl, ss, sl int
}

type env struct {
	t     *testing.T
	out   *vutil.Out
	table map[tkey][]byte
	nTLC  int // comparisons judged by TLC-evaluated bytes
	nRef  int // comparisons judged by the validated transcription
}

func (e *env) fail(sig, what string, d map[string]any) {
	e.out.Violation(sig, what, d)
	e.t.Errorf("%s: %s %v", sig, what, d)
}

// anomaly counts deviations from the hash.Hash / io.Reader conventions that the property does not speak about;
// they never affect the verdict (a short Write or Read shows up as a byte mismatch anyway).
func (e *env) anomaly(what string) {
	n, _ := e.out.Extra["info_anomaly: "+what].(int)
	e.out.Extra["info_anomaly: "+what] = n + 1
}

func newObj(f c08ref.Fn, N, S []byte) hash.Hash {
	switch f.Name {
	case "sha3-224":
		return sha3.New224()
	case "sha3-256":
		return sha3.New256()
	case "sha3-384":
		return sha3.New384()
	case "sha3-512":
		return sha3.New512()
	case "shake128":
		return sha3.NewShake128()
	case "shake256":
		return sha3.NewShake256()
	case "cshake128":
		return sha3.NewCShake128(N, S)
	case "cshake256":
		return sha3.NewCShake256(N, S)
	case "keccak256":
		return sha3.NewLegacyKeccak256()
	case "keccak512":
		return sha3.NewLegacyKeccak512()
	}
	panic("unknown function " + f.Name)
}

// call runs fn and reports whether it panicked (and with what).
func call(fn func()) (panicked bool, val any) {
	defer func() {
		if r := recover(); r != nil {
			panicked, val = true, r
		}
	}()
	fn()
	return false, nil
}

// custom is a cSHAKE customisation (N, S) with the generator parameters that identify it in the TLC table.
type custom struct {
	N, S           []byte
	ns, nl, ss, sl int
	inTable        bool
}

func patCustom(ns, nl, ss, sl int) custom {
	return custom{N: c03ref.Pat(ns, nl), S: c03ref.Pat(ss, sl), ns: ns, nl: nl, ss: ss, sl: sl, inTable: true}
}

// expect returns Z(fn, N, S, msg)[0:upto] and whether it came from the TLC-evaluated table.
func (e *env) expect(f c08ref.Fn, cu custom, seed int, msg []byte, upto int) ([]byte, bool) {
	if seed >= 0 && cu.inTable {
		if z, ok := e.table[tkey{f.Name, seed, len(msg), cu.ns, cu.nl, cu.ss, cu.sl}]; ok && len(z) >= upto {
			return z[:upto], true
		}
	}
	return c08ref.XOF(f, cu.N, cu.S, msg, upto), false
}

type object struct {
	h    hash.Hash
	msg  []byte
	dead bool
}

// replay steps one history through real objects of function f.  seed >= 0: the message of every object is the
// pattern stream Pat(seed) (so that TLC-evaluated streams apply); seed < 0: every Write gets fresh random bytes.
func (e *env) replay(f c08ref.Fn, cu custom, seed int, hc *hcase, label string, rnd io.Reader) {
	objs := map[int]*object{1: {h: newObj(f, cu.N, cu.S)}}
	detail := func(i int, extra map[string]any) map[string]any {
		d := map[string]any{"fn": f.Name, "history": hc.H, "sym": hc.Sym, "kind": hc.Kind, "event": i, "label": label, "seed": seed,
			"N": hex.EncodeToString(cu.N), "S": hex.EncodeToString(cu.S)}
		for k, v := range extra {
			d[k] = v
		}
		return d
	}
	for i, x := range hc.H {
		o := objs[x.O]
		if o == nil || o.dead {
			e.t.Fatalf("history addresses a missing/dead object: %+v", hc)
		}
		n := decode(x.N, f.Rate, hc.Sym)
		from := decode(x.From, f.Rate, hc.Sym)
		absorbed := decode(x.Absorbed, f.Rate, hc.Sym)
		var got []byte
		var wantLen int
		var panicked bool
		var pval any
		switch x.Op {
		case "write":
			var data []byte
			if seed >= 0 {
				data = c03ref.Pat(seed, len(o.msg)+n)[len(o.msg):]
			} else {
				data = make([]byte, n)
				rnd.Read(data)
			}
			var wn int
			var werr error
			panicked, pval = call(func() { wn, werr = o.h.Write(data) })
			if !panicked {
				if wn != n || werr != nil {
					e.anomaly("Write did not report len(p), nil: " + f.Name) // not part of the property: informational
				}
				o.msg = append(o.msg, data...)
			}
		case "read":
			rd, ok := o.h.(io.Reader)
			if !ok {
				e.t.Fatalf("%s object is not an io.Reader", f.Name)
			}
			buf := make([]byte, n)
			var rn int
			var rerr error
			panicked, pval = call(func() { rn, rerr = rd.Read(buf) })
			if !panicked && (rn != n || rerr != nil) {
				e.anomaly("Read did not report len(p), nil: " + f.Name) // not part of the property: informational
			}
			got, wantLen = buf, n
		case "sum":
			panicked, pval = call(func() { got = o.h.Sum(nil) })
			from, wantLen = 0, f.OutLen
		case "clone":
			var c hash.Hash
			panicked, pval = call(func() {
				switch h := o.h.(type) {
				case sha3.ShakeHash:
					c = h.Clone()
				case hash.Cloner:
					cc, err := h.Clone()
					if err != nil {
						panic(err)
					}
					c = cc
				default:
					e.t.Fatalf("%s object cannot be cloned", f.Name)
				}
			})
			if !panicked {
				objs[x.O2] = &object{h: c, msg: append([]byte(nil), o.msg...)}
			}
		case "reset":
			panicked, pval = call(func() { o.h.Reset() })
			o.msg = nil
		default:
			e.t.Fatalf("unknown op %q", x.Op)
		}
		if x.Res == "panic" {
			if !panicked {
				e.fail("c08-missing-panic:"+x.Op+":"+f.Kind, x.Op+" after Read did not panic", detail(i, nil))
				return
			}
			o.dead = true
			continue
		}
		if panicked {
			e.fail("c08-unexpected-panic:"+x.Op+":"+f.Kind, fmt.Sprintf("%s panicked: %v", x.Op, pval), detail(i, nil))
			return
		}
		if len(o.msg) != absorbed {
			e.t.Fatalf("harness and model disagree on the absorbed length (%d vs %d) at event %d of %+v", len(o.msg), absorbed, i, hc)
		}
		if x.Op == "read" || x.Op == "sum" {
			z, fromTLC := e.expect(f, cu, seed, o.msg, from+wantLen)
			want := z[from:]
			if fromTLC {
				e.nTLC++
			} else {
				e.nRef++
			}
			if !bytes.Equal(got, want) {
				e.fail("c08-output-mismatch:"+f.Name, fmt.Sprintf("%s returned bytes that differ from the definition", x.Op),
					detail(i, map[string]any{"got": hx(got), "want": hx(want), "from": from, "absorbed": absorbed, "judge_tlc": fromTLC}))
				return
			}
		}
	}
}

func TestReplay(t *testing.T) {
	out := vutil.NewOut()
	defer func() {
		if err := out.Write(); err != nil {
			t.Fatal(err)
		}
	}()
	e := &env{t: t, out: out, table: map[tkey][]byte{}}
	nrand, _ := strconv.Atoi(vutil.Env("VERIF_C08_RANDOM", "1"))
	sweepMax, _ := strconv.Atoi(vutil.Env("VERIF_C08_SWEEP", "0"))

	// ---- (1) TLC-evaluated streams: validate the transcription, compare the real one-shot paths
	var tags []tagRec
	err := vutil.ReadNDJSON(os.Getenv("VERIF_C08_TAGS"), func(line []byte) error {
		var r tagRec
		if err := json.Unmarshal(line, &r); err != nil {
			return err
		}
		f, ok := c08ref.Lookup(r.Fn)
		if !ok {
			return fmt.Errorf("unknown function %q", r.Fn)
		}
		z := toBytes(r.Z)
		cu := patCustom(r.Nseed, r.Nlen, r.Sseed, r.Slen)
		msg := c03ref.Pat(r.Seed, r.Len)
		if !bytes.Equal(c08ref.XOF(f, cu.N, cu.S, msg, len(z)), z) {
			return fmt.Errorf("transcription c08ref differs from the TLC-evaluated definition (%s len %d N %d S %d)", r.Fn, r.Len, r.Nlen, r.Slen)
		}
		k := tkey{r.Fn, r.Seed, r.Len, r.Nseed, r.Nlen, r.Sseed, r.Slen}
		if old, ok := e.table[k]; !ok || len(old) < len(z) {
			e.table[k] = z
		}
		tags = append(tags, r)
		return nil
	})
	if err != nil {
		t.Fatal(err)
	}
	if len(tags) == 0 {
		t.Fatal("no TLC-evaluated streams")
	}
	for _, r := range tags {
		f, _ := c08ref.Lookup(r.Fn)
		z := toBytes(r.Z)
		cu := patCustom(r.Nseed, r.Nlen, r.Sseed, r.Slen)
		msg := c03ref.Pat(r.Seed, r.Len)
		label := fmt.Sprintf("table %s seed%d len%d N%d/%d S%d/%d out%d", r.Fn, r.Seed, r.Len, r.Nseed, r.Nlen, r.Sseed, r.Slen, len(z))
		out.Case("tag|" + label)
		// Write everything, Sum; (readable) Read the whole stream in one call
		h := []ev{{Op: "write", O: 1, N: r.Len, Res: "ok", Absorbed: r.Len}, {Op: "sum", O: 1, Res: "ok", Absorbed: r.Len}}
		if f.Kind != "fixed" {
			h = append(h, ev{Op: "read", O: 1, N: len(z), Res: "ok", Absorbed: r.Len, From: 0})
		}
		e.replay(f, cu, r.Seed, &hcase{Kind: f.Kind, Fn: f.Name, H: h}, label, nil)
		// the one-shot helpers
		var one []byte
		switch r.Fn {
		case "sha3-224":
			d := sha3.Sum224(msg)
			one = d[:]
		case "sha3-256":
			d := sha3.Sum256(msg)
			one = d[:]
		case "sha3-384":
			d := sha3.Sum384(msg)
			one = d[:]
		case "sha3-512":
			d := sha3.Sum512(msg)
			one = d[:]
		case "shake128":
			one = make([]byte, len(z))
			sha3.ShakeSum128(one, msg)
		case "shake256":
			one = make([]byte, len(z))
			sha3.ShakeSum256(one, msg)
		}
		if one != nil {
			e.nTLC++
			if !bytes.Equal(one, z[:len(one)]) {
				e.fail("c08-output-mismatch:"+r.Fn, "one-shot helper differs from the definition",
					map[string]any{"fn": r.Fn, "label": label, "got": hx(one), "want": hx(z[:len(one)])})
			}
		}
	}
	out.Extra["tlc_evaluated_streams"] = len(tags)

	// ---- (2) histories from the model
	rng := vutil.Rand(808)
	nh := 0
	tableCustom := patCustom(0, 0, 11, 15) // SpongeBuf_Tags!NSFirst
	err = vutil.ReadNDJSON(vutil.Env("VERIF_CASES", ""), func(line []byte) error {
		var hc hcase
		if err := json.Unmarshal(line, &hc); err != nil {
			return err
		}
		nh++
		for _, f := range c08ref.Fns {
			if hc.Fn != "" && hc.Fn != f.Name || hc.Fn == "" && hc.Kind != f.Kind {
				continue
			}
			cu := custom{inTable: true}
			if f.DS == 0x04 {
				cu = tableCustom
			}
			key := fmt.Sprintf("%s|%s", f.Name, line)
			out.Case("pat|" + key)
			e.replay(f, cu, 7, &hc, "pattern", nil)
			for r := 0; r < nrand; r++ {
				rc := custom{}
				if f.DS == 0x04 {
					rc.N = make([]byte, []int{0, 0, 1, 5, 33, 170, 300}[rng.Intn(7)])
					rc.S = make([]byte, []int{0, 0, 1, 15, 40, 168, 255}[rng.Intn(7)])
					rng.Read(rc.N)
					rng.Read(rc.S)
				}
				out.Case(fmt.Sprintf("rnd%d|%s", r, key))
				e.replay(f, rc, -1, &hc, fmt.Sprintf("random data #%d (VERIF_SEED %d)", r, vutil.Seed()), rng)
			}
		}
		if nh%4999 == 1 {
			out.Sample(json.RawMessage(append([]byte(nil), line...)))
		}
		return nil
	})
	if err != nil {
		t.Fatal(err)
	}
	out.Extra["histories"] = nh

	// ---- (3) amplifier sweep: every message length 0..sweepMax, random chunking, Sum in the middle, long reads
	if sweepMax > 0 {
		for _, f := range c08ref.Fns {
			for n := 0; n <= sweepMax; n++ {
				var h []ev
				abs := 0
				for abs < n {
					k := []int{0, 1, 7, 8, 9, f.Rate - 1, f.Rate, f.Rate + 1, 2*f.Rate + 3, n}[rng.Intn(10)]
					if rng.Intn(3) == 0 {
						k = rng.Intn(n + 1)
					}
					if abs+k > n {
						k = n - abs
					}
					abs += k
					h = append(h, ev{Op: "write", O: 1, N: k, Res: "ok", Absorbed: abs})
					if rng.Intn(4) == 0 {
						h = append(h, ev{Op: "sum", O: 1, Res: "ok", Absorbed: abs})
					}
				}
				h = append(h, ev{Op: "sum", O: 1, Res: "ok", Absorbed: n})
				if f.Kind != "fixed" {
					pos := 0
					for pos < 1000 && len(h) < 40 {
						k := []int{0, 1, 31, 32, f.Rate - 1, f.Rate, f.Rate + 1, 1000 - pos}[rng.Intn(8)]
						if pos+k > 1000 {
							k = 1000 - pos
						}
						h = append(h, ev{Op: "read", O: 1, N: k, Res: "ok", Absorbed: n, From: pos})
						pos += k
					}
				}
				rc := custom{}
				if f.DS == 0x04 {
					rc.N = make([]byte, rng.Intn(50))
					rc.S = make([]byte, rng.Intn(300))
					rng.Read(rc.N)
					rng.Read(rc.S)
				}
				out.Case(fmt.Sprintf("sweep|%s|%d", f.Name, n))
				e.replay(f, rc, -1, &hcase{Kind: f.Kind, Fn: f.Name, H: h}, fmt.Sprintf("sweep len %d (VERIF_SEED %d)", n, vutil.Seed()), rng)
			}
		}
	}
	out.Extra["comparisons_judged_by_tlc_bytes"] = e.nTLC
	out.Extra["comparisons_judged_by_validated_transcription"] = e.nRef

	// ---- informational only (DESIGN section 9, O2): shakeWrapper.Reset after Read leaves `squeezing` set
	func() {
		h := sha3.NewShake128()
		h.Write([]byte("abc"))
		h.Read(make([]byte, 8))
		h.Reset()
		p, _ := call(func() { h.Sum(nil) })
		out.Extra["info_O2_shake_sum_after_read_reset_panics"] = p
	}()
	// informational: the cSHAKE constructors' treatment of the caller's N/S buffers (Clone/Reset after the caller reuses them)
	func() {
		N, S := []byte("name"), []byte("custom")
		h := sha3.NewCShake128(N, S)
		want := c08ref.XOF(c08ref.Fns[6], []byte("name"), []byte("custom"), []byte("m"), 32)
		N[0], S[0] = 'X', 'Y'
		c := h.Clone()
		c.Reset()
		c.Write([]byte("m"))
		got := make([]byte, 32)
		c.Read(got)
		out.Extra["info_cshake_clone_reset_after_caller_mutates_NS_keeps_identity"] = bytes.Equal(got, want)
	}()
}
