// Reference scrypt written directly from RFC 7914 (sections 3-6), independent of /repo/scrypt:
// byte-oriented Salsa20/8 core, scryptBlockMix, scryptROMix with Integerify, PBKDF2-HMAC-SHA256 from the
// Go standard library (trusted base).  It is anchored by the RFC's own test vectors on every run
// (TestReplay refuses to judge anything if it does not reproduce them).
package c16

import (
	"crypto/pbkdf2"
	"crypto/sha256"
	"encoding/binary"
	"math/bits"
)

// RFC 7914 section 3: salsa20_word_specification with 8 rounds, on a 64-octet string.
func refSalsa208(b *[64]byte) {
	var in, x [16]uint32
	for i := range in {
		in[i] = binary.LittleEndian.Uint32(b[4*i:])
	}
	x = in
	R := bits.RotateLeft32
	for i := 8; i > 0; i -= 2 {
		x[4] ^= R(x[0]+x[12], 7)
		x[8] ^= R(x[4]+x[0], 9)
		x[12] ^= R(x[8]+x[4], 13)
		x[0] ^= R(x[12]+x[8], 18)
		x[9] ^= R(x[5]+x[1], 7)
		x[13] ^= R(x[9]+x[5], 9)
		x[1] ^= R(x[13]+x[9], 13)
		x[5] ^= R(x[1]+x[13], 18)
		x[14] ^= R(x[10]+x[6], 7)
		x[2] ^= R(x[14]+x[10], 9)
		x[6] ^= R(x[2]+x[14], 13)
		x[10] ^= R(x[6]+x[2], 18)
		x[3] ^= R(x[15]+x[11], 7)
		x[7] ^= R(x[3]+x[15], 9)
		x[11] ^= R(x[7]+x[3], 13)
		x[15] ^= R(x[11]+x[7], 18)
		x[1] ^= R(x[0]+x[3], 7)
		x[2] ^= R(x[1]+x[0], 9)
		x[3] ^= R(x[2]+x[1], 13)
		x[0] ^= R(x[3]+x[2], 18)
		x[6] ^= R(x[5]+x[4], 7)
		x[7] ^= R(x[6]+x[5], 9)
		x[4] ^= R(x[7]+x[6], 13)
		x[5] ^= R(x[4]+x[7], 18)
		x[11] ^= R(x[10]+x[9], 7)
		x[8] ^= R(x[11]+x[10], 9)
		x[9] ^= R(x[8]+x[11], 13)
		x[10] ^= R(x[9]+x[8], 18)
		x[12] ^= R(x[15]+x[14], 7)
		x[13] ^= R(x[12]+x[15], 9)
		x[14] ^= R(x[13]+x[12], 13)
		x[15] ^= R(x[14]+x[13], 18)
	}
	for i := range x {
		binary.LittleEndian.PutUint32(b[4*i:], x[i]+in[i])
	}
}

// RFC 7914 section 4: B = B[0] || ... || B[2r-1] (64-octet blocks) -> B' (written to out).
func refBlockMix(out, B []byte, r int) {
	var X [64]byte
	copy(X[:], B[(2*r-1)*64:])
	for i := 0; i < 2*r; i++ {
		for j := 0; j < 64; j++ {
			X[j] ^= B[i*64+j]
		}
		refSalsa208(&X)
		// Y[i] goes to position i/2 (even i) or r + i/2 (odd i)
		if i%2 == 0 {
			copy(out[(i/2)*64:], X[:])
		} else {
			copy(out[(r+i/2)*64:], X[:])
		}
	}
}

// RFC 7914 section 5.
func refROMix(B []byte, r, N int) []byte {
	n := len(B)
	X := append([]byte(nil), B...)
	T := make([]byte, n)
	V := make([]byte, N*n)
	for i := 0; i < N; i++ {
		copy(V[i*n:], X)
		refBlockMix(T, X, r)
		X, T = T, X
	}
	for i := 0; i < N; i++ {
		j := int(binary.LittleEndian.Uint64(X[(2*r-1)*64:]) % uint64(N)) // Integerify(X) mod N
		for k := range T {
			T[k] = X[k] ^ V[j*n+k]
		}
		refBlockMix(X, T, r)
	}
	return X
}

// RFC 7914 section 6 (parameters assumed valid, dkLen >= 1).
func refScrypt(P, S []byte, N, r, p, dkLen int) []byte {
	B, err := pbkdf2.Key(sha256.New, string(P), S, 1, p*128*r)
	if err != nil {
		panic(err)
	}
	for i := 0; i < p; i++ {
		copy(B[i*128*r:], refROMix(B[i*128*r:(i+1)*128*r], r, N))
	}
	out, err := pbkdf2.Key(sha256.New, string(P), B, 1, dkLen)
	if err != nil {
		panic(err)
	}
	return out
}
