// Binding R for C16: every (N, r, p, keyLen) class tuple TLC enumerated from spec/KdfScrypt.tla is
// passed to the REAL scrypt.Key (under recover, in a child process with an address-space limit so
// that a missing guard shows up as a refused allocation and not as an out-of-memory machine) and
// the outcome class is compared with the declarative table (want) of the model; key bytes are
// compared with an independent RFC 7914 transcription (ref.go) anchored by the RFC vectors.
package c16

import (
	"bufio"
	"bytes"
	"context"
	"encoding/hex"
	"encoding/json"
	"fmt"
	"math"
	"os"
	"os/exec"
	"regexp"
	"strings"
	"sync"
	"testing"
	"time"

	"golang.org/x/crypto/pbkdf2"
	"golang.org/x/crypto/scrypt"
	"verif/harness/vutil"

	"crypto/sha256"
)

type num struct {
	Neg bool    `json:"neg"`
	L   []int64 `json:"l"` // little-endian limbs, base 4096
}

// Int converts the limbs to a Go int; the magnitude of math.MinInt (2^63) needs the unsigned detour.
func (n num) Int() int {
	var v uint64
	for i := len(n.L) - 1; i >= 0; i-- {
		v = v*4096 + uint64(n.L[i])
	}
	if n.Neg {
		return int(-int64(v)) // two's complement: -(2^63) is MinInt
	}
	return int(v)
}

type tcase struct {
	N      num    `json:"N"`
	R      num    `json:"r"`
	P      num    `json:"p"`
	KeyLen num    `json:"keyLen"`
	Want   string `json:"want"` // error | key | key-or-error | excluded   (what the property allows)
	Code   string `json:"code"` // the transcription's outcome (repaired code)
	Heavy  bool   `json:"heavy"`
	Valid  bool   `json:"valid"` // N, r, p alone are acceptable
}

// what the child reports per case
type obs struct {
	I       int    `json:"i"`
	Outcome string `json:"outcome"` // error | key | panic | error+key (non-nil slice with an error)
	Key     string `json:"key"`     // hex
	NilKey  bool   `json:"nilkey"`
	Msg     string `json:"msg"`
}

type args struct {
	I               int    `json:"i"`
	Pw, Salt        string // hex
	N, R, P, KeyLen int
}

func pwSalt(i int) (pw, salt []byte) {
	rng := vutil.Rand(int64(1600 + i))
	lens := []int{0, 1, 8, 13, 64, 65, 200}
	pw = make([]byte, lens[rng.Intn(len(lens))])
	salt = make([]byte, lens[rng.Intn(len(lens))])
	rng.Read(pw)
	rng.Read(salt)
	return
}

func realKey(a args) (o obs) {
	o.I = a.I
	pw, _ := hex.DecodeString(a.Pw)
	salt, _ := hex.DecodeString(a.Salt)
	defer func() {
		if e := recover(); e != nil {
			o = obs{I: a.I, Outcome: "panic", Msg: fmt.Sprint(e)}
		}
	}()
	k, err := scrypt.Key(pw, salt, a.N, a.R, a.P, a.KeyLen)
	o.NilKey = k == nil
	o.Key = hex.EncodeToString(k)
	switch {
	case err != nil && k != nil:
		o.Outcome, o.Msg = "error+key", err.Error()
	case err != nil:
		o.Outcome, o.Msg = "error", err.Error()
	default:
		o.Outcome = "key"
	}
	return
}

// TestChild runs the real scrypt.Key on the argument tuples of VERIF_C16_CHILD_IN from index
// VERIF_C16_CHILD_FROM on, appending "begin i" / result lines to VERIF_C16_CHILD_OUT.
func TestChild(t *testing.T) {
	in := os.Getenv("VERIF_C16_CHILD_IN")
	if in == "" {
		t.Skip("child only")
	}
	var from int
	fmt.Sscan(os.Getenv("VERIF_C16_CHILD_FROM"), &from)
	outf, err := os.OpenFile(os.Getenv("VERIF_C16_CHILD_OUT"), os.O_APPEND|os.O_WRONLY|os.O_CREATE, 0o644)
	if err != nil {
		t.Fatal(err)
	}
	defer outf.Close()
	err = vutil.ReadNDJSON(in, func(line []byte) error {
		var a args
		if err := json.Unmarshal(line, &a); err != nil {
			return err
		}
		if a.I < from {
			return nil
		}
		fmt.Fprintf(outf, "begin %d\n", a.I)
		b, _ := json.Marshal(realKey(a))
		fmt.Fprintf(outf, "%s\n", b)
		return nil
	})
	if err != nil {
		t.Fatal(err)
	}
}

// runChildren returns the observation per case index; a child killed by a refused/impossible allocation
// yields Outcome "alloc" for the case it was working on.
func runChildren(t *testing.T, all []args) map[int]obs {
	const K = 4 // partitions, one chain of child processes each
	parts := make([][]args, K)
	for i, a := range all {
		parts[i%K] = append(parts[i%K], a)
	}
	res := map[int]obs{}
	var mu sync.Mutex
	var wg sync.WaitGroup
	errs := make([]string, K)
	for k := 0; k < K; k++ {
		wg.Add(1)
		go func(k int) {
			defer wg.Done()
			r, err := runPartition(t.TempDir(), parts[k])
			mu.Lock()
			defer mu.Unlock()
			for i, o := range r {
				res[i] = o
			}
			errs[k] = err
		}(k)
	}
	wg.Wait()
	for _, e := range errs {
		if e != "" {
			t.Fatal(e)
		}
	}
	return res
}

func runPartition(dir string, all []args) (map[int]obs, string) {
	inp, outp := dir+"/in.ndjson", dir+"/out.txt"
	var buf bytes.Buffer
	for _, a := range all {
		b, _ := json.Marshal(a)
		buf.Write(b)
		buf.WriteByte('\n')
	}
	if err := os.WriteFile(inp, buf.Bytes(), 0o644); err != nil {
		return nil, err.Error()
	}
	res := map[int]obs{}
	from, crashes := 0, 0
	for {
		os.Remove(outp)
		// 8 GiB of address space: far above anything a non-excluded case needs, far below what a missing guard asks for
		// watchdog: a child that does not finish (an accepted tuple that computes for ever) is an infrastructure result, never a verdict
		wd, cancel := context.WithTimeout(context.Background(), 15*time.Minute)
		cmd := exec.CommandContext(wd, "sh", "-c", `ulimit -v 8388608; exec "$0" -test.run='^TestChild$' -test.timeout=1200s`, os.Args[0])
		cmd.Env = append(os.Environ(), "VERIF_C16_CHILD_IN="+inp, "VERIF_C16_CHILD_OUT="+outp, fmt.Sprint("VERIF_C16_CHILD_FROM=", from), "GOMAXPROCS=2")
		var stderr bytes.Buffer
		cmd.Stderr = &stderr
		cmd.Stdout = &stderr
		runErr := cmd.Run()
		timedOut := wd.Err() != nil
		cancel()
		last, done := -1, true
		if f, err := os.Open(outp); err == nil {
			sc := bufio.NewScanner(f)
			sc.Buffer(make([]byte, 1<<20), 1<<26)
			for sc.Scan() {
				l := sc.Text()
				if strings.HasPrefix(l, "begin ") {
					fmt.Sscan(l[6:], &last)
					done = false
					continue
				}
				var o obs
				if json.Unmarshal([]byte(l), &o) == nil && o.Outcome != "" {
					res[o.I] = o
					done = true
				}
			}
			f.Close()
		}
		if runErr == nil {
			return res, ""
		}
		msg := stderr.String()
		if timedOut || strings.Contains(msg, "test timed out") {
			return nil, fmt.Sprintf("watchdog: child did not finish (last case begun: %d); not a verdict\n%s", last, tail(msg, 1500))
		}
		if last < 0 || done {
			return nil, fmt.Sprintf("child failed outside a case: %v\n%s", runErr, tail(msg, 3000))
		}
		// The only death that counts as an observation of the code under test: the Go runtime refused a request of at
		// least 1 GiB (deterministic under the address-space limit, independent of the machine's state) and the request
		// came from scrypt.Key.  Anything else (kernel OOM kill, small allocation failing, unknown crash) is environment.
		m := allocRe.FindStringSubmatch(msg)
		var size uint64
		if m != nil {
			fmt.Sscan(m[1], &size)
		}
		if m == nil || size < 1<<30 || !strings.Contains(msg, "golang.org/x/crypto/scrypt.Key(") {
			return nil, fmt.Sprintf("child died in case %d for a reason that is not a refused huge allocation inside scrypt.Key: %v\n%s", last, runErr, tail(msg, 3000))
		}
		first := msg
		if i := strings.Index(msg, "\n"); i > 0 {
			first = msg[:i]
		}
		res[last] = obs{I: last, Outcome: "alloc", Msg: first}
		from = last + 1
		crashes++
		if crashes > 40 {
			return nil, "too many child crashes"
		}
	}
}

var allocRe = regexp.MustCompile(`out of memory: cannot allocate (\d+)-byte block`)

func tail(s string, n int) string {
	if len(s) > n {
		return s[len(s)-n:]
	}
	return s
}

type vec struct {
	pw, salt string
	N, r, p  int
	hex      string
}

// RFC 7914 section 12 (the 1 GiB vector N=1048576 is left out)
var rfcVectors = []vec{
	{"", "", 16, 1, 1, "77d6576238657b203b19ca42c18a0497f16b4844e3074ae8dfdffa3fede21442fcd0069ded0948f8326a753a0fc81f17e8d3e0fb2e0d3628cf35e20c38d18906"},
	{"password", "NaCl", 1024, 8, 16, "fdbabe1c9d3472007856e7190d01e9fe7c6ad7cbc8237830e77376634b3731622eaf30d92e22a3886ff109279d9830dac727afb94a83ee6d8360cbdfa2cc0640"},
	{"pleaseletmein", "SodiumChloride", 16384, 8, 1, "7023bdcb3afd7348461c06cd81fd38ebfda8fbba904f8e3ea9b543f6545da1f2d5432955613f0fcf62d49705242a9af9e61e85dc0d651e40dfcf017b45575887"},
}

func TestReplay(t *testing.T) {
	out := vutil.NewOut()
	defer func() {
		if err := out.Write(); err != nil {
			t.Fatal(err)
		}
	}()
	// anchor the reference transcription
	for _, v := range rfcVectors {
		if got := hex.EncodeToString(refScrypt([]byte(v.pw), []byte(v.salt), v.N, v.r, v.p, 64)); got != v.hex {
			t.Fatalf("harness reference scrypt does not reproduce RFC 7914 vector N=%d r=%d p=%d", v.N, v.r, v.p)
		}
	}
	var cases []tcase
	var all []args
	err := vutil.ReadNDJSON(vutil.Env("VERIF_CASES", ""), func(line []byte) error {
		var c tcase
		if err := json.Unmarshal(line, &c); err != nil {
			return err
		}
		cases = append(cases, c)
		return nil
	})
	if err != nil {
		t.Fatal(err)
	}
	nv := len(rfcVectors)
	for i, v := range rfcVectors { // the vectors go through the same path (indices 0..nv-1)
		all = append(all, args{I: i, Pw: hex.EncodeToString([]byte(v.pw)), Salt: hex.EncodeToString([]byte(v.salt)), N: v.N, R: v.r, P: v.p, KeyLen: 64})
	}
	excluded, heavy := 0, 0
	for i, c := range cases {
		if c.Want == "excluded" {
			excluded++
			continue
		}
		if c.Heavy && c.Valid { // valid N, r, p that take too long to compute (whatever keyLen is): checked by TLC only
			heavy++
			continue
		}
		pw, salt := pwSalt(i)
		all = append(all, args{I: nv + i, Pw: hex.EncodeToString(pw), Salt: hex.EncodeToString(salt), N: c.N.Int(), R: c.R.Int(), P: c.P.Int(), KeyLen: c.KeyLen.Int()})
	}
	res := runChildren(t, all)
	viol := func(sig, what string, a args, o obs, want string) {
		out.Violation(sig, what, map[string]any{"N": a.N, "r": a.R, "p": a.P, "keyLen": a.KeyLen, "password": a.Pw, "salt": a.Salt,
			"observed": o.Outcome, "message": o.Msg, "allowed": want})
		t.Errorf("%s: N=%d r=%d p=%d keyLen=%d: observed %s (%s), property allows %s", sig, a.N, a.R, a.P, a.KeyLen, o.Outcome, o.Msg, want)
	}
	var samples []map[string]any
	counts := map[string]int{}
	boundary := map[string]int{} // tuples actually run on scrypt.Key with a parameter at an end of the int range
	for _, a := range all {
		o, ok := res[a.I]
		if !ok {
			t.Fatalf("no observation for case %d", a.I)
		}
		want, code := "key", "key"
		if a.I >= nv {
			want, code = cases[a.I-nv].Want, cases[a.I-nv].Code
		}
		key := fmt.Sprintf("%d|%d|%d|%d", a.N, a.R, a.P, a.KeyLen)
		out.Case(key)
		for name, v := range map[string]int{"N": a.N, "r": a.R, "p": a.P, "keyLen": a.KeyLen} {
			if v == math.MinInt {
				boundary[name+"=MinInt"]++
			}
			if v == math.MaxInt {
				boundary[name+"=MaxInt"]++
			}
		}
		counts[want+"->"+o.Outcome]++
		if o.Outcome != code && !(o.Outcome == "panic" && a.KeyLen <= 0) {
			counts["differs-from-transcription"]++
		}
		switch o.Outcome {
		case "panic":
			if a.KeyLen <= 0 && strings.Contains(o.Msg, "keyLength") {
				viol("scrypt-keylen<=0-panics", "scrypt.Key panics for keyLen <= 0 (pbkdf2.Key panics on crypto/pbkdf2's error) instead of returning an error", a, o, want)
			} else {
				viol("scrypt-panic", "scrypt.Key panicked", a, o, want)
			}
			continue
		case "alloc":
			if want != "error" { // a tuple the property accepts ran out of address space: environment, not a verdict
				t.Fatalf("valid tuple N=%d r=%d p=%d keyLen=%d could not allocate under the address-space limit: %s", a.N, a.R, a.P, a.KeyLen, o.Msg)
			}
			viol("scrypt-guard-missed-huge-allocation", "scrypt.Key did not reject parameters the property says yield an error: it went on to allocate", a, o, want)
			continue
		case "error+key":
			viol("scrypt-error-with-non-nil-key", "scrypt.Key returned an error together with a non-nil slice", a, o, want)
			continue
		case "error":
			if want == "key" {
				viol("scrypt-valid-params-rejected", "scrypt.Key returned an error for parameters in the RFC 7914 / documented domain", a, o, want)
			}
			continue
		}
		// a key was returned
		if want == "error" {
			viol("scrypt-invalid-params-accepted", "scrypt.Key returned a key where the property requires (nil, error)", a, o, want)
			continue
		}
		kb, _ := hex.DecodeString(o.Key)
		if len(kb) != a.KeyLen {
			viol("scrypt-key-length", fmt.Sprintf("scrypt.Key returned %d bytes, keyLen = %d", len(kb), a.KeyLen), a, o, want)
			continue
		}
		if a.KeyLen == 0 {
			continue
		}
		pw, _ := hex.DecodeString(a.Pw)
		salt, _ := hex.DecodeString(a.Salt)
		exp := hex.EncodeToString(refScrypt(pw, salt, a.N, a.R, a.P, a.KeyLen))
		if a.I < nv {
			exp = rfcVectors[a.I].hex
		}
		if o.Key != exp {
			o.Msg = "expected " + exp + " got " + o.Key
			viol("scrypt-key-differs-from-rfc7914", "scrypt.Key output differs from RFC 7914 scrypt", a, o, want)
			continue
		}
		if len(samples) < 400 && (a.I%7 == 0 || a.I < nv) {
			samples = append(samples, map[string]any{"pw": a.Pw, "salt": a.Salt, "N": a.N, "r": a.R, "p": a.P, "keyLen": a.KeyLen, "key": o.Key})
		}
		out.Sample(map[string]any{"N": a.N, "r": a.R, "p": a.P, "keyLen": a.KeyLen, "outcome": o.Outcome})
	}
	out.Extra["outcomes"] = counts
	out.Extra["int_range_ends_run"] = boundary
	out.Extra["excluded_not_run"] = excluded
	out.Extra["valid_but_too_slow_not_run"] = heavy
	if p := os.Getenv("VERIF_C16_SAMPLES"); p != "" { // for the hashlib.scrypt amplifier
		var buf bytes.Buffer
		for _, s := range samples {
			b, _ := json.Marshal(s)
			buf.Write(b)
			buf.WriteByte('\n')
		}
		os.WriteFile(p, buf.Bytes(), 0o644)
	}
	// informational (C18's owner): the pbkdf2 wrapper itself
	probe := map[string]string{}
	for _, kl := range []int{-1, 0, 1} {
		func() {
			defer func() {
				if e := recover(); e != nil {
					probe[fmt.Sprint("keyLen=", kl)] = "panic: " + fmt.Sprint(e)
				}
			}()
			k := pbkdf2.Key([]byte("pw"), []byte("salt"), 1, kl, sha256.New)
			probe[fmt.Sprint("keyLen=", kl)] = fmt.Sprintf("%d bytes", len(k))
		}()
	}
	out.Extra["pbkdf2_wrapper_probe_informational"] = probe
}
