// Binding R for C48: every configuration TLC enumerated from spec/OCSP.tla (signer configuration x responder-id
// form x status x issuer given/nil x issuer self-signed or intermediate x cert argument x damaged region) is
// materialised with real RSA/ECDSA keys, certificates made by crypto/x509 and ocsp.CreateResponse, parsed by the
// real ocsp.ParseResponseForCert, and the outcome is compared with the model's decision.  Independently of the
// model, every acceptance with an issuer is re-checked against the property with crypto/x509 on the received bytes.
package c48

import (
	"bytes"
	"crypto"
	"crypto/ecdsa"
	"crypto/elliptic"
	"crypto/rand"
	"crypto/rsa"
	"crypto/sha1"
	_ "crypto/sha256"
	_ "crypto/sha512"
	"crypto/x509"
	"crypto/x509/pkix"
	"encoding/asn1"
	"encoding/json"
	"fmt"
	"math/big"
	mrand "math/rand"
	"strconv"
	"testing"
	"time"

	"golang.org/x/crypto/ocsp"
	"verif/harness/vutil"
)

type embT struct {
	Present  bool   `json:"present"`
	Key      string `json:"key"`
	SignedBy string `json:"signedBy"`
	Eku      bool   `json:"eku"`
}

type tcase struct {
	Signer           string `json:"signer"`
	RespID           string `json:"respId"`
	Status           string `json:"status"`
	IssuerGiven      bool   `json:"issuerGiven"`
	IssuerSelfSigned bool   `json:"issuerSelfSigned"`
	CertArg          string `json:"certArg"`
	Region           string `json:"region"`
	Imp              string `json:"imp"`
	SigKey           string `json:"sigKey"`
	Emb              embT   `json:"emb"`
	Maker            string `json:"maker"`
	D                string `json:"d"`
	Authorized       bool   `json:"authorized"`
	RStatus          string `json:"rstatus"`
	RRespID          string `json:"rrespId"`
	HasCert          bool   `json:"hasCert"`
	// multi-certificate configurations (spec/OCSPCerts.tla)
	Multi    bool     `json:"multi"`
	Certs    []string `json:"certs"`
	Returned int      `json:"returned"`
}

// ------------------------------------------------------------------------------------------------ PKI

type pki struct {
	name string
	keys map[string]crypto.Signer // I D O W R
	// certificates
	iSelf, iInter   *x509.Certificate // the issuer: self-signed root / intermediate under R (same key I)
	dByI, dNoEku    *x509.Certificate // delegated responder certificates issued by I
	dByO, dSelf     *x509.Certificate
	oCA, wCA, rRoot *x509.Certificate
	lByI, oByW      *x509.Certificate // issued by I for key W ("some other subject the issuer certified"); attacker key O certified by W
	leaf7, leaf8    *x509.Certificate // the `cert` argument: serial of the response / another serial
	bigSerial       *big.Int
	imp             map[string]*impSet // "<self|inter>/<subject|keyids|serial|all>": certificates that copy identity attributes of the issuer
}

// impSet: impostor certificates.  None of them involves the issuer's key.
type impSet struct {
	dSelf *x509.Certificate // responder key D, self-signed, looks like the issuer
	oCA   *x509.Certificate // CA key O, self-signed, looks like the issuer ...
	dByO  *x509.Certificate // ... and the responder certificate it issued (issuer DN / authority key id = the real issuer's)
	wCA   *x509.Certificate // CA key W, self-signed, looks like the issuer (signs responses directly)
}

// impersonate copies identity attributes of iss into the template: everything short of the key.
func impersonate(tmpl *x509.Certificate, iss *x509.Certificate, what string) {
	if what == "subject" || what == "all" {
		tmpl.RawSubject = iss.RawSubject
		tmpl.Subject = iss.Subject
	}
	if what == "keyids" || what == "all" {
		tmpl.SubjectKeyId = iss.SubjectKeyId
		tmpl.AuthorityKeyId = iss.AuthorityKeyId
	}
	if what == "serial" || what == "all" {
		tmpl.SerialNumber = iss.SerialNumber
	}
}

func (p *pki) buildImpostors() error {
	p.imp = map[string]*impSet{}
	for _, variant := range []string{"self", "inter"} {
		iss := p.issuer(variant == "self")
		for _, what := range []string{"subject", "keyids", "serial", "all"} {
			mk := func(cn, key string, isCA bool, parent *x509.Certificate, parentKey string, copyAttrs bool) (*x509.Certificate, error) {
				serialCtr++
				tmpl := &x509.Certificate{SerialNumber: big.NewInt(serialCtr), Subject: pkix.Name{CommonName: cn + " " + p.name, Organization: []string{"verif C48"}},
					NotBefore: time.Now().Add(-24 * time.Hour), NotAfter: time.Now().Add(240 * time.Hour), BasicConstraintsValid: true, IsCA: isCA,
					KeyUsage: x509.KeyUsageDigitalSignature}
				if isCA {
					tmpl.KeyUsage |= x509.KeyUsageCertSign | x509.KeyUsageCRLSign
				} else {
					tmpl.ExtKeyUsage = []x509.ExtKeyUsage{x509.ExtKeyUsageOCSPSigning}
				}
				if copyAttrs {
					impersonate(tmpl, iss, what)
				}
				par := parent
				if par == nil {
					par = tmpl
				}
				der, err := x509.CreateCertificate(rand.Reader, tmpl, par, p.keys[key].Public(), p.keys[parentKey])
				if err != nil {
					return nil, err
				}
				return x509.ParseCertificate(der)
			}
			var set impSet
			var err error
			if set.dSelf, err = mk("responder D", "D", false, nil, "D", true); err != nil {
				return err
			}
			if set.oCA, err = mk("other CA O", "O", true, nil, "O", true); err != nil {
				return err
			}
			if set.dByO, err = mk("responder D", "D", false, set.oCA, "O", what == "serial"); err != nil {
				return err
			}
			if set.wCA, err = mk("wrong issuer W", "W", true, nil, "W", true); err != nil {
				return err
			}
			p.imp[variant+"/"+what] = &set
		}
	}
	return nil
}

func genKey(kind string) (crypto.Signer, error) {
	switch kind {
	case "rsa":
		return rsa.GenerateKey(rand.Reader, 2048)
	case "p256":
		return ecdsa.GenerateKey(elliptic.P256(), rand.Reader)
	case "p384":
		return ecdsa.GenerateKey(elliptic.P384(), rand.Reader)
	case "p521":
		return ecdsa.GenerateKey(elliptic.P521(), rand.Reader)
	}
	return nil, fmt.Errorf("unknown key kind %s", kind)
}

var serialCtr = int64(1000)

func mkCert(cn string, pub crypto.PublicKey, parent *x509.Certificate, parentKey crypto.Signer, isCA bool, eku []x509.ExtKeyUsage, serial *big.Int) (*x509.Certificate, error) {
	serialCtr++
	if serial == nil {
		serial = big.NewInt(serialCtr)
	}
	tmpl := &x509.Certificate{
		SerialNumber: serial, Subject: pkix.Name{CommonName: cn, Organization: []string{"verif C48"}},
		NotBefore: time.Now().Add(-24 * time.Hour), NotAfter: time.Now().Add(240 * time.Hour),
		BasicConstraintsValid: true, IsCA: isCA, ExtKeyUsage: eku,
	}
	if isCA {
		tmpl.KeyUsage = x509.KeyUsageCertSign | x509.KeyUsageCRLSign | x509.KeyUsageDigitalSignature
	} else {
		tmpl.KeyUsage = x509.KeyUsageDigitalSignature
	}
	p := parent
	if p == nil {
		p = tmpl // self-signed
	}
	der, err := x509.CreateCertificate(rand.Reader, tmpl, p, pub, parentKey)
	if err != nil {
		return nil, err
	}
	return x509.ParseCertificate(der)
}

// newPKI: kinds = key kinds of I, D, O, W, R.
func newPKI(name string, kinds [5]string) (*pki, error) {
	p := &pki{name: name, keys: map[string]crypto.Signer{}}
	for i, k := range []string{"I", "D", "O", "W", "R"} {
		key, err := genKey(kinds[i])
		if err != nil {
			return nil, err
		}
		p.keys[k] = key
	}
	var err error
	step := func(c **x509.Certificate, cn string, key string, parent *x509.Certificate, parentKey string, isCA bool, eku []x509.ExtKeyUsage, serial *big.Int) {
		if err != nil {
			return
		}
		*c, err = mkCert(cn+" "+name, p.keys[key].Public(), parent, p.keys[parentKey], isCA, eku, serial)
	}
	ocspEKU := []x509.ExtKeyUsage{x509.ExtKeyUsageOCSPSigning}
	step(&p.rRoot, "root R", "R", nil, "R", true, nil, nil)
	step(&p.iSelf, "issuer I", "I", nil, "I", true, nil, nil)
	step(&p.iInter, "issuer I", "I", p.rRoot, "R", true, nil, nil)
	step(&p.oCA, "other CA O", "O", nil, "O", true, nil, nil)
	step(&p.wCA, "wrong issuer W", "W", nil, "W", true, nil, nil)
	step(&p.dByI, "responder D", "D", p.iSelf, "I", false, ocspEKU, nil)
	step(&p.dNoEku, "responder D", "D", p.iSelf, "I", false, nil, nil)
	step(&p.dByO, "responder D", "D", p.oCA, "O", false, ocspEKU, nil)
	step(&p.dSelf, "responder D", "D", nil, "D", false, ocspEKU, nil)
	p.bigSerial, _ = new(big.Int).SetString("00c3a1f2e4d5b6a798897a6b5c4d3e2f1a0b9c8d", 16)
	step(&p.lByI, "leaf L", "W", p.iSelf, "I", false, nil, nil)
	step(&p.oByW, "attacker A", "O", p.wCA, "W", false, ocspEKU, nil)
	step(&p.leaf7, "leaf", "D", p.iSelf, "I", false, nil, big.NewInt(7))
	step(&p.leaf8, "leaf", "D", p.iSelf, "I", false, nil, big.NewInt(8))
	if err == nil {
		err = p.buildImpostors()
	}
	return p, err
}

func (p *pki) issuer(selfSigned bool) *x509.Certificate {
	if selfSigned {
		return p.iSelf
	}
	return p.iInter
}

// embedded certificate and responder certificate for a model configuration
func (p *pki) material(c *tcase) (emb, responder *x509.Certificate, priv crypto.Signer, err error) {
	priv = p.keys[c.SigKey]
	if c.Imp != "" && c.Imp != "none" {
		variant := "inter"
		if c.IssuerSelfSigned {
			variant = "self"
		}
		set := p.imp[variant+"/"+c.Imp]
		if set == nil {
			return nil, nil, nil, fmt.Errorf("no impostor material for %s/%s", variant, c.Imp)
		}
		switch c.Signer {
		case "selfsigned":
			return set.dSelf, set.dSelf, priv, nil
		case "delegated-other":
			return set.dByO, set.dByO, priv, nil
		case "wrongissuer":
			return nil, set.wCA, priv, nil
		}
		return nil, nil, nil, fmt.Errorf("signer %s cannot impersonate", c.Signer)
	}
	switch c.SigKey {
	case "I":
		responder = p.issuer(c.IssuerSelfSigned)
	case "W":
		responder = p.wCA
	default:
		responder = p.dByI
	}
	if !c.Emb.Present {
		return nil, responder, priv, nil
	}
	switch {
	case c.Emb.Key == "I":
		emb = p.issuer(c.IssuerSelfSigned)
	case c.Emb.SignedBy == "I" && c.Emb.Eku:
		emb = p.dByI
	case c.Emb.SignedBy == "I":
		emb = p.dNoEku
	case c.Emb.SignedBy == "O":
		emb = p.dByO
	case c.Emb.SignedBy == "D":
		emb = p.dSelf
	default:
		return nil, nil, nil, fmt.Errorf("no material for embedded certificate %+v", c.Emb)
	}
	if c.SigKey == "D" {
		responder = emb
	}
	return emb, responder, priv, nil
}

// ------------------------------------------------------------------------------------------------ ASN.1 (harness-side encoder for byKey)

type certID struct {
	HashAlgorithm pkix.AlgorithmIdentifier
	NameHash      []byte
	IssuerKeyHash []byte
	SerialNumber  *big.Int
}
type revokedInfo struct {
	RevocationTime time.Time       `asn1:"generalized"`
	Reason         asn1.Enumerated `asn1:"explicit,tag:0,optional"`
}
type singleResponse struct {
	CertID           certID
	Good             asn1.Flag        `asn1:"tag:0,optional"`
	Revoked          revokedInfo      `asn1:"tag:1,optional"`
	Unknown          asn1.Flag        `asn1:"tag:2,optional"`
	ThisUpdate       time.Time        `asn1:"generalized"`
	NextUpdate       time.Time        `asn1:"generalized,explicit,tag:0,optional"`
	SingleExtensions []pkix.Extension `asn1:"explicit,tag:1,optional"`
}
type responseData struct {
	Raw            asn1.RawContent
	Version        int `asn1:"optional,default:0,explicit,tag:0"`
	RawResponderID asn1.RawValue
	ProducedAt     time.Time `asn1:"generalized"`
	Responses      []singleResponse
}
type basicResponse struct {
	TBSResponseData    responseData
	SignatureAlgorithm pkix.AlgorithmIdentifier
	Signature          asn1.BitString
	Certificates       []asn1.RawValue `asn1:"explicit,tag:0,optional"`
}
type responseBytes struct {
	ResponseType asn1.ObjectIdentifier
	Response     []byte
}
type responseASN1 struct {
	Status   asn1.Enumerated
	Response responseBytes `asn1:"explicit,tag:0,optional"`
}

var sigHash = map[string]crypto.Hash{
	"1.2.840.113549.1.1.5": crypto.SHA1, "1.2.840.113549.1.1.11": crypto.SHA256, "1.2.840.113549.1.1.12": crypto.SHA384, "1.2.840.113549.1.1.13": crypto.SHA512,
	"1.2.840.10045.4.1": crypto.SHA1, "1.2.840.10045.4.3.2": crypto.SHA256, "1.2.840.10045.4.3.3": crypto.SHA384, "1.2.840.10045.4.3.4": crypto.SHA512,
}
var sigAlgo = map[string]x509.SignatureAlgorithm{
	"1.2.840.113549.1.1.5": x509.SHA1WithRSA, "1.2.840.113549.1.1.11": x509.SHA256WithRSA, "1.2.840.113549.1.1.12": x509.SHA384WithRSA, "1.2.840.113549.1.1.13": x509.SHA512WithRSA,
	"1.2.840.10045.4.1": x509.ECDSAWithSHA1, "1.2.840.10045.4.3.2": x509.ECDSAWithSHA256, "1.2.840.10045.4.3.3": x509.ECDSAWithSHA384, "1.2.840.10045.4.3.4": x509.ECDSAWithSHA512,
}

func spkBits(c *x509.Certificate) []byte {
	var info struct {
		Algorithm pkix.AlgorithmIdentifier
		PublicKey asn1.BitString
	}
	asn1.Unmarshal(c.RawSubjectPublicKeyInfo, &info)
	return info.PublicKey.RightAlign()
}

func unwrap(der []byte) (*responseASN1, *basicResponse, error) {
	var outer responseASN1
	if rest, err := asn1.Unmarshal(der, &outer); err != nil || len(rest) > 0 {
		return nil, nil, fmt.Errorf("outer: %v", err)
	}
	var basic basicResponse
	if rest, err := asn1.Unmarshal(outer.Response.Response, &basic); err != nil || len(rest) > 0 {
		return nil, nil, fmt.Errorf("basic: %v", err)
	}
	return &outer, &basic, nil
}

// toByKey re-encodes a CreateResponse output with the byKey responder id ([2] EXPLICIT OCTET STRING = SHA-1 of the
// responder's public key) and signs the new tbsResponseData with priv.
func toByKey(der []byte, responder *x509.Certificate, priv crypto.Signer) ([]byte, error) {
	outer, basic, err := unwrap(der)
	if err != nil {
		return nil, err
	}
	kh := sha1.Sum(spkBits(responder))
	oct, _ := asn1.Marshal(kh[:])
	tbs := basic.TBSResponseData
	tbs.Raw = nil
	tbs.RawResponderID = asn1.RawValue{Class: 2, Tag: 2, IsCompound: true, Bytes: oct}
	tbsDER, err := asn1.Marshal(tbs)
	if err != nil {
		return nil, err
	}
	h, ok := sigHash[basic.SignatureAlgorithm.Algorithm.String()]
	if !ok {
		return nil, fmt.Errorf("unknown signature algorithm %v", basic.SignatureAlgorithm.Algorithm)
	}
	hh := h.New()
	hh.Write(tbsDER)
	sig, err := priv.Sign(rand.Reader, hh.Sum(nil), h)
	if err != nil {
		return nil, err
	}
	nb := basicResponse{TBSResponseData: tbs, SignatureAlgorithm: basic.SignatureAlgorithm,
		Signature: asn1.BitString{Bytes: sig, BitLength: 8 * len(sig)}, Certificates: basic.Certificates}
	nbDER, err := asn1.Marshal(nb)
	if err != nil {
		return nil, err
	}
	outer.Response.Response = nbDER
	return asn1.Marshal(*outer)
}

// ------------------------------------------------------------------------------------------------ DER regions

type span struct{ lo, hi int } // [lo, hi)

type tlv struct {
	tag            byte
	start, cs, end int // header start, content start, end
}

func readTLV(b []byte, off int) (tlv, error) {
	if off+2 > len(b) {
		return tlv{}, fmt.Errorf("short")
	}
	t := tlv{tag: b[off], start: off}
	l := int(b[off+1])
	p := off + 2
	if l&0x80 != 0 {
		n := l & 0x7f
		if n == 0 || n > 3 || p+n > len(b) {
			return tlv{}, fmt.Errorf("bad length")
		}
		l = 0
		for i := 0; i < n; i++ {
			l = l<<8 | int(b[p+i])
		}
		p += n
	}
	if p+l > len(b) {
		return tlv{}, fmt.Errorf("overrun")
	}
	t.cs, t.end = p, p+l
	return t, nil
}

func children(b []byte, t tlv) ([]tlv, error) {
	var out []tlv
	for off := t.cs; off < t.end; {
		c, err := readTLV(b, off)
		if err != nil {
			return nil, err
		}
		out = append(out, c)
		off = c.end
	}
	return out, nil
}

type regions struct {
	tbs, sig, cert span
	hasCert        bool
	wrapper        []int
	fields         map[string][]tlv // TLVs (recursively) inside each region: sampled positions come from these
}

func collect(b []byte, t tlv, depth int, acc *[]tlv) {
	*acc = append(*acc, t)
	if t.tag&0x20 != 0 && depth < 8 { // constructed
		if cs, err := children(b, t); err == nil {
			for _, c := range cs {
				collect(b, c, depth+1, acc)
			}
		}
	}
}

func locate(b []byte) (*regions, error) {
	outer, err := readTLV(b, 0)
	if err != nil || outer.end != len(b) {
		return nil, fmt.Errorf("outer: %v", err)
	}
	oc, err := children(b, outer)
	if err != nil || len(oc) != 2 {
		return nil, fmt.Errorf("outer children")
	}
	rbSeq, err := readTLV(b, oc[1].cs) // [0] EXPLICIT -> SEQUENCE responseBytes
	if err != nil {
		return nil, err
	}
	rb, err := children(b, rbSeq)
	if err != nil || len(rb) != 2 {
		return nil, fmt.Errorf("responseBytes")
	}
	basic, err := readTLV(b, rb[1].cs) // OCTET STRING content = BasicOCSPResponse
	if err != nil {
		return nil, err
	}
	bc, err := children(b, basic)
	if err != nil || len(bc) < 3 {
		return nil, fmt.Errorf("basic children")
	}
	r := &regions{tbs: span{bc[0].start, bc[0].end}, sig: span{bc[2].start, bc[2].end}, fields: map[string][]tlv{}}
	var acc []tlv
	collect(b, bc[0], 0, &acc)
	r.fields["tbs"] = acc
	r.fields["sig"] = []tlv{bc[2]}
	var extraHdr []tlv
	if len(bc) > 3 {
		// [0] EXPLICIT { SEQUENCE OF Certificate }: the region is the DER of the first certificate, the two headers are wrapper
		seqOf, err := readTLV(b, bc[3].cs)
		if err != nil {
			return nil, err
		}
		certs, err := children(b, seqOf)
		if err != nil || len(certs) == 0 {
			return nil, fmt.Errorf("certs")
		}
		r.hasCert = true
		r.cert = span{certs[0].start, certs[0].end}
		acc = nil
		collect(b, certs[0], 0, &acc)
		r.fields["cert"] = acc
		extraHdr = []tlv{bc[3], seqOf}
	}
	// wrapper: every TLV header outside the three regions, plus status, response type OID and the signature algorithm identifier
	for _, t := range append([]tlv{outer, oc[1], rbSeq, rb[1], basic}, extraHdr...) {
		for p := t.start; p < t.cs; p++ {
			r.wrapper = append(r.wrapper, p)
		}
	}
	for _, t := range []tlv{oc[0], rb[0], bc[1]} {
		for p := t.start; p < t.end; p++ {
			r.wrapper = append(r.wrapper, p)
		}
	}
	return r, nil
}

// positions to damage in a region: thorough = every byte; quick = first/middle/last byte of header and content of every TLV in it
func positions(r *regions, region string, sp span, all bool) []int {
	seen := map[int]bool{}
	var out []int
	if region == "wrapper" {
		return r.wrapper
	}
	add := func(p int) {
		if !seen[p] && p >= sp.lo && p < sp.hi {
			seen[p] = true
			out = append(out, p)
		}
	}
	if all {
		for p := sp.lo; p < sp.hi; p++ {
			add(p)
		}
		return out
	}
	for _, t := range r.fields[region] {
		for p := t.start; p < t.cs; p++ {
			add(p)
		}
		if t.end > t.cs {
			add(t.cs)
			add((t.cs + t.end) / 2)
			add(t.end - 1)
		}
	}
	return out
}

// ------------------------------------------------------------------------------------------------ judgement

type realOut struct {
	accept bool
	resp   *ocsp.Response
	err    string
	panic  any
}

func realParse(der []byte, cert, issuer *x509.Certificate) (o realOut) {
	defer func() {
		if p := recover(); p != nil {
			o = realOut{panic: p}
		}
	}()
	r, err := ocsp.ParseResponseForCert(der, cert, issuer)
	if err != nil {
		return realOut{err: err.Error()}
	}
	return realOut{accept: true, resp: r}
}

// authorized: the property's condition, evaluated with crypto/x509 on the received bytes (independent of the package):
// signed by the issuer, or an embedded certificate that the issuer signed and that signed the response.
func authorized(der []byte, issuer *x509.Certificate) (ok bool, why string, judged bool) {
	_, basic, err := unwrap(der)
	if err != nil {
		return false, "harness cannot parse: " + err.Error(), false
	}
	alg := sigAlgo[basic.SignatureAlgorithm.Algorithm.String()]
	tbs, sig := []byte(basic.TBSResponseData.Raw), basic.Signature.RightAlign()
	if issuer.CheckSignature(alg, tbs, sig) == nil {
		return true, "signed by the issuer", true
	}
	for _, rc := range basic.Certificates {
		c, err := x509.ParseCertificate(rc.FullBytes)
		if err != nil {
			continue
		}
		if issuer.CheckSignature(c.SignatureAlgorithm, c.RawTBSCertificate, c.Signature) == nil && c.CheckSignature(alg, tbs, sig) == nil {
			return true, "signed by an embedded certificate the issuer signed", true
		}
	}
	return false, "neither", true
}

type tmplInfo struct {
	tmpl  ocsp.Response
	alg   x509.SignatureAlgorithm
	nowLo time.Time
}

func mkTemplate(c *tcase, p *pki, idx int, priv crypto.Signer, emb *x509.Certificate) tmplInfo {
	base := time.Date(2026, 3, 1+idx%27, idx%24, (idx*7)%60, (idx*13)%60, 0, time.UTC)
	t := ocsp.Response{SerialNumber: big.NewInt(7), ThisUpdate: base, Certificate: emb}
	if c.CertArg == "nil" && idx%2 == 0 {
		t.SerialNumber = p.bigSerial // 20-octet serial where no cert argument has to match it
	}
	switch c.Status {
	case "good":
		t.Status = ocsp.Good
	case "unknown":
		t.Status = ocsp.Unknown
	default:
		t.Status = ocsp.Revoked
		t.RevokedAt = base.Add(-time.Duration(1+idx%1000) * time.Hour)
		t.RevocationReason = []int{ocsp.Unspecified, ocsp.KeyCompromise, ocsp.CACompromise, ocsp.AffiliationChanged, ocsp.Superseded,
			ocsp.CessationOfOperation, ocsp.CertificateHold, ocsp.RemoveFromCRL, ocsp.PrivilegeWithdrawn, ocsp.AACompromise}[idx%10]
	}
	if idx%3 != 0 {
		t.NextUpdate = base.Add(time.Duration(1+idx%96) * time.Hour)
	}
	t.IssuerHash = []crypto.Hash{0, crypto.SHA1, crypto.SHA256, crypto.SHA384, crypto.SHA512}[idx%5]
	switch idx % 4 {
	case 1:
		t.ExtraExtensions = []pkix.Extension{{Id: asn1.ObjectIdentifier{1, 3, 6, 1, 5, 5, 7, 48, 1, 2}, Value: []byte{4, 3, 1, 2, byte(idx)}}}
	case 2:
		t.ExtraExtensions = []pkix.Extension{{Id: asn1.ObjectIdentifier{1, 2, 3, 4}, Value: []byte{5, 0}}, {Id: asn1.ObjectIdentifier{2, 5, 29, 21}, Value: []byte{10, 1, byte(idx % 7)}}}
	}
	var algs []x509.SignatureAlgorithm
	switch k := priv.Public().(type) {
	case *rsa.PublicKey:
		algs = []x509.SignatureAlgorithm{0, x509.SHA256WithRSA, x509.SHA384WithRSA, x509.SHA512WithRSA, x509.SHA1WithRSA}
	case *ecdsa.PublicKey:
		algs = []x509.SignatureAlgorithm{0, x509.ECDSAWithSHA256, x509.ECDSAWithSHA384, x509.ECDSAWithSHA512, x509.ECDSAWithSHA1}
		_ = k
	}
	t.SignatureAlgorithm = algs[(idx/5)%len(algs)]
	want := t.SignatureAlgorithm
	if want == 0 {
		switch k := priv.Public().(type) {
		case *rsa.PublicKey:
			want = x509.SHA256WithRSA
		case *ecdsa.PublicKey:
			switch k.Curve {
			case elliptic.P384():
				want = x509.ECDSAWithSHA384
			case elliptic.P521():
				want = x509.ECDSAWithSHA512
			default:
				want = x509.ECDSAWithSHA256
			}
		}
	}
	return tmplInfo{tmpl: t, alg: want, nowLo: time.Now().Add(-time.Minute).Truncate(time.Minute)}
}

func hashOf(h crypto.Hash) crypto.Hash {
	if h == 0 {
		return crypto.SHA1
	}
	return h
}

// fieldsEqual: the fields of the template come back (C48 round-trip clause).
func fieldsEqual(c *tcase, ti tmplInfo, r *ocsp.Response, der []byte, reg *regions, responder, emb *x509.Certificate) []string {
	var bad []string
	t := ti.tmpl
	chk := func(ok bool, f string, a ...any) {
		if !ok {
			bad = append(bad, fmt.Sprintf(f, a...))
		}
	}
	chk(r.Status == t.Status, "Status %d want %d", r.Status, t.Status)
	chk(r.SerialNumber != nil && r.SerialNumber.Cmp(t.SerialNumber) == 0, "SerialNumber %v want %v", r.SerialNumber, t.SerialNumber)
	chk(r.ThisUpdate.Equal(t.ThisUpdate), "ThisUpdate %v want %v", r.ThisUpdate, t.ThisUpdate)
	chk(r.NextUpdate.Equal(t.NextUpdate), "NextUpdate %v want %v", r.NextUpdate, t.NextUpdate)
	if t.Status == ocsp.Revoked {
		chk(r.RevokedAt.Equal(t.RevokedAt), "RevokedAt %v want %v", r.RevokedAt, t.RevokedAt)
		chk(r.RevocationReason == t.RevocationReason, "RevocationReason %d want %d", r.RevocationReason, t.RevocationReason)
	} else {
		chk(r.RevokedAt.IsZero() && r.RevocationReason == 0, "RevokedAt/Reason set for a non-revoked status")
	}
	chk(!r.ProducedAt.Before(ti.nowLo) && !r.ProducedAt.After(time.Now().Add(time.Minute)), "ProducedAt %v not the current time to the minute", r.ProducedAt)
	chk(r.IssuerHash == hashOf(t.IssuerHash), "IssuerHash %v want %v", r.IssuerHash, hashOf(t.IssuerHash))
	chk(r.SignatureAlgorithm == ti.alg, "SignatureAlgorithm %v want %v", r.SignatureAlgorithm, ti.alg)
	chk(len(r.Extensions) == len(t.ExtraExtensions), "Extensions: %d want %d", len(r.Extensions), len(t.ExtraExtensions))
	if len(r.Extensions) == len(t.ExtraExtensions) {
		for i := range r.Extensions {
			chk(r.Extensions[i].Id.Equal(t.ExtraExtensions[i].Id) && bytes.Equal(r.Extensions[i].Value, t.ExtraExtensions[i].Value) && !r.Extensions[i].Critical, "Extension %d differs", i)
		}
	}
	if emb != nil {
		chk(r.Certificate != nil && bytes.Equal(r.Certificate.Raw, emb.Raw), "embedded certificate not returned")
	} else {
		chk(r.Certificate == nil, "a certificate is returned although none was embedded")
	}
	if c.RespID == "byName" {
		chk(bytes.Equal(r.RawResponderName, responder.RawSubject) && r.ResponderKeyHash == nil, "responder id: want byName = responder subject")
	} else {
		kh := sha1.Sum(spkBits(responder))
		chk(bytes.Equal(r.ResponderKeyHash, kh[:]) && r.RawResponderName == nil, "responder id: want byKey = SHA-1 of responder key")
	}
	chk(bytes.Equal(r.TBSResponseData, der[reg.tbs.lo:reg.tbs.hi]), "TBSResponseData is not the tbsResponseData of the wire bytes")
	chk(bytes.Equal(r.Raw, der), "Raw differs")
	return bad
}

var flavours = [][5]string{
	{"rsa", "rsa", "rsa", "rsa", "rsa"},
	{"p256", "p256", "p256", "p256", "p256"},
	{"rsa", "p384", "p256", "rsa", "p256"},
	{"p521", "rsa", "rsa", "p384", "rsa"},
}
var flavourNames = []string{"rsa", "ecdsa-p256", "rsa-issuer/p384-responder", "p521-issuer/rsa-responder"}

func TestC48(t *testing.T) {
	out := vutil.NewOut()
	defer func() {
		if err := out.Write(); err != nil {
			t.Fatal(err)
		}
	}()
	sigs := map[string]int{}
	viol := func(sig, what string, detail any) {
		sigs[sig]++
		if sigs[sig] <= 3 {
			out.Violation(sig, what, detail)
			t.Errorf("%s: %s", sig, what)
		}
	}
	cnt := map[string]int{}
	defer func() {
		for k, v := range cnt {
			out.Extra["c48_"+k] = v
		}
		for k, v := range sigs {
			out.Extra["c48_violations_"+k] = v
		}
	}()
	var pkis []*pki
	nfl, _ := strconv.Atoi(vutil.Env("VERIF_C48_FLAVOURS", "4"))
	for i := 0; i < nfl && i < len(flavours); i++ {
		p, err := newPKI(flavourNames[i], flavours[i])
		if err != nil {
			t.Fatalf("INFRA: cannot build PKI %s: %v", flavourNames[i], err)
		}
		pkis = append(pkis, p)
	}
	allFlavours := vutil.Env("VERIF_C48_ALLFLAVOURS", "0") == "1"
	everyByte := vutil.Thorough()
	idx := int(vutil.Seed()) * 7
	createKeyHash(t, out, viol, pkis[len(pkis)-1])
	requests(t, out, viol, pkis)
	explore(t, out, viol, pkis[len(pkis)-1])
	err := vutil.ReadNDJSON(vutil.Env("VERIF_CASES", ""), func(line []byte) error {
		var c tcase
		if err := json.Unmarshal(line, &c); err != nil {
			return err
		}
		idx++
		if c.Multi {
			for _, p := range pkis { // few and cheap: every flavour in both tiers
				idx++
				replayMulti(&c, p, idx, out, viol, cnt)
			}
			return nil
		}
		fl := []*pki{pkis[idx%len(pkis)]}
		if allFlavours || (c.Imp != "" && c.Imp != "none") { // impersonation cases are few: every flavour in both tiers
			fl = pkis
		}
		for _, p := range fl {
			idx++
			replayCase(&c, p, idx, everyByte, out, viol, cnt)
		}
		return nil
	})
	if err != nil {
		t.Fatal(err)
	}
}

func replayCase(c *tcase, p *pki, idx int, everyByte bool, out *vutil.Out, viol func(string, string, any), cnt map[string]int) {
	emb, responder, priv, err := p.material(c)
	if err != nil {
		viol("c48-harness", err.Error(), c)
		return
	}
	issuer := p.issuer(c.IssuerSelfSigned)
	ti := mkTemplate(c, p, idx, priv, emb)
	der, err := ocsp.CreateResponse(issuer, responder, ti.tmpl, priv)
	if err != nil {
		viol("ocsp-create-error", "CreateResponse failed: "+err.Error(), map[string]any{"case": c, "pki": p.name})
		return
	}
	if c.RespID == "byKey" {
		if der, err = toByKey(der, responder, priv); err != nil {
			viol("c48-harness", "byKey re-encoding failed: "+err.Error(), c)
			return
		}
	}
	reg, err := locate(der)
	if err != nil || reg.hasCert != (emb != nil) {
		viol("ocsp-create-structure", fmt.Sprintf("CreateResponse output does not have the RFC 6960 structure: %v", err), map[string]any{"case": c, "der": fmt.Sprintf("%x", der)})
		return
	}
	var issuerArg, certArg *x509.Certificate
	if c.IssuerGiven {
		issuerArg = issuer
	}
	switch c.CertArg {
	case "match":
		certArg = p.leaf7
	case "mismatch":
		certArg = p.leaf8
	}
	det := func(extra map[string]any) map[string]any {
		m := map[string]any{"case": c, "pki": p.name, "der": fmt.Sprintf("%x", der)}
		for k, v := range extra {
			m[k] = v
		}
		return m
	}
	judge := func(d []byte, what string, pos int) {
		o := realParse(d, certArg, issuerArg)
		if o.panic != nil {
			viol("ocsp-parse-panic", "ParseResponseForCert panicked", det(map[string]any{"panic": fmt.Sprint(o.panic), "pos": pos, "input": fmt.Sprintf("%x", d)}))
			return
		}
		// property level, independent of the model: with an issuer, accepted only if authorized; modified signed bytes never accepted
		if o.accept && issuerArg != nil {
			if ok, why, judged := authorized(d, issuerArg); !judged {
				cnt["harness_cannot_judge"]++
			} else if !ok {
				sig := "ocsp-unauthorized-accepted:" + c.Signer + ":" + c.Region
				if c.Imp != "" && c.Imp != "none" {
					sig += ":impersonates-" + c.Imp
				}
				viol(sig, "with an issuer given, a response is accepted that is signed neither by the issuer nor by an embedded certificate the issuer signed ("+why+")",
					det(map[string]any{"pos": pos, "input": fmt.Sprintf("%x", d)}))
			}
		}
		if o.accept && issuerArg != nil {
			if ok, why := returnedIsSigner(d, o.resp, issuerArg); !ok {
				viol("ocsp-returned-cert-not-signer", "accepted, but "+why, det(map[string]any{"pos": pos, "input": fmt.Sprintf("%x", d)}))
			}
		}
		if o.accept && c.Region == "tbs" && pos >= 0 && issuerArg != nil {
			viol("ocsp-modified-signed-bytes-accepted", "a modification of the signed bytes (tbsResponseData) is accepted", det(map[string]any{"pos": pos, "input": fmt.Sprintf("%x", d)}))
		}
		// model level
		switch {
		case c.D == "any":
			cnt["unpredicted_"+what]++
		case (c.D == "accept") != o.accept:
			switch {
			case o.accept && certArg != nil && o.resp.SerialNumber.Cmp(certArg.SerialNumber) != 0:
				viol("ocsp-serial-mismatch-accepted", "ParseResponseForCert returns a status for a serial other than the supplied certificate's", det(map[string]any{"pos": pos, "input": fmt.Sprintf("%x", d)}))
			case o.accept:
				// more lenient than the transcription but (judged above) still within the property: informational
				cnt["more_lenient_than_model:"+c.Signer+":"+c.Region]++
			case pos < 0:
				viol("ocsp-decision:"+c.Signer+":rejected", "ParseResponseForCert rejects an unmodified response the model accepts: "+o.err, det(nil))
			default:
				cnt["stricter_than_model"]++
			}
		}
		if o.accept {
			cnt["accepted"]++
		} else {
			cnt["rejected"]++
		}
		if o.accept && pos < 0 {
			if bad := fieldsEqual(c, ti, o.resp, d, reg, responder, emb); len(bad) > 0 {
				viol("ocsp-roundtrip-fields", "CreateResponse then ParseResponseForCert does not return the template's fields: "+fmt.Sprint(bad), det(map[string]any{"diff": bad}))
			}
		}
	}
	key := fmt.Sprintf("%s|%s|%s|%v|%v|%s|%s|%s|%s", c.Signer, c.RespID, c.Status, c.IssuerGiven, c.IssuerSelfSigned, c.CertArg, c.Region, c.Imp, p.name)
	if c.Region == "none" {
		out.Case(key)
		judge(der, "none", -1)
		if len(out.Samples) < 4 && c.D == "accept" && c.Emb.Present {
			out.Sample(map[string]any{"case": c, "pki": p.name, "responseLen": len(der)})
		}
		return
	}
	var sp span
	switch c.Region {
	case "tbs":
		sp = reg.tbs
	case "sig":
		sp = reg.sig
	case "cert":
		if !reg.hasCert {
			out.Case("") // nothing embedded: this region does not exist in this configuration
			return
		}
		sp = reg.cert
	}
	ps := positions(reg, c.Region, sp, everyByte)
	for i, pos := range ps {
		masks := []byte{0x01, 0x80, 0xff}
		m := masks[(i+idx)%3]
		d := append([]byte{}, der...)
		d[pos] ^= m
		out.Case(fmt.Sprintf("%s@%d^%02x", key, pos, m))
		judge(d, c.Region, pos)
	}
	cnt["positions_"+c.Region] += len(ps)
}

// TestCreateKeyHash documents what CreateResponse does with a template that asks for the byKey responder id.
func createKeyHash(t *testing.T, out *vutil.Out, viol func(string, string, any), p *pki) {
	kh := sha1.Sum(spkBits(p.dByI))
	tmpl := ocsp.Response{Status: ocsp.Good, SerialNumber: big.NewInt(7), ThisUpdate: time.Now().Truncate(time.Second), Certificate: p.dByI, ResponderKeyHash: kh[:]}
	der, err := ocsp.CreateResponse(p.iSelf, p.dByI, tmpl, p.keys["D"])
	out.Case("create-keyhash")
	if err != nil {
		viol("ocsp-create-error", "CreateResponse failed: "+err.Error(), nil)
		return
	}
	r, err := ocsp.ParseResponseForCert(der, nil, p.iSelf)
	if err != nil {
		viol("ocsp-decision:delegated:none:rejected", "ParseResponseForCert rejects: "+err.Error(), nil)
		return
	}
	if !bytes.Equal(r.ResponderKeyHash, kh[:]) || r.RawResponderName != nil {
		viol("ocsp-create-ignores-responder-keyhash", "a template with ResponderKeyHash set (byKey responder id form) comes back from CreateResponse + ParseResponseForCert with the byName form",
			map[string]any{"templateResponderKeyHash": fmt.Sprintf("%x", kh), "parsedRawResponderName": fmt.Sprintf("%x", r.RawResponderName), "parsedResponderKeyHash": fmt.Sprintf("%x", r.ResponderKeyHash)})
	}
}

// TestRequests: CreateRequest / ParseRequest round trip for every supported hash; unsupported hashes are refused.
func requests(t *testing.T, out *vutil.Out, viol func(string, string, any), pkis []*pki) {
	for fi := 0; fi < 2 && fi < len(pkis); fi++ {
		p := pkis[fi]
		serials := []*big.Int{big.NewInt(0), big.NewInt(1), big.NewInt(127), big.NewInt(128), big.NewInt(255), big.NewInt(65536), p.bigSerial}
		for _, issuer := range []*x509.Certificate{p.iSelf, p.iInter, p.wCA} {
			for _, ser := range serials {
				leaf, err := mkCert("leaf", p.keys["D"].Public(), p.iSelf, p.keys["I"], false, nil, ser)
				if err != nil {
					t.Fatalf("INFRA: %v", err)
				}
				for _, h := range []crypto.Hash{0, crypto.SHA1, crypto.SHA256, crypto.SHA384, crypto.SHA512, crypto.MD5, crypto.SHA224} {
					out.Case(fmt.Sprintf("req|%s|%s|%v|%v", p.name, issuer.Subject.CommonName, ser, h))
					var opts *ocsp.RequestOptions
					if h != 0 {
						opts = &ocsp.RequestOptions{Hash: h}
					}
					der, err := ocsp.CreateRequest(leaf, issuer, opts)
					supported := h == 0 || h == crypto.SHA1 || h == crypto.SHA256 || h == crypto.SHA384 || h == crypto.SHA512
					if !supported {
						if err == nil {
							viol("ocsp-request-unsupported-hash", "CreateRequest accepts a hash outside {SHA1, SHA256, SHA384, SHA512}", map[string]any{"hash": h.String()})
						}
						continue
					}
					if err != nil {
						viol("ocsp-request-create", "CreateRequest failed: "+err.Error(), map[string]any{"hash": h.String()})
						continue
					}
					req, err := ocsp.ParseRequest(der)
					if err != nil {
						viol("ocsp-request-roundtrip", "ParseRequest rejects the output of CreateRequest: "+err.Error(), map[string]any{"der": fmt.Sprintf("%x", der)})
						continue
					}
					hh := hashOf(h)
					hn := hh.New()
					hn.Write(issuer.RawSubject)
					nameHash := hn.Sum(nil)
					hn.Reset()
					hn.Write(spkBits(issuer))
					keyHash := hn.Sum(nil)
					if req.HashAlgorithm != hh || req.SerialNumber.Cmp(ser) != 0 || !bytes.Equal(req.IssuerNameHash, nameHash) || !bytes.Equal(req.IssuerKeyHash, keyHash) {
						viol("ocsp-request-roundtrip", "CreateRequest then ParseRequest does not return hash, issuer name hash, issuer key hash and serial",
							map[string]any{"hash": hh.String(), "serial": ser.String(), "got": fmt.Sprintf("%+v", req)})
					}
					if again, err := req.Marshal(); err != nil || !bytes.Equal(again, der) {
						viol("ocsp-request-roundtrip", "Request.Marshal of the parsed request differs from the original bytes", map[string]any{"der": fmt.Sprintf("%x", der), "again": fmt.Sprintf("%x", again)})
					}
				}
			}
		}
	}
}

// TestExplore: DER framing mutations of real responses/requests and seeded random bytes -> error, never a panic (exploration).
func explore(t *testing.T, out *vutil.Out, viol func(string, string, any), p *pki) {
	n, _ := strconv.Atoi(vutil.Env("VERIF_C48_EXPLORE", "20000"))
	rng := vutil.Rand(48)
	tmpl := ocsp.Response{Status: ocsp.Revoked, SerialNumber: big.NewInt(7), ThisUpdate: time.Now(), NextUpdate: time.Now().Add(time.Hour), RevokedAt: time.Now().Add(-time.Hour),
		RevocationReason: ocsp.KeyCompromise, Certificate: p.dByI, ExtraExtensions: []pkix.Extension{{Id: asn1.ObjectIdentifier{1, 2, 3}, Value: []byte{5, 0}}}}
	resp, err := ocsp.CreateResponse(p.iSelf, p.dByI, tmpl, p.keys["D"])
	if err != nil {
		t.Fatalf("INFRA: %v", err)
	}
	req, err := ocsp.CreateRequest(p.leaf7, p.iSelf, nil)
	if err != nil {
		t.Fatalf("INFRA: %v", err)
	}
	panics, explored := 0, 0
	try := func(kind string, b []byte) {
		defer func() {
			if pp := recover(); pp != nil {
				panics++
				viol("ocsp-parse-panic", kind+" panicked", map[string]any{"panic": fmt.Sprint(pp), "input": fmt.Sprintf("%x", b)})
			}
		}()
		explored++
		if kind == "req" {
			ocsp.ParseRequest(b)
		} else {
			ocsp.ParseResponse(b, nil)
			ocsp.ParseResponseForCert(b, p.leaf7, p.iSelf)
		}
	}
	mutate := func(src []byte, rng *mrand.Rand) []byte {
		b := append([]byte{}, src...)
		switch rng.Intn(6) {
		case 0: // length octet games
			i := rng.Intn(len(b))
			b[i] = []byte{0x80, 0x81, 0x82, 0x84, 0xff, 0x00, 0x7f}[rng.Intn(7)]
		case 1: // truncate
			b = b[:rng.Intn(len(b))]
		case 2: // tag change
			i := rng.Intn(len(b))
			b[i] = []byte{0x30, 0x31, 0x02, 0x03, 0x04, 0x05, 0x06, 0x0a, 0x18, 0xa0, 0xa1, 0xa2, 0x80, 0x1f}[rng.Intn(14)]
		case 3: // splice
			i, j := rng.Intn(len(b)), rng.Intn(len(b))
			if i > j {
				i, j = j, i
			}
			b = append(append([]byte{}, b[:i]...), b[j:]...)
		case 4: // duplicate a slice
			i, j := rng.Intn(len(b)), rng.Intn(len(b))
			if i > j {
				i, j = j, i
			}
			b = append(append(append([]byte{}, b[:j]...), b[i:j]...), b[j:]...)
		default:
			for k := 0; k < 1+rng.Intn(4); k++ {
				b[rng.Intn(len(b))] ^= byte(1 << uint(rng.Intn(8)))
			}
		}
		return b
	}
	for i := 0; i < n; i++ {
		try("resp", mutate(resp, rng))
		try("req", mutate(req, rng))
		if i%4 == 0 {
			r := make([]byte, rng.Intn(300))
			rng.Read(r)
			if len(r) > 2 && i%8 == 0 {
				r[0], r[1] = 0x30, byte(len(r)-2)
			}
			try("resp", r)
			try("req", r)
		}
	}
	out.Extra["c48_explore_inputs"] = explored
	out.Extra["c48_explore_panics"] = panics
}

// spliceCerts replaces the certificates field of a response by the given sequence (tbsResponseData and signature untouched).
func spliceCerts(der []byte, certs []*x509.Certificate) ([]byte, error) {
	outer, basic, err := unwrap(der)
	if err != nil {
		return nil, err
	}
	basic.Certificates = nil
	for _, c := range certs {
		basic.Certificates = append(basic.Certificates, asn1.RawValue{FullBytes: c.Raw})
	}
	nb, err := asn1.Marshal(*basic)
	if err != nil {
		return nil, err
	}
	outer.Response.Response = nb
	return asn1.Marshal(*outer)
}

// returnedIsSigner: what the package reports as the signer must be the certificate whose key verifies the response and
// that the issuer signed -- the SAME certificate.
func returnedIsSigner(der []byte, r *ocsp.Response, issuer *x509.Certificate) (bool, string) {
	_, basic, err := unwrap(der)
	if err != nil {
		return true, ""
	}
	alg := sigAlgo[basic.SignatureAlgorithm.Algorithm.String()]
	tbs, sig := []byte(basic.TBSResponseData.Raw), basic.Signature.RightAlign()
	if r.Certificate == nil {
		if issuer.CheckSignature(alg, tbs, sig) != nil {
			return false, "no certificate returned and the response is not signed by the issuer"
		}
		return true, ""
	}
	if r.Certificate.CheckSignature(alg, tbs, sig) != nil {
		return false, "the certificate returned as the signer does not verify the response signature"
	}
	if issuer.CheckSignature(r.Certificate.SignatureAlgorithm, r.Certificate.RawTBSCertificate, r.Certificate.Signature) != nil {
		return false, "the certificate returned as the signer is not signed by the issuer"
	}
	return true, ""
}

// replayMulti: a response whose certificates field is a sequence of 0..3 certificates (OCSPCerts.tla).
func replayMulti(c *tcase, p *pki, idx int, out *vutil.Out, viol func(string, string, any), cnt map[string]int) {
	issuer := p.iSelf
	material := map[string]*x509.Certificate{"issuerOwn": p.iSelf, "delegated": p.dByI, "leafByIssuer": p.lByI, "attackerSelf": p.oCA, "attackerByOther": p.oByW}
	keyOf := map[string]string{"I": "I", "D": "D", "L": "W", "A": "O"}
	responderOf := map[string]*x509.Certificate{"I": p.iSelf, "D": p.dByI, "L": p.lByI, "A": p.oCA}
	var certs []*x509.Certificate
	for _, n := range c.Certs {
		if material[n] == nil {
			viol("c48-harness", "no material for certificate kind "+n, c)
			return
		}
		certs = append(certs, material[n])
	}
	priv := p.keys[keyOf[c.SigKey]]
	tc := tcase{Status: []string{"good", "revoked", "unknown"}[idx%3], CertArg: "nil", RespID: "byName"}
	ti := mkTemplate(&tc, p, idx, priv, nil)
	der, err := ocsp.CreateResponse(issuer, responderOf[c.SigKey], ti.tmpl, priv)
	if err == nil {
		der, err = spliceCerts(der, certs)
	}
	if err != nil {
		viol("c48-harness", "cannot build a multi-certificate response: "+err.Error(), c)
		return
	}
	var issuerArg *x509.Certificate
	if c.IssuerGiven {
		issuerArg = issuer
	}
	inputs := [][]byte{der}
	if c.Region == "tbs" {
		reg, err := locate(der)
		if err != nil {
			viol("c48-harness", "locate: "+err.Error(), c)
			return
		}
		inputs = nil
		for i, pos := range []int{reg.tbs.lo + 4, (reg.tbs.lo + reg.tbs.hi) / 2, reg.tbs.hi - 1} {
			d := append([]byte{}, der...)
			d[pos] ^= []byte{0x01, 0x80, 0xff}[(i+idx)%3]
			inputs = append(inputs, d)
		}
	}
	if len(certs) >= 2 {
		cnt["multi_cert_responses"]++
	}
	for ii, d := range inputs {
		out.Case(fmt.Sprintf("multi|%v|%s|%v|%s|%s|%d", c.Certs, c.SigKey, c.IssuerGiven, c.Region, p.name, ii))
		det := map[string]any{"case": c, "pki": p.name, "input": fmt.Sprintf("%x", d)}
		o := realParse(d, nil, issuerArg)
		if o.panic != nil {
			det["panic"] = fmt.Sprint(o.panic)
			viol("ocsp-parse-panic", "ParseResponseForCert panicked", det)
			continue
		}
		if o.accept && issuerArg != nil {
			if ok, why, judged := authorized(d, issuerArg); judged && !ok {
				viol("ocsp-unauthorized-accepted:multi-cert:"+c.Region, "with an issuer given, a response is accepted that is signed neither by the issuer nor by an embedded certificate the issuer signed ("+why+")", det)
			}
			if ok, why := returnedIsSigner(d, o.resp, issuerArg); !ok {
				viol("ocsp-returned-cert-not-signer", "accepted, but "+why, det)
			}
			if c.Region == "tbs" {
				viol("ocsp-modified-signed-bytes-accepted", "a modification of the signed bytes (tbsResponseData) is accepted", det)
			}
		}
		switch {
		case c.D == "any":
			cnt["unpredicted_multi"]++
		case (c.D == "accept") != o.accept:
			if o.accept {
				cnt["more_lenient_than_model:multi-cert"]++
			} else if c.Region == "none" {
				viol("ocsp-decision:multi-cert:rejected", "ParseResponseForCert rejects an unmodified response the model accepts: "+o.err, det)
			}
		case o.accept && c.Region == "none":
			// the certificate reported is the one at the model's position
			want := (*x509.Certificate)(nil)
			if c.Returned > 0 {
				want = certs[c.Returned-1]
			}
			if (want == nil) != (o.resp.Certificate == nil) || (want != nil && !bytes.Equal(want.Raw, o.resp.Certificate.Raw)) {
				viol("ocsp-returned-cert-position", "Response.Certificate is not the certificate the model says is the signer", det)
			}
		}
		if o.accept {
			cnt["accepted"]++
		} else {
			cnt["rejected"]++
		}
	}
}
