"""C12 - legacy block ciphers are invertible and match their reference algorithms.

Specs: spec/BlockCipherLaws.tla (constructor guard transcriptions vs the documented key lengths for Blowfish,
NewSaltedCipher, Twofish, CAST5, TEA(+rounds), XTEA, PKCS#12 RC2; the Block interface as an abstract keyed permutation
with dst/src aliasing) and spec/PrimTea.tla (executable TEA / XTEA reference algorithms anchored by published
vectors).  TLC (a) model-checks the interface laws for every permutation of a 4-element block space and every
two-call history with aliasing; (b) checks accept <=> documented on every enumerated (cipher, key length, aux) and
evaluates TEA/XTEA ciphertexts (and that the reference Decrypt inverts them); (c) emits the cases.  The Go harness runs
every case on the real constructors and Encrypt/Decrypt, compares TEA/XTEA with TLC's bytes, runs the published
RC2 (RFC 2268) and Twofish (ecb_ival, ecb_tbl chains) vectors, and hands Blowfish/CAST5/RC2 samples to OpenSSL's
legacy provider / python cryptography when present."""
import concurrent.futures, json, os, subprocess
import vlib

HERE = os.path.dirname(os.path.abspath(__file__))
REF = os.path.join(HERE, "c12_ref.py")


def run(ctx):
    ctx.level = "model_checking"
    ctx.rule = ("cases = (cipher, key length, aux, in-place) enumerated by TLC from BlockCipherLaws_MC: Blowfish 0..58,64,72,73; NewSaltedCipher "
                "{0,1,2,16,55,56,57,72,73,100} x salt {0,1,16,17}; Twofish 0..34,48,64; CAST5 0..18,32; TEA {0,8,15,16,17,32} x rounds "
                "{-3..3,8,16,31,32,63,64,65,128}; XTEA 0..18,32; RC2 {1,5,7,8,16,33,64,127,128} x effective bits {1,8,40,63,64,65,128,129,1024}; "
                "each x in-place/out-of-place; per case %s seeded keys (one all-zero) x %s random blocks (+ all-zero, all-one); "
                "distinct = distinct (case, key index) and distinct TLC-evaluated TEA/XTEA vectors" % (ctx.pick(2, 4), ctx.pick(1000, 30000)))
    ctx.assumptions = [
        "keys and blocks are seeded random samples per enumerated case, not enumerated",
        "reference equality: TEA (any even round count) and XTEA against executable TLA+ definitions evaluated by TLC (anchored by published vectors in ASSUMEs); "
        "RC2 against the RFC 2268 vectors and OpenSSL for (5 bytes, 40 bits), (8, 64), (16, 128); CAST5 (16-byte keys) and Blowfish (every key length 1..56) against "
        "OpenSSL (legacy provider, directly and through python cryptography) when installed; Twofish only against the published ecb_ival vectors and the three 49-step ecb_tbl chains: "
        "Twofish reference equality beyond published vectors is not decidable here (no second implementation, tables too large to transcribe)",
        "RC2's internal constructor has no documented or checked domain; arguments outside RFC 2268's (1..128 bytes, 1..1024 effective bits) are not cases of the property "
        "(recorded informationally: they panic); likewise blowfish.ExpandKey with an empty key",
    ]
    if ctx.replay:
        d = json.load(open(ctx.replay))["violation"]["detail"]
        c = d.get("case")
        if c:
            ctx.absorb(ctx.go_test("c12", "TestCases", cases=[c], timeout=600))
        else:
            ctx.absorb(ctx.go_test("c12", "TestKAT", timeout=600))
        return
    jobs = {
        "law": dict(module="BlockCipherLaws", cfg="BlockCipherLaws_Law.cfg", workers=4, note="Block interface laws: all permutations of 4 blocks x all two-call histories with aliasing"),
        "cases": dict(module="BlockCipherLaws_MC", cfg=ctx.pick("BlockCipherLaws_CasesQ.cfg", "BlockCipherLaws_CasesT.cfg"), workers=ctx.pick(4, 8),
                      note="accept <=> documented; TEA/XTEA evaluation (reference Decrypt inverts); case emission"),
    }
    res = {}
    with concurrent.futures.ThreadPoolExecutor(max_workers=len(jobs)) as ex:
        futs = {k: ex.submit(ctx.tlc, timeout=1500, **kw) for k, kw in jobs.items()}
        for k, f in futs.items():
            res[k] = f.result()
    for k, r in res.items():
        if not r.ok:
            raise vlib.Infra("design model %s: %s violated (model-level, not a verdict):\n%s" % (k, r.violated, (r.cex or "")[:4000]))
    cases = res["cases"].traces
    if len(cases) < 500:
        raise vlib.Infra("generator produced too few cases: %d" % len(cases))
    ctx.log("TLC: %d cases, %d TEA/XTEA vectors" % (len(cases), sum(len(c["vecs"]) for c in cases)))
    ctx.absorb(ctx.go_test("c12", "TestKAT", timeout=300))
    samples = ctx.tmp("c12_samples.ndjson")
    r = ctx.go_test("c12", "TestCases", cases=cases, timeout=1500, env={"VERIF_C12_SAMPLES": samples})
    ctx.absorb(r)
    # external references (optional amplifier)
    py = "/usr/bin/python3" if os.path.exists("/usr/bin/python3") else "python3"
    if os.path.exists(samples) and ctx.have("openssl"):
        p = subprocess.run([py, REF, samples], capture_output=True, text=True, timeout=900)
        summary = None
        for line in p.stdout.splitlines():
            try:
                o = json.loads(line)
            except Exception:
                continue
            if "mismatch" in o:
                ctx.violation("c12-differs-from-reference:%s" % o["mismatch"]["cipher"],
                              "Encrypt output differs from %s" % o["reference"], o)
            if "summary" in o:
                summary = o
        if p.returncode != 0 or summary is None:
            ctx.skipped.append("external reference script failed to run: %s" % p.stderr[-300:])
        else:
            ctx.extra["external_reference_comparisons"] = summary["summary"]
            ctx.evaluations += sum(summary["summary"].values())
            if not summary["have_openssl_legacy"]:
                ctx.skipped.append("openssl legacy provider not available: CAST5/RC2 reference equality skipped")
            if not summary["have_cryptography"]:
                ctx.skipped.append("python cryptography not available: Blowfish reference only for key lengths dividing 16")
            for k, v in summary["skipped"].items():
                ctx.skipped.append("%s: %s" % (k, v))
    else:
        ctx.skipped.append("openssl not installed: Blowfish/CAST5/RC2 external reference equality skipped")
    ctx.exhaustive = True
    ctx.notes.append("exhaustive over the model's key-length/round/effective-bit classes; keys and blocks sampled (seeded)")
