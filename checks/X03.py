"""X03 (growth) -- OpenPGP packet framing and the keyring grammar of golang.org/x/crypto/openpgp.

Specs (spec/PGPFraming*.tla):
 (a) PGPFraming          executable header codec: old format (length types 0,1,2,3 = indeterminate), new format (one octet
                         < 192, two octets 192..8383, five octets, partial 2^k), signature subpacket lengths; ParsePacket =
                         readHeader + contents to their end on abstract wires (explicit header octets + ranges of a data pattern).
 (b) PGPFramingStream    partialLengthWriter (Write/Close) and the body readers (partialLengthReader, spanReader) as state
                         machines over all write-size sequences, all cut points, all read-size schedules, both ways an
                         io.Reader reports the end of its input (scaled MinFirst = 8 for 512, MaxPow = 3 for 30).
 (c) PGPFramingReader    packet.Reader: Next / Push / Unread, unknown packets skipped, errors surfaced once, maxReaders.
 (d) PGPFramingKeyring   ReadKeyRing / ReadEntity / addUserID / addSubkey / readToNextPublicKey as a deterministic acceptor over
                         packet tokens; Sound / Complete / ErrShape / Ordered for every token sequence up to the bound.

Binding E+R (harness/x03): TLC evaluates the expected header octets, the predicted outcome of reading crafted octets cut at
every segment boundary, the expected stream of the writer for write-size sequences around the 512-octet rule (real constants),
packet.Reader call histories and the keyring result of every token sequence of length <= 3 over 28 tokens.  The harness replays
all of it on the real package through public entry points only (OpaquePacket/OpaqueReader, packet.Read, UserId, LiteralData
bodies, SerializeLiteral / SerializeSymmetricallyEncrypted / SerializeCompressed, packet.Reader, ReadMessage, ReadKeyRing /
ReadArmoredKeyRing on keyrings assembled from real packets with real signatures); a Go transcription of the TLA+ definitions is
first checked equal to every TLC vector and then judges the bulk (length sweeps, random write sequences, longer keyrings).
GnuPG is an optional independent judge (framing in both directions, keyring acceptance).

Documented model-level counterexamples (must be found by TLC, thorough tier) mirror the three findings of this check:
  X03-R1 (repaired in /repo) partialLengthReader reported io.EOF on a cut stream when the underlying reader returns data together
         with io.EOF: the models default to FixEof = TRUE (the code as it is); PGPFramingStream_DocEof.cfg (FixEof = FALSE) keeps the
         counterexample as documentation only; a regression on the code is a VIOLATION with the original signature,
  X03-W1 (open) a stream shorter than 512 octets leaves as partial chunks shorter than 512 (RFC 4880 4.2.2.4),
  X03-C1 (open) the packet following a partial-length compressed packet is not found (final length octet left unread).
"""
import concurrent.futures as cf
import json, os, subprocess, threading, time
import vlib

STREAM_W = "WriteReturns BufferBound Conservation ChunkShape FirstDuringWrites FirstChunkKept OnePacket"
STREAM_R = "RoundTrip NoSilentTruncation PrefixOnly AgreesWithFunction"

# (module, cfg) -> invariant that MUST be violated (documentation of a finding / of a limit)
EXPECT = {
    ("PGPFraming_MC", "PGPFraming_WriterDoc.cfg"): "FirstChunkRFC",
    ("PGPFramingStream_MC", "PGPFramingStream_DocShort.cfg"): "FirstChunkRFC",
    ("PGPFramingStream_MC", "PGPFramingStream_DocEof.cfg"): "NoSilentTruncation",
    ("PGPFramingReader_MC", "PGPFramingReader_DocResidue.cfg"): "Order",
}
GEN = {"PGPFraming_Codec.cfg", "PGPFraming_CodecBig.cfg", "PGPFraming_Writer.cfg", "PGPFraming_WriterBig.cfg",
       "PGPFramingReader_Gen.cfg", "PGPFramingReader_GenDeep.cfg", "PGPFramingKeyring_Gen.cfg", "PGPFramingKeyring_States.cfg"}


def _tlc(ctx, module, cfg, workers, timeout=1700):
    r = ctx.tlc(module, cfg=cfg, workers=workers, timeout=timeout, count=False, heap="2g",
                expect_violation=(module, cfg) in EXPECT)
    exp = EXPECT.get((module, cfg))
    if exp:
        if r.violated != exp:
            raise vlib.Infra("%s/%s: expected the documented counterexample to %s, TLC says violated=%r" % (module, cfg, exp, r.violated))
    elif not r.ok:
        raise vlib.Infra("design model %s/%s: %s violated (model-level counterexample, not reproduced on code):\n%s"
                         % (module, cfg, r.violated or "postcondition", (r.cex or r.raw[-3000:])[:6000]))
    r.raw = ""
    return r


def run(ctx):
    ctx.level = "model_checking"
    ctx.rule = ("codec cases = (tag, length) on boundary lengths {0,1,191,192,193,8383,8384,8385,65535,65536,100000 (2^24 thorough)} for "
                "serializeHeader, and crafted packets in every header form (new 1/2/5-octet, old 0/1/2/3, partial chunk lists x final "
                "length forms, declared lengths 2^31 and 2^32-1, first octet without bit 7) read whole and cut at every segment boundary "
                "+-1, each delivered in 5 io.Reader styles (whole, one octet, half, data-with-EOF, both) through OpaqueReader and packet.Read "
                "(UserId, unknown tags, LiteralData body with 5 buffer-size schedules); writer cases = write-size sequences of length <= 3 "
                "over a menu around 512/1024/4096/65536 x file-name lengths, through SerializeLiteral, plus seeded random sequences and the "
                "encrypted / compressed stream writers; reader cases = all call histories (Next/Push/Unread, <= 2 Unread) of length 15 over a "
                "stream tree with unknown / unparsable packets, empty and nested containers, containers as definite-length and as "
                "partial-length compressed packets, and a chain of 34 nested containers; keyring cases = every sequence of <= 3 of 28 "
                "tokens (TLC) + exhaustive sequences over a 12-token alphabet and seeded random / perturbed well-formed sequences of length "
                "4..9 (validated transcription), each assembled from real packets; distinct = distinct case identity as listed")
    ctx.assumptions = [
        "bodies are a fixed arithmetic pattern (PrimWords!PatByte); only framing is under test, not the content of typed packets",
        "scaled constants in the stream state machines: MinFirst = 8 for 512, MaxPow = 3 for 30; the case generator and the harness use the real 512; "
        "chunks of 2^30 octets are not exercised on the real code",
        "an io.Reader delivers as much as asked unless it is at its end (whole / one-octet / half readers in the harness); it may report io.EOF "
        "with or after the last octets",
        "keyring tokens abstract the cryptography: a signature verifies in a context iff it was made by the context's primary key over the "
        "context's object; the harness builds RSA-2048 / ECDSA P-384 / ElGamal-2048 keys and real signatures, and checks the token table "
        "(parse class, sign capability) before use",
        "v3 keys and signatures, encrypted secret keys, cross-signed signing subkeys and user attribute contents are not part of the token alphabet",
        "lengths >= 2^31 are carried as 16-bit limbs in the model and are never materialised; serializeHeader with a length >= 2^32 or a tag > 63 is outside the domain",
        "GnuPG 2.2 (when installed) is an amplifier: framing in both directions and show-only import of well-formed keyrings; its verdicts are recorded, "
        "a disagreement about keyring policy is informational",
    ]
    if ctx.replay:
        ctx.notes.append("replay: the whole tier is re-run (cases are generated, not stored)")
    T = ctx.thorough
    jobs = [  # (module, cfg, workers); generators first
        ("PGPFraming_MC", "PGPFraming_CodecBig.cfg" if T else "PGPFraming_Codec.cfg", 8 if T else 6),
        ("PGPFraming_MC", "PGPFraming_WriterBig.cfg" if T else "PGPFraming_Writer.cfg", 8 if T else 6),
        ("PGPFramingKeyring_MC", "PGPFramingKeyring_Gen.cfg", 6),
        ("PGPFramingReader_MC", "PGPFramingReader_Gen.cfg", 1),
        ("PGPFramingReader_MC", "PGPFramingReader_GenDeep.cfg", 1),
        ("PGPFramingStream_MC", "PGPFramingStream_MCBig.cfg" if T else "PGPFramingStream_MC.cfg", 8 if T else 4),
        ("PGPFramingStream_MC", "PGPFramingStream_Crafted.cfg", 2),
        ("PGPFramingKeyring_MC", "PGPFramingKeyring_Big.cfg" if T else "PGPFramingKeyring_MC.cfg", 12 if T else 4),
    ]
    if T:
        jobs += [("PGPFramingStream_MC", "PGPFramingStream_MCW4.cfg", 8),
                 ("PGPFramingStream_MC", "PGPFramingStream_Fixed.cfg", 4),
                 ("PGPFramingStream_MC", "PGPFramingStream_DocShort.cfg", 1),
                 ("PGPFramingStream_MC", "PGPFramingStream_DocEof.cfg", 1),
                 ("PGPFraming_MC", "PGPFraming_WriterDoc.cfg", 1),
                 ("PGPFramingReader_MC", "PGPFramingReader_DocResidue.cfg", 1),
                 ("PGPFramingReader_MC", "PGPFramingReader_MC.cfg", 2),
                 ("PGPFramingReader_MC", "PGPFramingReader_Limit.cfg", 1),
                 ("PGPFramingReader_MC", "PGPFramingReader_Chain.cfg", 1),
                 ("PGPFramingKeyring_MC", "PGPFramingKeyring_BigFull.cfg", 12),
                 ("PGPFramingKeyring_MC", "PGPFramingKeyring_States.cfg", 4)]
    if os.environ.get("VERIF_SKIP_MC"):          # development aid for mutation runs; recorded in the evidence
        jobs = [j for j in jobs if j[1] in GEN]
        ctx.skipped.append("VERIF_SKIP_MC set: configurations without a generator were skipped")
    have_gpg = ctx.have("gpg")
    if not have_gpg:
        ctx.skipped.append("gpg not installed: the independent-judge sub-checks (framing both ways, keyring acceptance) were skipped")

    res, errs = {}, []
    go_results = []
    built = threading.Event()
    build_err = []
    binary = ctx.tmp("x03.test")

    def build():
        """one test binary (built against the repository under test), run once per test function, concurrently"""
        try:
            cmd = [vlib.GO, "test", "-c", "-vet=off", "-tags", "verif", "-o", binary, "./x03/"]
            p = subprocess.run(cmd, cwd=os.path.join(vlib.VERIF, "harness"), env=ctx.go_env({}), capture_output=True, text=True, timeout=900)
            if p.returncode != 0 or not os.path.exists(binary):
                build_err.append("building harness/x03 failed (rc=%d):\n%s\n%s" % (p.returncode, p.stdout[-3000:], p.stderr[-3000:]))
        except Exception as e:
            build_err.append("building harness/x03 failed: %r" % e)
        built.set()

    seq = [0]
    seq_lock = threading.Lock()

    def go(test, cases, env=None, timeout=1500):
        built.wait()
        if build_err:
            raise vlib.Infra(build_err[0])
        with seq_lock:
            seq[0] += 1
            k = seq[0]
        outp = ctx.tmp("x03_out_%d.json" % k)
        e = {"VERIF_OUT": outp}
        if cases is not None:
            cp = ctx.tmp("x03_cases_%d.ndjson" % k)
            with open(cp, "w") as fh:
                for c in cases:
                    fh.write(json.dumps(c, separators=(",", ":")) + "\n")
            e["VERIF_CASES"] = cp
        e.update(env or {})
        t0 = time.time()
        p = subprocess.run([binary, "-test.run", test, "-test.count=1", "-test.timeout", "%ds" % timeout],
                           cwd=os.path.join(vlib.VERIF, "harness", "x03"), env=ctx.go_env(e), capture_output=True, text=True)
        ctx.extra.setdefault("go_runs", []).append({"pkg": "x03", "run": test, "wall_s": round(time.time() - t0, 1), "rc": p.returncode, "tags": "verif"})
        if not os.path.exists(outp):
            raise vlib.Infra("harness x03/%s produced no result (rc=%d):\n%s\n%s" % (test, p.returncode, p.stdout[-6000:], p.stderr[-3000:]))
        with open(outp) as fh:
            r = json.load(fh)
        os.unlink(outp)
        if cases is not None:
            os.unlink(e["VERIF_CASES"])
        if p.returncode != 0 and not r.get("violations"):
            # kept until the end: if other tests exhibited violations on the real code those are the verdict
            go_results.append((test, r))
            raise vlib.Infra("harness x03/%s failed without recording a violation (rc=%d):\n%s\n%s" % (test, p.returncode, p.stdout[-6000:], p.stderr[-3000:]))
        go_results.append((test, r))
        ctx.log("%s: %d evaluations, %d distinct, %d violations recorded, %.0fs" % (test, r.get("evaluations", 0), r.get("distinct", 0), len(r.get("violations") or []), time.time() - t0))

    def after(module, cfg, r):
        """binding R for a generator, started as soon as its TLC run is in"""
        if cfg.startswith("PGPFraming_Codec"):
            if not r.traces:
                raise vlib.Infra("codec generator produced nothing")
            go("TestCodec$", r.traces)
        elif cfg.startswith("PGPFraming_Writer") and cfg != "PGPFraming_WriterDoc.cfg":
            if not r.traces:
                raise vlib.Infra("writer generator produced nothing")
            go("TestWriter$", r.traces, env={"VERIF_X03_WBULK": 4000 if T else 400})
        elif cfg == "PGPFramingKeyring_Gen.cfg":
            if len(r.traces) < 1000:
                raise vlib.Infra("keyring generator produced %d cases" % len(r.traces))
            env = {"VERIF_X03_GPG": 1 if have_gpg else 0}
            if T:
                env.update({"VERIF_X03_KLEN": 5, "VERIF_X03_KRAND": 300000})
            else:
                env.update({"VERIF_X03_KLEN": 4, "VERIF_X03_KALPHA": "K1 K2 U_1 C11 C21 S_1 B11 V11 EU", "VERIF_X03_KRAND": 12000})
            go("TestKeyring$", r.traces, env=env, timeout=2400)
        elif cfg == "PGPFramingKeyring_States.cfg":
            go("TestKeyring$", r.traces, env={"VERIF_X03_KLEN": 3, "VERIF_X03_KRAND": 0, "VERIF_X03_GPG": 0})
        r.traces = r.traces if cfg.startswith("PGPFramingReader") else None

    def one(j):
        module, cfg, w = j
        r = _tlc(ctx, module, cfg, w)
        res[(module, cfg)] = r
        after(module, cfg, r)

    with cf.ThreadPoolExecutor(max_workers=8 if T else 12) as ex:
        ex.submit(build)
        futs = [ex.submit(one, j) for j in jobs]
        # the scenario and GnuPG tests need no generated cases
        futs.append(ex.submit(go, "TestScenarios$", None))
        if have_gpg:
            futs.append(ex.submit(go, "TestGPG$", None))
        for f in futs:
            try:
                f.result()
            except vlib.Infra as e:
                errs.append(str(e))
    def infra_or_verdict():
        """a harness part that died is infrastructure trouble -- unless other parts exhibited violations on the real code,
        which are then reported (the dead part is named in the notes)"""
        if any(r.get("violations") for _, r in go_results) and all("harness x03/" in e for e in errs):
            for _, r in go_results:
                ctx.absorb(r)
            ctx.notes.append("a harness part died without a result while others recorded violations: " + " | ".join(e[:300] for e in errs))
            return True
        raise vlib.Infra("; ".join(errs)[:8000])

    if errs:
        if infra_or_verdict():
            return
    # packet.Reader histories: the stream table of each generator precedes its histories
    rcases = []
    for cfg in ("PGPFramingReader_Gen.cfg", "PGPFramingReader_GenDeep.cfg"):
        tr = res[("PGPFramingReader_MC", cfg)].traces
        table = [t for t in tr if "streams" in t]
        hist = [t for t in tr if "hist" in t]
        if len(table) != 1 or not hist:
            raise vlib.Infra("%s: expected one stream table and some histories, got %d / %d" % (cfg, len(table), len(hist)))
        rcases += table + hist
    go("TestReader$", rcases)

    for (module, cfg), r in sorted(res.items()):
        exp = EXPECT.get((module, cfg))
        if cfg not in GEN or cfg in ("PGPFraming_Codec.cfg", "PGPFraming_CodecBig.cfg", "PGPFraming_Writer.cfg", "PGPFraming_WriterBig.cfg",
                                     "PGPFramingKeyring_Gen.cfg"):
            ctx.states += r.distinct          # the generator configs of (a), (b), (d) carry the invariants as well
            ctx.transitions += r.generated
        ctx.log("TLC %-22s %-34s %9d generated %9d distinct %6.1fs%s" % (module, cfg, r.generated, r.distinct, r.wall,
                "  (documented counterexample: %s)" % r.violated if exp else ""))
    for test, r in go_results:
        ctx.absorb(r)
    if T:
        ctx.extra["documented_model_counterexamples"] = sorted("%s: %s" % (c, v) for (m, c), v in EXPECT.items())
    else:
        ctx.notes.append("the model-level counterexamples that document the findings X03-R1 (repaired), X03-W1, X03-C1 (Doc*.cfg) are run in the thorough tier")
    if ctx.extra.get("x03_gpg_disagreement"):
        ctx.notes.append("GnuPG lists a well-formed keyring differently (informational): %s" % str(ctx.extra["x03_gpg_disagreement"])[:400])
    ctx.notes.append("exact chunking of the writer is compared informationally (x03_writer_chunking_*); the verdict is on the properties B2/B3")
    ctx.exhaustive = True
