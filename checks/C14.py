"""C14 - MD4 and RIPEMD-160 digests match their references; Sum leaves the running state usable.

Specs: spec/PrimMD4.tla (RFC 1320 as an executable TLA+ definition; ASSUMEs of the RFC's test suite),
spec/PrimRMD160.tla (the RIPEMD-160 paper's pseudo-code; word selections recomputed from rho/pi; ASSUMEs of the
paper's test values), spec/MDBuf.tla (abstract hash object: written, Sum = digest of the definition's padded blocks
of m[0..written), Sum pure, Reset), spec/MDBufImpl.tla (transcription of the x/nx/len buffering and of Sum's padding
through Write on a copy, over symbolic bytes; TLC checks the refinement MDBufImpl => MDBuf on scaled block sizes
and at the real constants 64/8), spec/MDBuf_Gen.tla (history generator), spec/MDBuf_Tags.tla (TLC-evaluated digests).

The Go harness (harness/c14) replays every history on real md4 and ripemd160 objects and compares every Sum
byte-for-byte with the TLC-evaluated digests where tabulated and otherwise with Go transcriptions of the TLA+
definitions validated against all TLC-evaluated digests in the same run."""
import concurrent.futures, hashlib, json, random, subprocess
import vlib


def _pat(seed, n):
    """PrimWords!Pat"""
    if seed == 0:
        return bytes(n)
    if seed == 1:
        return bytes([255]) * n
    return bytes((((seed * 131 + i * 197 + (i // 7) * 31 + 17) ^ (((i % 251) * (i % 241) + seed) % 256)) % 256) for i in range(n))


def _sim_cfg(rnd, depth):
    w = {0, 1, 7, 8, 9, 55, 56, 57, 63, 64, 65, 119, 120, 121, 127, 128, 129, 1000} | {rnd.randrange(0, 2001) for _ in range(10)}
    return ("SPECIFICATION GSpec\nCONSTANTS\n  BS = 64\n  LF = 8\n  WSet = {%s}\n  MaxLen = 2000\n  Depth = %d\nINVARIANTS Emit\nCHECK_DEADLOCK FALSE\n"
            % (", ".join(map(str, sorted(w))), depth))


def _third_opinion(ctx, tags):
    """hashlib.new('ripemd160') and `openssl dgst -md4 -provider legacy` as optional third opinions on the TLC-evaluated digests:
    a difference means the TLA+ definition (or the tool) is wrong - never a verdict about golang/crypto."""
    nr = nm = 0
    try:
        hashlib.new("ripemd160", b"")
        have_r = True
    except Exception:
        have_r = False
    have_m = ctx.have("openssl") and subprocess.run(["openssl", "dgst", "-md4", "-provider", "legacy"], input=b"", capture_output=True).returncode == 0
    for t in tags:
        msg, d = _pat(t["seed"], t["len"]), bytes(t["d"])
        if t["alg"] == "ripemd160" and have_r:
            if hashlib.new("ripemd160", msg).digest() != d:
                raise vlib.Infra("TLC-evaluated PrimRMD160 digest differs from hashlib ripemd160 for len %d: the definition is wrong" % t["len"])
            nr += 1
        if t["alg"] == "md4" and have_m and (t["len"] % 8 in (0, 7) or t["len"] < 4) and nm < 60:
            o = subprocess.run(["openssl", "dgst", "-md4", "-provider", "legacy"], input=msg, capture_output=True)
            if o.returncode == 0:
                if o.stdout.decode().split()[-1] != d.hex():
                    raise vlib.Infra("TLC-evaluated PrimMD4 digest differs from openssl md4 for len %d: the definition is wrong" % t["len"])
                nm += 1
    ctx.extra["tlc_digests_confirmed_by_hashlib_ripemd160"] = nr
    ctx.extra["tlc_digests_confirmed_by_openssl_md4"] = nm
    if not have_r:
        ctx.skipped.append("hashlib ripemd160 not available: third opinion skipped")
    if not have_m:
        ctx.skipped.append("openssl legacy md4 not available: third opinion skipped")


def run(ctx):
    ctx.level = "model_checking"
    T = "T" if ctx.thorough else "Q"
    ctx.rule = ("cases = (package, call history, data): histories = every sequence of Depth calls Write(n)/Sum/Reset ending in Sum over the length "
                "alphabet {0, 1, 55, 56, 57, 63, 64, 65} (thorough: also 8, 119, 120, 127, 128), enumerated by TLC from MDBuf.tla at the real block size, "
                "plus TLC-simulated histories of depth 12 with lengths 0..2000, each replayed on md4 and ripemd160; data = the pattern stream "
                "(TLC-evaluated digests for every length 0..TagMax) and seeded random bytes (validated transcription); plus every TLC-evaluated digest as a "
                "one-shot and a byte-at-a-time case, and a length sweep with random chunking and Sum mid-stream; distinct = distinct (package, history, data mode)")
    ctx.assumptions = [
        "digest oracle = TLC evaluation of spec/PrimMD4.tla (anchored by the RFC 1320 A.5 test suite) and spec/PrimRMD160.tla (anchored by the paper's 8 test "
        "values; r/r' recomputed from rho and pi); beyond the TLC-evaluated digests Go transcriptions validated against all of them in the same run",
        "messages are sampled (patterned, seeded random), not enumerated; every length 0..TagMax is covered by a TLC-evaluated digest, lengths to 2000 by the transcription",
        "histories exhaustive over the model's alphabet up to the depth bound; the 2^64-bit length counter overflow is out of reach",
    ]
    mc = {
        "mc_buf": dict(module="MDBufImpl", cfg="MDBufImpl_T.cfg", workers=2, coverage=ctx.thorough,
                       note="refinement MDBufImpl => MDBuf on block 8 / length field 2: compressed blocks at Sum = definition's padded blocks; Sum pure"),
        "mc_shape": dict(module="MDBuf", cfg="MDBuf_Shape.cfg", workers=2, note="abstract spec at the real constants 64/8: pad shape for every length 0..200"),
    }
    if ctx.thorough:
        mc["mc_buf4"] = dict(module="MDBufImpl", cfg="MDBufImpl_T4.cfg", workers=2, note="block 4 / length field 1")
        mc["mc_buf16"] = dict(module="MDBufImpl", cfg="MDBufImpl_T16.cfg", workers=2, note="block 16 / length field 4")
        mc["mc_real"] = dict(module="MDBufImpl", cfg="MDBufImpl_Real.cfg", workers=4, note="the real constants 64/8 over symbolic bytes, lengths to 200")
    rnd = random.Random(ctx.seed * 7919 + 14)
    jobs = {
        "gen": dict(module="MDBuf_Gen", cfg="MDBuf_Gen%s.cfg" % T, workers=1),
        "sim": dict(module="MDBuf_Gen", cfg_text=_sim_cfg(rnd, 12), simulate=ctx.pick(100, 1500), depth=13, workers=1),
        "tags": dict(module="MDBuf_Tags", cfg="MDBuf_Tags_%s.cfg" % T, workers=ctx.pick(4, 8)),
    }
    if ctx.replay:
        d = json.load(open(ctx.replay))["violation"]["detail"]
        tg = ctx.tlc_must_hold("MDBuf_Tags", cfg="MDBuf_Tags_Q.cfg", workers=4, timeout=900, count=False)
        tp = ctx.tmp("tags.ndjson")
        open(tp, "w").write("".join(json.dumps(x) + "\n" for x in tg.traces))
        cases = [{"h": d["history"]}] if d.get("history") else []
        ctx.absorb(ctx.go_test("c14", "TestReplay", cases=cases, timeout=900, env={"VERIF_C14_TAGS": tp, "VERIF_C14_RANDOM": 3, "VERIF_C14_SWEEP": 0}))
        return
    res = {}
    with concurrent.futures.ThreadPoolExecutor(max_workers=len(mc) + len(jobs)) as ex:
        futs = {k: ex.submit(ctx.tlc, timeout=2400, count=False, **kw) for k, kw in list(mc.items()) + list(jobs.items())}
        for k, f in futs.items():
            res[k] = f.result()
    for k, r in res.items():
        if not r.ok:      # a counterexample in the design model alone is never a verdict
            raise vlib.Infra("design model %s: %s violated:\n%s" % (k, r.violated, (r.cex or r.raw[-3000:])[:6000]))
        if k.startswith("mc_") or k == "tags":
            ctx.states += r.distinct
            ctx.transitions += r.generated
        if r.coverage_zero:
            ctx.notes.append("actions never taken in %s: %s" % (k, r.coverage_zero))
        ctx.log("%s: %d distinct states, %d TRACE lines, %.0fs" % (k, r.distinct, len(r.traces), r.wall))
    tags = res["tags"].traces
    if len(tags) < 100:
        raise vlib.Infra("digest table generator produced too little")
    _third_opinion(ctx, tags)
    tp = ctx.tmp("tags.ndjson")
    open(tp, "w").write("".join(json.dumps(x) + "\n" for x in tags))
    hist = list(res["gen"].traces)
    if not hist:
        raise vlib.Infra("history generator produced nothing")
    seen, nsim = set(), 0      # TLC's simulator evaluates the emitting invariant on every successor it generates: drop duplicates
    for t in res["sim"].traces:
        key = json.dumps(t, separators=(",", ":"))
        if key not in seen:
            seen.add(key)
            hist.append(t)
            nsim += 1
    if nsim == 0:
        raise vlib.Infra("simulation produced no histories")
    r = ctx.go_test("c14", "TestReplay", cases=hist, timeout=1800,
                    env={"VERIF_C14_TAGS": tp, "VERIF_C14_RANDOM": ctx.pick(1, 2), "VERIF_C14_SWEEP": ctx.pick(600, 2000)})
    ctx.log("replay: %d histories (%d simulated), %d evaluations, %d violations" % (len(hist), nsim, r.get("evaluations", 0), len(r.get("violations") or [])))
    ex = r.get("extra") or {}
    if "tlc_evaluated_digests" in ex:
        ctx.extra["tlc_evaluated_digests"] = ex.pop("tlc_evaluated_digests")
    ctx.extra["histories_enumerated"] = len(hist) - nsim
    ctx.extra["histories_simulated"] = nsim
    ctx.absorb(r)
    ctx.exhaustive = True
    ctx.notes.append("exhaustive over the model's call alphabet and depth bound; message space sampled; the sweep (both packages, every length 0..%d, "
                     "random chunking, Sum mid-stream then continue) is judged by the validated transcriptions" % ctx.pick(600, 2000))
