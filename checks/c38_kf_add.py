"""One-off helper (kept for reproducibility): append this engineer's known findings to known_findings.json
atomically, skipping entries already present.  Usage: python3 checks/c38_kf_add.py"""
import json, os, tempfile

NEW = [
    {"property": "C41", "id": "C41-F6a", "status": "open", "signature": "signed-bytes:keyMpint0-accepted",
     "what": "CertChecker.CheckCert accepts a certificate whose received bytes are not the bytes the CA signed: a leading zero byte inserted in an mpint (e, n / p, q, g, y) of the embedded RSA or DSA subject key parses to the same value (parseInt tolerates non-minimal mpints), bytesForSigning re-marshals the parsed value, so the signature made over the canonical bytes verifies; Marshal() of the parsed certificate equals the original, not the received bytes. Repro: SignCert an ssh-rsa user certificate, insert 0x00 at the start of the e mpint body (length+1), ParsePublicKey, CheckCert -> nil. Fix: fixes/C41-signed-bytes.diff (parseCert rejects a certificate whose canonical re-encoding differs from the bytes received)"},
    {"property": "C41", "id": "C41-F6b", "status": "open", "signature": "signed-bytes:caMpint0-accepted",
     "what": "as C41-F6a, with the non-minimal mpint inside the certificate's signature key field (RSA or DSA CA key): the received certificate differs from the signed bytes but CheckCert accepts it. Fix: fixes/C41-signed-bytes.diff"},
    {"property": "C41", "id": "C41-F6c", "status": "open", "signature": "signed-bytes:optNested-accepted",
     "what": "as C41-F6a, with a flag option/extension (empty data field) re-encoded as a data field holding an empty string (00 00 00 04 00 00 00 00): parseTuples maps both to the empty value and marshalTuples always emits the empty data field, so a certificate altered this way still passes CheckCert. Fix: fixes/C41-signed-bytes.diff"},
    {"property": "C41", "id": "C41-F6d", "status": "open", "signature": "signed-bytes:noncanonical-signed-as-received-rejected",
     "what": "converse of C41-F6a-c: a certificate in one of those tolerated non-canonical encodings whose CA signature covers exactly the received bytes parses but is rejected ('certificate signature does not verify') because the signature is checked over the re-encoding. With fixes/C41-signed-bytes.diff such byte strings are rejected by ParsePublicKey instead (they are then not certificates for the package)."},
    {"property": "C41", "id": "C41-R1", "status": "open", "signature": "roundtrip:ssh-keygen-explicit-empty-option-value",
     "what": "a certificate issued by ssh-keygen -s with an option or extension given an explicitly empty value (-O extension:name= or -O critical:name=) carries the data field 00 00 00 04 00 00 00 00; ParsePublicKey accepts it, Marshal() re-encodes the option with an empty data field (4 bytes shorter), so the certificate does not round-trip byte-for-byte and CheckCert rejects its valid CA signature (OpenSSH accepts the certificate). Permissions' map[string]string cannot tell the two encodings apart, so no minimal repair is proposed; with fixes/C41-signed-bytes.diff the certificate is rejected at parse time with a clear error instead."},
    {"property": "C41", "id": "C41-T1", "status": "fixed", "signature": "time-window:validbefore-in-[2^63,2^64-2]-rejected",
     "what": "CheckCert casts ValidBefore to int64 and rejects a negative result as expired: a certificate with ValidBefore in [2^63, 2^64-2] (ssh-keygen -V always:0x8000000000000000 issues one; OpenSSH compares as uint64 and accepts it) is rejected although ValidAfter <= now < ValidBefore. Fail-closed, low severity. Fix: fixes/C41-validbefore-uint64.diff (compare the clock as uint64 after rejecting negative clock values, as OpenSSH does)"},
    {"property": "C40", "id": "C40-M1", "status": "fixed", "signature": "multialgo:Sign-uses-algorithm-outside-list",
     "what": "multiAlgorithmSigner (returned by NewSignerWithAlgorithms, and by NewCertSigner for such signers) checks its algorithm list only in SignWithAlgorithm; the plain Sign method is the promoted method of the embedded signer, so Sign on an RSA signer restricted to [rsa-sha2-512] (or [rsa-sha2-256 rsa-sha2-512]) returns an ssh-rsa (SHA-1) signature although SignWithAlgorithm with the empty or ssh-rsa algorithm is refused. Repro: s, _ := NewSignerWithAlgorithms(rsaSigner.(AlgorithmSigner), []string{KeyAlgoRSASHA512}); sig, err := s.Sign(rand.Reader, data) -> err == nil, sig.Format == \"ssh-rsa\". The package itself always calls SignWithAlgorithm on such signers, so only direct callers of Sign are affected. Fix: fixes/C40-multialgo-sign.diff (Sign routed through SignWithAlgorithm with the key format's algorithm)"},
    {"property": "C38", "id": "C38-F1", "status": "open", "signature": "fingerprint:certificate-differs-from-ssh-keygen",
     "what": "FingerprintSHA256 / FingerprintLegacyMD5 of a *Certificate hash the whole certificate blob (cert.Marshal()), whereas ssh-keygen -l -E sha256|md5 -f cert.pub prints the fingerprint of the certified public key (the same value as for the plain .pub file, labelled ED25519-CERT etc.), so the package's fingerprint of every certificate differs from ssh-keygen's (all 8 certificate types). Repro: SignCert a certificate, write MarshalAuthorizedKey(cert) to a file, compare FingerprintSHA256(cert) with ssh-keygen -l -f file. A behaviour change for callers that log or pin certificate-blob fingerprints, so compatibility must be weighed. Fix: fixes/C38-cert-fingerprint.diff (fingerprint cert.Key for certificates)"},
    {"property": "C39", "id": "C39-K1", "status": "fixed", "signature": "accepted-inconsistent:outerPubOther",
     "what": "parseOpenSSHPrivateKey never compares the public key stored in the envelope of an OpenSSH private key file with the private key: a file whose envelope carries another key's public key (same type) is accepted by ParseRawPrivateKey(WithPassphrase) for RSA, ECDSA and Ed25519 keys, so the returned key's public key differs from the one stored in the file (OpenSSH rejects such a file: sshkey_parse_private2 checks sshkey_equal_public). Repro: MarshalPrivateKey two keys, copy the PubKey field of one envelope into the other, ParseRawPrivateKey -> nil error. Fix: fixes/C39-private-key-consistency.diff"},
    {"property": "C39", "id": "C39-K2", "status": "fixed", "signature": "accepted-inconsistent:outerPubGarbage",
     "what": "as C39-K1 with an unparsable public key blob in the envelope: the envelope's public key is only looked at to fill PassphraseMissingError, an unencrypted (or correctly decrypted) file with garbage there is accepted. Fix: fixes/C39-private-key-consistency.diff"},
    {"property": "C39", "id": "C39-K3", "status": "fixed", "signature": "accepted-inconsistent:seedMismatch",
     "what": "for ssh-ed25519 private keys parseOpenSSHPrivateKey returns the 64 stored private bytes without checking that the public half (bytes 32..63) belongs to the seed (bytes 0..31): a file whose seed was replaced is accepted and signatures made with the returned key do not verify under its own public key. Repro: replace Priv[:32] of an Ed25519 key file's private section with another seed, ParseRawPrivateKey -> nil error; NewSignerFromKey(k).Sign then PublicKey().Verify fails. Fix: fixes/C39-private-key-consistency.diff"},
    {"property": "C39", "id": "C39-K4", "status": "fixed", "signature": "accepted-inconsistent:privPubHalfOther",
     "what": "as C39-K3 with the public half of the Ed25519 private bytes replaced by another key's public key (the separate public field and the envelope left intact): accepted; signatures do not verify and the returned public key differs from the stored one. Fix: fixes/C39-private-key-consistency.diff"},
    {"property": "C39", "id": "C39-D1", "status": "open", "signature": "ssh-keygen-key:dsa-openssh-format-unhandled",
     "what": "ssh-keygen -t dsa (OpenSSH 9.2) writes the private key in OpenSSH format (keytype ssh-dss); parseOpenSSHPrivateKey has no case for it and returns 'ssh: unhandled key type' (encrypted files: after successful decryption), although the package parses DSA keys in the PEM 'DSA PRIVATE KEY' form. The property asks for all key types ssh-keygen writes. No patch proposed: DSA is deprecated in the package and removed from current OpenSSH; recorded as an open deviation."},
]


def main():
    here = os.path.dirname(os.path.dirname(os.path.abspath(__file__)))
    p = os.path.join(here, "known_findings.json")
    k = json.load(open(p))
    have = {(e["property"], e["signature"]) for e in k}
    added = 0
    for e in NEW:
        if (e["property"], e["signature"]) not in have:
            k.append(e)
            added += 1
    fd, tmp = tempfile.mkstemp(dir=here, suffix=".kf")
    with os.fdopen(fd, "w") as fh:
        json.dump(k, fh, indent=1)
        fh.write("\n")
    os.replace(tmp, p)
    print("added %d, total %d" % (added, len(k)))


if __name__ == "__main__":
    main()
