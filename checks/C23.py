"""C23 — cryptobyte ASN.1 readers accept exactly DER and agree with encoding/asn1.

Spec: spec/Asn1.tla over spec/PrimDER.tla and spec/PrimTwos.tla: the DER TLV predicate as the package
documents it (low-tag-number form, definite minimal length, <= 4 length octets) and, per type, the
accepted encodings and decoded values (INTEGER into every Go integer type / big.Int / []byte, BOOLEAN,
ENUMERATED, OBJECT IDENTIFIER, BIT STRING, OCTET STRING, UTCTime, GeneralizedTime, [0]-wrapped optional
variants), plus the DER encoders.  TLC enumerates every byte string of length <= 4 over 17 interesting
octets (thorough: also length 5 over 13), grammar-generated near-valid encodings (every length form around
127/128, 255/256, 65535/65536, 2^24; non-minimal integers; OID arcs; padding bits; time strings) and the
DER encodings of boundary values; checks canonicity / representability / encode-decode invariants on the
model and emits the predicted result of every reader.  The harness feeds every input to the real readers and
to encoding/asn1, and the boundary values to the AddASN1* builders."""
import json
import vlib


def run(ctx):
    ctx.level = "model_checking"
    ctx.rule = ("cases = inputs enumerated by TLC from Asn1_MC: all byte strings of length <= 4 over 17 octets "
                "{00,01,02,03,05,06,0a,1f,30,7f,80,81,82,84,85,a0,ff} (thorough: + length 5 over 13 of them), grammar-generated "
                "near-valid encodings and DER encodings of boundary values; each goes to ~40 reader calls and to encoding/asn1; "
                "distinct = distinct input (+ value kind)")
    ctx.assumptions = ["encoding/asn1 (Go standard library) is the trusted base for 'same value where both accept'; differences in the "
                       "*accepted sets* of the two packages are reported as information only",
                       "UTCTime/GeneralizedTime: modelled as the package documents/implements them (Z or non-zero +-hhmm offsets with hh<=23, "
                       "minute-precision UTCTime accepted as a documented leniency); offsets with hh=24 are not generated",
                       "OID sub-identifiers are limited to < 2^31 by the package (and by encoding/asn1)",
                       "contents longer than 48 octets are only judged for TLV extent, INTEGER minimality, BIT STRING and OCTET STRING"]
    cfg = ctx.pick("Asn1_GenQuick.cfg", "Asn1_GenThorough.cfg")
    if ctx.replay:
        d = json.load(open(ctx.replay))["violation"]["detail"]
        if isinstance(d, dict) and "case" in d:
            ctx.absorb(ctx.go_test("c23", "TestReplay", cases=[d["case"]], timeout=600))
            return
    # model checking and case generation in one run: each TRACE line is self-contained, so several workers are fine
    r = ctx.tlc_must_hold("Asn1_MC", cfg=cfg, workers=ctx.pick(8, 12), timeout=2400, heap="10g")
    if not r.traces:
        raise vlib.Infra("Asn1 generator produced no inputs")
    ctx.log("Asn1: %d inputs, %d with a DER TLV" % (len(r.traces), sum(1 for t in r.traces if t.get("ok"))))
    res = ctx.go_test("c23", "TestReplay", cases=r.traces, timeout=1500)
    ctx.absorb(res)
    n = ctx.pick(200000, 5000000)
    rnd = ctx.go_test("c23", "TestRandom", timeout=1500, env={"VERIF_C23_RANDOM": n})
    for v in (rnd.get("violations") or []):
        ctx.violations.append(v)
    ctx.extra["exploration_random_inputs"] = rnd.get("extra", {}).get("c23_random_inputs", 0)
    ctx.extra["exploration_random_both_accept"] = rnd.get("extra", {}).get("c23_random_both_accept", 0)
    ctx.notes.append("random/mutated encodings (exploration_random_inputs) are a differential smoke layer against encoding/asn1, not model-derived")
    ctx.exhaustive = True
