"""Binding demonstration for C31 (not a property check): record real traces, then corrupt one recorded field /
drop one hook event / reorder two events, and show that SSHRekey_Trace rejects each corrupted trace while it
accepts the originals.  Run: bin/check SELFTEST_C31"""
import copy, json, os, random
import C31

def run(ctx):
    res, traces, scen = C31.record(ctx, 6)
    cfg = C31.TRACE_CFG % (int(res["extra"]["max_pending"]), int(res["extra"]["chan_size"]) + 1)
    C31._validate(ctx, traces, cfg)
    assert not ctx.violations, "originals must be accepted"
    rng = random.Random(ctx.seed)
    report = []
    def corrupt(name, f):
        t = copy.deepcopy(traces[rng.randrange(len(traces))])
        if not f(t):
            report.append((name, "not applicable to this trace")); return
        before = len(ctx.violations)
        C31._validate(ctx, [t], cfg)
        report.append((name, "REJECTED" if len(ctx.violations) > before else "accepted (binding too weak!)"))
    def bump_index(t):      # one recorded field corrupted: a delivered packet's index
        ix = [i for i, e in enumerate(t) if e["ev"] == "deliver" and e["t"] == "APP"]
        if not ix: return False
        t[rng.choice(ix)]["i"] += 1; return True
    def drop_queued(t):     # one hook removed: a 'queued' linearization point
        ix = [i for i, e in enumerate(t) if e["ev"] == "queued"]
        if not ix: return False
        del t[rng.choice(ix)]; return True
    def app_in_kex(t):      # an application packet moved inside the key-exchange window of its side
        for i, e in enumerate(t):
            if e["ev"] == "wire" and e["t"] == "KEXINIT":
                for j in range(i + 1, len(t)):
                    if t[j]["ev"] == "wire" and t[j]["x"] == e["x"] and t[j]["t"] == "APP":
                        t.insert(i + 1, t.pop(j)); return True
        return False
    def swap_wire(t):       # two wire events of one side reordered
        ix = [i for i, e in enumerate(t) if e["ev"] == "wire" and e["t"] == "APP"]
        for a in ix:
            for b in ix:
                if b > a and t[a]["x"] == t[b]["x"] and t[a]["w"] == t[b]["w"]:
                    t[a], t[b] = t[b], t[a]; return True
        return False
    def drop_kexdone(t):
        ix = [i for i, e in enumerate(t) if e["ev"] == "kexdone"]
        if len(ix) < 3: return False
        del t[ix[2]]; return True
    for name, f in [("deliver index +1", bump_index), ("queued event removed", drop_queued), ("APP moved into kex window", app_in_kex),
                    ("two APP wire events of one writer swapped", swap_wire), ("kexdone event removed", drop_kexdone)]:
        corrupt(name, f)
    for r in report:
        print("selftest C31:", r[0], "->", r[1])
    bad = [r for r in report if r[1].startswith("accepted")]
    ctx.violations = []
    ctx.samples = [list(r) for r in report]; ctx.evaluations = len(report); ctx.distinct = len(report)
    if bad:
        raise __import__("vlib").Infra("binding demonstration failed: %s" % bad)
