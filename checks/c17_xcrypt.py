"""libxcrypt (crypt_rn / crypt_gensalt_rn through ctypes) as the independent bcrypt implementation for C17.

  c17_xcrypt.py gen <passwords.ndjson> <out.ndjson> <seed>    {"pw": hex} -> {"Pw": hex, "Hash": "$2?$04$..."} for $2a$, $2b$, $2y$
  c17_xcrypt.py verify <gohashes.ndjson>                      {"hash","q" hex,"same"} -> prints mismatches and a summary line

Passwords containing NUL cannot be given to a C-string API and are skipped by the caller."""
import ctypes, ctypes.util, json, random, sys


def lib():
    name = ctypes.util.find_library("crypt")
    if not name:
        raise SystemExit("no libcrypt")
    l = ctypes.CDLL(name)
    l.crypt_rn.restype = ctypes.c_char_p
    l.crypt_rn.argtypes = [ctypes.c_char_p, ctypes.c_char_p, ctypes.c_void_p, ctypes.c_int]
    l.crypt_gensalt_rn.restype = ctypes.c_char_p
    l.crypt_gensalt_rn.argtypes = [ctypes.c_char_p, ctypes.c_ulong, ctypes.c_char_p, ctypes.c_int, ctypes.c_char_p, ctypes.c_int]
    return l


def crypt(l, pw, setting):
    buf = ctypes.create_string_buffer(1 << 17)      # struct crypt_data is 32 KiB in libxcrypt 4.x; be generous
    r = l.crypt_rn(pw, setting, buf, len(buf))
    return None if r is None else bytes(r)


def main():
    l = lib()
    if sys.argv[1] == "probe":
        h = crypt(l, b"abc", b"$2b$04$abcdefghijklmnopqrstuu")
        print(json.dumps({"ok": h == b"$2b$04$abcdefghijklmnopqrstuuCi15uRb1eH7NAlJ/TgeJertyknQpYn2"}))
        return
    if sys.argv[1] == "gen":
        rnd = random.Random(int(sys.argv[4]))
        n = 0
        with open(sys.argv[3], "w") as out:
            for line in open(sys.argv[2]):
                pw = bytes.fromhex(json.loads(line)["pw"])
                if b"\0" in pw or len(pw) > 72:
                    continue
                for prefix in (b"$2a$", b"$2b$", b"$2y$"):
                    sb = ctypes.create_string_buffer(64)
                    salt = l.crypt_gensalt_rn(prefix, 4, bytes(rnd.randrange(256) for _ in range(16)), 16, sb, 64)
                    if salt is None:
                        continue
                    h = crypt(l, pw, bytes(salt))
                    if h is None or not h.startswith(prefix):
                        continue
                    out.write(json.dumps({"Pw": pw.hex(), "Hash": h.decode()}) + "\n")
                    n += 1
        print(json.dumps({"generated": n}))
        return
    if sys.argv[1] == "verify":
        n = bad = 0
        for line in open(sys.argv[2]):
            c = json.loads(line)
            q = bytes.fromhex(c["q"])
            if b"\0" in q:
                continue
            h = c["hash"].encode()
            got = crypt(l, q, h)
            n += 1
            if (got == h) != c["same"]:
                bad += 1
                print(json.dumps({"mismatch": c, "libxcrypt": None if got is None else got.decode()}))
        print(json.dumps({"checked": n, "bad": bad}))


main()
