"""C11 - X25519 equals RFC 7748 for all scalars and u-coordinates.

Spec: spec/X25519Wrap.tla.  The package is a wrapper over crypto/ecdh; the model carries the structure the property is
about on a toy instance of the same algebra (group Z_8 x Z_Q, u = point up to sign with the neutral element mapped to
u = 0, clamped scalars 8k, encodings with the ignored top bit and the aliases u + p of small u) and the wrapper's three
entry points as actions.  TLC checks exhaustively (Q = 5; thorough also 7 and 11): X25519 errs exactly when the RFC value
is all zero, which happens exactly for low-order inputs; ScalarMult writes the value or zeros over a dirty dst;
ScalarBaseMult = X25519 with any encoding of the base point; encodings and clamped-away scalar bits are irrelevant;
DH symmetry.  The generator names the real input classes (5 low-order u, small u with aliases, random u; clamp-equivalent
scalars, zero, all-ones) x API; the harness materialises them and compares the real package with an independent
math/big implementation of RFC 7748 (anchored by the RFC vectors) and with crypto/ecdh called directly."""
import concurrent.futures, json
import vlib


def run(ctx):
    ctx.level = "model_checking"
    ctx.rule = ("cases = (API, scalar class, u class, +p alias, top bit) enumerated by TLC from X25519Wrap_MC: u in {0, 1, p-1, the two order-8 values, 9, 2, 18, "
                "two random} x {canonical, top bit set} and {u+p, u+p with top bit} for u < 19; scalars {two random, three clamp-equivalent variants, all-zero, all-ones}; "
                "APIs X25519, ScalarMult, ScalarBaseMult; plus a sweep: every u in p..2^255-1 x top bit x 3 scalars, seeded random (scalar, u) pairs on all three entry points, "
                "DH symmetry on random pairs, wrong lengths, the RFC 7748 iterated vector (1 iteration; 1000 in the thorough tier); plus the neighbourhoods enumerated by TLC from X25519Nbhd: "
                "for each special u encoding (9, 0, 1, p-1, p..p+18, the order-8 values, top-bit forms, all-0xff, 2^255-1, an ordinary u) every single-byte deviation at bytes "
                "{0,1,15,16,30,31} x {01,7f,80,ff} x {xor, replace} and every bit flip of byte 31; for the base point every value of the last byte and of byte 0; the same around the scalars "
                "0, 1, 8, 2^254, 2^255-1, all-0xff plus all variations of the 3 low / 2 high bits clamping ignores; distinct = distinct (API, scalar, u) byte strings")
    ctx.assumptions = [
        "the RFC 7748 function value is taken from an independent math/big transcription of RFC 7748 section 5 in the harness (anchored on every run by the RFC's section 5.2 and 6.1 vectors) "
        "and from crypto/ecdh called directly; the two must agree on every input or the run stops as an infrastructure error",
        "a Montgomery-ladder transcription into TLA+ is deliberately not part of the model (255-bit field arithmetic on limbs costs TLC seconds per evaluation); the TLA+ model proves the "
        "error/zero/alias/clamp structure on a toy group with the same cofactor structure, not the field arithmetic",
        "scalars and u values beyond the named classes are seeded random samples",
    ]
    if ctx.replay:
        d = json.load(open(ctx.replay))["violation"]["detail"]
        if d.get("case") and "canon" in d["case"]:
            ctx.absorb(ctx.go_test("c11", "TestNbhd", cases=[d["case"]], timeout=600))
        elif d.get("case"):
            ctx.absorb(ctx.go_test("c11", "TestReplay", cases=[d["case"]], timeout=600))
        else:
            ctx.absorb(ctx.go_test("c11", "TestSweep", timeout=900))
        return
    jobs = {"toy5": dict(module="X25519Wrap", cfg="X25519Wrap_Toy5.cfg", workers=ctx.pick(6, 6), note="toy group Z_8 x Z_5: all calls of the three entry points"),
            "gen": dict(module="X25519Wrap_MC", cfg="X25519Wrap_Gen.cfg", workers=1, note="real input classes x API with predicted error and value identity"),
            "nbhd": dict(module="X25519Nbhd", cfg="X25519Nbhd.cfg", workers=4,
                         note="RFC 7748 decodeUCoordinate / decodeScalar25519 evaluated on the neighbourhoods of every special u and scalar encoding; "
                              "base point has exactly its four encodings, low order exactly the known ones, clamping forgets exactly 5 bits")}
    if ctx.thorough:
        jobs["toy7"] = dict(module="X25519Wrap", cfg="X25519Wrap_Toy7.cfg", workers=6, note="toy group Z_8 x Z_7")
        jobs["toy11"] = dict(module="X25519Wrap", cfg="X25519Wrap_Toy11.cfg", workers=8, note="toy group Z_8 x Z_11")
    res = {}
    with concurrent.futures.ThreadPoolExecutor(max_workers=len(jobs)) as ex:
        futs = {k: ex.submit(ctx.tlc, timeout=1500, **kw) for k, kw in jobs.items()}
        for k, f in futs.items():
            res[k] = f.result()
    for k, r in res.items():
        if not r.ok:
            raise vlib.Infra("design model %s: %s violated (model-level, not a verdict):\n%s" % (k, r.violated, (r.cex or "")[:4000]))
    cases = res["gen"].traces
    if len(cases) < 300:
        raise vlib.Infra("generator produced too few cases: %d" % len(cases))
    ctx.log("TLC: %d class cases" % len(cases))
    ctx.absorb(ctx.go_test("c11", "TestReplay", cases=cases, timeout=900))
    ctx.absorb(ctx.go_test("c11", "TestSweep", timeout=1200))
    nb = res["nbhd"].traces
    if len(nb) < 2500:
        raise vlib.Infra("neighbourhood generator produced too few cases: %d" % len(nb))
    rn = ctx.go_test("c11", "TestNbhd", cases=nb, timeout=1500)
    ctx.absorb(rn)
    cls = rn.get("extra", {}).get("neighbourhood_classes") or {}
    # vacuity guard: the base point's neighbourhood must have been run on the real package
    if cls.get("basepoint-lastbyte", 0) < 256 or cls.get("basepoint-byte0", 0) < 256 or cls.get("nbhd:9", 0) < 30 or cls.get("nbhd:9|top", 0) < 30 \
            or cls.get("nbhd:p+k", 0) < 300 or not any(k.startswith("snbhd:") for k in cls):
        raise vlib.Infra("neighbourhood classes not exercised: %s" % json.dumps(cls, sort_keys=True)[:600])
    ctx.log("neighbourhoods: %d cases in %d classes, %d evaluations" % (len(nb), len(cls), rn.get("evaluations", 0)))
    ctx.exhaustive = True
    ctx.notes.append("exhaustive over the model's input classes and the 19 non-canonical values p..2^255-1; scalars and generic u sampled (seeded)")
