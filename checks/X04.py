"""X04 (growth) -- life cycle of an SSH client connection and client-side forwarding.

Spec: spec/SSHClientLife.tla -- an ssh.Client (client.go, connection.go, tcpip.go beyond listeners, streamlocal.go dial
side) as a big-step state machine over the mux/channel layer of SSHMux.tla / SSHChannel.tla: one action per public call
(Dial / DialContext / DialTCP with every kind of argument, SendRequest with / without want-reply, HandleChannelOpen,
Accept / Reject of a delivered NewChannel, Read / Write / CloseWrite / Close on a dialled connection, Client.Close,
Client.Wait), per context that ends (cancel or deadline, at every point relative to the peer's answer), per thing a
conforming peer can do (open confirmation with a normal or a zero window, open failure with a reason, data / EOF /
close / window adjust on a channel, channel opens of registered and unregistered types, global requests with and without
want-reply, solicited and unsolicited replies, disconnect, EOF, transport error), and per RACE (a context ending while
the answer or the end of the connection is on its way; a second want-reply request while the reply to the first is on
its way).  TLC checks L1..L8 (22 invariants, on every transition) exhaustively within the bounds and the small-step
model SSHClientLifeDialCtx.tla of DialContext's two goroutines (invariants + liveness under fairness; it justifies the
outcome set of the race events), then emits one witness history per model transition out of every distinct abstract
state (plus seeded random long histories) with the predicted observables per step.
Binding R: harness/x04 replays every history on a REAL ssh.Client whose peer is the harness speaking raw packets, over
two transports (NewControlClientConn's plain framing; NewClientConn's real key exchange and encryption against a real
server-side transport), inside testing/synctest bubbles, comparing per step: packets written, calls returned with
result class / rejection reason / reply payload / chunks read, NewChannels delivered, handler channels closed,
connection ended, and -- wherever the model says the client is idle, and at the end -- the goroutines of package ssh
from a goroutine dump.
Binding T: a seeded random long-session driver (model-independent books, rekeys in the middle on the encrypted
transport) records executions that SSHClientLife_Trace.tla validates event by event."""
import json, os, random, threading
import vlib


def _par(ctx, jobs):
    """Run independent jobs in threads (JVM start-up under load dominates); re-raise the first failure."""
    res, errs = {}, []

    def work(name, fn):
        try:
            res[name] = fn()
        except Exception as e:      # noqa
            errs.append(e)
    ths = [threading.Thread(target=work, args=j) for j in jobs]
    for t in ths:
        t.start()
    for t in ths:
        t.join()
    if errs:
        raise errs[0]
    return res


# vacuity: what the emitted histories must exercise (event kinds; result classes per call kind)
NEED_EVENTS = {"dial", "cancel", "greq", "hreg", "accept", "reject", "write", "read", "closewrite", "closeconn", "cclose", "wait",
               "confirm", "fail", "data", "eof", "close", "adj", "creq", "popen", "pgreq", "greply", "peereof", "garbage", "disc",
               "race", "greq2"}
NEED_RESULTS = {"dial": {"conn", "rejected", "err", "ctxerr/1", "ctxerr/2"}, "greq": {"true", "false", "ok", "err"},
                "greq2": {"true", "false", "err"}, "hreg": {"chan", "nil", "closed"}, "accept": {"ok", "err"}, "reject": {"ok", "err"},
                "write": {"ok", "eof"}, "read": {"data", "eof"}, "closewrite": {"nil", "eof"}, "closeconn": {"nil", "eof"},
                "cclose": {"returned"}, "wait": {"err"}}


def coverage_of(ctx, cases):
    """Event kinds and result classes exercised by the histories that were replayed (rule 8: no vacuous pass)."""
    evs, results, alts, idle = set(), {}, 0, 0
    # call numbering: the preamble's calls come first
    pre = {"empty": [], "conn": ["dial"], "pend": ["dial"], "hreg": ["hreg"], "two": ["dial", "dial"]}
    for c in cases:
        kinds = list(pre[c["cfg"]])
        for st in c["steps"]:
            evs.add(st["ev"]["k"])
            alts += 1 if st["alt"]["on"] else 0
            idle += 1 if st["idle"] else 0
            if st["ev"]["k"] in NEED_RESULTS:
                kinds.append(st["ev"]["k"])
            for d in st["done"] + ([] if st is not c["steps"][-1] else c["final"]["done"]):
                k = kinds[d[0] - 1] if 0 < d[0] <= len(kinds) else "?"
                r = d[1]["c"] + ("/%d" % d[1]["x"] if d[1]["c"] == "ctxerr" else "")
                results.setdefault(k, set()).add(r)
    missing = sorted(NEED_EVENTS - evs) + sorted("%s->%s" % (k, r) for k, need in NEED_RESULTS.items() for r in need - results.get(k, set()))
    ctx.extra["covered_event_kinds"] = sorted(evs)
    ctx.extra["covered_results"] = {k: sorted(v) for k, v in sorted(results.items())}
    ctx.extra["race_steps_replayed"] = alts
    ctx.extra["idle_points_with_goroutine_count"] = idle
    if missing and ctx.thorough:
        raise vlib.Infra("vacuity: the replayed histories never exercise %s" % ", ".join(missing))
    if missing:
        ctx.notes.append("not exercised at this tier: %s" % ", ".join(missing))


def run(ctx):
    ctx.level = "model_checking"
    ctx.rule = ("cases = histories emitted by TLC from SSHClientLife (one per model transition out of every distinct abstract client "
                "state within the bounds, 5 initial configurations, three alphabets: full, lite, connection-centric; plus seeded "
                "simulated long histories), each replayed on a real ssh.Client against a raw-packet peer (every third one over a real "
                "encrypted transport) and compared per step; distinct = distinct history.  Long random sessions recorded from the "
                "real code are validated as traces of the same specification.")
    ctx.assumptions = [
        "the peer keeps to RFC 4254's channel state machine (answers only pending opens, no data after its EOF, nothing after its "
        "close); raw protocol violations are the subject of C36",
        "the application reads / writes a connection from one goroutine each, does not call CloseWrite while a Write is blocked, "
        "services handler channels, and has at most one want-reply global request outstanding (a second one started while the "
        "reply to the first is on its way is covered by the greq2 race event)",
        "each event runs to quiescence (testing/synctest: every goroutine durably blocked) before the next one; the race events "
        "perform two things without waiting in between and accept either outcome the model allows",
        "error values are compared by class (OpenChannelError with reason and message, context.Canceled / DeadlineExceeded, io.EOF, "
        "other); the payload of a REQUEST_FAILURE and the error of Close / Wait beyond being non-nil are not compared",
        "the transport below the mux is NewControlClientConn's framing or the real handshakeTransport against a server-side "
        "transport driven through hook ssh/verif_handshake.go; authentication is \"none\"",
    ]
    if ctx.replay:
        rp = json.load(open(ctx.replay))
        det = (rp.get("violation") or {}).get("detail") or {}
        if isinstance(det, dict) and det.get("trace"):
            ctx.validate_traces("SSHClientLife_Trace", [det["trace"]], timeout=900)
            return
        case = det.get("case") if isinstance(det, dict) else None
        if not case:
            raise vlib.Infra("replay file has no history")
        ctx.absorb(ctx.go_test("x04", "TestReplay$", cases=[case], timeout=600, env={"VERIF_X04_PAR": 1}))
        return

    q = not ctx.thorough
    mcs = ["Q", "QLite"] if q else ["T", "TLite", "TDeep", "TConn"]
    gens = [("GenQ", None, None), ("GenQConn", None, None)] if q else [("GenTa", None, None), ("GenTb", None, None), ("GenLite", None, None), ("GenConn", None, None)]
    gens.append(("Sim", ctx.pick(40, 400), 14))       # in simulation mode every candidate successor that ends a history is printed

    def mc(name):
        return lambda: ctx.tlc_must_hold("SSHClientLife_MC", cfg="SSHClientLife_%s.cfg" % name, timeout=2400,
                                         workers=ctx.pick(4, 16), coverage=(name == "T"))

    def small():
        # the small-step model of DialContext (true interleavings, liveness); the leaking design must violate NoLeak
        r = ctx.tlc_must_hold("SSHClientLifeDialCtx", cfg="SSHClientLifeDialCtx.cfg", timeout=600, workers=2)
        d = ctx.tlc("SSHClientLifeDialCtx", cfg="SSHClientLifeDialCtx_Leak.cfg", timeout=600, workers=2, expect_violation=True, count=False)
        if d.violated != "NoLeak":
            raise vlib.Infra("SSHClientLifeDialCtx_Leak.cfg (DialContext without conn.Close) should violate NoLeak, TLC says %r" % d.violated)
        return r

    def gen(name, sim, depth):
        return lambda: ctx.tlc_must_hold("SSHClientLife_MC", cfg="SSHClientLife_%s.cfg" % name, workers=1, timeout=2400, count=False,
                                         simulate=sim, depth=depth)

    tp = ctx.tmp("x04_traces.ndjson")

    def long_sessions():
        return ctx.go_test("x04", "TestLong$", env={"VERIF_TRACE_OUT": tp, "VERIF_X04_LONG": ctx.pick(60, 900)}, timeout=1500)

    def big_mcs():
        for m in mcs:
            res["mc:" + m] = mc(m)()
        # the leaking design in the big-step model: documents the counterexample to L2; never a verdict
        r = ctx.tlc("SSHClientLife_MC", cfg="SSHClientLife_Leak.cfg", timeout=900, expect_violation=True, count=False)
        if not r.violated or not r.violated.startswith("L2"):
            raise vlib.Infra("SSHClientLife_Leak.cfg (CloseLate=FALSE) should violate L2, TLC says %r" % r.violated)
        ctx.notes.append("SSHClientLife_Leak.cfg (a late-confirmed channel is not closed): TLC reports violation of %s" % r.violated)

    res = {}
    mc_err = []
    mc_thread = None
    if not q:
        # thorough: the big model-checking runs one after the other, next to everything else
        def mc_main():
            try:
                big_mcs()
            except Exception as e:      # noqa
                mc_err.append(e)
        mc_thread = threading.Thread(target=mc_main)
        mc_thread.start()
    jobs = [("long", long_sessions), ("small", small)] + [("gen:" + g[0], gen(*g)) for g in gens]
    if q:
        jobs += [("mc:" + m, mc(m)) for m in mcs]
    try:
        res.update(_par(ctx, jobs))
    except Exception:
        if mc_thread:
            mc_thread.join()
        raise

    def log_mcs():
        for m in mcs:
            r = res["mc:" + m]
            ctx.log("TLC %s: %d generated, %d distinct, %.0fs" % (m, r.generated, r.distinct, r.wall))
            if r.coverage_zero:
                ctx.notes.append("actions never taken in %s: %s" % (m, r.coverage_zero))

    cases = []
    for g in gens:
        r = res["gen:" + g[0]]
        if not r.traces:
            raise vlib.Infra("generator %s produced no histories" % g[0])
        ctx.log("%s: %d histories (%.0fs)" % (g[0], len(r.traces), r.wall))
        tr = r.traces
        cap = ctx.pick({"GenQ": 5000, "GenQConn": 3000, "Sim": 1500}.get(g[0], 5000), 25000 if g[0] == "Sim" else 10 ** 9)
        if len(tr) > cap:               # seeded sample of the witnesses
            random.Random(ctx.seed * 7919 + len(tr)).shuffle(tr)
            tr = tr[:cap]
        cases.extend(tr)
    ctx.extra["histories_replayed"] = len(cases)

    res_l = res["long"]
    lg = dict(res_l)
    lg["evaluations"] = 0
    lg["distinct"] = 0
    ctx.absorb(lg, validated=False)
    traces = []
    if os.path.exists(tp):
        with open(tp) as fh:
            for line in fh:
                traces.append(json.loads(line))
    if not traces and not res_l.get("violations"):
        raise vlib.Infra("x04 long-session driver recorded no traces")
    ctx.log("recorded %d long sessions, %d events" % (len(traces), sum(len(t) for t in traces)))

    def replay():
        return ctx.go_test("x04", "TestReplay$", cases=cases, timeout=2400, env={"VERIF_X04_PAR": ctx.pick(4, 8)})

    chunks = [traces[i:i + 100] for i in range(0, len(traces), 100)]

    def validate(k, n):
        def f():
            for c in chunks[k::n]:
                ctx.validate_traces("SSHClientLife_Trace", c, timeout=1200, max_rejects=3)
        return f

    nval = ctx.pick(1, 3)
    try:
        res2 = _par(ctx, [("replay", replay)] + [("validate%d" % k, validate(k, nval)) for k in range(nval)])
    finally:
        if mc_thread:
            mc_thread.join()
    if mc_err:
        raise mc_err[0]
    coverage_of(ctx, cases)
    log_mcs()
    ctx.absorb(res2["replay"])
    aborted = (res_l.get("extra") or {}).get("long_sessions_aborted") or []
    if aborted and not ctx.violations:
        # the driver could not perform an event it believed possible, and the specification explains everything recorded
        raise vlib.Infra("x04 long-session driver and harness disagree: %s" % "; ".join(aborted[:3]))
    ctx.extra["recorded_long_sessions"] = len(traces)
    ctx.exhaustive = False
