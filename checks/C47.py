"""C47 -- OTR conversations deliver messages and authenticate secrets.

Spec: spec/OTR.tla (+ OTR_MC, OTR_Gen): two Conversation objects, one in-order channel per direction, actions
Deliver (= Receive of the next wire message: fragment automaton, AKE state machine with SYN-crossing, data
messages with key ids / key slots / counters / DH rotation, TLVs, SMP), UserSend, UserEnd, UserAuth, network
faults Drop/Dup/Tamper.  TLC checks: both sides reach the encrypted state from one-sided and simultaneous starts
under fair delivery (temporal), delivery unchanged / in order / exactly once, SMP Complete iff equal secrets, a
modified data message is rejected and changes nothing (action property).

Binding R: every behaviour TLC emits (all interleavings of the AKE; witness histories / simulated behaviours
with data, End, SMP and faults) is stepped through two REAL otr.Conversation objects (harness/c47), comparing
after each call the delivered plaintext, SMP events, IsEncrypted, error, SecurityChange and the kinds of messages
to transmit.  Property-level random drivers (lengths 0..5000, FragmentSize 0 and 1..200, random schedules),
field-boundary mutations of every message kind, random inputs and TLV injection widen the input space."""
import concurrent.futures as cf
import json, random
import vlib

MODULE_MC = "OTR_MC"
MODULE_GEN = "OTR_Gen"
# configs checked for vacuity (thorough tier): actions that the config switches off on purpose
EXPECT_UNUSED = {"Full": ["UserQuery"], "SMP2": ["UserEnd", "Fault", "UserQuery", "UserSend"], "Faults": ["UserEnd", "UserAuth", "UserQuery"],
                 "Requery": ["UserEnd", "UserAuth", "Fault"]}


def _par(ctx, jobs, max_parallel=6):
    """jobs: list of (name, callable) -> {name: result}; Infra of any job is re-raised after all finished."""
    res, errs = {}, []
    with cf.ThreadPoolExecutor(max_workers=max_parallel) as ex:
        futs = {n: ex.submit(f) for n, f in jobs}
        for n, _ in jobs:
            try:
                res[n] = futs[n].result()
            except vlib.Infra as e:
                errs.append("%s: %s" % (n, e))
    if errs:
        raise vlib.Infra("; ".join(errs)[:8000])
    return res


def _maximal(traces):
    """Witness generation emits one history per reachable (state, last call); the set is prefix-closed, so only
    histories that are not a proper prefix of another one need replaying."""
    ser = []
    pref = set()
    for t in traces:
        setup = json.dumps([t["hi"], t["nf"], t["inbox0"]], sort_keys=True)
        acc = setup
        steps = [json.dumps(s, sort_keys=True) for s in t["h"]]
        for s in steps[:-1]:
            acc = acc + "|" + s
            pref.add(hash(acc))
        ser.append(acc + ("|" + steps[-1] if steps else ""))
    return [t for t, full in zip(traces, ser) if hash(full) not in pref]


def run(ctx):
    ctx.level = "model_checking"
    ctx.rule = ("behaviours = call sequences emitted by TLC from OTR_Gen: every maximal interleaving of the AKE (one-sided and "
                "simultaneous starts, both outcomes of the commit comparison, fragment classes), maximal witness histories "
                "(one per reachable model state and last call) and simulated behaviours with data messages, End, one or two SMP "
                "runs and one network fault; distinct = distinct (setup, call sequence).  Random scenarios, mutations and random "
                "inputs are counted as evaluations; a mutation is distinct by (message kind, mutation name)")
    ctx.assumptions = [
        "channels are in order; the only faults are the modelled ones (loss, repetition, modification of one wire message)",
        "DSA keys are the two fixed keys of the package's tests; randomness is a seeded stream in which 40-byte draws are resampled so that the model's choice of the greater commit digest holds",
        "user messages contain no NUL byte (the OTR data format ends the human-readable part at the first NUL; the rest is parsed as TLVs)",
        "a modified data message = a change in the authenticated part or the MAC; the trailing revealed-MAC-keys field is unauthenticated by protocol design (such a message is accepted with unchanged plaintext)",
        "cryptographic strength (AES, SHA, HMAC, DSA, DH, the SMP zero-knowledge proofs) is abstracted by provenance tokens in the model and exercised only through the real runs",
    ]
    T = ctx.thorough

    # ------------------------------------------------------------------ model checking
    mc = ["Data", "SMPSeq", "FaultsQ"] + (["AKE", "SMPQ", "SMP", "SMPSeq3", "DataT", "Faults", "SMP2", "Full", "Requery"] if T else [])

    def mcjob(c):
        return lambda: ctx.tlc(MODULE_MC, cfg="OTR_%s.cfg" % c, workers=4 if T else 2, timeout=2400, count=False,
                               coverage=(T and c in EXPECT_UNUSED), note="exhaustive")
    gens = {"AKEQ": dict(cfg="OTR_GenAKEQ.cfg"), "SMPSeq": dict(cfg="OTR_GenSMPSeq.cfg"),
            "Sim": dict(cfg="OTR_GenSim.cfg", simulate=ctx.pick(220, 1500), depth=40)}
    if T:
        gens.update({"AKE": dict(cfg="OTR_GenAKE.cfg"), "Data": dict(cfg="OTR_GenData.cfg"), "SMPw": dict(cfg="OTR_GenSMP.cfg"),
                     "FaultsW": dict(cfg="OTR_GenFaults.cfg"), "SMP2w": dict(cfg="OTR_GenSMP2.cfg"), "RequeryW": dict(cfg="OTR_GenRequery.cfg"),
                     "CommitTamperW": dict(cfg="OTR_GenCommitTamper.cfg"), "SMPSeq3W": dict(cfg="OTR_GenSMPSeq3.cfg")})

    def genjob(k):
        return lambda: ctx.tlc(MODULE_GEN, workers=1, timeout=2400, count=False, note="behaviour generation", **gens[k])
    # the drivers that need no TLC output run on the real code while TLC works
    drv_env = {"VERIF_N": ctx.pick(50, 700), "VERIF_MUT": ctx.pick(60, 400), "VERIF_RAND": ctx.pick(150, 3000)}
    jobs = [("drivers", lambda: ctx.go_test("c47", "^TestDrivers$", env=drv_env, timeout=3000))]
    jobs += [("mc:" + c, mcjob(c)) for c in mc] + [("gen:" + k, genjob(k)) for k in gens]
    # the code before otr b85d235 (AwaitingRevealSig entered before the D-H commit was parsed) survives only in this Doc
    # configuration: TLC must still find the state without a D-H key that made the next commit panic
    jobs.append(("doc:CommitState", lambda: ctx.tlc(MODULE_MC, cfg="OTR_DocCommitState.cfg", workers=1, timeout=2400, count=False,
                                                     expect_violation=True, note="expected counterexample: pre-b85d235 commit handling reaches AwaitingRevealSig without a D-H key")))
    # finding C47-S1 (repaired in otr 9e113f0): every configuration models the repaired code (FixSMPReset = TRUE) and checks the full
    # RunOutcome (every clean SMP run of a session: responder asked once, Complete on both sides iff the secrets of that run are
    # equal); the old behaviour (SMP state kept after a FAILED run) survives only in this Doc configuration, whose counterexample
    # TLC must still find.  A regression of the code is a VIOLATION with the original signature
    # otr-smp-run:after-failed:roles-swapped:responder-not-asked (judged per run by the harness)
    jobs.append(("doc:SMPStale", lambda: ctx.tlc(MODULE_MC, cfg="OTR_DocSMPStale.cfg", workers=1, timeout=2400, count=False,
                                                  expect_violation=True, note="expected counterexample (finding C47-S1, pre-9e113f0 code): SMP state kept after a failed run")))
    if T:
        jobs.append(("doc:SecondRun", lambda: ctx.tlc(MODULE_MC, cfg="OTR_DocSecondRun.cfg", workers=1, timeout=2400, count=False,
                                                       expect_violation=True, note="non-vacuity: a clean, answered second run after a successful first one is reachable")))
        # outside the property's scope (re-keying an encrypted conversation): the model predicts that a message sent between
        # the arrival of the peer's query and the completion of the new AKE is lost; documented counterexample, and the
        # RequeryW behaviours confirm on the real code that it behaves as modelled
        jobs.append(("doc:RequeryLoss", lambda: ctx.tlc(MODULE_MC, cfg="OTR_DocRequeryLoss.cfg", workers=2, timeout=2400, count=False,
                                                         expect_violation=True, note="expected counterexample: data sent during re-keying is lost")))
    res = _par(ctx, jobs, max_parallel=ctx.pick(9, 9))
    for c in mc:
        r = res["mc:" + c]
        if not r.ok:
            raise vlib.Infra("design model OTR/%s: %s violated (model-level counterexample, not reproduced on the code):\n%s"
                             % (c, r.violated or "postcondition", (r.cex or r.raw[-3000:])[:6000]))
        ctx.states += r.distinct
        ctx.transitions += r.generated
        ctx.log("TLC %-8s %9d generated %9d distinct %6.1fs" % (c, r.generated, r.distinct, r.wall))
        if c in EXPECT_UNUSED and T:
            acts = sorted(set(r.coverage_zero) - set(EXPECT_UNUSED[c]) - {"Init"})
            if acts:
                raise vlib.Infra("vacuity: actions never taken in OTR_%s: %s" % (c, acts))
    if res["doc:CommitState"].violated != "NoNilKey":
        raise vlib.Infra("the documented counterexample to NoNilKey (pre-repair commit handling) was not found (TLC: %r)" % res["doc:CommitState"].violated)
    if res["doc:SMPStale"].violated != "RunOutcome":
        raise vlib.Infra("the documented counterexample to RunOutcome (the pre-9e113f0 code: SMP state kept after a failed run, "
                         "FixSMPReset = FALSE in OTR_DocSMPStale.cfg) was not found (TLC: %r): the model no longer separates the old "
                         "behaviour from the repaired one" % res["doc:SMPStale"].violated)
    if T and res["doc:SecondRun"].violated != "NoSecondRunAfterSuccess":
        raise vlib.Infra("vacuity: no second SMP run after a successful first one in the model (TLC: %r)" % res["doc:SecondRun"].violated)
    if T and res["doc:RequeryLoss"].violated != "RequeryLosesNothing":
        raise vlib.Infra("the documented counterexample RequeryLosesNothing was not found (TLC: %r)" % res["doc:RequeryLoss"].violated)
    # ------------------------------------------------------------------ binding R: replay of TLC's behaviours
    rnd = random.Random(ctx.seed)
    cases = []
    counts = {}
    for k in gens:
        r = res["gen:" + k]
        if not r.ok:
            raise vlib.Infra("generator OTR_%s failed: %s" % (k, (r.cex or r.raw[-2000:])[:3000]))
        tr = [t for t in r.traces if t.get("h")]
        if k in ("Data", "SMPw", "FaultsW", "SMP2w", "RequeryW", "CommitTamperW", "SMPSeq", "SMPSeq3W"):
            tr = _maximal(tr)
            cap = {"Data": 7000, "SMPw": 2500, "FaultsW": 7000, "SMP2w": 2500, "RequeryW": 2500, "CommitTamperW": 2500, "SMPSeq": 2500, "SMPSeq3W": 3000}[k]
            if len(tr) > cap:
                tr = rnd.sample(tr, cap)
        elif k == "Sim":
            seen, uniq = set(), []
            for t in tr:
                key = json.dumps(t, sort_keys=True)
                if key not in seen:
                    seen.add(key)
                    uniq.append(t)
            tr = _maximal(uniq)
        counts[k] = len(tr)
        if not tr:
            raise vlib.Infra("generator OTR_%s produced no behaviours" % k)
        cases += tr
    ctx.log("behaviours to replay: %s" % counts)
    ctx.extra["behaviours_by_generator"] = counts
    if ctx.replay:
        with open(ctx.replay) as fh:
            d = json.load(fh)["violation"].get("detail") or {}
        if d.get("behaviour"):
            cases = [d["behaviour"]]
    rr = ctx.go_test("c47", "^TestReplay$", cases=cases, timeout=3000)
    ctx.absorb(rr)
    div = rr.get("extra", {}).get("divergences", 0)
    unreal = rr.get("extra", {}).get("unrealised", 0)

    # ------------------------------------------------------------------ property-level drivers on the real code
    ctx.absorb(res["drivers"], validated=False)
    # vacuity guard for the multi-run SMP clause: second runs after a successful first one, answered, must have been replayed
    # against the real conversations (model behaviours) and driven by the random scenarios
    second = rr.get("extra", {}).get("replay_smp_second_run_after_complete_answered", 0)
    second_rand = res["drivers"].get("extra", {}).get("random_smp_second_run_after_complete_answered", 0)
    ctx.extra["smp_second_runs_after_success_replayed"] = second
    ctx.extra["smp_second_runs_after_success_random"] = second_rand
    if not ctx.replay and (second == 0 or second_rand == 0):
        raise vlib.Infra("vacuity: no replayed history / random scenario contains an answered second SMP run after a successful first one (%d / %d)" % (second, second_rand))
    ctx.exhaustive = False
    ctx.notes.append("AKE interleavings are exhaustive for the modelled alphabet (every maximal history of OTR_GenAKE%s replayed); "
                     "data/SMP/fault behaviours are witness histories and simulated behaviours, not all histories" % ("" if T else "Q"))
    ctx.notes.append("observations outside the verdict: Send of a text containing NUL makes the peer parse the rest as TLVs (protocol format); "
                     "a failed reveal-signature message leaves gxBytes decrypted in place so a retry fails; a duplicate DH-key in AwaitingSig is "
                     "answered with a DH-key message carrying the peer's own value; after a failed SMP run the initiator keeps state 4 and aborts "
                     "the peer's next SMP1 -- that was finding C47-S1, repaired in otr 9e113f0 and modelled as repaired; a query received while encrypted resets the key ids at once, so data sent before the new AKE completes is lost")
    try:
        with open(vlib.VERIF + "/known_findings.json") as fh:
            known = {k["signature"] for k in json.load(fh) if k.get("property") == "C47" and k.get("status") == "open"}
    except Exception:
        known = set()
    if not [v for v in ctx.violations if v.get("sig") not in known]:
        if div:
            raise vlib.Infra("the real code left the model in %d behaviours in details the property does not fix (property still held on fair "
                             "completion): the model no longer describes this code, update spec/OTR.tla. Samples: %s"
                             % (div, json.dumps(rr["extra"].get("divergence_samples"))[:3000]))
        if unreal > max(5, len(cases) // 50):
            raise vlib.Infra("%d behaviours could not be realised by the harness (fragment count estimate): %s" % (unreal, rr["extra"].get("unrealised_samples")))
