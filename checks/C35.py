"""C35 -- channel flow control and data integrity hold under all schedules.

Spec: spec/SSHChannel.tla (one direction of one channel: WriteExtended's reserve/send loop,
window.reserve/add, handleData, ReadExtended/adjustWindow with the code's threshold rule, EOF).
TLC (SSHChannel_MC + cfgs) checks exhaustively on small constants: conservation (F1, F1b/F1c),
every packet within window and max payload (F2, SenderWithinWindow), the receiver never reports a
violation (NoError), in-order intact delivery (F3), no reachable stuck state (NoStuck) and, under
fairness, that every Write returns and everything is delivered (liveness).
Binding T: harness/c35 records executions of REAL muxes over a monitored in-memory packetConn
(two real muxes with 2 MiB windows and > window transfers; a scripted raw peer with tiny windows
and max packets 9..64 that also sends to the real receiver in arbitrary chunkings), inside
testing/synctest bubbles so that quiescent points are decided by the runtime; each
(channel, direction) projection is validated by SSHChannel_Trace.tla with the real constants."""
import json, os
import vlib


def run(ctx):
    ctx.level = "model_checking"
    ctx.rule = ("cases = recorded (channel, direction) executions of real muxes with at least one data packet; distinct = distinct "
                "(scenario, advertised window, max packet, #data packets, #adjusts, window-reached-0, run index); each is validated "
                "event by event by SSHChannel_Trace (sender within window and max packet, FIFO match, byte pattern intact and in order, "
                "model = real window state at quiescent points, no leak, no stuck writer)")
    ctx.assumptions = [
        "packetConn is an in-memory FIFO (c35conn) observed at writePacket entry / readPacket return under one lock: a true linearization",
        "one concurrent writer per stream (data, stderr, one extended code > 1) per channel direction, i.e. up to 3 concurrent writers per "
        "window; concurrent Write calls on the SAME stream are outside WriteExtended's contract (shared packet buffer) and are not driven",
        "one forced schedule per run family: on a receiver with an exhausted 2 MiB window the goroutine that wrote a window adjust is "
        "held by the transport right after delivery (c35conn AfterWrite gate) until the peer's responding data has been handled by "
        "the receiver's read loop; other positions of the reader relative to the loop are left to the Go scheduler",
        "quiescence is decided by testing/synctest (all goroutines durably blocked), never by a timer",
        "window state accessors of hook ssh/verif_mux.go read remoteWin.win, myWindow, myConsumed under their own locks",
    ]
    if ctx.replay:
        rp = json.load(open(ctx.replay))
        det = (rp.get("violation") or {}).get("detail") or {}
        if isinstance(det, dict) and det.get("trace"):
            ctx.validate_traces("SSHChannel_Trace", [det["trace"]], timeout=1200)
            return
        ctx.seed = int(rp.get("seed", ctx.seed))      # driver-level finding: re-run the drivers with the recorded seed
    if ctx.thorough:
        mcs = [("Impl", 1500), ("Any", 1500), ("ImplLive", 2400), ("ImplLiveQ", 900), ("AnyQ", 900)]
    else:
        mcs = [("ImplLiveQ", 600), ("AnyQ", 600)]
    for name, to in mcs:
        r = ctx.tlc_must_hold("SSHChannel_MC", cfg="SSHChannel_%s.cfg" % name, timeout=to,
                              coverage=(name == "ImplLiveQ" and ctx.thorough))
        ctx.log("TLC %s: %d generated, %d distinct, %.0fs" % (name, r.generated, r.distinct, r.wall))
        if r.coverage_zero:
            ctx.notes.append("actions never taken in %s: %s" % (name, r.coverage_zero))

    # sensitivity: a receiver that credits myWindow only after the window adjust has been written must be rejected by the model
    r = ctx.tlc("SSHChannel_MC", cfg="SSHChannel_CreditAfterSend.cfg", timeout=900, expect_violation=True, count=False)
    if not r.violated:
        raise vlib.Infra("model is insensitive: CreditFirst=FALSE variant satisfies NoError/SenderWithinWindow")
    ctx.notes.append("CreditFirst=FALSE variant (credit after send): TLC reports violation of %s" % r.violated)

    runs = [(False, ctx.pick(3, 8), ctx.pick(30, 100))]
    if ctx.thorough:
        runs.append((True, 3, 40))            # with the race detector
    total_traces = 0
    for race, n_real, n_raw in runs:
        tp = ctx.tmp("c35_traces_%d.ndjson" % int(race))
        res = ctx.go_test("c35", "TestRecord", env={"VERIF_TRACE_OUT": tp, "VERIF_C35_REAL": n_real, "VERIF_C35_RAW": n_raw,
                                                      "VERIF_C35_SALT": int(race), "VERIF_C35_HELD": ctx.pick(2, 6)},
                          timeout=ctx.pick(300, 1500), race=race)
        if "DATA RACE" in res.get("_stdout", ""):
            ctx.violation("data-race", "the race detector reported a data race in the ssh package during channel I/O",
                          {"output": res["_stdout"][-3000:]})
        ctx.absorb(res, validated=False)
        nh = (res.get("extra") or {}).get("held_after_adjust_schedules", 0)
        if not res.get("violations") and nh == 0:
            raise vlib.Infra("vacuous: the schedule 'window adjust delivered -> peer data handled by the receiver's loop -> adjust "
                             "writer continues' was not replayed")
        traces = []
        if os.path.exists(tp):
            with open(tp) as fh:
                for line in fh:
                    traces.append(json.loads(line))
        if not traces:
            raise vlib.Infra("c35 driver recorded no traces")
        total_traces += len(traces)
        ctx.log("recorded %d traces, %d events (race=%s)" % (len(traces), sum(len(t) for t in traces), race))
        # validate in batches so that one TLC run stays within memory/time
        batch = 60
        for i in range(0, len(traces), batch):
            ctx.validate_traces("SSHChannel_Trace", traces[i:i + batch], timeout=1200, max_rejects=3)
            if len(ctx.violations) >= 6:
                break
    ctx.extra["recorded_traces"] = total_traces
    ctx.exhaustive = False
