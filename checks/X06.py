"""X06 (growth) -- the ssh-agent WIRE layer, concurrent callers / connections and agent forwarding
(golang.org/x/crypto/ssh/agent: client.go, server.go, forward.go, keyring.go concurrency).

Specifications (spec/AgentWire*.tla; the properties W1..W6 are stated at the top of AgentWire.tla):
  AgentWireCodec   frame codec with executable encoders/parsers over PrimSSHEnc (binding E)
  AgentWireKeys    the deterministic key material of the harness (generated, checked on every run)
  AgentWireServe   one request against the agent of C43 (INSTANCE Agent): dispatch table + reply
  AgentWire        N callers x M connections (serialised client under client.mu / pipelined client with
                   writeMu + FIFO + reader + shutdown) x ServeAgent loops x ONE shared agent; W1..W6
  AgentWireSrv     ServeAgent as a function octets -> octets over sessions of raw frames      (E+R)
  AgentWireCli     NewClient as call -> octets and reply octets -> outcome                    (E+R)
  AgentWire_Trace  recorded executions of real clients/servers/keyring/forwarding             (T)
"""
import json, os, threading, random, re
import vlib

ALL_KEYS = '{"ed1", "ed2", "ec1", "rsa1", "dsa1", "ed1c", "ec1c", "rsa1c", "dsa1c"}'


def _parallel(jobs):
    res, errs = {}, []

    def work(k, f):
        try:
            res[k] = f()
        except BaseException as e:  # noqa
            errs.append((k, e))
    ths = [threading.Thread(target=work, args=j) for j in jobs]
    for t in ths:
        t.start()
    for t in ths:
        t.join()
    if errs:
        for k, e in errs:
            if not isinstance(e, vlib.Infra):
                raise e
        raise errs[0][1]
    return res


def _cfg(name):
    return open(os.path.join(vlib.VERIF, "spec", name)).read()


def _only():
    o = os.environ.get("X06_ONLY", "")
    return set(o.split(",")) if o else None


def run(ctx):
    ctx.level = "model_checking"
    only = _only()
    want = lambda s: only is None or s in only   # noqa
    q = not ctx.thorough
    ctx.rule = ("cases = (i) every API call of the client menu (9 key kinds x lifetime/confirm/extension constraints, sign flags, "
                "lock/unlock/remove/list/extension) with its TLC-computed frame, each on the serialised and the pipelined client; "
                "(ii) every (call kind, scripted reply) pair of the reply menu with the TLC-computed outcome; (iii) server sessions: one "
                "shortest witness session of raw frames per (agent state, ended?, last frame) transition of AgentWireSrv (thorough: plus all "
                "sessions of length <= 2), with the TLC-computed reply octets; (iv) recorded executions of seeded concurrent drivers "
                "(real goroutines, -race) over serialised / pipelined / raw / direct connections sharing one keyring, and of two "
                "simultaneously forwarded auth-agent@openssh.com channels over a real ssh connection, validated by AgentWire_Trace; "
                "distinct = distinct (call, mode) / (call kind, reply, mode) / frame-name sequences / recorded executions")
    ctx.assumptions = [
        "the maximum message size is the package's 16 MiB (maxAgentResponseBytes), applied by ServeAgent to requests and replies and by the "
        "client to replies; the client does not limit what it writes (modelled as is)",
        "identities answers are compared octet for octet and, failing that, as multisets of entries (the order is not specified)",
        "signatures are verified under the key (TLC does not compute them); RSA SHA-2 flags on non-RSA keys are not exercised",
        "key material: fixed Ed25519/ECDSA/RSA-1024/DSA-1024 keys and certificates of the harness pool (spec/AgentWireKeys.tla, checked "
        "against the pool on every run); foreign key material in add-identity is outside the model",
        "events of a recorded execution are totally ordered by the harness log mutex: call before the API call, ret after it, srvread "
        "before the last request octet reaches ServeAgent, srvwrite before the last reply octet leaves it",
        "forwarded channels are opaque (the octets travel inside the ssh connection): only call/ret/close are recorded for them",
    ]
    if ctx.replay:
        d = json.load(open(ctx.replay))["violation"]["detail"] or {}
        if "trace" in d:
            ctx.validate_traces("AgentWire_Trace", [d["trace"]], timeout=600)
            return
        ctx.notes.append("replay: rerunning the E+R bindings")
        only = {"cli", "srv"}
        want = lambda s: s in only   # noqa

    pipes = []
    if want("mc"):
        pipes.append(("mc", lambda: _model_check(ctx, q)))
    if want("cli"):
        pipes.append(("cli", lambda: _client(ctx)))
    if want("srv"):
        pipes.append(("srv", lambda: _server(ctx)))
    if want("trace") or want("forward"):
        pipes.append(("rec", lambda: _recorded(ctx, want)))
    if want("cli") or want("srv"):
        pipes.append(("keys", lambda: _go(ctx, "TestKeysModule", timeout=600)))
    if want("desync"):
        pipes.append(("desync", lambda: _desync(ctx)))
    _parallel(pipes)
    ctx.exhaustive = False


def _go(ctx, test, **kw):
    """ctx.go_test from a thread: vlib names result files by directory size, so each concurrent run gets a scratch of its own"""
    sub = vlib.Ctx(ctx.pid, ctx.tier, ctx.seed)
    try:
        res = sub.go_test("x06", test, **kw)
        runs = sub.extra.get("go_runs", [])
        ctx.extra.setdefault("go_runs", []).extend(runs)
        res["_rc"] = runs[-1]["rc"] if runs else 0
        return res
    finally:
        sub.cleanup()


def _desync(ctx):
    """W1 under one transient Read error of the client's transport (finding X06-D1 on the serialised client)"""
    doc = ctx.tlc("AgentWire_MC", cfg="AgentWire_DocDesync.cfg", workers=1, timeout=900, count=False, expect_violation=True,
                  note="serialised client without terminal error under a transient Read fault: documents X06-D1 (must violate OwnReply)")
    if doc.violated != "OwnReply":
        raise vlib.Infra("AgentWire_DocDesync: expected the OwnReply counterexample of finding X06-D1, got %r" % doc.violated)
    ctx.absorb(_go(ctx, "TestDesync$", timeout=600, allow_fail=True))


def _model_check(ctx, q):
    jobs = []
    mcs = ["MCq"] if q else ["MCt1", "MCt2", "MCt3", "MCt4", "MCt5", "MCt6"]
    for m in mcs:
        jobs.append(("mc:" + m, lambda m=m: ctx.tlc_must_hold("AgentWire_MC", cfg="AgentWire_%s.cfg" % m, workers=ctx.pick(4, 6),
                                                              timeout=3000, note="W1..W5 on the concurrent wire model")))
    jobs.append(("mc:Live", lambda: ctx.tlc_must_hold("AgentWire_MC", cfg="AgentWire_Live.cfg", workers=2, timeout=1500,
                                                     note="W6 Progress under fairness")))
    if not q:
        jobs.append(("mc:Faults", lambda: ctx.tlc_must_hold("AgentWire_MC", cfg="AgentWire_Faults.cfg", workers=4, timeout=3000,
                                                           note="W1..W5 with a transient Read fault and terminal client errors (the repair of X06-D1)")))
    wrong = {"MutNoMutex": "OwnReply", "MutLateEnqueue": "OwnReply", "MutContinue": "OwnReply", "MutUnknownKills": "EndsOnlyByBadFrame"}
    if q:                      # one JVM start per variant: the quick tier keeps two
        wrong = {k: wrong[k] for k in ("MutNoMutex", "MutContinue")}
    for m in wrong:
        jobs.append(("mut:" + m, lambda m=m: ctx.tlc("AgentWire_MC", cfg="AgentWire_%s.cfg" % m, workers=1, timeout=900, count=False,
                                                   expect_violation=True, note="deliberately wrong variant: must violate")))
    if not q:
        jobs.append(("cov", lambda: ctx.tlc("AgentWire_MC", cfg="AgentWire_MCq.cfg", workers=2, timeout=1500, coverage=True, count=False,
                                            note="coverage run (vacuity)")))
    res = _parallel(jobs)
    if "cov" in res:
        # Enqueue exists only in the LateEnqueue variant, ReadFault only with Faults (AgentWire_Faults.cfg)
        z = sorted(set(res["cov"].coverage_zero) - {"Enqueue", "ReadFault", "Init"})
        ctx.extra["coverage_actions_never_taken"] = z
        if z:
            ctx.notes.append("actions never taken in the coverage run (vacuity): %s" % z)
    for k, r in sorted(res.items()):
        if k.startswith("mc:"):
            ctx.log("%s: %d distinct states" % (k, r.distinct))
        if k.startswith("mut:") and r.violated != wrong[k[4:]]:
            raise vlib.Infra("the deliberately wrong variant %s does not violate %s (got %r): the property does not bite"
                             % (k, wrong[k[4:]], r.violated))
    ctx.extra["wrong_variants_rejected_by_tlc"] = sorted(wrong)


def _client(ctx):
    r = ctx.tlc_must_hold("AgentWireCli", cfg="AgentWireCli_Gen.cfg", workers=4, timeout=1500,
                          note="client codec: frames per call, outcomes per reply")
    tr = r.traces
    if len([t for t in tr if "table" in t]) != 1 or len(tr) < 100:
        raise vlib.Infra("client generator: expected one table and > 100 cases, got %d lines" % len(tr))
    ctx.absorb(_go(ctx, "TestClient", cases=tr, timeout=1500))


SRV_PAIRS_Q = [("ed1", "rsa1c")]
SRV_PAIRS_T = [("ed1", "rsa1c"), ("ed2", "dsa1c"), ("ec1", "rsa1"), ("dsa1", "ec1c"), ("ed1c", "ed2")]


def _server(ctx):
    base = _cfg("AgentWireSrv_GenQ.cfg")
    gens = []
    for pair in (SRV_PAIRS_T if ctx.thorough else SRV_PAIRS_Q):
        txt = re.sub(r"GenKeys = .*", 'GenKeys = {"%s", "%s"}' % pair, base)
        gens.append(("w:%s+%s" % pair, lambda txt=txt, pair=pair: ctx.tlc_must_hold(
            "AgentWireSrv", cfg_text=txt, workers=ctx.pick(8, 4), timeout=3000, heap="6g",
            note="server sessions over keys %s, %s: one witness per (agent state, last frame) transition" % pair)))
    if ctx.thorough:
        gens.append(("all2", lambda: ctx.tlc_must_hold("AgentWireSrv", cfg="AgentWireSrv_GenAll2.cfg", workers=4, timeout=3000,
                                                       heap="6g", note="server sessions: all of length <= 2")))
    res = _parallel(gens)
    tabs, sess, seen = {}, [], set()
    for k in sorted(res):
        for t in res[k].traces:
            if "table" in t:
                # one menu per key pair: merge the tables (frames and identity entries are keyed by name)
                tabs.setdefault("table", {}).update({m["name"]: m for m in t["table"]})
                tabs.setdefault("entries", {}).update({e["name"]: e for e in t["entries"]})
                tabs["maxmsg"] = t["maxmsg"]
                continue
            key = ",".join(t["inp"])
            if key and key not in seen:
                seen.add(key); sess.append(t)
    if not tabs or len(sess) < 100:
        raise vlib.Infra("server generator: expected a table and > 100 sessions, got %d sessions" % len(sess))
    tab = {"table": list(tabs["table"].values()), "entries": list(tabs["entries"].values()), "maxmsg": tabs["maxmsg"]}
    ctx.log("server sessions: %d" % len(sess))
    ctx.absorb(_go(ctx, "TestServer", cases=[tab] + sess, timeout=2400))


def _recorded(ctx, want):
    tjobs = []
    if want("trace"):
        tjobs.append(("conc", lambda: _record(ctx, "TestConcurrent", ctx.pick(20, 450))))
    if want("forward"):
        tjobs.append(("fwd", lambda: _record(ctx, "TestForward", ctx.pick(3, 120))))
    tres = _parallel(tjobs)
    traces = []
    for k in ("conc", "fwd"):
        if k in tres:
            res_k, tr = tres[k]
            ctx.absorb(res_k, validated=False)
            ctx.log("%s: %d recorded executions, %d events" % (k, len(tr), sum(len(x) for x in tr)))
            traces += tr
    if not traces:
        raise vlib.Infra("no execution was recorded")
    _validate(ctx, traces)


def _record(ctx, test, rounds):
    """run a recording driver under the race detector; returns (harness result, list of event lists)"""
    path = ctx.tmp("traces_%s.ndjson" % test)
    racelog = ctx.tmp("race_%s" % test)
    res = _go(ctx, test + "$", race=True, timeout=2400, allow_fail=True,
              env={"VERIF_X06_ROUNDS": rounds, "VERIF_X06_TRACES": path, "GORACE": "log_path=%s" % racelog})
    # data races: a verdict when the race is inside ssh/agent (NewKeyring is documented as safe for concurrent use;
    # NewClient as usable from multiple goroutines)
    d = os.path.dirname(racelog)
    for f in sorted(os.listdir(d)):
        if f.startswith(os.path.basename(racelog)):
            rep = open(os.path.join(d, f)).read()
            for blk in rep.split("=================="):
                if "DATA RACE" not in blk:
                    continue
                m = re.search(r"golang\.org/x/crypto/ssh/agent\.([\w()*.]+)", blk)
                if m:
                    ctx.violation("data-race:ssh/agent." + m.group(1).strip("()*"),
                                  "the race detector reports a data race inside ssh/agent (%s) during %s" % (m.group(1), test),
                                  {"report": blk[:6000]})
                else:
                    raise vlib.Infra("data race outside ssh/agent during %s (harness defect?):\n%s" % (test, blk[:3000]))
    if res["_rc"] != 0 and not res.get("violations") and not ctx.violations:
        raise vlib.Infra("%s failed without recording a violation (rc=%d):\n%s" % (test, res["_rc"], res.get("_stdout", "")[-3000:]))
    traces = []
    if os.path.exists(path):
        for line in open(path):
            line = line.strip()
            if line:
                traces.append(json.loads(line))
    if not res.get("violations") and res.get("evaluations", 0) != len(traces):
        raise vlib.Infra("%s: %d executions counted, %d recorded" % (test, res.get("evaluations", 0), len(traces)))
    return res, traces


def _validate(ctx, traces):
    """validate recorded executions in parallel batches (one JVM each)"""
    nb = max(1, min(ctx.pick(2, 8), len(traces) // 10))
    batches = [traces[i::nb] for i in range(nb)]
    lock = threading.Lock()

    def one(b):
        sub = vlib.Ctx(ctx.pid, ctx.tier, ctx.seed)
        try:
            n = sub.validate_traces("AgentWire_Trace", b, timeout=3000,
                                    describe=lambda tr, i: "(%s)" % json.dumps(tr[max(0, i - 3):i + 1])[:900])
            with lock:
                ctx.traces_validated += n
                ctx.violations += sub.violations
                ctx.tlc_runs += sub.tlc_runs
                ctx.states += sub.states
                ctx.transitions += sub.transitions
            return n
        finally:
            sub.cleanup()
    _parallel([("val%d" % i, (lambda b=b: one(b))) for i, b in enumerate(batches)])
    ctx.evaluations += len(traces)
    ctx.distinct += len(traces)
