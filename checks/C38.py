"""C38 -- SSH public key and authorized_keys formats round-trip and match OpenSSH.

Spec: spec/AuthorizedKeys.tla (+ _MC).  TLC assembles authorized_keys / known_hosts inputs from structures (leading white
space and comment lines, options field, separators, declared type, blob, comment, trailing white space, LF / CRLF / bare CR,
following line), runs the statement-by-statement transcriptions of ParseAuthorizedKey / parseAuthorizedKey / ParseKnownHosts
on the rendered symbol sequence and checks them against the line grammar applied to the structure, with the options field
split as sshd does (AKMatchesGrammar, AKTypeMatches, KHok, KHaccepts): exhaustively for every options string over
{a = , " \\ space} up to length 6 (quick: 5) and for the line-level product.  Binding R renders every generated input with real
keys (8 key types + 8 certificate types) and compares the real parsers' results with the predictions; round trips,
fingerprints against ssh-keygen -l, keys written by ssh-keygen -t, and a panic exploration on mutated / random inputs."""
import vlib
from c38_common import par_tlc, run_harness

M = "AuthorizedKeys_MC"


def run(ctx):
    ctx.level = "model_checking"
    ctx.rule = ("cases = inputs assembled by TLC: (a) every options string over {a,=,comma,quote,backslash,space} up to length 5/6 in front "
                "of a key line; (b) line-level products (6 leads x 13 option strings x separators x declared type {match, other, missing} x blob "
                "{valid, not base64, base64 of junk, missing} x 6 comment shapes x trailing ws x {none, LF, CRLF, bare CR} x following line) for "
                "authorized_keys and known_hosts (marker x hosts lists x comment words); each rendered with a key rotating over 16 key / certificate "
                "types; distinct = distinct (kind, symbol sequence); plus per-type round trips, fingerprints, ssh-keygen keys; exploration inputs "
                "are counted as trivial")
    ctx.assumptions = [
        "field symbols (type name, base64 blob, comment word, host name) contain none of the bytes that are special to the scanners; the options alphabet is {a = , \" \\ space tab}",
        "sshd's split rule: comma separated, double-quoted values, \\\" does not close a value, commas and white space inside quotes do not split; empty pieces between commas are dropped (sshd itself rejects such a field)",
        "comment and unparsed remainder are compared informationally (ak_comment_differs, ak_rest_differs, kh_*), the verdict covers key, declared-type match, options, marker and hosts",
        "the never-panics clause is explored (mutated and random inputs), not proved",
        "trusted: ssh-keygen 9.2 (fingerprints, key files), Go standard library, TLC",
    ]
    if ctx.thorough:
        res = par_tlc(ctx, M, [{"cfg": "AuthorizedKeys_T.cfg", "kw": {"workers": 10, "timeout": 3000}},
                               {"cfg": "AuthorizedKeys_GenT.cfg", "gen": True, "kw": {"timeout": 3000}}])
        cases = res["AuthorizedKeys_GenT.cfg"].traces
    else:
        # one run model-checks the invariants and emits the cases (the initial states dominate the cost)
        r = ctx.tlc_must_hold(M, cfg="AuthorizedKeys_QGen.cfg", workers=1, timeout=1500)
        ctx.log("TLC AuthorizedKeys_QGen.cfg %d generated %d distinct %.1fs, %d cases emitted" % (r.generated, r.distinct, r.wall, len(r.traces)))
        cases = r.traces
    if not cases:
        raise vlib.Infra("generator produced no cases")
    if ctx.replay:
        rep = __import__("json").load(open(ctx.replay))
        d = (rep.get("violation") or {}).get("detail") or {}
        if isinstance(d, dict) and isinstance(d.get("case"), dict) and "inp" in d["case"]:
            c = d["case"]
            cases = [c]
    if not ctx.have("ssh-keygen"):
        ctx.skipped.append("ssh-keygen not installed: fingerprints and ssh-keygen-written keys not compared")
    ctx.log("replaying %d inputs on the real parsers (+ round trips, fingerprints, ssh-keygen keys, exploration)" % len(cases))
    run_harness(ctx, "c38", "TestC38$", cases=cases)
    ctx.extra.pop("skipped", None)
    ctx.exhaustive = True
