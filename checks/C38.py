"""C38 -- SSH public key and authorized_keys formats round-trip and match OpenSSH.

Spec: spec/AuthorizedKeys.tla (+ _MC).  TLC assembles authorized_keys / known_hosts inputs from structures (leading white
space and comment lines, options field, separators, declared type, blob, comment, trailing white space, LF / CRLF / bare CR,
following line), runs the statement-by-statement transcriptions of ParseAuthorizedKey / parseAuthorizedKey / ParseKnownHosts
on the rendered symbol sequence and checks them against the line grammar applied to the structure, with the options field
split as sshd does (AKMatchesGrammar, AKTypeMatches, KHok, KHaccepts): exhaustively for every options string over
{a = , " \\ space} up to length 6 (quick: 5) and for the line-level product.  Binding R renders every generated input with real
keys (8 key types + 8 certificate types) and compares the real parsers' results with the predictions; round trips,
fingerprints against ssh-keygen -l, keys written by ssh-keygen -t, and a panic exploration on mutated / random inputs.
spec/SSHKeyBlob.tla (+ generated SSHKeyBlob_Keys.tla): the key blob encoder with the width rule of every component,
evaluated by TLC on a boundary key set (short EC coordinates, mpint top bits, Ed25519 zero bytes, application strings);
the expected bytes are compared with Marshal, round trips, authorized_keys lines, fingerprints and ssh-keygen."""
import vlib
from c38_common import par_tlc, run_harness

M = "AuthorizedKeys_MC"


def run(ctx):
    ctx.level = "model_checking"
    ctx.rule = ("cases = inputs assembled by TLC: (a) every options string over {a,=,comma,quote,backslash,space} up to length 5/6 in front "
                "of a key line; (b) line-level products (6 leads x 13 option strings x separators x declared type {match, other, missing} x blob "
                "{valid, not base64, base64 of junk, missing} x 6 comment shapes x trailing ws x {none, LF, CRLF, bare CR} x following line) for "
                "authorized_keys and known_hosts (marker x hosts lists x comment words); each rendered with a key rotating over 16 key / certificate "
                "types; distinct = distinct (kind, symbol sequence); 41 boundary keys (every fixed-width / mpint component at its boundaries) with "
                "TLC-computed blobs; plus per-type round trips, fingerprints, ssh-keygen keys; exploration inputs "
                "are counted as trivial")
    ctx.assumptions = [
        "field symbols (type name, base64 blob, comment word, host name) contain none of the bytes that are special to the scanners; the options alphabet is {a = , \" \\ space tab}",
        "sshd's split rule: comma separated, double-quoted values, \\\" does not close a value, commas and white space inside quotes do not split; empty pieces between commas are dropped (sshd itself rejects such a field)",
        "comment and unparsed remainder are compared informationally (ak_comment_differs, ak_rest_differs, kh_*), the verdict covers key, declared-type match, options, marker and hosts",
        "the never-panics clause is explored (mutated and random inputs), not proved",
        "trusted: ssh-keygen 9.2 (fingerprints, key files), Go standard library, TLC",
    ]
    KB = "SSHKeyBlob_MC"
    if ctx.thorough:
        res = par_tlc(ctx, M, [{"cfg": "AuthorizedKeys_T.cfg", "kw": {"workers": 10, "timeout": 3000}},
                               {"cfg": "AuthorizedKeys_GenT.cfg", "gen": True, "kw": {"timeout": 3000}},
                               {"cfg": "SSHKeyBlob_MC.cfg", "module": KB, "gen": True, "kw": {"workers": 1}}])
        cases = res["AuthorizedKeys_GenT.cfg"].traces
    else:
        # one run model-checks the invariants and emits the cases (the initial states dominate the cost)
        res = par_tlc(ctx, M, [{"cfg": "AuthorizedKeys_QGen.cfg", "gen": True, "kw": {"workers": 1, "timeout": 1500}},
                               {"cfg": "SSHKeyBlob_MC.cfg", "module": KB, "gen": True, "kw": {"workers": 1}}])
        r = res["AuthorizedKeys_QGen.cfg"]
        ctx.states += r.distinct
        ctx.transitions += r.generated
        cases = r.traces
    # the key blob encoder (spec/SSHKeyBlob.tla) evaluated by TLC on the boundary key set: invariants + expected bytes
    kb = res["SSHKeyBlob_MC.cfg"]
    ctx.states += kb.distinct
    ctx.transitions += kb.generated
    keycases = kb.traces
    # vacuity guard: every fixed-width / mpint component must be exercised at its boundaries
    need = {t: {"shortX", "shortY", "full"} for t in ("ecdsa-sha2-nistp256", "ecdsa-sha2-nistp384", "ecdsa-sha2-nistp521",
                                                     "sk-ecdsa-sha2-nistp256@openssh.com")}
    need["ssh-rsa"] = {"nTopSet", "nTopClear", "eTopSet", "e3", "e65537"}
    need["ssh-dss"] = {"yShort", "yTopSet", "yTopClear", "gShort", "gTopSet", "gTopClear"}
    need["ssh-ed25519"] = {"lead0", "trail0", "random"}
    need["sk-ssh-ed25519@openssh.com"] = {"lead0", "trail0", "appEmpty"}
    have = {}
    for kc in keycases:
        have.setdefault(kc["type"], set()).update(kc["classes"])
    missing = {t: sorted(c - have.get(t, set())) for t, c in need.items() if c - have.get(t, set())}
    if missing:
        raise vlib.Infra("boundary key set lacks classes (vacuous width-rule check): %r" % missing)
    kpath = ctx.tmp("c38_keycases.ndjson")
    with open(kpath, "w") as fh:
        for kc in keycases:
            fh.write(__import__("json").dumps(kc, separators=(",", ":")) + "\n")
    if not cases:
        raise vlib.Infra("generator produced no cases")
    if ctx.replay:
        rep = __import__("json").load(open(ctx.replay))
        d = (rep.get("violation") or {}).get("detail") or {}
        if isinstance(d, dict) and isinstance(d.get("case"), dict) and "inp" in d["case"]:
            c = d["case"]
            cases = [c]
    if not ctx.have("ssh-keygen"):
        ctx.skipped.append("ssh-keygen not installed: fingerprints and ssh-keygen-written keys not compared")
    ctx.log("replaying %d inputs on the real parsers (+ round trips, fingerprints, ssh-keygen keys, exploration)" % len(cases))
    run_harness(ctx, "c38", "TestC38$", cases=cases, env={"VERIF_C38_KEYCASES": kpath})
    ex = ctx.extra.get("boundary_classes_exercised") or {}
    notrun = [t + ":" + c for t, cs in need.items() for c in sorted(cs) if not ex.get(t + ":" + c)]
    if notrun and not ctx.replay:
        raise vlib.Infra("boundary keys not exercised on the real code (vacuous): %r" % notrun)
    ctx.extra.pop("skipped", None)
    ctx.exhaustive = True
