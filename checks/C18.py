"""C18 - PBKDF2/HKDF give RFC output and HKDF streams are prefix-consistent.

Specs: spec/HkdfReader.tla (abstract reader: `produced`; Read(n) fails without consuming iff n > 255*H - produced,
otherwise returns the next n bytes of T(1)|T(2)|...; zero reads are no-ops), spec/HkdfImpl.tla (statement-level
transcription of hkdfReader.Read: counter byte with wrap-around, prev, buf, expander Reset rule; TLC checks the
refinement HkdfImpl => HkdfReader and the property's clauses as action properties, with the byte modulus scaled
(MaxBlocks 5, 4) and real (255)), spec/Kdf.tla (executable HKDF and PBKDF2 over the toy hash/HMAC of
spec/PrimToy.tla), spec/Kdf_MC.tla (cases + model-level laws + emission), spec/HkdfReader_Gen.tla (all Read
histories of a given depth with predictions).

Binding E+R: the REAL hkdf.Extract/Expand/New/Read and pbkdf2.Key are run with the toy hash and compared with the
TLC-evaluated bytes; every TLC history is replayed on real readers (toy hash: H = 3, 4; SHA-1, SHA-256, SHA-512:
H = 20, 32, 64); real hashes are judged by RFC 5869 / RFC 6070 vectors, crypto/hkdf called directly, Python
hashlib/hmac vectors and a Go transcription of the TLA+ definitions validated against TLC in the same run."""
import concurrent.futures, hashlib, hmac, json, random
import vlib


def _py_vectors(ctx, n_hkdf, n_pb):
    """Independent vectors from Python's hmac / hashlib.pbkdf2_hmac (OpenSSL)."""
    rng = random.Random(1800 + ctx.seed)
    rb = lambda n: bytes(rng.getrandbits(8) for _ in range(n))
    res = []
    for i in range(n_hkdf):
        hn = ["sha1", "sha256", "sha512"][i % 3]
        hl = hashlib.new(hn).digest_size
        secret, salt, info = rb(rng.randint(0, 64)), (rb(rng.randint(1, 150)) if i % 4 else b""), rb(rng.randint(0, 30))
        prk = hmac.new(salt or bytes(hl), secret, hn).digest()
        t, okm = b"", b""
        for k in range(1, 256):
            t = hmac.new(prk, t + info + bytes([k]), hn).digest()
            okm += t
        res.append({"t": "pyhkdf", "hashname": hn, "xsecret": secret.hex(), "xsalt": salt.hex(), "xinfo": info.hex(),
                    "xprk": prk.hex(), "xokm": okm.hex()})
    for i in range(n_pb):
        hn = ["sha1", "sha256", "sha512"][i % 3]
        hl = hashlib.new(hn).digest_size
        pw, salt = rb(rng.randint(0, 150)), rb(rng.randint(0, 40))
        it = rng.randint(1, 5) if i % 7 else rng.randint(100, 1000)
        kl = max(1, hl * rng.randint(0, 4) + rng.choice([-1, 0, 1, rng.randint(0, hl)]))
        if i % 11 == 5:
            kl, it = 255 * hl + rng.randint(0, 2 * hl), 1
        res.append({"t": "pypbkdf2", "hashname": hn, "xpw": pw.hex(), "xsalt": salt.hex(), "iter": it,
                    "xdk": hashlib.pbkdf2_hmac(hn, pw, salt, it, kl).hex()})
    return res


def run(ctx):
    ctx.level = "model_checking"
    ctx.rule = ("cases = (a) HKDF Read histories: every sequence of exactly D Read sizes (D=3 quick, 4 thorough) over {0,1,H-1,H,H+1,2H-1,2H,2H+1,127H+3,254H,255H-2,"
                "255H-1,255H,255H+1} enumerated by TLC from HkdfReader for H in {3,4 (toy hash), 20,32,64 (SHA-1/256/512)}, each replayed on up to 6 real "
                "readers (hkdf.New and hkdf.Expand alternately; caller-buffer discipline rotating: fresh+overwritten, shared+overwritten, shared+kept) over streams with different secret/salt/info; long seeded random histories of small reads; "
                "(b) Extract/whole-stream/PBKDF2 values: TLC-evaluated with the toy hash over (secret,salt,info) and (password,salt,iter 1..5,keyLen around "
                "multiples of H and beyond 255 blocks), RFC 5869/6070 vectors, Python-computed vectors, seeded random inputs judged by the validated "
                "transcription; distinct = distinct (stream, history) or (function, inputs)")
    ctx.assumptions = [
        "definitions = spec/Kdf.tla over spec/PrimToy.tla evaluated by TLC; real hashes (SHA-1/256/512, crypto/hmac) are the Go standard library (trusted base)",
        "secrets/salts/info/passwords are sampled (patterned for TLC, seeded random otherwise); Read histories exhaustive over the stated alphabet and depth",
        "a successful Read that returns fewer bytes than asked (allowed for an io.Reader) would be accepted if the bytes are the next stream bytes; the current code never does",
        "pbkdf2.Key with keyLen <= 0 (panics; outside RFC 8018's domain) is not examined",
    ]
    D = ctx.pick(3, 4)
    T = "T" if ctx.thorough else "Q"
    jobs = {
        "impl_s": dict(module="HkdfImpl", cfg="HkdfImpl_MC_S.cfg", workers=2, coverage=True, note="refinement HkdfImpl => HkdfReader, H=2, byte modulus 6 (MaxBlocks 5), all read sizes 0..12"),
        "impl_r4q": dict(module="HkdfImpl_MC", cfg="HkdfImpl_MC_R4q.cfg", workers=3, note="refinement with the real byte modulus 256, H=4, positions within 12 of the start or 20 of the limit, 16 read sizes"),
        "kdf": dict(module="Kdf_MC", cfg="Kdf_MC_%s.cfg" % T, workers=ctx.pick(5, 8), note="HKDF/PBKDF2 over the toy hash: model-level laws + emitted values"),
        "alias": dict(module="HkdfImpl", cfg="HkdfImpl_MC_Alias.cfg", workers=2, count=False, expect_violation=True,
                      note="documented counterexample: design that appends the MAC output into the caller's slice; must violate AbsContiguous via Scribble"),
        "gen": dict(module="HkdfReader_Gen", cfg="HkdfReader_Gen_D%d.cfg" % D, workers=1, count=False,
                    note="all Read histories of depth %d over 12 sizes, five hash sizes in lock step" % D),
    }
    if ctx.thorough:
        jobs["impl_s3"] = dict(module="HkdfImpl", cfg="HkdfImpl_MC_S3.cfg", workers=2, note="refinement, H=3, MaxBlocks 4, all read sizes 0..13")
        jobs["impl_r4"] = dict(module="HkdfImpl", cfg="HkdfImpl_MC_R4.cfg", workers=4, note="refinement, real modulus, H=4, 13 read sizes")
        jobs["impl_r32"] = dict(module="HkdfImpl", cfg="HkdfImpl_MC_R32.cfg", workers=4, note="refinement, real modulus, H=32 (SHA-256), 12 read sizes")
    res = {}
    with concurrent.futures.ThreadPoolExecutor(max_workers=len(jobs)) as ex:
        futs = {k: ex.submit(ctx.tlc, timeout=ctx.pick(600, 2400), **kw) for k, kw in jobs.items()}
        for k, f in futs.items():
            res[k] = f.result()
    ra = res.pop("alias")
    if ra.ok or ra.violated != "Abs!Contiguous" or "Scribble" not in (ra.cex or ""):
        raise vlib.Infra("HkdfImpl_MC_Alias.cfg: the caller-buffer design no longer yields the Scribble counterexample "
                         "(model would be blind to a reader that retains the caller's buffer): %r" % (ra.violated,))
    ctx.log("alias: expected counterexample (%s after Scribble) found" % ra.violated)
    for k, r in res.items():
        if not r.ok:      # a counterexample in the design model alone is never a verdict
            raise vlib.Infra("design model %s: %s violated:\n%s" % (k, r.violated, (r.cex or r.raw[-3000:])[:6000]))
        if r.coverage_zero:
            ctx.notes.append("actions never taken in %s: %s" % (k, r.coverage_zero))
        ctx.log("%s: %d distinct states, %d TRACE lines, %.0fs" % (k, r.distinct, len(r.traces), r.wall))
    cases = list(res["kdf"].traces)
    if len([c for c in cases if c.get("t") == "hkdf"]) < 4 or len([c for c in cases if c.get("t") == "pbkdf2"]) < 20:
        raise vlib.Infra("Kdf_MC produced too little")
    hist = res["gen"].traces
    if len(hist) < 5000:
        raise vlib.Infra("history generator produced too little")
    for h in (3, 4, 20, 32, 64):
        if len([x for x in hist if x["h"] == h and x.get("bnd")]) < 50:
            raise vlib.Infra("history generator: too few histories with 'Read ends on a block boundary, then a further block' for H=%d" % h)
    if ctx.replay:
        d = json.load(open(ctx.replay))["violation"]["detail"] or {}
        if d.get("reads") and d.get("source") == "tlc-history":
            hist = [x for x in hist if [r["n"] for r in x["reads"]] == d["reads"]] + hist[:100]
    py = _py_vectors(ctx, ctx.pick(6, 30), ctx.pick(40, 300))
    cp = ctx.tmp("c18_cases.ndjson")
    with open(cp, "w") as fh:
        for c in cases + hist + py:
            fh.write(json.dumps(c, separators=(",", ":")) + "\n")
    r = ctx.go_test("c18", "TestReplay", cases=cp, timeout=ctx.pick(300, 1200))
    ctx.log("replay: %d evaluations, %d violations" % (r.get("evaluations", 0), len(r.get("violations") or [])))
    ctx.absorb(r)
    per = (r.get("extra") or {}).get("boundary_scribble_newblock_replays_per_hash") or {}
    missing = [h for h in ("toy3", "toy4", "sha1", "sha256", "sha384", "sha512") if not per.get(h)]
    if missing and not ctx.replay and not (r.get("violations") or []):
        raise vlib.Infra("vacuity: no replay with 'Read ending on a block boundary, caller buffer overwritten, further Read generating a "
                         "new block' for %s" % missing)
    ctx.exhaustive = True
    ctx.notes.append("exhaustive over the Read-size alphabet and depth; input byte strings sampled")
