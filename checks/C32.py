"""C32 -- SSH server user authentication is sound.

Spec: spec/SSHAuthServer.tla (transcription of serverAuthenticate, one action per request) with
configuration tables and request alphabets in SSHAuthServer_MC.tla.  TLC checks, on the post-state of
every (loop state, request) transition, that success implies the final request satisfied its method
(SoundSuccess), that the returned Permissions are the final successful callback's (PermsFromFinalCallback),
and that partial successes switch to the callbacks they name (PartialSwitch, NoneOnlyBeforePartial);
the same run prints one witness history per transition, which harness/c32 replays byte for byte on the
real serverAuthenticate through the hook VerifServerAuthenticate (binding R)."""
import c32_common as cc


def run(ctx):
    import vlib
    ctx.level = "model_checking"
    ctx.rule = ("cases = request histories enumerated by TLC from SSHAuthServer_Gen: one witness history per (distinct loop state, "
                "request) transition over 12 callback-outcome configurations and a ~230-request alphabet (none, password, "
                "keyboard-interactive, unknown, wrong service, EOF, malformed packets; publickey queries and signed requests over 6 real "
                "keys with valid / wrong-session / other-user / other-algorithm / other-key / garbage / malformed signatures and "
                "allowed, disallowed and incompatible algorithm and format names); distinct = distinct (configuration, request sequence)")
    ctx.assumptions = [
        "hook VerifServerAuthenticate runs serverAuthenticate unchanged over a scripted connTransport; NewServerConn's config defaulting is transcribed in VerifServerAuthPrepareConfig",
        "client signatures are made with Go standard library crypto (Ed25519, RSA PKCS#1 v1.5, ECDSA P-256) over an independent RFC 4252 encoding",
        "gssapi-with-mic and security-key (sk-*) keys are not exercised",
    ]
    if ctx.replay:
        return cc.replay_one(ctx, "C32")
    depth = ctx.pick(3, 4)
    # quick: every configuration to 2 requests, three (rotating with the seed) to 3; thorough: all to 4
    deep = [cc.CONFIGS[(3 * ctx.seed + j) % len(cc.CONFIGS)] for j in range(3)] if not ctx.thorough else cc.CONFIGS
    # (the path-by-path variants K*ap always go to their own depth 3: every history, not one witness per transition)
    shallow = ctx.pick(2, 4)
    # 1. model checking + generation in one exploration (properties on every transition via CheckAC)
    r = ctx.tlc_must_hold("SSHAuthServer_Gen", cfg_text=cc.cfg_text("ConfigsGeneral", 128, depth, shallow=shallow, deep=deep, gen=True),
                          workers=16, timeout=ctx.pick(300, 900), heap="8g",
                          note="exhaustive to %d requests (%s) / %d (others); witness history per transition" % (depth, ",".join(deep), shallow))
    cfgs, hists = cc.split_traces(r.traces)
    ctx.log("SSHAuthServer_Gen depth %d/%d: %d transitions, %d loop states, %d witness histories" % (depth, shallow, r.generated, r.distinct, len(hists)))
    r.traces = None
    cc.replay(ctx, "C32", cfgs, hists, "transition coverage depth %d" % depth)
    del hists
    if ctx.thorough:
        # 2. the full publickey product key x algorithm x format x signature kind (model level), after a priming request
        ctx.tlc_must_hold("SSHAuthServer_MCwide", cfg_text=cc.cfg_text("ConfigsGeneral", 128, 2, general=cc.CONFIGS, reqat="AtWide"), workers=16, timeout=900,
                          note="full publickey request product after a priming request")
        # 3. deeper exploration without printing
        ctx.tlc_must_hold("SSHAuthServer_MC", cfg_text=cc.cfg_text("ConfigsGeneral", 128, 6), workers=16, timeout=900,
                          note="exhaustive to 6 requests")
        # 4. random walks: the same loop states reached through other pasts
        r = ctx.tlc_must_hold("SSHAuthServer_Gen", cfg_text=cc.cfg_text("ConfigsGeneral", 128, 6, gen=True, simulate=True),
                              workers=1, simulate=3000, depth=7, timeout=600, count=False, note="random walks, depth 6")
        cfgs, hists = cc.split_traces(r.traces)
        cc.replay(ctx, "C32", cfgs, hists, "random walks")
    ctx.exhaustive = True
