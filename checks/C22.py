"""C22 — cryptobyte Builder output parses back to the values written.

Spec: spec/Builder.tla (+ Builder_MC.tla).  A program is a sequence of Builder calls (AddUintN,
AddBytes with sizes on the 127/128, 2^8, 2^16, 2^24 boundaries, nested u8/u16/u24/u32/ASN.1 children,
Unwrite, AddValue, SetError, BuildError panics, write-to-parent misuse); the model holds the output as a
token sequence, patches prefixes on close (fixed width: overflow error; ASN.1: long-form promotion that
shifts the content), models fixed-size capacity, and contains the mirrored String reader.
TLC (a) checks over all programs within the bounds: Bytes errs <=> overflow / error set / capacity;
emitted bytes parse back under the mirrored reads with nothing left over; fixed builders never exceed
capacity; (b) emits every complete program with the predicted outcome and layout, which the harness
interprets against the real Builder (growable, zero value, preallocated, prefixed, fixed-size with
capacity peak and peak-1) and reads back with the real String."""
import json, random, threading
import vlib

MC = {"quick": ["Small"], "thorough": ["Small", "SmallBig"]}
GEN = {"quick": ["GenQuick"], "thorough": ["GenBigA", "GenBigB", "GenBigC"]}
BIG = 1 << 20


def _parallel(jobs):
    res, errs = {}, []
    def work(name, fn):
        try:
            res[name] = fn()
        except BaseException as e:      # re-raised in the main thread
            errs.append(e)
    ts = [threading.Thread(target=work, args=(n, f)) for n, f in jobs]
    for t in ts: t.start()
    for t in ts: t.join()
    if errs:
        raise errs[0]
    return res


def run(ctx):
    ctx.level = "model_checking"
    ctx.rule = ("cases = complete Builder programs enumerated by TLC from spec/Builder.tla: all op sequences within the bounds of "
                "each Builder_Gen*.cfg (op alphabet, <= MaxOps calls, nesting <= MaxDepth, AddBytes sizes chosen so a frame's content "
                "reaches 127/128/255/256/65535/65536/2^24-1/2^24), plus seeded random walks (Builder_Sim*.cfg: <= 24 calls, depth <= 5); "
                "each replayed on the real Builder in several allocation variants; distinct = distinct (program, variant)")
    ctx.assumptions = ["data byte values are abstract in the model (harness uses position-dependent patterns and checks them)",
                       "u32 prefix overflow / ASN.1 content > 0xfffffffe need >= 4 GiB and are not materialised",
                       "Unwrite is only applied to bytes written directly to the current builder (documented contract); "
                       "unwriting into a finished child is outside the program space",
                       "programs with >= 1 MiB of output are replayed for a seeded sample only (each costs 16 MiB copies)"]
    if ctx.replay:
        case = json.load(open(ctx.replay))["violation"]["detail"]["case"]
        ctx.absorb(ctx.go_test("c22", "TestReplay", cases=[case], timeout=600, env={"VERIF_C22_MAXBIG": 10}))
        return
    # (a) exhaustive model checking of the design, (b) generators (the invariants are checked again on every
    # generated state; one worker each, ordered output), (c) seeded random walks -- all TLC runs in parallel
    jobs = []
    for m in MC[ctx.tier]:
        jobs.append(("MC:" + m, (lambda m=m: ctx.tlc_must_hold("Builder_MC", cfg="Builder_%s.cfg" % m, workers=ctx.pick(4, 8), timeout=2400,
                                                               coverage=(m == "Small" and ctx.thorough)))))
    for g in GEN[ctx.tier]:
        # every TRACE line is a self-contained program, so the generator may use several workers
        jobs.append((g, (lambda g=g: ctx.tlc_must_hold("Builder_MC", cfg="Builder_%s.cfg" % g, workers=ctx.pick(6, 4), timeout=2400,
                                                       heap="6g", note="generator"))))
    nsim = ctx.pick(1000, 8000)
    jobs.append(("Sim", (lambda: ctx.tlc("Builder_MC", cfg="Builder_Sim.cfg", workers=4, simulate=nsim // 4, depth=40,
                                         timeout=2400, heap="4g", note="random walks", count=False))))
    res = _parallel(jobs)
    rnd = random.Random(ctx.seed)
    maxbig = ctx.pick(6, 250)
    cases, seen, big = [], set(), []
    for name, r in res.items():
        if name.startswith("MC:"):
            if r.coverage_zero:
                ctx.notes.append("actions never taken in %s: %s" % (name, r.coverage_zero))
            continue
        if not r.ok:
            raise vlib.Infra("Builder model: %s violated in %s (design-level, not a verdict):\n%s" % (r.violated, name, (r.cex or "")[:4000]))
        if not r.traces:
            raise vlib.Infra("generator %s produced no programs" % name)
        ctx.log("%s: %d programs" % (name, len(r.traces)))
        for t in r.traces:
            k = (tuple(t["ops"]), t["cap"])
            if k in seen:
                continue
            seen.add(k)
            (big if t["peak"] >= BIG else cases).append(t)
    # all canonical single-frame huge programs (each kind x {2^24-1, 2^24}: the u24 overflow boundary), then a seeded sample
    head = [t for t in big if len(t["ops"]) <= 3]
    tail = [t for t in big if len(t["ops"]) > 3]
    tail.sort(key=lambda t: t["ops"])
    rnd.shuffle(tail)
    chosen = head + tail[:maxbig]
    ctx.extra["c22_huge_programs_generated"] = len(big)
    ctx.extra["c22_huge_programs_replayed"] = len(chosen)
    res = ctx.go_test("c22", "TestReplay", cases=cases + chosen, timeout=1500, env={"VERIF_C22_MAXBIG": len(chosen) + 1})
    ctx.absorb(res)
    ctx.exhaustive = True
    ctx.notes.append("exhaustive within each Builder_Gen*.cfg bound; Builder_Sim*.cfg are seeded random walks (not exhaustive)")
