"""C21 -- PKCS#12 decoding interoperates with OpenSSL legacy PFX files (partly applicable, kept modest).

Spec: spec/PKCS12.tla -- the decision Decode/ToPEM make, as the ordered stages of getSafeContents (BMP encoding of
the password, outer DER, version/MAC presence, MAC with the empty-password retry, PKCS#7 padding of the decrypted
bags, parsing) over (key type) x (file password class) x (given password) x (iterations) x (damage class), with the
property's clauses as invariants of the table; the BMPString encoding is an executable definition with ASSUMEd facts.
Binding R: TLC emits every case; the harness has `openssl pkcs12 -export -legacy` write the files (RSA and P-256 keys
with `openssl req -x509` certificates), applies the damage classes with a DER walker and compares the real Decode /
ToPEM.  If openssl or its legacy provider is missing the check exits 2."""
import os, subprocess, tempfile, shutil
import vlib


def _openssl_ok(ctx):
    if not ctx.have("openssl"):
        raise vlib.Infra("openssl is not installed: C21 is an interoperability property and cannot be decided without it")
    d = tempfile.mkdtemp(prefix="c21probe_", dir=ctx.scratch)
    try:
        def run(*a):
            return subprocess.run(["openssl"] + list(a), cwd=d, capture_output=True, text=True, timeout=120)
        v = run("version")
        r = run("req", "-x509", "-nodes", "-newkey", "ec", "-pkeyopt", "ec_paramgen_curve:P-256", "-keyout", "k.pem", "-out", "c.pem", "-subj", "/CN=probe", "-days", "2")
        if r.returncode != 0:
            raise vlib.Infra("openssl req -x509 failed: %s" % r.stderr[-500:])
        r = run("pkcs12", "-export", "-legacy", "-inkey", "k.pem", "-in", "c.pem", "-out", "p.pfx", "-passout", "pass:probe", "-iter", "2")
        if r.returncode != 0:
            raise vlib.Infra("openssl pkcs12 -export -legacy does not work here (legacy provider missing?): %s" % r.stderr[-500:])
        i = run("pkcs12", "-in", "p.pfx", "-legacy", "-info", "-noout", "-passin", "pass:probe")
        info = i.stdout + i.stderr
        if "pbeWithSHA1And40BitRC2-CBC" not in info or "pbeWithSHA1And3-KeyTripleDES-CBC" not in info or "MAC: sha1" not in info:
            raise vlib.Infra("openssl -legacy did not produce PBE-SHA1-RC2-40 / PBE-SHA1-3DES / HMAC-SHA1: %s" % info[-600:])
        return v.stdout.strip()
    finally:
        shutil.rmtree(d, ignore_errors=True)


def run(ctx):
    ctx.level = "model_checking"
    ctx.rule = ("cases = (key type rsa/p256) x (file password class ascii/latin/cjk/long/empty) x (given password same/other/empty string/"
                "non-BMP) x (iteration class) x (damage class none/outer tag/outer length/truncated/trailing/version/MAC digest/MAC salt/"
                "MAC iterations/content byte/re-authenticated bad padding), all enumerated by TLC from PKCS12.tla; distinct = distinct case; "
                "plus the empty-password-as-empty-bytes variant, every tag/length byte of four files changed seven ways, every truncation "
                "(quick: every 7th length), and seeded random byte mutations, counted as evaluations")
    ctx.assumptions = [
        "openssl 3.x with the legacy provider is the independent implementation the property names; its files are taken as the reference",
        "keys are compared by value (original parsed by the standard library), certificates byte for byte",
        "the RFC 7292 appendix-B key derivation is checked only through end-to-end decodes (a wrong derivation fails the MAC of every genuine file); the harness's own implementation of it (used to re-authenticate damaged files and to build the empty-bytes variant) must reproduce openssl's MAC on every file, otherwise the check stops with exit 2",
        "for damaged files the property asks for an error rather than a panic: a damage the decoder tolerates with exactly the original key and certificate is counted, not judged",
    ]
    ver = _openssl_ok(ctx)
    ctx.extra["openssl"] = ver
    q = "t" if ctx.thorough else "q"
    ctx.tlc_must_hold("PKCS12_MC", cfg="PKCS12_MC_%s.cfg" % q, workers=2, timeout=900)
    g = ctx.tlc_must_hold("PKCS12_MC", cfg="PKCS12_Gen_%s.cfg" % q, workers=1, timeout=900, count=False)
    if not g.traces:
        raise vlib.Infra("generator produced no cases")
    ctx.log("%d cases (%s)" % (len(g.traces), ver))
    res = ctx.go_test("c21", "^TestCases$", cases=g.traces, env={"VERIF_RAND": ctx.pick(1500, 40000)}, timeout=3000)
    ctx.absorb(res)
    if res.get("extra", {}).get("cases", 0) < len(g.traces) * 0.9:
        raise vlib.Infra("too few cases materialised: %s" % res.get("extra"))
    ctx.exhaustive = True
    ctx.notes.append("exhaustive over the modelled classes; passwords of class ascii/long, iteration counts rnd1/rnd2 and damage positions are seeded random within the class")
    ctx.notes.append("observations outside the verdict: Decode returns the BMP encoding error for a password with a non-BMP character while ToPEM returns ErrIncorrectPassword; "
                     "openssl omits MacData.iterations for -iter 1 (class mac-iter unrealisable there); encoding/asn1 tolerates some tag changes (NULL parameters, trailing elements of a SEQUENCE), counted as damage_tolerated/sweep_tolerated")
